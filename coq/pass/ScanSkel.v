(* C10 (iii): decision skeletons of the numerical passes with an accept test.
   bqskit/passes/processing/scan.py, treescan.py, exhaustive.py, iterative.py,
   substitute.py and bqskit/passes/retarget/two.py (auto.py has the same loop).

   The numerical kernels are ORACLES:
     - Circuit.instantiate changes parameters only.  A circuit state of the model is
       (structure, version): `version` names the instantiate call that last set the
       parameters (0 = the parameters of the input circuit).
     - the cost `self.cost(circuit, target)` against the ORIGINAL target (data.target is
       read once, before the loop) is `cost : nat -> grid -> Z`, a function of the
       version and the structure; costs and the threshold are integers in an arbitrary
       common unit.  Theorems quantify over every such function.
   Structure: a grid of cycles; a cycle is the list of its operations in iteration
   order; an operation is (unique id, location).  Definitions only; proofs in
   ScanSkelThm.v. *)
From Coq Require Import ZArith List Bool Arith.
Import ListNotations.

Definition sop := (nat * list nat)%type.        (* id, location *)
Definition oid (o : sop) : nat := fst o.
Definition oloc (o : sop) : list nat := snd o.
Definition cyc := list sop.
Definition grid := list cyc.

Definition num_cycles (g : grid) : nat := length g.
Definition all_ops (g : grid) : list sop := concat g.
Definition num_ops (g : grid) : nat := length (all_ops g).
Definition memn (q : nat) (l : list nat) : bool := existsb (Nat.eqb q) l.
Definition touchesq (q : nat) (o : sop) : bool := memn q (oloc o).

(* ---- Circuit.pop((cycle, qudit)) -------------------------------------------------
   IndexError when the cycle index is out of [-num_cycles, num_cycles) or no operation
   sits at the point; a negative cycle index counts from the end (normalize_point);
   a cycle that becomes empty is deleted (pop_cycle), nothing else moves. *)
Definition norm_cycle (g : grid) (c : Z) : option nat :=
  let n := Z.of_nat (num_cycles g) in
  if (c <? n)%Z && (- n <=? c)%Z then Some (Z.to_nat (if (c <? 0)%Z then n + c else c)) else None.

Fixpoint remove_touching (q : nat) (c : cyc) : option (sop * cyc) :=
  match c with
  | [] => None
  | o :: c' => if touchesq q o then Some (o, c')
               else match remove_touching q c' with
                    | Some (x, r) => Some (x, o :: r)
                    | None => None
                    end
  end.

Fixpoint pop_nth (g : grid) (i : nat) (q : nat) : option (sop * grid) :=
  match g, i with
  | [], _ => None
  | c :: g', O => match remove_touching q c with
                  | Some (x, []) => Some (x, g')
                  | Some (x, r) => Some (x, r :: g')
                  | None => None
                  end
  | c :: g', S i' => match pop_nth g' i' q with
                     | Some (x, r) => Some (x, c :: r)
                     | None => None
                     end
  end.

Definition pop (g : grid) (c : Z) (q : nat) : option (sop * grid) :=
  match norm_cycle g c with
  | Some i => pop_nth g i q
  | None => None
  end.

(* circuit.operations_with_cycles(): (cycle index, operation), cycle by cycle *)
Fixpoint iter_from (k : nat) (g : grid) : list (Z * sop) :=
  match g with
  | [] => []
  | c :: g' => map (fun o => (Z.of_nat k, o)) c ++ iter_from (S k) g'
  end.
Definition iter_fwd (g : grid) : list (Z * sop) := iter_from 0 g.

Definition first_qudit (o : sop) : nat := hd O (oloc o).

(* operations_with_cycles(reverse=True) (CircuitGridIterator): cycles descending; inside a
   cycle the qudits are walked downwards and an operation is yielded where it is first met,
   i.e. by decreasing highest qudit -- NOT the reverse of the forward order, which goes by
   location[0] *)
Definition max_qudit (o : sop) : nat := fold_right Nat.max O (oloc o).
Fixpoint insert_desc (x : sop) (l : list sop) : list sop :=
  match l with
  | [] => [x]
  | y :: l' => if Nat.leb (max_qudit y) (max_qudit x) then x :: l else y :: insert_desc x l'
  end.
Definition sort_desc (c : cyc) : cyc := fold_right insert_desc [] c.
Definition iter_rev (g : grid) : list (Z * sop) :=
  flat_map (fun kc => map (fun o => (Z.of_nat (fst kc), o)) (sort_desc (snd kc)))
           (rev (combine (seq 0 (length g)) g)).

(* ---- state shared by the removal skeletons ------------------------------------------- *)
Record st := mkSt {
  s_grid : grid;          (* circuit_copy: structure *)
  s_ver : nat;            (* version of its parameters (0 = input) *)
  s_calls : nat           (* number of instantiate/cost calls made so far *)
}.
Definition st0 (g : grid) : st := mkSt g 0 0.

Inductive res (A : Type) := Ok (a : A) | IndexErr.
Arguments Ok {A} a.
Arguments IndexErr {A}.

Section Oracles.
Variable cost : nat -> grid -> Z.     (* cost(version, structure) against the original target *)
Variable thr : Z.                     (* success_threshold *)

(* ---- ScanningGateRemovalPass.run ------------------------------------------------------
     for cycle, op in circuit.operations_with_cycles(reverse=not left):
         if not filter(op): continue
         working_copy = circuit_copy.copy()
         if left: cycle -= circuit.num_cycles - working_copy.num_cycles
         working_copy.pop((cycle, op.location[0]))
         working_copy.instantiate(target)
         if cost(working_copy, target) < threshold: circuit_copy = working_copy
     circuit.become(circuit_copy)                                                          *)
Definition scan_step (left : bool) (filt : sop -> bool) (orig : grid) (s : st) (co : Z * sop) : res st :=
  let '(c, o) := co in
  if negb (filt o) then Ok s
  else
    let c' := if left then (c - (Z.of_nat (num_cycles orig) - Z.of_nat (num_cycles (s_grid s))))%Z else c in
    match pop (s_grid s) c' (first_qudit o) with
    | None => IndexErr
    | Some (_, cand) =>
      let k := S (s_calls s) in
      if (cost k cand <? thr)%Z then Ok (mkSt cand k k) else Ok (mkSt (s_grid s) (s_ver s) k)
    end.

Fixpoint scan_loop (left : bool) (filt : sop -> bool) (orig : grid) (its : list (Z * sop)) (s : st) : res st :=
  match its with
  | [] => Ok s
  | co :: its' => match scan_step left filt orig s co with
                  | Ok s' => scan_loop left filt orig its' s'
                  | IndexErr => IndexErr
                  end
  end.

(* `its` is the iteration sequence of the ORIGINAL circuit (forward, or reversed) *)
Definition scan (left : bool) (filt : sop -> bool) (orig : grid) (its : list (Z * sop)) : res st :=
  scan_loop left filt orig its (st0 orig).

(* ---- TreeScanningGateRemovalPass ---------------------------------------------------------
   get_tree_circs(orig_num_cycles, circuit_copy, chunk):
       all = [circuit_copy]
       for cycle, op in chunk:
           new = []
           for circ in all:
               work = circ.copy(); work.pop((cycle - (orig_num_cycles - circ.num_cycles), op.location[0]))
               new.append(work); new.append(circ)
           all = new
       return sorted(all, key=num_operations)[:-1]
   NOTE: the code applies the compensation for BOTH scan directions (scan.py guards it with
   `if self.start_from_left`).  `comp` = is the compensation applied: `true` for the code as
   it stands; fixes/C10.T1.patch makes it `start_from_left`. *)
Fixpoint tree_expand (comp : bool) (orig_nc : nat) (all : list grid) (co : Z * sop) : res (list grid) :=
  match all with
  | [] => Ok []
  | circ :: rest =>
    let '(c, o) := co in
    match pop circ (if comp then c - (Z.of_nat orig_nc - Z.of_nat (num_cycles circ)) else c)%Z (first_qudit o) with
    | None => IndexErr
    | Some (_, work) => match tree_expand comp orig_nc rest co with
                        | Ok r => Ok (work :: circ :: r)
                        | IndexErr => IndexErr
                        end
    end
  end.
Fixpoint tree_circs_aux (comp : bool) (orig_nc : nat) (all : list grid) (chunk : list (Z * sop)) : res (list grid) :=
  match chunk with
  | [] => Ok all
  | co :: chunk' => match tree_expand comp orig_nc all co with
                    | Ok a => tree_circs_aux comp orig_nc a chunk'
                    | IndexErr => IndexErr
                    end
  end.
(* stable insertion sort by number of operations (Python's sorted is stable): elements are
   inserted from the right end, each in FRONT of the elements with an equal key *)
Fixpoint insert_by (x : grid) (l : list grid) : list grid :=
  match l with
  | [] => [x]
  | y :: l' => if Nat.leb (num_ops x) (num_ops y) then x :: l else y :: insert_by x l'
  end.
Definition sort_by_ops (l : list grid) : list grid := fold_right insert_by [] l.
Definition tree_circs (comp : bool) (orig_nc : nat) (base : grid) (chunk : list (Z * sop)) : res (list grid) :=
  match tree_circs_aux comp orig_nc [base] chunk with
  | Ok a => Ok (removelast (sort_by_ops a))
  | IndexErr => IndexErr
  end.

(* dists = [cost(c) for c in instantiated]; first i with dist < threshold wins.
   Every candidate is instantiated and costed (versions k+1 .. k+n). *)
Fixpoint first_success (k : nat) (cands : list grid) : option (grid * nat) :=
  match cands with
  | [] => None
  | c :: cs => if (cost (S k) c <? thr)%Z then Some (c, S k) else first_success (S k) cs
  end.

Fixpoint chunks (fuel d : nat) (l : list (Z * sop)) : list (list (Z * sop)) :=
  match fuel with
  | O => []
  | S f => match l with
           | [] => []
           | _ => firstn d l :: chunks f d (skipn d l)
           end
  end.

Fixpoint tree_loop (comp : bool) (orig_nc : nat) (chs : list (list (Z * sop))) (s : st) : res st :=
  match chs with
  | [] => Ok s
  | ch :: chs' =>
    match tree_circs comp orig_nc (s_grid s) ch with
    | IndexErr => IndexErr
    | Ok cands =>
      let k := s_calls s in
      let s' := match first_success k cands with
                | Some (c, v) => mkSt c v (k + length cands)
                | None => mkSt (s_grid s) (s_ver s) (k + length cands)
                end in
      tree_loop comp orig_nc chs' s'
    end
  end.
(* tree_depth d >= 1; `its` as for scan *)
Definition treescan (comp : bool) (d : nat) (orig : grid) (its : list (Z * sop)) : res st :=
  tree_loop comp (num_cycles orig) (chunks (S (length its)) d its) (st0 orig).

(* ---- ExhaustiveGateRemovalPass ----------------------------------------------------------
   frontier = [circuit]; while frontier: expand every element by every single removal,
   drop candidates whose CircuitStructure was seen in this round (`dedup`, an oracle
   that may only DROP candidates), instantiate all, keep those with cost < threshold,
   remember the one with the best score (strictly greater wins). *)
Variable dedup : nat -> list grid -> list grid.    (* round number -> candidates -> kept *)
Variable score : grid -> Z.

Definition removals (g : grid) : list grid :=
  flat_map (fun co => match pop g (fst co) (first_qudit (snd co)) with
                      | Some (_, r) => [r]
                      | None => []
                      end) (iter_fwd g).

Fixpoint exh_eval (k : nat) (cands : list grid) (best : option (grid * nat * Z)) : list (grid * nat) * option (grid * nat * Z) :=
  match cands with
  | [] => ([], best)
  | c :: cs =>
    let v := S k in
    if (cost v c <? thr)%Z then
      let best' := match best with
                   | Some (_, _, bs) => if (bs <? score c)%Z then Some (c, v, score c) else best
                   | None => Some (c, v, score c)       (* best_score = -inf *)
                   end in
      let '(fr, b) := exh_eval v cs best' in ((c, v) :: fr, b)
    else exh_eval v cs best
  end.

Fixpoint exh_loop (fuel round k : nat) (frontier : list (grid * nat)) (best : option (grid * nat * Z)) : option (option (grid * nat * Z)) :=
  match frontier with
  | [] => Some best
  | _ => match fuel with
         | O => None                          (* fuel exhausted: excluded by the theorems *)
         | S f =>
           let cands := dedup round (flat_map (fun cv => removals (fst cv)) frontier) in
           let '(fr, b) := exh_eval k cands best in
           exh_loop f (S round) (k + length cands) fr b
         end
  end.
Definition exhaustive (orig : grid) : option (grid * nat) :=
  match exh_loop (S (num_ops orig)) 0 0 [(orig, 0)] None with
  | Some (Some (g, v, _)) => Some (g, v)
  | Some None => Some (orig, 0)
  | None => None
  end.

(* ---- IterativeScanningGateRemovalPass: WhileLoopPass(ChangePredicate, scan) on narrow
   circuits: repeat the scan on its own output until a round changes nothing.  Each round
   re-reads data.target, which no pass in the loop modifies: the same original target. *)
End Oracles.

Section Iterative.
Variable cost : nat -> grid -> Z.
Variable thr : Z.
(* one scan round on circuit (g, ver); cost calls are numbered after the `offs` earlier ones *)
Definition scan_round (left : bool) (filt : sop -> bool) (g : grid) (ver offs : nat) : res (grid * nat * nat) :=
  match scan (fun k => cost (offs + k)) thr left filt g (if left then iter_fwd g else iter_rev g) with
  | IndexErr => IndexErr
  | Ok s => Ok (s_grid s, (if Nat.eqb (s_ver s) 0 then ver else offs + s_ver s), offs + s_calls s)
  end.
(* WhileLoopPass(ChangePredicate(), scan): run a round, repeat while the round changed the circuit *)
Fixpoint iter_scan (fuel : nat) (left : bool) (filt : sop -> bool) (g : grid) (ver offs : nat) : option (res (grid * nat)) :=
  match fuel with
  | O => None
  | S f =>
    match scan_round left filt g ver offs with
    | IndexErr => Some IndexErr
    | Ok (g', ver', offs') =>
      if Nat.eqb (num_ops g') (num_ops g) then Some (Ok (g', ver')) else iter_scan f left filt g' ver' offs'
    end
  end.
End Iterative.

(* ---- Rebase2QuditGatePass / AutoRebase2QuditGatePass: the `while g in circuit.gate_set`
   loop over an abstract circuit.  What a step sees of the circuit is
     - count g c       circuit.count(g) for each source gate (g in gate_set <-> count > 0)
     - block c         the point returned by group_near_gates(circuit, circuit.point(g), gates)
     - replace c t     circuit.copy().replace_with_circuit(point, template t), instantiated
     - unfold c        circuit.unfold(point) after the fold
   all oracles of the skeleton; the hypotheses the theorems need are stated there. *)
Section Rebase.
Variable C : Type.                       (* circuits (structure + parameters) *)
Variable T : Type.                       (* templates *)
Variable cost : nat -> C -> Z.           (* cost at call number k *)
Variable thr : Z.
Variable count : nat -> C -> nat.        (* count of source gate number j *)
Variable group : C -> C.                 (* fold the block around the first source gate *)
Variable replace : nat -> C -> T -> C.   (* call number, grouped circuit, template -> instantiated candidate *)
Variable unfold : C -> C.                (* undo the fold *)
Variable templates : list (T * nat).     (* circs with counts (number of new two-qudit gates) *)
Variable overdrive : T * nat.
Variable max_depth : nat.
Variable max_retries : Z.                (* -1: never *)

(* best successful candidate: least count, first wins on ties; best_count starts at max_depth + 2 *)
Fixpoint pick (k : nat) (c : C) (ts : list (T * nat)) (best : option (C * nat)) (best_count : nat) : option (C * nat) :=
  match ts with
  | [] => best
  | (t, n) :: ts' =>
    let cand := replace (S k) c t in
    if (cost (S k) cand <? thr)%Z && Nat.ltb n best_count
    then pick (S k) c ts' (Some (cand, S k)) n
    else pick (S k) c ts' best best_count
  end.

Record rst := mkR { r_c : C; r_k : nat; r_prev : nat; r_retries : nat; r_changed : bool }.

(* one iteration of the while loop for source gate j *)
Definition rebase_iter (j : nat) (s : rst) : rst :=
  let left := count j (r_c s) in
  let '(prev, retries) := if Nat.eqb (r_prev s) left then (r_prev s, S (r_retries s)) else (left, O) in
  let g := group (r_c s) in
  let ts := if (0 <=? max_retries)%Z && (max_retries <? Z.of_nat retries)%Z then templates ++ [overdrive] else templates in
  match pick (r_k s) g ts None (max_depth + 2) with
  | Some (c', _) => mkR c' (r_k s + length ts) prev retries true
  | None => mkR (unfold g) (r_k s + length ts) prev retries (r_changed s)
  end.

Fixpoint rebase_gate (fuel j : nat) (s : rst) : option rst :=
  if Nat.eqb (count j (r_c s)) 0 then Some s
  else match fuel with
       | O => None                         (* the real loop would still be running *)
       | S f => rebase_gate f j (rebase_iter j s)
       end.

Fixpoint rebase_all (fuel : nat) (js : list nat) (s : rst) : option rst :=
  match js with
  | [] => Some s
  | j :: js' =>
    match rebase_gate fuel j (mkR (r_c s) (r_k s) (count j (r_c s)) O (r_changed s)) with
    | Some s' => rebase_all fuel js' s'
    | None => None
    end
  end.
End Rebase.

(* ---- SubstitutePass: for every collected point try each sub-location; the first
   candidate with cost < threshold replaces the circuit (circuit.become) ------------------ *)
Section Substitute.
Variable C : Type.
Variable cost : nat -> C -> Z.
Variable thr : Z.
Variable subst : nat -> C -> nat -> nat -> C.   (* call k, circuit, point index, location index -> instantiated candidate *)

Fixpoint try_locs (k : nat) (c : C) (p : nat) (locs : list nat) : (option C) * nat :=
  match locs with
  | [] => (None, k)
  | l :: ls => let cand := subst (S k) c p l in
               if (cost (S k) cand <? thr)%Z then (Some cand, S k) else try_locs (S k) c p ls
  end.
Fixpoint subst_loop (k : nat) (c : C) (points : list (nat * list nat)) : C * nat :=
  match points with
  | [] => (c, k)
  | (p, locs) :: ps => match try_locs k c p locs with
                       | (Some c', k') => subst_loop k' c' ps
                       | (None, k') => subst_loop k' c ps
                       end
  end.
End Substitute.
