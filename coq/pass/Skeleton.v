(* C03 - decision skeletons of the search-based synthesis passes (no proofs here).

   Modelled code (bqskit/...):
     passes/search/frontier.py          Frontier.add / pop / empty / clear        -> frontier, f_add, pop_min
     passes/synthesis/qsearch.py        QSearchSynthesisPass.synthesize           -> qsearch
     passes/synthesis/leap.py           LEAPSynthesisPass.synthesize,
                                        check_new_best, check_leap_condition      -> leap, check_new_best, check_leap_condition
     passes/synthesis/synthesis.py      SynthesisPass.run                         -> synthesis_run
     passes/synthesis/target.py         SetTargetPass.run (+ PassData.target setter) -> set_target
     compiler/compile.py                compile(), list-input branch              -> compile_list (client loop)

   Everything numerical is an oracle argument: the layer generator, Circuit.instantiate,
   the cost function, the heuristic and (LEAP) the linear regression.  Costs and heuristic
   keys are integers (a real cost scaled by any fixed power of two); floats that are NaN
   are outside the model (assumption recorded in the evidence).

   The LEAP loop is, statement for statement, the QSearch loop with two hooks (the source
   carries a "TODO: Deduplicate" for this): the "new best" test and the prefix
   (re-rooting) block.  [search] is that common loop; [qsearch] and [leap] instantiate it. *)
From Coq Require Import ZArith List Bool Arith.
Import ListNotations.
Open Scope Z_scope.

Section Search.
Variable C : Type.                      (* circuits *)

(* ---- Frontier -------------------------------------------------------------------- *)
(* FrontierElement(cost, element_id, circuit, extra_data); heapq orders tuples
   lexicographically; element ids are unique so the order never reaches the circuit. *)
Record elem := mkElem { e_key : Z; e_id : nat; e_circ : C; e_layer : nat }.

Definition elem_ltb (a b : elem) : bool :=
  (e_key a <? e_key b) || ((e_key a =? e_key b) && (e_id a <? e_id b)%nat).

Fixpoint min_elem (m : elem) (l : list elem) : elem :=
  match l with
  | [] => m
  | x :: r => min_elem (if elem_ltb x m then x else m) r
  end.

Fixpoint remove_id (i : nat) (l : list elem) : list elem :=
  match l with
  | [] => []
  | x :: r => if (e_id x =? i)%nat then r else x :: remove_id i r
  end.

(* heappop: the least (key, id); None = IndexError, guarded by frontier.empty() *)
Definition pop_min (l : list elem) : option (elem * list elem) :=
  match l with
  | [] => None
  | x :: r => let m := min_elem x r in Some (m, remove_id (e_id m) l)
  end.

(* ---- oracles ---------------------------------------------------------------------- *)
Record oracles := mkOracles {
  o_init : C;                      (* gen_initial_layer(target) after .instantiate(target) *)
  o_succ : nat -> C -> list C;     (* gen_successors at the i-th pop (may be stateful: depends on i) *)
  o_inst : nat -> nat -> C -> C;   (* runtime.map(Circuit.instantiate): i-th pop, j-th successor *)
  o_cost : C -> Z;                 (* cost.calc_cost(circuit, target) *)
  o_key  : nat -> C -> Z;          (* heuristic_function(circuit, target) for the element with this id *)
}.

Record config := mkConfig {
  threshold : Z;                   (* success_threshold *)
  max_layer : option nat;          (* None = unlimited *)
}.

(* the two places where LEAP differs from QSearch *)
Record hooks := mkHooks {
  (* layer+1, dist, best_layer, best_dist *)
  h_newbest : nat -> Z -> nat -> Z -> bool;
  (* new_layer, best_dist, best_layers, best_dists, last_prefix_layer *)
  h_leap : nat -> Z -> list nat -> list Z -> nat -> bool;
}.

Inductive event :=
| EInit (c : C) (d : Z)
| EAdd (id : nat) (c : C) (layer : nat) (key : Z)
| EPop (i : nat) (c : C) (layer : nat)
| ENoSucc (i : nat)
| EEval (c : C) (d : Z)
| ENewBest (c : C) (layer : nat)
| EPrefix (c : C) (layer : nat)
| ESuccess (c : C) (layer : nat)
| EEmptied (c : C).

Record st := mkSt {
  s_front : list elem;             (* Frontier._frontier (as a bag) *)
  s_ctr : nat;                     (* Frontier._counter *)
  s_bd : Z; s_bc : C; s_bl : nat;  (* best_dist, best_circ, best_layer *)
  s_bls : list nat; s_bds : list Z;(* LEAP: best_layers, best_dists *)
  s_lpl : nat;                     (* LEAP: last_prefix_layer *)
  s_seen : list C;                 (* ghost: every circuit whose cost was computed, latest first *)
  s_tr : list event;               (* ghost: decision trace, latest first *)
}.

Inductive outcome :=
| Success (c : C)                  (* returned from a `dist < success_threshold` test *)
| Emptied (c : C)                  (* "Frontier emptied": best_circ *)
| OutOfFuel.                       (* model artefact: the real loop is still running *)

Variable orc : oracles.
Variable cfg : config.
Variable H : hooks.

Definition max_ok (layer1 : nat) : bool :=
  match max_layer cfg with None => true | Some m => (layer1 <? m)%nat end.

(* Frontier.add(circuit, layer) *)
Definition f_add (c : C) (layer : nat) (s : st) : st :=
  let k := o_key orc (s_ctr s) c in
  mkSt (s_front s ++ [mkElem k (s_ctr s) c layer]) (S (s_ctr s))
       (s_bd s) (s_bc s) (s_bl s) (s_bls s) (s_bds s) (s_lpl s) (s_seen s)
       (EAdd (s_ctr s) c layer k :: s_tr s).

Definition log (e : event) (s : st) : st :=
  mkSt (s_front s) (s_ctr s) (s_bd s) (s_bc s) (s_bl s) (s_bls s) (s_bds s) (s_lpl s) (s_seen s) (e :: s_tr s).

(* body of `for circuit in circuits:` for one circuit; inl = `return circuit` (with the state at that point) *)
Definition eval_one (layer : nat) (c : C) (s : st) : (C * st) + st :=
  let dist := o_cost orc c in
  let s := mkSt (s_front s) (s_ctr s) (s_bd s) (s_bc s) (s_bl s) (s_bls s) (s_bds s) (s_lpl s)
                (c :: s_seen s) (EEval c dist :: s_tr s) in
  if dist <? threshold cfg then inl (c, s)
  else
    let s :=
      if h_newbest H (S layer) dist (s_bl s) (s_bd s) then
        (* best_dist = dist; best_circ = circuit; best_layer = layer + 1 *)
        let fire := h_leap H (S layer) dist (s_bls s) (s_bds s) (s_lpl s) in
        (* check_leap_condition always appends to best_layers / best_dists *)
        let s := mkSt (s_front s) (s_ctr s) dist c (S layer)
                      (s_bls s ++ [S layer]) (s_bds s ++ [dist]) (s_lpl s) (s_seen s)
                      (ENewBest c (S layer) :: s_tr s) in
        if fire then
          (* last_prefix_layer = layer + 1; frontier.clear(); guarded add *)
          let s := mkSt [] (s_ctr s) (s_bd s) (s_bc s) (s_bl s) (s_bls s) (s_bds s) (S layer)
                        (s_seen s) (EPrefix c (S layer) :: s_tr s) in
          if max_ok (S layer) then f_add c (S layer) s else s
        else s
      else s in
    inr (if max_ok (S layer) then f_add c (S layer) s else s).

Fixpoint eval_all (layer : nat) (cs : list C) (s : st) : (C * st) + st :=
  match cs with
  | [] => inr s
  | c :: r => match eval_one layer c s with
              | inl x => inl x
              | inr s' => eval_all layer r s'
              end
  end.

Fixpoint mapi {A B} (f : nat -> A -> B) (j : nat) (l : list A) : list B :=
  match l with [] => [] | x :: r => f j x :: mapi f (S j) r end.

(* `while not frontier.empty():` ; i = number of pops so far, fuel bounds the pops *)
Fixpoint loop (fuel : nat) (i : nat) (s : st) : outcome * st :=
  match fuel with
  | O => (OutOfFuel, s)
  | S fuel' =>
    match pop_min (s_front s) with
    | None => (Emptied (s_bc s), log (EEmptied (s_bc s)) s)
    | Some (e, rest) =>
      let s := mkSt rest (s_ctr s) (s_bd s) (s_bc s) (s_bl s) (s_bls s) (s_bds s) (s_lpl s) (s_seen s)
                    (EPop i (e_circ e) (e_layer e) :: s_tr s) in
      match o_succ orc i (e_circ e) with
      | [] => loop fuel' (S i) (log (ENoSucc i) s)                  (* continue *)
      | succs =>
        match eval_all (e_layer e) (mapi (o_inst orc i) 0%nat succs) s with
        | inl (c, s') => (Success c, log (ESuccess c (S (e_layer e))) s')
        | inr s' => loop fuel' (S i) s'
        end
      end
    end
  end.

Definition init_state : st :=
  let c0 := o_init orc in
  let d0 := o_cost orc c0 in
  (* frontier.add(initial_layer, 0) happens before best_dist is computed *)
  let k := o_key orc 0%nat c0 in
  mkSt [mkElem k 0%nat c0 0%nat] 1%nat d0 c0 0%nat [0%nat] [d0] 0%nat [c0]
       [EInit c0 d0; EAdd 0%nat c0 0%nat k].

Definition search (fuel : nat) : outcome * st :=
  let s := init_state in
  if s_bd s <? threshold cfg then (Success (o_init orc), log (ESuccess (o_init orc) 0%nat) s)
  else loop fuel 0%nat s.

End Search.

Arguments mkElem {C}. Arguments e_key {C}. Arguments e_id {C}. Arguments e_circ {C}. Arguments e_layer {C}.
Arguments Success {C}. Arguments Emptied {C}. Arguments OutOfFuel {C}.
Arguments mapi {A B}.

(* ---- QSearch ---------------------------------------------------------------------- *)
(* `if dist < best_dist:`; no prefix block *)
Definition qsearch_hooks : hooks :=
  mkHooks (fun _ dist _ best_dist => dist <? best_dist) (fun _ _ _ _ _ => false).

Definition qsearch {C} (orc : oracles C) (cfg : config) (fuel : nat) := search C orc cfg qsearch_hooks fuel.

(* ---- LEAP ------------------------------------------------------------------------- *)
(* LEAPSynthesisPass.check_new_best *)
Definition check_new_best (thr : Z) (layer : nat) (dist : Z) (best_layer : nat) (best_dist : Z) : bool :=
  let better_layer := (dist <? best_dist) && ((thr <=? best_dist) || (layer <=? best_layer)%nat) in
  let better_dist_and_layer := (dist <? thr) && (layer <? best_layer)%nat in
  better_layer || better_dist_and_layer.

(* LEAPSynthesisPass.check_leap_condition.  [regress best_layers best_dists new_layer best_dist]
   is the numerical part: None when predicted_best is NaN, Some b with
   b = (m * new_layer + y_int - best_dist < 0) for the linregress fit (m, y_int). *)
Definition check_leap_condition (regress : list nat -> list Z -> nat -> Z -> option bool) (min_prefix : nat)
    (new_layer : nat) (best_dist : Z) (best_layers : list nat) (best_dists : list Z) (last_prefix_layer : nat) : bool :=
  match regress best_layers best_dists new_layer best_dist with
  | None => false
  | Some delta_neg =>
    let layers_added := Z.of_nat new_layer - Z.of_nat last_prefix_layer in   (* a Python int: may be negative *)
    delta_neg && (Z.of_nat min_prefix <=? layers_added)
  end.

Definition leap_hooks (thr : Z) (regress : list nat -> list Z -> nat -> Z -> option bool) (min_prefix : nat) : hooks :=
  mkHooks (check_new_best thr) (check_leap_condition regress min_prefix).

Definition leap {C} (orc : oracles C) (cfg : config) regress (min_prefix : nat) (fuel : nat) :=
  search C orc cfg (leap_hooks (threshold cfg) regress min_prefix) fuel.

(* Exact least-squares fit over the integers (scipy.stats.linregress in exact arithmetic):
   with n points, Sxx = n*sum x^2 - (sum x)^2, Sxy = n*sum xy - sum x * sum y,
   m = Sxy/Sxx, y_int = (sum y - m*sum x)/n;  m*L + y_int < d  <=>  Sxy*(n*L - sum x) + sum y * Sxx < d*n*Sxx
   because n*Sxx > 0.  Sxx = 0 (one point, or all x equal): NaN. *)
Fixpoint zsum (l : list Z) : Z := match l with [] => 0 | x :: r => x + zsum r end.
Fixpoint zdot (a b : list Z) : Z := match a, b with x :: r, y :: t => x * y + zdot r t | _, _ => 0 end.

Definition linreg_delta_neg (xs : list nat) (ys : list Z) (new_layer : nat) (best_dist : Z) : option bool :=
  let x := map Z.of_nat xs in
  let n := Z.of_nat (length xs) in
  let sx := zsum x in let sy := zsum ys in
  let sxx := n * zdot x x - sx * sx in
  let sxy := n * zdot x ys - sx * sy in
  if sxx =? 0 then None
  else Some (sxy * (n * Z.of_nat new_layer - sx) + sy * sxx <? best_dist * n * sxx).

(* ---- layer generators: size of the successor list -------------------------------- *)
(* SimpleLayerGenerator / FourParamGenerator.gen_successors: one successor per edge of
   data.connectivity (three gates appended on a copy).  SingleQuditLayerGenerator: one per
   gate, minus the repeated last gate unless allow_repeats. *)
Definition simple_successors {C E} (append_block : C -> E -> C) (edges : list E) (c : C) : list C :=
  map (append_block c) edges.
Definition single_successors {C G} (append_gate : C -> G -> C) (geq : G -> G -> bool) (allow_repeats : bool)
    (gates : list G) (last : option G) (c : C) : list C :=
  map (append_gate c)
      (filter (fun g => allow_repeats || negb (match last with Some l => geq g l | None => false end)) gates).

(* ---- PassData.target, SetTargetPass, SynthesisPass.run ---------------------------- *)
Section Passes.
Variables (C T : Type).
Variable width : T -> nat.              (* target.num_qudits *)

Record passdata := mkData {
  d_target : T;
  d_placement : list nat;
  d_error : Z;                          (* untouched by SetTargetPass and SynthesisPass.run *)
}.

(* PassData.target setter: placement is reset when its length differs *)
Definition set_target (t : T) (d : passdata) : passdata :=
  mkData t (if (length (d_placement d) =? width t)%nat then d_placement d else seq 0 (width t)) (d_error d).

(* a pass acts on (circuit, data); None = the pass raised / did not return *)
Definition pass := (C * passdata) -> option (C * passdata).

Definition set_target_pass (t : T) : pass := fun cd => Some (fst cd, set_target t (snd cd)).

(* circuit.become(await self.synthesize(data.target, data)) *)
Definition synthesis_run (synthesize : T -> passdata -> option C) : pass :=
  fun cd => match synthesize (d_target (snd cd)) (snd cd) with
            | Some c => Some (c, snd cd)
            | None => None
            end.

Fixpoint run_seq (ps : list pass) (cd : C * passdata) : option (C * passdata) :=
  match ps with
  | [] => Some cd
  | p :: r => match p cd with Some cd' => run_seq r cd' | None => None end
  end.
End Passes.
Arguments mkData {T}. Arguments d_target {T}. Arguments d_placement {T}. Arguments d_error {T}.

(* ---- compile(): list-input branch -------------------------------------------------- *)
(* job_ids = [compiler.submit(c, w, True) for ...]; results = [compiler.result(j) for j in job_ids].
   The compiler side: submit hands out a fresh id per task; tasks finish in any order;
   result(id) returns the stored result of that id.  [completed] is the server's result
   store in completion order. *)
Section ListPath.
Variables (I R : Type).                 (* typed input + workflow; (circuit, data) result *)

Fixpoint lookup (id : nat) (done : list (nat * R)) : option R :=
  match done with
  | [] => None
  | (j, r) :: rest => if (j =? id)%nat then Some r else lookup id rest
  end.

(* submit all: ids come from the compiler (any injective numbering) *)
Definition submit_all (fresh : nat -> nat) (inputs : list I) : list (nat * I) :=
  mapi (fun k x => (fresh k, x)) 0%nat inputs.

Fixpoint collect (ids : list nat) (done : list (nat * R)) : option (list R) :=
  match ids with
  | [] => Some []
  | j :: r => match lookup j done, collect r done with
              | Some x, Some xs => Some (x :: xs)
              | _, _ => None
              end
  end.

(* the whole client loop, given the order in which the server finished the tasks *)
Definition compile_list (fresh : nat -> nat) (run1 : I -> R) (finish_order : list (nat * I) -> list (nat * I))
    (inputs : list I) : option (list R) :=
  let jobs := submit_all fresh inputs in
  let done := map (fun ji => (fst ji, run1 (snd ji))) (finish_order jobs) in
  collect (map fst jobs) done.
End ListPath.

(* ---- PermutationAwareSynthesisPass.synthesize: permutation bookkeeping ------------------ *)
(* passes/synthesis/pas.py.  Everything numerical is an argument: [lmulT po t] = Po.T @ t,
   [rmul t pi] = t @ Pi (Po, Pi = PermutationMatrix.from_qudit_location of the tuples),
   [synth i t] = inner_synthesis.synthesize on the i-th target, [score] = scoring_fn.
   perms = it.permutations(range(width)), idp = tuple(range(width)). *)
Section PAS.
Variables (T C P : Type).
Variable perms : list P.
Variable idp : P.
Variable lmulT : P -> T -> T.
Variable rmul : T -> P -> T.
Variable synth : nat -> T -> C.
Variable score : C -> Z.

(* permsbyperms zipped with targets, in the order of it.product *)
Definition pas_candidates (input_perm output_perm : bool) (utry : T) : list ((P * P) * T) :=
  if input_perm && output_perm then
    flat_map (fun pi => map (fun po => ((pi, po), lmulT po (rmul utry pi))) perms) perms
  else if input_perm then map (fun pi => ((pi, idp), rmul utry pi)) perms
  else if output_perm then map (fun po => ((idp, po), lmulT po utry)) perms
  else [((idp, idp), utry)].

(* `if score < best_score:` - the first candidate of least score wins *)
Fixpoint pas_pick (best : (P * P) * C) (l : list ((P * P) * C)) : (P * P) * C :=
  match l with
  | [] => best
  | x :: r => pas_pick (if score (snd x) <? score (snd best) then x else best) r
  end.

(* returns (best_circuit, data['initial_mapping'], data['final_mapping']); None = circuits[0] IndexError *)
Definition pas (input_perm output_perm : bool) (utry : T) : option (C * P * P) :=
  let cands := pas_candidates input_perm output_perm utry in
  let circs := mapi (fun i pt => (fst pt, synth i (snd pt))) 0%nat cands in
  match circs with
  | [] => None
  | x :: r => let b := pas_pick x r in Some (snd b, fst (fst b), snd (fst b))
  end.
End PAS.
