(* C10 (i): theorems over the GENERATED rules (gen/RulePasses.v).  Everything here is
   decided by running a boolean checker with vm_compute on exact numbers, so a harmless
   edit of a rule pass re-proves unchanged and a harmful one (wrong sign, wrong gate,
   wrong location) makes this file fail to compile. *)
From Coq Require Import ZArith List Bool Arith Lia.
Import ListNotations.
From BQ Require Import lib.Cyclo pass.Rules pass.RulesThm gen.RulePasses.

(* ---- all generated rules pass the checker ------------------------------------ *)
Lemma rules_all_ok : forallb rule_ok all_rules = true.
Proof. vm_compute. reflexivity. Qed.

Definition widths_checked : list nat := [1; 2; 3; 4; 5].
Lemma rules_all_embedded :
  forallb (fun n => forallb (rule_embedded n) all_rules) widths_checked = true.
Proof. vm_compute. reflexivity. Qed.

Lemma rule_ok_parts r : rule_ok r = true -> rule_wf r = true /\ rule_exact r = true /\ rule_src_free r = true.
Proof. unfold rule_ok. intros H. apply andb_true_iff in H as [H H3]. apply andb_true_iff in H as [H1 H2]. auto. Qed.

Lemma in_rules_ok r : In r all_rules -> rule_ok r = true.
Proof. intros H. pose proof rules_all_ok as A. rewrite forallb_forall in A. apply A. exact H. Qed.

(* exact local identity: the replacement circuit IS the source gate (no phase) *)
Theorem rules_exact r : In r all_rules -> circ_den (r_width r) (r_repl r) = gate_mat (r_src r).
Proof.
  intros H. apply in_rules_ok in H. apply rule_ok_parts in H as (_ & H & _).
  apply Meqb_eq. exact H.
Qed.

(* `locs n k` enumerates every duplicate-free location of length k below n *)
Lemma mem_nat_In q l : mem_nat q l = true <-> In q l.
Proof. unfold mem_nat. rewrite existsb_exists. split.
  - intros (x & Hx & E). apply Nat.eqb_eq in E. subst. exact Hx.
  - intros H. exists q. split; auto. apply Nat.eqb_refl. Qed.

Lemma locs_complete n : forall k L, length L = k -> NoDup L -> (forall q, In q L -> q < n) -> In L (locs n k).
Proof.
  induction k as [|k IH]; intros L Hl Hnd Hlt.
  - destruct L; [left; reflexivity | discriminate].
  - destruct L as [|q l]; [discriminate|]. simpl in Hl. injection Hl as Hl.
    inversion Hnd as [|? ? Hq Hnd']; subst.
    simpl. apply in_flat_map. exists l. split.
    + apply IH; auto. intros x Hx. apply Hlt. right. exact Hx.
    + apply in_map_iff. exists q. split; auto. apply filter_In. split.
      * apply in_seq. split; [lia|]. simpl. apply Hlt. left. reflexivity.
      * apply negb_true_iff. destruct (mem_nat q l) eqn:E; auto. apply mem_nat_In in E. contradiction.
Qed.

(* the identity still holds when the replaced operation sits at ANY location of a
   register of width 1..5 (exhaustive over all locations, exact 2^n x 2^n matrices) *)
Theorem rules_embedded n r L :
  1 <= n <= 5 -> In r all_rules ->
  length L = r_width r -> NoDup L -> (forall q, In q L -> q < n) ->
  circ_den n (map (relocate L) (r_repl r)) = op_den n (r_src r, L).
Proof.
  intros Hn Hr Hl Hnd Hlt.
  pose proof rules_all_embedded as A. rewrite forallb_forall in A.
  assert (Hin : In n widths_checked).
  { unfold widths_checked. destruct n as [|[|[|[|[|[|n]]]]]]; simpl; auto 10; lia. }
  specialize (A n Hin). rewrite forallb_forall in A. specialize (A r Hr).
  unfold rule_embedded in A. rewrite forallb_forall in A.
  apply Meqb_eq. apply A. apply locs_complete; auto.
Qed.

(* ---- postcondition in one statement ------------------------------------------ *)
(* the pass looks for `src`; afterwards no `src` is left and every operation is an
   untouched non-source operation of the input or has a kind in `adv` *)
Definition rule_post (r : rule) (src : gate) (adv : list nat) : Prop :=
  r_src r = src /\
  forall c, count_kind (gate_kind src) (rewrite r c) = 0 /\
            (forall o, In o (rewrite r c) ->
                       (In o c /\ is_src r o = false) \/ In (gate_kind (fst o)) adv) /\
            length (rewrite r c) + count_kind (gate_kind src) c
              = length c + count_kind (gate_kind src) c * length (r_repl r).

Definition rule_post_check (r : rule) (adv : list nat) : bool :=
  rule_src_free r && forallb (fun g => mem_nat (gate_kind (fst g)) adv) (r_repl r).

Lemma rule_post_sound r src adv : r_src r = src -> rule_post_check r adv = true -> rule_post r src adv.
Proof.
  intros Hs Hc. unfold rule_post_check in Hc. apply andb_true_iff in Hc as [Hf Ha].
  split; [exact Hs|]. intros c. subst src. split; [|split].
  - apply rewrite_no_src. exact Hf.
  - intros o Ho. destruct (rewrite_introduces_only r c o Ho) as [H|(o' & g & _ & _ & Hg & ->)]; [left; exact H|].
    right. rewrite forallb_forall in Ha. specialize (Ha g Hg). apply mem_nat_In in Ha. exact Ha.
  - apply rewrite_length.
Qed.

(* ---- the individual rule passes ---------------------------------------------- *)
Definition k_ (g : gate) : nat := gate_kind g.
Ltac exact_rule := split; [reflexivity | apply Meqb_eq; vm_compute; reflexivity].
Ltac post_rule := apply rule_post_sound; [reflexivity | vm_compute; reflexivity].

Lemma CHToCNOT_exact : r_src rule_CHToCNOTPass = G_CH /\ circ_den 2 (r_repl rule_CHToCNOTPass) = gate_mat G_CH.
Proof. exact_rule. Qed.
Lemma CHToCNOT_post : rule_post rule_CHToCNOTPass G_CH [k_ G_CX; k_ (G_RY 0)].
Proof. post_rule. Qed.

Lemma CNOTToCH_exact : r_src rule_CNOTToCHPass = G_CX /\ circ_den 2 (r_repl rule_CNOTToCHPass) = gate_mat G_CX.
Proof. exact_rule. Qed.
Lemma CNOTToCH_post : rule_post rule_CNOTToCHPass G_CX [k_ G_CH; k_ (G_RY 0)].
Proof. post_rule. Qed.

Lemma CNOTToCY_exact : r_src rule_CNOTToCYPass = G_CX /\ circ_den 2 (r_repl rule_CNOTToCYPass) = gate_mat G_CX.
Proof. exact_rule. Qed.
Lemma CNOTToCY_post : rule_post rule_CNOTToCYPass G_CX [k_ G_CY; k_ G_S; k_ G_Sdg].
Proof. post_rule. Qed.

Lemma CNOTToCZ_exact : r_src rule_CNOTToCZPass = G_CX /\ circ_den 2 (r_repl rule_CNOTToCZPass) = gate_mat G_CX.
Proof. exact_rule. Qed.
Lemma CNOTToCZ_post : rule_post rule_CNOTToCZPass G_CX [k_ G_CZ; k_ G_H].
Proof. post_rule. Qed.

Lemma CYToCNOT_exact : r_src rule_CYToCNOTPass = G_CY /\ circ_den 2 (r_repl rule_CYToCNOTPass) = gate_mat G_CY.
Proof. exact_rule. Qed.
Lemma CYToCNOT_post : rule_post rule_CYToCNOTPass G_CY [k_ G_CX; k_ G_S; k_ G_Sdg].
Proof. post_rule. Qed.

Lemma CZToCNOT_exact : r_src rule_CZToCNOTPass = G_CZ /\ circ_den 2 (r_repl rule_CZToCNOTPass) = gate_mat G_CZ.
Proof. exact_rule. Qed.
Lemma CZToCNOT_post : rule_post rule_CZToCNOTPass G_CZ [k_ G_CX; k_ G_H].
Proof. post_rule. Qed.

Lemma SwapToCNOT_exact : r_src rule_SwapToCNOTPass = G_SWAP /\ circ_den 2 (r_repl rule_SwapToCNOTPass) = gate_mat G_SWAP.
Proof. exact_rule. Qed.
Lemma SwapToCNOT_post : rule_post rule_SwapToCNOTPass G_SWAP [k_ G_CX].
Proof. post_rule. Qed.

(* the generated catalogue is exactly these seven fixed rules (a new rule pass in
   /repo changes all_rules and must get its own statement) *)
Lemma catalogue_complete :
  all_rules = [rule_CHToCNOTPass; rule_CNOTToCHPass; rule_CNOTToCYPass; rule_CNOTToCZPass;
               rule_CYToCNOTPass; rule_CZToCNOTPass; rule_SwapToCNOTPass].
Proof. reflexivity. Qed.

(* sanity of the library itself: every gate matrix is unitary, and the row-wise
   application agrees with the explicit embedding on all locations of 3 qubits *)
Definition lib_gates : list gate :=
  [G_I; G_X; G_Y; G_Z; G_H; G_S; G_Sdg; G_T; G_Tdg; G_SX; G_RX 1%Z; G_RY 3%Z; G_RZ (-5)%Z; G_U1 7%Z;
   G_U3 1%Z 2%Z 3%Z; G_CX; G_CY; G_CZ; G_CH; G_CS; G_CT; G_SWAP; G_ISWAP; G_SQISW].
Lemma lib_unitary :
  forallb (fun g => Meqb (mmul (gate_mat g) (mdagger (gate_mat g))) (mid (Nat.pow 2 (gate_width g)))) lib_gates = true.
Proof. vm_compute. reflexivity. Qed.
Lemma apply_is_embed :
  forallb (fun g => forallb (fun L => Meqb (op_den 3 (g, L)) (embed 3 L (gate_mat g))) (locs 3 (gate_width g))) lib_gates = true.
Proof. vm_compute. reflexivity. Qed.
Lemma apply_is_product :
  forallb (fun g => forallb (fun L => Meqb (circ_den 3 [(G_SQISW, [2; 0]); (g, L)])
                                          (mmul (embed 3 L (gate_mat g)) (embed 3 [2; 0] M_SQISW)))
                            (locs 3 (gate_width g))) lib_gates = true.
Proof. vm_compute. reflexivity. Qed.
