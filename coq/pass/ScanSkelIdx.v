(* C10 (iii): the index compensation of the left-to-right scan.
   scan.py pops `(cycle - (circuit.num_cycles - working_copy.num_cycles), op.location[0])`
   where `cycle` is the operation's cycle in the ORIGINAL circuit.  Theorem
   `scan_left_intended`: for every well-formed circuit and every oracle, this pop never
   raises and removes exactly the operation being visited, i.e. the run equals the
   reference run that deletes operations by identity. *)
From Coq Require Import ZArith List Bool Arith Lia ZifyBool.
Import ListNotations.
From BQ Require Import pass.ScanSkel.

Definition ids (l : list sop) : list nat := map oid l.
Definition keep (rm : list nat) (o : sop) : bool := negb (memn (oid o) rm).
Definition nonempty (c : cyc) : bool := match c with [] => false | _ => true end.
(* the circuit with the operations whose id is in rm deleted; emptied cycles vanish *)
Definition prune (rm : list nat) (g : grid) : grid := filter nonempty (map (filter (keep rm)) g).

Record wf (g : grid) : Prop := {
  wf_ne : forall c, In c g -> c <> [];                          (* no idle cycle *)
  wf_ids : NoDup (ids (all_ops g));                              (* operations are distinct *)
  wf_loc : forall o, In o (all_ops g) -> oloc o <> [];
  wf_disj : forall c, In c g -> NoDup (concat (map oloc c))      (* one operation per qudit and cycle *)
}.

Lemma memn_In q l : memn q l = true <-> In q l.
Proof. unfold memn. rewrite existsb_exists. split.
  - intros (x & Hx & E). apply Nat.eqb_eq in E. subst. exact Hx.
  - intros H. exists q. split; auto. apply Nat.eqb_refl. Qed.

Lemma keep_nil o : keep [] o = true.
Proof. reflexivity. Qed.

Lemma filter_all {A} (f : A -> bool) l : (forall x, In x l -> f x = true) -> filter f l = l.
Proof. induction l as [|x l IH]; simpl; intros H; auto.
  rewrite (H x (or_introl eq_refl)). f_equal. apply IH. intros y Hy. apply H. right. exact Hy. Qed.

Lemma prune_id rm g :
  (forall c, In c g -> c <> []) -> (forall o, In o (all_ops g) -> ~ In (oid o) rm) -> prune rm g = g.
Proof.
  unfold prune. induction g as [|c g IH]; intros Hne Hrm; simpl; auto.
  assert (Hc : filter (keep rm) c = c).
  { apply filter_all. intros x Hx. unfold keep. apply negb_true_iff.
    destruct (memn (oid x) rm) eqn:E; auto. apply memn_In in E. exfalso.
    apply (Hrm x); auto. unfold all_ops. simpl. apply in_or_app. left. exact Hx. }
  rewrite Hc. destruct c as [|o c']; [exfalso; apply (Hne []); [left; reflexivity | reflexivity]|].
  simpl. f_equal. apply IH.
  - intros c0 H0. apply Hne. right. exact H0.
  - intros o0 H0. apply Hrm. unfold all_ops in *. change (concat ((o :: c') :: g)) with ((o :: c') ++ concat g).
    apply in_or_app. right. exact H0.
Qed.

Lemma prune_app rm a b : prune rm (a ++ b) = prune rm a ++ prune rm b.
Proof. unfold prune. rewrite map_app, filter_app. reflexivity. Qed.

Lemma prune_length rm g : length (prune rm g) <= length g.
Proof.
  unfold prune. induction g as [|x l IH]; simpl; auto. destruct (nonempty (filter (keep rm) x)); simpl; lia.
Qed.

(* keep only depends on membership of the id *)
Lemma filter_keep_cons_other rm i l :
  ~ In i (ids l) -> filter (keep (i :: rm)) l = filter (keep rm) l.
Proof.
  induction l as [|x l IH]; simpl; intros H; auto.
  assert (Hx : keep (i :: rm) x = keep rm x).
  { unfold keep. simpl. destruct (Nat.eqb (oid x) i) eqn:E; auto.
    apply Nat.eqb_eq in E. exfalso. apply H. left. auto. }
  rewrite Hx. rewrite IH by (intros Hi; apply H; right; exact Hi). reflexivity.
Qed.

Lemma prune_cons_other rm i g :
  ~ In i (ids (all_ops g)) -> prune (i :: rm) g = prune rm g.
Proof.
  unfold prune. induction g as [|c g IH]; simpl; intros H; auto.
  unfold all_ops, ids in H. simpl in H. rewrite map_app in H.
  rewrite filter_keep_cons_other by (intros Hi; apply H; apply in_or_app; left; exact Hi).
  rewrite IH by (intros Hi; apply H; apply in_or_app; right; exact Hi). reflexivity.
Qed.

(* ---- pop on a concatenation ------------------------------------------------------------- *)
Lemma pop_nth_app a c b q :
  pop_nth (a ++ c :: b) (length a) q =
  match remove_touching q c with
  | Some (x, []) => Some (x, a ++ b)
  | Some (x, r) => Some (x, a ++ r :: b)
  | None => None
  end.
Proof.
  induction a as [|c0 a IH]; simpl.
  - destruct (remove_touching q c) as [[x [|y r]]|]; reflexivity.
  - rewrite IH. destruct (remove_touching q c) as [[x [|y r]]|]; reflexivity.
Qed.

Lemma remove_touching_mid q a o b :
  (forall x, In x a -> touchesq q x = false) -> touchesq q o = true ->
  remove_touching q (a ++ o :: b) = Some (o, a ++ b).
Proof.
  induction a as [|x a IH]; simpl; intros Ha Ho.
  - rewrite Ho. reflexivity.
  - rewrite (Ha x (or_introl eq_refl)). rewrite IH; auto.
Qed.

Lemma NoDup_app_disj {A} (a b : list A) x : NoDup (a ++ b) -> In x a -> In x b -> False.
Proof.
  induction a as [|y a IH]; simpl; intros H Ha Hb; [destruct Ha|].
  inversion H; subst. destruct Ha as [<-|Ha].
  - apply H2. apply in_or_app. right. exact Hb.
  - eapply IH; eauto.
Qed.

Lemma NoDup_app_r {A} (a b : list A) : NoDup (a ++ b) -> NoDup b.
Proof. induction a; simpl; auto. intros H. inversion H; auto. Qed.

Lemma first_qudit_In o : oloc o <> [] -> In (first_qudit o) (oloc o).
Proof. unfold first_qudit. destruct (oloc o); [congruence | intros _; left; reflexivity]. Qed.

(* operations earlier in the same cycle do not touch o's first qudit *)
Lemma cycle_before_disjoint a o b x :
  NoDup (concat (map oloc (a ++ o :: b))) -> oloc o <> [] -> In x a -> touchesq (first_qudit o) x = false.
Proof.
  intros H Hl Hx. destruct (touchesq (first_qudit o) x) eqn:E; auto. exfalso.
  unfold touchesq in E. apply memn_In in E.
  rewrite map_app, concat_app in H. simpl in H.
  eapply (NoDup_app_disj _ _ (first_qudit o) H).
  - apply in_concat. exists (oloc x). split; [apply in_map; exact Hx | exact E].
  - apply in_or_app. left. apply first_qudit_In. exact Hl.
Qed.

Lemma idx_arith (lp lq a : nat) : a <= lp ->
  let n := Z.of_nat (a + S lq) in
  let c := (Z.of_nat lp - (Z.of_nat (lp + S lq) - n))%Z in
  ((c <? n)%Z && (- n <=? c)%Z = true) /\ Z.to_nat (if (c <? 0)%Z then n + c else c)%Z = a.
Proof.
  intros H n c. assert (Hc : c = Z.of_nat a) by (unfold c, n; lia).
  rewrite Hc. split.
  - apply andb_true_iff. split; [apply Z.ltb_lt | apply Z.leb_le]; unfold n; lia.
  - destruct (Z.of_nat a <? 0)%Z eqn:E; [apply Z.ltb_lt in E; lia | apply Nat2Z.id].
Qed.

(* ---- the key step ---------------------------------------------------------------------------
   orig = pre ++ (c1 ++ o :: c2) :: post, everything removed so far was visited before o *)
Lemma pop_prune pre c1 o c2 post rm :
  let orig := pre ++ (c1 ++ o :: c2) :: post in
  wf orig ->
  (forall i, In i rm -> In i (ids (concat pre ++ c1))) ->
  pop (prune rm orig)
      (Z.of_nat (length pre) - (Z.of_nat (num_cycles orig) - Z.of_nat (num_cycles (prune rm orig))))
      (first_qudit o)
  = Some (o, prune (oid o :: rm) orig).
Proof.
  intros orig W Hrm.
  assert (Hall : all_ops orig = concat pre ++ (c1 ++ o :: c2) ++ concat post).
  { unfold orig, all_ops. rewrite concat_app. simpl. reflexivity. }
  pose proof (wf_ids _ W) as Hnd. rewrite Hall in Hnd. unfold ids in Hnd.
  rewrite !map_app in Hnd. simpl in Hnd.
  (* id of o is fresh w.r.t. everything else *)
  assert (Ho_pre : ~ In (oid o) (ids (concat pre))).
  { intros H. eapply (NoDup_app_disj _ _ (oid o) Hnd); [exact H|].
    apply in_or_app. left. apply in_or_app. right. left. reflexivity. }
  assert (Hnd2 : NoDup (map oid c1 ++ oid o :: map oid c2 ++ map oid (concat post))).
  { apply NoDup_app_r in Hnd. rewrite <- app_assoc in Hnd. simpl in Hnd. exact Hnd. }
  assert (Ho_c1 : ~ In (oid o) (map oid c1)).
  { intros H. eapply (NoDup_app_disj _ _ (oid o) Hnd2); [exact H | left; reflexivity]. }
  assert (Hnd3 : NoDup (oid o :: map oid c2 ++ map oid (concat post))) by (apply NoDup_app_r in Hnd2; exact Hnd2).
  assert (Ho_rest : ~ In (oid o) (map oid c2 ++ map oid (concat post))) by (inversion Hnd3; auto).
  assert (Ho_rm : ~ In (oid o) rm).
  { intros H. apply Hrm in H. unfold ids in H. rewrite map_app in H. apply in_app_or in H as [H|H]; auto. }
  (* nothing after o (same cycle or later) has been removed *)
  assert (Hlater : forall x, In x (c2 ++ concat post) -> ~ In (oid x) rm).
  { intros x Hx Hi. apply Hrm in Hi. unfold ids in Hi. rewrite map_app in Hi.
    assert (Hx' : In (oid x) (map oid c2 ++ map oid (concat post))).
    { rewrite <- map_app. apply in_map. exact Hx. }
    apply in_app_or in Hi as [Hi|Hi].
    - eapply (NoDup_app_disj _ _ (oid x) Hnd); [exact Hi|].
      apply in_or_app. left. apply in_or_app. right. right.
      apply in_app_or in Hx' as [Hx'|Hx']; [exact Hx'|].
      (* x in post: need it inside the first big app: not there; use the other side *)
      exfalso. eapply (NoDup_app_disj _ _ (oid x) Hnd); [exact Hi|]. apply in_or_app. right. exact Hx'.
    - eapply (NoDup_app_disj _ _ (oid x) Hnd2); [exact Hi|]. right. exact Hx'. }
  assert (Hpost : prune rm post = post /\ prune (oid o :: rm) post = post).
  { split; apply prune_id.
    - intros c Hc. apply (wf_ne _ W). unfold orig. apply in_or_app. right. right. exact Hc.
    - intros x Hx. apply Hlater. apply in_or_app. right. exact Hx.
    - intros c Hc. apply (wf_ne _ W). unfold orig. apply in_or_app. right. right. exact Hc.
    - intros x Hx [Hi|Hi].
      + apply Ho_rest. apply in_or_app. right. rewrite Hi. apply in_map. exact Hx.
      + revert Hi. apply Hlater. apply in_or_app. right. exact Hx. }
  destruct Hpost as [Hpost1 Hpost2].
  assert (Hc2 : filter (keep rm) c2 = c2 /\ filter (keep (oid o :: rm)) c2 = c2).
  { split; apply filter_all; intros x Hx; unfold keep; apply negb_true_iff.
    - destruct (memn (oid x) rm) eqn:E; auto. apply memn_In in E. exfalso. revert E. apply Hlater. apply in_or_app. left. exact Hx.
    - destruct (memn (oid x) (oid o :: rm)) eqn:E; auto. apply memn_In in E. exfalso. destruct E as [E|E].
      + apply Ho_rest. apply in_or_app. left. rewrite E. apply in_map. exact Hx.
      + revert E. apply Hlater. apply in_or_app. left. exact Hx. }
  destruct Hc2 as [Hc2a Hc2b].
  assert (Hko : keep rm o = true).
  { unfold keep. apply negb_true_iff. destruct (memn (oid o) rm) eqn:E; auto. apply memn_In in E. contradiction. }
  assert (Hko' : keep (oid o :: rm) o = false).
  { unfold keep. apply negb_false_iff. apply memn_In. left. reflexivity. }
  (* shape of the pruned grids *)
  assert (Hshape : prune rm orig = prune rm pre ++ (filter (keep rm) c1 ++ o :: c2) :: post).
  { unfold orig. rewrite prune_app. f_equal. change ((c1 ++ o :: c2) :: post) with ([c1 ++ o :: c2] ++ post).
    rewrite prune_app, Hpost1. unfold prune. simpl. rewrite filter_app. simpl. rewrite Hko, Hc2a.
    destruct (filter (keep rm) c1); reflexivity. }
  assert (Hshape' : prune (oid o :: rm) orig =
            prune rm pre ++ match filter (keep rm) c1 ++ c2 with [] => post | r => r :: post end).
  { unfold orig. rewrite prune_app. rewrite (prune_cons_other rm (oid o) pre) by exact Ho_pre. f_equal.
    change ((c1 ++ o :: c2) :: post) with ([c1 ++ o :: c2] ++ post).
    rewrite prune_app, Hpost2. unfold prune. simpl. rewrite filter_app. simpl. rewrite Hko', Hc2b.
    rewrite (filter_keep_cons_other rm (oid o) c1) by exact Ho_c1.
    destruct (filter (keep rm) c1 ++ c2); reflexivity. }
  (* the compensated index is the position of o's cycle in the pruned grid *)
  assert (Hidx : norm_cycle (prune rm orig)
           (Z.of_nat (length pre) - (Z.of_nat (num_cycles orig) - Z.of_nat (num_cycles (prune rm orig))))
           = Some (length (prune rm pre))).
  { unfold norm_cycle, num_cycles. rewrite Hshape. unfold orig. rewrite !app_length. cbn [length].
    pose proof (prune_length rm pre) as Hle.
    destruct (idx_arith (length pre) (length post) (length (prune rm pre)) Hle) as [A1 A2].
    cbv zeta in A1, A2.
    match goal with |- (if ?b then _ else _) = _ => replace b with true by (symmetry; exact A1) end.
    f_equal. exact A2. }
  unfold pop. rewrite Hidx. rewrite Hshape at 1. rewrite pop_nth_app.
  rewrite remove_touching_mid.
  - rewrite Hshape'. destruct (filter (keep rm) c1 ++ c2); reflexivity.
  - intros x Hx. apply filter_In in Hx as [Hx _].
    eapply cycle_before_disjoint; [| |exact Hx].
    + apply (wf_disj _ W). unfold orig. apply in_or_app. right. left. reflexivity.
    + apply (wf_loc _ W). rewrite Hall. apply in_or_app. right. apply in_or_app. left. apply in_or_app. right. left. reflexivity.
  - unfold touchesq. apply memn_In. apply first_qudit_In.
    apply (wf_loc _ W). rewrite Hall. apply in_or_app. right. apply in_or_app. left. apply in_or_app. right. left. reflexivity.
Qed.

Lemma ids_grow (pre : grid) c1 (o : sop) i : In i (ids (concat pre ++ c1)) -> In i (ids (concat pre ++ (c1 ++ [o]))).
Proof. unfold ids. rewrite !map_app. intros H. apply in_app_or in H as [H|H]; apply in_or_app; auto.
  right. apply in_or_app. left. exact H. Qed.
Lemma ids_new (pre : grid) c1 (o : sop) : In (oid o) (ids (concat pre ++ (c1 ++ [o]))).
Proof. unfold ids. rewrite !map_app. apply in_or_app. right. apply in_or_app. right. left. reflexivity. Qed.

(* ---- the reference run: delete by identity ------------------------------------------------- *)
Section Ref.
Variable cost : nat -> grid -> Z.
Variable thr : Z.
Variable filt : sop -> bool.

Fixpoint ref_loop (orig : grid) (its : list (Z * sop)) (rm : list nat) (ver calls : nat) : list nat * nat * nat :=
  match its with
  | [] => (rm, ver, calls)
  | (_, o) :: its' =>
    if negb (filt o) then ref_loop orig its' rm ver calls
    else let k := S calls in
         if (cost k (prune (oid o :: rm) orig) <? thr)%Z then ref_loop orig its' (oid o :: rm) k k
         else ref_loop orig its' rm ver k
  end.

Definition ref_result (orig : grid) (r : list nat * nat * nat) : res st :=
  let '(rm, v, k) := r in Ok (mkSt (prune rm orig) v k).

Lemma scan_cycles orig : wf orig -> forall post pre c1 c2 rm ver calls,
  orig = pre ++ (c1 ++ c2) :: post ->
  (forall i, In i rm -> In i (ids (concat pre ++ c1))) ->
  let its := map (fun o => (Z.of_nat (length pre), o)) c2 ++ iter_from (S (length pre)) post in
  scan_loop cost thr true filt orig its (mkSt (prune rm orig) ver calls)
  = ref_result orig (ref_loop orig its rm ver calls).
Proof.
  intros W. induction post as [|cy post IHpost]; intros pre c1 c2; revert c1;
  induction c2 as [|o c2 IHc2]; intros c1 rm ver calls Horig Hrm its; unfold its; simpl.
  - reflexivity.
  - (* visit o *)
    unfold scan_step. destruct (negb (filt o)) eqn:F.
    + simpl. apply (IHc2 (c1 ++ [o])).
      * rewrite <- app_assoc. exact Horig.
      * intros i Hi. apply ids_grow. apply Hrm. exact Hi.
    + cbn [s_grid s_calls s_ver].
      assert (P := pop_prune pre c1 o c2 [] rm). cbv zeta in P. rewrite <- Horig in P.
      rewrite (P W Hrm). clear P.
      destruct (cost (S calls) (prune (oid o :: rm) orig) <? thr)%Z.
      * apply (IHc2 (c1 ++ [o])).
        -- rewrite <- app_assoc. exact Horig.
        -- intros i [<-|Hi]; [apply ids_new | apply ids_grow; apply Hrm; exact Hi].
      * apply (IHc2 (c1 ++ [o])).
        -- rewrite <- app_assoc. exact Horig.
        -- intros i Hi. apply ids_grow. apply Hrm. exact Hi.
  - (* cycle finished, next cycle cy *)
    specialize (IHpost (pre ++ [c1]) [] cy rm ver calls).
    rewrite app_length in IHpost. simpl in IHpost. rewrite Nat.add_1_r in IHpost.
    apply IHpost.
    + rewrite <- app_assoc. simpl. rewrite app_nil_r in Horig. exact Horig.
    + intros i Hi. apply Hrm in Hi. rewrite concat_app. simpl. rewrite !app_nil_r. exact Hi.
  - unfold scan_step. destruct (negb (filt o)) eqn:F.
    + simpl. apply (IHc2 (c1 ++ [o])).
      * rewrite <- app_assoc. exact Horig.
      * intros i Hi. apply ids_grow. apply Hrm. exact Hi.
    + cbn [s_grid s_calls s_ver].
      assert (P := pop_prune pre c1 o c2 (cy :: post) rm). cbv zeta in P. rewrite <- Horig in P.
      rewrite (P W Hrm). clear P.
      destruct (cost (S calls) (prune (oid o :: rm) orig) <? thr)%Z.
      * apply (IHc2 (c1 ++ [o])).
        -- rewrite <- app_assoc. exact Horig.
        -- intros i [<-|Hi]; [apply ids_new | apply ids_grow; apply Hrm; exact Hi].
      * apply (IHc2 (c1 ++ [o])).
        -- rewrite <- app_assoc. exact Horig.
        -- intros i Hi. apply ids_grow. apply Hrm. exact Hi.
Qed.

(* C10_scan_left_intended *)
Theorem scan_left_intended orig :
  wf orig ->
  scan cost thr true filt orig (iter_fwd orig) = ref_result orig (ref_loop orig (iter_fwd orig) [] 0 0).
Proof.
  intros W. unfold scan, st0, iter_fwd. destruct orig as [|c post].
  - reflexivity.
  - pose proof (scan_cycles (c :: post) W post [] [] c [] 0 0 eq_refl) as H.
    simpl in H. rewrite prune_id in H.
    + apply H. intros i [].
    + apply (wf_ne _ W).
    + intros o _ [].
Qed.

Corollary scan_left_never_raises orig : wf orig -> scan cost thr true filt orig (iter_fwd orig) <> IndexErr.
Proof.
  intros W. rewrite scan_left_intended by exact W.
  destruct (ref_loop orig (iter_fwd orig) [] 0 0) as [[rm v] k]. discriminate.
Qed.
End Ref.
