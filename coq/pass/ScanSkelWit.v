(* C10 (iii): machine-checked witnesses about the faithful tree-scan model.
   TreeScanningGateRemovalPass.get_tree_circs applies the left-scan cycle compensation
   for both directions; scanning from the right this addresses the wrong cycle. *)
From Coq Require Import ZArith List Bool Arith.
Import ListNotations.
From BQ Require Import pass.ScanSkel pass.ScanSkelIdx.

Definition w4 : grid := [[(0, [0])]; [(1, [0])]; [(2, [0])]; [(3, [0])]].
Definition w3 : grid := [[(0, [0])]; [(1, [0])]; [(2, [0])]].
(* accept the first two candidates only / accept everything; threshold 5 *)
Definition cost12 (k : nat) (_ : grid) : Z := if Nat.leb k 2 then 0%Z else 10%Z.
Definition cost0 (_ : nat) (_ : grid) : Z := 0%Z.

Lemma wf_w4 : wf w4.
Proof.
  split.
  - intros c H. simpl in H. intuition (subst; discriminate).
  - repeat constructor; simpl; intuition discriminate.
  - intros o H. simpl in H. intuition (subst; discriminate).
  - intros c H. simpl in H. intuition (subst; repeat constructor; simpl; auto).
Qed.
Lemma wf_w3 : wf w3.
Proof.
  split.
  - intros c H. simpl in H. intuition (subst; discriminate).
  - repeat constructor; simpl; intuition discriminate.
  - intros o H. simpl in H. intuition (subst; discriminate).
  - intros c H. simpl in H. intuition (subst; repeat constructor; simpl; auto).
Qed.

(* right-to-left, depth 1: the visits of operations 3 and 2 are accepted, yet the circuit
   committed has lost operations 3 and 1 -- operation 2 (visited, "removed") survives *)
Lemma treescan_right_wrong_operation :
  treescan cost12 5 true 1 w4 (rev (iter_fwd w4)) = Ok (mkSt [[(0, [0])]; [(2, [0])]] 2 4).
Proof. vm_compute. reflexivity. Qed.
(* with every candidate accepted the third pop is out of range: IndexError *)
Lemma treescan_right_raises : treescan cost0 5 true 1 w3 (rev (iter_fwd w3)) = IndexErr.
Proof. vm_compute. reflexivity. Qed.
(* the plain scan handles the same inputs: exactly the visited operations go *)
Lemma scan_right_same_inputs :
  scan cost12 5 false (fun _ => true) w4 (rev (iter_fwd w4)) = Ok (mkSt [[(0, [0])]; [(1, [0])]] 2 4)
  /\ scan cost0 5 false (fun _ => true) w3 (rev (iter_fwd w3)) = Ok (mkSt [] 3 3).
Proof. split; vm_compute; reflexivity. Qed.
(* with the guard of fixes/C10.T1.patch (no compensation when scanning from the right) the
   same runs remove exactly the visited operations *)
Lemma treescan_right_guarded :
  treescan cost12 5 false 1 w4 (rev (iter_fwd w4)) = Ok (mkSt [[(0, [0])]; [(1, [0])]] 2 4)
  /\ treescan cost0 5 false 1 w3 (rev (iter_fwd w3)) = Ok (mkSt [] 3 3).
Proof. split; vm_compute; reflexivity. Qed.
(* and the tree scan from the left is fine on them *)
Lemma treescan_left_same_inputs :
  treescan cost12 5 true 1 w4 (iter_fwd w4) = Ok (mkSt [[(2, [0])]; [(3, [0])]] 2 4).
Proof. vm_compute. reflexivity. Qed.
