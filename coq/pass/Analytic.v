(* C10 (iv): the algebra behind the analytic decompositions, over abstract rings.
   Definitions only; identities in AnalyticThm.v.

   Part A (ZXZXZDecomposition, rules/zxzxz.py): 2x2 matrices over a commutative ring R
   containing i, 1/2 and, for an angle x, the unit e^{ix/2} with its inverse.
   Part B (QSDPass.create_multiplexed_circ / BlockZXZPass.demultiplex and the recombination
   in QSDPass.qsd): 2x2 BLOCK matrices over a non-commutative ring of blocks. *)
Section M2.
Variable R : Type.
Variables (r0 r1 : R) (radd rmul : R -> R -> R) (ropp : R -> R).
Notation "x + y" := (radd x y). Notation "x * y" := (rmul x y). Notation "- x" := (ropp x).

Definition M2 := (R * R * R * R)%type.      (* m11, m12, m21, m22 *)
Definition mmul2 (a b : M2) : M2 :=
  let '(a11, a12, a21, a22) := a in let '(b11, b12, b21, b22) := b in
  (a11 * b11 + a12 * b21, a11 * b12 + a12 * b22, a21 * b11 + a22 * b21, a21 * b12 + a22 * b22).
Definition scale2 (k : R) (a : M2) : M2 :=
  let '(a11, a12, a21, a22) := a in (k * a11, k * a12, k * a21, k * a22).
Definition diag2 (x y : R) : M2 := (x, r0, r0, y).

(* gates in terms of half-angle phases: for RZ(theta), z = e^{i theta/2}, z' = 1/z *)
Definition RZm (z z' : R) : M2 := diag2 z' z.
Definition U1m (z : R) : M2 := diag2 r1 (z * z).                  (* U1(theta) = diag(1, e^{i theta}) *)
Definition SXm (i h : R) : M2 := (h * (r1 + i), h * (r1 + - i), h * (r1 + - i), h * (r1 + i)).
(* U3 given cos(theta/2), sin(theta/2), e^{i phi}, e^{i lambda} *)
Definition U3m (k s ephi elam : R) : M2 := (k, - (elam * s), ephi * s, ephi * elam * k).
End M2.

Section Blocks.
Variable B : Type.                      (* n x n blocks *)
Variables (b0 b1 : B) (badd bmul : B -> B -> B).
Definition BM := (B * B * B * B)%type.
Definition bmmul (a b : BM) : BM :=
  let '(a11, a12, a21, a22) := a in let '(b11, b12, b21, b22) := b in
  (badd (bmul a11 b11) (bmul a12 b21), badd (bmul a11 b12) (bmul a12 b22),
   badd (bmul a21 b11) (bmul a22 b21), badd (bmul a21 b12) (bmul a22 b22)).
Definition bdiag (x y : B) : BM := (x, b0, b0, y).     (* x (+) y: a multiplexed gate / I (x) V when x = y *)
End Blocks.

(* Part C (MGDPass): a multiplexed rotation MPR(n, t) on location loc is handed to the
   target-last decomposition on the location `mgd_loc t loc`: the target qudit moves to the
   end, the select qudits keep their relative order (the gate's angles are indexed by the
   select values in that order).  `rot_loc` is the cyclic rotation, which also puts the
   target last but permutes the selects unless t is the first or last position. *)
From Coq Require Import List.
Import ListNotations.
Definition mgd_loc (t : nat) (loc : list nat) : list nat := firstn t loc ++ skipn (S t) loc ++ [nth t loc O].
Definition rot_loc (t : nat) (loc : list nat) : list nat := skipn (S t) loc ++ firstn (S t) loc.
Definition selects (t : nat) (loc : list nat) : list nat := firstn t loc ++ skipn (S t) loc.
