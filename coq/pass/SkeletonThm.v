(* C03 - theorems about pass/Skeleton.v, for every oracle behaviour. *)
From Coq Require Import ZArith List Bool Arith Lia ZifyBool Permutation.
Import ListNotations.
From BQ Require Import pass.Skeleton.
Open Scope Z_scope.

Section SearchThm.
Variable C : Type.
Variable orc : oracles C.
Variable cfg : config.
Variable H : hooks.

Notation cost := (o_cost C orc).
Notation thr := (threshold cfg).
Notation st := (st C).

(* circuits whose cost was computed, read back from the decision trace *)
Fixpoint seen_of_trace (tr : list (event C)) : list C :=
  match tr with
  | [] => []
  | EInit _ c _ :: r => c :: seen_of_trace r
  | EEval _ c _ :: r => c :: seen_of_trace r
  | _ :: r => seen_of_trace r
  end.

(* best-so-far bookkeeping: best_dist is the cost of best_circ, best_circ is the EARLIEST
   evaluated circuit of least cost (s_seen is latest-first), and nothing seen so far was
   below the threshold *)
Definition Inv (s : st) : Prop :=
  s_bd C s = cost (s_bc C s)
  /\ (exists later earlier, s_seen C s = later ++ s_bc C s :: earlier
        /\ (forall c, In c later -> s_bd C s <= cost c)
        /\ (forall c, In c earlier -> s_bd C s < cost c))
  /\ (forall c, In c (s_seen C s) -> thr <= cost c)
  /\ (forall e, In e (s_front C s) -> In (e_circ e) (s_seen C s))
  /\ seen_of_trace (s_tr C s) = s_seen C s.

Hypothesis newbest_spec : forall l d bl bd, thr <= bd -> thr <= d -> h_newbest H l d bl bd = (d <? bd).

Lemma Inv_best_seen : forall s, Inv s -> In (s_bc C s) (s_seen C s).
Proof. intros s (_ & (l & e & Hs & _) & _). rewrite Hs. apply in_or_app. right. left. reflexivity. Qed.

Lemma Inv_min : forall s, Inv s -> forall c, In c (s_seen C s) -> s_bd C s <= cost c.
Proof.
  intros s (Hbd & (l & e & Hs & Hl & He) & _) c Hin. rewrite Hs in Hin.
  apply in_app_or in Hin. destruct Hin as [Hin | [Heq | Hin]].
  - apply Hl; assumption.
  - subst c. lia.
  - specialize (He _ Hin). lia.
Qed.

Lemma Inv_thr : forall s, Inv s -> thr <= s_bd C s.
Proof. intros s Hi. pose proof (Inv_best_seen _ Hi) as Hin. destruct Hi as (Hbd & _ & Ht & _). rewrite Hbd. apply Ht. assumption. Qed.

(* f_add only touches the frontier, the counter and the trace *)
Lemma f_add_fields : forall c l s,
  let s' := f_add C orc c l s in
  s_bd C s' = s_bd C s /\ s_bc C s' = s_bc C s /\ s_bl C s' = s_bl C s /\ s_seen C s' = s_seen C s
  /\ s_lpl C s' = s_lpl C s /\ s_bls C s' = s_bls C s /\ s_bds C s' = s_bds C s
  /\ s_front C s' = s_front C s ++ [mkElem (o_key C orc (s_ctr C s) c) (s_ctr C s) c l]
  /\ s_ctr C s' = S (s_ctr C s)
  /\ seen_of_trace (s_tr C s') = seen_of_trace (s_tr C s).
Proof. intros. unfold s', f_add. simpl. repeat split; reflexivity. Qed.

Lemma f_add_Inv : forall c l s, Inv s -> In c (s_seen C s) -> Inv (f_add C orc c l s).
Proof.
  intros c l s (Hbd & Hx & Ht & Hf & Htr) Hin. unfold Inv, f_add; simpl.
  repeat split; try assumption.
  intros e He. apply in_app_or in He. destruct He as [He | [He | []]].
  - apply Hf; assumption.
  - subst e. simpl. assumption.
Qed.

(* ---- one successor ---------------------------------------------------------------- *)
Lemma eval_one_success : forall layer c s x sx,
  eval_one C orc cfg H layer c s = inl (x, sx) -> x = c /\ cost c < thr.
Proof.
  intros layer c s x sx. unfold eval_one.
  destruct (cost c <? thr) eqn:E; [|intros Hx; discriminate Hx].
  intros Hx. injection Hx as <- _. split; [reflexivity | lia].
Qed.

Lemma eval_one_continue : forall layer c s s',
  Inv s -> eval_one C orc cfg H layer c s = inr s' ->
  Inv s' /\ s_seen C s' = c :: s_seen C s /\ thr <= cost c.
Proof.
  intros layer c s s' Hinv. pose proof (Inv_thr _ Hinv) as Hthr.
  destruct Hinv as (Hbd & (later & earlier & Hs & Hl & He) & Ht & Hf & Htr).
  unfold eval_one.
  destruct (cost c <? thr) eqn:E; [intros Hx; discriminate Hx|].
  assert (Hc : thr <= cost c) by lia.
  cbn [s_bd s_bl s_bc s_front s_ctr s_bls s_bds s_lpl s_seen s_tr].
  rewrite (newbest_spec _ _ _ _ Hthr Hc).
  (* the state with c recorded as seen *)
  assert (Hseen' : forall x, In x (c :: s_seen C s) -> thr <= cost x).
  { intros x [<- | Hx]; [assumption | apply Ht; assumption]. }
  assert (Hf' : forall e, In e (s_front C s) -> In (e_circ e) (c :: s_seen C s)).
  { intros e Hin. right. apply Hf; assumption. }
  destruct (cost c <? s_bd C s) eqn:Eb.
  - (* new best *)
    set (fire := h_leap H (S layer) (cost c) (s_bls C s) (s_bds C s) (s_lpl C s)).
    assert (Hnew : forall fr ctr bls bds lpl tr, (forall e, In e fr -> In (e_circ e) (c :: s_seen C s)) ->
              seen_of_trace tr = c :: s_seen C s ->
              Inv (mkSt C fr ctr (cost c) c (S layer) bls bds lpl (c :: s_seen C s) tr)).
    { intros fr ctr bls bds lpl tr Hfr Htr'. unfold Inv; simpl. repeat split; try assumption.
      exists [], (s_seen C s). split; [reflexivity|]. split; [intros x []|].
      intros x Hx. rewrite Hs in Hx. apply in_app_or in Hx. destruct Hx as [Hx | [<- | Hx]].
      - specialize (Hl _ Hx). lia.
      - lia.
      - specialize (He _ Hx). lia. }
    intros Hx. injection Hx as <-.
    destruct fire.
    + (* prefix formed: frontier cleared *)
      destruct (max_ok cfg (S layer)).
      * split; [|split; [reflexivity | assumption]].
        apply f_add_Inv; [apply f_add_Inv|]; try (simpl; left; reflexivity).
        apply Hnew; [intros e []|]. simpl. rewrite Htr. reflexivity.
      * split; [|split; [reflexivity | assumption]].
        apply Hnew; [intros e []|]. simpl. rewrite Htr. reflexivity.
    + destruct (max_ok cfg (S layer)).
      * split; [|split; [reflexivity | assumption]].
        apply f_add_Inv; [|simpl; left; reflexivity].
        apply Hnew; [assumption|]. simpl. rewrite Htr. reflexivity.
      * split; [|split; [reflexivity | assumption]].
        apply Hnew; [assumption|]. simpl. rewrite Htr. reflexivity.
  - (* not better *)
    assert (Hold : Inv (mkSt C (s_front C s) (s_ctr C s) (s_bd C s) (s_bc C s) (s_bl C s) (s_bls C s) (s_bds C s)
                         (s_lpl C s) (c :: s_seen C s) (EEval C c (cost c) :: s_tr C s))).
    { unfold Inv; simpl. repeat split; try assumption.
      - exists (c :: later), earlier. split; [rewrite Hs; reflexivity|]. split; [|assumption].
        intros x [<- | Hx]; [lia | apply Hl; assumption].
      - rewrite Htr. reflexivity. }
    intros Hx. injection Hx as <-.
    destruct (max_ok cfg (S layer)).
    + split; [|split; [reflexivity | assumption]]. apply f_add_Inv; [assumption | simpl; left; reflexivity].
    + split; [|split; [reflexivity | assumption]]. assumption.
Qed.

(* ---- a batch of successors --------------------------------------------------------- *)
Lemma eval_all_success : forall layer cs s x sx,
  eval_all C orc cfg H layer cs s = inl (x, sx) -> In x cs /\ cost x < thr.
Proof.
  intros layer cs. induction cs as [|c r IH]; intros s x sx; simpl; [intros Hx; discriminate Hx|].
  destruct (eval_one C orc cfg H layer c s) as [[y sy] | s'] eqn:E.
  - intros Hx. injection Hx as <- <-. apply eval_one_success in E. destruct E as [-> Hc]. split; [left; reflexivity | assumption].
  - intros Hx. apply IH in Hx. destruct Hx as [Hin Hc]. split; [right; assumption | assumption].
Qed.

Lemma eval_all_continue : forall layer cs s s',
  Inv s -> eval_all C orc cfg H layer cs s = inr s' ->
  Inv s' /\ s_seen C s' = rev cs ++ s_seen C s.
Proof.
  intros layer cs. induction cs as [|c r IH]; intros s s' Hinv; simpl.
  - intros Hx. injection Hx as <-. split; [assumption | reflexivity].
  - destruct (eval_one C orc cfg H layer c s) as [y | s1] eqn:E; [intros Hx; discriminate Hx|].
    intros Hx. destruct (eval_one_continue _ _ _ _ Hinv E) as (Hinv1 & Hseen1 & _).
    destruct (IH _ _ Hinv1 Hx) as (Hinv' & Hseen'). split; [assumption|].
    rewrite Hseen', Hseen1, <- app_assoc. reflexivity.
Qed.

(* ---- the frontier ------------------------------------------------------------------ *)
Lemma remove_id_incl : forall i (l : list (elem C)) e, In e (remove_id C i l) -> In e l.
Proof.
  intros i l. induction l as [|x r IH]; simpl; intros e He; [assumption|].
  destruct (e_id x =? i)%nat; [right; assumption|].
  destruct He as [<- | He]; [left; reflexivity | right; apply IH; assumption].
Qed.

Lemma min_elem_in : forall (l : list (elem C)) m, min_elem C m l = m \/ In (min_elem C m l) l.
Proof.
  intros l. induction l as [|x r IH]; intros m; simpl; [left; reflexivity|].
  destruct (elem_ltb C x m).
  - destruct (IH x) as [-> | Hin]; [right; left; reflexivity | right; right; assumption].
  - destruct (IH m) as [-> | Hin]; [left; reflexivity | right; right; assumption].
Qed.

Lemma pop_min_some : forall (l : list (elem C)) e rest,
  pop_min C l = Some (e, rest) -> In e l /\ (forall x, In x rest -> In x l).
Proof.
  intros l e rest. destruct l as [|x r]; simpl; [intros Hx; discriminate Hx|].
  intros Hx. injection Hx as <- <-. split.
  - destruct (min_elem_in r x) as [-> | Hin]; [left; reflexivity | right; assumption].
  - intros y Hy. apply (remove_id_incl _ (x :: r)) in Hy. assumption.
Qed.

Lemma pop_min_none : forall (l : list (elem C)), pop_min C l = None <-> l = [].
Proof. intros [|x r]; simpl; split; intros Hx; try reflexivity; discriminate Hx. Qed.

(* heappop returns a least element w.r.t. (key, id) *)
Lemma elem_ltb_trans_le : forall a b c : elem C, elem_ltb C a b = false -> elem_ltb C b c = false -> elem_ltb C a c = false.
Proof. intros a b c. unfold elem_ltb. intros. lia. Qed.

Lemma min_elem_le_start : forall (l : list (elem C)) m, elem_ltb C m (min_elem C m l) = false.
Proof.
  intros l. induction l as [|x r IH]; intros m; simpl; [unfold elem_ltb; lia|].
  destruct (elem_ltb C x m) eqn:E.
  - specialize (IH x). revert IH E. unfold elem_ltb. intros. lia.
  - apply IH.
Qed.

Lemma min_elem_least : forall (l : list (elem C)) m y, In y (m :: l) -> elem_ltb C y (min_elem C m l) = false.
Proof.
  intros l. induction l as [|x r IH]; intros m y; simpl.
  - intros [Hy | []]. subst y. unfold elem_ltb. lia.
  - intros [Hy | [Hy | Hy]].
    + subst y. destruct (elem_ltb C x m) eqn:E.
      * pose proof (min_elem_le_start r x) as Hm. revert Hm E. unfold elem_ltb. intros. lia.
      * apply min_elem_le_start.
    + subst y. destruct (elem_ltb C x m) eqn:E.
      * apply min_elem_le_start.
      * pose proof (min_elem_le_start r m) as Hm. revert Hm E. unfold elem_ltb. intros. lia.
    + apply IH. right. assumption.
Qed.

Lemma pop_min_least : forall (l : list (elem C)) e rest y,
  pop_min C l = Some (e, rest) -> In y l -> elem_ltb C y e = false.
Proof.
  intros l e rest y. destruct l as [|x r]; simpl; [intros Hx; discriminate Hx|].
  intros Hx Hy. injection Hx as <- _. apply min_elem_least. assumption.
Qed.

(* ---- the main loop ----------------------------------------------------------------- *)
Lemma log_Inv : forall e s, (match e with EInit _ _ _ | EEval _ _ _ => False | _ => True end) -> Inv s -> Inv (log C e s).
Proof.
  intros e s He (Hbd & Hx & Ht & Hf & Htr). unfold Inv, log; simpl. repeat split; try assumption.
  destruct e; try assumption; contradiction.
Qed.

Definition post (out : outcome C) (s' : st) : Prop :=
  match out with
  | Success c => cost c < thr
  | Emptied c => c = s_bc C s' /\ s_front C s' = [] /\ Inv s'
  | OutOfFuel => True
  end.

Lemma loop_post : forall fuel i s out s',
  Inv s -> loop C orc cfg H fuel i s = (out, s') -> post out s'.
Proof.
  induction fuel as [|fuel IH]; intros i s out s' Hinv; cbn [loop].
  - intros Hx. injection Hx as <- <-. exact I.
  - destruct (pop_min C (s_front C s)) as [[e rest]|] eqn:Ep.
    + set (s1 := mkSt C rest _ _ _ _ _ _ _ _ _).
      assert (Hinv1 : Inv s1).
      { destruct Hinv as (Hbd & Hx & Ht & Hf & Htr). unfold Inv, s1; simpl. repeat split; try assumption.
        intros x Hin. apply Hf. apply (pop_min_some _ _ _ Ep). assumption. }
      destruct (o_succ C orc i (e_circ e)) as [|c0 succs] eqn:Es.
      * intros Hx. apply IH in Hx; [assumption|]. apply log_Inv; [exact I | assumption].
      * match goal with |- context [eval_all ?a ?b ?c ?d ?e ?f ?g] => destruct (eval_all a b c d e f g) as [[cc scc] | s2] eqn:Ee end.
        -- intros Hx. injection Hx as <- <-. apply eval_all_success in Ee. simpl. apply Ee.
        -- intros Hx. apply IH in Hx; [assumption|]. apply (eval_all_continue _ _ _ _ Hinv1 Ee).
    + intros Hx. injection Hx as <- <-. simpl. split; [reflexivity|]. split.
      * apply pop_min_none. assumption.
      * apply log_Inv; [exact I | assumption].
Qed.

Lemma init_Inv : thr <= cost (o_init C orc) -> Inv (init_state C orc).
Proof.
  intros Hc. unfold Inv, init_state; simpl. repeat split.
  - exists [], []. split; [reflexivity|]. split; intros c [].
  - intros c [<- | []]. assumption.
  - intros e [<- | []]. simpl. left. reflexivity.
Qed.

Theorem search_post : forall fuel out s', search C orc cfg H fuel = (out, s') -> post out s'.
Proof.
  intros fuel out s'. unfold search.
  destruct (s_bd C (init_state C orc) <? thr) eqn:E.
  - intros Hx. injection Hx as <- <-. simpl in *. lia.
  - apply loop_post. apply init_Inv. simpl in E. lia.
Qed.

End SearchThm.

(* ======================================================================================
   Statements used by props/C03.v
   ====================================================================================== *)

(* success exit: for EVERY oracle and hook behaviour *)
Theorem search_success_sound : forall C (orc : oracles C) cfg H fuel c s',
  search C orc cfg H fuel = (Success c, s') -> o_cost C orc c < threshold cfg.
Proof.
  intros C orc cfg H fuel c s'. unfold search.
  destruct (s_bd C (init_state C orc) <? threshold cfg) eqn:E.
  - intros Hx. injection Hx as <- _. simpl in E. lia.
  - generalize (init_state C orc) as s, 0%nat as i. induction fuel as [|fuel IH]; intros s i; cbn [loop]; [intros Hx; discriminate Hx|].
    destruct (pop_min C (s_front C s)) as [[e rest]|]; [|intros Hx; discriminate Hx].
    destruct (o_succ C orc i (e_circ e)) as [|c0 succs]; [apply IH|].
    match goal with |- context [eval_all ?a ?b ?c ?d ?e ?f ?g] => destruct (eval_all a b c d e f g) as [[cc scc] | s2] eqn:Ee end.
    + intros Hx. injection Hx as <- _. apply eval_all_success in Ee. apply Ee.
    + apply IH.
Qed.

(* frontier-emptied exit: returns best_circ = the earliest evaluated circuit of least cost;
   every evaluated circuit (initial layer included) is at or above the threshold *)
Theorem search_emptied_best : forall C (orc : oracles C) cfg H fuel c s',
  (forall l d bl bd, threshold cfg <= bd -> threshold cfg <= d -> h_newbest H l d bl bd = (d <? bd)) ->
  search C orc cfg H fuel = (Emptied c, s') ->
  s_front C s' = []
  /\ c = s_bc C s'
  /\ s_seen C s' = seen_of_trace C (s_tr C s')
  /\ (exists later earlier, s_seen C s' = later ++ c :: earlier
        /\ (forall x, In x later -> o_cost C orc c <= o_cost C orc x)
        /\ (forall x, In x earlier -> o_cost C orc c < o_cost C orc x))
  /\ (forall x, In x (s_seen C s') -> threshold cfg <= o_cost C orc x).
Proof.
  intros C orc cfg H fuel c s' Hnb Hs. apply (search_post C orc cfg H Hnb) in Hs.
  destruct Hs as (-> & Hf & (Hbd & (l & e & Hseen & Hl & He) & Ht & _ & Htr)).
  split; [assumption|]. split; [reflexivity|]. split; [symmetry; assumption|]. split.
  - exists l, e. rewrite <- Hbd. auto.
  - assumption.
Qed.

Corollary search_emptied_min : forall C (orc : oracles C) cfg H fuel c s',
  (forall l d bl bd, threshold cfg <= bd -> threshold cfg <= d -> h_newbest H l d bl bd = (d <? bd)) ->
  search C orc cfg H fuel = (Emptied c, s') ->
  In c (s_seen C s') /\ forall x, In x (s_seen C s') -> o_cost C orc c <= o_cost C orc x.
Proof.
  intros C orc cfg H fuel c s' Hnb Hs.
  destruct (search_emptied_best C orc cfg H fuel c s' Hnb Hs) as (_ & _ & _ & (l & e & Hseen & Hl & He) & _).
  rewrite Hseen. split; [apply in_or_app; right; left; reflexivity|].
  intros x Hx. apply in_app_or in Hx. destruct Hx as [Hx | [<- | Hx]].
  - apply Hl; assumption.
  - lia.
  - specialize (He _ Hx). lia.
Qed.

(* ---- when can the frontier empty? --------------------------------------------------- *)
Section NeverEmpties.
Variable C : Type.
Variable orc : oracles C.
Variable cfg : config.
Variable H : hooks.
Hypothesis unlimited : max_layer cfg = None.
Hypothesis succ_nonempty : forall i c, o_succ C orc i c <> [].

Lemma max_ok_unlimited : forall l, max_ok cfg l = true.
Proof. intros l. unfold max_ok. rewrite unlimited. reflexivity. Qed.

Lemma eval_one_front_nonempty : forall layer c s s',
  eval_one C orc cfg H layer c s = inr s' -> s_front C s' <> [].
Proof.
  intros layer c s s'. unfold eval_one. rewrite max_ok_unlimited.
  destruct (o_cost C orc c <? threshold cfg); [intros Hx; discriminate Hx|].
  intros Hx. injection Hx as <-. unfold f_add. simpl. intros Hx. apply app_eq_nil in Hx. destruct Hx as [_ Hx]. discriminate Hx.
Qed.

Lemma eval_all_front_nonempty : forall layer cs s s',
  cs <> [] -> eval_all C orc cfg H layer cs s = inr s' -> s_front C s' <> [].
Proof.
  intros layer cs. induction cs as [|c r IH]; intros s s' Hne; [contradiction|]. simpl.
  destruct (eval_one C orc cfg H layer c s) as [[x sx] | s1] eqn:E; [intros Hx; discriminate Hx|].
  destruct r as [|c2 r].
  - simpl. intros Hx. injection Hx as <-. apply (eval_one_front_nonempty _ _ _ _ E).
  - apply IH. discriminate.
Qed.

Lemma loop_never_empties : forall fuel i s c s',
  s_front C s <> [] -> loop C orc cfg H fuel i s <> (Emptied c, s').
Proof.
  induction fuel as [|fuel IH]; intros i s c s' Hne; cbn [loop]; [discriminate|].
  destruct (pop_min C (s_front C s)) as [[e rest]|] eqn:Ep.
  - destruct (o_succ C orc i (e_circ e)) as [|c0 succs] eqn:Es; [exfalso; apply (succ_nonempty _ _ Es)|].
    match goal with |- context [eval_all ?a ?b ?c ?d ?e ?f ?g] => destruct (eval_all a b c d e f g) as [[cc scc] | s2] eqn:Ee end.
    + discriminate.
    + apply IH. eapply eval_all_front_nonempty; [|exact Ee]. simpl. discriminate.
  - apply pop_min_none in Ep. contradiction.
Qed.

Theorem search_never_empties : forall fuel c s', search C orc cfg H fuel <> (Emptied c, s').
Proof.
  intros fuel c s'. unfold search. destruct (s_bd C (init_state C orc) <? threshold cfg); [discriminate|].
  apply loop_never_empties. simpl. discriminate.
Qed.
End NeverEmpties.

(* the default layer generators produce one successor per coupling-graph edge / per gate *)
Lemma simple_successors_nonempty : forall C E (ab : C -> E -> C) edges c, edges <> [] -> simple_successors ab edges c <> [].
Proof. intros C E ab [|e r] c Hne; [contradiction | simpl; discriminate]. Qed.

Lemma single_successors_nonempty : forall C G (ag : C -> G -> C) geq gates last c,
  gates <> [] -> single_successors ag geq true gates last c <> [].
Proof. intros C G ag geq [|g r] last c Hne; [contradiction | simpl; discriminate]. Qed.

(* ---- QSearch and LEAP as instances ------------------------------------------------- *)
Lemma qsearch_newbest_spec : forall thr l d bl bd, thr <= bd -> thr <= d -> h_newbest qsearch_hooks l d bl bd = (d <? bd).
Proof. reflexivity. Qed.

(* In the loop check_new_best is only ever called with dist >= threshold and
   best_dist >= threshold (anything below returned at once), where it is `dist < best_dist` *)
Lemma check_new_best_simpl : forall thr l d bl bd, thr <= bd -> thr <= d -> check_new_best thr l d bl bd = (d <? bd).
Proof. intros thr l d bl bd Hb Hd. unfold check_new_best. lia. Qed.

Lemma leap_newbest_spec : forall thr regress mp l d bl bd,
  thr <= bd -> thr <= d -> h_newbest (leap_hooks thr regress mp) l d bl bd = (d <? bd).
Proof. intros. apply check_new_best_simpl; assumption. Qed.

(* ---- LEAP re-rooting ---------------------------------------------------------------- *)
(* When the leap condition fires for circuit c at layer L+1 the frontier is cleared and
   re-rooted at c: it then holds exactly c (added twice: once in the prefix block, once by
   the common `frontier.add` at the end of the loop body), provided max_layer allows
   L+1; last_prefix_layer becomes L+1.  Otherwise c is appended to the existing frontier. *)
Lemma eval_one_reroot : forall C (orc : oracles C) cfg H layer c s s',
  eval_one C orc cfg H layer c s = inr s' ->
  let d := o_cost C orc c in
  let fire := h_newbest H (S layer) d (s_bl C s) (s_bd C s) && h_leap H (S layer) d (s_bls C s) (s_bds C s) (s_lpl C s) in
  let k0 := o_key C orc (s_ctr C s) c in
  let k1 := o_key C orc (S (s_ctr C s)) c in
  if fire then
    s_lpl C s' = S layer /\ s_bc C s' = c /\
    s_front C s' = (if max_ok cfg (S layer)
                    then [mkElem k0 (s_ctr C s) c (S layer); mkElem k1 (S (s_ctr C s)) c (S layer)] else [])
  else
    s_lpl C s' = s_lpl C s /\
    s_front C s' = s_front C s ++ (if max_ok cfg (S layer) then [mkElem k0 (s_ctr C s) c (S layer)] else []).
Proof.
  intros C orc cfg H layer c s s'. unfold eval_one.
  destruct (o_cost C orc c <? threshold cfg); [intros Hx; discriminate Hx|].
  cbn [s_bd s_bl s_bc s_front s_ctr s_bls s_bds s_lpl s_seen s_tr].
  destruct (h_newbest H (S layer) (o_cost C orc c) (s_bl C s) (s_bd C s)); cbn [andb].
  - destruct (h_leap H (S layer) (o_cost C orc c) (s_bls C s) (s_bds C s) (s_lpl C s)).
    + destruct (max_ok cfg (S layer)); intros Hx; injection Hx as <-; simpl; auto.
    + destruct (max_ok cfg (S layer)); intros Hx; injection Hx as <-; simpl; rewrite ?app_nil_r; auto.
  - destruct (max_ok cfg (S layer)); intros Hx; injection Hx as <-; simpl; rewrite ?app_nil_r; auto.
Qed.

(* the prefix test itself: fires only when the regression predicted a better value than the new best (delta < 0) and at
   least min_prefix layers were added since the last prefix *)
Lemma check_leap_condition_spec : forall regress mp nl bd bls bds lpl,
  check_leap_condition regress mp nl bd bls bds lpl = true <->
  regress bls bds nl bd = Some true /\ Z.of_nat mp <= Z.of_nat nl - Z.of_nat lpl.
Proof.
  intros. unfold check_leap_condition. destruct (regress bls bds nl bd) as [[|]|]; split; intros Hx; try lia.
  - split; [reflexivity | lia].
  - destruct Hx as [Hx _]; discriminate Hx.
  - destruct Hx as [Hx _]; discriminate Hx.
Qed.

(* ---- SetTargetPass / SynthesisPass.run ----------------------------------------------- *)
Section PassThm.
Variables (C T : Type) (width : T -> nat).

Lemma set_target_target : forall t d, d_target (set_target T width t d) = t.
Proof. reflexivity. Qed.

Lemma set_target_placement : forall t d, length (d_placement (set_target T width t d)) = width t.
Proof.
  intros t d. unfold set_target; simpl. destruct (length (d_placement d) =? width t)%nat eqn:E.
  - apply Nat.eqb_eq. assumption.
  - apply seq_length.
Qed.

(* [SetTargetPass t; synthesis] hands exactly t to synthesize, whatever circuit / data came in,
   and the circuit afterwards is the synthesized one *)
Theorem set_then_synth : forall (synth : T -> passdata T -> option C) t c0 d0 c d,
  run_seq C T [set_target_pass C T width t; synthesis_run C T synth] (c0, d0) = Some (c, d) ->
  synth t (set_target T width t d0) = Some c /\ d_target d = t /\ d_error d = d_error d0.
Proof.
  intros synth t c0 d0 c d. unfold run_seq, set_target_pass, synthesis_run. simpl.
  destruct (synth t (set_target T width t d0)) as [x|]; [|intros Hx; discriminate Hx].
  intros Hx. injection Hx as <- <-. auto.
Qed.

(* the wrong order (synthesis before SetTargetPass) synthesizes the stale target *)
Theorem synth_then_set : forall (synth : T -> passdata T -> option C) t c0 d0 c d,
  run_seq C T [synthesis_run C T synth; set_target_pass C T width t] (c0, d0) = Some (c, d) ->
  synth (d_target d0) d0 = Some c.
Proof.
  intros synth t c0 d0 c d. unfold run_seq, set_target_pass, synthesis_run. simpl.
  destruct (synth (d_target d0) d0) as [x|]; [|intros Hx; discriminate Hx].
  intros Hx. injection Hx as <- _. reflexivity.
Qed.
End PassThm.

(* search used as the synthesize method: oracles depend on the target *)
Definition synth_of_search {C T} (orcs : T -> oracles C) (cfg : config) (H : hooks) (fuel : nat) : T -> passdata T -> option C :=
  fun t _ => match fst (search C (orcs t) cfg H fuel) with
             | Success c => Some c
             | Emptied c => Some c
             | OutOfFuel => None
             end.

Theorem workflow_success_reaches_target : forall C T width (orcs : T -> oracles C) cfg H fuel t c0 d0 c d,
  run_seq C T [set_target_pass C T width t; synthesis_run C T (synth_of_search orcs cfg H fuel)] (c0, d0) = Some (c, d) ->
  (forall b, fst (search C (orcs t) cfg H fuel) <> Emptied b) ->
  o_cost C (orcs t) c < threshold cfg /\ d_target d = t.
Proof.
  intros C T width orcs cfg H fuel t c0 d0 c d Hrun Hne.
  apply set_then_synth in Hrun. destruct Hrun as (Hs & Ht & _). split; [|assumption].
  unfold synth_of_search in Hs. destruct (search C (orcs t) cfg H fuel) as [out s'] eqn:E. simpl in Hs, Hne.
  destruct out as [x | x |]; [| exfalso; apply (Hne x); reflexivity | discriminate Hs].
  injection Hs as <-. apply (search_success_sound _ _ _ _ _ _ _ E).
Qed.

(* ---- list inputs ---------------------------------------------------------------------- *)
Section ListThm.
Variables (I R : Type).

Lemma lookup_in : forall (done : list (nat * R)) j r,
  NoDup (map fst done) -> In (j, r) done -> lookup R j done = Some r.
Proof.
  induction done as [|[k x] rest IH]; intros j r Hnd Hin; [contradiction|]. simpl in *.
  inversion Hnd as [|? ? Hnotin Hnd']; subst.
  destruct Hin as [Heq | Hin].
  - injection Heq as -> ->. rewrite Nat.eqb_refl. reflexivity.
  - destruct (k =? j)%nat eqn:E.
    + apply Nat.eqb_eq in E. subst k. exfalso. apply Hnotin. apply (in_map fst) in Hin. assumption.
    + apply IH; assumption.
Qed.

Lemma collect_in_order : forall (jobs : list (nat * R)) (done : list (nat * R)),
  NoDup (map fst done) -> (forall jr, In jr jobs -> In jr done) ->
  collect R (map fst jobs) done = Some (map snd jobs).
Proof.
  induction jobs as [|[j r] rest IH]; intros done Hnd Hsub; [reflexivity|]. simpl.
  rewrite (lookup_in done j r Hnd (Hsub _ (or_introl eq_refl))).
  rewrite (IH done Hnd); [reflexivity|]. intros jr Hin. apply Hsub. right. assumption.
Qed.

Lemma mapi_fst : forall (fresh : nat -> nat) (l : list I) k,
  map fst (mapi (fun k x => (fresh k, x)) k l) = map fresh (seq k (length l)).
Proof. intros fresh l. induction l as [|x r IH]; intros k; simpl; [reflexivity|]. rewrite IH. reflexivity. Qed.

Lemma mapi_snd : forall (fresh : nat -> nat) (l : list I) k,
  map snd (mapi (fun k x => (fresh k, x)) k l) = l.
Proof. intros fresh l. induction l as [|x r IH]; intros k; simpl; [reflexivity|]. rewrite IH. reflexivity. Qed.

Lemma NoDup_map_inj : forall (f : nat -> nat) l, (forall a b, f a = f b -> a = b) -> NoDup l -> NoDup (map f l).
Proof.
  intros f l Hinj Hnd. induction Hnd as [|x l Hnotin Hnd IH]; simpl; constructor; [|assumption].
  intros Hin. apply in_map_iff in Hin. destruct Hin as (y & Hy & Hin). apply Hinj in Hy. subst y. contradiction.
Qed.

(* one result per input, in submission order, whatever order the tasks finished in *)
Theorem compile_list_order : forall (fresh : nat -> nat) (run1 : I -> R) finish_order inputs,
  (forall a b, fresh a = fresh b -> a = b) ->
  (forall jobs, Permutation (finish_order jobs) jobs) ->
  compile_list I R fresh run1 finish_order inputs = Some (map run1 inputs).
Proof.
  intros fresh run1 fo inputs Hinj Hperm. unfold compile_list.
  set (jobs := submit_all I fresh inputs).
  set (g := fun ji : nat * I => (fst ji, run1 (snd ji))).
  assert (Hfst : forall l, map fst (map g l) = map fst l).
  { intros l. rewrite map_map. apply map_ext. intros [a b]. reflexivity. }
  assert (Hsnd : forall l, map snd (map g l) = map run1 (map snd l)).
  { intros l. rewrite !map_map. apply map_ext. intros [a b]. reflexivity. }
  rewrite <- (Hfst jobs).
  rewrite (collect_in_order (map g jobs) (map g (fo jobs))).
  - rewrite Hsnd. unfold jobs, submit_all. rewrite mapi_snd. reflexivity.
  - rewrite Hfst. apply (Permutation_NoDup (l := map fst jobs)).
    + apply Permutation_map. apply Permutation_sym. apply Hperm.
    + unfold jobs, submit_all. rewrite mapi_fst. apply NoDup_map_inj; [assumption | apply seq_NoDup].
  - intros jr Hin. apply (Permutation_in (l := map g jobs)); [|assumption].
    apply Permutation_map. apply Permutation_sym. apply Hperm.
Qed.

Lemma collect_length : forall ids (done : list (nat * R)) rs, collect R ids done = Some rs -> length rs = length ids.
Proof.
  induction ids as [|a l IH]; intros done rs; simpl.
  - intros Hx. injection Hx as <-. reflexivity.
  - destruct (lookup R a done); [|intros Hx; discriminate Hx].
    destruct (collect R l done) eqn:E; [|intros Hx; discriminate Hx].
    intros Hx. injection Hx as <-. simpl. f_equal. apply (IH done). assumption.
Qed.

Lemma compile_list_length : forall fresh (run1 : I -> R) fo inputs rs,
  compile_list I R fresh run1 fo inputs = Some rs -> length rs = length inputs.
Proof.
  intros fresh run1 fo inputs rs. unfold compile_list. intros Hx. apply collect_length in Hx.
  rewrite Hx. unfold submit_all. rewrite mapi_fst, map_length, seq_length. reflexivity.
Qed.
End ListThm.

(* ---- PermutationAwareSynthesisPass: the reported mapping is the one the circuit was built for ---- *)
Section PASThm.
Variables (T C P : Type).
Variable perms : list P.
Variable idp : P.
Variable lmulT : P -> T -> T.
Variable rmul : T -> P -> T.
Variable synth : nat -> T -> C.
Variable score : C -> Z.
Variable impl : C -> T -> Prop.          (* "circuit c implements t (within the inner pass's budget)" *)
Hypothesis synth_ok : forall i t, impl (synth i t) t.
Hypothesis lmulT_id : forall t, lmulT idp t = t.
Hypothesis rmul_id : forall t, rmul t idp = t.

Definition cand_ok (utry : T) (x : (P * P) * C) : Prop :=
  impl (snd x) (lmulT (snd (fst x)) (rmul utry (fst (fst x)))).

Lemma pas_candidates_targets : forall ip op utry pt,
  In pt (pas_candidates T P perms idp lmulT rmul ip op utry) ->
  snd pt = lmulT (snd (fst pt)) (rmul utry (fst (fst pt))).
Proof.
  intros ip op utry pt. unfold pas_candidates.
  destruct ip, op; simpl.
  - intros Hin. apply in_flat_map in Hin. destruct Hin as (pi & _ & Hin).
    apply in_map_iff in Hin. destruct Hin as (po & <- & _). reflexivity.
  - intros Hin. apply in_map_iff in Hin. destruct Hin as (pi & <- & _). simpl. rewrite lmulT_id. reflexivity.
  - intros Hin. apply in_map_iff in Hin. destruct Hin as (po & <- & _). simpl. rewrite rmul_id. reflexivity.
  - intros [<- | []]. simpl. rewrite lmulT_id, rmul_id. reflexivity.
Qed.

Lemma mapi_synth_ok : forall utry (l : list ((P * P) * T)) k,
  (forall pt, In pt l -> snd pt = lmulT (snd (fst pt)) (rmul utry (fst (fst pt)))) ->
  forall x, In x (mapi (fun i pt => (fst pt, synth i (snd pt))) k l) -> cand_ok utry x.
Proof.
  intros utry l. induction l as [|pt r IH]; intros k Hl x; simpl; [intros []|].
  intros [<- | Hin].
  - unfold cand_ok. simpl. rewrite <- (Hl pt (or_introl eq_refl)). apply synth_ok.
  - apply (IH (S k)); [|assumption]. intros q Hq. apply Hl. right. assumption.
Qed.

Lemma pas_pick_in : forall l best, pas_pick C P score best l = best \/ In (pas_pick C P score best l) l.
Proof.
  induction l as [|x r IH]; intros best; simpl; [left; reflexivity|].
  destruct (score (snd x) <? score (snd best)).
  - destruct (IH x) as [-> | Hin]; [right; left; reflexivity | right; right; assumption].
  - destruct (IH best) as [-> | Hin]; [left; reflexivity | right; right; assumption].
Qed.

Lemma pas_pick_least : forall l best y, In y (best :: l) -> score (snd (pas_pick C P score best l)) <= score (snd y).
Proof.
  induction l as [|x r IH]; intros best y; simpl.
  - intros [<- | []]. lia.
  - intros Hy. destruct (score (snd x) <? score (snd best)) eqn:E.
    + destruct Hy as [<- | [<- | Hy]].
      * specialize (IH x x (or_introl eq_refl)). lia.
      * apply IH. left. reflexivity.
      * apply IH. right. assumption.
    + destruct Hy as [<- | [<- | Hy]].
      * apply IH. left. reflexivity.
      * specialize (IH best best (or_introl eq_refl)). lia.
      * apply IH. right. assumption.
Qed.

(* the circuit returned by PAS implements PF^T . U . PI for the (PI, PF) it stores in the PassData,
   and no other candidate scores strictly better *)
Theorem pas_reported_mapping : forall ip op utry c pi pf,
  pas T C P perms idp lmulT rmul synth score ip op utry = Some (c, pi, pf) ->
  impl c (lmulT pf (rmul utry pi)).
Proof.
  intros ip op utry c pi pf. unfold pas.
  pose proof (mapi_synth_ok utry (pas_candidates T P perms idp lmulT rmul ip op utry) 0%nat
                (pas_candidates_targets ip op utry)) as Hall.
  destruct (mapi _ 0%nat _) as [|x r]; [intros Hx; discriminate Hx|].
  intros Hx. injection Hx as <- <- <-.
  destruct (pas_pick_in r x) as [-> | Hin].
  - apply (Hall x). left. reflexivity.
  - apply (Hall _). right. assumption.
Qed.
End PASThm.
