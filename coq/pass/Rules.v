(* C10 (i): model of the rule-based rewriting passes (bqskit/passes/rules/*.py).

   Every fixed rule pass has the same `run`:
       points = [(cycle, op.location[0]) for every op with isinstance(op.gate, SRC)]
       ops    = [Operation(self.cg, circuit[p].location, self.cg._circuit.params) ...]
       circuit.batch_replace(points, ops);  circuit.unfold_all()
   i.e. every occurrence of the source gate is replaced IN PLACE by the fixed
   sub-circuit `self.cg`, whose inner qudit j is mapped to the j-th qudit of the
   replaced operation's location (Circuit.unfold).  In program order (a list of
   operations such that every qudit sees its gates in list order) this is `rewrite`.

   The rules themselves (source gate, replacement sub-circuit) are NOT written here:
   they are regenerated from the live pass objects into gen/RulePasses.v.
   Definitions only; proofs are in RulesThm.v. *)
From Coq Require Import ZArith List Bool.
Import ListNotations.
From BQ Require Import lib.Cyclo.

Record rule := mkRule {
  r_src : gate;                (* the gate class the pass looks for (a constant gate) *)
  r_width : nat;               (* width of the replacement circuit *)
  r_repl : list gop            (* replacement sub-circuit, program order, inner locations *)
}.

Definition is_src (r : rule) (o : gop) : bool := Nat.eqb (gate_kind (fst o)) (gate_kind (r_src r)).

(* Circuit.unfold: inner qudit j -> (nth j outer_location) *)
Definition relocate (L : list nat) (o : gop) : gop := (fst o, map (fun j => nth j L O) (snd o)).

Definition expand (r : rule) (o : gop) : list gop :=
  if is_src r o then map (relocate (snd o)) (r_repl r) else [o].

Definition rewrite (r : rule) (c : list gop) : list gop := flat_map (expand r) c.

Definition count_kind (k : nat) (c : list gop) : nat :=
  length (filter (fun o => Nat.eqb (gate_kind (fst o)) k) c).

(* ---- checkers run by vm_compute on the generated rules ---------------------- *)
(* the replacement denotes exactly the source gate (no global phase allowed) *)
Definition rule_exact (r : rule) : bool :=
  Meqb (circ_den (r_width r) (r_repl r)) (gate_mat (r_src r)).
(* inner locations are in range and duplicate free, widths agree *)
Fixpoint nodupb (l : list nat) : bool :=
  match l with [] => true | x :: l' => negb (mem_nat x l') && nodupb l' end.
Definition rule_wf (r : rule) : bool :=
  Nat.eqb (gate_width (r_src r)) (r_width r) &&
  forallb (fun o => Nat.eqb (length (snd o)) (gate_width (fst o)) && nodupb (snd o)
                    && forallb (fun q => Nat.ltb q (r_width r)) (snd o)) (r_repl r).
(* the replacement does not contain the source gate kind *)
Definition rule_src_free (r : rule) : bool :=
  forallb (fun o => negb (is_src r o)) (r_repl r).
Definition rule_ok (r : rule) : bool := rule_wf r && rule_exact r && rule_src_free r.

(* all duplicate-free locations of length k over n qubits *)
Fixpoint locs (n k : nat) : list (list nat) :=
  match k with
  | O => [[]]
  | S k' => flat_map (fun l => map (fun q => q :: l) (filter (fun q => negb (mem_nat q l)) (seq 0 n))) (locs n k')
  end.
(* the rule holds when the replaced operation sits at any location of any register
   of width n (embedding in the full 2^n x 2^n exact matrices) *)
Definition rule_embedded (n : nat) (r : rule) : bool :=
  forallb (fun L => Meqb (circ_den n (map (relocate L) (r_repl r))) (op_den n (r_src r, L)))
          (locs n (r_width r)).
