(* C03 - soundness of the workflow checker of pass/SkeletonWf.v. *)
From Coq Require Import List Bool Relation_Operators Lia.
Import ListNotations.
From BQ Require Import pass.SkeletonWf.

Lemma tstate_eqb_eq : forall a b, tstate_eqb a b = true <-> a = b.
Proof. intros [] []; simpl; split; intros Hx; try reflexivity; discriminate Hx. Qed.

Lemma astate_eqb_eq : forall a b, astate_eqb a b = true <-> a = b.
Proof.
  intros [t1 i1 o1] [t2 i2 o2]. unfold astate_eqb; simpl. split.
  - intros Hx. apply andb_prop in Hx. destruct Hx as [Hx Ho]. apply andb_prop in Hx. destruct Hx as [Ht Hi].
    apply tstate_eqb_eq in Ht. apply eqb_prop in Hi. apply eqb_prop in Ho. subst. reflexivity.
  - intros Hx. injection Hx as -> -> ->. rewrite (proj2 (tstate_eqb_eq t2 t2) eq_refl), !eqb_reflx. reflexivity.
Qed.

Lemma mem_In : forall s l, mem s l = true <-> In s l.
Proof.
  intros s l. unfold mem. rewrite existsb_exists. split.
  - intros (x & Hin & He). apply astate_eqb_eq in He. subst. assumption.
  - intros Hin. exists s. split; [assumption | apply astate_eqb_eq; reflexivity].
Qed.

Lemma union_In : forall a b x, In x (union a b) <-> In x a \/ In x b.
Proof.
  induction a as [|y r IH]; intros b x; simpl.
  - split; [intros Hx; right; assumption | intros [[] | Hx]; assumption].
  - destruct (mem y b) eqn:E.
    + rewrite IH. split.
      * intros [Hx | Hx]; [left; right; assumption | right; assumption].
      * intros [[<- | Hx] | Hx]; [right; apply mem_In; assumption | left; assumption | right; assumption].
    + simpl. rewrite IH. tauto.
Qed.

Lemma subset_In : forall a b, subset a b = true -> forall x, In x a -> In x b.
Proof.
  intros a b Hs x Hin. unfold subset in Hs. rewrite forallb_forall in Hs. apply mem_In. apply Hs. assumption.
Qed.

(* a set transformer is sound for a relation *)
Definition sound_for (f : list astate -> option (list astate)) (R : astate -> astate -> Prop) : Prop :=
  forall S S', f S = Some S' -> forall s s', In s S -> R s s' -> In s' S'.

Lemma closure_sound : forall f R, sound_for f R ->
  forall fuel S S', closure f fuel S = Some S' ->
  (forall s, In s S -> In s S') /\ (forall s s', In s S' -> R s s' -> In s' S').
Proof.
  intros f R Hf. induction fuel as [|fuel IH]; intros S S'; simpl; [intros Hx; discriminate Hx|].
  destruct (f S) as [S1|] eqn:E; [|intros Hx; discriminate Hx].
  destruct (subset S1 S) eqn:Es.
  - intros Hx. injection Hx as <-. split; [auto|].
    intros s s' Hin HR. apply (subset_In _ _ Es). apply (Hf _ _ E s s' Hin HR).
  - intros Hx. apply IH in Hx. destruct Hx as [Hsub Hcl]. split; [|assumption].
    intros s Hin. apply Hsub. apply union_In. right. assumption.
Qed.

Lemma closure_rtc : forall f R, sound_for f R -> forall fuel, sound_for (closure f fuel) (clos_refl_trans_1n astate R).
Proof.
  intros f R Hf fuel S S' Hc s s' Hin Hr.
  destruct (closure_sound f R Hf fuel S S' Hc) as [Hsub Hcl].
  apply Hsub in Hin. clear Hsub. induction Hr as [x | x y z Hxy Hyz IH]; [assumption|].
  apply IH. apply (Hcl x y Hin Hxy).
Qed.

(* induction principle that reaches under Seq *)
Lemma wf_ind' : forall P : wf -> Prop,
  (forall k, P (Leaf k)) ->
  (forall l, Forall P l -> P (Seq l)) ->
  (forall t e, P t -> P e -> P (Ite t e)) ->
  (forall b, P b -> P (Loop b)) ->
  (forall b, P b -> P (Block b)) ->
  forall w, P w.
Proof.
  intros P HL HS HI HLo HB. fix rec 1. intros [k | l | t e | b | b].
  - apply HL.
  - apply HS. induction l as [|x r IH]; constructor; [apply rec | assumption].
  - apply HI; apply rec.
  - apply HLo; apply rec.
  - apply HB; apply rec.
Qed.

Theorem execs_sound : forall w, sound_for (execs w) (runs w).
Proof.
  induction w as [k | l IHl | t e IHt IHe | b IHb | b IHb] using wf_ind'.
  - intros S S' Hx s s' Hin Hr. simpl in Hx, Hr. injection Hx as <-. subst s'.
    apply union_In. left. apply in_map. assumption.
  - induction IHl as [|x r Hx Hr IH]; intros S S' He s s' Hin Hrun; simpl in He, Hrun.
    + injection He as <-. subst s'. assumption.
    + destruct (execs x S) as [S1|] eqn:E; [|discriminate He].
      destruct Hrun as (s1 & H1 & H2).
      apply (IH S1 S' He s1 s'); [apply (Hx S S1 E s s1 Hin H1) | exact H2].
  - intros S S' Hx s s' Hin Hr. simpl in Hx, Hr.
    destruct (execs t S) as [a|] eqn:Ea; [|discriminate Hx].
    destruct (execs e S) as [c|] eqn:Ec; [|discriminate Hx].
    injection Hx as <-. apply union_In. destruct Hr as [Hr | Hr].
    + left. apply (IHt S a Ea s s' Hin Hr).
    + right. apply (IHe S c Ec s s' Hin Hr).
  - intros S S' Hx s s' Hin Hr. simpl in Hx, Hr.
    apply (closure_rtc (execs b) (runs b) IHb 16 S S' Hx s s' Hin Hr).
  - intros S S' Hx s s' Hin Hr. simpl in Hx, Hr.
    destruct (execs b [block_init]) as [outs|] eqn:Eo; [|discriminate Hx].
    destruct (forallb good outs) eqn:Eg.
    + injection Hx as <-. destruct Hr as [[_ ->] | [(x & Hrx & Hbad) ->]]; [assumption|].
      exfalso. rewrite forallb_forall in Eg.
      assert (Hin' : In x outs) by (apply (IHb [block_init] outs Eo block_init x); [left; reflexivity | assumption]).
      rewrite (Eg x Hin') in Hbad. discriminate Hbad.
    + injection Hx as <-. apply union_In. destruct Hr as [[_ ->] | [_ ->]].
      * right. assumption.
      * left. apply in_map. assumption.
Qed.

Theorem check_sound : forall w, check w = true -> target_preserved w.
Proof.
  intros w Hc s' Hr. unfold check in Hc.
  destruct (execs w [top_init]) as [outs|] eqn:E; [|discriminate Hc].
  rewrite forallb_forall in Hc.
  assert (Hin : In s' outs) by (apply (execs_sound w [top_init] outs E top_init s'); [left; reflexivity | assumption]).
  specialize (Hc s' Hin). unfold good in Hc.
  apply andb_prop in Hc. destruct Hc as [Hc Ho]. apply andb_prop in Hc. destruct Hc as [Ht Hi].
  apply tstate_eqb_eq in Ht. auto.
Qed.

Theorem check_all_sound : forall ws, forallb check ws = true -> forall w, In w ws -> target_preserved w.
Proof. intros ws Hc w Hin. rewrite forallb_forall in Hc. apply check_sound. apply Hc. assumption. Qed.

(* what the statement means on the shapes compile() builds *)
Lemma target_preserved_needs_settarget_first :
  check (Seq [Leaf KNeutral; Leaf (KSetTarget true); Leaf KSynth; Leaf KReadsTarget]) = true
  /\ check (Seq [Leaf KNeutral; Leaf KSynth; Leaf (KSetTarget true)]) = false
  /\ check (Seq [Leaf (KSetTarget true); Leaf KSynth; Leaf KWritesTarget]) = false
  /\ check (Seq [Leaf (KSetTarget false); Leaf KSynth]) = false
  /\ check (Seq [Leaf (KSetTarget true); Ite (Leaf KSynth) (Seq [])]) = false.
Proof. repeat split; vm_compute; reflexivity. Qed.

(* the checker is not vacuous the other way either: a rejected workflow really has a bad run *)
Lemma synth_before_settarget_is_bad :
  ~ target_preserved (Seq [Leaf KSynth; Leaf (KSetTarget true)]).
Proof.
  intros Hp. destruct (Hp (mkA TUser false true)) as (_ & Hi & _); [|discriminate Hi].
  simpl. exists (mkA TUnset true true). split; [reflexivity|]. exists (mkA TUser false true). split; reflexivity.
Qed.
