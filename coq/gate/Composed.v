(* gate/Composed.v - the composed gates of bqskit/ir/gates/composed/*.py as
   constructions on matrices over an abstract ring with conjugation (Section
   variables; instantiated with [cexpr] in gate/GateModel.v for the executable
   model and with C in gate/ComposedThm.v for the theorems).  Definitions only;
   each follows the numpy code of the class statement by statement. *)
From Coq Require Import List Arith Bool PeanoNat ZArith.
From BQ Require Import gate.Matrix.
Import ListNotations.

(* ---- argument normalisation (pure list code, no ring needed) ----------------- *)
(* ControlledGate._check_and_type_control_parameters *)
Inductive ctrl_radixes := CRInt (r : nat) | CRList (l : list nat).
Inductive ctrl_level := LInt (l : nat) | LList (ls : list nat).
Inductive ctrl_levels := CLNone | CLInt (l : nat) | CLList (ls : list ctrl_level).

Fixpoint nodupb (l : list nat) : bool :=
  match l with [] => true | x :: t => negb (existsb (Nat.eqb x) t) && nodupb t end.

Definition norm_controls (nc : nat) (cr : ctrl_radixes) (cl : ctrl_levels)
  : option (list nat * list (list nat)) :=
  if Nat.ltb nc 1 then None else
  let radixes := match cr with CRInt r => repeat r nc | CRList l => l end in
  if existsb (fun r => Nat.ltb r 2) radixes then None else
  if negb (Nat.eqb (length radixes) nc) then None else
  let levels :=
    match cl with
    | CLNone => map (fun r => [r - 1]) radixes
    | CLInt l => repeat [l] nc
    | CLList ls => map (fun x => match x with LInt l => [l] | LList l => l end) ls
    end in
  if negb (Nat.eqb (length levels) nc) then None else
  if existsb (fun rl => existsb (fun l => Nat.leb (fst rl) l) (snd rl)) (combine radixes levels) then None else
  if negb (forallb nodupb levels) then None else
  Some (radixes, levels).

(* EmbeddedGate.__init__ *)
Inductive emb_radixes := ERInt (r : nat) | ERList (l : list nat).
Inductive emb_maps := EMNone | EMOne (m : list nat) | EMList (ms : list (list nat)).

Definition norm_embedded (gate_radixes : list nat) (er : emb_radixes) (em : emb_maps)
  : option (list nat * list (list nat)) :=
  let nq := length gate_radixes in
  let radixes := match er with ERInt r => repeat r nq | ERList l => l end in
  if negb (Nat.eqb (length radixes) nq) then None else
  if existsb (fun r => Nat.ltb r 2) radixes then None else
  let maps :=
    match em with
    | EMNone => map (fun g => seq 0 g) gate_radixes
    | EMOne m => repeat m nq
    | EMList ms => ms
    end in
  if existsb (fun gt => Nat.ltb (snd gt) (fst gt)) (combine gate_radixes radixes) then None else
  if negb (Nat.eqb (length maps) nq) then None else
  if existsb (fun gm => negb (Nat.eqb (length (snd gm)) (fst gm))) (combine gate_radixes maps) then None else
  if existsb (fun rm => existsb (fun l => Nat.leb (fst rm) l) (snd rm)) (combine radixes maps) then None else
  if negb (forallb nodupb maps) then None else
  Some (radixes, maps).

(* numpy.unravel_index / ravel_multi_index (C order: last axis fastest) *)
Definition unravel (rx : list nat) (i : nat) : list nat :=
  snd (fold_right (fun r qd => (fst qd / r, (fst qd mod r) :: snd qd)) (i, []) rx).
Definition ravel (rx ds : list nat) : nat :=
  fold_left (fun acc rd => acc * fst rd + snd rd) (combine rx ds) 0.
Definition emb_target (gate_rx big_rx : list nat) (maps : list (list nat)) (i : nat) : nat :=
  ravel big_rx (map (fun md => nth (snd md) (fst md) 0) (combine maps (unravel gate_rx i))).

(* FrozenParameterGate.get_full_params:
     args = list(params); for idx in sorted(frozen): args.insert(idx, frozen[idx]) *)
Fixpoint insert_at {A} (i : nat) (x : A) (l : list A) : list A :=
  match i, l with
  | O, _ => x :: l
  | S i', [] => [x]
  | S i', y :: t => y :: insert_at i' x t
  end.
Fixpoint insert_sorted {A} (kx : nat * A) (l : list (nat * A)) : list (nat * A) :=
  match l with
  | [] => [kx]
  | ky :: t => if Nat.leb (fst kx) (fst ky) then kx :: l else ky :: insert_sorted kx t
  end.
Definition sort_by_key {A} (l : list (nat * A)) : list (nat * A) := fold_right insert_sorted [] l.
Definition full_params {A} (frozen : list (nat * A)) (params : list A) : list A :=
  fold_left (fun args kx => insert_at (fst kx) (snd kx) args) (sort_by_key frozen) params.
Definition unfixed_idxs {A} (n : nat) (frozen : list (nat * A)) : list nat :=
  filter (fun i => negb (existsb (fun kx => Nat.eqb (fst kx) i) frozen)) (seq 0 n).
(* constructor checks of FrozenParameterGate (keys are dict keys: distinct) *)
Definition frozen_valid {A} (n : nat) (frozen : list (nat * A)) : bool :=
  Nat.leb (length frozen) n && forallb (fun kx => Nat.ltb (fst kx) n) frozen
  && nodupb (map fst frozen).

Section Composed.
  Variable T : Type.
  Variables (t0 t1 : T) (tadd tmul : T -> T -> T) (topp : T -> T) (tconj : T -> T).
  Notation mat := (mat T).
  Notation mul := (mmul t0 tadd tmul).
  Notation idm := (mid t0 t1).

  (* ---------------- ControlledGate ---------------- *)
  (* build_control_proj: elementary projections, then reduce(np.kron, ...) *)
  Definition elem_proj (levels : list nat) : mat :=
    diag01 t0 t1 (fun i => existsb (Nat.eqb i) levels).
  (* argument: (radix, levels) list REVERSED (last control first) *)
  Fixpoint proj_rev (l : list (nat * list nat)) : mat :=
    match l with
    | [] => idm                                   (* 1x1 *)
    | (r, lv) :: rest => kron tmul r (proj_rev rest) (elem_proj lv)
    end.
  Definition ctrl_proj (cr : list nat) (cl : list (list nat)) : mat :=
    proj_rev (rev (combine cr cl)).
  (* ctrl_U = np.kron(ctrl, U) + np.kron(eye - ctrl, eye(gate.dim)) *)
  Definition controlled (cr : list nat) (cl : list (list nat)) (d : nat) (U : mat) : mat :=
    let P := ctrl_proj cr cl in
    madd tadd (kron tmul d P U) (kron tmul d (msub tadd topp idm P) idm).
  (* get_grad = np.kron(ctrl, grads) *)
  Definition controlled_grad (cr : list nat) (cl : list (list nat)) (d : nat) (G : mat) : mat :=
    kron tmul d (ctrl_proj cr cl) G.

  (* ---------------- DaggerGate ---------------- *)
  Definition dagger (U : mat) : mat := madj tconj U.

  (* ---------------- PowerGate ---------------- *)
  (* a unitary together with one slice of its gradient is a "dual number"; the code
     multiplies   utry' = utry @ V ;  grad' = grad @ V + utry @ dV   (numpy broadcasts
     the same arithmetic over the leading parameter axis of `grad`)               *)
  Definition dual : Type := (mat * mat)%type.
  Definition dmul (n : nat) (X Y : dual) : dual :=
    (mul n (fst X) (fst Y), madd tadd (mul n (snd X) (fst Y)) (mul n (fst X) (snd Y))).
  Definition dadj (X : dual) : dual := (dagger (fst X), dagger (snd X)).
  Definition done : dual := (idm, mzero t0).
  (* binary powering as in get_unitary_and_grad: squares utrys[i] = utrys[i-1]@utrys[i-1],
     accumulate the set bits from the least significant one *)
  Fixpoint pow_bits (n : nat) (S : dual) (acc : option dual) (p : positive) : dual :=
    let acc' := match acc with None => S | Some a => dmul n a S end in
    match p with
    | xH => acc'
    | xO p' => pow_bits n (dmul n S S) acc p'
    | xI p' => pow_bits n (dmul n S S) (Some acc') p'
    end.
  Definition power (n : nat) (X : dual) (k : Z) : dual :=
    match k with
    | Z0 => done
    | Zpos p => pow_bits n X None p
    | Zneg p => pow_bits n (dadj X) None p
    end.
  Definition power_unitary (n : nat) (U : mat) (k : Z) : mat := fst (power n (U, mzero t0) k).
  Definition power_grads (n : nat) (U : mat) (Gs : list mat) (k : Z) : list mat :=
    map (fun G => snd (power n (U, G) k)) Gs.
  (* reference: k-fold product in the dual-number ring *)
  Fixpoint dpow (n : nat) (X : dual) (k : nat) : dual :=
    match k with O => done | S k' => dmul n X (dpow n X k') end.
  (* Leibniz derivative of the k-fold product *)
  Fixpoint mpow_d (n : nat) (U G : mat) (k : nat) : mat :=
    match k with
    | O => mzero t0
    | S k' => madd tadd (mul n G (mpow t0 t1 tadd tmul n U k')) (mul n U (mpow_d n U G k'))
    end.

  (* ---------------- EmbeddedGate ---------------- *)
  (* _map_matrix over an initial matrix [init] (eye for the unitary, zeros for grads):
     for i, j in range(gate.dim): big[tgt i, tgt j] = small[i, j]  (last write wins) *)
  Definition find_last (f : nat -> bool) (n : nat) : option nat :=
    find f (rev (seq 0 n)).
  Definition map_matrix (gdim : nat) (tgt : nat -> nat) (small init : mat) : mat :=
    fun I J =>
      match find_last (fun i => Nat.eqb (tgt i) I) gdim, find_last (fun j => Nat.eqb (tgt j) J) gdim with
      | Some i, Some j => small i j
      | _, _ => init I J
      end.
  Definition embedded (gate_rx big_rx : list nat) (maps : list (list nat)) (U : mat) : mat :=
    map_matrix (fold_right Nat.mul 1 gate_rx) (emb_target gate_rx big_rx maps) U idm.
  Definition embedded_grad (gate_rx big_rx : list nat) (maps : list (list nat)) (G : mat) : mat :=
    map_matrix (fold_right Nat.mul 1 gate_rx) (emb_target gate_rx big_rx maps) G (mzero t0).
End Composed.

Arguments elem_proj {T} t0 t1 levels i j.
Arguments proj_rev {T} t0 t1 tmul l i j.
Arguments ctrl_proj {T} t0 t1 tmul cr cl i j.
Arguments controlled {T} t0 t1 tadd tmul topp cr cl d U i j.
Arguments controlled_grad {T} t0 t1 tmul cr cl d G i j.
Arguments dagger {T} tconj U i j.
Arguments dual T : clear implicits.
Arguments dmul {T} t0 tadd tmul n X Y.
Arguments dadj {T} tconj X.
Arguments done {T} t0 t1.
Arguments pow_bits {T} t0 tadd tmul n S acc p.
Arguments power {T} t0 t1 tadd tmul tconj n X k.
Arguments power_unitary {T} t0 t1 tadd tmul tconj n U k i j.
Arguments power_grads {T} t0 t1 tadd tmul tconj n U Gs k.
Arguments dpow {T} t0 t1 tadd tmul n X k.
Arguments mpow_d {T} t0 t1 tadd tmul n U G k i j.
Arguments map_matrix {T} gdim tgt small init I J.
Arguments embedded {T} t0 t1 gate_rx big_rx maps U I J.
Arguments embedded_grad {T} t0 gate_rx big_rx maps G I J.
