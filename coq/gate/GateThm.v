(* gate/GateThm.v - theorems about the transcribed gate library (gate/GateLib.v).
   [gate_ok_sound]: the boolean contract check (decided by vm_compute through the
   verified normaliser of lib/Expr.v) implies, for ALL real parameter vectors:
   unitarity (both products), gradient = derivative of get_unitary (component-wise
   Coquelicot is_derive), agreement of the expression backend with the numpy
   override, and U(inverse_params p) U(p) = I. *)
From Coq Require Import Reals QArith ZArith List Bool String Arith Lia Lra.
From Coquelicot Require Import Coquelicot.
From BQ Require Import lib.Expr lib.ExprThm gate.Matrix gate.GateLib.
Import ListNotations.
Local Open Scope nat_scope.

(* ---- syntactic operations mean the semantic ones ------------------------- *)
Lemma c0_sem rho : ceval rho c0 = C0.
Proof. unfold c0, C0; simpl. rewrite RMicromega.Q2R_0. reflexivity. Qed.
Lemma c1_sem rho : ceval rho c1 = C1.
Proof. unfold c1, C1; simpl. rewrite RMicromega.Q2R_1. reflexivity. Qed.

Lemma sum_sem rho n f :
  ceval rho (sum c0 cadd n f) = sum C0 Cplus n (fun k => ceval rho (f k)).
Proof. induction n; simpl; [apply (c0_sem rho)|]. rewrite cadd_sound, IHn. reflexivity. Qed.

Lemma sum_ext {T} (t0 : T) tadd n f g :
  (forall k, k < n -> f k = g k) -> sum t0 tadd n f = sum t0 tadd n g.
Proof. induction n; simpl; intros H; [reflexivity|]. rewrite IHn, H; auto. Qed.

Lemma smul_sem rho n A B i j :
  meval rho (smul n A B) i j = Cmmul n (meval rho A) (meval rho B) i j.
Proof. unfold meval, mmap, smul, Cmmul, mmul. rewrite sum_sem. apply sum_ext.
  intros k _. apply cmul_sound. Qed.
Lemma sadj_sem rho A i j : meval rho (sadj A) i j = Cadj (meval rho A) i j.
Proof. unfold meval, mmap, sadj, Cadj, madj. apply cconj_sound. Qed.
Lemma sid_sem rho i j : meval rho sid i j = Cid i j.
Proof. unfold meval, mmap, sid, Cid, mid. destruct (Nat.eqb i j); [apply (c1_sem rho) | apply (c0_sem rho)]. Qed.
Lemma msubst_sem rho s A i j :
  meval rho (msubst s A) i j = meval (fun k => reval rho (s k)) A i j.
Proof. unfold meval, msubst, mmap. apply csubst_sound. Qed.

Lemma Cmmul_ext n A A' B B' :
  (forall i k, k < n -> A i k = A' i k) -> (forall k j, k < n -> B k j = B' k j) ->
  forall i j, Cmmul n A B i j = Cmmul n A' B' i j.
Proof. intros HA HB i j. unfold Cmmul, mmul. apply sum_ext. intros k Hk. rewrite HA, HB; auto. Qed.

Lemma meqb_sound n A B : meqb n A B = true ->
  forall rho, meq n (meval rho A) (meval rho B).
Proof.
  unfold meqb. intros H rho i j Hi Hj. rewrite forallb_forall in H.
  specialize (H i). rewrite in_seq in H. specialize (H ltac:(lia)).
  rewrite forallb_forall in H. specialize (H j). rewrite in_seq in H. specialize (H ltac:(lia)).
  unfold meval, mmap. apply ceqb_sound; assumption.
Qed.

Lemma unitaryb_sound n U : unitaryb n U = true -> forall rho, Cunitary n (meval rho U).
Proof.
  unfold unitaryb. intros H rho. apply andb_prop in H. destruct H as [H1 H2].
  split; intros i j Hi Hj.
  - pose proof (meqb_sound _ _ _ H1 rho i j Hi Hj) as E.
    rewrite smul_sem, sid_sem in E. etransitivity; [|exact E].
    apply Cmmul_ext; intros; auto; symmetry; apply sadj_sem.
  - pose proof (meqb_sound _ _ _ H2 rho i j Hi Hj) as E.
    rewrite smul_sem, sid_sem in E. etransitivity; [|exact E].
    apply Cmmul_ext; intros; auto; symmetry; apply sadj_sem.
Qed.

(* ---- the gate contract ---------------------------------------------------- *)
Definition backends_agree (g : gate) : Prop :=
  forall rho, meq (g_dim g) (meval rho (g_backend g)) (meval rho (g_mat g)).

Definition grad_ok (g : gate) : Prop :=
  forall rho k i j, k < g_nparams g -> i < g_dim g -> j < g_dim g ->
    is_Cderive (fun x => meval (upd rho k x) (g_mat g) i j) (rho k)
               (meval rho (g_gradient g k) i j).

Definition inverse_ok (g : gate) : Prop :=
  forall l, g_inv g = Some l -> List.length l = g_nparams g /\
    forall rho, meq (g_dim g)
      (Cmmul (g_dim g) (meval (fun k => reval rho (inv_subst l k)) (g_mat g)) (meval rho (g_mat g))) Cid.

Definition gate_contract (g : gate) : Prop :=
  (forall rho, Cunitary (g_dim g) (meval rho (g_mat g)))
  /\ backends_agree g /\ grad_ok g /\ inverse_ok g.

Lemma is_Cderive_ext f g x l : (forall t, f t = g t) -> is_Cderive f x l -> is_Cderive g x l.
Proof. intros E [H1 H2]. split.
  - apply (is_derive_ext (fun t => fst (f t))); [intros t; rewrite E; reflexivity | exact H1].
  - apply (is_derive_ext (fun t => snd (f t))); [intros t; rewrite E; reflexivity | exact H2].
Qed.

(* the generic gradient theorem: entry-wise symbolic derivative of ANY matrix of
   expressions is the parameter derivative of its meaning *)
Theorem mderiv_correct (A : smat) rho k i j :
  is_Cderive (fun x => meval (upd rho k x) A i j) (rho k) (meval rho (mderiv k A) i j).
Proof. unfold meval, mderiv, mmap. rewrite csimp_sound. apply cderiv_correct_at. Qed.

Theorem gate_ok_sound g : gate_ok g = true -> gate_contract g.
Proof.
  unfold gate_ok. intros H.
  apply andb_prop in H; destruct H as [H Hinv].
  apply andb_prop in H; destruct H as [H Hgrad].
  apply andb_prop in H; destruct H as [Huni Hexpr].
  assert (BA : backends_agree g).
  { unfold backends_agree, g_backend. destruct (g_expr g) as [e|].
    - intros rho. apply meqb_sound; assumption.
    - intros rho i j _ _. reflexivity. }
  split; [|split; [|split]].
  - apply unitaryb_sound; assumption.
  - exact BA.
  - intros rho k i j Hk Hi Hj. unfold g_gradient. destruct (g_grad g) as [h|].
    + rewrite forallb_forall in Hgrad. specialize (Hgrad k). rewrite in_seq in Hgrad.
      specialize (Hgrad ltac:(lia)).
      rewrite (meqb_sound _ _ _ Hgrad rho i j Hi Hj).
      unfold meval, mmap. apply cderiv_correct_at.
    + apply (is_Cderive_ext (fun x => meval (upd rho k x) (g_backend g) i j)).
      * intros t. apply BA; assumption.
      * apply mderiv_correct.
  - intros l E. rewrite E in Hinv. apply andb_prop in Hinv; destruct Hinv as [Hl Hm].
    apply Nat.eqb_eq in Hl. split; [exact Hl|].
    intros rho i j Hi Hj. pose proof (meqb_sound _ _ _ Hm rho i j Hi Hj) as Q.
    rewrite smul_sem, sid_sem in Q. etransitivity; [|exact Q].
    apply Cmmul_ext; intros; auto; symmetry; apply msubst_sem.
Qed.

(* ---- every transcribed class satisfies the contract ----------------------- *)
Lemma fixed_gates_ok : forallb gate_ok fixed_gates = true.
Proof. vm_compute. reflexivity. Qed.
Lemma grid_gates_ok : forallb gate_ok grid_gates = true.
Proof. vm_compute. reflexivity. Qed.

Theorem fixed_gates_contract : List.Forall gate_contract fixed_gates.
Proof. apply List.Forall_forall. intros g Hg. apply gate_ok_sound.
  pose proof fixed_gates_ok as H. rewrite forallb_forall in H. apply H; assumption. Qed.
Theorem grid_gates_contract : List.Forall gate_contract grid_gates.
Proof. apply List.Forall_forall. intros g Hg. apply gate_ok_sound.
  pose proof grid_gates_ok as H. rewrite forallb_forall in H. apply H; assumption. Qed.

Ltac by_table tbl := 
  let H := fresh in pose proof tbl as H; rewrite List.Forall_forall in H; apply H; simpl; tauto.

Lemma contract_U3 : gate_contract G_U3.  Proof. by_table fixed_gates_contract. Qed.
Lemma contract_U2 : gate_contract G_U2.  Proof. by_table fixed_gates_contract. Qed.
Lemma contract_RX : gate_contract G_RX.  Proof. by_table fixed_gates_contract. Qed.
Lemma contract_RY : gate_contract G_RY.  Proof. by_table fixed_gates_contract. Qed.
Lemma contract_RZ : gate_contract G_RZ.  Proof. by_table fixed_gates_contract. Qed.
Lemma contract_CU : gate_contract G_CU.  Proof. by_table fixed_gates_contract. Qed.
Lemma contract_PXZ : gate_contract G_PXZ.  Proof. by_table fixed_gates_contract. Qed.
Lemma contract_U8 : gate_contract G_U8.  Proof. by_table fixed_gates_contract. Qed.
Lemma contract_H3 : gate_contract (G_H 3).  Proof. by_table grid_gates_contract. Qed.

(* ---- projections used by props/C18.v ---------------------------------------- *)
Definition library : list gate := fixed_gates ++ grid_gates.
Theorem library_contract : List.Forall gate_contract library.
Proof. unfold library. apply List.Forall_app. split; [apply fixed_gates_contract | apply grid_gates_contract]. Qed.

Lemma unitary_of g : gate_contract g -> forall rho, Cunitary (g_dim g) (meval rho (g_mat g)).
Proof. intros H; exact (proj1 H). Qed.
Lemma grad_of g : gate_contract g -> grad_ok g.
Proof. intros H; exact (proj1 (proj2 (proj2 H))). Qed.
Lemma inverse_of g : gate_contract g -> inverse_ok g.
Proof. intros H; exact (proj2 (proj2 (proj2 H))). Qed.
Lemma backends_of g : gate_contract g -> backends_agree g.
Proof. intros H; exact (proj1 (proj2 H)). Qed.

Lemma U3_unitary : forall rho, Cunitary 2 (meval rho m_U3).
Proof. exact (unitary_of _ contract_U3). Qed.
Lemma U3_grad : grad_ok G_U3.
Proof. exact (grad_of _ contract_U3). Qed.
Lemma U3_inverse : forall rho, meq 2
  (Cmmul 2 (meval (fun k => reval rho (inv_subst [RNeg (RVar 0); RNeg (RVar 2); RNeg (RVar 1)] k)) m_U3)
           (meval rho m_U3)) Cid.
Proof. intros rho. exact (proj2 (inverse_of _ contract_U3 _ eq_refl) rho). Qed.

(* ---- CKMGate / CKMdgGate: the hand-written get_grad is refuted -------------- *)
(* witness: params = (0, 0, 0, pi/2), d/d params[0], entry (2,0) (resp. (0,2) for
   CKMdg): the code's value is +i while the derivative is -i *)
Definition ckm_point : nat -> rexpr :=
  fun k => match k with 3 => RMul RPi (RQ (1 # 2)) | _ => RQ 0 end.
Definition ckm_env : env := fun k => reval (fun _ => 0%R) (ckm_point k).

Lemma is_Cderive_unique f x l l' : is_Cderive f x l -> is_Cderive f x l' -> l = l'.
Proof. intros [A1 A2] [B1 B2]. apply Ceq.
  - rewrite <- (is_derive_unique _ _ _ A1). apply is_derive_unique; exact B1.
  - rewrite <- (is_derive_unique _ _ _ A2). apply is_derive_unique; exact B2. Qed.

Lemma eval_at_point (e v : cexpr) :
  ceqb (csubst ckm_point e) v = true -> ceval ckm_env e = ceval (fun _ => 0%R) v.
Proof. intros H. unfold ckm_env. rewrite <- csubst_sound. apply ceqb_sound; exact H. Qed.

Lemma grad_refuted (g : gate) (i j : nat) (hv dv : cexpr) :
  g_nparams g = 4 -> g_dim g = 3 -> i < 3 -> j < 3 ->
  ceqb (csubst ckm_point (g_gradient g 0 i j)) hv = true ->
  ceqb (csubst ckm_point (mderiv 0 (g_mat g) i j)) dv = true ->
  ceval (fun _ => 0%R) hv <> ceval (fun _ => 0%R) dv ->
  ~ grad_ok g.
Proof.
  intros Hn Hd Hi Hj H1 H2 Hne G.
  specialize (G ckm_env 0 i j). rewrite Hn, Hd in G. specialize (G ltac:(lia) Hi Hj).
  pose proof (mderiv_correct (g_mat g) ckm_env 0 i j) as D.
  pose proof (is_Cderive_unique _ _ _ _ G D) as E.
  unfold meval, mmap in E. rewrite (eval_at_point _ _ H1), (eval_at_point _ _ H2) in E.
  exact (Hne E).
Qed.

Theorem CKM_grad_refuted : ~ grad_ok G_CKM.
Proof.
  apply (grad_refuted G_CKM 2 0 CI (CNeg CI)); try reflexivity; try lia; try (vm_compute; reflexivity).
  intros E. apply (f_equal snd) in E. simpl in E. lra.
Qed.
Theorem CKMdg_grad_refuted : ~ grad_ok G_CKMdg.
Proof.
  apply (grad_refuted G_CKMdg 0 2 CI (CNeg CI)); try reflexivity; try lia; try (vm_compute; reflexivity).
  intros E. apply (f_equal snd) in E. simpl in E. lra.
Qed.
(* ... while both classes are unitary for all parameters *)
Lemma CKM_unitary : forall rho, Cunitary 3 (meval rho (m_CKM false)).
Proof. apply unitaryb_sound. vm_compute. reflexivity. Qed.
Lemma CKMdg_unitary : forall rho, Cunitary 3 (meval rho (m_CKM true)).
Proof. apply unitaryb_sound. vm_compute. reflexivity. Qed.

(* ---- named instances (generated list) ---------------------------------------- *)
Lemma contract_RX' : gate_contract G_RX. Proof. by_table fixed_gates_contract. Qed.
Lemma RX_unitary : forall rho, Cunitary 2 (meval rho m_RX). Proof. exact (unitary_of _ contract_RX'). Qed.
Lemma RX_grad : grad_ok G_RX. Proof. exact (grad_of _ contract_RX'). Qed.
Lemma contract_RY' : gate_contract G_RY. Proof. by_table fixed_gates_contract. Qed.
Lemma RY_unitary : forall rho, Cunitary 2 (meval rho m_RY). Proof. exact (unitary_of _ contract_RY'). Qed.
Lemma RY_grad : grad_ok G_RY. Proof. exact (grad_of _ contract_RY'). Qed.
Lemma contract_RZ' : gate_contract G_RZ. Proof. by_table fixed_gates_contract. Qed.
Lemma RZ_unitary : forall rho, Cunitary 2 (meval rho m_RZ). Proof. exact (unitary_of _ contract_RZ'). Qed.
Lemma RZ_grad : grad_ok G_RZ. Proof. exact (grad_of _ contract_RZ'). Qed.
Lemma contract_U1' : gate_contract G_U1. Proof. by_table fixed_gates_contract. Qed.
Lemma U1_unitary : forall rho, Cunitary 2 (meval rho m_U1). Proof. exact (unitary_of _ contract_U1'). Qed.
Lemma U1_grad : grad_ok G_U1. Proof. exact (grad_of _ contract_U1'). Qed.
Lemma contract_U2' : gate_contract G_U2. Proof. by_table fixed_gates_contract. Qed.
Lemma U2_unitary : forall rho, Cunitary 2 (meval rho m_U2). Proof. exact (unitary_of _ contract_U2'). Qed.
Lemma U2_grad : grad_ok G_U2. Proof. exact (grad_of _ contract_U2'). Qed.
Lemma contract_U1q' : gate_contract G_U1q. Proof. by_table fixed_gates_contract. Qed.
Lemma U1q_unitary : forall rho, Cunitary 2 (meval rho m_U1q_np). Proof. exact (unitary_of _ contract_U1q'). Qed.
Lemma U1q_grad : grad_ok G_U1q. Proof. exact (grad_of _ contract_U1q'). Qed.
Lemma contract_RXX' : gate_contract G_RXX. Proof. by_table fixed_gates_contract. Qed.
Lemma RXX_unitary : forall rho, Cunitary 4 (meval rho m_RXX). Proof. exact (unitary_of _ contract_RXX'). Qed.
Lemma RXX_grad : grad_ok G_RXX. Proof. exact (grad_of _ contract_RXX'). Qed.
Lemma contract_RYY' : gate_contract G_RYY. Proof. by_table fixed_gates_contract. Qed.
Lemma RYY_unitary : forall rho, Cunitary 4 (meval rho m_RYY). Proof. exact (unitary_of _ contract_RYY'). Qed.
Lemma RYY_grad : grad_ok G_RYY. Proof. exact (grad_of _ contract_RYY'). Qed.
Lemma contract_RZZ' : gate_contract G_RZZ. Proof. by_table fixed_gates_contract. Qed.
Lemma RZZ_unitary : forall rho, Cunitary 4 (meval rho m_RZZ). Proof. exact (unitary_of _ contract_RZZ'). Qed.
Lemma RZZ_grad : grad_ok G_RZZ. Proof. exact (grad_of _ contract_RZZ'). Qed.
Lemma contract_CRX' : gate_contract G_CRX. Proof. by_table fixed_gates_contract. Qed.
Lemma CRX_unitary : forall rho, Cunitary 4 (meval rho m_CRX_np). Proof. exact (unitary_of _ contract_CRX'). Qed.
Lemma CRX_grad : grad_ok G_CRX. Proof. exact (grad_of _ contract_CRX'). Qed.
Lemma contract_CRY' : gate_contract G_CRY. Proof. by_table fixed_gates_contract. Qed.
Lemma CRY_unitary : forall rho, Cunitary 4 (meval rho m_CRY_np). Proof. exact (unitary_of _ contract_CRY'). Qed.
Lemma CRY_grad : grad_ok G_CRY. Proof. exact (grad_of _ contract_CRY'). Qed.
Lemma contract_CRZ' : gate_contract G_CRZ. Proof. by_table fixed_gates_contract. Qed.
Lemma CRZ_unitary : forall rho, Cunitary 4 (meval rho m_CRZ_np). Proof. exact (unitary_of _ contract_CRZ'). Qed.
Lemma CRZ_grad : grad_ok G_CRZ. Proof. exact (grad_of _ contract_CRZ'). Qed.
Lemma contract_CP' : gate_contract G_CP. Proof. by_table fixed_gates_contract. Qed.
Lemma CP_unitary : forall rho, Cunitary 4 (meval rho m_CP). Proof. exact (unitary_of _ contract_CP'). Qed.
Lemma CP_grad : grad_ok G_CP. Proof. exact (grad_of _ contract_CP'). Qed.
Lemma contract_CCP' : gate_contract G_CCP. Proof. by_table fixed_gates_contract. Qed.
Lemma CCP_unitary : forall rho, Cunitary 8 (meval rho m_CCP). Proof. exact (unitary_of _ contract_CCP'). Qed.
Lemma CCP_grad : grad_ok G_CCP. Proof. exact (grad_of _ contract_CCP'). Qed.
Lemma contract_CU' : gate_contract G_CU. Proof. by_table fixed_gates_contract. Qed.
Lemma CU_unitary : forall rho, Cunitary 4 (meval rho m_CU_np). Proof. exact (unitary_of _ contract_CU'). Qed.
Lemma CU_grad : grad_ok G_CU. Proof. exact (grad_of _ contract_CU'). Qed.
Lemma contract_FSIM' : gate_contract G_FSIM. Proof. by_table fixed_gates_contract. Qed.
Lemma FSIM_unitary : forall rho, Cunitary 4 (meval rho m_FSIM_np). Proof. exact (unitary_of _ contract_FSIM'). Qed.
Lemma FSIM_grad : grad_ok G_FSIM. Proof. exact (grad_of _ contract_FSIM'). Qed.
Lemma contract_PhasedXZ' : gate_contract G_PXZ. Proof. by_table fixed_gates_contract. Qed.
Lemma PhasedXZ_unitary : forall rho, Cunitary 2 (meval rho m_PXZ_np). Proof. exact (unitary_of _ contract_PhasedXZ'). Qed.
Lemma PhasedXZ_grad : grad_ok G_PXZ. Proof. exact (grad_of _ contract_PhasedXZ'). Qed.
Lemma contract_U8' : gate_contract G_U8. Proof. by_table fixed_gates_contract. Qed.
Lemma U8_unitary : forall rho, Cunitary 3 (meval rho m_U8). Proof. exact (unitary_of _ contract_U8'). Qed.
Lemma U8_grad : grad_ok G_U8. Proof. exact (grad_of _ contract_U8'). Qed.
Lemma contract_X' : gate_contract G_X. Proof. by_table fixed_gates_contract. Qed.
Lemma X_unitary : forall rho, Cunitary 2 (meval rho (m_X)). Proof. exact (unitary_of _ contract_X'). Qed.
Lemma contract_Y' : gate_contract G_Y. Proof. by_table fixed_gates_contract. Qed.
Lemma Y_unitary : forall rho, Cunitary 2 (meval rho (m_Y)). Proof. exact (unitary_of _ contract_Y'). Qed.
Lemma contract_Z' : gate_contract G_Z. Proof. by_table fixed_gates_contract. Qed.
Lemma Z_unitary : forall rho, Cunitary 2 (meval rho (m_Z)). Proof. exact (unitary_of _ contract_Z'). Qed.
Lemma contract_S' : gate_contract G_S. Proof. by_table fixed_gates_contract. Qed.
Lemma S_unitary : forall rho, Cunitary 2 (meval rho (m_S)). Proof. exact (unitary_of _ contract_S'). Qed.
Lemma contract_T' : gate_contract G_T. Proof. by_table fixed_gates_contract. Qed.
Lemma T_unitary : forall rho, Cunitary 2 (meval rho (m_T)). Proof. exact (unitary_of _ contract_T'). Qed.
Lemma contract_SqrtX' : gate_contract G_SX. Proof. by_table fixed_gates_contract. Qed.
Lemma SqrtX_unitary : forall rho, Cunitary 2 (meval rho (m_SX)). Proof. exact (unitary_of _ contract_SqrtX'). Qed.
Lemma contract_SqrtT' : gate_contract G_SqrtT. Proof. by_table fixed_gates_contract. Qed.
Lemma SqrtT_unitary : forall rho, Cunitary 2 (meval rho (m_SqrtT)). Proof. exact (unitary_of _ contract_SqrtT'). Qed.
Lemma contract_CNOT' : gate_contract G_CX. Proof. by_table fixed_gates_contract. Qed.
Lemma CNOT_unitary : forall rho, Cunitary 4 (meval rho (ctl 2 1 m_X)). Proof. exact (unitary_of _ contract_CNOT'). Qed.
Lemma contract_CZ' : gate_contract G_CZ. Proof. by_table fixed_gates_contract. Qed.
Lemma CZ_unitary : forall rho, Cunitary 4 (meval rho (ctl 2 1 m_Z)). Proof. exact (unitary_of _ contract_CZ'). Qed.
Lemma contract_CH' : gate_contract G_CH. Proof. by_table fixed_gates_contract. Qed.
Lemma CH_unitary : forall rho, Cunitary 4 (meval rho (ctl 2 1 (m_H 2))). Proof. exact (unitary_of _ contract_CH'). Qed.
Lemma contract_CCX' : gate_contract G_CCX. Proof. by_table fixed_gates_contract. Qed.
Lemma CCX_unitary : forall rho, Cunitary 8 (meval rho (ctl 2 2 m_X)). Proof. exact (unitary_of _ contract_CCX'). Qed.
Lemma contract_ISwap' : gate_contract G_ISwap. Proof. by_table fixed_gates_contract. Qed.
Lemma ISwap_unitary : forall rho, Cunitary 4 (meval rho (m_ISwap)). Proof. exact (unitary_of _ contract_ISwap'). Qed.
Lemma contract_SqrtISwap' : gate_contract G_SqrtISwap. Proof. by_table fixed_gates_contract. Qed.
Lemma SqrtISwap_unitary : forall rho, Cunitary 4 (meval rho (m_SqrtISwap)). Proof. exact (unitary_of _ contract_SqrtISwap'). Qed.
Lemma contract_ECR' : gate_contract G_ECR. Proof. by_table fixed_gates_contract. Qed.
Lemma ECR_unitary : forall rho, Cunitary 4 (meval rho (m_ECR)). Proof. exact (unitary_of _ contract_ECR'). Qed.
Lemma contract_B' : gate_contract G_B. Proof. by_table fixed_gates_contract. Qed.
Lemma B_unitary : forall rho, Cunitary 4 (meval rho (m_B)). Proof. exact (unitary_of _ contract_B'). Qed.
Lemma contract_Sycamore' : gate_contract G_Sycamore. Proof. by_table fixed_gates_contract. Qed.
Lemma Sycamore_unitary : forall rho, Cunitary 4 (meval rho (m_Sycamore)). Proof. exact (unitary_of _ contract_Sycamore'). Qed.
Lemma contract_RC3X' : gate_contract G_RC3X. Proof. by_table fixed_gates_contract. Qed.
Lemma RC3X_unitary : forall rho, Cunitary 16 (meval rho (m_RC3X)). Proof. exact (unitary_of _ contract_RC3X'). Qed.
Lemma contract_H2' : gate_contract (G_H 2). Proof. by_table grid_gates_contract. Qed.
Lemma H2_unitary : forall rho, Cunitary 2 (meval rho (m_H 2)). Proof. exact (unitary_of _ contract_H2'). Qed.
Lemma contract_H3' : gate_contract (G_H 3). Proof. by_table grid_gates_contract. Qed.
Lemma H3_unitary : forall rho, Cunitary 3 (meval rho (m_H 3)). Proof. exact (unitary_of _ contract_H3'). Qed.
Lemma contract_H4' : gate_contract (G_H 4). Proof. by_table grid_gates_contract. Qed.
Lemma H4_unitary : forall rho, Cunitary 4 (meval rho (m_H 4)). Proof. exact (unitary_of _ contract_H4'). Qed.
Lemma contract_Shift3' : gate_contract (G_Shift 3). Proof. by_table grid_gates_contract. Qed.
Lemma Shift3_unitary : forall rho, Cunitary 3 (meval rho (m_shift 3)). Proof. exact (unitary_of _ contract_Shift3'). Qed.
Lemma contract_Clock3' : gate_contract (G_Clock 3). Proof. by_table grid_gates_contract. Qed.
Lemma Clock3_unitary : forall rho, Cunitary 3 (meval rho (m_clock 3)). Proof. exact (unitary_of _ contract_Clock3'). Qed.
Lemma contract_Swap3' : gate_contract (G_Swap 3). Proof. by_table grid_gates_contract. Qed.
Lemma Swap3_unitary : forall rho, Cunitary 9 (meval rho (m_swap 3)). Proof. exact (unitary_of _ contract_Swap3'). Qed.
Lemma contract_CSUM3' : gate_contract (G_CSUM 3). Proof. by_table grid_gates_contract. Qed.
Lemma CSUM3_unitary : forall rho, Cunitary 9 (meval rho (m_csum 3)). Proof. exact (unitary_of _ contract_CSUM3'). Qed.

(* the repaired CKM gradients of fixes/C18-F1.patch ARE the derivative, for all parameters *)
Lemma contract_CKM_fixed : gate_contract G_CKM_fixed.
Proof. apply gate_ok_sound. vm_compute. reflexivity. Qed.
Lemma contract_CKMdg_fixed : gate_contract G_CKMdg_fixed.
Proof. apply gate_ok_sound. vm_compute. reflexivity. Qed.
Lemma CKM_fixed_grad : grad_ok G_CKM_fixed. Proof. exact (grad_of _ contract_CKM_fixed). Qed.
Lemma CKMdg_fixed_grad : grad_ok G_CKMdg_fixed. Proof. exact (grad_of _ contract_CKMdg_fixed). Qed.
