(* WIP (not built, not tied yet): model of PermutationMatrix.from_qudit_location *)
From Coq Require Import List Arith Bool PeanoNat.
From BQ Require Import gate.Matrix gate.Composed.
Import ListNotations.
(* ---- PermutationMatrix.from_qudit_location ---------------------------------------
     current_perm = list(location)
     for i in range(num_qudits):
         if i not in current_perm: current_perm.append(i)                          *)
Definition complete_perm (n : nat) (loc : list nat) : list nat :=
  fold_left (fun cp i => if existsb (Nat.eqb i) cp then cp else cp ++ [i]) (seq 0 n) loc.

(* list.index: first position, None = ValueError *)
Fixpoint index_of (x : nat) (l : list nat) : option nat :=
  match l with
  | [] => None
  | y :: t => if Nat.eqb y x then Some 0 else option_map S (index_of x t)
  end.

Fixpoint set_nth {A} (k : nat) (x : A) (l : list A) : list A :=
  match k, l with
  | _, [] => []
  | O, _ :: t => x :: t
  | S k', y :: t => y :: set_nth k' x t
  end.
(* tmp = l[a]; l[a] = l[b]; l[b] = tmp *)
Definition swap_at (a b : nat) (l : list nat) : list nat :=
  set_nth b (nth a l 0) (set_nth a (nth b l 0) l).

(*   for index, qudit in enumerate(current_perm):      (the list is mutated, its length is not)
         if index != qudit:
             current_pos = current_perm.index(index)                      (ValueError -> None)
             perm_builder.apply_left(swap_utry, (index, current_pos))     (invalid location -> None)
             swap current_perm[index], current_perm[current_pos]
   result: the locations of the swaps, in the order they are applied on the left *)
Fixpoint perm_loop (n : nat) (idxs : list nat) (cp : list nat) (acc : list (nat * nat))
  : option (list (nat * nat)) :=
  match idxs with
  | [] => Some acc
  | index :: rest =>
    if Nat.eqb index (nth index cp 0) then perm_loop n rest cp acc
    else match index_of index cp with
         | None => None
         | Some pos =>
           if Nat.ltb index n && Nat.ltb pos n
           then perm_loop n rest (swap_at index pos cp) (acc ++ [(index, pos)])
           else None
         end
  end.

(* PermutationGate.__init__ (num_qudits <= 0 raises) *)
Definition perm_swaps (n : nat) (loc : list nat) : option (list (nat * nat)) :=
  if Nat.eqb n 0 then None else
  let cp := complete_perm n loc in perm_loop n (seq 0 (length cp)) cp [].

(* UnitaryBuilder.apply_left(swap, (a, b)) multiplies on the left by the matrix that
   exchanges digits a and b of the basis-state index (qudit 0 = most significant digit);
   the product of all of them sends basis state c to [perm_index n radix swaps c] *)
Definition perm_index (n radix : nat) (swaps : list (nat * nat)) (c : nat) : nat :=
  ravel (repeat radix n)
    (fold_left (fun ds ab => swap_at (fst ab) (snd ab) ds) swaps (unravel (repeat radix n) c)).
