(* gate/PermDiagThm.v - permutation matrices of bijections and diagonal matrices of
   unit-modulus entries are unitary (any dimension); consequences for the families of
   gate/GateLib.v for ALL radixes / sizes (not only the grid points checked by
   vm_compute), and for the PermutationGate model of gate/PermDiag.v. *)
From Coq Require Import Reals QArith ZArith List Bool String Arith Lia Lra Ring.
From Coquelicot Require Import Coquelicot.
From BQ Require Import lib.Expr lib.ExprThm gate.Matrix gate.MatrixThm gate.Composed gate.GateLib gate.GateThm gate.ComposedThm gate.PermDiag.
Import ListNotations.
Local Open Scope nat_scope.

Section PDThm.
  Variable T : Type.
  Variables (t0 t1 : T) (tadd tmul : T -> T -> T) (topp : T -> T) (tconj : T -> T).
  Hypothesis Rth : ring_theory t0 t1 tadd tmul (fun a b => tadd a (topp b)) topp eq.
  Hypothesis conj_0 : tconj t0 = t0.
  Hypothesis conj_1 : tconj t1 = t1.
  Add Ring TRing2 : Rth.
  Notation sum := (sum t0 tadd).
  Notation unitary := (unitary t0 t1 tadd tmul tconj).

  Let sum_single := MatrixThm.sum_single T t0 t1 tadd tmul topp Rth.

  Theorem pmat_unitary n f g :
    (forall j, j < n -> f j < n) -> (forall i, i < n -> g i < n) ->
    (forall j, j < n -> g (f j) = j) -> (forall i, i < n -> f (g i) = i) ->
    unitary n (pmat t0 t1 f).
  Proof.
    intros Hf Hg Hgf Hfg. split; intros i j Hi Hj; unfold mmul, madj, mid.
    - rewrite (sum_single n (g i)); [|auto|].
      + unfold pmat. rewrite (Hfg i Hi), Nat.eqb_refl.
        destruct (Nat.eqb j i) eqn:E.
        * apply Nat.eqb_eq in E; subst j. rewrite Nat.eqb_refl, conj_1. ring.
        * rewrite Nat.eqb_sym, E, conj_0. ring.
      + intros k Hk Hne. unfold pmat. destruct (Nat.eqb i (f k)) eqn:E; [|ring].
        apply Nat.eqb_eq in E. exfalso. apply Hne. rewrite E. symmetry. apply Hgf; assumption.
    - rewrite (sum_single n (f i)); [|auto|].
      + unfold pmat. rewrite Nat.eqb_refl, conj_1.
        destruct (Nat.eqb i j) eqn:E.
        * apply Nat.eqb_eq in E; subst j. rewrite Nat.eqb_refl. ring.
        * destruct (Nat.eqb (f i) (f j)) eqn:E2; [|ring].
          apply Nat.eqb_eq in E2. apply Nat.eqb_neq in E. exfalso. apply E.
          rewrite <- (Hgf i Hi), <- (Hgf j Hj), E2. reflexivity.
      + intros k Hk Hne. unfold pmat. destruct (Nat.eqb k (f i)) eqn:E; [|rewrite conj_0; ring].
        apply Nat.eqb_eq in E. contradiction.
  Qed.

  (* the dagger of the permutation matrix of f is the permutation matrix of its inverse *)
  Theorem pmat_adj n f g :
    (forall j, j < n -> g (f j) = j) -> (forall i, i < n -> f (g i) = i) ->
    meq n (madj tconj (pmat t0 t1 f)) (pmat t0 t1 g).
  Proof.
    intros Hgf Hfg i j Hi Hj. unfold madj, pmat.
    destruct (Nat.eqb j (f i)) eqn:E.
    - apply Nat.eqb_eq in E. rewrite E, (Hgf i Hi), Nat.eqb_refl. exact conj_1.
    - destruct (Nat.eqb i (g j)) eqn:E2; [|exact conj_0].
      apply Nat.eqb_eq in E2. apply Nat.eqb_neq in E. exfalso. apply E. rewrite E2. symmetry. auto.
  Qed.

  Theorem dmat_unitary n d :
    (forall i, i < n -> tmul (d i) (tconj (d i)) = t1) -> unitary n (dmat t0 d).
  Proof.
    intros Hd. split; intros i j Hi Hj; unfold mmul, madj, mid.
    - rewrite (sum_single n i); [|auto|].
      + unfold dmat. rewrite Nat.eqb_refl. rewrite (Nat.eqb_sym j i).
        destruct (Nat.eqb i j) eqn:E.
        * apply Nat.eqb_eq in E; subst j. apply Hd; assumption.
        * rewrite conj_0. ring.
      + intros k Hk Hne. unfold dmat. destruct (Nat.eqb i k) eqn:E; [|ring].
        apply Nat.eqb_eq in E. exfalso; auto.
    - rewrite (sum_single n i); [|auto|].
      + unfold dmat. rewrite Nat.eqb_refl.
        destruct (Nat.eqb i j) eqn:E.
        * apply Nat.eqb_eq in E; subst j. rewrite <- (Hd i Hi). ring.
        * ring.
      + intros k Hk Hne. unfold dmat. destruct (Nat.eqb k i) eqn:E; [|rewrite conj_0; ring].
        apply Nat.eqb_eq in E. contradiction.
  Qed.
End PDThm.

(* ---- complex instances --------------------------------------------------------- *)
Theorem Cpmat_unitary n f g :
  (forall j, j < n -> f j < n) -> (forall i, i < n -> g i < n) ->
  (forall j, j < n -> g (f j) = j) -> (forall i, i < n -> f (g i) = i) ->
  Cunitary n (pmat C0 C1 f).
Proof. intros. unfold Cunitary. eapply pmat_unitary; eauto; cinst. Qed.
Theorem Cpmat_inverse n f g :
  (forall j, j < n -> g (f j) = j) -> (forall i, i < n -> f (g i) = i) ->
  meq n (dagger Cconj (pmat C0 C1 f)) (pmat C0 C1 g).
Proof. intros. unfold dagger. eapply pmat_adj; eauto; cinst. Qed.

Definition Cunit (z : C) : Prop := Cmult z (Cconj z) = C1.
Theorem Cdmat_unitary n d : (forall i, i < n -> Cunit (d i)) -> Cunitary n (dmat C0 d).
Proof. intros. unfold Cunitary. eapply dmat_unitary; eauto; cinst. Qed.

Lemma Cunit_cis x : Cunit (cis x).
Proof. apply cis_unit. Qed.
Lemma Cunit_1 : Cunit C1.
Proof. unfold Cunit, C1. rewrite Cconj_R. apply Ceq; simpl; ring. Qed.
Lemma Cunit_opp z : Cunit z -> Cunit (Copp z).
Proof. unfold Cunit. intros H. rewrite Cconj_opp. rewrite <- H. ring. Qed.

(* a symbolic matrix that is a permutation matrix / a unit-modulus diagonal *)
Theorem sperm_unitary n f g (A : smat) :
  (forall i j, i < n -> j < n -> A i j = if Nat.eqb i (f j) then c1 else c0) ->
  (forall j, j < n -> f j < n) -> (forall i, i < n -> g i < n) ->
  (forall j, j < n -> g (f j) = j) -> (forall i, i < n -> f (g i) = i) ->
  forall rho, Cunitary n (meval rho A).
Proof.
  intros HA H1 H2 H3 H4 rho. unfold Cunitary.
  apply (unitary_proper C C0 C1 Cplus Cmult Cconj n (pmat C0 C1 f)).
  - intros i j Hi Hj. unfold meval, mmap, pmat. rewrite (HA i j Hi Hj).
    destruct (Nat.eqb i (f j)); symmetry; [apply (c1_sem rho) | apply (c0_sem rho)].
  - apply (Cpmat_unitary n f g); assumption.
Qed.

Theorem sdiag_unitary n (A : smat) :
  (forall i j, i < n -> j < n -> i <> j -> A i j = c0) ->
  (forall rho i, i < n -> Cunit (ceval rho (A i i))) ->
  forall rho, Cunitary n (meval rho A).
Proof.
  intros H0 Hu rho. unfold Cunitary.
  apply (unitary_proper C C0 C1 Cplus Cmult Cconj n (dmat C0 (fun i => ceval rho (A i i)))).
  - intros i j Hi Hj. unfold meval, mmap, dmat. destruct (Nat.eqb i j) eqn:E.
    + apply Nat.eqb_eq in E; subst j. reflexivity.
    + apply Nat.eqb_neq in E. rewrite (H0 i j Hi Hj E). symmetry. apply (c0_sem rho).
  - apply Cdmat_unitary. intros i Hi. apply Hu; assumption.
Qed.

(* a class without hand-written gradient / inverse parameters whose expression backend is
   its get_unitary satisfies the whole contract as soon as it is unitary: the gradient is the
   symbolic derivative (mderiv_correct, for every expression) *)
Theorem contract_of_unitary g :
  g_grad g = None -> g_inv g = None -> (g_expr g = None \/ g_expr g = Some (g_mat g)) ->
  (forall rho, Cunitary (g_dim g) (meval rho (g_mat g))) -> gate_contract g.
Proof.
  intros Hg Hi He HU.
  assert (B : g_backend g = g_mat g) by (unfold g_backend; destruct He as [-> | ->]; reflexivity).
  split; [exact HU|]. split; [|split].
  - intros rho i j _ _. rewrite B. reflexivity.
  - intros rho k i j _ _ _. unfold g_gradient. rewrite Hg, B. apply mderiv_correct.
  - intros l E. rewrite Hi in E. discriminate.
Qed.

(* ---- the diagonal families, for ALL sizes / radixes and all real parameters ------------ *)
Ltac diag_family :=
  apply contract_of_unitary; try reflexivity; [first [left; reflexivity | right; reflexivity]|];
  apply sdiag_unitary.
Ltac offdiag := intros i j _ _ Hne; apply Nat.eqb_neq in Hne.

Theorem Clock_contract_all r : gate_contract (G_Clock r).
Proof. diag_family.
  - offdiag. cbn [G_Clock const_gate g_mat]. unfold m_clock. rewrite Hne. reflexivity.
  - intros rho i _. cbn [G_Clock const_gate g_mat]. unfold m_clock. rewrite Nat.eqb_refl.
    unfold omega_pow, ei. cbn [ceval]. apply Cunit_cis.
Qed.
Theorem PD_contract_all idx r : gate_contract (G_PD idx r).
Proof. diag_family.
  - offdiag. cbn [G_PD const_gate g_mat]. unfold m_PD. rewrite Hne. reflexivity.
  - intros rho i _. cbn [G_PD const_gate g_mat]. unfold m_PD. rewrite Nat.eqb_refl.
    destruct (Nat.eqb i idx).
    + unfold ei. cbn [ceval]. apply Cunit_opp, Cunit_cis.
    + rewrite (c1_sem rho). apply Cunit_1.
Qed.
Theorem ACP_contract_all rx : gate_contract (G_ACP rx).
Proof. diag_family.
  - offdiag. cbn [G_ACP both_gate g_mat]. unfold m_ACP. rewrite Hne. reflexivity.
  - intros rho i _. cbn [G_ACP both_gate g_mat]. unfold m_ACP. rewrite Nat.eqb_refl.
    destruct (Nat.eqb (S i) _).
    + unfold ei. cbn [ceval]. apply Cunit_cis.
    + rewrite (c1_sem rho). apply Cunit_1.
Qed.
Theorem Diag_contract_all n : gate_contract (G_Diag n).
Proof. diag_family.
  - offdiag. cbn [G_Diag both_gate g_mat]. unfold m_Diag. rewrite Hne. reflexivity.
  - intros rho i _. cbn [G_Diag both_gate g_mat]. unfold m_Diag. rewrite Nat.eqb_refl.
    destruct i.
    + rewrite (c1_sem rho). apply Cunit_1.
    + unfold ei. cbn [ceval]. apply Cunit_cis.
Qed.
Theorem MPRZ_contract_all n t : gate_contract (G_MPRZ n t).
Proof. diag_family.
  - offdiag. cbn [G_MPRZ both_gate g_mat]. unfold m_MPRZ. rewrite Hne. reflexivity.
  - intros rho i _. cbn [G_MPRZ both_gate g_mat]. unfold m_MPRZ. rewrite Nat.eqb_refl.
    destruct (mp_owner i t n) as [k b]. destruct b; unfold ei; cbn [ceval]; apply Cunit_cis.
Qed.
Theorem PauliZ_contract_all n : gate_contract (G_PauliZ n).
Proof. diag_family.
  - offdiag. cbn [G_PauliZ expr_gate g_mat]. unfold m_PauliZ. rewrite Hne. reflexivity.
  - intros rho i _. cbn [G_PauliZ expr_gate g_mat]. unfold m_PauliZ. rewrite Nat.eqb_refl.
    cbn [ceval]. apply Cunit_cis.
Qed.

(* ---- ShiftGate(r) for every radix --------------------------------------------------- *)
Lemma shift_fg r j : j < r -> ((j + 1) mod r + (r - 1)) mod r = j.
Proof.
  intros H. destruct (Nat.eq_dec (j + 1) r) as [E|E].
  - rewrite E, Nat.mod_same by lia. simpl. rewrite Nat.mod_small by lia. lia.
  - rewrite (Nat.mod_small (j + 1) r) by lia.
    replace (j + 1 + (r - 1)) with (j + 1 * r) by lia.
    rewrite Nat.mod_add by lia. apply Nat.mod_small. lia.
Qed.
Lemma shift_gf r i : i < r -> ((i + (r - 1)) mod r + 1) mod r = i.
Proof.
  intros H. destruct i.
  - simpl. rewrite (Nat.mod_small (r - 1) r) by lia. replace (r - 1 + 1) with r by lia.
    apply Nat.mod_same. lia.
  - replace (S i + (r - 1)) with (i + 1 * r) by lia. rewrite Nat.mod_add by lia.
    rewrite (Nat.mod_small i r) by lia. rewrite Nat.mod_small by lia. lia.
Qed.
Theorem Shift_contract_all r : 0 < r -> gate_contract (G_Shift r).
Proof.
  intros Hr. apply contract_of_unitary; try reflexivity; [left; reflexivity|].
  cbn [G_Shift const_gate g_mat g_dim g_radixes fold_right]. rewrite Nat.mul_1_r.
  apply (sperm_unitary r (fun j => (j + 1) mod r) (fun i => (i + (r - 1)) mod r)).
  - intros i j _ _. reflexivity.
  - intros j _. apply Nat.mod_upper_bound. lia.
  - intros i _. apply Nat.mod_upper_bound. lia.
  - intros j Hj. apply shift_fg; assumption.
  - intros i Hi. apply shift_gf; assumption.
Qed.
(* ShiftGate(r)^dagger is the permutation matrix of the backward shift *)
Theorem Shift_inverse_all r : 0 < r ->
  meq r (dagger Cconj (pmat C0 C1 (fun j => (j + 1) mod r))) (pmat C0 C1 (fun i => (i + (r - 1)) mod r)).
Proof. intros Hr. apply Cpmat_inverse; intros; [apply shift_fg | apply shift_gf]; assumption. Qed.
