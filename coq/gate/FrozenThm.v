(* gate/FrozenThm.v - FrozenParameterGate.get_full_params (gate/Composed.v: full_params)
   puts every frozen value at its own index and the free parameters, in order, at the
   unfrozen indices - for every valid frozen dict (keys distinct, < num_params). *)
From Coq Require Import List Arith Bool PeanoNat Lia Permutation.
From BQ Require Import gate.Composed.
Import ListNotations.

Section Frozen.
  Variable A : Type.
  Variable d : A.
  Notation ins := (fun (args : list A) (kx : nat * A) => insert_at (fst kx) (snd kx) args).

  (* ---- list.insert ---- *)
  Lemma insert_at_length k x : forall l : list A, length (insert_at k x l) = S (length l).
  Proof. induction k; intros [|y t]; simpl; auto. Qed.
  Lemma nth_insert_lt k x : forall (l : list A) p, p < k -> k <= length l ->
    nth p (insert_at k x l) d = nth p l d.
  Proof. induction k; intros l p Hp Hk; [lia|]. destruct l as [|y t]; simpl in Hk; [lia|].
    simpl. destruct p; auto. apply IHk; lia. Qed.
  Lemma nth_insert_eq k x : forall l : list A, k <= length l -> nth k (insert_at k x l) d = x.
  Proof. induction k; intros l Hk; [destruct l; reflexivity|]. destruct l as [|y t]; simpl in Hk; [lia|].
    simpl. apply IHk; lia. Qed.
  Lemma nth_insert_gt k x : forall (l : list A) p, k < p -> k <= length l ->
    nth p (insert_at k x l) d = nth (p - 1) l d.
  Proof. induction k; intros l p Hp Hk.
    - destruct p; [lia|]. simpl. rewrite Nat.sub_0_r. destruct l; reflexivity.
    - destruct l as [|y t]; simpl in Hk; [lia|]. destruct p; [lia|]. simpl. rewrite Nat.sub_0_r.
      rewrite IHk by lia. destruct p; [lia|]. simpl. rewrite Nat.sub_0_r. reflexivity. Qed.

  (* ---- the sorted, distinct key list ---- *)
  Fixpoint assoc (p : nat) (s : list (nat * A)) : option A :=
    match s with [] => None | (k, x) :: t => if Nat.eqb k p then Some x else assoc p t end.
  Fixpoint rank (s : list (nat * A)) (p : nat) : nat :=      (* number of keys < p *)
    match s with [] => 0 | (k, _) :: t => (if Nat.ltb k p then 1 else 0) + rank t p end.
  Definition above (k : nat) (s : list (nat * A)) : Prop := Forall (fun kx => k < fst kx) s.
  (* strictly increasing keys, each insertion index within the current length *)
  Fixpoint okf (L : nat) (s : list (nat * A)) : Prop :=
    match s with [] => True | (k, _) :: t => k <= L /\ above k t /\ okf (S L) t end.

  Lemma above_assoc k s p : above k s -> p <= k -> assoc p s = None.
  Proof. induction 1 as [|[k1 x1] t H _ IH]; simpl; intros Hp; auto. simpl in H.
    destruct (Nat.eqb k1 p) eqn:E; [apply Nat.eqb_eq in E; lia | auto]. Qed.
  Lemma above_rank0 k s p : above k s -> p <= S k -> rank s p = 0.
  Proof. induction 1 as [|[k1 x1] t H _ IH]; simpl; intros Hp; auto. simpl in H.
    destruct (Nat.ltb k1 p) eqn:E; [apply Nat.ltb_lt in E; lia | auto]. Qed.
  Lemma above_weaken k k' s : above k s -> k' <= k -> above k' s.
  Proof. intros H Hk. eapply Forall_impl; [|exact H]. simpl; intros; lia. Qed.
  Lemma okf_above L s : okf L s -> match s with [] => True | (k, _) :: t => above k t end.
  Proof. destruct s as [|[k x] t]; simpl; tauto. Qed.
  (* keys of a strictly increasing list above k that are below p: at most p-k-1 *)
  Lemma rank_bound : forall s L k p, okf L s -> above k s -> k < p -> rank s p <= p - k - 1.
  Proof.
    induction s as [|[k1 x1] t IH]; intros L k p Hok Hab Hp; simpl; [lia|].
    destruct Hok as [_ [Hab1 Hok1]]. inversion Hab as [|a b Hk1 Hab2]; subst. simpl in Hk1.
    destruct (Nat.ltb k1 p) eqn:E.
    - apply Nat.ltb_lt in E. specialize (IH _ k1 p Hok1 Hab1 E). lia.
    - apply Nat.ltb_ge in E. rewrite (above_rank0 k1 t p Hab1) by lia. lia.
  Qed.

  Lemma fold_length : forall s (ps : list A), length (fold_left ins s ps) = length ps + length s.
  Proof. induction s as [|[k x] t IH]; intros ps; simpl; [lia|]. rewrite IH, insert_at_length. lia. Qed.

  Lemma fold_spec : forall s (ps : list A), okf (length ps) s -> forall p,
    nth p (fold_left ins s ps) d
    = match assoc p s with Some x => x | None => nth (p - rank s p) ps d end.
  Proof.
    induction s as [|[k x] t IH]; intros ps Hok p; simpl.
    - rewrite Nat.sub_0_r. reflexivity.
    - destruct Hok as [Hk [Hab Hok]].
      rewrite IH by (rewrite insert_at_length; exact Hok).
      destruct (Nat.eqb k p) eqn:E.
      + apply Nat.eqb_eq in E; subst p.
        rewrite (above_assoc k t k Hab) by lia. rewrite (above_rank0 k t k Hab) by lia.
        rewrite Nat.sub_0_r. apply nth_insert_eq; exact Hk.
      + apply Nat.eqb_neq in E. destruct (assoc p t) as [y|] eqn:As; [reflexivity|].
        destruct (Nat.ltb k p) eqn:Lt.
        * apply Nat.ltb_lt in Lt.
          pose proof (rank_bound t _ k p Hok Hab Lt) as B.
          rewrite nth_insert_gt by lia. f_equal. lia.
        * apply Nat.ltb_ge in Lt. assert (p < k) by lia.
          rewrite (above_rank0 k t p Hab) by lia. simpl. rewrite ?Nat.sub_0_r.
          apply nth_insert_lt; lia.
  Qed.

  (* ---- sorted(self.frozen_params) ---- *)
  Lemma insert_sorted_perm kx : forall l : list (nat * A), Permutation (kx :: l) (insert_sorted kx l).
  Proof. induction l as [|ky t IH]; simpl; auto. destruct (Nat.leb (fst kx) (fst ky)); auto.
    eapply perm_trans; [apply perm_swap|]. apply perm_skip, IH. Qed.
  Lemma sort_perm : forall l : list (nat * A), Permutation l (sort_by_key l).
  Proof. induction l as [|kx t IH]; simpl; auto. eapply perm_trans; [apply perm_skip, IH|].
    apply insert_sorted_perm. Qed.

  (* strictly increasing keys *)
  Fixpoint sinc (s : list (nat * A)) : Prop :=
    match s with [] => True | (k, _) :: t => above k t /\ sinc t end.
  Lemma above_insert k kx l : above k l -> k < fst kx -> above k (insert_sorted kx l).
  Proof. intros H Hk. unfold above. eapply Permutation_Forall; [apply insert_sorted_perm|].
    constructor; auto. Qed.
  Lemma sinc_insert kx : forall l, sinc l -> ~ In (fst kx) (map fst l) -> sinc (insert_sorted kx l).
  Proof.
    destruct kx as [k x]. simpl fst.
    induction l as [|[k1 x1] t IH]; intros Hs Hn; simpl.
    - split; [constructor | exact I].
    - destruct Hs as [Hab Hs]. simpl in Hn.
      destruct (Nat.leb k k1) eqn:E.
      + apply Nat.leb_le in E. simpl. split; [|split; auto].
        constructor; [simpl; lia|]. apply (above_weaken k1); auto; lia.
      + apply Nat.leb_gt in E. simpl. split; [|apply IH; auto].
        apply above_insert; auto.
  Qed.
  Lemma sort_sinc : forall l : list (nat * A), NoDup (map fst l) -> sinc (sort_by_key l).
  Proof.
    induction l as [|kx t IH]; intros N; simpl; [exact I|]. inversion N as [|a b Hn Nt]; subst.
    apply sinc_insert; [apply IH; exact Nt|].
    intro H. apply Hn. eapply Permutation_in; [|exact H]. apply Permutation_map, Permutation_sym, sort_perm.
  Qed.

  (* m strictly increasing keys above k and below B need  k + m < B *)
  Lemma sinc_count : forall s k B, sinc s -> above k s -> Forall (fun kx => fst kx < B) s ->
    k + length s < B \/ s = [].
  Proof.
    induction s as [|[k1 x1] t IH]; intros k B Hs Hab Hb; [right; reflexivity|]. left.
    destruct Hs as [Hab1 Hs]. inversion Hab as [|a b Hk1 _]; subst. inversion Hb as [|a b Hb1 Hbt]; subst.
    simpl in *. destruct (IH k1 B Hs Hab1 Hbt) as [H | ->]; simpl; lia.
  Qed.
  Lemma sinc_okf : forall s L, sinc s -> Forall (fun kx => fst kx < L + length s) s -> okf L s.
  Proof.
    induction s as [|[k x] t IH]; intros L Hs Hb; simpl; [exact I|].
    destruct Hs as [Hab Hs]. inversion Hb as [|a b Hk Hbt]; subst. simpl in Hk, Hbt.
    split; [|split; auto].
    - destruct (sinc_count t k (L + S (length t)) Hs Hab Hbt) as [H | ->]; simpl in *; lia.
    - apply IH; auto. eapply Forall_impl; [|exact Hbt]. simpl; intros; lia.
  Qed.

  Lemma nodupb_NoDup : forall l, nodupb l = true -> NoDup l.
  Proof. induction l as [|x t IH]; simpl; intros H; [constructor|].
    apply andb_prop in H. destruct H as [H1 H2]. constructor; auto.
    intro Hin. apply negb_true_iff in H1.
    assert (existsb (Nat.eqb x) t = true) by (apply existsb_exists; exists x; split; auto; apply Nat.eqb_refl).
    congruence. Qed.

  Lemma assoc_in s : sinc s -> forall k x, In (k, x) s -> assoc k s = Some x.
  Proof.
    induction s as [|[k1 x1] t IH]; intros Hs k x Hin; [destruct Hin|]. destruct Hs as [Hab Hs]. simpl.
    destruct Hin as [E|Hin].
    - inversion E; subst. rewrite Nat.eqb_refl. reflexivity.
    - destruct (Nat.eqb k1 k) eqn:E; [|apply IH; auto].
      apply Nat.eqb_eq in E; subst. unfold above in Hab. rewrite Forall_forall in Hab.
      specialize (Hab _ Hin). simpl in Hab. lia.
  Qed.
  Lemma assoc_none s p : ~ In p (map fst s) -> assoc p s = None.
  Proof. induction s as [|[k x] t IH]; simpl; intros H; auto.
    destruct (Nat.eqb k p) eqn:E; [apply Nat.eqb_eq in E; subst; tauto | apply IH; tauto]. Qed.

  (* rank of n when all keys are below n, and rank of a successor *)
  Lemma rank_all s n : Forall (fun kx => fst kx < n) s -> rank s n = length s.
  Proof. induction 1 as [|[k x] t H _ IH]; simpl; auto. simpl in H.
    destruct (Nat.ltb k n) eqn:E; [lia | apply Nat.ltb_ge in E; lia]. Qed.
  Lemma rank_succ s p : sinc s ->
    rank s (S p) = rank s p + (if existsb (fun kx => Nat.eqb (fst kx) p) s then 1 else 0).
  Proof.
    induction s as [|[k x] t IH]; intros Hs; [reflexivity|]. destruct Hs as [Hab Hs].
    cbn [rank existsb fst]. rewrite IH by auto.
    destruct (Nat.eqb_spec k p) as [->|E]; cbn [orb].
    - assert (existsb (fun kx => Nat.eqb (fst kx) p) t = false) as ->.
      { apply not_true_is_false. intro H. apply existsb_exists in H. destruct H as [[k1 x1] [Hin E1]].
        simpl in E1. apply Nat.eqb_eq in E1; subst. unfold above in Hab. rewrite Forall_forall in Hab.
        specialize (Hab _ Hin). simpl in Hab. lia. }
      destruct (Nat.ltb_spec p (S p)); destruct (Nat.ltb_spec p p); lia.
    - destruct (Nat.ltb_spec k (S p)); destruct (Nat.ltb_spec k p); lia.
  Qed.
  Lemma rank_le s p : sinc s -> rank s p <= p.
  Proof. intros Hs. induction p; [|rewrite rank_succ by auto; destruct (existsb _ s); lia].
    induction s as [|[k x] t IH]; simpl; auto. destruct Hs as [_ Hs]. rewrite IH by auto. reflexivity. Qed.

  (* the non-keys below n, each mapped to (itself - number of keys below it), enumerate 0,1,2,... *)
  Lemma unfixed_positions s : sinc s -> forall n,
    map (fun p => p - rank s p)
        (filter (fun i => negb (existsb (fun kx => Nat.eqb (fst kx) i) s)) (seq 0 n))
    = seq 0 (n - rank s n).
  Proof.
    intros Hs. induction n; [reflexivity|].
    rewrite seq_S, filter_app, map_app, IHn. rewrite (rank_succ s n Hs).
    pose proof (rank_le s n Hs) as Hle. cbn [filter Nat.add].
    destruct (existsb (fun kx => Nat.eqb (fst kx) n) s); cbn [negb map].
    - rewrite app_nil_r. f_equal. lia.
    - replace (S n - (rank s n + 0)) with (S (n - rank s n)) by lia. rewrite seq_S. reflexivity.
  Qed.

  Lemma map_nth_seq (l : list A) : map (fun i => nth i l d) (seq 0 (length l)) = l.
  Proof.
    induction l as [|x t IH]; [reflexivity|]. simpl. f_equal.
    rewrite <- seq_shift, map_map. exact IH.
  Qed.

  Lemma rank_perm (a b : list (nat * A)) p : Permutation a b -> rank a p = rank b p.
  Proof. induction 1 as [|[k x] l l' _ IH|[k x] [k' x'] l|l l' l'' _ IH1 _ IH2]; simpl; lia. Qed.
  Lemma assoc_nodup (l : list (nat * A)) : NoDup (map fst l) -> forall k x, In (k, x) l -> assoc k l = Some x.
  Proof.
    induction l as [|[k1 x1] t IH]; intros N k x Hin; [destruct Hin|]. simpl in N. inversion N as [|a b Hn Nt]; subst.
    simpl. destruct Hin as [E|Hin].
    - inversion E; subst. rewrite Nat.eqb_refl. reflexivity.
    - destruct (Nat.eqb k1 k) eqn:E; [|apply IH; auto].
      apply Nat.eqb_eq in E; subst. exfalso. apply Hn. apply (in_map fst) in Hin. exact Hin.
  Qed.
  Lemma assoc_some_in (l : list (nat * A)) k x : assoc k l = Some x -> In (k, x) l.
  Proof. induction l as [|[k1 x1] t IH]; simpl; [discriminate|]. destruct (Nat.eqb k1 k) eqn:E.
    - intros H; inversion H; subst. apply Nat.eqb_eq in E; subst. left; reflexivity.
    - intros H; right; apply IH, H. Qed.
  Lemma assoc_perm (a b : list (nat * A)) p :
    NoDup (map fst a) -> Permutation a b -> assoc p a = assoc p b.
  Proof.
    intros N P. assert (Nb : NoDup (map fst b)) by (eapply Permutation_NoDup; [apply Permutation_map, P | exact N]).
    destruct (assoc p a) as [x|] eqn:Ea.
    - symmetry. apply assoc_nodup; auto. eapply Permutation_in; [exact P|]. apply assoc_some_in, Ea.
    - destruct (assoc p b) as [y|] eqn:Eb; auto.
      apply assoc_some_in in Eb. apply (Permutation_in _ (Permutation_sym P)) in Eb.
      rewrite (assoc_nodup a N p y Eb) in Ea. discriminate.
  Qed.


  (* ================= the theorem ================= *)
  Variables (n : nat) (frozen : list (nat * A)) (params : list A).
  Hypothesis valid : frozen_valid n frozen = true.
  Hypothesis plen : length params = n - length frozen.

  Let s := sort_by_key frozen.
  Lemma valid_facts : length frozen <= n /\ Forall (fun kx => fst kx < n) frozen /\ NoDup (map fst frozen).
  Proof.
    unfold frozen_valid in valid. apply andb_prop in valid. destruct valid as [H H3].
    apply andb_prop in H. destruct H as [H1 H2].
    apply Nat.leb_le in H1. split; auto. split; [|apply nodupb_NoDup; auto].
    apply Forall_forall. intros kx Hin. rewrite forallb_forall in H2. apply Nat.ltb_lt, H2, Hin.
  Qed.
  Lemma s_facts : sinc s /\ Forall (fun kx => fst kx < n) s /\ length s = length frozen /\ okf (length params) s.
  Proof.
    destruct valid_facts as [Hl [Hb Hn]].
    assert (Hs : sinc s) by (apply sort_sinc; auto).
    assert (Hb' : Forall (fun kx => fst kx < n) s)
      by (eapply Permutation_Forall; [apply sort_perm | exact Hb]).
    assert (Hlen : length s = length frozen) by (symmetry; apply Permutation_length, sort_perm).
    repeat split; auto. apply sinc_okf; auto. rewrite Hlen, plen.
    eapply Forall_impl; [|exact Hb']. simpl; intros; lia.
  Qed.

  Theorem full_params_length : length (full_params frozen params) = n.
  Proof. destruct s_facts as [_ [_ [Hlen _]]]. destruct valid_facts as [Hl _].
    unfold full_params. fold s. rewrite fold_length, Hlen, plen. lia. Qed.

  (* every frozen value sits at its own index *)
  Theorem full_params_frozen : forall k x, In (k, x) frozen -> nth k (full_params frozen params) d = x.
  Proof.
    intros k x Hin. destruct s_facts as [Hs [_ [_ Hok]]].
    unfold full_params. fold s. rewrite (fold_spec s params Hok).
    rewrite (assoc_in s Hs k x); auto. eapply Permutation_in; [apply sort_perm | exact Hin].
  Qed.

  (* reading the full vector at the unfrozen indices gives back the free parameters, in order *)
  Theorem full_params_free :
    map (fun u => nth u (full_params frozen params) d) (unfixed_idxs n frozen) = params.
  Proof.
    destruct s_facts as [Hs [Hb [Hlen Hok]]].
    assert (EX : forall i, existsb (fun kx => Nat.eqb (fst kx) i) frozen = existsb (fun kx => Nat.eqb (fst kx) i) s).
    { intros i. apply eq_true_iff_eq. rewrite !existsb_exists. split; intros [kx [Hin E]]; exists kx; split; auto.
      - eapply Permutation_in; [apply sort_perm | exact Hin].
      - eapply Permutation_in; [apply Permutation_sym, sort_perm | exact Hin]. }
    unfold unfixed_idxs, full_params. fold s.
    rewrite (filter_ext _ (fun i => negb (existsb (fun kx => Nat.eqb (fst kx) i) s))) by (intros i; rewrite EX; reflexivity).
    transitivity (map (fun i => nth i params d)
                   (map (fun p => p - rank s p)
                      (filter (fun i => negb (existsb (fun kx => Nat.eqb (fst kx) i) s)) (seq 0 n)))).
    - rewrite map_map. apply map_ext_in. intros u Hu. apply filter_In in Hu. destruct Hu as [_ Hu].
      rewrite (fold_spec s params Hok). rewrite assoc_none; [reflexivity|].
      intro Hin. apply in_map_iff in Hin. destruct Hin as [[k x] [E Hin]]. simpl in E; subst.
      apply negb_true_iff in Hu.
      assert (existsb (fun kx => Nat.eqb (fst kx) u) s = true)
        by (apply existsb_exists; exists (u, x); split; auto; apply Nat.eqb_refl).
      congruence.
    - rewrite (unfixed_positions s Hs n), (rank_all s n Hb), Hlen, <- plen. apply map_nth_seq.
  Qed.

  (* ---- independence of the dict's insertion order; substitution by index -------------- *)
  (* "substitution by index": position p holds the frozen value of key p, otherwise the free
     parameter whose number is p minus the number of frozen keys below p.  The definition does
     not sort and does not depend on the order of the list [frozen]. *)
  Definition by_index (n : nat) (frozen : list (nat * A)) (params : list A) : list A :=
    map (fun p => match assoc p frozen with Some x => x | None => nth (p - rank frozen p) params d end)
        (seq 0 n).

  Lemma nth_map_seq (f : nat -> A) m p : p < m -> nth p (map f (seq 0 m)) d = f p.
  Proof. intros H. rewrite (nth_indep _ d (f 0)) by (rewrite map_length, seq_length; exact H).
    rewrite map_nth, seq_nth by exact H. reflexivity. Qed.

  Theorem full_params_by_index : full_params frozen params = by_index n frozen params.
  Proof.
    destruct s_facts as [Hs [Hb [Hlen Hok]]]. destruct valid_facts as [_ [_ Hn]].
    apply (nth_ext _ _ d d).
    - rewrite full_params_length. unfold by_index. rewrite map_length, seq_length. reflexivity.
    - intros p Hp. rewrite full_params_length in Hp.
      unfold by_index. rewrite nth_map_seq by exact Hp.
      unfold full_params. fold s. rewrite (fold_spec s params Hok).
      rewrite <- (assoc_perm frozen s p Hn (sort_perm frozen)), <- (rank_perm frozen s p (sort_perm frozen)).
      reflexivity.
  Qed.
End Frozen.

(* For any two insertion orders of the same finite map (lists that are permutations of each
   other, keys distinct) get_full_params returns the same vector. *)
Theorem full_params_order_irrelevant (A : Type) (d : A) n (frozen frozen' : list (nat * A)) params :
  frozen_valid n frozen = true -> frozen_valid n frozen' = true -> length params = n - length frozen ->
  Permutation frozen frozen' -> full_params frozen params = full_params frozen' params.
Proof.
  intros V V' L P.
  assert (L' : length params = n - length frozen') by (rewrite <- (Permutation_length P); exact L).
  rewrite (full_params_by_index A d n frozen params V L), (full_params_by_index A d n frozen' params V' L').
  unfold by_index. apply map_ext. intros p.
  assert (N : NoDup (map fst frozen)).
  { unfold frozen_valid in V. apply andb_prop in V. destruct V as [_ V]. apply nodupb_NoDup; exact V. }
  rewrite (assoc_perm A frozen frozen' p N P), (rank_perm A frozen frozen' p P). reflexivity.
Qed.
