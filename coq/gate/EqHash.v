(* gate/EqHash.v - model of bqskit/utils/cachedclass.py (CachedClass.__new__): which
   constructor calls return the same instance.  Library gates that inherit CachedClass and
   define no __eq__/__hash__ compare and hash by identity, so "same instance" IS gate
   equality for them.  Definitions only (extracted; proofs in gate/EqHashThm.v). *)
From Coq Require Import List Arith Bool ZArith PeanoNat.
Import ListNotations.

Inductive pyval : Type :=
| VInt (z : Z)
| VStr (code : nat)            (* strings are interned to numbers by the harness *)
| VNone
| VTuple (l : list pyval)
| VList (l : list pyval).      (* lists / ndarrays: not Hashable *)

(* isinstance(arg, Hashable) and not ndarray *)
Definition hashable (v : pyval) : bool := match v with VList _ => false | _ => true end.
(* hash(v) succeeds (a tuple is "Hashable" for isinstance even when it holds a list) *)
Fixpoint deep_hashable (v : pyval) : bool :=
  match v with
  | VList _ => false
  | VTuple l => (fix all (l : list pyval) : bool :=
                   match l with [] => true | x :: t => deep_hashable x && all t end) l
  | _ => true
  end.
Fixpoint pyval_eqb (a b : pyval) : bool :=
  let fix list_eqb (x y : list pyval) : bool :=
    match x, y with
    | [], [] => true
    | p :: x', q :: y' => pyval_eqb p q && list_eqb x' y'
    | _, _ => false
    end in
  match a, b with
  | VInt x, VInt y => Z.eqb x y
  | VStr x, VStr y => Nat.eqb x y
  | VNone, VNone => true
  | VTuple x, VTuple y => list_eqb x y
  | VList x, VList y => list_eqb x y
  | _, _ => false
  end.
Fixpoint args_eqb (x y : list pyval) : bool :=
  match x, y with
  | [], [] => true
  | p :: x', q :: y' => pyval_eqb p q && args_eqb x' y'
  | _, _ => false
  end.
Fixpoint kwargs_eqb (x y : list (nat * pyval)) : bool :=
  match x, y with
  | [], [] => true
  | (k, p) :: x', (l, q) :: y' => Nat.eqb k l && pyval_eqb p q && kwargs_eqb x' y'
  | _, _ => false
  end.

(* key = (cls, args, tuple(kwargs.items())) *)
Record key : Type := mkKey { k_cls : nat; k_args : list pyval; k_kwargs : list (nat * pyval) }.
Definition key_eqb (a b : key) : bool :=
  Nat.eqb (k_cls a) (k_cls b) && args_eqb (k_args a) (k_args b) && kwargs_eqb (k_kwargs a) (k_kwargs b).

Record cstate : Type := mkState { cache : list (key * nat); next_id : nat }.
Definition cinit : cstate := mkState [] 0.
Inductive outcome : Type := Inst (id : nat) | RaisesTypeError.

Fixpoint lookup (k : key) (c : list (key * nat)) : option nat :=
  match c with
  | [] => None
  | (k', id) :: t => if key_eqb k k' then Some id else lookup k t
  end.

Definition cc_new (st : cstate) (k : key) : cstate * outcome :=
  if forallb hashable (k_args k) && forallb (fun kv => hashable (snd kv)) (k_kwargs k) then
    if forallb deep_hashable (k_args k) && forallb (fun kv => deep_hashable (snd kv)) (k_kwargs k) then
      match lookup k (cache st) with
      | Some id => (st, Inst id)
      | None => (mkState ((k, next_id st) :: cache st) (S (next_id st)), Inst (next_id st))
      end
    else (st, RaisesTypeError)              (* _instances.get(key): unhashable type *)
  else (mkState (cache st) (S (next_id st)), Inst (next_id st)).   (* object.__new__(cls), uncached *)

Fixpoint cc_run (st : cstate) (calls : list key) : list outcome :=
  match calls with
  | [] => []
  | k :: t => let (st', o) := cc_new st k in o :: cc_run st' t
  end.
Fixpoint cc_state (st : cstate) (calls : list key) : cstate :=
  match calls with
  | [] => st
  | k :: t => cc_state (fst (cc_new st k)) t
  end.

(* HGate.__init__(self, radix: int = 2): the value the constructor actually uses *)
Definition hgate_radix (k : key) : option Z :=
  match k_args k, k_kwargs k with
  | [], [] => Some 2%Z
  | [VInt r], [] => Some r
  | [], [(_, VInt r)] => Some r
  | _, _ => None
  end.
