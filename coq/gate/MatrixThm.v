(* gate/MatrixThm.v - laws of gate/Matrix.v over an abstract commutative ring with a
   conjugation (section hypotheses: the ring laws and "conj is an involutive ring
   automorphism"; both are discharged for Coquelicot's C in gate/ComposedThm.v). *)
From Coq Require Import List Arith Bool PeanoNat Lia Ring Setoid Morphisms.
From Coq Require Import ZArith.
From BQ Require Import gate.Matrix gate.Composed.
Import ListNotations.

Section MatThm.
  Variable T : Type.
  Variables (t0 t1 : T) (tadd tmul : T -> T -> T) (topp : T -> T) (tconj : T -> T).
  Hypothesis Rth : ring_theory t0 t1 tadd tmul (fun a b => tadd a (topp b)) topp eq.
  Hypothesis conj_add : forall a b, tconj (tadd a b) = tadd (tconj a) (tconj b).
  Hypothesis conj_mul : forall a b, tconj (tmul a b) = tmul (tconj a) (tconj b).
  Hypothesis conj_0 : tconj t0 = t0.
  Hypothesis conj_1 : tconj t1 = t1.
  Hypothesis conj_invol : forall a, tconj (tconj a) = a.
  Add Ring TRing : Rth.

  Notation mat := (mat T).
  Notation "a +! b" := (tadd a b) (at level 50, left associativity).
  Notation "a *! b" := (tmul a b) (at level 40, left associativity).
  Notation sum := (sum t0 tadd).
  Notation mul := (mmul t0 tadd tmul).
  Notation idm := (mid t0 t1).
  Notation adj := (madj tconj).
  Notation meq := (@meq T).
  Notation unitary := (unitary t0 t1 tadd tmul tconj).

  (* ---- finite sums ---- *)
  Lemma sum_ext n f g : (forall k, k < n -> f k = g k) -> sum n f = sum n g.
  Proof. induction n; simpl; intros H; [reflexivity|]. rewrite IHn, H; auto. Qed.
  Lemma sum_zero n f : (forall k, k < n -> f k = t0) -> sum n f = t0.
  Proof. induction n; simpl; intros H; [reflexivity|]. rewrite IHn, H; auto. ring. Qed.
  Lemma sum_add n f g : sum n (fun k => f k +! g k) = sum n f +! sum n g.
  Proof. induction n; simpl; [ring|]. rewrite IHn. ring. Qed.
  Lemma sum_mul_l n c f : sum n (fun k => c *! f k) = c *! sum n f.
  Proof. induction n; simpl; [ring|]. rewrite IHn. ring. Qed.
  Lemma sum_mul_r n c f : sum n (fun k => f k *! c) = sum n f *! c.
  Proof. induction n; simpl; [ring|]. rewrite IHn. ring. Qed.
  Lemma sum_conj n f : tconj (sum n f) = sum n (fun k => tconj (f k)).
  Proof. induction n; simpl; [apply conj_0|]. rewrite conj_add, IHn. reflexivity. Qed.
  Lemma sum_single n a f : a < n -> (forall k, k < n -> k <> a -> f k = t0) -> sum n f = f a.
  Proof.
    induction n; intros Ha H; [lia|]. simpl.
    destruct (Nat.eq_dec a n) as [->|Hne].
    - rewrite sum_zero; [ring|]. intros k Hk. apply H; lia.
    - rewrite IHn; [|lia|intros; apply H; lia]. rewrite (H n); [ring|lia|lia].
  Qed.
  Lemma sum_swap n m (f : nat -> nat -> T) :
    sum n (fun i => sum m (fun j => f i j)) = sum m (fun j => sum n (fun i => f i j)).
  Proof. induction n; simpl.
    - symmetry. apply sum_zero. reflexivity.
    - rewrite IHn, <- sum_add. reflexivity. Qed.
  Lemma sum_app m d f : sum (m + d) f = sum m f +! sum d (fun t => f (m + t)).
  Proof. induction d.
    - rewrite Nat.add_0_r. simpl. ring.
    - replace (m + S d) with (S (m + d)) by lia. simpl. rewrite IHd. ring. Qed.
  (* sum over a*d indices = double sum over blocks *)
  Lemma sum_blocks a d f : sum (a * d) f = sum a (fun c => sum d (fun t => f (c * d + t))).
  Proof.
    induction a; [reflexivity|].
    replace (S a * d) with (a * d + d) by lia. rewrite sum_app, IHa. reflexivity.
  Qed.

  (* ---- products ---- *)
  Lemma mmul_assoc n A B C i j : mul n (mul n A B) C i j = mul n A (mul n B C) i j.
  Proof.
    unfold mmul.
    transitivity (sum n (fun l => sum n (fun k => A i k *! B k l *! C l j))).
    - apply sum_ext; intros l _. rewrite <- sum_mul_r. reflexivity.
    - rewrite sum_swap. apply sum_ext; intros k _. rewrite <- sum_mul_l.
      apply sum_ext; intros l _. ring.
  Qed.
  Lemma mmul_id_r n A i j : j < n -> mul n A idm i j = A i j.
  Proof. intros Hj. unfold mmul, mid. rewrite (sum_single n j); auto.
    - rewrite Nat.eqb_refl. ring.
    - intros k _ Hk. destruct (Nat.eqb k j) eqn:E; [apply Nat.eqb_eq in E; lia | ring]. Qed.
  Lemma mmul_id_l n A i j : i < n -> mul n idm A i j = A i j.
  Proof. intros Hi. unfold mmul, mid. rewrite (sum_single n i); auto.
    - rewrite Nat.eqb_refl. ring.
    - intros k _ Hk. destruct (Nat.eqb i k) eqn:E; [apply Nat.eqb_eq in E; lia | ring]. Qed.
  Lemma madj_mmul n A B i j : adj (mul n A B) i j = mul n (adj B) (adj A) i j.
  Proof. unfold madj, mmul. rewrite sum_conj. apply sum_ext; intros k _. rewrite conj_mul. ring. Qed.
  Lemma madj_invol A i j : adj (adj A) i j = A i j.
  Proof. unfold madj. apply conj_invol. Qed.
  Lemma madj_id i j : adj idm i j = idm i j.
  Proof. unfold madj, mid. rewrite (Nat.eqb_sym j i). destruct (Nat.eqb i j); auto. Qed.

  (* ---- equality on the n x n block ---- *)
  Global Instance meq_equiv n : Equivalence (meq n).
  Proof. split.
    - intros A i j _ _; reflexivity.
    - intros A B H i j Hi Hj; symmetry; apply H; auto.
    - intros A B C H1 H2 i j Hi Hj; rewrite H1, H2; auto. Qed.
  Global Instance mmul_proper n : Proper (meq n ==> meq n ==> meq n) (mul n).
  Proof. intros A A' HA B B' HB i j Hi Hj. unfold mmul. apply sum_ext; intros k Hk.
    rewrite HA, HB; auto. Qed.
  Global Instance madj_proper n : Proper (meq n ==> meq n) adj.
  Proof. intros A A' HA i j Hi Hj. unfold madj. rewrite HA; auto. Qed.
  Global Instance madd_proper n : Proper (meq n ==> meq n ==> meq n) (madd tadd).
  Proof. intros A A' HA B B' HB i j Hi Hj. unfold madd. rewrite HA, HB; auto. Qed.

  Lemma meq_mmul_assoc n A B C : meq n (mul n (mul n A B) C) (mul n A (mul n B C)).
  Proof. intros i j _ _. apply mmul_assoc. Qed.
  Lemma meq_id_r n A : meq n (mul n A idm) A.
  Proof. intros i j _ Hj. apply mmul_id_r; auto. Qed.
  Lemma meq_id_l n A : meq n (mul n idm A) A.
  Proof. intros i j Hi _. apply mmul_id_l; auto. Qed.

  (* ---- unitaries ---- *)
  Lemma unitary_id n : unitary n idm.
  Proof. split; intros i j Hi Hj.
    - rewrite mmul_id_l; auto. apply madj_id.
    - rewrite mmul_id_r; auto. apply madj_id. Qed.
  Lemma unitary_adj n U : unitary n U -> unitary n (adj U).
  Proof. intros [H1 H2]. split; intros i j Hi Hj.
    - rewrite <- (H2 i j Hi Hj). unfold mmul. apply sum_ext; intros k _. rewrite madj_invol. reflexivity.
    - rewrite <- (H1 i j Hi Hj). unfold mmul. apply sum_ext; intros k _. rewrite madj_invol. reflexivity. Qed.
  Lemma unitary_mmul n U V : unitary n U -> unitary n V -> unitary n (mul n U V).
  Proof.
    intros [U1 U2] [V1 V2]. split.
    - assert (E : meq n (adj (mul n U V)) (mul n (adj V) (adj U))) by (intros i j _ _; apply madj_mmul).
      rewrite E. rewrite meq_mmul_assoc. rewrite <- (meq_mmul_assoc n V (adj V) (adj U)).
      rewrite V1, meq_id_l. exact U1.
    - assert (E : meq n (adj (mul n U V)) (mul n (adj V) (adj U))) by (intros i j _ _; apply madj_mmul).
      rewrite E. rewrite meq_mmul_assoc. rewrite <- (meq_mmul_assoc n (adj U) U V).
      rewrite U2, meq_id_l. exact V2.
  Qed.
  Lemma unitary_proper n U V : meq n U V -> unitary n U -> unitary n V.
  Proof. intros E [H1 H2]. split; [rewrite <- E; exact H1 | rewrite <- E; exact H2]. Qed.

  (* naive powers of a unitary are unitary *)
  Lemma unitary_mpow n U k : unitary n U -> unitary n (mpow t0 t1 tadd tmul n U k).
  Proof. intros H. induction k; simpl; [apply unitary_id | apply unitary_mmul; auto]. Qed.

  (* ---- block-diagonal matrices ---- *)
  Definition blockdiag (d : nat) (B : nat -> mat) : mat :=
    fun i j => if Nat.eqb (i / d) (j / d) then B (i / d) (i mod d) (j mod d) else t0.

  Lemma divmod_block c d t : t < d -> (c * d + t) / d = c /\ (c * d + t) mod d = t.
  Proof. intros Ht. split.
    - rewrite Nat.div_add_l by lia. rewrite Nat.div_small by lia. lia.
    - rewrite Nat.add_comm, Nat.mod_add by lia. apply Nat.mod_small; lia. Qed.

  Lemma blockdiag_mul a d B C i j : 0 < d -> i < a * d -> j < a * d ->
    mul (a * d) (blockdiag d B) (blockdiag d C) i j
    = blockdiag d (fun c => mul d (B c) (C c)) i j.
  Proof.
    intros Hd Hi Hj. unfold mmul at 1. rewrite sum_blocks.
    assert (Hia : i / d < a) by (apply Nat.div_lt_upper_bound; lia).
    rewrite (sum_single a (i / d)); auto.
    - unfold blockdiag. destruct (Nat.eqb (i / d) (j / d)) eqn:E.
      + unfold mmul. apply sum_ext; intros t Ht.
        destruct (divmod_block (i / d) d t Ht) as [Q1 Q2]. rewrite Q1, Q2, Nat.eqb_refl, E.
        apply Nat.eqb_eq in E. rewrite E. reflexivity.
      + apply sum_zero; intros t Ht.
        destruct (divmod_block (i / d) d t Ht) as [Q1 Q2]. rewrite Q1, Q2, Nat.eqb_refl, E. ring.
    - intros c Hc Hne. apply sum_zero; intros t Ht. unfold blockdiag.
      destruct (divmod_block c d t Ht) as [Q1 Q2]. rewrite Q1.
      destruct (Nat.eqb (i / d) c) eqn:E; [apply Nat.eqb_eq in E; lia | ring].
  Qed.
  Lemma blockdiag_adj d B i j : adj (blockdiag d B) i j = blockdiag d (fun c => adj (B c)) i j.
  Proof. unfold madj, blockdiag. rewrite (Nat.eqb_sym (j / d) (i / d)).
    destruct (Nat.eqb (i / d) (j / d)) eqn:E; [|apply conj_0].
    apply Nat.eqb_eq in E. rewrite E. reflexivity. Qed.
  Lemma blockdiag_id a d i j : 0 < d -> i < a * d -> j < a * d ->
    blockdiag d (fun _ => idm) i j = idm i j.
  Proof.
    intros Hd Hi Hj. unfold blockdiag, mid.
    destruct (Nat.eq_dec i j) as [->|Hne].
    - rewrite !Nat.eqb_refl. reflexivity.
    - replace (Nat.eqb i j) with false by (symmetry; apply Nat.eqb_neq; auto).
      destruct (Nat.eqb (i / d) (j / d)) eqn:E1; auto.
      apply Nat.eqb_eq in E1.
      replace (Nat.eqb (i mod d) (j mod d)) with false; auto.
      symmetry; apply Nat.eqb_neq. intro E3. apply Hne.
      rewrite (Nat.div_mod i d), (Nat.div_mod j d) by lia. rewrite E1, E3. reflexivity.
  Qed.
  Lemma blockdiag_ext a d B C : 0 < d ->
    (forall c, c < a -> meq d (B c) (C c)) -> meq (a * d) (blockdiag d B) (blockdiag d C).
  Proof. intros Hd H i j Hi Hj. unfold blockdiag. destruct (Nat.eqb (i / d) (j / d)); auto.
    apply H; [apply Nat.div_lt_upper_bound; lia | apply Nat.mod_upper_bound; lia ..]. Qed.

  Theorem blockdiag_unitary a d B : 0 < d ->
    (forall c, c < a -> unitary d (B c)) -> unitary (a * d) (blockdiag d B).
  Proof.
    intros Hd H. split; intros i j Hi Hj.
    - transitivity (mul (a * d) (blockdiag d B) (blockdiag d (fun c => adj (B c))) i j).
      { unfold mmul. apply sum_ext; intros k _. rewrite blockdiag_adj. reflexivity. }
      rewrite blockdiag_mul by auto. rewrite <- (blockdiag_id a d i j) by auto.
      apply (blockdiag_ext a d); auto. intros c Hc. apply (proj1 (H c Hc)).
    - transitivity (mul (a * d) (blockdiag d (fun c => adj (B c))) (blockdiag d B) i j).
      { unfold mmul. apply sum_ext; intros k _. rewrite blockdiag_adj. reflexivity. }
      rewrite blockdiag_mul by auto. rewrite <- (blockdiag_id a d i j) by auto.
      apply (blockdiag_ext a d); auto. intros c Hc. apply (proj2 (H c Hc)).
  Qed.

  (* ---- to_list / of_list / memo ---- *)
  Lemma memo_spec n A i j : i < n -> j < n -> memo t0 n A i j = A i j.
  Proof.
    intros Hi Hj. unfold memo, of_list, to_list.
    rewrite (nth_indep _ [] (map (fun j => A 0 j) (seq 0 n))) by (rewrite map_length, seq_length; auto).
    change (map (fun j0 => A 0 j0) (seq 0 n)) with ((fun i0 => map (fun j0 => A i0 j0) (seq 0 n)) 0).
    rewrite map_nth, seq_nth by auto. simpl.
    rewrite (nth_indep _ t0 (A i 0)) by (rewrite map_length, seq_length; auto).
    change (A i 0) with ((fun j0 => A i j0) 0). rewrite map_nth, seq_nth by auto. reflexivity.
  Qed.
  Lemma memo_meq n A : meq n (memo t0 n A) A.
  Proof. intros i j Hi Hj. apply memo_spec; auto. Qed.

  (* ================================================================== *)
  (* composed gates (gate/Composed.v)                                     *)
  (* ================================================================== *)
  Lemma mmul_zero_l n A i j : mul n (mzero t0) A i j = t0.
  Proof. unfold mmul, mzero. apply sum_zero; intros; ring. Qed.
  Lemma mmul_zero_r n A i j : mul n A (mzero t0) i j = t0.
  Proof. unfold mmul, mzero. apply sum_zero; intros; ring. Qed.
  Lemma mmul_add_l n A B C i j :
    mul n (madd tadd A B) C i j = madd tadd (mul n A C) (mul n B C) i j.
  Proof. unfold mmul, madd. rewrite <- sum_add. apply sum_ext; intros; ring. Qed.
  Lemma mmul_add_r n A B C i j :
    mul n A (madd tadd B C) i j = madd tadd (mul n A B) (mul n A C) i j.
  Proof. unfold mmul, madd. rewrite <- sum_add. apply sum_ext; intros; ring. Qed.

  Lemma madd_at A B i j : madd tadd A B i j = A i j +! B i j.
  Proof. reflexivity. Qed.

  (* ---------------- DaggerGate ---------------- *)
  Theorem dagger_dagger U i j : dagger tconj (dagger tconj U) i j = U i j.
  Proof. apply madj_invol. Qed.
  Theorem dagger_unitary n U : unitary n U -> unitary n (dagger tconj U).
  Proof. apply unitary_adj. Qed.
  Theorem dagger_is_inverse n U : unitary n U -> meq n (mul n (dagger tconj U) U) idm.
  Proof. intros H; exact (proj2 H). Qed.

  (* ---------------- ControlledGate ---------------- *)
  Fixpoint dim_rev (l : list (nat * list nat)) : nat :=
    match l with [] => 1 | (r, _) :: rest => dim_rev rest * r end.
  (* is the control configuration (a mixed-radix number) activating the gate? *)
  Fixpoint active_rev (l : list (nat * list nat)) (i : nat) : bool :=
    match l with
    | [] => true
    | (r, lv) :: rest => active_rev rest (i / r) && existsb (Nat.eqb (i mod r)) lv
    end.

  Lemma eqb_divmod r i j : 0 < r ->
    Nat.eqb i j = Nat.eqb (i / r) (j / r) && Nat.eqb (i mod r) (j mod r).
  Proof.
    intros Hr. destruct (Nat.eq_dec i j) as [->|Hne].
    - rewrite !Nat.eqb_refl. reflexivity.
    - replace (Nat.eqb i j) with false by (symmetry; apply Nat.eqb_neq; auto).
      destruct (Nat.eqb (i / r) (j / r)) eqn:E1; auto. simpl.
      symmetry; apply Nat.eqb_neq. intro E3. apply Nat.eqb_eq in E1. apply Hne.
      rewrite (Nat.div_mod i r), (Nat.div_mod j r) by lia. rewrite E1, E3. reflexivity.
  Qed.

  Lemma proj_rev_spec l : Forall (fun rl => 0 < fst rl) l ->
    forall i j, i < dim_rev l -> j < dim_rev l ->
    proj_rev t0 t1 tmul l i j = diag01 t0 t1 (active_rev l) i j.
  Proof.
    induction l as [|[r lv] rest IH]; intros Hpos i j Hi Hj.
    - simpl in *. assert (i = 0) by lia. assert (j = 0) by lia. subst. reflexivity.
    - inversion Hpos as [|x y Hr Hrest]; subst. simpl in Hr. simpl in Hi, Hj.
      cbn [proj_rev active_rev]. unfold kron.
      rewrite IH; auto; try (apply Nat.div_lt_upper_bound; lia).
      unfold elem_proj, diag01. rewrite (eqb_divmod r i j Hr).
      destruct (Nat.eqb (i / r) (j / r)); destruct (active_rev rest (i / r));
        destruct (Nat.eqb (i mod r) (j mod r)); destruct (existsb (Nat.eqb (i mod r)) lv);
        simpl; ring.
  Qed.

  Lemma controlled_block_gen (P : mat) (act : nat -> bool) cd d U : 0 < d ->
    (forall a b, a < cd -> b < cd -> P a b = diag01 t0 t1 act a b) ->
    forall i j, i < cd * d -> j < cd * d ->
    madd tadd (kron tmul d P U) (kron tmul d (msub tadd topp idm P) idm) i j
    = blockdiag d (fun c => if act c then U else idm) i j.
  Proof.
    intros Hd HP i j Hi Hj. unfold madd, kron, msub, blockdiag.
    assert (Ha : i / d < cd) by (apply Nat.div_lt_upper_bound; lia).
    assert (Hb : j / d < cd) by (apply Nat.div_lt_upper_bound; lia).
    rewrite HP by auto. unfold diag01, mid.
    destruct (Nat.eqb (i / d) (j / d)); destruct (act (i / d)); simpl; ring.
  Qed.

  Section Controlled.
    Variables (cr : list nat) (cl : list (list nat)) (d : nat).
    Let l := rev (combine cr cl).
    Hypothesis radixes_pos : Forall (fun rl => 0 < fst rl) l.
    Hypothesis d_pos : 0 < d.

    (* "is the block matrix the docstring says": identity blocks where the controls are
       not on their levels, U where they are *)
    Theorem controlled_spec U :
      meq (dim_rev l * d) (controlled t0 t1 tadd tmul topp cr cl d U)
          (blockdiag d (fun c => if active_rev l c then U else idm)).
    Proof.
      intros i j Hi Hj. unfold controlled, ctrl_proj. fold l.
      apply (controlled_block_gen _ (active_rev l) (dim_rev l)); auto.
      intros a b Ha Hb. apply proj_rev_spec; auto.
    Qed.
    Theorem controlled_grad_spec G :
      meq (dim_rev l * d) (controlled_grad t0 t1 tmul cr cl d G)
          (blockdiag d (fun c => if active_rev l c then G else mzero t0)).
    Proof.
      intros i j Hi Hj. unfold controlled_grad, ctrl_proj, kron, blockdiag. fold l.
      assert (Ha : i / d < dim_rev l) by (apply Nat.div_lt_upper_bound; lia).
      assert (Hb : j / d < dim_rev l) by (apply Nat.div_lt_upper_bound; lia).
      rewrite proj_rev_spec by auto. unfold diag01, mzero.
      destruct (Nat.eqb (i / d) (j / d)); destruct (active_rev l (i / d)); simpl; ring.
    Qed.
    Theorem controlled_unitary U : unitary d U ->
      unitary (dim_rev l * d) (controlled t0 t1 tadd tmul topp cr cl d U).
    Proof.
      intros HU. eapply unitary_proper; [symmetry; apply controlled_spec|].
      apply blockdiag_unitary; auto. intros c _. destruct (active_rev l c); [exact HU | apply unitary_id].
    Qed.
  End Controlled.

  (* ---------------- PowerGate ---------------- *)
  Notation dual := (dual T).
  Notation dmul := (dmul t0 tadd tmul).
  Notation dpow := (dpow t0 t1 tadd tmul).
  Notation done := (done t0 t1).
  Definition deq (n : nat) (X Y : dual) : Prop := meq n (fst X) (fst Y) /\ meq n (snd X) (snd Y).
  Global Instance deq_equiv n : Equivalence (deq n).
  Proof. split.
    - intros X; split; reflexivity.
    - intros X Y [H1 H2]; split; symmetry; auto.
    - intros X Y Z [H1 H2] [H3 H4]; split; etransitivity; eauto. Qed.
  Global Instance dmul_proper n : Proper (deq n ==> deq n ==> deq n) (dmul n).
  Proof. intros X X' [HX1 HX2] Y Y' [HY1 HY2]. unfold Composed.dmul. split; simpl.
    - rewrite HX1, HY1. reflexivity.
    - rewrite HX1, HX2, HY1, HY2. reflexivity. Qed.
  Lemma dmul_assoc n X Y Z : deq n (dmul n (dmul n X Y) Z) (dmul n X (dmul n Y Z)).
  Proof.
    destruct X as [U G], Y as [V H], Z as [W K]. unfold Composed.dmul; simpl. split.
    - apply meq_mmul_assoc.
    - intros i j _ _. cbn [snd]. rewrite !madd_at, mmul_add_l, mmul_add_r, !madd_at, !mmul_assoc. ring.
  Qed.
  Lemma dmul_one_l n X : deq n (dmul n done X) X.
  Proof. destruct X as [U G]. unfold Composed.dmul, Composed.done; simpl. split.
    - apply meq_id_l.
    - intros i j Hi Hj. cbn [fst snd]. rewrite madd_at, mmul_zero_l, mmul_id_l by auto. ring. Qed.
  Lemma dmul_one_r n X : deq n (dmul n X done) X.
  Proof. destruct X as [U G]. unfold Composed.dmul, Composed.done; simpl. split.
    - apply meq_id_r.
    - intros i j Hi Hj. cbn [fst snd]. rewrite madd_at, mmul_zero_r, mmul_id_r by auto. ring. Qed.
  Lemma dpow_add n X a b : deq n (dpow n X (a + b)) (dmul n (dpow n X a) (dpow n X b)).
  Proof. induction a; simpl.
    - symmetry. apply dmul_one_l.
    - rewrite IHa. symmetry. apply dmul_assoc. Qed.
  Lemma dpow_square n X m : deq n (dpow n (dmul n X X) m) (dpow n X (2 * m)).
  Proof. induction m; simpl.
    - reflexivity.
    - rewrite IHm. replace (m + S (m + 0)) with (S (2 * m)) by lia. simpl. apply dmul_assoc. Qed.

  Definition oacc (n : nat) (acc : option dual) (Y : dual) : dual :=
    match acc with None => Y | Some a => dmul n a Y end.

  Global Instance oacc_proper n acc : Proper (deq n ==> deq n) (oacc n acc).
  Proof. intros Y Y' H. destruct acc as [a|]; cbn [oacc]; [rewrite H; reflexivity | exact H]. Qed.

  Lemma pow_bits_spec n p : forall S acc,
    deq n (pow_bits t0 tadd tmul n S acc p) (oacc n acc (dpow n S (Pos.to_nat p))).
  Proof.
    induction p as [p IH|p IH|]; intros S acc; cbn [pow_bits].
    - rewrite IH. rewrite Pos2Nat.inj_xI. cbn [oacc].
      rewrite dpow_square. destruct acc as [a|]; cbn [oacc Composed.dpow].
      + apply dmul_assoc.
      + reflexivity.
    - rewrite IH. rewrite Pos2Nat.inj_xO, dpow_square. reflexivity.
    - change (Pos.to_nat 1) with 1. cbn [Composed.dpow].
      destruct acc as [a|]; cbn [oacc]; rewrite dmul_one_r; reflexivity.
  Qed.

  (* PowerGate.get_unitary_and_grad computes the k-fold dual-number product of the gate
     (power > 0), of its dagger (power < 0), the identity with zero gradient (power = 0) *)
  Theorem power_spec n X k :
    deq n (power t0 t1 tadd tmul tconj n X k)
          (match k with
           | Z0 => done
           | Zpos p => dpow n X (Pos.to_nat p)
           | Zneg p => dpow n (dadj tconj X) (Pos.to_nat p)
           end).
  Proof. destruct k; cbn [power]; [reflexivity | apply (pow_bits_spec n p X None) | apply (pow_bits_spec n p _ None)]. Qed.

  (* the k-fold dual product is (U^k, Leibniz derivative of U^k) *)
  Theorem dpow_components n U G k :
    dpow n (U, G) k = (mpow t0 t1 tadd tmul n U k, mpow_d t0 t1 tadd tmul n U G k).
  Proof. induction k; simpl; [reflexivity|]. rewrite IHk. reflexivity. Qed.

  Theorem power_unitary_spec n U (k : nat) :
    meq n (power_unitary t0 t1 tadd tmul tconj n U (Z.of_nat k)) (mpow t0 t1 tadd tmul n U k).
  Proof.
    unfold power_unitary. destruct k.
    - reflexivity.
    - destruct (power_spec n (U, mzero t0) (Z.of_nat (S k))) as [H _]. rewrite H.
      cbn [Z.of_nat]. rewrite SuccNat2Pos.id_succ, dpow_components. reflexivity.
  Qed.
  Theorem power_unitary_neg_spec n U (k : nat) :
    meq n (power_unitary t0 t1 tadd tmul tconj n U (- Z.of_nat k)) (mpow t0 t1 tadd tmul n (dagger tconj U) k).
  Proof.
    unfold power_unitary. destruct k.
    - reflexivity.
    - destruct (power_spec n (U, mzero t0) (- Z.of_nat (S k))) as [H _]. rewrite H.
      cbn [Z.of_nat Z.opp]. rewrite SuccNat2Pos.id_succ. unfold dadj. cbn [fst snd].
      assert (E : deq n (dpow n (dagger tconj U, dagger tconj (mzero t0)) (S k))
                        (dpow n (dagger tconj U, mzero t0) (S k))).
      { assert (E0 : deq n (dagger tconj U, dagger tconj (mzero t0)) (dagger tconj U, mzero t0)).
        { split; cbn [fst snd]; [reflexivity|]. intros i j _ _. unfold dagger, madj, mzero. apply conj_0. }
        generalize (S k). intros m. induction m; cbn [Composed.dpow]; [reflexivity|]. rewrite IHm, E0. reflexivity. }
      destruct E as [E1 _]. rewrite E1, dpow_components. reflexivity.
  Qed.
  Theorem power_unitary_unitary n U k : unitary n U ->
    unitary n (power_unitary t0 t1 tadd tmul tconj n U k).
  Proof.
    intros HU. destruct k as [|p|p].
    - unfold power_unitary; simpl. apply unitary_id.
    - eapply unitary_proper.
      + symmetry. rewrite <- (positive_nat_Z p). apply power_unitary_spec.
      + apply unitary_mpow; auto.
    - eapply unitary_proper.
      + symmetry. replace (Z.neg p) with (- Z.of_nat (Pos.to_nat p))%Z by (rewrite positive_nat_Z; reflexivity).
        apply power_unitary_neg_spec.
      + apply unitary_mpow. apply dagger_unitary; auto.
  Qed.

  (* ---------------- EmbeddedGate ---------------- *)
  Lemma find_last_inj (tgt : nat -> nat) n i : i < n ->
    (forall a b, a < n -> b < n -> tgt a = tgt b -> a = b) ->
    find_last (fun k => Nat.eqb (tgt k) (tgt i)) n = Some i.
  Proof.
    intros Hi Hinj. unfold find_last.
    destruct (find (fun k => Nat.eqb (tgt k) (tgt i)) (rev (seq 0 n))) as [x|] eqn:F.
    - apply find_some in F. destruct F as [Hin Hx]. rewrite <- in_rev, in_seq in Hin.
      apply Nat.eqb_eq in Hx. f_equal. apply Hinj; auto; lia.
    - exfalso. pose proof (find_none _ _ F i) as H.
      rewrite <- in_rev, in_seq, Nat.eqb_refl in H. specialize (H ltac:(lia)). discriminate.
  Qed.
  Lemma find_last_none (tgt : nat -> nat) n I :
    (forall k, k < n -> tgt k <> I) -> find_last (fun k => Nat.eqb (tgt k) I) n = None.
  Proof.
    intros H. unfold find_last.
    destruct (find (fun k => Nat.eqb (tgt k) I) (rev (seq 0 n))) as [x|] eqn:F; auto.
    apply find_some in F. destruct F as [Hin Hx]. rewrite <- in_rev, in_seq in Hin.
    apply Nat.eqb_eq in Hx. exfalso. apply (H x); auto; lia.
  Qed.
  (* on the chosen levels the embedded matrix is the gate ... *)
  Theorem map_matrix_on gdim tgt (small init : mat) i j : i < gdim -> j < gdim ->
    (forall a b, a < gdim -> b < gdim -> tgt a = tgt b -> a = b) ->
    map_matrix gdim tgt small init (tgt i) (tgt j) = small i j.
  Proof. intros Hi Hj Hinj. unfold map_matrix.
    rewrite (find_last_inj tgt gdim i), (find_last_inj tgt gdim j); auto. Qed.
  (* ... and off the chosen levels it is the initial matrix (identity for the unitary,
     zero for the gradient) *)
  Theorem map_matrix_off gdim tgt (small init : mat) I J :
    (forall k, k < gdim -> tgt k <> I) \/ (forall k, k < gdim -> tgt k <> J) ->
    map_matrix gdim tgt small init I J = init I J.
  Proof. intros [H|H]; unfold map_matrix.
    - rewrite (find_last_none tgt gdim I H). reflexivity.
    - rewrite (find_last_none tgt gdim J H).
      destruct (find_last (fun i => Nat.eqb (tgt i) I) gdim); reflexivity. Qed.

  (* ---- the embedded matrix is unitary ---- *)
  Lemma find_last_some (tgt : nat -> nat) n I i :
    find_last (fun k => Nat.eqb (tgt k) I) n = Some i -> i < n /\ tgt i = I.
  Proof. unfold find_last. intros F. apply find_some in F. destruct F as [Hin Hx].
    rewrite <- in_rev, in_seq in Hin. apply Nat.eqb_eq in Hx. split; [lia | exact Hx]. Qed.
  Lemma find_last_none_inv (tgt : nat -> nat) n I :
    find_last (fun k => Nat.eqb (tgt k) I) n = None -> forall k, k < n -> tgt k <> I.
  Proof. unfold find_last. intros F k Hk E. pose proof (find_none _ _ F k) as H.
    rewrite <- in_rev, in_seq in H. specialize (H ltac:(lia)). apply Nat.eqb_neq in H. auto. Qed.

  Lemma sum_point n p f : p < n ->
    sum n f = sum n (fun K => if Nat.eqb K p then t0 else f K) +! f p.
  Proof.
    induction n; intros Hp; [lia|]. simpl. destruct (Nat.eq_dec p n) as [->|Hne].
    - rewrite Nat.eqb_refl. rewrite (sum_ext n (fun K => if Nat.eqb K n then t0 else f K) f).
      + ring.
      + intros k Hk. destruct (Nat.eqb k n) eqn:E; [apply Nat.eqb_eq in E; lia | reflexivity].
    - rewrite IHn by lia. destruct (Nat.eqb n p) eqn:E; [apply Nat.eqb_eq in E; lia | ring].
  Qed.

  (* a function supported on the image of an injection sums like its pull-back *)
  Lemma sum_support (tgt : nat -> nat) n : forall g f,
    (forall a b, a < g -> b < g -> tgt a = tgt b -> a = b) ->
    (forall k, k < g -> tgt k < n) ->
    (forall K, K < n -> (forall k, k < g -> tgt k <> K) -> f K = t0) ->
    sum n f = sum g (fun k => f (tgt k)).
  Proof.
    induction g; intros f Hinj Hr Hs.
    - simpl. apply sum_zero. intros K HK. apply Hs; auto. intros k Hk; lia.
    - simpl. rewrite (sum_point n (tgt g) f) by (apply Hr; lia). f_equal.
      rewrite (IHg (fun K => if Nat.eqb K (tgt g) then t0 else f K)).
      + apply sum_ext. intros k Hk. destruct (Nat.eqb (tgt k) (tgt g)) eqn:E; auto.
        apply Nat.eqb_eq in E. apply Hinj in E; lia.
      + intros a b Ha Hb. apply Hinj; lia.
      + intros k Hk. apply Hr; lia.
      + intros K HK Hno. destruct (Nat.eqb K (tgt g)) eqn:E; auto. apply Nat.eqb_neq in E.
        apply Hs; auto. intros k Hk. destruct (Nat.eq_dec k g) as [->|Hne]; [congruence | apply Hno; lia].
  Qed.

  Section Embedded.
    Variables (gdim n : nat) (tgt : nat -> nat).
    Hypothesis tgt_inj : forall a b, a < gdim -> b < gdim -> tgt a = tgt b -> a = b.
    Hypothesis tgt_range : forall k, k < gdim -> tgt k < n.
    Notation emb U := (map_matrix gdim tgt U idm).

    Lemma emb_adj U I J : adj (emb U) I J = emb (adj U) I J.
    Proof.
      unfold madj, map_matrix.
      destruct (find_last (fun i => Nat.eqb (tgt i) I) gdim); destruct (find_last (fun j => Nat.eqb (tgt j) J) gdim);
        auto; unfold mid; rewrite (Nat.eqb_sym J I); destruct (Nat.eqb I J); auto.
    Qed.

    Lemma emb_half U : meq gdim (mul gdim U (adj U)) idm -> meq n (mul n (emb U) (adj (emb U))) idm.
    Proof.
      intros HU I J HI HJ. unfold mmul.
      destruct (find_last (fun i => Nat.eqb (tgt i) I) gdim) as [i|] eqn:FI;
        destruct (find_last (fun j => Nat.eqb (tgt j) J) gdim) as [j|] eqn:FJ.
      - (* both on the embedded levels *)
        destruct (find_last_some _ _ _ _ FI) as [Hi EI]. destruct (find_last_some _ _ _ _ FJ) as [Hj EJ]. subst I J.
        rewrite (sum_support tgt n gdim); auto.
        + transitivity (mul gdim U (adj U) i j).
          * unfold mmul. apply sum_ext. intros k Hk. unfold madj.
            rewrite !map_matrix_on by auto. reflexivity.
          * rewrite HU by auto. unfold mid. destruct (Nat.eq_dec i j) as [->|Hne]; [rewrite !Nat.eqb_refl; reflexivity|].
            replace (Nat.eqb i j) with false by (symmetry; apply Nat.eqb_neq; auto).
            replace (Nat.eqb (tgt i) (tgt j)) with false; auto.
            symmetry; apply Nat.eqb_neq. intro E. apply Hne. apply tgt_inj; auto.
        + intros K HK Hno. rewrite (map_matrix_off gdim tgt U idm (tgt i) K) by (right; exact Hno).
          unfold mid. destruct (Nat.eqb (tgt i) K) eqn:E; [|ring].
          apply Nat.eqb_eq in E. exfalso. apply (Hno i Hi E).
      - (* I embedded, J untouched: only K = J can contribute, and E(I,J) = 0 *)
        destruct (find_last_some _ _ _ _ FI) as [Hi EI]. pose proof (find_last_none_inv _ _ _ FJ) as NJ. subst I.
        rewrite (sum_single n J); auto.
        + unfold madj. rewrite (map_matrix_off gdim tgt U idm (tgt i) J) by (right; exact NJ).
          unfold mid. destruct (Nat.eqb (tgt i) J) eqn:E; [apply Nat.eqb_eq in E; exfalso; apply (NJ i Hi E)|]. ring.
        + intros K HK Hne. unfold madj. rewrite (map_matrix_off gdim tgt U idm J K) by (left; exact NJ).
          unfold mid. replace (Nat.eqb J K) with false by (symmetry; apply Nat.eqb_neq; auto).
          rewrite conj_0. ring.
      - (* I untouched, J embedded *)
        pose proof (find_last_none_inv _ _ _ FI) as NI. destruct (find_last_some _ _ _ _ FJ) as [Hj EJ]. subst J.
        rewrite (sum_single n I); auto.
        + unfold madj. rewrite (map_matrix_off gdim tgt U idm (tgt j) I) by (right; exact NI).
          unfold mid. destruct (Nat.eqb (tgt j) I) eqn:E; [apply Nat.eqb_eq in E; exfalso; apply (NI j Hj E)|].
          rewrite conj_0.
          replace (Nat.eqb I (tgt j)) with false
            by (symmetry; apply Nat.eqb_neq; intro E2; apply (NI j Hj); auto).
          ring.
        + intros K HK Hne. rewrite (map_matrix_off gdim tgt U idm I K) by (left; exact NI).
          unfold mid. replace (Nat.eqb I K) with false by (symmetry; apply Nat.eqb_neq; auto). ring.
      - (* both untouched: identity block *)
        pose proof (find_last_none_inv _ _ _ FI) as NI. pose proof (find_last_none_inv _ _ _ FJ) as NJ.
        transitivity (mul n idm (adj idm) I J).
        + unfold mmul. apply sum_ext. intros K HK. unfold madj.
          rewrite (map_matrix_off gdim tgt U idm I K) by (left; exact NI).
          rewrite (map_matrix_off gdim tgt U idm J K) by (left; exact NJ). reflexivity.
        + apply (proj1 (unitary_id n)); auto.
    Qed.

    Lemma emb_ext U V I J : (forall i j, U i j = V i j) -> emb U I J = emb V I J.
    Proof. intros E. unfold map_matrix.
      destruct (find_last (fun i => Nat.eqb (tgt i) I) gdim); destruct (find_last (fun j => Nat.eqb (tgt j) J) gdim); auto. Qed.

    Theorem embedded_unitary U : unitary gdim U -> unitary n (emb U).
    Proof.
      intros [H1 H2]. split.
      - apply emb_half; exact H1.
      - (* (emb U)^dagger (emb U) = emb(U^dagger) (emb(U^dagger))^dagger *)
        intros I J HI HJ.
        assert (F2 : forall K, emb U K J = adj (emb (adj U)) K J).
        { intros K. rewrite emb_adj. apply emb_ext. intros i j. symmetry. apply madj_invol. }
        transitivity (mul n (emb (adj U)) (adj (emb (adj U))) I J).
        + unfold mmul. apply sum_ext. intros K HK. cbv beta. rewrite (emb_adj U I K), (F2 K). reflexivity.
        + apply emb_half; auto. intros i j Hi Hj. rewrite <- (H2 i j Hi Hj).
          unfold mmul. apply sum_ext. intros k _. rewrite madj_invol. reflexivity.
    Qed.
  End Embedded.
End MatThm.
