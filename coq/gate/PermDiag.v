(* gate/PermDiag.v - permutation and diagonal matrices over an abstract ring (the shape of
   GateLib.m_shift / m_swap / m_csum and of m_clock / m_PD / m_ACP / m_Diag / m_MPRZ / m_PauliZ).
   Definitions only; theorems in gate/PermDiagThm.v. *)
From Coq Require Import List Arith Bool PeanoNat.
From BQ Require Import gate.Matrix gate.Composed.
Import ListNotations.

Section PD.
  Variable T : Type.
  Variables (t0 t1 : T).
  (* column j has its single 1 in row f j *)
  Definition pmat (f : nat -> nat) : mat T := fun i j => if Nat.eqb i (f j) then t1 else t0.
  Definition dmat (d : nat -> T) : mat T := fun i j => if Nat.eqb i j then d i else t0.
End PD.
Arguments pmat {T} t0 t1 f i j.
Arguments dmat {T} t0 d i j.

