(* gate/ComposedThm.v - the composed-gate theorems of gate/MatrixThm.v instantiated
   with Coquelicot's C, and transported to the executable (syntactic) model that is
   extracted and compared with the implementation:
     meval rho (composed construction on cexpr matrices)
       = the same construction on the complex matrices meval rho (...).
   Uses functional extensionality (an axiom already brought in by Coq's Reals). *)
From Coq Require Import Reals QArith ZArith List Bool Arith Lia Lra FunctionalExtensionality.
From Coquelicot Require Import Coquelicot.
From BQ Require Import lib.Expr lib.ExprThm gate.Matrix gate.MatrixThm gate.Composed gate.GateLib gate.GateThm gate.FrozenThm.
Import ListNotations.
Local Open Scope nat_scope.

(* ---- ring homomorphisms commute with every construction ------------------------ *)
Section Hom.
  Variables (T T' : Type).
  Variables (t0 t1 : T) (tadd tmul : T -> T -> T) (topp tconj : T -> T).
  Variables (u0 u1 : T') (uadd umul : T' -> T' -> T') (uopp uconj : T' -> T').
  Variable f : T -> T'.
  Hypothesis f0 : f t0 = u0.
  Hypothesis f1 : f t1 = u1.
  Hypothesis fadd : forall a b, f (tadd a b) = uadd (f a) (f b).
  Hypothesis fmul : forall a b, f (tmul a b) = umul (f a) (f b).
  Hypothesis fopp : forall a, f (topp a) = uopp (f a).
  Hypothesis fconj : forall a, f (tconj a) = uconj (f a).

  Ltac ext2 := let i := fresh "i" in let j := fresh "j" in extensionality i; extensionality j.

  Lemma hom_sum n g : f (sum t0 tadd n g) = sum u0 uadd n (fun k => f (g k)).
  Proof. induction n; simpl; [exact f0|]. rewrite fadd, IHn. reflexivity. Qed.
  Lemma hom_mmul n A B : mmap f (mmul t0 tadd tmul n A B) = mmul u0 uadd umul n (mmap f A) (mmap f B).
  Proof. ext2. unfold mmap, mmul. rewrite hom_sum. f_equal. extensionality k. apply fmul. Qed.
  Lemma hom_mid : mmap f (mid t0 t1) = mid u0 u1.
  Proof. ext2. unfold mmap, mid. destruct (Nat.eqb i j); auto. Qed.
  Lemma hom_mzero : mmap f (mzero t0) = mzero u0.
  Proof. ext2. exact f0. Qed.
  Lemma hom_madd A B : mmap f (madd tadd A B) = madd uadd (mmap f A) (mmap f B).
  Proof. ext2. apply fadd. Qed.
  Lemma hom_msub A B : mmap f (msub tadd topp A B) = msub uadd uopp (mmap f A) (mmap f B).
  Proof. ext2. unfold mmap, msub. rewrite fadd, fopp. reflexivity. Qed.
  Lemma hom_madj A : mmap f (madj tconj A) = madj uconj (mmap f A).
  Proof. ext2. apply fconj. Qed.
  Lemma hom_kron d A B : mmap f (kron tmul d A B) = kron umul d (mmap f A) (mmap f B).
  Proof. ext2. apply fmul. Qed.
  Lemma hom_diag01 p : mmap f (diag01 t0 t1 p) = diag01 u0 u1 p.
  Proof. ext2. unfold mmap, diag01. destruct (Nat.eqb i j && p i); auto. Qed.
  Lemma hom_memo n A i j : i < n -> j < n -> mmap f (memo t0 n A) i j = mmap f A i j.
  Proof. intros Hi Hj. unfold mmap. rewrite (memo_spec T t0 n A i j Hi Hj). reflexivity. Qed.

  Lemma hom_proj_rev l : mmap f (proj_rev t0 t1 tmul l) = proj_rev u0 u1 umul l.
  Proof. induction l as [|[r lv] rest IH]; simpl; [apply hom_mid|].
    change (mmap f (kron tmul r (proj_rev t0 t1 tmul rest) (elem_proj t0 t1 lv))
            = kron umul r (proj_rev u0 u1 umul rest) (elem_proj u0 u1 lv)).
    rewrite hom_kron, IH. unfold elem_proj. rewrite hom_diag01. reflexivity. Qed.
  Lemma hom_controlled cr cl d U :
    mmap f (controlled t0 t1 tadd tmul topp cr cl d U) = controlled u0 u1 uadd umul uopp cr cl d (mmap f U).
  Proof. unfold controlled, ctrl_proj.
    rewrite hom_madd, !hom_kron, hom_msub, hom_mid, hom_proj_rev. reflexivity. Qed.
  Lemma hom_controlled_grad cr cl d G :
    mmap f (controlled_grad t0 t1 tmul cr cl d G) = controlled_grad u0 u1 umul cr cl d (mmap f G).
  Proof. unfold controlled_grad, ctrl_proj. rewrite hom_kron, hom_proj_rev. reflexivity. Qed.
  Lemma hom_dagger U : mmap f (dagger tconj U) = dagger uconj (mmap f U).
  Proof. apply hom_madj. Qed.

  Definition dmap (X : dual T) : dual T' := (mmap f (fst X), mmap f (snd X)).
  Lemma hom_dmul n X Y : dmap (dmul t0 tadd tmul n X Y) = dmul u0 uadd umul n (dmap X) (dmap Y).
  Proof. unfold dmap, dmul; simpl. rewrite hom_mmul, hom_madd, !hom_mmul. reflexivity. Qed.
  Lemma hom_pow_bits n p : forall S acc,
    dmap (pow_bits t0 tadd tmul n S acc p)
    = pow_bits u0 uadd umul n (dmap S) (option_map dmap acc) p.
  Proof.
    induction p as [p IH|p IH|]; intros S acc; cbn [pow_bits].
    - rewrite IH, hom_dmul. destruct acc; simpl; rewrite ?hom_dmul; reflexivity.
    - rewrite IH, hom_dmul. reflexivity.
    - destruct acc; simpl; rewrite ?hom_dmul; reflexivity.
  Qed.
  Lemma hom_power n X k :
    dmap (power t0 t1 tadd tmul tconj n X k) = power u0 u1 uadd umul uconj n (dmap X) k.
  Proof. destruct k; cbn [power].
    - unfold dmap, done; simpl. rewrite hom_mid, hom_mzero. reflexivity.
    - apply (hom_pow_bits n p X None).
    - rewrite (hom_pow_bits n p _ None). unfold dmap, dadj; simpl. rewrite !hom_dagger. reflexivity.
  Qed.
  Lemma hom_map_matrix gdim tgt small init :
    mmap f (map_matrix gdim tgt small init) = map_matrix gdim tgt (mmap f small) (mmap f init).
  Proof. ext2. unfold mmap, map_matrix.
    destruct (find_last (fun i0 => Nat.eqb (tgt i0) i) gdim); auto.
    destruct (find_last (fun j0 => Nat.eqb (tgt j0) j) gdim); auto. Qed.
End Hom.

(* ---- the instance: cexpr --ceval rho--> C ------------------------------------------ *)
Lemma C_ring : ring_theory C0 C1 Cplus Cmult (fun a b => Cplus a (Copp b)) Copp eq.
Proof. exact C_ring_theory. Qed.
Lemma Cconj_0 : Cconj C0 = C0.
Proof. apply Ceq; simpl; ring. Qed.
Lemma Cconj_1 : Cconj C1 = C1.
Proof. apply Ceq; simpl; ring. Qed.

Definition Ccontrolled := controlled C0 C1 Cplus Cmult Copp.
Definition Ccontrolled_grad := controlled_grad C0 C1 Cmult.
Definition Cpower_unitary := power_unitary C0 C1 Cplus Cmult Cconj.
Definition Cmpow := mpow C0 C1 Cplus Cmult.
Definition scontrolled := controlled c0 c1 cadd cmul cneg.
Definition scontrolled_grad := controlled_grad c0 c1 cmul.
Definition spower_unitary := power_unitary c0 c1 cadd cmul cconj.
Definition spower_grads := power_grads c0 c1 cadd cmul cconj.

Section Instance.
  Variable rho : env.
  Let f := ceval rho.
  Lemma f0 : f c0 = C0. Proof. apply c0_sem. Qed.
  Lemma f1 : f c1 = C1. Proof. apply c1_sem. Qed.
  Lemma fadd a b : f (cadd a b) = Cplus (f a) (f b). Proof. apply cadd_sound. Qed.
  Lemma fmul a b : f (cmul a b) = Cmult (f a) (f b). Proof. apply cmul_sound. Qed.
  Lemma fopp a : f (cneg a) = Copp (f a). Proof. apply cneg_sound. Qed.
  Lemma fconj a : f (cconj a) = Cconj (f a). Proof. apply cconj_sound. Qed.

  Lemma meval_controlled cr cl d U :
    meval rho (scontrolled cr cl d U) = Ccontrolled cr cl d (meval rho U).
  Proof. apply (hom_controlled _ _ c0 c1 cadd cmul cneg C0 C1 Cplus Cmult Copp f f0 f1 fadd fmul fopp). Qed.
  Lemma meval_controlled_grad cr cl d G :
    meval rho (scontrolled_grad cr cl d G) = Ccontrolled_grad cr cl d (meval rho G).
  Proof. apply (hom_controlled_grad _ _ c0 c1 cmul C0 C1 Cmult f f0 f1 fmul). Qed.
  Lemma meval_dagger U : meval rho (dagger cconj U) = dagger Cconj (meval rho U).
  Proof. apply (hom_madj _ _ cconj Cconj f fconj). Qed.
  Lemma meval_power_unitary n U k :
    meval rho (spower_unitary n U k) = Cpower_unitary n (meval rho U) k.
  Proof.
    unfold spower_unitary, Cpower_unitary, power_unitary, meval.
    pose proof (hom_power _ _ c0 c1 cadd cmul cconj C0 C1 Cplus Cmult Cconj f f0 f1 fadd fmul fconj
                  n (U, mzero c0) k) as H.
    apply (f_equal fst) in H. unfold dmap in H; simpl in H.
    rewrite (hom_mzero _ _ c0 C0 f f0) in H. exact H.
  Qed.
End Instance.

Ltac cinst := first [exact C_ring | exact Cconj_plus | exact Cconj_mult | exact Cconj_0 | exact Cconj_1 | exact Cconj_conj | assumption].

(* ---- C18_composed: statements about the complex matrices --------------------------- *)
(* ControlledGate: controlled-of-unitary is unitary, and is the block matrix of the
   docstring (identity blocks for inactive control configurations, U for active ones) *)
Theorem Ccontrolled_unitary cr cl d U :
  List.Forall (fun rl => 0 < fst rl) (rev (combine cr cl)) -> 0 < d ->
  Cunitary d U -> Cunitary (dim_rev (rev (combine cr cl)) * d) (Ccontrolled cr cl d U).
Proof.
  intros H1 H2 HU. unfold Ccontrolled, Cunitary. eapply controlled_unitary; cinst.
Qed.
Theorem Ccontrolled_block cr cl d U :
  List.Forall (fun rl => 0 < fst rl) (rev (combine cr cl)) -> 0 < d ->
  meq (dim_rev (rev (combine cr cl)) * d) (Ccontrolled cr cl d U)
      (blockdiag C C0 d (fun c => if active_rev (rev (combine cr cl)) c then U else Cid)).
Proof.
  intros H1 H2. unfold Ccontrolled, Cid. eapply controlled_spec; cinst.
Qed.
Theorem Ccontrolled_grad_block cr cl d G :
  List.Forall (fun rl => 0 < fst rl) (rev (combine cr cl)) -> 0 < d ->
  meq (dim_rev (rev (combine cr cl)) * d) (Ccontrolled_grad cr cl d G)
      (blockdiag C C0 d (fun c => if active_rev (rev (combine cr cl)) c then G else mzero C0)).
Proof.
  intros H1 H2. unfold Ccontrolled_grad. eapply controlled_grad_spec; cinst.
Qed.

(* the advertised dimension: prod(control_radixes) * gate.dim *)
Lemma dim_rev_app l1 l2 : dim_rev (l1 ++ l2) = dim_rev l1 * dim_rev l2.
Proof. induction l1 as [|[r lv] t IH]; simpl; [lia|]. rewrite IH. lia. Qed.
Lemma dim_rev_rev l : dim_rev (rev l) = dim_rev l.
Proof. induction l as [|[r lv] t IH]; simpl; [reflexivity|]. rewrite dim_rev_app, IH. simpl. lia. Qed.
Lemma dim_rev_combine cr : forall cl, length cl = length cr ->
  dim_rev (combine cr cl) = fold_right Nat.mul 1 cr.
Proof. induction cr as [|r t IH]; intros [|lv cl] H; simpl in *; try lia; try reflexivity.
  rewrite IH by lia. lia. Qed.
Theorem controlled_dim cr cl : length cl = length cr ->
  dim_rev (rev (combine cr cl)) = fold_right Nat.mul 1 cr.
Proof. intros H. rewrite dim_rev_rev. apply dim_rev_combine; auto. Qed.

(* DaggerGate *)
Theorem Cdagger_involutive U i j : dagger Cconj (dagger Cconj U) i j = U i j.
Proof. unfold dagger, madj. apply Cconj_conj. Qed.
Theorem Cdagger_unitary n U : Cunitary n U -> Cunitary n (dagger Cconj U).
Proof. unfold Cunitary. eapply dagger_unitary; cinst. Qed.
Theorem Cdagger_inverse n U : Cunitary n U -> meq n (Cmmul n (dagger Cconj U) U) Cid.
Proof. intros H; exact (proj2 H). Qed.

(* PowerGate: the binary-powering code computes the k-fold product (of the dagger for
   negative powers), which is unitary *)
Theorem Cpower_is_product n U (k : nat) : meq n (Cpower_unitary n U (Z.of_nat k)) (Cmpow n U k).
Proof. unfold Cpower_unitary, Cmpow. eapply power_unitary_spec; cinst. Qed.
Theorem Cpower_neg_is_product n U (k : nat) :
  meq n (Cpower_unitary n U (- Z.of_nat k)) (Cmpow n (dagger Cconj U) k).
Proof. unfold Cpower_unitary, Cmpow. eapply power_unitary_neg_spec; cinst. Qed.
Theorem Cpower_unitary_unitary n U k : Cunitary n U -> Cunitary n (Cpower_unitary n U k).
Proof. unfold Cpower_unitary, Cunitary. intros H. eapply power_unitary_unitary; cinst. Qed.

(* ---- gradients of composed gates are derivatives ---------------------------------- *)
Lemma is_Cderive_cdpl f x l : is_Cderive f x l <-> cdpl f x l.
Proof. unfold is_Cderive, cdpl. rewrite !is_derive_Reals. tauto. Qed.

Lemma is_Cderive_const c x : is_Cderive (fun _ => c) x C0.
Proof. apply is_Cderive_cdpl. split; simpl; apply (derivable_pt_lim_const _ x). Qed.
Lemma is_Cderive_plus f g x a b : is_Cderive f x a -> is_Cderive g x b ->
  is_Cderive (fun t => Cplus (f t) (g t)) x (Cplus a b).
Proof. rewrite !is_Cderive_cdpl. intros [A1 A2] [B1 B2]. split; simpl.
  - apply (derivable_pt_lim_plus _ _ _ _ _ A1 B1).
  - apply (derivable_pt_lim_plus _ _ _ _ _ A2 B2). Qed.
Lemma is_Cderive_mult f g x a b : is_Cderive f x a -> is_Cderive g x b ->
  is_Cderive (fun t => Cmult (f t) (g t)) x (Cplus (Cmult a (g x)) (Cmult (f x) b)).
Proof. rewrite !is_Cderive_cdpl. intros [A1 A2] [B1 B2]. split; simpl.
  - eapply dpl_eq; [| apply (derivable_pt_lim_minus _ _ _ _ _
      (derivable_pt_lim_mult _ _ _ _ _ A1 B1) (derivable_pt_lim_mult _ _ _ _ _ A2 B2))].
    unfold mult_fct; ring.
  - eapply dpl_eq; [| apply (derivable_pt_lim_plus _ _ _ _ _
      (derivable_pt_lim_mult _ _ _ _ _ A1 B2) (derivable_pt_lim_mult _ _ _ _ _ A2 B1))].
    unfold mult_fct; ring. Qed.
Lemma is_Cderive_conj f x a : is_Cderive f x a -> is_Cderive (fun t => Cconj (f t)) x (Cconj a).
Proof. rewrite !is_Cderive_cdpl. intros [A1 A2]. split; simpl; [exact A1|].
  apply (derivable_pt_lim_opp _ _ _ A2). Qed.
Lemma is_Cderive_sum n (F : nat -> R -> C) (L : nat -> C) x :
  (forall k, k < n -> is_Cderive (F k) x (L k)) ->
  is_Cderive (fun t => sum C0 Cplus n (fun k => F k t)) x (sum C0 Cplus n L).
Proof. induction n; intros H; simpl.
  - apply is_Cderive_const.
  - apply is_Cderive_plus; [apply IHn; intros; apply H; lia | apply H; lia]. Qed.
Lemma is_Cderive_val f x l l' : l = l' -> is_Cderive f x l -> is_Cderive f x l'.
Proof. intros; subst; auto. Qed.

(* a matrix-valued function of one real parameter and its entry-wise derivative *)
Definition Mderiv (n : nat) (A : R -> Cmat) (x : R) (A' : Cmat) : Prop :=
  forall i j, i < n -> j < n -> is_Cderive (fun t => A t i j) x (A' i j).

Lemma Mderiv_ext n A B x A' B' :
  (forall t, meq n (A t) (B t)) -> meq n A' B' -> Mderiv n A x A' -> Mderiv n B x B'.
Proof. intros E E' H i j Hi Hj. rewrite <- (E' i j Hi Hj).
  apply (is_Cderive_ext (fun t => A t i j)); [intros t; apply E; auto | apply H; auto]. Qed.
Lemma Mderiv_const n A x : Mderiv n (fun _ => A) x (mzero C0).
Proof. intros i j _ _. apply is_Cderive_const. Qed.

Lemma Mderiv_mmul n A B A' B' x : Mderiv n A x A' -> Mderiv n B x B' ->
  Mderiv n (fun t => Cmmul n (A t) (B t)) x (madd Cplus (Cmmul n A' (B x)) (Cmmul n (A x) B')).
Proof.
  intros HA HB i j Hi Hj. unfold Cmmul, mmul, madd.
  eapply is_Cderive_val; [| apply (is_Cderive_sum n (fun k t => Cmult (A t i k) (B t k j))
        (fun k => Cplus (Cmult (A' i k) (B x k j)) (Cmult (A x i k) (B' k j))))].
  - rewrite (sum_add C C0 C1 Cplus Cmult Copp C_ring). reflexivity.
  - intros k Hk. apply (is_Cderive_mult (fun t => A t i k) (fun t => B t k j)); [apply HA | apply HB]; auto.
Qed.

(* DaggerGate.get_grad = conjugate transpose of the inner gradient *)
Theorem Cdagger_grad n U x G : Mderiv n U x G -> Mderiv n (fun t => dagger Cconj (U t)) x (dagger Cconj G).
Proof. intros H i j Hi Hj. unfold dagger, madj. apply (is_Cderive_conj (fun t => U t j i)). apply H; auto. Qed.

(* ControlledGate.get_grad = kron(ctrl, grads) *)
Theorem Ccontrolled_grad_correct cr cl d U x G :
  List.Forall (fun rl => 0 < fst rl) (rev (combine cr cl)) -> 0 < d ->
  Mderiv d U x G ->
  Mderiv (dim_rev (rev (combine cr cl)) * d) (fun t => Ccontrolled cr cl d (U t)) x (Ccontrolled_grad cr cl d G).
Proof.
  intros H1 H2 HU.
  apply (Mderiv_ext _ (fun t => blockdiag C C0 d (fun c => if active_rev (rev (combine cr cl)) c then U t else Cid))
           _ x (blockdiag C C0 d (fun c => if active_rev (rev (combine cr cl)) c then G else mzero C0))).
  - intros t. symmetry. apply Ccontrolled_block; auto.
  - symmetry. apply Ccontrolled_grad_block; auto.
  - intros i j Hi Hj. unfold blockdiag.
    destruct (Nat.eqb (i / d) (j / d)); [|apply is_Cderive_const].
    destruct (active_rev (rev (combine cr cl)) (i / d)).
    + apply HU; apply Nat.mod_upper_bound; lia.
    + apply is_Cderive_const.
Qed.

(* PowerGate: the gradient returned with U^k is the derivative of U^k *)
Lemma Mderiv_mpow n U x G : Mderiv n U x G ->
  forall k, Mderiv n (fun t => Cmpow n (U t) k) x (mpow_d C0 C1 Cplus Cmult n (U x) G k).
Proof.
  intros H. induction k; simpl.
  - apply Mderiv_const.
  - apply (Mderiv_mmul n U (fun t => Cmpow n (U t) k)); auto.
Qed.

Definition Cpower := power C0 C1 Cplus Cmult Cconj.
Theorem Cpower_grad_correct n U x G k : Mderiv n U x G ->
  Mderiv n (fun t => Cpower_unitary n (U t) k) x (snd (Cpower n (U x, G) k)).
Proof.
  intros H.
  assert (SPEC : forall X, deq C n (Cpower n X k)
     (match k with Z0 => done C0 C1 | Zpos p => dpow C0 C1 Cplus Cmult n X (Pos.to_nat p)
                 | Zneg p => dpow C0 C1 Cplus Cmult n (dadj Cconj X) (Pos.to_nat p) end)).
  { intros X. unfold Cpower. eapply power_spec; cinst. }
  destruct k as [|p|p].
  - unfold Cpower_unitary, power_unitary, Cpower; simpl. apply Mderiv_const.
  - eapply Mderiv_ext; [| | apply (Mderiv_mpow n U x G H (Pos.to_nat p))].
    + intros t. symmetry. rewrite <- (positive_nat_Z p). apply Cpower_is_product.
    + destruct (SPEC (U x, G)) as [_ S2]. rewrite S2, dpow_components. reflexivity.
  - eapply Mderiv_ext; [| | apply (Mderiv_mpow n (fun t => dagger Cconj (U t)) x (dagger Cconj G)
                                     (Cdagger_grad n U x G H) (Pos.to_nat p))].
    + intros t. symmetry.
      replace (Z.neg p) with (- Z.of_nat (Pos.to_nat p))%Z by (rewrite positive_nat_Z; reflexivity).
      apply Cpower_neg_is_product.
    + destruct (SPEC (U x, G)) as [_ S2]. rewrite S2. unfold dadj; simpl. rewrite dpow_components. reflexivity.
Qed.

(* ---- FrozenParameterGate: substitution, and the kept gradient rows ----------------- *)
(* generic: substitute s for the parameters; if s u is the new parameter t and no other
   s k mentions t, the derivative w.r.t. t of the substituted expression is the
   substituted u-th partial derivative *)
Theorem subst_deriv (e : cexpr) (s : nat -> rexpr) (t u : nat) rho :
  s u = RVar t ->
  (forall k, k <> u -> forall x, reval (upd rho t x) (s k) = reval rho (s k)) ->
  is_Cderive (fun x => ceval (upd rho t x) (csubst s e)) (rho t) (ceval rho (csubst s (cderiv u e))).
Proof.
  intros Hu Hind.
  set (rho' := fun k => reval rho (s k)).
  assert (E : forall x k, reval (upd rho t x) (s k) = upd rho' u x k).
  { intros x k. unfold upd at 2. destruct (Nat.eqb k u) eqn:K.
    - apply Nat.eqb_eq in K; subst k. rewrite Hu. simpl. unfold upd. rewrite Nat.eqb_refl. reflexivity.
    - apply Nat.eqb_neq in K. unfold rho'. apply Hind; auto. }
  apply (is_Cderive_ext (fun x => ceval (upd rho' u x) e)).
  - intros x. rewrite csubst_sound. apply ceval_ext. intros k. symmetry. apply E.
  - rewrite csubst_sound. fold rho'.
    replace (rho t) with (rho' u) by (unfold rho'; rewrite Hu; reflexivity).
    apply cderiv_correct_at.
Qed.

(* the substitution FrozenParameterGate performs (gate/GateModel.v) *)
Definition frozen_subst (n : nat) (fz : list (nat * Q)) : nat -> rexpr :=
  let m := n - length fz in
  let full := full_params (map (fun kx => (fst kx, RQ (snd kx))) fz) (map RVar (seq 0 m)) in
  fun k => nth k full (RVar k).

Lemma forallb_map' {X Y} (f : Y -> bool) (g : X -> Y) l : forallb f (map g l) = forallb (fun x => f (g x)) l.
Proof. induction l; simpl; auto. rewrite IHl. reflexivity. Qed.
Lemma existsb_map' {X Y} (f : Y -> bool) (g : X -> Y) l : existsb f (map g l) = existsb (fun x => f (g x)) l.
Proof. induction l; simpl; auto. rewrite IHl. reflexivity. Qed.

Lemma frozen_valid_map n (fz : list (nat * Q)) :
  frozen_valid n fz = true -> frozen_valid n (map (fun kx => (fst kx, RQ (snd kx))) fz) = true.
Proof. unfold frozen_valid. rewrite map_length, map_map. simpl.
  rewrite forallb_map'. simpl. auto. Qed.

(* frozen = substitution: frozen indices carry the frozen constants, the t-th unfrozen
   index carries the new parameter t, and the t-th kept gradient row
   (grads[unfixed_param_idxs][t]) is the derivative w.r.t. the new parameter t *)
Theorem frozen_subst_frozen n fz k q : frozen_valid n fz = true -> In (k, q) fz ->
  frozen_subst n fz k = RQ q.
Proof.
  intros V Hin. unfold frozen_subst.
  apply (full_params_frozen rexpr (RVar k) n _ _ (frozen_valid_map n fz V)).
  - rewrite !map_length, seq_length. reflexivity.
  - apply in_map_iff. exists (k, q). auto.
Qed.
Theorem frozen_subst_free n fz t : frozen_valid n fz = true -> t < n - length fz ->
  frozen_subst n fz (nth t (unfixed_idxs n fz) 0) = RVar t.
Proof.
  intros V Ht. unfold frozen_subst.
  set (fz' := map (fun kx => (fst kx, RQ (snd kx))) fz).
  set (ps := map RVar (seq 0 (n - length fz))).
  set (u := nth t (unfixed_idxs n fz) 0).
  assert (EU : unfixed_idxs n fz' = unfixed_idxs n fz).
  { unfold unfixed_idxs, fz'. apply filter_ext. intros i. rewrite existsb_map'. reflexivity. }
  pose proof (full_params_free rexpr (RVar u) n fz' ps (frozen_valid_map n fz V)) as F.
  assert (PL : length ps = n - length fz') by (unfold ps, fz'; rewrite !map_length, seq_length; reflexivity).
  specialize (F PL). rewrite EU in F.
  assert (LU : length (unfixed_idxs n fz) = n - length fz).
  { apply (f_equal (@length rexpr)) in F. rewrite map_length in F. rewrite F. unfold ps.
    rewrite map_length, seq_length. reflexivity. }
  apply (f_equal (fun l => nth t l (RVar u))) in F.
  rewrite (nth_indep _ (RVar u) (nth 0 (full_params fz' ps) (RVar u))) in F by (rewrite map_length; lia).
  change (nth 0 (full_params fz' ps) (RVar u)) with ((fun v => nth v (full_params fz' ps) (RVar u)) 0) in F.
  rewrite map_nth in F. fold u in F. rewrite F. unfold ps.
  rewrite (nth_indep _ (RVar u) (RVar 0)) by (rewrite map_length, seq_length; lia).
  change (RVar 0) with (RVar 0). rewrite map_nth, seq_nth by lia. reflexivity.
Qed.

(* ---- EmbeddedGate ------------------------------------------------------------------ *)
(* decidable side condition: the level maps induce an injection of the gate's basis states
   into the basis states of the larger system *)
Definition inj_range_b (gdim n : nat) (tgt : nat -> nat) : bool :=
  forallb (fun a => Nat.ltb (tgt a) n
                    && forallb (fun b => implb (Nat.eqb (tgt a) (tgt b)) (Nat.eqb a b)) (seq 0 gdim))
          (seq 0 gdim).
Lemma inj_range_b_sound gdim n tgt : inj_range_b gdim n tgt = true ->
  (forall a b, a < gdim -> b < gdim -> tgt a = tgt b -> a = b) /\ (forall k, k < gdim -> tgt k < n).
Proof.
  unfold inj_range_b. intros H. rewrite forallb_forall in H. split.
  - intros a b Ha Hb E. specialize (H a). rewrite in_seq in H. specialize (H ltac:(lia)).
    apply andb_prop in H. destruct H as [_ H]. rewrite forallb_forall in H.
    specialize (H b). rewrite in_seq in H. specialize (H ltac:(lia)).
    rewrite E, Nat.eqb_refl in H. simpl in H. apply Nat.eqb_eq in H. exact H.
  - intros k Hk. specialize (H k). rewrite in_seq in H. specialize (H ltac:(lia)).
    apply andb_prop in H. destruct H as [H _]. apply Nat.ltb_lt in H. exact H.
Qed.

Theorem Cembedded_unitary gdim n tgt U :
  (forall a b, a < gdim -> b < gdim -> tgt a = tgt b -> a = b) -> (forall k, k < gdim -> tgt k < n) ->
  Cunitary gdim U -> Cunitary n (map_matrix gdim tgt U Cid).
Proof. intros Hi Hr HU. unfold Cunitary, Cid. eapply embedded_unitary; cinst. Qed.

(* EmbeddedGate(gate, radixes, level_maps).get_unitary for concrete radixes and level maps *)
Theorem Cembedded_gate_unitary gate_rx big_rx maps U :
  inj_range_b (fold_right Nat.mul 1 gate_rx) (fold_right Nat.mul 1 big_rx) (emb_target gate_rx big_rx maps) = true ->
  Cunitary (fold_right Nat.mul 1 gate_rx) U ->
  Cunitary (fold_right Nat.mul 1 big_rx) (embedded C0 C1 gate_rx big_rx maps U).
Proof.
  intros H HU. destruct (inj_range_b_sound _ _ _ H) as [Hi Hr].
  unfold embedded. apply Cembedded_unitary; auto.
Qed.

Lemma meval_embedded rho gate_rx big_rx maps U :
  meval rho (embedded c0 c1 gate_rx big_rx maps U) = embedded C0 C1 gate_rx big_rx maps (meval rho U).
Proof.
  unfold embedded, meval. rewrite (hom_map_matrix _ _ (ceval rho)).
  rewrite (hom_mid _ _ c0 c1 C0 C1 (ceval rho) (c0_sem rho) (c1_sem rho)). reflexivity.
Qed.
