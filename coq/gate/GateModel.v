(* gate/GateModel.v - executable model of "construct a gate, ask for its unitary
   and gradient" for the whole constructor grid: a gate specification [spec]
   (library class + constructor arguments, composed gates nested arbitrarily) is
   mapped to radixes, number of parameters, the symbolic unitary and the symbolic
   gradient.  Extracted (coq/extract/gates.v) and compared with the implementation
   by harness/props/c18.py.  Definitions only. *)
From Coq Require Import Reals QArith ZArith List Bool String Arith.
From BQ Require Import lib.Expr gate.Matrix gate.GateLib gate.Composed.
Import ListNotations.
Local Open Scope nat_scope.

Inductive spec : Type :=
| SFixed (idx : nat)                       (* index into GateLib.fixed_gates *)
| SH (r : nat) | SShift (r : nat) | SClock (r : nat) | SPD (idx r : nat)
| SSwap (r : nat) | SCSUM (r : nat) | SSubSwap (r i j : nat)
| SIdentity (rx : list nat) | SACP (rx : list nat) | SDiag (n : nat)
| SMPRY (n t : nat) | SMPRZ (n t : nat) | SPauliZ (n : nat) | SRSU3 (idx : nat)
| SCKM (fixed : bool) | SCKMdg (fixed : bool)   (* fixed: the gradient of fixes/C18-F1.patch *)
| SControlled (s : spec) (nc : nat) (cr : ctrl_radixes) (cl : ctrl_levels)
| SDagger (s : spec)
| SPower (s : spec) (k : Z)
| SFrozen (s : spec) (fz : list (nat * Q))
| SEmbedded (s : spec) (er : emb_radixes) (em : emb_maps)
| STagged (s : spec).

Record cmodel : Type := mkModel {
  cm_rx : list nat;        (* radixes *)
  cm_np : nat;             (* num_params *)
  cm_U : smat;             (* get_unitary *)
  cm_G : list smat         (* get_grad, one matrix per parameter *)
}.
Definition cm_dim (m : cmodel) : nat := fold_right Nat.mul 1 (cm_rx m).

Definition of_gate (g : gate) : cmodel :=
  mkModel (g_radixes g) (g_nparams g) (g_mat g) (map (g_gradient g) (seq 0 (g_nparams g))).

Definition base_gate (s : spec) : option gate :=
  match s with
  | SFixed i => nth_error fixed_gates i
  | SH r => if Nat.ltb r 2 then None else Some (G_H r)
  | SShift r => if Nat.ltb r 2 then None else Some (G_Shift r)
  | SClock r => if Nat.ltb r 2 then None else Some (G_Clock r)
  | SPD i r => if Nat.ltb r 2 || Nat.leb r i then None else Some (G_PD i r)
  | SSwap r => if Nat.ltb r 2 then None else Some (G_Swap r)
  | SCSUM r => if Nat.ltb r 2 then None else Some (G_CSUM r)
  | SSubSwap r i j => if Nat.ltb r 2 then None else Some (G_SubSwap r i j)
  | SIdentity rx => Some (G_Identity rx)
  | SACP rx => if existsb (fun r => Nat.leb r 1) rx then None else Some (G_ACP rx)
  | SDiag n => Some (G_Diag n)
  | SMPRY n t => Some (G_MPRY n t)
  | SMPRZ n t => Some (G_MPRZ n t)
  | SPauliZ n => Some (G_PauliZ n)
  | SRSU3 i => if Nat.ltb 7 i then None else Some (G_RSU3 i)
  | SCKM fx => Some (if fx then G_CKM_fixed else G_CKM)
  | SCKMdg fx => Some (if fx then G_CKMdg_fixed else G_CKMdg)
  | _ => None
  end.

Definition ssubst (s : nat -> rexpr) (A : smat) : smat := mmap (fun e => csimp (csubst s e)) A.

Fixpoint model_of (s : spec) : option cmodel :=
  match s with
  | SControlled s' nc cr cl =>
    match model_of s' with
    | Some m =>
      match norm_controls nc cr cl with
      | Some (radixes, levels) =>
        let d := cm_dim m in
        let n := fold_right Nat.mul 1 radixes * d in
        Some (mkModel (radixes ++ cm_rx m) (cm_np m)
                (memo c0 n (controlled c0 c1 cadd cmul cneg radixes levels d (cm_U m)))
                (map (fun G => memo c0 n (controlled_grad c0 c1 cmul radixes levels d G)) (cm_G m)))
      | None => None
      end
    | None => None
    end
  | SDagger s' =>
    match model_of s' with
    | Some m => Some (mkModel (cm_rx m) (cm_np m) (dagger cconj (cm_U m)) (map (dagger cconj) (cm_G m)))
    | None => None
    end
  | SPower s' k =>
    match model_of s' with
    | Some m =>
      let n := cm_dim m in
      Some (mkModel (cm_rx m) (cm_np m)
              (memo c0 n (power_unitary c0 c1 cadd cmul cconj n (cm_U m) k))
              (map (memo c0 n) (power_grads c0 c1 cadd cmul cconj n (cm_U m) (cm_G m) k)))
    | None => None
    end
  | SFrozen s' fz =>
    match model_of s' with
    | Some m =>
      let n := cm_np m in
      if frozen_valid n fz then
        let m' := n - List.length fz in
        let full := full_params (map (fun kx => (fst kx, RQ (snd kx))) fz) (map RVar (seq 0 m')) in
        let sg := fun k => nth k full (RVar k) in
        Some (mkModel (cm_rx m) m' (ssubst sg (cm_U m))
                (map (fun i => ssubst sg (nth i (cm_G m) (mzero c0))) (unfixed_idxs n fz)))
      else None
    | None => None
    end
  | SEmbedded s' er em =>
    match model_of s' with
    | Some m =>
      match norm_embedded (cm_rx m) er em with
      | Some (big_rx, maps) =>
        let n := fold_right Nat.mul 1 big_rx in
        Some (mkModel big_rx (cm_np m)
                (memo c0 n (embedded c0 c1 (cm_rx m) big_rx maps (cm_U m)))
                (map (fun G => memo c0 n (embedded_grad c0 (cm_rx m) big_rx maps G)) (cm_G m)))
      | None => None
      end
    | None => None
    end
  | STagged s' => model_of s'
  | _ => match base_gate s with Some g => Some (of_gate g) | None => None end
  end.

(* what the driver prints *)
Definition print_model (m : cmodel) : string * list string :=
  (print_mat (to_list (cm_dim m) (cm_U m)), map (fun G => print_mat (to_list (cm_dim m) G)) (cm_G m)).
Definition fixed_names : list string := map g_name fixed_gates.
