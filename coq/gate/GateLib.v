(* gate/GateLib.v - the BQSKit gate library transcribed as matrices of [cexpr]
   (bqskit/ir/gates/constant/*.py, parameterized/*.py at the pinned commit).
   Definitions only.  For every class:
     g_mat   what get_unitary computes (the numpy override when the class has one,
             otherwise the openqudit expression `_expr`);
     g_expr  the `_expr` (QGL) backend when the class ALSO overrides get_unitary:
             it is what the default Gate.get_grad differentiates;
     g_grad  the hand-written get_grad when the class has one;
     g_inv   get_inverse_params when overridden.
   `params[k]` is [RVar k].  Divisions by constants are written as multiplication by
   the exact rational (x/2 = x*(1/2), 1/sqrt(2) = sqrt(2)*(1/2)).  *)
From Coq Require Import Reals QArith ZArith List Bool String Arith.
From Coquelicot Require Import Coquelicot.
From BQ Require Import lib.Expr gate.Matrix.
Import ListNotations.
Local Open Scope nat_scope.

(* ---- the two instances of gate/Matrix.v --------------------------------- *)
Definition c0 : cexpr := CR (RQ 0%Q).
Definition c1 : cexpr := CR (RQ 1%Q).
Definition smat : Type := mat cexpr.
Definition smul (n : nat) : smat -> smat -> smat := mmul c0 cadd cmul n.
Definition sid : smat := mid c0 c1.
Definition sadj : smat -> smat := madj cconj.
Definition skron (db : nat) : smat -> smat -> smat := kron cmul db.
Definition sadd : smat -> smat -> smat := madd cadd.
Definition M (l : list (list cexpr)) : smat := of_list c0 l.
Definition msubst (s : nat -> rexpr) (A : smat) : smat := mmap (csubst s) A.
Definition mderiv (k : nat) (A : smat) : smat := mmap (fun e => csimp (cderiv k e)) A.

Definition Cmat : Type := mat C.
Definition C0 : C := RtoC 0.
Definition C1 : C := RtoC 1.
Definition Cmmul (n : nat) : Cmat -> Cmat -> Cmat := mmul C0 Cplus Cmult n.
Definition Cid : Cmat := mid C0 C1.
Definition Cadj : Cmat -> Cmat := madj Cconj.
Definition Ckron (db : nat) : Cmat -> Cmat -> Cmat := kron Cmult db.
Definition Cunitary (n : nat) (U : Cmat) : Prop := unitary C0 C1 Cplus Cmult Cconj n U.
Definition meval (rho : env) (A : smat) : Cmat := mmap (ceval rho) A.

(* entry-wise decision of equality for all parameters *)
Definition meqb (n : nat) (A B : smat) : bool :=
  forallb (fun i => forallb (fun j => ceqb (A i j) (B i j)) (seq 0 n)) (seq 0 n).
Definition unitaryb (n : nat) (U : smat) : bool :=
  meqb n (smul n U (sadj U)) sid && meqb n (smul n (sadj U) U) sid.

(* ---- gate descriptions ---------------------------------------------------- *)
Record gate : Type := mkGate {
  g_name : string;
  g_radixes : list nat;
  g_nparams : nat;
  g_mat : smat;
  g_expr : option smat;
  g_grad : option (nat -> smat);
  g_inv : option (list rexpr)
}.
Definition g_dim (g : gate) : nat := fold_right Nat.mul 1 (g_radixes g).
Definition const_gate (name : string) (rx : list nat) (m : smat) : gate :=
  mkGate name rx 0 m None None None.
Definition expr_gate (name : string) (rx : list nat) (np : nat) (m : smat) : gate :=
  mkGate name rx np m None None None.
Definition both_gate (name : string) (rx : list nat) (np : nat) (m e : smat) : gate :=
  mkGate name rx np m (Some e) None None.

(* the matrix the default Gate.get_grad differentiates *)
Definition g_backend (g : gate) : smat := match g_expr g with Some e => e | None => g_mat g end.
(* model of get_grad(params)[k] *)
Definition g_gradient (g : gate) (k : nat) : smat :=
  match g_grad g with Some h => h k | None => mderiv k (g_backend g) end.
(* model of get_inverse_params *)
Definition inv_subst (l : list rexpr) : nat -> rexpr := fun k => nth k l (RVar k).

(* the boolean contract checked (by vm_compute) for every transcribed class *)
Definition gate_ok (g : gate) : bool :=
  let n := g_dim g in
  unitaryb n (g_mat g)
  && match g_expr g with Some e => meqb n e (g_mat g) | None => true end
  && match g_grad g with
     | Some h => forallb (fun k => meqb n (h k) (mmap (cderiv k) (g_mat g))) (seq 0 (g_nparams g))
     | None => true
     end
  && match g_inv g with
     | Some l => Nat.eqb (List.length l) (g_nparams g)
                 && meqb n (smul n (msubst (inv_subst l) (g_mat g)) (g_mat g)) sid
     | None => true
     end.

(* ---- a small DSL mirroring numpy / QGL syntax ----------------------------- *)
Definition rq (n : Z) (d : positive) : rexpr := RQ (n # d).
Definition rn (n : nat) : rexpr := RQ (inject_Z (Z.of_nat n)).
Definition p (k : nat) : rexpr := RVar k.
Definition hlf (e : rexpr) : rexpr := RMul e (RQ (1 # 2)).          (* e / 2 *)
Definition ccos (e : rexpr) : cexpr := CR (RCos e).
Definition csin (e : rexpr) : cexpr := CR (RSin e).
Definition ei (e : rexpr) : cexpr := CCis e.                         (* exp(1j*e), e^(i*e) *)
Definition emi (e : rexpr) : cexpr := CCis (RNeg e).                 (* exp(-1j*e), e^(~i*e) *)
Definition cplx (a b : cexpr) : cexpr := CAdd a (CMul CI b).         (* a + 1j*b *)
Definition mi : cexpr := CNeg CI.                                    (* -1j, ~i *)
Definition cq (n : Z) (d : positive) : cexpr := CR (rq n d).
Definition sq2h : rexpr := RMul (RSqrt 2) (RQ (1 # 2)).              (* sqrt(2)/2, 1/sqrt(2) *)
Declare Scope cx_scope.
Delimit Scope cx_scope with cx.
Infix "*" := CMul : cx_scope.
Infix "+" := CAdd : cx_scope.
Notation "- x" := (CNeg x) : cx_scope.
Notation "a - b" := (CAdd a (CNeg b)) : cx_scope.
Notation "0" := c0 : cx_scope.
Notation "1" := c1 : cx_scope.
(* openqudit Controlled(U) with qubit controls = diag(I,...,I,U) *)
Definition ctl (d : nat) (nc : nat) (U : smat) : smat :=
  let off := (Nat.pow 2 nc - 1) * d in
  fun i j => if (Nat.leb off i && Nat.leb off j)%bool then U (i - off) (j - off)
             else if Nat.eqb i j then c1 else c0.

(* one-qudit generalised gates: openqudit XGate(r) / ZGate(r) / HGate(r) *)
Definition omega_pow (r k : nat) : cexpr :=            (* exp(2 pi i k / r) *)
  ei (RMul RPi (RQ (Z.of_nat (2 * k) # Pos.of_nat r))).
Definition m_shift (r : nat) : smat :=
  fun i j => if Nat.eqb i ((j + 1) mod r) then c1 else c0.
Definition m_clock (r : nat) : smat :=
  fun i j => if Nat.eqb i j then omega_pow r i else c0.
Definition m_H (r : nat) : smat :=
  fun i j => CMul (CR (RMul (RSqrt (Pos.of_nat r)) (RQ (1 # Pos.of_nat r)))) (omega_pow r (i * j)).
(* PDGate(index, radix): diag(1,.., -e^(i*4*index*pi/radix) at index, ..,1) *)
Definition m_PD (idx r : nat) : smat :=
  fun i j => if Nat.eqb i j
             then (if Nat.eqb i idx then CNeg (ei (RMul RPi (RQ (Z.of_nat (4 * idx) # Pos.of_nat r)))) else c1)
             else c0.
(* SwapGate(radix): |a b> -> |b a> *)
Definition m_swap (r : nat) : smat :=
  fun i j => if Nat.eqb i ((j mod r) * r + j / r) then c1 else c0.
(* CSUMGate(radix): row r*a + (a+b) mod r, col r*a + b *)
Definition m_csum (r : nat) : smat :=
  fun i j => if Nat.eqb i (r * (j / r) + (j / r + j mod r) mod r) then c1 else c0.
(* SubSwapGate(radix, "a,b;c,d"): swaps basis states i = a*r+b and j = c*r+d *)
Definition m_subswap (r i0 j0 : nat) : smat :=
  fun i j => if Nat.eqb i i0 then (if Nat.eqb j j0 then c1 else c0)
             else if Nat.eqb i j0 then (if Nat.eqb j i0 then c1 else c0)
             else if Nat.eqb i j then c1 else c0.
(* CPIGate: qutrit controlled-pi, swaps |1 0> and |1 1> *)
Definition m_CPI : smat := m_subswap 3 3 4.


Definition m_RC3X : smat :=
  fun i j => if (Nat.leb 12 i && Nat.leb 12 j)%bool
             then (M [[CI;c0;c0;c0]; [c0;mi;c0;c0]; [c0;c0;c0;c1]; [c0;c0;CNeg c1;c0]]) (i - 12) (j - 12)
             else if Nat.eqb i j then c1 else c0.

Definition m_CCP : smat := fun i j => if Nat.eqb i j then (if Nat.eqb i 7 then ei (p 0) else c1) else c0.

(* ArbitraryCPhaseGate(radixes), DiagonalGate(n) *)
Definition m_ACP (dim : nat) : smat :=
  fun i j => if Nat.eqb i j then (if Nat.eqb (S i) dim then ei (p 0) else c1) else c0.
Definition G_ACP (rx : list nat) :=
  both_gate "ArbitraryCPhaseGate" rx 1 (m_ACP (fold_right Nat.mul 1 rx)) (m_ACP (fold_right Nat.mul 1 rx)).
Definition m_Diag : smat :=
  fun i j => if Nat.eqb i j then (match i with O => c1 | S k => ei (p k) end) else c0.
Definition G_Diag (n : nat) :=
  both_gate "DiagonalGate" (repeat 2 n) (Nat.pow 2 n - 1) m_Diag m_Diag.

(* MPRYGate / MPRZGate (num_qudits, target_qubit): get_indices *)
Definition mp_x1 (index target n : nat) : nat :=
  let shift := Nat.pow 2 (n - target - 1) in
  (index / shift) * (shift * 2) + index mod shift.
Definition mp_x2 (index target n : nat) : nat :=
  mp_x1 index target n + Nat.pow 2 (n - target - 1).
(* the parameter index owning basis state x, and whether x is its x2 *)
Definition mp_owner (x target n : nat) : nat * bool :=
  let shift := Nat.pow 2 (n - target - 1) in
  let hi := x / (shift * 2) in let rest := x mod (shift * 2) in
  (hi * shift + rest mod shift, Nat.leb shift rest).
Definition m_MPRY (n target : nat) : smat :=
  fun i j =>
    let (ki, bi) := mp_owner i target n in let (kj, bj) := mp_owner j target n in
    if Nat.eqb ki kj then
      (if Bool.eqb bi bj then ccos (hlf (p ki))
       else if bi then csin (hlf (p ki)) else CNeg (csin (hlf (p ki))))
    else c0.
Definition m_MPRZ (n target : nat) : smat :=
  fun i j =>
    if Nat.eqb i j then
      (let (k, b) := mp_owner i target n in
       if b then ei (hlf (p k)) else CCis (RMul (RNeg (p k)) (RQ (1 # 2))))
    else c0.
Definition G_MPRY (n t : nat) := both_gate "MPRYGate" (repeat 2 n) (Nat.pow 2 (n - 1)) (m_MPRY n t) (m_MPRY n t).
Definition G_MPRZ (n t : nat) := both_gate "MPRZGate" (repeat 2 n) (Nat.pow 2 (n - 1)) (m_MPRZ n t) (m_MPRZ n t).

(* PauliZGate(n): diag( exp(-i/2 * sum_k (+-)t_k) ), sign = (-1)^popcount(k & d) *)
Fixpoint parity_and (bits : nat) (a b : nat) : bool :=
  match bits with
  | O => false
  | S m => xorb (Nat.odd a && Nat.odd b) (parity_and m (a / 2) (b / 2))
  end.
Fixpoint pz_sum (n d k : nat) : rexpr :=   (* sum_{j<k} sign(j,d) t_j *)
  match k with
  | O => RQ 0%Q
  | S j => RAdd (pz_sum n d j) (if parity_and n j d then RNeg (p j) else p j)
  end.
Definition m_PauliZ (n : nat) : smat :=
  fun i j => if Nat.eqb i j then CCis (RMul (RNeg (pz_sum n i (Nat.pow 2 n))) (RQ (1 # 2))) else c0.
Definition G_PauliZ (n : nat) := expr_gate "PauliZGate" (repeat 2 n) (Nat.pow 2 n) (m_PauliZ n).


Local Open Scope cx_scope.

(* ======================= constant qubit gates ============================ *)
Definition m_X : smat := M [[0; 1]; [1; 0]].
Definition m_Y : smat := M [[0; mi]; [CI; 0]].
Definition m_Z : smat := M [[1; 0]; [0; -(1)]].
Definition m_S : smat := M [[1; 0]; [0; CI]].
Definition m_T : smat := M [[1; 0]; [0; ei (RMul RPi (RQ (1 # 4)))]].
Definition m_SX : smat :=
  M [[cq 1 2 + CI * cq 1 2; cq 1 2 - CI * cq 1 2]; [cq 1 2 - CI * cq 1 2; cq 1 2 + CI * cq 1 2]].
Definition m_SqrtT : smat := M [[1; 0]; [0; ei (RMul RPi (RQ (1 # 8)))]].   (* e^(i*pi/8) *)

Definition m_ISwap : smat := M [[1;0;0;0]; [0;0;CI;0]; [0;CI;0;0]; [0;0;0;1]].
Definition m_SqrtISwap : smat :=
  M [[1;0;0;0]; [0; CR sq2h; CI * CR sq2h; 0]; [0; CI * CR sq2h; CR sq2h; 0]; [0;0;0;1]].
Definition m_SqrtCNOT : smat := ctl 2 1 m_SX.
Definition m_ECR : smat :=
  fun i j => CR sq2h * (M [[0;0;1;CI]; [0;0;CI;1]; [1;mi;0;0]; [mi;1;0;0]]) i j.
Definition pi8 : rexpr := RMul RPi (RQ (1 # 8)).
Definition m_B : smat :=
  M [[ccos pi8; 0; 0; CI * csin pi8]; [0; csin pi8; CI * ccos pi8; 0];
     [0; CI * ccos pi8; csin pi8; 0]; [CI * csin pi8; 0; 0; ccos pi8]].
Definition m_Sycamore : smat :=
  M [[1;0;0;0]; [0;0;mi;0]; [0;mi;0;0]; [0;0;0; emi (RMul RPi (RQ (1 # 6)))]].
Definition s22 : cexpr := CR sq2h.
Definition m_XX : smat :=
  M [[s22;0;0;mi*s22]; [0;s22;mi*s22;0]; [0;mi*s22;s22;0]; [mi*s22;0;0;s22]].
Definition m_YY : smat :=
  M [[s22;0;0;CI*s22]; [0;s22;mi*s22;0]; [0;mi*s22;s22;0]; [CI*s22;0;0;s22]].
Definition m_ZZ : smat :=
  M [[s22 - CI*s22;0;0;0]; [0;s22 + CI*s22;0;0]; [0;0;s22 + CI*s22;0]; [0;0;0;s22 - CI*s22]].
Definition m_RCCX : smat :=
  M [[1;0;0;0;0;0;0;0]; [0;1;0;0;0;0;0;0]; [0;0;1;0;0;0;0;0]; [0;0;0;1;0;0;0;0];
     [0;0;0;0;1;0;0;0]; [0;0;0;0;0;-(1);0;0]; [0;0;0;0;0;0;0;mi]; [0;0;0;0;0;0;CI;0]].
Definition m_iX : smat := M [[0; CI]; [CI; 0]].

Definition G_X := const_gate "XGate" [2] m_X.
Definition G_Y := const_gate "YGate" [2] m_Y.
Definition G_Z := const_gate "ZGate" [2] m_Z.
Definition G_S := const_gate "SGate" [2] m_S.
Definition G_Sdg := const_gate "SdgGate" [2] (sadj m_S).
Definition G_T := const_gate "TGate" [2] m_T.
Definition G_Tdg := const_gate "TdgGate" [2] (sadj m_T).
Definition G_SX := const_gate "SqrtXGate" [2] m_SX.
Definition G_SXdg := const_gate "SqrtXdgGate" [2] (sadj m_SX).
Definition G_SqrtT := const_gate "SqrtTGate" [2] m_SqrtT.
Definition G_CX := const_gate "CNOTGate" [2;2] (ctl 2 1 m_X).
Definition G_CY := const_gate "CYGate" [2;2] (ctl 2 1 m_Y).
Definition G_CZ := const_gate "CZGate" [2;2] (ctl 2 1 m_Z).
Definition G_CH := const_gate "CHGate" [2;2] (ctl 2 1 (m_H 2)).
Definition G_CS := const_gate "CSGate" [2;2] (ctl 2 1 m_S).
Definition G_CT := const_gate "CTGate" [2;2] (ctl 2 1 m_T).
Definition G_CCX := const_gate "CCXGate" [2;2;2] (ctl 2 2 m_X).
Definition G_IToffoli := const_gate "IToffoliGate" [2;2;2] (ctl 2 2 m_iX).
Definition G_ISwap := const_gate "ISwapGate" [2;2] m_ISwap.
Definition G_SqrtISwap := const_gate "SqrtISwapGate" [2;2] m_SqrtISwap.
Definition G_SqrtCNOT := const_gate "SqrtCNOTGate" [2;2] m_SqrtCNOT.
Definition G_ECR := const_gate "ECRGate" [2;2] m_ECR.
Definition G_B := const_gate "BGate" [2;2] m_B.
Definition G_Sycamore := const_gate "SycamoreGate" [2;2] m_Sycamore.
Definition G_XX := const_gate "XXGate" [2;2] m_XX.
Definition G_YY := const_gate "YYGate" [2;2] m_YY.
Definition G_ZZ := const_gate "ZZGate" [2;2] m_ZZ.
Definition G_RCCX := const_gate "RCCXGate" [2;2;2] m_RCCX.
Definition G_RC3X := const_gate "RC3XGate" [2;2;2;2] m_RC3X.
Definition G_CPI := const_gate "CPIGate" [3;3] m_CPI.
(* constructor-parameterised constant gates *)
Definition G_H (r : nat) := const_gate "HGate" [r] (m_H r).
Definition G_Shift (r : nat) := const_gate "ShiftGate" [r] (m_shift r).
Definition G_Clock (r : nat) := const_gate "ClockGate" [r] (m_clock r).
Definition G_PD (idx r : nat) := const_gate "PDGate" [r] (m_PD idx r).
Definition G_Swap (r : nat) := const_gate "SwapGate" [r; r] (m_swap r).
Definition G_CSUM (r : nat) := const_gate "CSUMGate" [r; r] (m_csum r).
Definition G_SubSwap (r i0 j0 : nat) := const_gate "SubSwapGate" [r; r] (m_subswap r i0 j0).
Definition G_Identity (rx : list nat) := const_gate "IdentityGate" rx sid.

(* ======================= parameterised gates ============================= *)
(* --- openqudit built-ins (docstring matrices) --- *)
Definition m_RX : smat :=
  M [[ccos (hlf (p 0)); mi * csin (hlf (p 0))]; [mi * csin (hlf (p 0)); ccos (hlf (p 0))]].
Definition m_RY : smat :=
  M [[ccos (hlf (p 0)); - csin (hlf (p 0))]; [csin (hlf (p 0)); ccos (hlf (p 0))]].
Definition m_RZ : smat := M [[emi (hlf (p 0)); 0]; [0; ei (hlf (p 0))]].
Definition m_U1 : smat := M [[1; 0]; [0; ei (p 0)]].
Definition m_RXX : smat :=
  let c := ccos (hlf (p 0)) in let s := mi * csin (hlf (p 0)) in
  M [[c;0;0;s]; [0;c;s;0]; [0;s;c;0]; [s;0;0;c]].
Definition m_RYY : smat :=
  let c := ccos (hlf (p 0)) in let s := mi * csin (hlf (p 0)) in let t := CI * csin (hlf (p 0)) in
  M [[c;0;0;t]; [0;c;s;0]; [0;s;c;0]; [t;0;0;c]].
Definition m_RZZ : smat :=
  let n := emi (hlf (p 0)) in let q := ei (hlf (p 0)) in
  M [[n;0;0;0]; [0;q;0;0]; [0;0;q;0]; [0;0;0;n]].

Definition G_RX := expr_gate "RXGate" [2] 1 m_RX.
Definition G_RY := expr_gate "RYGate" [2] 1 m_RY.
Definition G_RZ := expr_gate "RZGate" [2] 1 m_RZ.
Definition G_U1 := expr_gate "U1Gate" [2] 1 m_U1.
Definition G_RXX := expr_gate "RXXGate" [2;2] 1 m_RXX.
Definition G_RYY := expr_gate "RYYGate" [2;2] 1 m_RYY.
Definition G_RZZ := expr_gate "RZZGate" [2;2] 1 m_RZZ.

(* --- U3Gate: numpy get_unitary, hand-written get_grad, get_inverse_params --- *)
Definition u3_ct := ccos (hlf (p 0)).
Definition u3_st := csin (hlf (p 0)).
Definition u3_ep := cplx (ccos (p 1)) (csin (p 1)).
Definition u3_el := cplx (ccos (p 2)) (csin (p 2)).
Definition u3_dep := cplx (- csin (p 1)) (ccos (p 1)).
Definition u3_del := cplx (- csin (p 2)) (ccos (p 2)).
Definition m_U3 : smat :=
  M [[u3_ct; - u3_el * u3_st]; [u3_ep * u3_st; u3_ep * u3_el * u3_ct]].
Definition mh := cq (-1) 2.
Definition ph := cq 1 2.
Definition g_U3 (k : nat) : smat :=
  match k with
  | 0 => M [[mh * u3_st; mh * u3_ct * u3_el]; [ph * u3_ct * u3_ep; mh * u3_st * u3_el * u3_ep]]
  | 1 => M [[0; 0]; [u3_st * u3_dep; u3_ct * u3_el * u3_dep]]
  | _ => M [[0; - u3_st * u3_del]; [0; u3_ct * u3_ep * u3_del]]
  end.
Definition G_U3 := mkGate "U3Gate" [2] 3 m_U3 None (Some g_U3)
  (Some [RNeg (p 0); RNeg (p 2); RNeg (p 1)]).

(* --- U2Gate: numpy get_unitary and hand-written get_grad --- *)
Definition u2_s := CR sq2h.
Definition u2_eip := ei (p 0).
Definition u2_eil := ei (p 1).
Definition m_U2 : smat := M [[u2_s; - u2_eil * u2_s]; [u2_eip * u2_s; u2_eip * u2_eil * u2_s]].
Definition g_U2 (k : nat) : smat :=
  match k with
  | 0 => M [[0; 0]; [(CI * u2_eip) * u2_s; (CI * u2_eip) * u2_eil * u2_s]]
  | _ => M [[0; - (CI * u2_eil) * u2_s]; [0; u2_eip * (CI * u2_eil) * u2_s]]
  end.
Definition G_U2 := mkGate "U2Gate" [2] 2 m_U2 None (Some g_U2) None.

(* --- U1qGate: QGL expression + numpy override --- *)
Definition m_U1q_np : smat :=
  let ct := ccos (hlf (p 0)) in let st := csin (hlf (p 0)) in
  M [[ct; mi * emi (p 1) * st]; [mi * ei (p 1) * st; ct]].
Definition m_U1q_ex : smat :=
  M [[ccos (hlf (p 0)); mi * emi (p 1) * csin (hlf (p 0))];
     [mi * ei (p 1) * csin (hlf (p 0)); ccos (hlf (p 0))]].
Definition G_U1q := both_gate "U1qGate" [2] 2 m_U1q_np m_U1q_ex.

(* --- controlled rotations, phases: QGL expression + numpy override --- *)
Definition blk2 (a b c d : cexpr) : smat := M [[1;0;0;0]; [0;1;0;0]; [0;0;a;b]; [0;0;c;d]].
Definition m_CRX_np : smat :=
  let c := ccos (hlf (p 0)) in let s := mi * csin (hlf (p 0)) in blk2 c s s c.
Definition m_CRX_ex : smat :=
  blk2 (ccos (hlf (p 0))) (mi * csin (hlf (p 0))) (mi * csin (hlf (p 0))) (ccos (hlf (p 0))).
Definition m_CRY_np : smat :=
  let c := ccos (hlf (p 0)) in let s := csin (hlf (p 0)) in blk2 c (- s) s c.
Definition m_CRY_ex : smat :=
  blk2 (ccos (hlf (p 0))) (- csin (hlf (p 0))) (csin (hlf (p 0))) (ccos (hlf (p 0))).
Definition m_CRZ_np : smat := blk2 (CCis (RMul (RNeg (p 0)) (RQ (1 # 2)))) 0 0 (ei (hlf (p 0))).
Definition m_CRZ_ex : smat := blk2 (CCis (RMul (RNeg (p 0)) (RQ (1 # 2)))) 0 0 (ei (hlf (p 0))).
Definition m_CP : smat := blk2 1 0 0 (ei (p 0)).
Definition G_CRX := both_gate "CRXGate" [2;2] 1 m_CRX_np m_CRX_ex.
Definition G_CRY := both_gate "CRYGate" [2;2] 1 m_CRY_np m_CRY_ex.
Definition G_CRZ := both_gate "CRZGate" [2;2] 1 m_CRZ_np m_CRZ_ex.
Definition G_CP := both_gate "CPGate" [2;2] 1 m_CP m_CP.
Definition G_CCP := both_gate "CCPGate" [2;2;2] 1 m_CCP m_CCP.

(* CUGate *)
Definition m_CU_np : smat :=
  let ct := ccos (hlf (p 0)) in let st := csin (hlf (p 0)) in
  let ep := cplx (ccos (p 1)) (csin (p 1)) in
  let el := cplx (ccos (p 2)) (csin (p 2)) in
  let eg := cplx (ccos (p 3)) (csin (p 3)) in
  blk2 (eg * ct) (- eg * el * st) (eg * ep * st) (eg * ep * el * ct).
Definition m_CU_ex : smat :=
  blk2 (ei (p 3) * ccos (hlf (p 0)))
       (- ei (RAdd (p 3) (p 2)) * csin (hlf (p 0)))
       (ei (RAdd (p 3) (p 1)) * csin (hlf (p 0)))
       (ei (RAdd (RAdd (p 3) (p 1)) (p 2)) * ccos (hlf (p 0))).
Definition G_CU := both_gate "CUGate" [2;2] 4 m_CU_np m_CU_ex.

(* FSIMGate *)
Definition m_FSIM_np : smat :=
  let c := ccos (p 0) in let s := mi * csin (p 0) in
  M [[1;0;0;0]; [0;c;s;0]; [0;s;c;0]; [0;0;0; emi (p 1)]].
Definition m_FSIM_ex : smat :=
  M [[1;0;0;0]; [0; ccos (p 0); mi * csin (p 0); 0]; [0; mi * csin (p 0); ccos (p 0); 0];
     [0;0;0; emi (p 1)]].
Definition G_FSIM := both_gate "FSIMGate" [2;2] 2 m_FSIM_np m_FSIM_ex.

(* PhasedXZGate: x = p0, z = p1, a = p2 *)
Definition pxz_h : rexpr := RMul (RMul RPi (p 0)) (RQ (1 # 2)).            (* pi*x/2 *)
Definition m_PXZ_np : smat :=
  let c := ccos pxz_h in let s := mi * csin pxz_h in
  let e1 := ei pxz_h in
  let e2 := ei (RMul RPi (RAdd (hlf (p 0)) (RNeg (p 2)))) in
  let e3 := ei (RMul RPi (RAdd (RAdd (hlf (p 0)) (p 1)) (p 2))) in
  let e4 := ei (RMul RPi (RAdd (hlf (p 0)) (p 1))) in
  M [[e1 * c; e2 * s]; [e3 * s; e4 * c]].
Definition m_PXZ_ex : smat :=
  M [[ei pxz_h * ccos pxz_h;
      ei (RMul RPi (RAdd (hlf (p 0)) (RNeg (p 2)))) * (mi * csin pxz_h)];
     [ei (RMul RPi (RAdd (RAdd (hlf (p 0)) (p 1)) (p 2))) * (mi * csin pxz_h);
      ei (RMul RPi (RAdd (hlf (p 0)) (p 1))) * ccos pxz_h]].
Definition G_PXZ := both_gate "PhasedXZGate" [2] 3 m_PXZ_np m_PXZ_ex.

(* RSU3Gate(index) *)
Definition s3i : rexpr := RMul (RSqrt 3) (RQ (1 # 3)).      (* 1/sqrt(3) *)
Definition m_RSU3 (idx : nat) : smat :=
  let c := ccos (p 0) in let s := csin (p 0) in let js := mi * csin (p 0) in
  match idx with
  | 0 => M [[c; js; 0]; [js; c; 0]; [0; 0; 1]]
  | 1 => M [[c; - s; 0]; [s; c; 0]; [0; 0; 1]]
  | 2 => M [[emi (p 0); 0; 0]; [0; ei (p 0); 0]; [0; 0; 1]]
  | 3 => M [[c; 0; js]; [0; 1; 0]; [js; 0; c]]
  | 4 => M [[c; 0; - s]; [0; 1; 0]; [s; 0; c]]
  | 5 => M [[1; 0; 0]; [0; c; js]; [0; js; c]]
  | 6 => M [[1; 0; 0]; [0; c; - s]; [0; s; c]]
  | _ => M [[emi (RMul (p 0) s3i); 0; 0]; [0; emi (RMul (p 0) s3i); 0];
            [0; 0; ei (RMul (RMul (RQ 2) (p 0)) s3i)]]
  end.
Definition G_RSU3 (idx : nat) := both_gate "RSU3Gate" [3] 1 (m_RSU3 idx) (m_RSU3 idx).

(* CKMGate / CKMdgGate: product u1 @ u2 @ u3 and the hand-written gradient *)
Section CKM.
  Variable neg : bool.        (* CKMdg uses sin(-p), cos(-p), exp(-/+ i p3) *)
  Definition a_ (k : nat) : rexpr := if neg then RNeg (p k) else p k.
  Definition s1 := csin (a_ 0). Definition k1 := ccos (a_ 0).
  Definition s2 := csin (a_ 1). Definition k2 := ccos (a_ 1).
  Definition s3 := csin (a_ 2). Definition k3 := ccos (a_ 2).
  Definition p1 := if neg then emi (p 3) else ei (p 3).
  Definition m1 := if neg then ei (p 3) else emi (p 3).
  Definition ck_u1 : smat := M [[1;0;0]; [0;k3;s3]; [0; - s3; k3]].
  Definition ck_u2 : smat := M [[k1;0;s1*m1]; [0;1;0]; [- s1 * p1; 0; k1]].
  Definition ck_u3 : smat := M [[k2;s2;0]; [- s2; k2; 0]; [0;0;1]].
  Definition ck_u1p : smat := M [[0;0;0]; [0; - s3; k3]; [0; - k3; - s3]].
  Definition ck_u2p1 : smat := M [[- s1; 0; k1*m1]; [0;0;0]; [- k1 * m1; 0; s1]].
  Definition ck_u2p2 : smat := M [[0;0; mi * s1 * m1]; [0;0;0]; [mi * s1 * p1; 0; 0]].
  Definition ck_u3p : smat := M [[s2;k2;0]; [- k2; - s2; 0]; [0;0;0]].
  Definition m_CKM : smat := smul 3 (smul 3 ck_u1 ck_u2) ck_u3.
  Definition g_CKM (k : nat) : smat :=
    match k with
    | 0 => smul 3 (smul 3 ck_u1 ck_u2p1) ck_u3
    | 1 => smul 3 (smul 3 ck_u1 ck_u2) ck_u3p
    | 2 => smul 3 (smul 3 ck_u1p ck_u2) ck_u3
    | _ => smul 3 (smul 3 ck_u1 ck_u2p2) ck_u3
    end.
  (* the repaired gradient proposed in fixes/C18-F1.patch: correct derivative matrices, and
     for CKMdg the chain-rule sign of sin(-p), cos(-p), exp(-/+ i p3) *)
  Definition sg (x : cexpr) : cexpr := if neg then - x else x.
  Definition fx_u1p : smat := M [[0;0;0]; [0; sg (- s3); sg k3]; [0; sg (- k3); sg (- s3)]].
  Definition fx_u2p1 : smat := M [[sg (- s1); 0; sg (k1*m1)]; [0;0;0]; [sg (- k1 * p1); 0; sg (- s1)]].
  Definition fx_u2p2 : smat := M [[0;0; sg (mi * s1 * m1)]; [0;0;0]; [sg (mi * s1 * p1); 0; 0]].
  Definition fx_u3p : smat := M [[sg (- s2); sg k2; 0]; [sg (- k2); sg (- s2); 0]; [0;0;0]].
  Definition g_CKM_fixed (k : nat) : smat :=
    match k with
    | 0 => smul 3 (smul 3 ck_u1 fx_u2p1) ck_u3
    | 1 => smul 3 (smul 3 ck_u1 ck_u2) fx_u3p
    | 2 => smul 3 (smul 3 fx_u1p ck_u2) ck_u3
    | _ => smul 3 (smul 3 ck_u1 fx_u2p2) ck_u3
    end.
End CKM.
Definition G_CKM := mkGate "CKMGate" [3] 4 (m_CKM false) None (Some (g_CKM false)) None.
Definition G_CKMdg := mkGate "CKMdgGate" [3] 4 (m_CKM true) None (Some (g_CKM true)) None.
Definition G_CKM_fixed := mkGate "CKMGate" [3] 4 (m_CKM false) None (Some (g_CKM_fixed false)) None.
Definition G_CKMdg_fixed := mkGate "CKMdgGate" [3] 4 (m_CKM true) None (Some (g_CKM_fixed true)) None.

(* U8Gate: QGL expression + numpy override (the same formula) *)
Definition m_U8 : smat :=
  let s1 := csin (p 0) in let k1 := ccos (p 0) in
  let s2 := csin (p 1) in let k2 := ccos (p 1) in
  let s3 := csin (p 2) in let k3 := ccos (p 2) in
  let p1 := ei (p 3) in let m1 := emi (p 3) in
  let p2 := ei (p 4) in let m2 := emi (p 4) in
  let p3 := ei (p 5) in let m3 := emi (p 5) in
  let p4 := ei (p 6) in let m4 := emi (p 6) in
  let p5 := ei (p 7) in let m5 := emi (p 7) in
  M [[k1 * k2 * p1; s1 * p3; k1 * s2 * p4];
     [s2 * s3 * m4 * m5 - s1 * k2 * k3 * p1 * p2 * m3; k1 * k3 * p2;
      - k2 * s3 * m1 * m5 - s1 * s2 * k3 * p2 * m3 * p4];
     [- s1 * k2 * s3 * p1 * m3 * p5 - s2 * k3 * m2 * m4; k1 * s3 * p5;
      k2 * k3 * m1 * m2 - s1 * s2 * s3 * m3 * p4 * p5]].
Definition G_U8 := both_gate "U8Gate" [3] 8 m_U8 m_U8.

Local Close Scope cx_scope.
(* ---- the table of fixed classes and of the constructor grid -------------- *)
Definition fixed_gates : list gate :=
  [G_X; G_Y; G_Z; G_S; G_Sdg; G_T; G_Tdg; G_SX; G_SXdg; G_SqrtT;
   G_CX; G_CY; G_CZ; G_CH; G_CS; G_CT; G_CCX; G_IToffoli;
   G_ISwap; G_SqrtISwap; G_SqrtCNOT; G_ECR; G_B; G_Sycamore; G_XX; G_YY; G_ZZ;
   G_RCCX; G_RC3X; G_CPI;
   G_RX; G_RY; G_RZ; G_U1; G_RXX; G_RYY; G_RZZ; G_U3; G_U2; G_U1q;
   G_CRX; G_CRY; G_CRZ; G_CP; G_CCP; G_CU; G_FSIM; G_PXZ; G_U8].

Definition grid_gates : list gate :=
  map G_H [2; 3; 4; 6] ++ map G_Shift [2; 3; 4; 5] ++ map G_Clock [2; 3; 4; 5]
  ++ map G_Swap [2; 3; 4] ++ map G_CSUM [2; 3; 4]
  ++ [G_PD 0 2; G_PD 1 2; G_PD 0 3; G_PD 1 3; G_PD 2 3; G_PD 1 4; G_PD 3 5]
  ++ [G_SubSwap 2 1 2; G_SubSwap 3 1 3; G_SubSwap 3 2 7; G_SubSwap 4 5 10]
  ++ map G_Identity [[2]; [3]; [2;2]; [2;3]; [3;2;2]]
  ++ map G_ACP [[2;2]; [2;3]; [3;3]; [2;2;2]; [4;2]; [5]]
  ++ map G_Diag [1; 2; 3]
  ++ [G_MPRY 1 0; G_MPRY 2 0; G_MPRY 2 1; G_MPRY 3 0; G_MPRY 3 1; G_MPRY 3 2]
  ++ [G_MPRZ 1 0; G_MPRZ 2 0; G_MPRZ 2 1; G_MPRZ 3 0; G_MPRZ 3 1; G_MPRZ 3 2]
  ++ map G_PauliZ [1; 2; 3]
  ++ map G_RSU3 [0; 1; 2; 3; 4; 5; 6; 7].
