(* gate/Matrix.v - square matrices over an abstract ring with conjugation, as
   functions  row -> column -> entry  (indices >= n are never read by a product
   of dimension n).  Definitions only; laws in gate/MatrixThm.v.
   Instantiated (i) with syntactic entries [cexpr] (executable, extracted, printed
   for the correspondence) and (ii) with Coquelicot's C (the meaning). *)
From Coq Require Import List Arith Bool PeanoNat.
Import ListNotations.

Section Mat.
  Variable T : Type.
  Variables (t0 t1 : T) (tadd tmul : T -> T -> T) (topp : T -> T) (tconj : T -> T).

  Definition mat : Type := nat -> nat -> T.

  (* sum_{k<n} f k *)
  Fixpoint sum (n : nat) (f : nat -> T) : T :=
    match n with O => t0 | S k => tadd (sum k f) (f k) end.

  Definition mmul (n : nat) (A B : mat) : mat :=
    fun i j => sum n (fun k => tmul (A i k) (B k j)).
  Definition mid : mat := fun i j => if Nat.eqb i j then t1 else t0.
  Definition mzero : mat := fun _ _ => t0.
  Definition madd (A B : mat) : mat := fun i j => tadd (A i j) (B i j).
  Definition msub (A B : mat) : mat := fun i j => tadd (A i j) (topp (B i j)).
  Definition mopp (A : mat) : mat := fun i j => topp (A i j).
  Definition mtrans (A : mat) : mat := fun i j => A j i.
  Definition madj (A : mat) : mat := fun i j => tconj (A j i).
  (* numpy.kron(A, B) with B of dimension db *)
  Definition kron (db : nat) (A B : mat) : mat :=
    fun i j => tmul (A (i / db) (j / db)) (B (i mod db) (j mod db)).
  Definition diag01 (p : nat -> bool) : mat :=
    fun i j => if Nat.eqb i j && p i then t1 else t0.

  Definition of_list (l : list (list T)) : mat := fun i j => nth j (nth i l []) t0.
  Definition to_list (n : nat) (A : mat) : list (list T) :=
    map (fun i => map (fun j => A i j) (seq 0 n)) (seq 0 n).
  (* force evaluation once (semantically the identity on the n x n block) *)
  Definition memo (n : nat) (A : mat) : mat := of_list (to_list n A).

  Definition meq (n : nat) (A B : mat) : Prop :=
    forall i j, i < n -> j < n -> A i j = B i j.
  Definition unitary (n : nat) (U : mat) : Prop :=
    meq n (mmul n U (madj U)) mid /\ meq n (mmul n (madj U) U) mid.

  (* naive power *)
  Fixpoint mpow (n : nat) (U : mat) (k : nat) : mat :=
    match k with O => mid | S k' => mmul n U (mpow n U k') end.
End Mat.

Arguments mat T : clear implicits.
Arguments sum {T} t0 tadd n f.
Arguments mmul {T} t0 tadd tmul n A B i j.
Arguments mid {T} t0 t1 i j.
Arguments mzero {T} t0 _ _.
Arguments madd {T} tadd A B i j.
Arguments msub {T} tadd topp A B i j.
Arguments mopp {T} topp A i j.
Arguments mtrans {T} A i j.
Arguments madj {T} tconj A i j.
Arguments kron {T} tmul db A B i j.
Arguments diag01 {T} t0 t1 p i j.
Arguments of_list {T} t0 l i j.
Arguments to_list {T} n A.
Arguments memo {T} t0 n A i j.
Arguments meq {T} n A B.
Arguments unitary {T} t0 t1 tadd tmul tconj n U.
Arguments mpow {T} t0 t1 tadd tmul n U k i j.

Definition mmap {T T'} (f : T -> T') (A : mat T) : mat T' := fun i j => f (A i j).
