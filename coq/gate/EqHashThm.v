(* gate/EqHashThm.v - theorems about the CachedClass model (gate/EqHash.v). *)
From Coq Require Import List Arith Bool ZArith PeanoNat Lia.
From BQ Require Import gate.EqHash.
Import ListNotations.

Lemma pyval_eqb_eq : forall a b, pyval_eqb a b = true -> a = b.
Proof.
  fix IH 1. intros a b. destruct a; destruct b; simpl; try discriminate; intros H.
  - apply Z.eqb_eq in H; subst; reflexivity.
  - apply Nat.eqb_eq in H; subst; reflexivity.
  - reflexivity.
  - f_equal. revert l0 H. induction l as [|x t IHt]; intros [|y t'] H; try discriminate; auto.
    apply andb_prop in H. destruct H as [H1 H2]. f_equal; [apply IH; exact H1 | apply IHt; exact H2].
  - f_equal. revert l0 H. induction l as [|x t IHt]; intros [|y t'] H; try discriminate; auto.
    apply andb_prop in H. destruct H as [H1 H2]. f_equal; [apply IH; exact H1 | apply IHt; exact H2].
Qed.
Lemma pyval_eqb_refl : forall a, pyval_eqb a a = true.
Proof.
  fix IH 1. intros a. destruct a; simpl.
  - apply Z.eqb_refl.
  - apply Nat.eqb_refl.
  - reflexivity.
  - induction l as [|x t IHt]; auto. rewrite IH, IHt. reflexivity.
  - induction l as [|x t IHt]; auto. rewrite IH, IHt. reflexivity.
Qed.
Lemma args_eqb_eq : forall x y, args_eqb x y = true -> x = y.
Proof. induction x as [|p x IH]; intros [|q y] H; simpl in H; try discriminate; auto.
  apply andb_prop in H. destruct H as [H1 H2]. f_equal; [apply pyval_eqb_eq; auto | apply IH; auto]. Qed.
Lemma args_eqb_refl : forall x, args_eqb x x = true.
Proof. induction x; simpl; auto. rewrite pyval_eqb_refl, IHx. reflexivity. Qed.
Lemma kwargs_eqb_eq : forall x y, kwargs_eqb x y = true -> x = y.
Proof. induction x as [|[k p] x IH]; intros [|[l q] y] H; simpl in H; try discriminate; auto.
  apply andb_prop in H. destruct H as [H H3]. apply andb_prop in H. destruct H as [H1 H2].
  apply Nat.eqb_eq in H1. apply pyval_eqb_eq in H2. subst. f_equal. apply IH; auto. Qed.
Lemma kwargs_eqb_refl : forall x, kwargs_eqb x x = true.
Proof. induction x as [|[k p] x IH]; simpl; auto. rewrite Nat.eqb_refl, pyval_eqb_refl, IH. reflexivity. Qed.
Lemma key_eqb_eq a b : key_eqb a b = true -> a = b.
Proof. destruct a, b. unfold key_eqb; simpl. intros H.
  apply andb_prop in H. destruct H as [H H3]. apply andb_prop in H. destruct H as [H1 H2].
  apply Nat.eqb_eq in H1. apply args_eqb_eq in H2. apply kwargs_eqb_eq in H3. subst. reflexivity. Qed.
Lemma key_eqb_refl a : key_eqb a a = true.
Proof. unfold key_eqb. rewrite Nat.eqb_refl, args_eqb_refl, kwargs_eqb_refl. reflexivity. Qed.

Definition cacheable (k : key) : bool :=
  forallb hashable (k_args k) && forallb (fun kv => hashable (snd kv)) (k_kwargs k)
  && (forallb deep_hashable (k_args k) && forallb (fun kv => deep_hashable (snd kv)) (k_kwargs k)).

(* ids handed out so far are below next_id and pairwise distinct *)
Definition inv (st : cstate) : Prop :=
  NoDup (map snd (cache st)) /\ forall id, In id (map snd (cache st)) -> id < next_id st.

Lemma inv_init : inv cinit.
Proof. split; [constructor | intros id []]. Qed.

Lemma cc_new_inv st k : inv st -> inv (fst (cc_new st k)).
Proof.
  intros [N B]. unfold cc_new.
  destruct (forallb hashable (k_args k) && forallb (fun kv => hashable (snd kv)) (k_kwargs k)).
  - destruct (forallb deep_hashable (k_args k) && forallb (fun kv => deep_hashable (snd kv)) (k_kwargs k)); [|split; auto].
    destruct (lookup k (cache st)) eqn:L; [split; auto|]. simpl. split.
    + constructor; auto. intro H. apply B in H. simpl in H. lia.
    + intros id [E|H]; [subst id; simpl; lia | apply B in H; simpl; lia].
  - simpl. split; auto. intros id H. apply B in H. simpl. lia.
Qed.
Lemma cc_state_inv calls : forall st, inv st -> inv (cc_state st calls).
Proof. induction calls; simpl; intros st H; auto. apply IHcalls, cc_new_inv, H. Qed.

Lemma lookup_In k c id : lookup k c = Some id -> In (k, id) c.
Proof. induction c as [|[k' i] t IH]; simpl; [discriminate|].
  destruct (key_eqb k k') eqn:E.
  - intros H; inversion H; subst. apply key_eqb_eq in E; subst. left; reflexivity.
  - intros H. right. apply IH, H. Qed.

Lemma lookup_stable st k id k' : lookup k (cache st) = Some id ->
  lookup k (cache (fst (cc_new st k'))) = Some id.
Proof.
  intros H. unfold cc_new.
  destruct (forallb hashable (k_args k') && forallb (fun kv => hashable (snd kv)) (k_kwargs k')); simpl; auto.
  destruct (forallb deep_hashable (k_args k') && forallb (fun kv => deep_hashable (snd kv)) (k_kwargs k')); simpl; auto.
  destruct (lookup k' (cache st)) eqn:L; simpl; auto.
  destruct (key_eqb k k') eqn:E; auto. apply key_eqb_eq in E; subst. rewrite H in L. discriminate.
Qed.
Lemma lookup_stable_run calls : forall st k id, lookup k (cache st) = Some id ->
  lookup k (cache (cc_state st calls)) = Some id.
Proof. induction calls; simpl; intros st k id H; auto. apply IHcalls, lookup_stable, H. Qed.

Lemma cc_new_cached st k : cacheable k = true ->
  exists id, snd (cc_new st k) = Inst id /\ lookup k (cache (fst (cc_new st k))) = Some id.
Proof.
  unfold cacheable, cc_new. intros H. apply andb_prop in H. destruct H as [H1 H2]. rewrite H1, H2.
  destruct (lookup k (cache st)) eqn:L; simpl.
  - exists n; auto.
  - exists (next_id st). rewrite key_eqb_refl. auto.
Qed.

(* equal construction arguments (all hashable) => the SAME instance, now and after any
   number of other constructions: equal gates, equal hashes *)
Theorem same_key_same_instance st k calls : cacheable k = true ->
  snd (cc_new (cc_state (fst (cc_new st k)) calls) k) = snd (cc_new st k).
Proof.
  intros C. destruct (cc_new_cached st k C) as [id [E L]]. rewrite E.
  pose proof (lookup_stable_run calls _ _ _ L) as L'.
  unfold cc_new at 1. unfold cacheable in C. apply andb_prop in C. destruct C as [C1 C2].
  rewrite C1, C2, L'. reflexivity.
Qed.

(* different (hashable) argument tuples => different instances *)
Theorem distinct_keys_distinct_instances st k k' calls i j : inv st ->
  cacheable k = true -> cacheable k' = true -> k <> k' ->
  snd (cc_new st k) = Inst i ->
  snd (cc_new (cc_state (fst (cc_new st k)) calls) k') = Inst j -> i <> j.
Proof.
  intros I C C' Hne Ei Ej.
  destruct (cc_new_cached st k C) as [id [E L]]. rewrite E in Ei. inversion Ei; subst id.
  set (st1 := cc_state (fst (cc_new st k)) calls) in *.
  assert (I1 : inv st1) by (apply cc_state_inv, cc_new_inv, I).
  pose proof (lookup_stable_run calls _ _ _ L) as L1. fold st1 in L1.
  unfold cc_new in Ej. unfold cacheable in C'. apply andb_prop in C'. destruct C' as [C1 C2].
  rewrite C1, C2 in Ej. destruct (lookup k' (cache st1)) eqn:L2; simpl in Ej; inversion Ej; subst.
  - intro; subst j. apply lookup_In in L1. apply lookup_In in L2.
    destruct I1 as [N _]. apply Hne.
    clear - N L1 L2. induction (cache st1) as [|[k0 i0] t IH]; [destruct L1|].
    simpl in N. inversion N as [|x l Hnot Nt]; subst.
    destruct L1 as [E1|E1], L2 as [E2|E2].
    + inversion E1; inversion E2; subst; congruence.
    + inversion E1; subst. exfalso. apply Hnot. apply (in_map snd) in E2. exact E2.
    + inversion E2; subst. exfalso. apply Hnot. apply (in_map snd) in E1. exact E1.
    + apply IH; auto.
  - destruct I1 as [_ B]. apply lookup_In in L1. apply (in_map snd) in L1. apply B in L1. simpl in L1. lia.
Qed.

(* ... but the key is the LITERAL argument tuple: HGate(), HGate(2) and HGate(radix=2)
   denote the same gate (radix 2) and are three different instances (finding C18-F9) *)
Definition h_default : key := mkKey 0 [] [].
Definition h_pos : key := mkKey 0 [VInt 2] [].
Definition h_kw : key := mkKey 0 [] [(0, VInt 2)].
Theorem default_args_refuted :
  hgate_radix h_default = Some 2%Z /\ hgate_radix h_pos = Some 2%Z /\ hgate_radix h_kw = Some 2%Z /\
  cc_run cinit [h_default; h_pos; h_kw; h_default] = [Inst 0; Inst 1; Inst 2; Inst 0].
Proof. repeat split. Qed.
