(* Theorems about cost/MultiStart.v, for every oracle (start generator,
   instantiater, capability test, ranking cost). *)
From Coq Require Import List Arith Bool ZArith Lia.
Import ListNotations.
From BQ Require Import cost.MultiStart.

Section Thm.
Variable X K : Type.
Variable ltb : K -> K -> bool.

Notation op := (op X).
Notation circuit := (circuit X).
Notation kp := (K * list X)%type.

(* ------------------------------------------------------------------ *)
(* set_params                                                          *)
(* ------------------------------------------------------------------ *)
Lemma assign_shape : forall (c : circuit) ps, map (@shape X) (assign X c ps) = map (@shape X) c.
Proof. induction c as [|o r IH]; intros ps; simpl; [reflexivity|]. now rewrite IH. Qed.

Lemma assign_length : forall (c : circuit) ps, length (assign X c ps) = length c.
Proof. intros c ps. rewrite <- (map_length (@shape X)), assign_shape, map_length. reflexivity. Qed.

Lemma assign_params : forall (c : circuit) ps,
  length ps = num_params X c -> params_of X (assign X c ps) = ps.
Proof.
  induction c as [|o r IH]; intros ps H; simpl in *.
  - destruct ps; [reflexivity|discriminate].
  - unfold params_of in *. simpl. rewrite IH.
    + apply firstn_skipn.
    + rewrite skipn_length. lia.
Qed.

Lemma assign_wf : forall (c : circuit) ps,
  length ps = num_params X c -> Forall (fun o : op => length (params o) = gnp o) (assign X c ps).
Proof.
  induction c as [|o r IH]; intros ps H; simpl in *; constructor.
  - simpl. rewrite firstn_length. lia.
  - apply IH. rewrite skipn_length. lia.
Qed.

Theorem set_params_spec : forall (c c' : circuit) ps,
  set_params X c ps = Ok c' ->
  map (@shape X) c' = map (@shape X) c /\ length c' = length c /\
  params_of X c' = ps /\ Forall (fun o : op => length (params o) = gnp o) c'.
Proof.
  unfold set_params. intros c c' ps H.
  destruct (Nat.eqb (length ps) (num_params X c)) eqn:E; [|discriminate].
  apply Nat.eqb_eq in E. inversion H; subst c'.
  repeat split; auto using assign_shape, assign_length, assign_params, assign_wf.
Qed.

Theorem set_params_error_iff : forall (c : circuit) ps,
  (exists e, set_params X c ps = Err e) <-> length ps <> num_params X c.
Proof.
  unfold set_params. intros c ps.
  destruct (Nat.eqb (length ps) (num_params X c)) eqn:E.
  - apply Nat.eqb_eq in E. split; [intros [e H]; discriminate|tauto].
  - apply Nat.eqb_neq in E. split; [tauto|eauto].
Qed.

(* ------------------------------------------------------------------ *)
(* sorted(..., key)[0] is the first candidate of least key             *)
(* ------------------------------------------------------------------ *)
(* running minimum, keeping the earlier element on ties *)
Fixpoint best (cur : kp) (l : list kp) : kp :=
  match l with
  | [] => cur
  | x :: t => best (if ltb (fst x) (fst cur) then x else cur) t
  end.

Lemma hd_insert : forall (x y : kp) t,
  hd_error (insert X K ltb x (y :: t)) = Some (if ltb (fst x) (fst y) then x else y).
Proof. intros x y t. simpl. destruct (ltb (fst x) (fst y)); reflexivity. Qed.

Lemma insert_nonempty : forall (x : kp) l, insert X K ltb x l <> [].
Proof. intros x [|y t]; simpl; [discriminate|]. destruct (ltb _ _); discriminate. Qed.

Lemma hd_fold_insert : forall (l : list kp) y t,
  hd_error (fold_left (fun acc x => insert X K ltb x acc) l (y :: t)) = Some (best y l).
Proof.
  induction l as [|x r IH]; intros y t; simpl; [reflexivity|].
  destruct (ltb (fst x) (fst y)) eqn:E.
  - apply IH.
  - destruct (insert X K ltb x t) eqn:I.
    + exfalso. eapply insert_nonempty; eauto.
    + rewrite <- I. apply IH.
Qed.

Lemma hd_sort_keyed : forall (x : kp) l,
  hd_error (sort_keyed X K ltb (x :: l)) = Some (best x l).
Proof. intros x l. unfold sort_keyed. simpl. apply hd_fold_insert. Qed.

(* the sort keeps every element (it is a permutation; only membership is needed) *)
Lemma insert_in : forall (x z : kp) l, In z (insert X K ltb x l) <-> z = x \/ In z l.
Proof.
  intros x z l. induction l as [|y t IH]; simpl.
  - intuition.
  - destruct (ltb (fst x) (fst y)); simpl; rewrite ?IH; intuition.
Qed.

Lemma insert_length : forall (x : kp) l, length (insert X K ltb x l) = S (length l).
Proof. intros x l. induction l as [|y t IH]; simpl; [reflexivity|]. destruct (ltb _ _); simpl; congruence. Qed.

Lemma sort_keyed_length : forall l, length (sort_keyed X K ltb l) = length l.
Proof.
  unfold sort_keyed. intros l.
  assert (G : forall acc, length (fold_left (fun acc x => insert X K ltb x acc) l acc) = length l + length acc).
  { induction l as [|x r IH]; intros acc; simpl; [reflexivity|]. rewrite IH, insert_length. lia. }
  rewrite G. simpl. lia.
Qed.

(* `<` behaves like the strict part of a total preorder (true of Python floats
   without NaN, of ints, ...) *)
Definition strict_weak : Prop :=
  (forall a, ltb a a = false) /\
  (forall a b c, ltb a b = true -> ltb b c = true -> ltb a c = true) /\
  (forall a b c, ltb a b = false -> ltb b c = false -> ltb a c = false).

(* r is the first element of least key in l *)
Definition first_min (r : kp) (l : list kp) : Prop :=
  exists l1 l2, l = l1 ++ r :: l2 /\
    (forall q, In q l1 -> ltb (fst r) (fst q) = true) /\
    (forall q, In q l2 -> ltb (fst q) (fst r) = false).

Lemma best_first_min : strict_weak -> forall l l1 cur l2,
  (forall q, In q l1 -> ltb (fst cur) (fst q) = true) ->
  (forall q, In q l2 -> ltb (fst q) (fst cur) = false) ->
  first_min (best cur l) (l1 ++ cur :: l2 ++ l).
Proof.
  intros (Hirr & Htr & Hntr). induction l as [|x r IH]; intros l1 cur l2 H1 H2; simpl.
  - rewrite app_nil_r. exists l1, l2. auto.
  - destruct (ltb (fst x) (fst cur)) eqn:E.
    + replace (l1 ++ cur :: l2 ++ x :: r) with ((l1 ++ cur :: l2) ++ x :: [] ++ r)
        by (rewrite <- app_assoc; reflexivity).
      apply IH; [|intros q []].
      intros q Hq. apply in_app_or in Hq. destruct Hq as [Hq|[Hq|Hq]].
      * eapply Htr; eauto.
      * subst q. exact E.
      * destruct (ltb (fst x) (fst q)) eqn:F; [reflexivity|].
        rewrite (Hntr _ _ _ F (H2 q Hq)) in E. discriminate.
    + replace (l1 ++ cur :: l2 ++ x :: r) with (l1 ++ cur :: (l2 ++ [x]) ++ r)
        by (rewrite <- app_assoc; reflexivity).
      apply IH; [assumption|].
      intros q Hq. apply in_app_or in Hq. destruct Hq as [Hq|[Hq|[]]]; [auto|subst q; exact E].
Qed.

Lemma first_min_least : strict_weak -> forall r l, first_min r l ->
  In r l /\ forall q, In q l -> ltb (fst q) (fst r) = false.
Proof.
  intros (Hirr & Htr & Hntr) r l (l1 & l2 & -> & H1 & H2). split.
  - apply in_or_app. right. left. reflexivity.
  - intros q Hq. apply in_app_or in Hq. destruct Hq as [Hq|[Hq|Hq]].
    + destruct (ltb (fst q) (fst r)) eqn:F; [|reflexivity].
      pose proof (Htr _ _ _ (H1 q Hq) F) as G. rewrite Hirr in G. discriminate.
    + subst q. apply Hirr.
    + auto.
Qed.

(* ---- choose ---- *)
Definition keyed (cost : list X -> K) (l : list (list X)) : list kp := map (fun p => (cost p, p)) l.

Lemma choose_nil : forall cost, choose X K ltb cost [] = Err IndexError.
Proof. reflexivity. Qed.

Lemma choose_cons : forall cost p l,
  choose X K ltb cost (p :: l) = Ok (snd (best (cost p, p) (keyed cost l))).
Proof.
  intros cost p l. unfold choose, sorted_by. simpl map at 2.
  pose proof (hd_sort_keyed (cost p, p) (keyed cost l)) as H. unfold keyed in H.
  destruct (sort_keyed X K ltb ((cost p, p) :: map (fun p0 => (cost p0, p0)) l)) as [|z zs] eqn:E.
  - discriminate.
  - simpl in H. inversion H; subst z. reflexivity.
Qed.

Theorem choose_single : forall cost p, choose X K ltb cost [p] = Ok p.
Proof. intros. rewrite choose_cons. reflexivity. Qed.

Lemma best_keyed : forall cost l cur, fst cur = cost (snd cur) ->
  fst (best cur (keyed cost l)) = cost (snd (best cur (keyed cost l))).
Proof.
  induction l as [|x r IH]; intros cur H; simpl; [exact H|].
  apply IH. destruct (ltb (cost x) (fst cur)); [reflexivity|exact H].
Qed.

(* the candidate kept is the first one of least cost *)
Definition first_argmin (cost : list X -> K) (p : list X) (l : list (list X)) : Prop :=
  exists l1 l2, l = l1 ++ p :: l2 /\
    (forall q, In q l1 -> ltb (cost p) (cost q) = true) /\
    (forall q, In q l2 -> ltb (cost q) (cost p) = false).

Theorem choose_argmin : strict_weak -> forall cost l p,
  choose X K ltb cost l = Ok p -> first_argmin cost p l.
Proof.
  intros SW cost [|p0 l] p H; [discriminate|].
  rewrite choose_cons in H. inversion H as [Hp]. clear H.
  pose proof (best_first_min SW (keyed cost l) [] (cost p0, p0) []) as B.
  simpl in B. specialize (B (fun q F => match F with end) (fun q F => match F with end)).
  pose proof (best_keyed cost l (cost p0, p0) eq_refl) as KE.
  destruct B as (k1 & k2 & E & B1 & B2).
  set (r := best (cost p0, p0) (keyed cost l)) in *.
  assert (KL : forall q, In q ((cost p0, p0) :: keyed cost l) -> fst q = cost (snd q)).
  { intros q [<-|Hq]; [reflexivity|]. unfold keyed in Hq. apply in_map_iff in Hq.
    destruct Hq as (p' & <- & _). reflexivity. }
  assert (M : map snd ((cost p0, p0) :: keyed cost l) = p0 :: l).
  { simpl. f_equal. unfold keyed. rewrite map_map. simpl. apply map_id. }
  exists (map snd k1), (map snd k2). repeat split.
  - rewrite <- M, E, map_app. reflexivity.
  - intros q Hq. apply in_map_iff in Hq. destruct Hq as (z & <- & Hz).
    rewrite <- KE, <- (KL z). + apply B1, Hz. + rewrite E. apply in_or_app. now left.
  - intros q Hq. apply in_map_iff in Hq. destruct Hq as (z & <- & Hz).
    rewrite <- KE, <- (KL z). + apply B2, Hz. + rewrite E. apply in_or_app. right. now right.
Qed.

Corollary choose_least : strict_weak -> forall cost l p,
  choose X K ltb cost l = Ok p ->
  In p l /\ forall q, In q l -> ltb (cost q) (cost p) = false.
Proof.
  intros SW cost l p H. destruct (choose_argmin SW cost l p H) as (l1 & l2 & -> & H1 & H2).
  destruct SW as (Hirr & Htr & Hntr). split.
  - apply in_or_app. right. now left.
  - intros q Hq. apply in_app_or in Hq. destruct Hq as [Hq|[<-|Hq]]; auto.
    destruct (ltb (cost q) (cost p)) eqn:F; [|reflexivity].
    pose proof (Htr _ _ _ (H1 q Hq) F) as G. rewrite Hirr in G. discriminate.
Qed.

Theorem choose_error_iff : forall cost l, (exists e, choose X K ltb cost l = Err e) <-> l = [].
Proof.
  intros cost [|p l]; split; intros H; try discriminate.
  - reflexivity. - eexists. reflexivity.
  - destruct H as [e H]. rewrite choose_cons in H. discriminate.
Qed.

(* ------------------------------------------------------------------ *)
(* multi_start_instantiate_inplace                                     *)
(* ------------------------------------------------------------------ *)
Theorem multistart_argmin : strict_weak ->
  forall target_ok gen inst cost (c c' : circuit) num_starts,
  multi_start X K ltb target_ok gen inst cost c num_starts = Ok c' ->
  exists n p, num_starts = Some n /\ (0 < n)%Z /\ target_ok = true /\
    first_argmin cost p (map inst (gen (Z.to_nat n))) /\
    set_params X c p = Ok c' /\ params_of X c' = p.
Proof.
  intros SW target_ok gen inst cost c c' ns H. unfold multi_start in H.
  destruct target_ok; simpl in H; [|discriminate].
  unfold gen_starting_points in H. destruct ns as [n|]; [|discriminate].
  destruct (Z.leb n 0) eqn:En; [discriminate|]. apply Z.leb_gt in En.
  destruct (choose X K ltb cost (map inst (gen (Z.to_nat n)))) as [p|e] eqn:Ec; [|discriminate].
  exists n, p. repeat split; auto.
  - apply choose_argmin; assumption.
  - apply set_params_spec in H. tauto.
Qed.

Theorem multistart_single :
  forall gen inst cost (c : circuit) s,
  gen 1 = [s] ->
  multi_start X K ltb true gen inst cost c (Some 1%Z) = set_params X c (inst s).
Proof.
  intros gen inst cost c s G. unfold multi_start, gen_starting_points. simpl.
  change (Pos.to_nat 1) with 1. rewrite G. simpl map. rewrite choose_single. reflexivity.
Qed.

Theorem multistart_structure :
  forall target_ok gen inst cost (c c' : circuit) num_starts,
  multi_start X K ltb target_ok gen inst cost c num_starts = Ok c' ->
  map (@shape X) c' = map (@shape X) c /\ length c' = length c /\
  Forall (fun o : op => length (params o) = gnp o) c'.
Proof.
  intros target_ok gen inst cost c c' ns H. unfold multi_start in H.
  destruct (negb target_ok); [discriminate|].
  destruct (gen_starting_points X gen ns); [|discriminate].
  destruct (choose X K ltb cost (map inst a)); [|discriminate].
  apply set_params_spec in H. tauto.
Qed.

(* which errors, and when *)
Lemma best_in : forall cost l cur (S : list (list X)),
  In (snd cur) S -> (forall x, In x l -> In x S) -> In (snd (best cur (keyed cost l))) S.
Proof.
  induction l as [|x r IH]; intros cur S Hc Hl; simpl; [exact Hc|].
  apply IH; [|intros y Hy; apply Hl; now right].
  destruct (ltb (cost x) (fst cur)); [simpl; apply Hl; now left|exact Hc].
Qed.

Lemma choose_in : forall cost l p, choose X K ltb cost l = Ok p -> In p l.
Proof.
  intros cost [|p0 l] p H; [discriminate|]. rewrite choose_cons in H. inversion H.
  apply best_in; simpl; auto.
Qed.

Theorem multistart_errors :
  forall target_ok gen inst cost (c : circuit) num_starts e,
  multi_start X K ltb target_ok gen inst cost c num_starts = Err e ->
  (e = TypeError /\ (target_ok = false \/ num_starts = None)) \/
  (e = ValueError /\ exists n, num_starts = Some n /\
      ((n <= 0)%Z \/ exists p, In p (map inst (gen (Z.to_nat n))) /\ length p <> num_params X c)) \/
  (e = IndexError /\ exists n, num_starts = Some n /\ (0 < n)%Z /\ gen (Z.to_nat n) = []).
Proof.
  intros target_ok gen inst cost c ns e H. unfold multi_start in H.
  destruct target_ok; simpl in H; [|inversion H; auto].
  unfold gen_starting_points in H. destruct ns as [n|]; [|inversion H; auto].
  destruct (Z.leb n 0) eqn:En.
  - apply Z.leb_le in En. inversion H. right. left. eauto.
  - apply Z.leb_gt in En.
    destruct (choose X K ltb cost (map inst (gen (Z.to_nat n)))) as [p|e'] eqn:Ec.
    + right. left. unfold set_params in H.
      destruct (Nat.eqb (length p) (num_params X c)) eqn:El; [discriminate|].
      apply Nat.eqb_neq in El. inversion H. split; [reflexivity|]. exists n. split; [reflexivity|].
      right. exists p. split; [|assumption]. eapply choose_in; eauto.
    + right. right. assert (L : map inst (gen (Z.to_nat n)) = []).
      { apply (choose_error_iff cost). eauto. }
      rewrite L in Ec. rewrite choose_nil in Ec. inversion Ec; subst e'. inversion H. subst e.
      split; [reflexivity|]. exists n. repeat split; auto.
      destruct (gen (Z.to_nat n)); [reflexivity|discriminate].
Qed.

(* ------------------------------------------------------------------ *)
(* Circuit.instantiate : method selection                              *)
(* ------------------------------------------------------------------ *)
Notation instantiater := (instantiater X K).

Theorem select_spec : forall (order : list instantiater) m i,
  select X K order m = Ok i ->
  icap i = true /\
  match m with
  | MInst j => i = j
  | MNone => exists l1 l2, order = l1 ++ i :: l2 /\ forall j, In j l1 -> icap j = false
  | MName s => iname i = s /\ exists l1 l2, order = l1 ++ i :: l2 /\ forall j, In j l1 -> iname j <> s
  | MBad => False
  end.
Proof.
  intros order m i H. destruct m as [|s|j|]; simpl in H.
  - destruct (find (@icap X K) order) as [i'|] eqn:F; [|discriminate]. inversion H; subst i'.
    split; [apply (find_some _ _ F)|].
    clear H. induction order as [|a r IH]; [discriminate|]. simpl in F.
    destruct (icap a) eqn:Ca.
    + inversion F; subst a. exists [], r. split; [reflexivity|intros j []].
    + destruct (IH F) as (l1 & l2 & -> & Hl). exists (a :: l1), l2. split; [reflexivity|].
      intros j [<-|Hj]; auto.
  - destruct (find (fun i => Nat.eqb (iname i) s) order) as [i'|] eqn:F; [|discriminate].
    destruct (icap i') eqn:Ci; [|discriminate]. inversion H; subst i'. split; [assumption|].
    pose proof (find_some _ _ F) as [_ Hn]. apply Nat.eqb_eq in Hn. split; [assumption|].
    clear H Ci Hn. induction order as [|a r IH]; [discriminate|]. simpl in F.
    destruct (Nat.eqb (iname a) s) eqn:Ca.
    + inversion F; subst a. exists [], r. split; [reflexivity|intros j []].
    + destruct (IH F) as (l1 & l2 & -> & Hl). exists (a :: l1), l2. split; [reflexivity|].
      intros j [<-|Hj]; [now apply Nat.eqb_neq|auto].
  - destruct (icap j) eqn:Cj; [|discriminate]. inversion H; subst. auto.
  - discriminate.
Qed.

Theorem select_error_iff : forall (order : list instantiater) m,
  (exists e, select X K order m = Err e) <->
  match m with
  | MInst j => icap j = false
  | MNone => forall j, In j order -> icap j = false
  | MName s => forall l1 i l2, order = l1 ++ i :: l2 -> (forall j, In j l1 -> iname j <> s) -> iname i = s -> icap i = false
  | MBad => True
  end.
Proof.
  intros order m. destruct m as [|s|j|]; simpl.
  - destruct (find (@icap X K) order) as [i'|] eqn:F.
    + split; [intros [e H]; discriminate|]. intros H. pose proof (find_some _ _ F) as [Hi Hc].
      rewrite (H _ Hi) in Hc. discriminate.
    + split; [|eauto]. intros _ j Hj. pose proof (find_none _ _ F _ Hj) as G. exact G.
  - split.
    + intros [e H] l1 i l2 -> Hl Hi.
      assert (F : find (fun i => Nat.eqb (iname i) s) (l1 ++ i :: l2) = Some i).
      { clear H. induction l1 as [|a r IH]; simpl.
        - apply Nat.eqb_eq in Hi. now rewrite Hi.
        - assert (Ha : Nat.eqb (iname a) s = false) by (apply Nat.eqb_neq, Hl; now left).
          rewrite Ha. apply IH. intros j Hj. apply Hl. now right. }
      rewrite F in H. destruct (icap i); [discriminate|reflexivity].
    + intros H. destruct (find (fun i => Nat.eqb (iname i) s) order) as [i'|] eqn:F; [|eauto].
      assert (G : exists l1 l2, order = l1 ++ i' :: l2 /\ forall j, In j l1 -> iname j <> s).
      { clear H. induction order as [|a r IH]; [discriminate|]. simpl in F.
        destruct (Nat.eqb (iname a) s) eqn:Ca.
        - inversion F; subst a. exists [], r. split; [reflexivity|intros j []].
        - destruct (IH F) as (l1 & l2 & -> & Hl). exists (a :: l1), l2. split; [reflexivity|].
          intros j [<-|Hj]; [now apply Nat.eqb_neq|auto]. }
      destruct G as (l1 & l2 & E & Hl). pose proof (find_some _ _ F) as [_ Hn]. apply Nat.eqb_eq in Hn.
      rewrite (H l1 i' l2 E Hl Hn). eauto.
  - destruct (icap j); split; intros H; try discriminate; eauto. destruct H as [e H]. discriminate.
  - split; eauto.
Qed.

Theorem instantiate_structure :
  forall seed_ok target_ok (order : list instantiater) m gen (c c' : circuit) ms,
  instantiate X K ltb seed_ok target_ok order m gen c ms = Ok c' ->
  map (@shape X) c' = map (@shape X) c /\ length c' = length c /\
  Forall (fun o : op => length (params o) = gnp o) c'.
Proof.
  intros seed_ok target_ok order m gen c c' ms H. unfold instantiate in H.
  destruct (negb seed_ok); [discriminate|].
  destruct (select X K order m); [|discriminate].
  eapply multistart_structure; eauto.
Qed.

Theorem instantiate_argmin : strict_weak ->
  forall seed_ok target_ok (order : list instantiater) m gen (c c' : circuit) ms,
  instantiate X K ltb seed_ok target_ok order m gen c ms = Ok c' ->
  exists i n p, select X K order m = Ok i /\ icap i = true /\ ms = Some n /\ (0 < n)%Z /\
    first_argmin (irank i) p (map (irun i) (gen (Z.to_nat n))) /\ params_of X c' = p.
Proof.
  intros SW seed_ok target_ok order m gen c c' ms H. unfold instantiate in H.
  destruct (negb seed_ok); [discriminate|].
  destruct (select X K order m) as [i|] eqn:S; [|discriminate].
  destruct (multistart_argmin SW _ _ _ _ _ _ _ H) as (n & p & -> & Hn & _ & FA & _ & Hp).
  exists i, n, p. repeat split; auto. apply (select_spec _ _ _ S).
Qed.

End Thm.

(* Without the order hypothesis the arg-min statement fails: with a NaN cost (None) in first
   position sorted(...)[0] keeps the NaN candidate although a finite-cost candidate exists.
   (Two elements: CPython's count_run/binary insertion and the model's insertion agree.) *)
Theorem choose_nan_refuted :
  exists (cost : list Z -> option Z) (l : list (list Z)) (p q : list Z),
    choose Z (option Z) fltb cost l = Ok p /\ In q l /\ cost p = None /\ cost q = Some 0%Z.
Proof.
  exists (fun p => match p with [1%Z] => None | _ => Some 0%Z end), [[1%Z]; [2%Z]], [1%Z], [2%Z].
  repeat split; simpl; auto.
Qed.

Lemma fltb_not_strict_weak : ~ strict_weak (option Z) fltb.
Proof.
  intros (_ & _ & Hn). specialize (Hn (Some 0%Z) None (Some 1%Z) eq_refl eq_refl). discriminate.
Qed.
