(* Theorems about cost/HS.v: Cauchy-Schwarz with its equality case over finite index
   lists, range / zero-iff of the three Hilbert-Schmidt costs, the residual norm
   identities and the gradient formulas as derivatives. *)
From Coq Require Import Reals List Arith Lra Lia.
From Coquelicot Require Import Coquelicot.
Import ListNotations.
From BQ Require Import cost.HS.
Local Open Scope C_scope.

(* ------------------------------------------------------------------ *)
(* complex numbers                                                     *)
(* ------------------------------------------------------------------ *)
Lemma Ceq : forall a b : C, Re a = Re b -> Im a = Im b -> a = b.
Proof. intros [a1 a2] [b1 b2]; simpl; intros -> ->; reflexivity. Qed.

Lemma Cconj_mult_norm2 : forall z : C, Cconj z * z = RtoC (Cnorm2 z).
Proof. intros [a b]. apply Ceq; unfold Cnorm2; simpl; ring. Qed.

Lemma Cnorm2_ge_0 : forall z, (0 <= Cnorm2 z)%R.
Proof. intros z. unfold Cnorm2. nra. Qed.

Lemma Cnorm2_eq_0 : forall z, Cnorm2 z = 0%R -> z = 0.
Proof. intros [a b]. unfold Cnorm2. simpl. intros H. apply Ceq; simpl; nra. Qed.

Lemma Cmod_sqr : forall z, (Cmod z * Cmod z)%R = Cnorm2 z.
Proof.
  intros z. unfold Cmod, Cnorm2, Re, Im. rewrite sqrt_sqrt; [ring|]. nra.
Qed.

Lemma Cmod_norm2 : forall z, Cmod z = sqrt (Cnorm2 z).
Proof. intros z. unfold Cmod, Cnorm2, Re, Im. f_equal. ring. Qed.

Lemma Cconj_plus : forall a b, Cconj (a + b) = Cconj a + Cconj b.
Proof. intros [a1 a2] [b1 b2]. apply Ceq; simpl; ring. Qed.
Lemma Cconj_mult : forall a b, Cconj (a * b) = Cconj a * Cconj b.
Proof. intros [a1 a2] [b1 b2]. apply Ceq; simpl; ring. Qed.
Lemma Cconj_minus : forall a b, Cconj (a - b) = Cconj a - Cconj b.
Proof. intros [a1 a2] [b1 b2]. apply Ceq; simpl; ring. Qed.
Lemma Cconj_R : forall r : R, Cconj (RtoC r) = RtoC r.
Proof. intros r. apply Ceq; simpl; ring. Qed.
Lemma Cconj_invol : forall a, Cconj (Cconj a) = a.
Proof. intros [a1 a2]. apply Ceq; simpl; ring. Qed.
Lemma Cnorm2_conj : forall a, Cnorm2 (Cconj a) = Cnorm2 a.
Proof. intros [a1 a2]. unfold Cnorm2; simpl. ring. Qed.
Lemma Cnorm2_mult : forall a b, Cnorm2 (a * b) = (Cnorm2 a * Cnorm2 b)%R.
Proof. intros [a1 a2] [b1 b2]. unfold Cnorm2; simpl. ring. Qed.
Lemma Cnorm2_R : forall r : R, Cnorm2 (RtoC r) = (r * r)%R.
Proof. intros r. unfold Cnorm2; simpl. ring. Qed.

Lemma cis_norm2 : forall phi, Cnorm2 (cis phi) = 1%R.
Proof. intros phi. unfold Cnorm2, cis; simpl. pose proof (sin2_cos2 phi) as H. unfold Rsqr in H. lra. Qed.

Lemma cis_mod : forall phi, Cmod (cis phi) = 1%R.
Proof. intros phi. rewrite Cmod_norm2, cis_norm2. apply sqrt_1. Qed.

(* every complex number of modulus one is e^{i phi} *)
Lemma unit_is_cis : forall c : C, Cnorm2 c = 1%R -> exists phi, c = cis phi.
Proof.
  intros [x y] H. unfold Cnorm2, Re, Im in H. simpl in H.
  assert (Hy2 : (0 <= y * y)%R) by (apply Rle_0_sqr).
  assert (Hx : (-1 <= x <= 1)%R) by (split; nra).
  destruct (Rle_dec 0 y) as [Hy|Hy].
  - exists (acos x). unfold cis. f_equal.
    + symmetry. apply cos_acos, Hx.
    + rewrite sin_acos by exact Hx. symmetry. apply sqrt_lem_1; unfold Rsqr; nra.
  - exists (- acos x)%R. unfold cis. rewrite cos_neg, sin_neg. f_equal.
    + symmetry. apply cos_acos, Hx.
    + rewrite sin_acos by exact Hx.
      assert (E : sqrt (1 - x²) = (- y)%R) by (apply sqrt_lem_1; unfold Rsqr; nra).
      rewrite E. ring.
Qed.

(* ------------------------------------------------------------------ *)
(* finite sums                                                         *)
(* ------------------------------------------------------------------ *)
Section Sums.
Context {I : Type}.
Implicit Types (l : list I) (f g : I -> C).

Lemma sumC_ext : forall l f g, (forall k, In k l -> f k = g k) -> sumC l f = sumC l g.
Proof.
  induction l as [|i t IH]; intros f g H; simpl; [reflexivity|].
  rewrite (H i) by (now left). rewrite (IH f g); [reflexivity|]. intros k Hk. apply H. now right.
Qed.

Lemma sumC_plus : forall l f g, sumC l (fun k => f k + g k) = sumC l f + sumC l g.
Proof. induction l as [|i t IH]; intros; simpl; [ring|]. rewrite IH. ring. Qed.

Lemma sumC_minus : forall l f g, sumC l (fun k => f k - g k) = sumC l f - sumC l g.
Proof. induction l as [|i t IH]; intros; simpl; [ring|]. rewrite IH. ring. Qed.

Lemma sumC_scal_l : forall l (c : C) f, sumC l (fun k => c * f k) = c * sumC l f.
Proof. induction l as [|i t IH]; intros; simpl; [ring|]. rewrite IH. ring. Qed.

Lemma sumC_scal_r : forall l (c : C) f, sumC l (fun k => f k * c) = sumC l f * c.
Proof. induction l as [|i t IH]; intros; simpl; [ring|]. rewrite IH. ring. Qed.

Lemma sumC_zero : forall l, sumC l (fun _ => RtoC 0) = 0.
Proof. induction l as [|i t IH]; simpl; [reflexivity|]. rewrite IH. ring. Qed.

Lemma sumC_conj : forall l f, Cconj (sumC l f) = sumC l (fun k => Cconj (f k)).
Proof. induction l as [|i t IH]; intros; simpl; [apply Cconj_R|]. rewrite Cconj_plus, IH. reflexivity. Qed.

Lemma sumC_app : forall l1 l2 f, sumC (l1 ++ l2) f = sumC l1 f + sumC l2 f.
Proof. induction l1 as [|i t IH]; intros; simpl; [ring|]. rewrite IH. ring. Qed.

Lemma sumC_map : forall {J} (h : J -> I) (l : list J) f, sumC (map h l) f = sumC l (fun j => f (h j)).
Proof. induction l as [|i t IH]; intros; simpl; [reflexivity|]. rewrite IH. reflexivity. Qed.

Lemma RtoC_sumR : forall l (r : I -> R), RtoC (sumR l r) = sumC l (fun k => RtoC (r k)).
Proof. induction l as [|i t IH]; intros; simpl; [reflexivity|]. rewrite RtoC_plus, IH. reflexivity. Qed.

Lemma Re_sumC : forall l f, Re (sumC l f) = sumR l (fun k => Re (f k)).
Proof. induction l as [|i t IH]; intros; simpl; [reflexivity|]. rewrite <- IH. reflexivity. Qed.
Lemma Im_sumC : forall l f, Im (sumC l f) = sumR l (fun k => Im (f k)).
Proof. induction l as [|i t IH]; intros; simpl; [reflexivity|]. rewrite <- IH. reflexivity. Qed.

Lemma sumR_ext : forall l (r s : I -> R), (forall k, In k l -> r k = s k) -> sumR l r = sumR l s.
Proof.
  induction l as [|i t IH]; intros r s H; simpl; [reflexivity|].
  rewrite (H i) by (now left). rewrite (IH r s); [reflexivity|]. intros k Hk. apply H. now right.
Qed.

Lemma sumR_ge_0 : forall l (r : I -> R), (forall k, In k l -> 0 <= r k)%R -> (0 <= sumR l r)%R.
Proof.
  induction l as [|i t IH]; intros r H; simpl; [lra|].
  assert (0 <= r i)%R by (apply H; now left).
  assert (0 <= sumR t r)%R by (apply IH; intros k Hk; apply H; now right). lra.
Qed.

Lemma sumR_eq_0 : forall l (r : I -> R), (forall k, In k l -> 0 <= r k)%R -> sumR l r = 0%R ->
  forall k, In k l -> r k = 0%R.
Proof.
  induction l as [|i t IH]; intros r H E k Hk; simpl in *; [contradiction|].
  assert (0 <= r i)%R by (apply H; now left).
  assert (0 <= sumR t r)%R by (apply sumR_ge_0; intros k' Hk'; apply H; now right).
  destruct Hk as [<-|Hk]; [lra|]. apply IH; auto. lra.
Qed.

Lemma sumR_plus : forall l (r s : I -> R), sumR l (fun k => r k + s k)%R = (sumR l r + sumR l s)%R.
Proof. induction l as [|i t IH]; intros; simpl; [ring|]. rewrite IH. ring. Qed.
Lemma sumR_scal : forall l (c : R) (r : I -> R), sumR l (fun k => c * r k)%R = (c * sumR l r)%R.
Proof. induction l as [|i t IH]; intros; simpl; [ring|]. rewrite IH. ring. Qed.
End Sums.

Lemma sumC_swap : forall {I J} (l1 : list I) (l2 : list J) (f : I -> J -> C),
  sumC l1 (fun i => sumC l2 (fun j => f i j)) = sumC l2 (fun j => sumC l1 (fun i => f i j)).
Proof.
  induction l1 as [|i t IH]; intros l2 f; simpl.
  - rewrite sumC_zero. reflexivity.
  - rewrite IH, <- sumC_plus. reflexivity.
Qed.

Lemma sumC_prod : forall {I J} (l1 : list I) (l2 : list J) (f : I * J -> C),
  sumC (list_prod l1 l2) f = sumC l1 (fun i => sumC l2 (fun j => f (i, j))).
Proof.
  induction l1 as [|i t IH]; intros l2 f; simpl; [reflexivity|].
  rewrite sumC_app, sumC_map, IH. reflexivity.
Qed.

Lemma sumR_prod : forall {I J} (l1 : list I) (l2 : list J) (f : I * J -> R),
  sumR (list_prod l1 l2) f = sumR l1 (fun i => sumR l2 (fun j => f (i, j))).
Proof.
  intros I J l1 l2 f. apply RtoC_inj. rewrite !RtoC_sumR, sumC_prod.
  apply sumC_ext. intros i _. rewrite RtoC_sumR. reflexivity.
Qed.

(* Kronecker delta *)
Lemma sumC_delta : forall n k0 (f : nat -> C),
  sumC (range n) (fun k => if Nat.eqb k k0 then f k else 0) = if Nat.ltb k0 n then f k0 else 0.
Proof.
  unfold range. intros n k0 f. induction n as [|n IH].
  - reflexivity.
  - rewrite seq_S, sumC_app, IH. simpl.
    destruct (Nat.ltb_spec k0 n) as [A|A], (Nat.ltb_spec k0 (S n)) as [B|B], (Nat.eqb_spec n k0) as [E|E];
      try lia; try subst; ring.
Qed.

Lemma in_range : forall n k, In k (range n) <-> (k < n)%nat.
Proof. intros n k. unfold range. rewrite in_seq. lia. Qed.

(* ------------------------------------------------------------------ *)
(* Cauchy-Schwarz with its equality case, over any finite index list   *)
(* ------------------------------------------------------------------ *)
Section CS.
Context {I : Type}.
Variable l : list I.
Definition inner (a b : I -> C) : C := sumC l (fun k => Cconj (a k) * b k).
Definition norm2 (a : I -> C) : R := sumR l (fun k => Cnorm2 (a k)).

Lemma norm2_inner : forall a, RtoC (norm2 a) = inner a a.
Proof. intros a. unfold norm2, inner. rewrite RtoC_sumR. apply sumC_ext. intros k _. symmetry. apply Cconj_mult_norm2. Qed.

Lemma inner_conj : forall a b, Cconj (inner a b) = inner b a.
Proof.
  intros a b. unfold inner. rewrite sumC_conj. apply sumC_ext. intros k _.
  rewrite Cconj_mult, Cconj_invol. ring.
Qed.

Lemma norm2_ge_0 : forall a, (0 <= norm2 a)%R.
Proof. intros a. apply sumR_ge_0. intros k _. apply Cnorm2_ge_0. Qed.

Lemma norm2_eq_0 : forall a, norm2 a = 0%R -> forall k, In k l -> a k = 0.
Proof.
  intros a H k Hk. apply Cnorm2_eq_0.
  apply (sumR_eq_0 l (fun k => Cnorm2 (a k))); auto. intros k' _. apply Cnorm2_ge_0.
Qed.

(* || na.b - <a,b>.a ||^2 = na (na nb - |<a,b>|^2) *)
Lemma cs_identity : forall a b,
  norm2 (fun k => RtoC (norm2 a) * b k - inner a b * a k)
  = (norm2 a * (norm2 a * norm2 b - Cnorm2 (inner a b)))%R.
Proof.
  intros a b. apply RtoC_inj. rewrite norm2_inner.
  set (na := norm2 a). set (p := inner a b).
  unfold inner at 1.
  rewrite (sumC_ext l _ (fun k =>
      (RtoC na * RtoC na) * (Cconj (b k) * b k) - (RtoC na * p) * (Cconj (b k) * a k)
      - (RtoC na * Cconj p) * (Cconj (a k) * b k) + (Cconj p * p) * (Cconj (a k) * a k))).
  2:{ intros k _. rewrite Cconj_minus, !Cconj_mult, Cconj_R. ring. }
  rewrite sumC_plus, !sumC_minus, !sumC_scal_l.
  fold (inner b b) (inner b a) (inner a b) (inner a a).
  rewrite <- (inner_conj a b). fold p. rewrite <- !norm2_inner. fold na.
  rewrite RtoC_mult, RtoC_minus, !RtoC_mult, <- Cconj_mult_norm2. ring.
Qed.

Theorem cauchy_schwarz : forall a b, (Cnorm2 (inner a b) <= norm2 a * norm2 b)%R.
Proof.
  intros a b. pose proof (cs_identity a b) as E.
  pose proof (norm2_ge_0 (fun k => RtoC (norm2 a) * b k - inner a b * a k)) as P.
  pose proof (norm2_ge_0 a) as Pa. pose proof (norm2_ge_0 b) as Pb.
  destruct (Req_dec (norm2 a) 0) as [Z|NZ].
  - assert (inner a b = 0) as ->.
    { unfold inner. rewrite (sumC_ext l _ (fun _ => RtoC 0)); [apply sumC_zero|].
      intros k Hk. rewrite (norm2_eq_0 a Z k Hk). rewrite Cconj_R. ring. }
    rewrite Z. unfold Cnorm2; simpl. lra.
  - rewrite E in P. nra.
Qed.

Theorem cauchy_schwarz_eq : forall a b, norm2 a <> 0%R ->
  Cnorm2 (inner a b) = (norm2 a * norm2 b)%R ->
  forall k, In k l -> b k = (inner a b / RtoC (norm2 a)) * a k.
Proof.
  intros a b NZ E k Hk. pose proof (cs_identity a b) as Id. rewrite E in Id.
  replace (norm2 a * (norm2 a * norm2 b - norm2 a * norm2 b))%R with 0%R in Id by ring.
  pose proof (norm2_eq_0 _ Id k Hk) as Z. simpl in Z.
  assert (NZC : RtoC (norm2 a) <> 0) by (intros F; apply NZ; apply RtoC_inj; exact F).
  replace (b k) with ((RtoC (norm2 a) * b k - inner a b * a k) / RtoC (norm2 a) + inner a b / RtoC (norm2 a) * a k)
    by (field; exact NZC).
  rewrite Z. field. exact NZC.
Qed.
End CS.

(* ------------------------------------------------------------------ *)
(* overlap of two vectors of equal norm: range and zero-iff            *)
(* ------------------------------------------------------------------ *)
Section Overlap.
Context {I : Type}.
Variable l : list I.
Variables (a b : I -> C) (K : R).
Hypothesis Ha : norm2 l a = K.
Hypothesis Hb : norm2 l b = K.
Hypothesis HK : (0 < K)%R.

Lemma overlap_le : (Cmod (inner l a b) <= K)%R.
Proof.
  pose proof (cauchy_schwarz l a b) as CS. rewrite Ha, Hb in CS.
  rewrite Cmod_norm2. rewrite <- (sqrt_square K) by lra. apply sqrt_le_1_alt. exact CS.
Qed.

Theorem overlap_range : (0 <= 1 - Cmod (inner l a b) / K <= 1)%R.
Proof.
  pose proof overlap_le as L. pose proof (Cmod_ge_0 (inner l a b)) as P.
  assert (0 <= Cmod (inner l a b) / K <= 1)%R.
  { split.
    - apply Rmult_le_pos; [exact P|]. left. apply Rinv_0_lt_compat, HK.
    - apply Rmult_le_reg_r with K; [exact HK|]. unfold Rdiv. rewrite Rmult_assoc, Rinv_l by lra. lra. }
  lra.
Qed.

Lemma overlap_phase : forall phi, (forall k, In k l -> b k = cis phi * a k) -> inner l a b = cis phi * RtoC K.
Proof.
  intros phi H. rewrite <- Ha, norm2_inner. unfold inner.
  rewrite <- sumC_scal_l. apply sumC_ext. intros k Hk. rewrite (H k Hk). ring.
Qed.

Theorem overlap_max_iff :
  Cmod (inner l a b) = K <-> exists phi, forall k, In k l -> b k = cis phi * a k.
Proof.
  split.
  - intros E.
    assert (E2 : Cnorm2 (inner l a b) = (norm2 l a * norm2 l b)%R).
    { rewrite <- Cmod_sqr, E, Ha, Hb. reflexivity. }
    assert (NZ : norm2 l a <> 0%R) by (rewrite Ha; lra).
    pose proof (cauchy_schwarz_eq l a b NZ E2) as Q. rewrite Ha in Q.
    set (c := inner l a b / RtoC K) in *.
    assert (KC : RtoC K <> 0) by (intros F; apply RtoC_inj in F; lra).
    assert (N1 : Cnorm2 c = 1%R).
    { assert (P : c * RtoC K = inner l a b) by (unfold c; field; exact KC).
      apply (f_equal Cnorm2) in P. rewrite Cnorm2_mult, Cnorm2_R, <- (Cmod_sqr (inner l a b)), E in P.
      apply Rmult_eq_reg_r with (K * K)%R; [rewrite P; ring|]. apply Rgt_not_eq. apply Rmult_lt_0_compat; exact HK. }
    destruct (unit_is_cis c N1) as [phi Hphi]. exists phi. rewrite <- Hphi. exact Q.
  - intros [phi H]. rewrite (overlap_phase phi H), Cmod_mult, cis_mod, Cmod_R, Rabs_pos_eq; lra.
Qed.

Corollary overlap_zero_iff :
  (1 - Cmod (inner l a b) / K = 0)%R <-> exists phi, forall k, In k l -> b k = cis phi * a k.
Proof.
  rewrite <- overlap_max_iff. split; intros H.
  - assert (Cmod (inner l a b) / K = 1)%R by lra.
    apply (f_equal (fun x => x * K)%R) in H0. unfold Rdiv in H0. rewrite Rmult_assoc, Rinv_l in H0 by lra. lra.
  - rewrite H. unfold Rdiv. rewrite Rinv_r by lra. ring.
Qed.
End Overlap.

(* ------------------------------------------------------------------ *)
(* unitary target                                                      *)
(* ------------------------------------------------------------------ *)
Lemma sumC_const_1 : forall n, sumC (range n) (fun _ => RtoC 1) = RtoC (INR n).
Proof.
  unfold range. intros n. generalize 0%nat. induction n as [|n IH]; intros s.
  - reflexivity.
  - change (sumC (seq s (S n)) (fun _ => RtoC 1)) with (RtoC 1 + sumC (seq (S s) n) (fun _ => RtoC 1)).
    rewrite IH, S_INR, RtoC_plus. ring.
Qed.

Definition pairs (n m : nat) : list (nat * nat) := list_prod (range n) (range m).
(* entry (column i, row k) *)
Definition byCol (A : matrix) : nat * nat -> C := fun ik => A (snd ik) (fst ik).

Lemma in_pairs : forall n m i k, In (i, k) (pairs n m) <-> (i < n /\ k < m)%nat.
Proof. intros. unfold pairs. rewrite in_prod_iff, !in_range. reflexivity. Qed.

Lemma hs_overlap_inner : forall n U T, hs_overlap n U T = inner (pairs n n) (byCol T) (byCol U).
Proof.
  intros n U T. unfold hs_overlap, trace, mmul, dagger, inner, pairs. rewrite sumC_prod. reflexivity.
Qed.

Lemma ident_diag : forall i, ident i i = RtoC 1.
Proof. intros i. unfold ident. rewrite Nat.eqb_refl. reflexivity. Qed.

Lemma unitary_norm2 : forall n U, meq n n (mmul n (dagger U) U) ident -> norm2 (pairs n n) (byCol U) = INR n.
Proof.
  intros n U H. apply RtoC_inj. rewrite norm2_inner. unfold inner, pairs. rewrite sumC_prod.
  rewrite <- sumC_const_1. apply sumC_ext. intros i Hi. apply in_range in Hi.
  rewrite <- (ident_diag i), <- (H i i Hi Hi). reflexivity.
Qed.

Theorem hs_cost_range : forall n U T, (0 < n)%nat -> unitary n U -> unitary n T ->
  (0 <= hs_cost n U T <= 1)%R.
Proof.
  intros n U T Hn [HU _] [HT _]. unfold hs_cost. rewrite hs_overlap_inner.
  apply overlap_range; auto using unitary_norm2. apply lt_0_INR, Hn.
Qed.

Theorem hs_cost_zero_iff : forall n U T, (0 < n)%nat -> unitary n U -> unitary n T ->
  (hs_cost n U T = 0%R <-> exists phi, meq n n U (scale (cis phi) T)).
Proof.
  intros n U T Hn [HU _] [HT _]. unfold hs_cost. rewrite hs_overlap_inner.
  rewrite (overlap_zero_iff (pairs n n) (byCol T) (byCol U) (INR n));
    auto using unitary_norm2; [|apply lt_0_INR, Hn].
  split; intros [phi H]; exists phi.
  - intros i j Hi Hj. apply (H (j, i)). apply in_pairs. tauto.
  - intros [i k] Hik. apply in_pairs in Hik. unfold byCol. simpl. apply H; tauto.
Qed.

(* the same statement for 1 - (|tr|/N)^2 under the square root: UnitaryMatrix.get_distance_from *)

(* ------------------------------------------------------------------ *)
(* state target                                                        *)
(* ------------------------------------------------------------------ *)
Lemma unitvec_norm2 : forall n a, unitvec n a -> norm2 (range n) a = 1%R.
Proof. intros n a H. apply RtoC_inj. rewrite norm2_inner. exact H. Qed.

Lemma unitary_col_unit : forall n U j, (j < n)%nat -> unitary n U -> unitvec n (col U j).
Proof.
  intros n U j Hj [HU _]. unfold unitvec, vdot, col. rewrite <- (ident_diag j), <- (HU j j Hj Hj). reflexivity.
Qed.

Theorem state_cost_range_vec : forall n (u t : vector), unitvec n u -> unitvec n t ->
  (0 <= 1 - Cnorm2 (vdot n t u) <= 1)%R.
Proof.
  intros n u t Hu Ht. pose proof (cauchy_schwarz (range n) t u) as CS.
  rewrite (unitvec_norm2 n u Hu), (unitvec_norm2 n t Ht) in CS.
  pose proof (Cnorm2_ge_0 (inner (range n) t u)). unfold inner in *. unfold vdot. lra.
Qed.

Theorem state_cost_zero_iff_vec : forall n (u t : vector), unitvec n u -> unitvec n t ->
  ((1 - Cnorm2 (vdot n t u))%R = 0%R <-> exists phi, veq n u (vscale (cis phi) t)).
Proof.
  intros n u t Hu Ht.
  pose proof (overlap_max_iff (range n) t u 1%R (unitvec_norm2 n t Ht) (unitvec_norm2 n u Hu) Rlt_0_1) as M.
  change (inner (range n) t u) with (vdot n t u) in M.
  assert (E : (1 - Cnorm2 (vdot n t u))%R = 0%R <-> Cmod (vdot n t u) = 1%R).
  { rewrite <- Cmod_sqr. pose proof (Cmod_ge_0 (vdot n t u)). split; intros; nra. }
  rewrite E, M. split; intros [phi H]; exists phi; intros k Hk; apply H; apply in_range; exact Hk.
Qed.

Theorem state_cost_range : forall n U t, (0 < n)%nat -> unitary n U -> unitvec n t ->
  (0 <= state_cost n U t <= 1)%R.
Proof. intros n U t Hn HU Ht. apply state_cost_range_vec; auto using unitary_col_unit. Qed.

Theorem state_cost_zero_iff : forall n U t, (0 < n)%nat -> unitary n U -> unitvec n t ->
  (state_cost n U t = 0%R <-> exists phi, veq n (col U 0) (vscale (cis phi) t)).
Proof. intros n U t Hn HU Ht. apply state_cost_zero_iff_vec; auto using unitary_col_unit. Qed.

(* ------------------------------------------------------------------ *)
(* a matrix with orthonormal columns preserves norms                   *)
(* ------------------------------------------------------------------ *)
Definition mvec (n : nat) (M : matrix) (v : vector) : vector :=
  fun j => sumC (range n) (fun k => M j k * v k).

Lemma isometry : forall n (M : matrix) (v : vector),
  meq n n (mmul n (dagger M) M) ident ->
  vdot n (mvec n M v) (mvec n M v) = vdot n v v.
Proof.
  intros n M v H. unfold vdot, mvec.
  (* sum_j conj(sum_k M_jk v_k) (sum_k' M_jk' v_k') *)
  rewrite (sumC_ext (range n) _ (fun j =>
     sumC (range n) (fun k => sumC (range n) (fun k' =>
        (Cconj (v k) * v k') * (Cconj (M j k) * M j k'))))).
  2:{ intros j _. rewrite sumC_conj, <- sumC_scal_r. apply sumC_ext. intros k _.
      rewrite <- sumC_scal_l. apply sumC_ext. intros k' _. rewrite Cconj_mult. ring. }
  rewrite sumC_swap.
  apply sumC_ext. intros k Hk. apply in_range in Hk.
  rewrite sumC_swap.
  rewrite (sumC_ext (range n) _ (fun k' => if Nat.eqb k' k then Cconj (v k) * v k' else 0)).
  - rewrite sumC_delta. apply Nat.ltb_lt in Hk. rewrite Hk. reflexivity.
  - intros k' Hk'. apply in_range in Hk'. rewrite sumC_scal_l.
    pose proof (H k k' Hk Hk') as E. unfold mmul, dagger in E. rewrite E. unfold ident.
    rewrite (Nat.eqb_sym k k'). destruct (Nat.eqb k' k); ring.
Qed.

(* ------------------------------------------------------------------ *)
(* state system                                                        *)
(* ------------------------------------------------------------------ *)
Definition byColK (A : matrix) : nat * nat -> C := fun ji => A (snd ji) (fst ji).

Lemma sys_overlap_inner : forall n k U V W,
  sys_overlap n k U V W = inner (pairs k n) (byCol W) (byCol (mmul n U V)).
Proof. intros. unfold sys_overlap, vdot, col, inner, pairs. rewrite sumC_prod. reflexivity. Qed.

Lemma cols_norm2 : forall n k (A : matrix), (forall j, (j < k)%nat -> unitvec n (col A j)) ->
  norm2 (pairs k n) (byCol A) = INR k.
Proof.
  intros n k A H. apply RtoC_inj. rewrite norm2_inner. unfold inner, pairs. rewrite sumC_prod.
  rewrite <- sumC_const_1. apply sumC_ext. intros j Hj. apply in_range in Hj. apply (H j Hj).
Qed.

Lemma unitary_preserves_cols : forall n k U V, unitary n U ->
  (forall j, (j < k)%nat -> unitvec n (col V j)) ->
  forall j, (j < k)%nat -> unitvec n (col (mmul n U V) j).
Proof.
  intros n k U V [HU _] HV j Hj. unfold unitvec.
  change (col (mmul n U V) j) with (mvec n U (col V j)).
  rewrite isometry by exact HU. apply HV, Hj.
Qed.

Theorem sys_cost_range : forall n k U V W, (0 < k)%nat -> unitary n U ->
  (forall j, (j < k)%nat -> unitvec n (col V j)) -> (forall j, (j < k)%nat -> unitvec n (col W j)) ->
  (0 <= sys_cost n k U V W <= 1)%R.
Proof.
  intros n k U V W Hk HU HV HW. unfold sys_cost. rewrite sys_overlap_inner.
  apply overlap_range; [apply cols_norm2, HW| |apply lt_0_INR, Hk].
  apply cols_norm2. eapply unitary_preserves_cols; eauto.
Qed.

(* zero exactly when U maps every v_j to w_j up to one common phase *)
Theorem sys_cost_zero_iff : forall n k U V W, (0 < k)%nat -> unitary n U ->
  (forall j, (j < k)%nat -> unitvec n (col V j)) -> (forall j, (j < k)%nat -> unitvec n (col W j)) ->
  (sys_cost n k U V W = 0%R <-> exists phi, meq n k (mmul n U V) (scale (cis phi) W)).
Proof.
  intros n k U V W Hk HU HV HW. unfold sys_cost. rewrite sys_overlap_inner.
  rewrite (overlap_zero_iff (pairs k n) (byCol W) (byCol (mmul n U V)) (INR k));
    [ |apply cols_norm2, HW|apply cols_norm2; eapply unitary_preserves_cols; eauto|apply lt_0_INR, Hk].
  split; intros [phi H]; exists phi.
  - intros i j Hi Hj. apply (H (j, i)). apply in_pairs. tauto.
  - intros [j i] Hji. apply in_pairs in Hji. unfold byCol. simpl. apply H; tauto.
Qed.

(* ------------------------------------------------------------------ *)
(* residuals of a unitary target                                       *)
(* ------------------------------------------------------------------ *)
Lemma sumsq_app : forall l1 l2, sumsq (l1 ++ l2) = (sumsq l1 + sumsq l2)%R.
Proof. induction l1 as [|x t IH]; intros; simpl; [ring|]. rewrite IH. ring. Qed.

Lemma sumsq_re_im : forall L : list C,
  (sumsq (map Re L) + sumsq (map Im L))%R = sumR L Cnorm2.
Proof. induction L as [|z t IH]; simpl; [ring|]. rewrite <- IH. unfold Cnorm2. ring. Qed.

Lemma sumR_app : forall {I} (l1 l2 : list I) f, sumR (l1 ++ l2) f = (sumR l1 f + sumR l2 f)%R.
Proof. induction l1 as [|x t IH]; intros; simpl; [ring|]. rewrite IH. ring. Qed.
Lemma sumR_map : forall {I J} (h : J -> I) (l : list J) f, sumR (map h l) f = sumR l (fun j => f (h j)).
Proof. induction l as [|x t IH]; intros; simpl; [reflexivity|]. rewrite IH. reflexivity. Qed.

Lemma sumR_flat : forall n m (A : matrix) (f : C -> R),
  sumR (flat n m A) f = sumR (range n) (fun i => sumR (range m) (fun j => f (A i j))).
Proof.
  intros n m A f. unfold flat. induction (range n) as [|i t IH]; simpl; [reflexivity|].
  rewrite sumR_app, IH, sumR_map. reflexivity.
Qed.

Lemma sumsq_residuals : forall n U T,
  sumsq (hs_residuals n U T) =
  sumR (range n) (fun i => sumR (range n) (fun j => Cnorm2 (res_matrix n U T i j))).
Proof. intros. unfold hs_residuals. rewrite sumsq_app, sumsq_re_im, sumR_flat. reflexivity. Qed.

(* without any hypothesis: sum r^2 = ||U T^dagger - I||_F^2 (definitional) ; for unitary U, T it is ||U - T||_F^2 *)
Lemma res_row : forall n U T i j, (i < n)%nat -> (j < n)%nat -> meq n n (mmul n T (dagger T)) ident ->
  res_matrix n U T i j = mvec n (fun j k => Cconj (T j k)) (fun k => U i k - T i k) j.
Proof.
  intros n U T i j Hi Hj HT. unfold res_matrix, msub, mvec.
  rewrite <- (HT i j Hi Hj). unfold mmul, dagger. rewrite <- sumC_minus.
  apply sumC_ext. intros k _. ring.
Qed.

Lemma conj_unitary : forall n T, meq n n (mmul n (dagger T) T) ident ->
  meq n n (mmul n (dagger (fun j k => Cconj (T j k))) (fun j k => Cconj (T j k))) ident.
Proof.
  intros n T H i j Hi Hj. pose proof (H i j Hi Hj) as E. apply (f_equal Cconj) in E.
  unfold mmul, dagger in *. rewrite sumC_conj in E.
  rewrite (sumC_ext (range n) _ (fun k => Cconj (Cconj (T k i) * T k j))).
  - rewrite E. unfold ident. destruct (Nat.eqb i j); apply Cconj_R.
  - intros k _. rewrite Cconj_mult. reflexivity.
Qed.

Theorem residual_norm_diff : forall n U T, unitary n T ->
  sumsq (hs_residuals n U T) =
  sumR (range n) (fun i => sumR (range n) (fun k => Cnorm2 (U i k - T i k))).
Proof.
  intros n U T [HT1 HT2]. rewrite sumsq_residuals.
  apply sumR_ext. intros i Hi. apply in_range in Hi.
  apply RtoC_inj. rewrite !RtoC_sumR.
  rewrite (sumC_ext (range n) _ (fun j =>
     Cconj (mvec n (fun j k => Cconj (T j k)) (fun k => U i k - T i k) j)
     * mvec n (fun j k => Cconj (T j k)) (fun k => U i k - T i k) j)).
  2:{ intros j Hj. apply in_range in Hj. rewrite (res_row n U T i j Hi Hj HT2).
      symmetry. apply Cconj_mult_norm2. }
  pose proof (isometry n (fun j k => Cconj (T j k)) (fun k => U i k - T i k) (conj_unitary n T HT1)) as Iso.
  unfold vdot in Iso. rewrite Iso. apply sumC_ext. intros k _. apply Cconj_mult_norm2.
Qed.

(* sum r^2 = 2N - 2 Re tr(T^dagger U)  for unitary U, T *)
Theorem residual_norm : forall n U T, unitary n U -> unitary n T ->
  sumsq (hs_residuals n U T) = (2 * INR n - 2 * Re (hs_overlap n U T))%R.
Proof.
  intros n U T HU HT. rewrite (residual_norm_diff n U T HT).
  destruct HU as [HU _]. destruct HT as [HT _].
  pose proof (unitary_norm2 n U HU) as NU. pose proof (unitary_norm2 n T HT) as NT.
  rewrite hs_overlap_inner.
  assert (E : forall A : matrix, sumR (range n) (fun i => sumR (range n) (fun k => Cnorm2 (A i k)))
                = norm2 (pairs n n) (byCol A)).
  { intros A. unfold norm2, pairs. rewrite sumR_prod. unfold byCol. simpl.
    apply RtoC_inj. rewrite !RtoC_sumR.
    rewrite (sumC_ext (range n) _ (fun i => sumC (range n) (fun k => RtoC (Cnorm2 (A i k)))))
      by (intros i _; apply RtoC_sumR).
    rewrite sumC_swap. apply sumC_ext. intros i _. symmetry. apply RtoC_sumR. }
  rewrite (E (fun i k => U i k - T i k)).
  (* ||u - t||^2 = ||u||^2 + ||t||^2 - 2 Re <t,u> *)
  assert (P : forall a b : nat * nat -> C,
     norm2 (pairs n n) (fun x => b x - a x) =
     (norm2 (pairs n n) b + norm2 (pairs n n) a - 2 * Re (inner (pairs n n) a b))%R).
  { intros a b. unfold norm2, inner. rewrite Re_sumC.
    rewrite <- sumR_scal, <- sumR_plus.
    rewrite <- (Rplus_0_r (sumR (pairs n n) (fun k => Cnorm2 (b k - a k)))).
    assert (Q : forall l, sumR l (fun k => Cnorm2 (b k - a k)) =
       (sumR l (fun k => Cnorm2 (b k) + Cnorm2 (a k))%R - sumR l (fun k => 2 * Re (Cmult (Cconj (a k)) (b k)))%R)%R).
    { induction l as [|x t IH]; simpl; [ring|]. rewrite IH.
      destruct (a x) as [a1 a2], (b x) as [b1 b2]. unfold Cnorm2. simpl. ring. }
    rewrite Q. ring. }
  change (byCol (fun i k => U i k - T i k)) with (fun x => byCol U x - byCol T x).
  rewrite P, NU, NT. ring.
Qed.

Corollary residual_zero_iff : forall n U T, unitary n T ->
  (sumsq (hs_residuals n U T) = 0%R <-> meq n n U T).
Proof.
  intros n U T HT. rewrite (residual_norm_diff n U T HT). split.
  - intros H i k Hi Hk.
    assert (Z : sumR (range n) (fun k => Cnorm2 (U i k - T i k)) = 0%R).
    { apply (sumR_eq_0 (range n) (fun i => sumR (range n) (fun k => Cnorm2 (U i k - T i k)))); auto.
      - intros i' _. apply sumR_ge_0. intros k' _. apply Cnorm2_ge_0.
      - apply in_range, Hi. }
    assert (Z2 : Cnorm2 (U i k - T i k) = 0%R).
    { apply (sumR_eq_0 (range n) (fun k => Cnorm2 (U i k - T i k))); auto.
      - intros k' _. apply Cnorm2_ge_0.
      - apply in_range, Hk. }
    apply Cnorm2_eq_0 in Z2. replace (U i k) with ((U i k - T i k) + T i k) by ring. rewrite Z2. ring.
  - intros H. rewrite (sumR_ext (range n) _ (fun _ => 0%R)).
    + clear. induction (range n); simpl; [reflexivity|]. rewrite IHl. ring.
    + intros i Hi. apply in_range in Hi. rewrite (sumR_ext (range n) _ (fun _ => 0%R)).
      * clear. induction (range n); simpl; [reflexivity|]. rewrite IHl. ring.
      * intros k Hk. apply in_range in Hk. rewrite (H i k Hi Hk).
        replace (T i k - T i k) with (RtoC 0) by ring. unfold Cnorm2. simpl. ring.
Qed.

Lemma Re_le_Cmod : forall z, (Re z <= Cmod z)%R.
Proof.
  intros z. rewrite Cmod_norm2. unfold Cnorm2.
  destruct (Rle_dec 0 (Re z)) as [P|N].
  - rewrite <- (sqrt_square (Re z)) at 1 by exact P. apply sqrt_le_1_alt. nra.
  - pose proof (sqrt_pos (Re z * Re z + Im z * Im z)). lra.
Qed.

(* a small sum of squared residuals forces a small cost: 2N cost <= sum r^2 *)
Corollary residual_bounds_cost : forall n U T, (0 < n)%nat -> unitary n U -> unitary n T ->
  (2 * INR n * hs_cost n U T <= sumsq (hs_residuals n U T))%R.
Proof.
  intros n U T Hn HU HT. rewrite (residual_norm n U T HU HT). unfold hs_cost.
  pose proof (Re_le_Cmod (hs_overlap n U T)). pose proof (lt_0_INR n Hn).
  replace (2 * INR n * (1 - Cmod (hs_overlap n U T) / INR n))%R with (2 * INR n - 2 * Cmod (hs_overlap n U T))%R
    by (field; lra).
  lra.
Qed.

(* state residuals: their SUM (they are squared moduli already) is ||u - t||^2 = 2 - 2 Re <t|u> *)
Theorem state_residual_sum : forall n U t, (0 < n)%nat -> unitary n U -> unitvec n t ->
  fold_right Rplus 0%R (state_residuals n U t) = (2 - 2 * Re (state_overlap n U t))%R.
Proof.
  intros n U t Hn HU Ht. pose proof (unitary_col_unit n U 0 Hn HU) as Hu.
  unfold state_residuals, state_overlap.
  assert (F : forall (l : list nat) (f : nat -> R), fold_right Rplus 0%R (map f l) = sumR l f).
  { induction l as [|x r IH]; intros; simpl; [reflexivity|]. rewrite IH. reflexivity. }
  rewrite F.
  apply unitvec_norm2 in Hu. apply unitvec_norm2 in Ht. unfold norm2 in Hu, Ht. unfold vdot. rewrite Re_sumC.
  change (fun i => Cnorm2 (U i 0%nat - t i)) with (fun i => Cnorm2 (col U 0 i - t i)).
  revert Hu Ht. generalize (col U 0) as u. intros u. generalize (range n) as l.
  assert (Q : forall l, sumR l (fun k => Cnorm2 (u k - t k)) =
       (sumR l (fun k => Cnorm2 (u k)) + sumR l (fun k => Cnorm2 (t k)) - 2 * sumR l (fun k => Re (Cmult (Cconj (t k)) (u k))))%R).
  { induction l as [|x r IH]; simpl; [ring|]. rewrite IH.
    destruct (t x) as [a1 a2], (u x) as [b1 b2]. unfold Cnorm2. simpl. ring. }
  intros l Hu Ht. rewrite Q, Hu, Ht. ring.
Qed.

(* ------------------------------------------------------------------ *)
(* gradient                                                            *)
(* ------------------------------------------------------------------ *)
Lemma is_derive_sumR : forall {I} (l : list I) (f : I -> R -> R) (df : I -> R) x,
  (forall k, In k l -> is_derive (f k) x (df k)) ->
  is_derive (fun y => sumR l (fun k => f k y)) x (sumR l df).
Proof.
  induction l as [|i t IH]; intros f df x H; simpl.
  - apply (is_derive_const (K := R_AbsRing) (V := R_NormedModule)).
  - apply (is_derive_plus (K := R_AbsRing) (V := R_NormedModule)); [apply H; now left|].
    apply IH. intros k Hk. apply H. now right.
Qed.

Lemma is_derive_cmod : forall (g h : R -> R) x dg dh,
  is_derive g x dg -> is_derive h x dh -> (0 < g x ^ 2 + h x ^ 2)%R ->
  is_derive (fun y => sqrt (g y ^ 2 + h y ^ 2)%R) x ((g x * dg + h x * dh) / sqrt (g x ^ 2 + h x ^ 2))%R.
Proof.
  intros g h x dg dh Hg Hh P.
  evar_last.
  - apply is_derive_sqrt.
    + apply (is_derive_plus (K := R_AbsRing) (V := R_NormedModule)); apply is_derive_pow; eassumption.
    + exact P.
  - simpl. unfold plus; simpl. field. apply Rgt_not_eq. apply sqrt_lt_R0. exact P.
Qed.

Lemma overlap_re : forall n A T,
  Re (hs_overlap n A T) = sumR (pairs n n) (fun x => Re (byCol T x) * Re (byCol A x) + Im (byCol T x) * Im (byCol A x))%R.
Proof.
  intros. rewrite hs_overlap_inner. unfold inner. rewrite Re_sumC. apply sumR_ext. intros x _.
  destruct (byCol T x), (byCol A x). simpl. ring.
Qed.
Lemma overlap_im : forall n A T,
  Im (hs_overlap n A T) = sumR (pairs n n) (fun x => Re (byCol T x) * Im (byCol A x) - Im (byCol T x) * Re (byCol A x))%R.
Proof.
  intros. rewrite hs_overlap_inner. unfold inner. rewrite Im_sumC. apply sumR_ext. intros x _.
  destruct (byCol T x), (byCol A x). simpl. ring.
Qed.

Section Grad.
Variable n : nat.
Variable U : R -> matrix.       (* x |-> circuit unitary, one parameter varying *)
Variable dU T : matrix.
Variable x0 : R.
Hypothesis HRe : forall i j, (i < n)%nat -> (j < n)%nat -> is_derive (fun x => Re (U x i j)) x0 (Re (dU i j)).
Hypothesis HIm : forall i j, (i < n)%nat -> (j < n)%nat -> is_derive (fun x => Im (U x i j)) x0 (Im (dU i j)).

Lemma overlap_re_derive : is_derive (fun x => Re (hs_overlap n (U x) T)) x0 (Re (hs_overlap n dU T)).
Proof.
  rewrite overlap_re.
  apply (is_derive_ext (fun x => sumR (pairs n n) (fun k => (Re (byCol T k) * Re (byCol (U x) k) + Im (byCol T k) * Im (byCol (U x) k))%R))).
  { intros x. symmetry. apply overlap_re. }
  apply (is_derive_sumR (pairs n n) (fun k x => (Re (byCol T k) * Re (byCol (U x) k) + Im (byCol T k) * Im (byCol (U x) k))%R)).
  intros [i k] Hik. apply in_pairs in Hik. unfold byCol; simpl.
  apply (is_derive_plus (K := R_AbsRing) (V := R_NormedModule)); apply is_derive_scal; [apply HRe|apply HIm]; tauto.
Qed.

Lemma overlap_im_derive : is_derive (fun x => Im (hs_overlap n (U x) T)) x0 (Im (hs_overlap n dU T)).
Proof.
  rewrite overlap_im.
  apply (is_derive_ext (fun x => sumR (pairs n n) (fun k => (Re (byCol T k) * Im (byCol (U x) k) - Im (byCol T k) * Re (byCol (U x) k))%R))).
  { intros x. symmetry. apply overlap_im. }
  apply (is_derive_sumR (pairs n n) (fun k x => (Re (byCol T k) * Im (byCol (U x) k) - Im (byCol T k) * Re (byCol (U x) k))%R)).
  intros [i k] Hik. apply in_pairs in Hik. unfold byCol; simpl.
  apply (is_derive_minus (K := R_AbsRing) (V := R_NormedModule)); apply is_derive_scal; [apply HIm|apply HRe]; tauto.
Qed.

(* the analytic gradient entry is the derivative of the cost, wherever tr(T^dagger U) <> 0 *)
Theorem hs_grad_is_derivative : hs_overlap n (U x0) T <> 0 ->
  is_derive (fun x => hs_cost n (U x) T) x0 (hs_grad n (U x0) dU T).
Proof.
  intros NZ. unfold hs_cost, hs_grad.
  set (p := fun x => hs_overlap n (U x) T).
  assert (P : (0 < Re (p x0) ^ 2 + Im (p x0) ^ 2)%R).
  { assert (Cmod (p x0) <> 0%R) by (intros F; apply NZ; apply Cmod_eq_0; exact F).
    pose proof (Cmod_ge_0 (p x0)). pose proof (Cmod_sqr (p x0)) as S. unfold Cnorm2 in S. nra. }
  pose proof (is_derive_cmod (fun x => Re (p x)) (fun x => Im (p x)) x0 _ _ overlap_re_derive overlap_im_derive P) as D.
  apply (is_derive_ext (fun x => (1 - / INR n * sqrt (Re (p x) ^ 2 + Im (p x) ^ 2))%R)).
  { intros x. unfold Cmod, Re, Im, Rdiv. fold (p x). apply (f_equal (Rminus 1)). apply Rmult_comm. }
  evar_last.
  - apply (is_derive_minus (K := R_AbsRing) (V := R_NormedModule)).
    + apply (is_derive_const (K := R_AbsRing) (V := R_NormedModule)).
    + apply is_derive_scal. exact D.
  - unfold minus, plus, opp, zero; simpl. fold (p x0). unfold Cmod, Re, Im. unfold Rdiv.
    replace (fst (p x0) * (fst (p x0) * 1) + snd (p x0) * (snd (p x0) * 1))%R
      with (fst (p x0) ^ 2 + snd (p x0) ^ 2)%R by ring.
    ring.
Qed.
End Grad.

Lemma is_derive_infid : forall (g h : R -> R) x dg dh,
  is_derive g x dg -> is_derive h x dh ->
  is_derive (fun y => 1 - (g y * g y + h y * h y))%R x (- (2 * (g x * dg + h x * dh)))%R.
Proof.
  intros g h x dg dh Hg Hh. evar_last.
  - auto_derive; [repeat split; eexists; eassumption|reflexivity].
  - replace (Derive (fun x0 : R => g x0) x) with dg by (symmetry; apply is_derive_unique; exact Hg).
    replace (Derive (fun x0 : R => h x0) x) with dh by (symmetry; apply is_derive_unique; exact Hh). ring.
Qed.

Section StateGrad.
Variable n : nat.
Variable U : R -> matrix.
Variable dU : matrix.
Variable t : vector.
Variable x0 : R.
Hypothesis HRe : forall i, (i < n)%nat -> is_derive (fun x => Re (U x i 0%nat)) x0 (Re (dU i 0%nat)).
Hypothesis HIm : forall i, (i < n)%nat -> is_derive (fun x => Im (U x i 0%nat)) x0 (Im (dU i 0%nat)).

Lemma sov_re : forall A, Re (state_overlap n A t) = sumR (range n) (fun k => Re (t k) * Re (A k 0%nat) + Im (t k) * Im (A k 0%nat))%R.
Proof. intros. unfold state_overlap, vdot, col. rewrite Re_sumC. apply sumR_ext. intros k _. destruct (t k), (A k 0%nat). simpl. ring. Qed.
Lemma sov_im : forall A, Im (state_overlap n A t) = sumR (range n) (fun k => Re (t k) * Im (A k 0%nat) - Im (t k) * Re (A k 0%nat))%R.
Proof. intros. unfold state_overlap, vdot, col. rewrite Im_sumC. apply sumR_ext. intros k _. destruct (t k), (A k 0%nat). simpl. ring. Qed.

Theorem state_grad_is_derivative :
  is_derive (fun x => state_cost n (U x) t) x0 (state_grad n (U x0) dU t).
Proof.
  unfold state_cost, state_grad, Cnorm2.
  assert (DR : is_derive (fun x => Re (state_overlap n (U x) t)) x0 (Re (state_overlap n dU t))).
  { rewrite sov_re. apply (is_derive_ext (fun x => sumR (range n) (fun k => (Re (t k) * Re (U x k 0%nat) + Im (t k) * Im (U x k 0%nat))%R))).
    { intros x. symmetry. apply sov_re. }
    apply (is_derive_sumR (range n) (fun k x => (Re (t k) * Re (U x k 0%nat) + Im (t k) * Im (U x k 0%nat))%R)).
    intros k Hk. apply in_range in Hk.
    apply (is_derive_plus (K := R_AbsRing) (V := R_NormedModule)); apply is_derive_scal; auto. }
  assert (DI : is_derive (fun x => Im (state_overlap n (U x) t)) x0 (Im (state_overlap n dU t))).
  { rewrite sov_im. apply (is_derive_ext (fun x => sumR (range n) (fun k => (Re (t k) * Im (U x k 0%nat) - Im (t k) * Re (U x k 0%nat))%R))).
    { intros x. symmetry. apply sov_im. }
    apply (is_derive_sumR (range n) (fun k x => (Re (t k) * Im (U x k 0%nat) - Im (t k) * Re (U x k 0%nat))%R)).
    intros k Hk. apply in_range in Hk.
    apply (is_derive_minus (K := R_AbsRing) (V := R_NormedModule)); apply is_derive_scal; auto. }
  exact (is_derive_infid _ _ x0 _ _ DR DI).
Qed.
End StateGrad.

(* ------------------------------------------------------------------ *)
(* concrete instances (used by the non-vacuity examples of props/C19.v) *)
(* ------------------------------------------------------------------ *)
Definition mat2 (a b c d : C) : matrix :=
  fun i j => match i, j with 0%nat, 0%nat => a | 0%nat, _ => b | _, 0%nat => c | _, _ => d end.
Definition Xg : matrix := mat2 0 1 1 0.
Definition Zg : matrix := mat2 1 0 0 (-(1)).
Definition iZg : matrix := mat2 Ci 0 0 (- Ci).
Definition Id2 : matrix := mat2 1 0 0 1.

Ltac two_cases i j Hi Hj :=
  destruct i as [|[|i]]; [| |exfalso; lia]; (destruct j as [|[|j]]; [| |exfalso; lia]).

Lemma unitary_mat2 : forall a b c d : C,
  Cconj a * a + Cconj c * c = 1 -> Cconj b * b + Cconj d * d = 1 -> Cconj a * b + Cconj c * d = 0 ->
  a * Cconj a + b * Cconj b = 1 -> c * Cconj c + d * Cconj d = 1 -> a * Cconj c + b * Cconj d = 0 ->
  unitary 2 (mat2 a b c d).
Proof.
  intros a b c d H1 H2 H3 H4 H5 H6.
  assert (H3' : Cconj b * a + Cconj d * c = 0).
  { apply (f_equal Cconj) in H3. rewrite Cconj_plus, !Cconj_mult, !Cconj_invol, Cconj_R in H3. rewrite <- H3. ring. }
  assert (H6' : c * Cconj a + d * Cconj b = 0).
  { apply (f_equal Cconj) in H6. rewrite Cconj_plus, !Cconj_mult, !Cconj_invol, Cconj_R in H6. rewrite <- H6. ring. }
  split; intros i j Hi Hj; two_cases i j Hi Hj; unfold mmul, dagger, range, ident, mat2; simpl;
    rewrite ?Cplus_0_r; assumption.
Qed.

Lemma unitary_Xg : unitary 2 Xg.
Proof. apply unitary_mat2; apply Ceq; simpl; ring. Qed.
Lemma unitary_Zg : unitary 2 Zg.
Proof. apply unitary_mat2; apply Ceq; simpl; ring. Qed.
Lemma unitary_iZg : unitary 2 iZg.
Proof. apply unitary_mat2; apply Ceq; simpl; ring. Qed.
Lemma unitary_Id2 : unitary 2 Id2.
Proof. apply unitary_mat2; apply Ceq; simpl; ring. Qed.

Lemma hs_overlap_mat2 : forall a b c d a' b' c' d',
  hs_overlap 2 (mat2 a b c d) (mat2 a' b' c' d') = Cconj a' * a + Cconj c' * c + (Cconj b' * b + Cconj d' * d).
Proof. intros. unfold hs_overlap, trace, mmul, dagger, range, mat2. simpl. ring. Qed.

(* X against I: orthogonal, cost 1 ; iZ against Z: equal up to the phase i, cost 0 *)
Lemma hs_cost_X_I : hs_cost 2 Xg Id2 = 1%R.
Proof.
  unfold hs_cost, Xg, Id2. rewrite hs_overlap_mat2.
  replace (Cconj 1 * 0 + Cconj 0 * 1 + (Cconj 0 * 1 + Cconj 1 * 0)) with (RtoC 0) by (apply Ceq; simpl; ring).
  rewrite Cmod_0. unfold Rdiv. ring.
Qed.
Lemma hs_cost_iZ_Z : hs_cost 2 iZg Zg = 0%R.
Proof.
  unfold hs_cost, iZg, Zg. rewrite hs_overlap_mat2.
  replace (Cconj 1 * Ci + Cconj 0 * 0 + (Cconj 0 * 0 + Cconj (- (1)) * - Ci)) with (Ci * RtoC 2) by (apply Ceq; simpl; ring).
  rewrite Cmod_mult, Cmod_R, Rabs_pos_eq by lra.
  replace (Cmod Ci) with 1%R. { simpl. field. }
  unfold Cmod, Ci. simpl. replace (0 * (0 * 1) + 1 * (1 * 1))%R with 1%R by ring. symmetry. apply sqrt_1.
Qed.
