(* Executable model of the multi-start / method-selection logic of
     bqskit/ir/opt/instantiater.py    Instantiater.multi_start_instantiate_inplace
     bqskit/ir/opt/instantiaters/minimization.py  (its override: which cost ranks the starts)
     bqskit/ir/circuit.py              Circuit.instantiate (method selection), Circuit.set_params
   No proofs here (they live in MultiStartThm.v): this file must keep compiling and
   extracting when a proof breaks.

   Everything numerical is an oracle argument: the start generator, the
   instantiater's `instantiate`, `is_capable`, the cost function that ranks the
   candidates.  Floats are an abstract type K with the comparison `ltb` that
   Python's sort uses (`<` only). *)
From Coq Require Import List Arith Bool ZArith.
Import ListNotations.

Inductive err := TypeError | ValueError | IndexError.
Inductive res (A : Type) := Ok (a : A) | Err (e : err).
Arguments Ok {A} a.
Arguments Err {A} e.

Section Model.
Variable X : Type.                 (* one circuit parameter (a float) *)
Variable K : Type.                 (* a cost value (a float) *)
Variable ltb : K -> K -> bool.     (* Python's `<` on cost values *)

(* ---- circuit: the operations in iteration order (`for op in self`) --------- *)
Record op := mkop {
  gate : nat;            (* interned gate object *)
  gnp : nat;             (* gate.num_params *)
  loc : list nat;        (* op.location *)
  params : list X        (* op.params *)
}.
Definition circuit := list op.

Definition shape (o : op) : nat * nat * list nat := (gate o, gnp o, loc o).
Definition num_params (c : circuit) : nat := fold_right (fun o a => gnp o + a) 0 c.
(* Circuit.params : concatenation of the op parameter lists *)
Definition params_of (c : circuit) : list X := concat (map params c).

(* Circuit.set_params:
     self.check_parameters(params)          -> ValueError on a length mismatch
     param_index = 0
     for op in self:
         op.params = list(params[param_index: param_index + op.num_params])
         param_index += op.num_params                                          *)
Fixpoint assign (c : circuit) (ps : list X) : circuit :=
  match c with
  | [] => []
  | o :: r => mkop (gate o) (gnp o) (loc o) (firstn (gnp o) ps) :: assign r (skipn (gnp o) ps)
  end.

Definition set_params (c : circuit) (ps : list X) : res circuit :=
  if Nat.eqb (length ps) (num_params c) then Ok (assign c ps) else Err ValueError.

(* ---- sorted(params_list, key=cost_fn)[0] ------------------------------------ *)
(* Python's sort is stable, calls the key once per element and compares keys with `<`
   only.  For the list sizes that occur (< 64 elements) CPython runs a binary
   insertion sort; for keys on which `<` is a strict weak order every stable sort
   returns the same list, modelled here as a plain stable insertion sort. *)
Fixpoint insert (x : K * list X) (l : list (K * list X)) : list (K * list X) :=
  match l with
  | [] => [x]
  | y :: t => if ltb (fst x) (fst y) then x :: l else y :: insert x t
  end.
Definition sort_keyed (l : list (K * list X)) : list (K * list X) :=
  fold_left (fun acc x => insert x acc) l [].
Definition sorted_by (key : list X -> K) (l : list (list X)) : list (list X) :=
  map snd (sort_keyed (map (fun p => (key p, p)) l)).

(* ---- multi_start_instantiate_inplace ---------------------------------------- *)
(* start generators: RandomStartGenerator.gen_starting_points
     not is_integer(multistarts)  -> TypeError     (num_starts = None)
     multistarts <= 0             -> ValueError
     else the generator's list (oracle `gen`)                                   *)
Definition gen_starting_points (gen : nat -> list (list X)) (num_starts : option Z)
  : res (list (list X)) :=
  match num_starts with
  | None => Err TypeError
  | Some n => if Z.leb n 0 then Err ValueError else Ok (gen (Z.to_nat n))
  end.

(*  target = self.check_target(target)                       (TypeError)
    starts = start_gen.gen_starting_points(num_starts, circuit, target)
    cost_fn = HilbertSchmidtCostGenerator().gen_cost(circuit, target)
    params_list = [self.instantiate(circuit, target, x0) for x0 in starts]
    params = sorted(params_list, key=lambda x: cost_fn(x))[0]   (IndexError if empty)
    circuit.set_params(params)                                                  *)
Definition choose (cost : list X -> K) (cands : list (list X)) : res (list X) :=
  match sorted_by cost cands with
  | [] => Err IndexError
  | p :: _ => Ok p
  end.

Definition multi_start (target_ok : bool) (gen : nat -> list (list X))
    (inst : list X -> list X) (cost : list X -> K)
    (c : circuit) (num_starts : option Z) : res circuit :=
  if negb target_ok then Err TypeError else
  match gen_starting_points gen num_starts with
  | Err e => Err e
  | Ok starts =>
    match choose cost (map inst starts) with
    | Err e => Err e
    | Ok p => set_params c p
    end
  end.

(* Minimization.multi_start_instantiate_inplace ranks with its own generator's cost
   unless that is a ResidualsFunction, in which case (and in the base class always)
   the Hilbert-Schmidt cost ranks the candidates. *)
Definition rank_cost (own_is_residuals : bool) (own hs : list X -> K) : list X -> K :=
  if own_is_residuals then hs else own.

(* ---- Circuit.instantiate: method selection ----------------------------------- *)
Record instantiater := mkI {
  iname : nat;                          (* get_method_name(), interned, lower-cased *)
  icap : bool;                          (* is_capable(circuit) *)
  irun : list X -> list X;              (* instantiate(circuit, target, x0) *)
  irank : list X -> K                   (* the cost that ranks its starts *)
}.
Inductive method :=
  | MNone                               (* method=None: first capable of instantiater_order *)
  | MName (s : nat)                     (* method='qfactor' / 'minimization' / ... *)
  | MInst (i : instantiater)            (* an Instantiater object *)
  | MBad.                               (* any other type *)

Definition select (order : list instantiater) (m : method) : res instantiater :=
  match m with
  | MInst i => if icap i then Ok i else Err ValueError
  | MNone => match find icap order with Some i => Ok i | None => Err ValueError end
  | MName s =>
    match find (fun i => Nat.eqb (iname i) s) order with
    | Some i => if icap i then Ok i else Err ValueError
    | None => Err ValueError
    end
  | MBad => Err TypeError
  end.

(* Circuit.instantiate(target, method, multistarts, seed):
     seed given but not an int -> ValueError ; select ; multi_start ; return self *)
Definition instantiate (seed_ok target_ok : bool) (order : list instantiater) (m : method)
    (gen : nat -> list (list X)) (c : circuit) (multistarts : option Z) : res circuit :=
  if negb seed_ok then Err ValueError else
  match select order m with
  | Err e => Err e
  | Ok i => multi_start target_ok gen (irun i) (irank i) c multistarts
  end.

End Model.

(* Python floats with NaN: `<` is false as soon as one side is NaN (None); not a strict weak order *)
Definition fltb (a b : option Z) : bool :=
  match a, b with Some x, Some y => Z.ltb x y | _, _ => false end.

Arguments mkop {X}.
Arguments gate {X}. Arguments gnp {X}. Arguments loc {X}. Arguments params {X}.
Arguments mkI {X K}.
Arguments iname {X K}. Arguments icap {X K}. Arguments irun {X K}. Arguments irank {X K}.
Arguments MNone {X K}. Arguments MName {X K}. Arguments MInst {X K}. Arguments MBad {X K}.
