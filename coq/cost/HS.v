(* Model of the Hilbert-Schmidt cost / residual functions that
     bqskit/ir/opt/cost/functions/cost/hilbertschmidt.py       (HilbertSchmidtCost)
     bqskit/ir/opt/cost/functions/residuals/hilbertschmidt.py  (HilbertSchmidtResiduals)
   obtain from the native engine (bqskitrs HilbertSchmidt{,State,System}{Cost,Residual}Fn),
   as functions of the circuit's unitary U = circuit.get_unitary(params).  The formulas were
   measured on the engine and are re-checked on every run by harness/props/c19.py.
   Definitions only (over Coquelicot's C); the proofs are in HSThm.v. *)
From Coq Require Import Reals List Arith.
From Coquelicot Require Import Coquelicot.
Import ListNotations.

(* ---- finite sums over an index list ---------------------------------------- *)
Fixpoint sumC {I : Type} (l : list I) (f : I -> C) : C :=
  match l with [] => RtoC 0 | i :: t => Cplus (f i) (sumC t f) end.
Fixpoint sumR {I : Type} (l : list I) (f : I -> R) : R :=
  match l with [] => 0%R | i :: t => (f i + sumR t f)%R end.
Definition range (n : nat) : list nat := seq 0 n.

Definition Cnorm2 (z : C) : R := (Re z * Re z + Im z * Im z)%R.       (* |z|^2 *)
Definition cis (phi : R) : C := (cos phi, sin phi).                   (* e^{i phi} *)

(* ---- matrices and vectors as functions of their indices --------------------- *)
Definition matrix := nat -> nat -> C.
Definition vector := nat -> C.

Definition dagger (A : matrix) : matrix := fun i j => Cconj (A j i).
Definition mmul (n : nat) (A B : matrix) : matrix :=
  fun i j => sumC (range n) (fun k => Cmult (A i k) (B k j)).
Definition trace (n : nat) (A : matrix) : C := sumC (range n) (fun i => A i i).
Definition ident : matrix := fun i j => if Nat.eqb i j then RtoC 1 else RtoC 0.
Definition msub (A B : matrix) : matrix := fun i j => Cminus (A i j) (B i j).
Definition scale (c : C) (A : matrix) : matrix := fun i j => Cmult c (A i j).
Definition vscale (c : C) (a : vector) : vector := fun i => Cmult c (a i).
Definition meq (n m : nat) (A B : matrix) : Prop := forall i j, (i < n)%nat -> (j < m)%nat -> A i j = B i j.
Definition veq (n : nat) (a b : vector) : Prop := forall i, (i < n)%nat -> a i = b i.
(* U^dagger U = I and U U^dagger = I on the n x n block *)
Definition unitary (n : nat) (U : matrix) : Prop :=
  meq n n (mmul n (dagger U) U) ident /\ meq n n (mmul n U (dagger U)) ident.
Definition vdot (n : nat) (a b : vector) : C := sumC (range n) (fun k => Cmult (Cconj (a k)) (b k)).
Definition unitvec (n : nat) (a : vector) : Prop := vdot n a a = RtoC 1.
Definition col (A : matrix) (j : nat) : vector := fun i => A i j.

(* row-major flattening, as numpy's ravel *)
Definition flat (n m : nat) (A : matrix) : list C :=
  flat_map (fun i => map (fun j => A i j) (range m)) (range n).
Definition sumsq (l : list R) : R := fold_right (fun x a => (x * x + a)%R) 0%R l.

(* ---- unitary target ----------------------------------------------------------- *)
(* cost(params) = 1 - |tr(T^dagger U)| / N *)
Definition hs_overlap (n : nat) (U T : matrix) : C := trace n (mmul n (dagger T) U).
Definition hs_cost (n : nat) (U T : matrix) : R := (1 - Cmod (hs_overlap n U T) / INR n)%R.
(* residuals(params) = [ Re(U T^dagger - I) ravel ; Im(U T^dagger - I) ravel ]   (2 N^2 reals) *)
Definition res_matrix (n : nat) (U T : matrix) : matrix := msub (mmul n U (dagger T)) ident.
Definition hs_residuals (n : nat) (U T : matrix) : list R :=
  map Re (flat n n (res_matrix n U T)) ++ map Im (flat n n (res_matrix n U T)).
(* d cost / d x  for a one-parameter family U(x) with entrywise derivative dU:
   - Re( conj(tr(T^dagger U)) tr(T^dagger dU) ) / (N |tr(T^dagger U)|) *)
Definition hs_grad (n : nat) (U dU T : matrix) : R :=
  let p := hs_overlap n U T in let dp := hs_overlap n dU T in
  (- ((Re p * Re dp + Im p * Im dp) / Cmod p) / INR n)%R.

(* ---- state target: |t> against U|0> (column 0 of U) -------------------------- *)
(* cost = 1 - |<t|U|0>|^2   (infidelity) *)
Definition state_overlap (n : nat) (U : matrix) (t : vector) : C := vdot n t (col U 0%nat).
Definition state_cost (n : nat) (U : matrix) (t : vector) : R :=
  (1 - Cnorm2 (state_overlap n U t))%R.
(* residuals r_i = |U_{i0} - t_i|^2   (N reals: already squared moduli) *)
Definition state_residuals (n : nat) (U : matrix) (t : vector) : list R :=
  map (fun i => Cnorm2 (Cminus (U i 0%nat) (t i))) (range n).
Definition state_grad (n : nat) (U dU : matrix) (t : vector) : R :=
  let p := state_overlap n U t in let dp := state_overlap n dU t in
  (- (2 * (Re p * Re dp + Im p * Im dp)))%R.

(* ---- state system: k pairs v_j -> w_j, the columns of the N x k matrices V, W -- *)
(* cost = 1 - | sum_j <w_j| U |v_j> | / k  =  1 - |tr((W V^dagger)^dagger U)| / k *)
Definition sys_overlap (n k : nat) (U V W : matrix) : C :=
  sumC (range k) (fun j => vdot n (col W j) (col (mmul n U V) j)).
Definition sys_cost (n k : nat) (U V W : matrix) : R :=
  (1 - Cmod (sys_overlap n k U V W) / INR k)%R.
Definition sys_target (k : nat) (V W : matrix) : matrix := mmul k W (dagger V).   (* StateSystem.target *)
Definition sys_residuals (n k : nat) (U V W : matrix) : list R :=
  hs_residuals n U (sys_target k V W).
