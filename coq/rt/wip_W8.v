From Coq Require Import List Arith Bool PeanoNat Lia Permutation.
Import ListNotations.
From BQ Require Import rt.WorkerM rt.wip_W1 rt.wip_W2 rt.wip_W3 rt.wip_W4 rt.wip_W5 rt.wip_W6 rt.wip_W7.

Lemma Forall2_fut_ok_new : forall w2 es c,
  c + length es <= w_counter w2 ->
  (forall k sp, nth_error es k = Some sp -> box_get (c + k) (w_boxes w2) = Some (spec_box sp)) ->
  Forall2 (fut_ok w2) (eff_futs c es) es.
Proof. induction es as [|sp r IH]; simpl; intros c Hc Hnew; constructor.
  - split; [reflexivity|]. split; [simpl; lia|]. simpl. intros b Hb.
    specialize (Hnew 0 sp eq_refl). rewrite Nat.add_0_r in Hnew. rewrite Hnew in Hb. injection Hb as <-. apply spec_box_expect.
  - apply IH; [lia|]. intros k sp' Hk. specialize (Hnew (S k) sp' Hk). rewrite Nat.add_succ_r in Hnew. exact Hnew. Qed.

Lemma Forall2_length' : forall A B (R : A -> B -> Prop) l1 l2, Forall2 R l1 l2 -> length l1 = length l2.
Proof. induction 1; simpl; auto. Qed.

Lemma slot_spec_prefix : forall done tail f i v sp, nth_error (specs_of done) f = Some sp ->
  nth_error (map ret_of (kids sp)) i = Some v -> slot_spec (done ++ tail) f i v.
Proof. intros. exists sp. split; auto. rewrite specs_of_app. rewrite nth_error_app1; auto.
  apply nth_error_Some. congruence. Qed.

(* the value handed to a resumed body is the one its future was created for *)
Definition sv_ok (t : task) (sv : sendval) : Prop :=
  match sv with
  | SNone => True
  | SFull _ vs => forall f, pend_fut (t_pend t) = Some f -> forall i v, nth_error vs i = Some (Some v) -> slot_spec (t_script t) f i v
  | SBatch _ fr => forall f, pend_fut (t_pend t) = Some f -> forall i v, In (i, v) fr -> slot_spec (t_script t) f i v
  end.

Lemma sv_spec_ok : forall w t sv, winvV w -> task_okV w t -> sv_spec w t sv -> sv_ok t sv.
Proof.
  intros w t sv I (T2 & done & F & T3) Hs.
  assert (Hkey : forall m b f, t_desired t = Some m -> box_get m (w_boxes w) = Some b -> pend_fut (t_pend t) = Some f ->
            exists sp tail, t_script t = done ++ tail /\ nth_error (specs_of done) f = Some sp /\ b_expect b = map ret_of (kids sp)).
  { intros m b f Hd Hb Hp. destruct (T2 m Hd) as (f' & n & Hp' & Hf). rewrite Hp in Hp'. injection Hp' as <-.
    destruct (Forall2_nth_l _ _ _ _ _ _ _ F Hf) as (sp & Hsp & (_ & _ & Hexp)). simpl in Hexp.
    destruct T3 as [[E _]|(_ & tl & E)]; [exists sp, (t_rest t); auto|exists sp, tl; auto]. }
  destruct Hs as [Hd|m b Hd Hw Hb|m b fr Hd Hw Hb Hfr]; unfold sv_ok; auto.
  - intros f Hp i v Hn. destruct (Hkey m b f Hd Hb Hp) as (sp & tail & E1 & E2 & E3). rewrite E1.
    eapply slot_spec_prefix; eauto. rewrite <- E3. destruct (V_boxes w I _ _ Hb) as (_ & X & _). auto.
  - intros f Hp i v Hn. destruct (Hkey m b f Hd Hb Hp) as (sp & tail & E1 & E2 & E3). rewrite E1.
    eapply slot_spec_prefix; eauto. rewrite <- E3. destruct (V_boxes w I _ _ Hb) as (_ & _ & X). eauto.
Qed.

Lemma winvV_log : forall w e, winvV w -> log_okV e -> winvV (set_log w (w_log w ++ [e])).
Proof. intros w e I He. destruct I as [K1 K2 K3 K4 K5 K6]. constructor.
  - exact K1.
  - exact K2.
  - exact K3.
  - intros t Hin. eapply task_okV_same; [| |apply K4; exact Hin]; reflexivity.
  - exact K5.
  - simpl. apply Forall_app. split; auto. Qed.

Definition run_V_post (wL : wstate) (t0 : task) (w2 : wstate) (t3 : task) (y : yield) : Prop :=
  exists es,
    winvV w2 /\ ext wL w2 /\ w_tasks w2 = w_tasks wL /\ w_delayed w2 = w_delayed wL /\ w_pc w2 = w_pc wL /\
    w_id w2 = w_id wL /\ w_log w2 = w_log wL /\ w_counter w2 = w_counter wL + length es /\
    w_out w2 = w_out wL ++ eff_msgs (me wL) (t_comp t0) (w_counter wL) es /\
    (forall x, In x (eff_tasks (me wL) (t_comp t0) (w_counter wL) es) -> lexp w2 (t_addr x) (ret_of (t_script x))) /\
    t_addr t3 = t_addr t0 /\ t_script t3 = t_script t0 /\ t_comp t3 = t_comp t0 /\ t_desired t3 = None /\
    task_okV w2 t3 /\
    (forall m nxt, y = YAwait m nxt -> exists f n, pend_fut (t_pend t3) = Some f /\ nth_error (t_futs t3) f = Some (m, n)) /\
    (forall v, y = YReturn v -> v = ret_of (t_script t0)).

Lemma raised_V : forall wL t0, winvV wL -> task_okV wL t0 -> t_desired t0 = None ->
  run_V_post wL t0 wL (t_set_rest t0 [Dead]) YRaise.
Proof.
  intros wL t0 I (T2 & done & F & T3) Hd. exists []. simpl. rewrite Nat.add_0_r, app_nil_r.
  split; [exact I|]. split; [apply ext_refl|].
  do 7 (split; [reflexivity|]).
  split; [intros x []|].
  do 3 (split; [reflexivity|]). split; [exact Hd|].
  split.
  - split; [simpl; intros m Hm; congruence|].
    exists done. split; auto. right. simpl. split; auto.
    destruct T3 as [[E _]|(_ & E)]; eauto.
  - split; intros; discriminate.
Qed.

Lemma run_V : forall wL t0 w2 t3 y, winvV wL -> task_okV wL t0 -> t_desired t0 = None ->
  run (t_rest t0) wL t0 = (w2, t3, y) -> run_V_post wL t0 w2 t3 y.
Proof.
  intros wL t0 w2 t3 y I Ht0 Hd H.
  pose proof Ht0 as (T2 & done & F & T3).
  destruct T3 as [[Escr Eret]|(Edead & tail0 & Escr)].
  2:{ rewrite Edead in H. simpl in H. unfold raised in H. injection H as <- <- <-. apply raised_V; auto. }
  apply run_exact in H. destruct H as (es & cons & tail & Hsplit & Hspec & Hw & Ht & Htl & Hy & Hr & He).
  destruct (apply_eff_V wL (t_comp t0) es I) as (I2 & E2 & Hnew). rewrite <- Hw in I2, E2, Hnew.
  exists es.
  assert (Hc2 : w_counter w2 = w_counter wL + length es) by (rewrite Hw; reflexivity).
  split; [exact I2|]. split; [exact E2|].
  split; [rewrite Hw; reflexivity|]. split; [rewrite Hw; reflexivity|]. split; [rewrite Hw; reflexivity|].
  split; [rewrite Hw; reflexivity|]. split; [rewrite Hw; reflexivity|]. split; [exact Hc2|].
  split; [rewrite Hw; reflexivity|].
  split.
  { intros x Hx. apply eff_tasks_In_full in Hx. destruct Hx as (k & sp & j & child & H1 & H2 & ->).
    simpl. intros b Hb. simpl in Hb. rewrite (Hnew k sp H1) in Hb. injection Hb as <-.
    rewrite spec_box_expect. simpl. rewrite nth_error_map, H2. reflexivity. }
  split; [rewrite Ht; reflexivity|]. split; [rewrite Ht; reflexivity|]. split; [rewrite Ht; reflexivity|].
  split; [rewrite Ht; simpl; exact Hd|].
  split.
  { (* task_okV w2 t3 *)
    split; [intros m Hm; rewrite Ht in Hm; simpl in Hm; congruence|].
    exists (done ++ cons). split.
    - rewrite Ht. simpl. rewrite specs_of_app, Hspec. apply Forall2_app.
      + eapply Forall2_fut_ok_ext; eauto.
      + apply Forall2_fut_ok_new; [lia|exact Hnew].
    - destruct y as [m nxt|v|].
      + destruct Htl as [G1 G2]; [discriminate|]. left. replace (t_script t3) with (t_script t0) by (rewrite Ht; reflexivity).
        rewrite <- G1. split; [rewrite Escr, Hsplit, app_assoc; reflexivity|]. rewrite Eret, <- G2, Hsplit. reflexivity.
      + destruct Htl as [G1 G2]; [discriminate|]. left. replace (t_script t3) with (t_script t0) by (rewrite Ht; reflexivity).
        rewrite <- G1. split; [rewrite Escr, Hsplit, app_assoc; reflexivity|]. rewrite Eret, <- G2, Hsplit. reflexivity.
      + right. split; [auto|]. exists tail.
        replace (t_script t3) with (t_script t0) by (rewrite Ht; reflexivity). rewrite Escr, Hsplit, app_assoc. reflexivity. }
  split.
  - intros m nxt E. destruct (Hy m nxt E) as ((f & n & P1 & P2 & _) & _). eauto.
  - intros v E. rewrite (Hr v E). symmetry. exact Eret.
Qed.

Lemma task_okV_set_pend_cnt : forall w t p n, t_desired t = None -> task_okV w t ->
  task_okV w (t_set_cnt (t_set_pend t p) n).
Proof. intros w t p n Hd (T2 & done & F & T3). split; [simpl; intros m Hm; congruence|]. exists done. auto. Qed.
Lemma task_okV_set_pend : forall w t p, t_desired t = None -> task_okV w t -> task_okV w (t_set_pend t p).
Proof. intros w t p Hd (T2 & done & F & T3). split; [simpl; intros m Hm; congruence|]. exists done. auto. Qed.

Lemma resume_V : forall w1 t2 sv w2 t3 y, winvV w1 -> task_okV w1 t2 -> t_desired t2 = None -> sv_ok t2 sv ->
  resume w1 t2 sv = (w2, t3, y) ->
  exists wL t2', w_id wL = w_id w1 /\ w_counter wL = w_counter w1 /\ w_tasks wL = w_tasks w1 /\
    w_delayed wL = w_delayed w1 /\ w_pc wL = w_pc w1 /\ w_out wL = w_out w1 /\ w_boxes wL = w_boxes w1 /\
    t_addr t2' = t_addr t2 /\ t_script t2' = t_script t2 /\ t_comp t2' = t_comp t2 /\
    run_V_post wL t2' w2 t3 y.
Proof.
  intros w1 t2 sv w2 t3 y I Ht2 Hd Hsv H. unfold resume in H.
  assert (Hraise : raised w1 t2 = (w2, t3, y) -> exists wL t2', w_id wL = w_id w1 /\ w_counter wL = w_counter w1 /\ w_tasks wL = w_tasks w1 /\
    w_delayed wL = w_delayed w1 /\ w_pc wL = w_pc w1 /\ w_out wL = w_out w1 /\ w_boxes wL = w_boxes w1 /\
    t_addr t2' = t_addr t2 /\ t_script t2' = t_script t2 /\ t_comp t2' = t_comp t2 /\
    run_V_post wL t2' w2 t3 y).
  { unfold raised. intro E. injection E as <- <- <-. exists w1, t2. do 10 (split; [reflexivity|]). apply raised_V; auto. }
  assert (Hrun : forall wL t2', winvV wL -> task_okV wL t2' -> t_desired t2' = None -> t_rest t2' = t_rest t2 ->
     w_id wL = w_id w1 -> w_counter wL = w_counter w1 -> w_tasks wL = w_tasks w1 ->
     w_delayed wL = w_delayed w1 -> w_pc wL = w_pc w1 -> w_out wL = w_out w1 -> w_boxes wL = w_boxes w1 ->
     t_addr t2' = t_addr t2 -> t_script t2' = t_script t2 -> t_comp t2' = t_comp t2 ->
     run (t_rest t2) wL t2' = (w2, t3, y) ->
     exists wL t2', w_id wL = w_id w1 /\ w_counter wL = w_counter w1 /\ w_tasks wL = w_tasks w1 /\
       w_delayed wL = w_delayed w1 /\ w_pc wL = w_pc w1 /\ w_out wL = w_out w1 /\ w_boxes wL = w_boxes w1 /\
       t_addr t2' = t_addr t2 /\ t_script t2' = t_script t2 /\ t_comp t2' = t_comp t2 /\
       run_V_post wL t2' w2 t3 y).
  { intros wL t2' IL Ht Hd' Hrest A1 A2 A3 A4 A5 A6 A7 B1 B2 B3 Hr. exists wL, t2'. do 10 (split; [assumption|]).
    rewrite <- Hrest in Hr. apply run_V; auto. }
  assert (TL : forall e, task_okV (set_log w1 (w_log w1 ++ [e])) t2).
  { intro e. eapply task_okV_same; [| |exact Ht2]; reflexivity. }
  destruct (t_pend t2) eqn:Ep; destruct sv as [|m vs|m fr]; try (apply Hraise; exact H).
  - (* PendNone: first step *) apply (Hrun w1 t2); try reflexivity; auto.
  - apply (Hrun w1 t2); try reflexivity; auto.
  - apply (Hrun w1 t2); try reflexivity; auto.
  - (* PendAwait, SNone *)
    match type of H with run _ ?wl ?tl = _ => apply (Hrun wl tl) end; try reflexivity; try exact H; try (simpl; exact Hd);
      [apply winvV_log; [exact I|] |apply task_okV_set_pend; [exact Hd|apply TL]].
    simpl. intros i v Hn. destruct i; discriminate.
  - (* PendAwait, SFull *)
    match type of H with run _ ?wl ?tl = _ => apply (Hrun wl tl) end; try reflexivity; try exact H; try (simpl; exact Hd);
      [apply winvV_log; [exact I|] |apply task_okV_set_pend; [exact Hd|apply TL]].
    simpl. simpl in Hsv. rewrite Ep in Hsv. apply Hsv. reflexivity.
  - (* PendNext, SNone *)
    match type of H with run _ ?wl ?tl = _ => apply (Hrun wl tl) end; try reflexivity; try exact H; try (simpl; exact Hd);
      [apply winvV_log; [exact I|] |apply task_okV_set_pend; [exact Hd|apply TL]].
    simpl. intros i v [].
  - (* PendNext, SBatch *)
    match type of H with run _ ?wl ?tl = _ => apply (Hrun wl tl) end; try reflexivity; try exact H; try (simpl; exact Hd);
      [apply winvV_log; [exact I|] |apply task_okV_set_pend; [exact Hd|apply TL]].
    simpl. simpl in Hsv. rewrite Ep in Hsv. apply Hsv. reflexivity.
  - (* PendNextAll, SBatch *)
    match type of H with run _ ?wl ?tl = _ => apply (Hrun wl tl) end; try reflexivity; try exact H; try (simpl; exact Hd);
      [apply winvV_log; [exact I|] |apply task_okV_set_pend_cnt; [exact Hd|apply TL]].
    simpl. simpl in Hsv. rewrite Ep in Hsv. apply Hsv. reflexivity.
Qed.

Lemma winvV_task_upd : forall w a t t', winvV w -> task_get a (w_tasks w) = Some t ->
  t_addr t' = t_addr t -> t_script t' = t_script t -> t_rest t' = t_rest t -> t_futs t' = t_futs t -> t_pend t' = t_pend t ->
  (forall m, t_desired t' = Some m -> exists f n, pend_fut (t_pend t') = Some f /\ nth_error (t_futs t') f = Some (m, n)) ->
  winvV (set_tasks w (task_set t' (w_tasks w))).
Proof.
  intros w a t t' I Hg A1 A2 A3 A4 A5 HT2.
  pose proof (task_get_Some _ _ _ Hg) as [Ha Hin].
  apply winvV_task_set; auto.
  - destruct (V_tasks w I t Hin) as (T2 & done & F & T3). split; auto. exists done. rewrite A2, A3, A4. auto.
  - intros a' m' Hpc Ea. pose proof (V_pc w I) as P. unfold pc_okV in P.
    assert (Q : exists t0 f n, task_get a' (w_tasks w) = Some t0 /\ pend_fut (t_pend t0) = Some f /\ nth_error (t_futs t0) f = Some (m', n)).
    { destruct Hpc as [[nx [E|E]]|E]; rewrite E in P; exact P. }
    destruct Q as (t0 & f & n & Q1 & Q2 & Q3). assert (t0 = t) by congruence. subst t0.
    exists f, n. rewrite A4, A5. auto.
Qed.

Definition pend_at (w : wstate) (a : addr) (m : nat) : Prop :=
  exists t f n, task_get a (w_tasks w) = Some t /\ pend_fut (t_pend t) = Some f /\ nth_error (t_futs t) f = Some (m, n).

Lemma aw1_V : forall w a m, winvV w -> pend_at w a m ->
  winvV (aw1 w a m) /\ ext w (aw1 w a m) /\ pend_at (aw1 w a m) a m.
Proof.
  intros w a m I (t & f & n & Hg & Hp & Hf). unfold aw1.
  set (w1 := match box_get m (w_boxes w) with
             | Some b => set_boxes w (box_set m (b_set_dest b (Some a)) (w_boxes w)) | None => w end).
  assert (I1 : winvV w1 /\ ext w w1 /\ w_tasks w1 = w_tasks w).
  { subst w1. destruct (box_get m (w_boxes w)) as [b|] eqn:Eb.
    - split; [|split; [|reflexivity]].
      + apply (winvV_box_set w m (b_set_dest b (Some a)) b I Eb eq_refl).
        destruct (V_boxes w I _ _ Eb) as (X1 & X2 & X3). split; auto.
      + apply (ext_box_set w m (b_set_dest b (Some a)) b Eb eq_refl).
    - split; auto. split; [apply ext_refl|reflexivity]. }
  destruct I1 as (I1 & E1 & T1).
  assert (Hg1 : task_get a (w_tasks w1) = Some t) by (rewrite T1; auto). rewrite Hg1.
  pose proof (task_get_Some _ _ _ Hg) as [Ha _].
  split; [|split].
  - apply (winvV_task_upd w1 a t (t_set_desired t (Some m))); auto; try reflexivity.
    simpl. intros m' E. injection E as <-. eauto.
  - eapply ext_trans; [exact E1|]. apply ext_same; reflexivity.
  - exists (t_set_desired t (Some m)), f, n. simpl. split; auto.
    rewrite <- Ha. apply (task_get_task_set_same (t_set_desired t (Some m))).
Qed.

Lemma aw1c_V : forall w a m nxt, winvV w -> pend_at w a m ->
  winvV (aw1c w a nxt) /\ ext w (aw1c w a nxt) /\ pend_at (aw1c w a nxt) a m.
Proof.
  intros w a m nxt I (t & f & n & Hg & Hp & Hf). unfold aw1c. rewrite Hg.
  pose proof (task_get_Some _ _ _ Hg) as [Ha Hin].
  split; [|split].
  - apply (winvV_task_upd w a t (t_set_won t nxt)); auto. simpl.
    destruct (V_tasks w I t Hin) as (T2 & _). exact T2.
  - apply ext_same; reflexivity.
  - exists (t_set_won t nxt), f, n. simpl. split; auto.
    rewrite <- Ha. apply (task_get_task_set_same (t_set_won t nxt)).
Qed.

Lemma aw2_V : forall w a m, winvV w -> winvV (aw2 w a m) /\ ext w (aw2 w a m) /\ w_tasks (aw2 w a m) = w_tasks w.
Proof. intros w a m I. unfold aw2. destruct (box_get m (w_boxes w)) as [b|]; [destruct (b_ready b)|].
  - split; [eapply winvV_same; [| | | | |exact I]; reflexivity|]. split; [apply ext_same; reflexivity|reflexivity].
  - split; auto. split; [apply ext_refl|reflexivity].
  - split; auto. split; [apply ext_refl|reflexivity]. Qed.

Lemma winvV_tasks_subset : forall w ts, winvV w -> plain_pc (w_pc w) -> (forall t, In t ts -> In t (w_tasks w)) ->
  winvV (set_tasks w ts).
Proof. intros w ts I Hp Hsub. destruct I as [K1 K2 K3 K4 K5 K6]. constructor; auto.
  - intros t Hin. eapply task_okV_same; [| |apply K4; apply Hsub; exact Hin]; reflexivity.
  - unfold pc_okV. simpl. destruct (w_pc w); simpl in Hp; tauto. Qed.

Lemma complete_V : forall w t v w1 ok, winvV w -> plain_pc (w_pc w) ->
  (a_w (t_addr t) = me w -> lexp w (t_addr t) v) ->
  complete w t v = (w1, ok) ->
  winvV w1 /\ ext w w1 /\ w_id w1 = w_id w /\ w_counter w1 = w_counter w /\ w_delayed w1 = w_delayed w /\
  w_pc w1 = w_pc w /\ chan_tasks (w_out w1) = chan_tasks (w_out w) /\
  (forall t', In t' (w_tasks w1) -> In t' (w_tasks w)) /\
  (forall p, In p (chan_res (w_out w1)) -> In p (chan_res (w_out w)) \/ p = (t_addr t, v)).
Proof.
  intros w t v w1 ok I Hp Hown H. unfold complete in H.
  destruct (dest_eqb (a_w (t_addr t)) (me w)) eqn:Eme.
  - apply dest_eqb_eq in Eme. destruct (handle_result w (t_addr t) v) as [w' ok'] eqn:Eh.
    destruct (handle_result_V _ _ _ _ _ I Hown Eh) as (I' & E' & C1 & C2 & C3 & C4 & C5 & C6 & C7).
    destruct ok'; cbn [negb] in H.
    + set (w2 := set_finished (set_tasks (send w' MUpdate) (task_del (t_addr t) (w_tasks (send w' MUpdate))))
                              (w_finished (send w' MUpdate) ++ [(t_addr t, v)])) in *.
      assert (I2 : winvV w2).
      { subst w2. eapply winvV_same; [| | | | |apply (winvV_tasks_subset (send w' MUpdate) (task_del (t_addr t) (w_tasks w')))]; try reflexivity.
        - eapply winvV_same; [| | | | |exact I']; reflexivity.
        - simpl. rewrite C6. exact Hp.
        - intros t' Hin. apply In_task_del in Hin. exact Hin. }
      destruct (close_boxes (t_owned t) false w2) as [w3 ok3] eqn:Ec. injection H as <- <-.
      destruct (close_boxes_V _ _ _ _ _ I2 Ec) as (I3 & E3 & (F1&F2&F3&F4&F5&F6&F7&F8)).
      split; [exact I3|]. split; [eapply ext_trans; [exact E'|]; eapply ext_trans; [|exact E3]; apply ext_same; reflexivity|].
      subst w2. simpl in *.
      split; [congruence|]. split; [congruence|]. split; [congruence|]. split; [congruence|].
      split; [rewrite F7, chan_tasks_app, C3; simpl; apply app_nil_r|].
      split; [intros t' Hin; rewrite F3 in Hin; apply In_task_del in Hin; rewrite C2 in Hin; exact Hin|].
      intros p Hin. rewrite F8, chan_res_app, C3 in Hin. simpl in Hin. rewrite app_nil_r in Hin. auto.
    + injection H as <- <-. split; [eapply winvV_same; [| | | | |exact I']; reflexivity|].
      split; [eapply ext_trans; [exact E'|apply ext_same; reflexivity]|]. simpl.
      split; [congruence|]. split; [congruence|]. split; [congruence|]. split; [congruence|].
      split; [rewrite C3; reflexivity|]. split; [intros t' Hin; rewrite C2 in Hin; exact Hin|].
      intros p Hin. rewrite C3 in Hin. auto.
  - cbn [negb] in H.
    set (w0 := send w (MResult (t_addr t) v (w_id w))) in *.
    set (w2 := set_finished (set_tasks w0 (task_del (t_addr t) (w_tasks w0))) (w_finished w0 ++ [(t_addr t, v)])) in *.
    assert (I2 : winvV w2).
    { subst w2. eapply winvV_same; [| | | | |apply (winvV_tasks_subset w0 (task_del (t_addr t) (w_tasks w)))]; try reflexivity.
      - eapply winvV_same; [| | | | |exact I]; reflexivity.
      - exact Hp.
      - intros t' Hin. apply In_task_del in Hin. exact Hin. }
    destruct (close_boxes (t_owned t) false w2) as [w3 ok3] eqn:Ec. injection H as <- <-.
    destruct (close_boxes_V _ _ _ _ _ I2 Ec) as (I3 & E3 & (F1&F2&F3&F4&F5&F6&F7&F8)).
    split; [exact I3|]. split; [eapply ext_trans; [|exact E3]; apply ext_same; reflexivity|].
    subst w2 w0. simpl in *.
    split; [congruence|]. split; [congruence|]. split; [congruence|]. split; [congruence|].
    split; [rewrite F7, chan_tasks_app; simpl; apply app_nil_r|].
    split; [intros t' Hin; rewrite F3 in Hin; apply In_task_del in Hin; exact Hin|].
    intros p Hin. rewrite F8, chan_res_app in Hin. simpl in Hin. apply in_app_or in Hin. destruct Hin as [Hin|[<-|[]]]; auto.
Qed.
