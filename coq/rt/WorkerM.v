(* Executable model of one BQSKit runtime worker (bqskit/runtime/worker.py) and of a
   small flat system (server relay + k workers, one FIFO channel per direction).
   No proofs here: this file must keep compiling and extracting when a proof breaks.

   code                                    model
   ------------------------------------    -------------------------------------------
   RuntimeAddress                          addr
   RuntimeTask (+ its coroutine)           task   (t_rest = continuation of the body,
                                                   t_futs/t_cnt/t_pend = body locals)
   task bodies                             script = list cmd  (Submit|Map|Await|Next|
                                                   NextAll|Return); falling off the end
                                                   returns 0 (None)
   WorkerMailbox (+ ready, deposit_result,
     get_new_results, new_mailbox)         mailbox, b_ready, deposit, new_box
   Worker._tasks (dict, insertion order)   w_tasks : list task keyed by t_addr
   Worker._delayed_tasks (LIFO)            w_delayed (pop = last)
   Worker._ready_task_ids (FIFO Queue)     w_ready
   Worker._mailboxes / _mailbox_counter    w_boxes / w_counter
   Worker.most_recent_read_submit          w_recent
   Worker._conn (upward channel)           w_out
   receiving thread: recv_incoming         recv_step   (one message = one atom)
     _add_task, _handle_result             add_task, handle_result
   main thread: _loop/_get_next_ready_task/
     _try_step_next_ready_task             main_step, program counter w_pc:
                                             PLoop    top of `while True`
                                             PPromote `_add_task(_delayed_tasks.pop())`
                                             PGet     mutex; get_nowait (Empty: WAITING)
                                             PBlocked blocking `get()`
                                             PAw1     `box.dest_addr = ...; desired_box_id`
                                             PAw1c    `task.wake_on_next = ...`
                                             PAw2     `if box.ready: put`
     _get_desired_result, task.step,
     _process_await, _process_task_completion,
     submit, map, next                     desired_result, run, resume, process_await,
                                           complete, do_submit, do_map
   The flag `atomic` selects the variant whose await registration (A1,A1c,A2) is one
   atom; `atomic = false` is the code as it is.

   GHOST fields (never read by a transition, only recorded): t_script, b_expect,
   b_got, w_log, w_started, w_finished, w_created, w_deposited, w_dropped, w_stuck, w_errs, w_oos, s_roots.
   Out of scope (C12): _handle_cancel, cancelled-id tests, breadcrumbs.  A CANCEL that
   is emitted or received sets w_oos; the theorems speak about runs with w_oos = false. *)
From Coq Require Import List Arith Bool PeanoNat.
Import ListNotations.

Definition val := nat.

Inductive dest := DClient | DWorker (w : nat).
Record addr := mkAddr { a_w : dest; a_box : nat; a_slot : nat }.

Definition dest_eqb (x y : dest) : bool :=
  match x, y with
  | DClient, DClient => true
  | DWorker a, DWorker b => Nat.eqb a b
  | _, _ => false
  end.
Definition addr_eqb (x y : addr) : bool :=
  dest_eqb (a_w x) (a_w y) && Nat.eqb (a_box x) (a_box y) && Nat.eqb (a_slot x) (a_slot y).

(* ---- task bodies --------------------------------------------------------- *)
Inductive cmd :=
| Submit (child : list cmd)             (* futs.append(rt.submit(body, child))        *)
| Map (children : list (list cmd))      (* futs.append(rt.map(body, children))        *)
| Await (f : nat)                       (* v = await futs[f]                          *)
| Next (f : nat)                        (* b = await rt.next(futs[f])                 *)
| NextAll (f : nat)                     (* got=0; while got<n: got+=len(await next)   *)
| Return (v : val)
| Dead.                                 (* a coroutine that already raised: send() raises again *)
Definition script := list cmd.

Fixpoint ret_of (s : script) : val :=
  match s with
  | [] => 0
  | Return v :: _ => v
  | _ :: r => ret_of r
  end.

Inductive pend := PendNone | PendAwait (f : nat) | PendNext (f : nat) | PendNextAll (f : nat).

Record task := mkTask {
  t_addr : addr;                  (* return_address = unique id *)
  t_comp : nat;                   (* comp_task_id *)
  t_script : script;              (* GHOST: the whole body *)
  t_rest : script;                (* coroutine continuation *)
  t_futs : list (nat * nat);      (* body local: futures created so far (mailbox id, #slots) *)
  t_pend : pend;                  (* body local: which await it is suspended in *)
  t_cnt : nat;                    (* body local: `got` of the running NextAll loop *)
  t_desired : option nat;         (* desired_box_id *)
  t_won : bool;                   (* wake_on_next *)
  t_owned : list nat              (* owned_mailboxes *)
}.

Definition new_task (a : addr) (comp : nat) (s : script) : task :=
  mkTask a comp s s [] PendNone 0 None false [].

Definition t_set_rest t x := mkTask (t_addr t) (t_comp t) (t_script t) x (t_futs t) (t_pend t) (t_cnt t) (t_desired t) (t_won t) (t_owned t).
Definition t_set_futs t x := mkTask (t_addr t) (t_comp t) (t_script t) (t_rest t) x (t_pend t) (t_cnt t) (t_desired t) (t_won t) (t_owned t).
Definition t_set_pend t x := mkTask (t_addr t) (t_comp t) (t_script t) (t_rest t) (t_futs t) x (t_cnt t) (t_desired t) (t_won t) (t_owned t).
Definition t_set_cnt t x := mkTask (t_addr t) (t_comp t) (t_script t) (t_rest t) (t_futs t) (t_pend t) x (t_desired t) (t_won t) (t_owned t).
Definition t_set_desired t x := mkTask (t_addr t) (t_comp t) (t_script t) (t_rest t) (t_futs t) (t_pend t) (t_cnt t) x (t_won t) (t_owned t).
Definition t_set_won t x := mkTask (t_addr t) (t_comp t) (t_script t) (t_rest t) (t_futs t) (t_pend t) (t_cnt t) (t_desired t) x (t_owned t).
Definition t_set_owned t x := mkTask (t_addr t) (t_comp t) (t_script t) (t_rest t) (t_futs t) (t_pend t) (t_cnt t) (t_desired t) (t_won t) x.

(* ---- messages ------------------------------------------------------------ *)
Inductive msg :=
| MSubmit (t : task)
| MSubmitBatch (ts : list task)
| MResult (a : addr) (v : val) (completed_by : nat)
| MWaiting (receipt : option addr)
| MUpdate
| MError (comp : nat)              (* ERROR (comp_task_id, traceback) : a task step raised *)
| MFatal                           (* ERROR str : _loop caught an exception, worker stops *)
| MCancel (a : addr).

(* ---- mailboxes ----------------------------------------------------------- *)
Record mailbox := mkBox {
  b_single : bool;                      (* expecting_single_result *)
  b_expected : nat;                     (* expected_num_results *)
  b_result : list (option val);         (* result: [None]*n, or one cell when single *)
  b_num : nat;                          (* num_results *)
  b_dest : option addr;                 (* dest_addr *)
  b_fresh : option (list (nat * val));  (* fresh_results *)
  b_expect : list val;                  (* GHOST: value each slot is meant to receive *)
  b_got : list nat                      (* GHOST: slots of the deposits made so far, in order *)
}.
Definition b_set_dest b x := mkBox (b_single b) (b_expected b) (b_result b) (b_num b) x (b_fresh b) (b_expect b) (b_got b).
Definition b_set_fresh b x := mkBox (b_single b) (b_expected b) (b_result b) (b_num b) (b_dest b) x (b_expect b) (b_got b).

Definition b_ready (b : mailbox) : bool :=
  Nat.leb (b_expected b) (b_num b) && negb (Nat.eqb (b_num b) 0).

(* WorkerMailbox.new_mailbox(None) / new_mailbox(n) *)
Definition new_box_single (e : list val) : mailbox := mkBox true 1 [None] 0 None None e [].
Definition new_box_multi (n : nat) (e : list val) : mailbox := mkBox false n (repeat None n) 0 None None e [].

Fixpoint set_nth {A} (n : nat) (x : A) (l : list A) : list A :=
  match l, n with
  | [], _ => []
  | _ :: t, 0 => x :: t
  | y :: t, S k => y :: set_nth k x t
  end.

(* deposit_result: fresh_results, then the value, then num_results (counted last).  false =
   `self.result[slot_id] = ...` raised IndexError: fresh_results is already updated, the count is not *)
Definition deposit (b : mailbox) (slot : nat) (v : val) : mailbox * bool :=
  let fresh := match b_fresh b with None => [] | Some l => l end ++ [(slot, v)] in
  if b_single b then
    (mkBox true (b_expected b) [Some v] (S (b_num b)) (b_dest b) (Some fresh) (b_expect b) (b_got b ++ [slot]), true)
  else if Nat.ltb slot (length (b_result b)) then
    (mkBox false (b_expected b) (set_nth slot (Some v) (b_result b)) (S (b_num b)) (b_dest b) (Some fresh) (b_expect b) (b_got b ++ [slot]), true)
  else
    (mkBox false (b_expected b) (b_result b) (b_num b) (b_dest b) (Some fresh) (b_expect b) (b_got b), false).

(* ---- dict helpers -------------------------------------------------------- *)
Fixpoint box_get (m : nat) (bs : list (nat * mailbox)) : option mailbox :=
  match bs with [] => None | (k, b) :: r => if Nat.eqb k m then Some b else box_get m r end.
Fixpoint box_set (m : nat) (b : mailbox) (bs : list (nat * mailbox)) : list (nat * mailbox) :=
  match bs with
  | [] => [(m, b)]
  | (k, b0) :: r => if Nat.eqb k m then (k, b) :: r else (k, b0) :: box_set m b r
  end.
Fixpoint box_del (m : nat) (bs : list (nat * mailbox)) : list (nat * mailbox) :=
  match bs with [] => [] | (k, b) :: r => if Nat.eqb k m then r else (k, b) :: box_del m r end.

Fixpoint task_get (a : addr) (ts : list task) : option task :=
  match ts with [] => None | t :: r => if addr_eqb (t_addr t) a then Some t else task_get a r end.
Fixpoint task_set (t : task) (ts : list task) : list task :=
  match ts with
  | [] => [t]
  | t0 :: r => if addr_eqb (t_addr t0) (t_addr t) then t :: r else t0 :: task_set t r
  end.
Fixpoint task_del (a : addr) (ts : list task) : list task :=
  match ts with [] => [] | t :: r => if addr_eqb (t_addr t) a then r else t :: task_del a r end.

(* list.remove(x): first occurrence; None = ValueError *)
Fixpoint remove_first (x : nat) (l : list nat) : option (list nat) :=
  match l with
  | [] => None
  | y :: r => if Nat.eqb y x then Some r
              else match remove_first x r with None => None | Some r' => Some (y :: r') end
  end.

(* ---- worker state -------------------------------------------------------- *)
Inductive pc :=
| PLoop | PPromote | PGet | PBlocked
| PAw1 (a : addr) (m : nat) (nxt : bool)
| PAw1c (a : addr) (m : nat) (nxt : bool)
| PAw2 (a : addr) (m : nat)
| PDead.

Inductive obs :=
| OAwait (f : nat) (vs : list (option val))      (* value of `await futs[f]` (one cell if single) *)
| ONext (f : nat) (batch : list (nat * val)).    (* value of `await rt.next(futs[f])` *)

Inductive err :=
| EAssertReady        (* _get_desired_result: assert box.ready *)
| EAssertFresh        (* get_new_results: assert fresh_results is not None *)
| EKeyBox             (* self._mailboxes[...] KeyError *)
| EOwned              (* owned_mailboxes.remove ValueError *)
| ESlotRange          (* deposit_result IndexError *)
| EAssertWid          (* _handle_result: assert worker_id == self._id *)
| EKeyTask            (* self._tasks[box.dest_addr] KeyError *)
| EEmptyBatch         (* tasks[0] on an empty SUBMIT_BATCH *)
| EPopEmpty           (* _delayed_tasks.pop() on an empty list *)
| EBody.              (* the body itself raised (bad future index, map of 0, next/await on a
                         dropped mailbox: RuntimeError from next()/_process_await) *)

Record wstate := mkW {
  w_id : nat; 
  w_tasks : list task; 
  w_delayed : list task; 
  w_ready : list addr; 
  w_boxes : list (nat * mailbox); 
  w_counter : nat; 
  w_recent : option addr; 
  w_pc : pc; 
  w_out : list msg; 
  w_rdead : bool; (* receiving thread died on an uncaught exception *)
  w_log : list (addr * script * option nat * obs); (* GHOST: every value a body received from an await (with the body and the mailbox) *)
  w_started : list addr; (* GHOST: task.start() calls *)
  w_finished : list (addr * val); (* GHOST: bodies that returned *)
  w_created : list addr; (* GHOST: tasks created by submit/map here *)
  w_deposited : list addr; (* GHOST: return addresses of all results deposited here *)
  w_dropped : list addr; (* GHOST: results not deposited (mailbox gone / wrong worker) *)
  w_stuck : list addr; (* GHOST: tasks whose completion raised inside _handle_result (worker stops) *)
  w_errs : list err; (* GHOST: runtime-internal exceptions *)
  w_oos : bool (* GHOST: a CANCEL was emitted/received: outside the scope of C07 *)
}.

Definition w0 (id : nat) : wstate := mkW id [] [] [] [] 0 None PLoop [] false [] [] [] [] [] [] [] [] false.

Definition set_tasks w x := mkW (w_id w) x (w_delayed w) (w_ready w) (w_boxes w) (w_counter w) (w_recent w) (w_pc w) (w_out w) (w_rdead w) (w_log w) (w_started w) (w_finished w) (w_created w) (w_deposited w) (w_dropped w) (w_stuck w) (w_errs w) (w_oos w).
Definition set_delayed w x := mkW (w_id w) (w_tasks w) x (w_ready w) (w_boxes w) (w_counter w) (w_recent w) (w_pc w) (w_out w) (w_rdead w) (w_log w) (w_started w) (w_finished w) (w_created w) (w_deposited w) (w_dropped w) (w_stuck w) (w_errs w) (w_oos w).
Definition set_ready w x := mkW (w_id w) (w_tasks w) (w_delayed w) x (w_boxes w) (w_counter w) (w_recent w) (w_pc w) (w_out w) (w_rdead w) (w_log w) (w_started w) (w_finished w) (w_created w) (w_deposited w) (w_dropped w) (w_stuck w) (w_errs w) (w_oos w).
Definition set_boxes w x := mkW (w_id w) (w_tasks w) (w_delayed w) (w_ready w) x (w_counter w) (w_recent w) (w_pc w) (w_out w) (w_rdead w) (w_log w) (w_started w) (w_finished w) (w_created w) (w_deposited w) (w_dropped w) (w_stuck w) (w_errs w) (w_oos w).
Definition set_counter w x := mkW (w_id w) (w_tasks w) (w_delayed w) (w_ready w) (w_boxes w) x (w_recent w) (w_pc w) (w_out w) (w_rdead w) (w_log w) (w_started w) (w_finished w) (w_created w) (w_deposited w) (w_dropped w) (w_stuck w) (w_errs w) (w_oos w).
Definition set_recent w x := mkW (w_id w) (w_tasks w) (w_delayed w) (w_ready w) (w_boxes w) (w_counter w) x (w_pc w) (w_out w) (w_rdead w) (w_log w) (w_started w) (w_finished w) (w_created w) (w_deposited w) (w_dropped w) (w_stuck w) (w_errs w) (w_oos w).
Definition set_pc w x := mkW (w_id w) (w_tasks w) (w_delayed w) (w_ready w) (w_boxes w) (w_counter w) (w_recent w) x (w_out w) (w_rdead w) (w_log w) (w_started w) (w_finished w) (w_created w) (w_deposited w) (w_dropped w) (w_stuck w) (w_errs w) (w_oos w).
Definition set_out w x := mkW (w_id w) (w_tasks w) (w_delayed w) (w_ready w) (w_boxes w) (w_counter w) (w_recent w) (w_pc w) x (w_rdead w) (w_log w) (w_started w) (w_finished w) (w_created w) (w_deposited w) (w_dropped w) (w_stuck w) (w_errs w) (w_oos w).
Definition set_rdead w x := mkW (w_id w) (w_tasks w) (w_delayed w) (w_ready w) (w_boxes w) (w_counter w) (w_recent w) (w_pc w) (w_out w) x (w_log w) (w_started w) (w_finished w) (w_created w) (w_deposited w) (w_dropped w) (w_stuck w) (w_errs w) (w_oos w).
Definition set_log w x := mkW (w_id w) (w_tasks w) (w_delayed w) (w_ready w) (w_boxes w) (w_counter w) (w_recent w) (w_pc w) (w_out w) (w_rdead w) x (w_started w) (w_finished w) (w_created w) (w_deposited w) (w_dropped w) (w_stuck w) (w_errs w) (w_oos w).
Definition set_started w x := mkW (w_id w) (w_tasks w) (w_delayed w) (w_ready w) (w_boxes w) (w_counter w) (w_recent w) (w_pc w) (w_out w) (w_rdead w) (w_log w) x (w_finished w) (w_created w) (w_deposited w) (w_dropped w) (w_stuck w) (w_errs w) (w_oos w).
Definition set_finished w x := mkW (w_id w) (w_tasks w) (w_delayed w) (w_ready w) (w_boxes w) (w_counter w) (w_recent w) (w_pc w) (w_out w) (w_rdead w) (w_log w) (w_started w) x (w_created w) (w_deposited w) (w_dropped w) (w_stuck w) (w_errs w) (w_oos w).
Definition set_created w x := mkW (w_id w) (w_tasks w) (w_delayed w) (w_ready w) (w_boxes w) (w_counter w) (w_recent w) (w_pc w) (w_out w) (w_rdead w) (w_log w) (w_started w) (w_finished w) x (w_deposited w) (w_dropped w) (w_stuck w) (w_errs w) (w_oos w).
Definition set_deposited w x := mkW (w_id w) (w_tasks w) (w_delayed w) (w_ready w) (w_boxes w) (w_counter w) (w_recent w) (w_pc w) (w_out w) (w_rdead w) (w_log w) (w_started w) (w_finished w) (w_created w) x (w_dropped w) (w_stuck w) (w_errs w) (w_oos w).
Definition set_dropped w x := mkW (w_id w) (w_tasks w) (w_delayed w) (w_ready w) (w_boxes w) (w_counter w) (w_recent w) (w_pc w) (w_out w) (w_rdead w) (w_log w) (w_started w) (w_finished w) (w_created w) (w_deposited w) x (w_stuck w) (w_errs w) (w_oos w).
Definition set_stuck w x := mkW (w_id w) (w_tasks w) (w_delayed w) (w_ready w) (w_boxes w) (w_counter w) (w_recent w) (w_pc w) (w_out w) (w_rdead w) (w_log w) (w_started w) (w_finished w) (w_created w) (w_deposited w) (w_dropped w) x (w_errs w) (w_oos w).
Definition set_errs w x := mkW (w_id w) (w_tasks w) (w_delayed w) (w_ready w) (w_boxes w) (w_counter w) (w_recent w) (w_pc w) (w_out w) (w_rdead w) (w_log w) (w_started w) (w_finished w) (w_created w) (w_deposited w) (w_dropped w) (w_stuck w) x (w_oos w).
Definition set_oos w x := mkW (w_id w) (w_tasks w) (w_delayed w) (w_ready w) (w_boxes w) (w_counter w) (w_recent w) (w_pc w) (w_out w) (w_rdead w) (w_log w) (w_started w) (w_finished w) (w_created w) (w_deposited w) (w_dropped w) (w_stuck w) (w_errs w) x.

Definition send (w : wstate) (m : msg) : wstate := set_out w (w_out w ++ [m]).
Definition put (w : wstate) (a : addr) : wstate := set_ready w (w_ready w ++ [a]).
Definition log_err (w : wstate) (e : err) : wstate := set_errs w (w_errs w ++ [e]).
Definition me (w : wstate) : dest := DWorker (w_id w).

(* ---- receiving thread ---------------------------------------------------- *)
(* _add_task: self._tasks[addr] = task; task.start(); self._ready_task_ids.put(addr) *)
Definition add_task (w : wstate) (t : task) : wstate :=
  put (set_started (set_tasks w (task_set t (w_tasks w))) (w_started w ++ [t_addr t])) (t_addr t).

(* _handle_result.  Some w' = returned normally; None' = raised (state after the partial
   effects is the first component). *)
Definition handle_result (w : wstate) (a : addr) (v : val) : wstate * bool :=
  if negb (dest_eqb (a_w a) (me w)) then (set_dropped (log_err w EAssertWid) (w_dropped w ++ [a]), false)
  else match box_get (a_box a) (w_boxes w) with
  | None => (set_dropped w (w_dropped w ++ [a]), true)  (* mailbox dropped: ignore *)
  | Some b =>
    let (b1, ok) := deposit b (a_slot a) v in
    let w1 := set_deposited (set_boxes w (box_set (a_box a) b1 (w_boxes w))) (w_deposited w ++ [a]) in
    if negb ok then (log_err w1 ESlotRange, false)
    else match b_dest b1 with
    | None => (w1, true)
    | Some d =>
      match task_get d (w_tasks w1) with
      | None => (log_err w1 EKeyTask, false)
      | Some t =>
        if t_won t || b_ready b1 then
          (set_boxes (put w1 d) (box_set (a_box a) (b_set_dest b1 None) (w_boxes w1)), true)
        else (w1, true)
      end
    end
  end.

Fixpoint last_opt {A} (l : list A) : option A :=
  match l with [] => None | [x] => Some x | _ :: r => last_opt r end.

(* one message handled by recv_incoming *)
Definition recv_step (w : wstate) (m : msg) : wstate :=
  if w_rdead w then w else
  match m with
  | MSubmit t => add_task (set_recent w (Some (t_addr t))) t
  | MSubmitBatch ts =>
    match ts, last_opt ts with
    | t0 :: _, Some tl =>
      let w1 := add_task (set_recent w (Some (t_addr t0))) tl in     (* _add_task(tasks.pop()) *)
      set_delayed w1 (w_delayed w1 ++ removelast ts)                 (* _delayed_tasks.extend(tasks) *)
    | _, _ => set_rdead (log_err w EEmptyBatch) true
    end
  | MResult a v _ =>
    let (w1, ok) := handle_result w a v in
    if ok then w1 else set_rdead w1 true
  | MCancel _ => set_oos w true
  | _ => w
  end.

(* ---- main thread --------------------------------------------------------- *)
Inductive yield :=
| YAwait (m : nat) (nxt : bool)      (* the coroutine yielded a future *)
| YReturn (v : val)                  (* StopIteration(v) *)
| YRaise.                            (* the body (or next()) raised *)

(* Worker.submit *)
Definition do_submit (w : wstate) (t : task) (child : script) : wstate * task :=
  let m := w_counter w in
  let a := mkAddr (me w) m 0 in
  let w1 := set_boxes (set_counter w (S m)) (w_boxes w ++ [(m, new_box_single [ret_of child])]) in
  let w2 := send (set_created w1 (w_created w1 ++ [a])) (MSubmit (new_task a (t_comp t) child)) in
  (w2, t_set_futs (t_set_owned t (t_owned t ++ [m])) (t_futs t ++ [(m, 1)])).

Fixpoint mk_children (w : dest) (m : nat) (comp : nat) (i : nat) (cs : list script) : list task :=
  match cs with
  | [] => []
  | c :: r => new_task (mkAddr w m i) comp c :: mk_children w m comp (S i) r
  end.

(* Worker.map (children <> []) *)
Definition do_map (w : wstate) (t : task) (children : list script) : wstate * task :=
  let m := w_counter w in
  let n := length children in
  let ts := mk_children (me w) m (t_comp t) 0 children in
  let w1 := set_boxes (set_counter w (S m)) (w_boxes w ++ [(m, new_box_multi n (map ret_of children))]) in
  let w2 := send (set_created w1 (w_created w1 ++ map t_addr ts)) (MSubmitBatch ts) in
  (w2, t_set_futs (t_set_owned t (t_owned t ++ [m])) (t_futs t ++ [(m, n)])).

Definition has_box (w : wstate) (m : nat) : bool :=
  match box_get m (w_boxes w) with Some _ => true | None => false end.

(* the coroutine runs until its next await / return / raise *)
Definition raised (w : wstate) (t : task) : wstate * task * yield := (w, t_set_rest t [Dead], YRaise).

Fixpoint run (rest : script) (w : wstate) (t : task) : wstate * task * yield :=
  match rest with
  | [] => (w, t_set_rest t [], YReturn 0)
  | c :: rest' =>
    match c with
    | Submit child => let (w1, t1) := do_submit w t child in run rest' w1 t1
    | Map children =>
      match children with
      | [] => raised w t                                   (* 'Unable to map 0 tasks.' *)
      | _ => let (w1, t1) := do_map w t children in run rest' w1 t1
      end
    | Await f =>
      match nth_error (t_futs t) f with
      | None => raised w t                                 (* futs[f]: IndexError *)
      | Some (m, _) => (w, t_set_pend (t_set_rest t rest') (PendAwait f), YAwait m false)
      end
    | Next f =>
      match nth_error (t_futs t) f with
      | None => raised w t
      | Some (m, _) =>
        if has_box w m then (w, t_set_pend (t_set_rest t rest') (PendNext f), YAwait m true)
        else raised w t                                    (* next(): already completed *)
      end
    | NextAll f =>
      match nth_error (t_futs t) f with
      | None => raised w t
      | Some (m, n) =>
        if Nat.leb n (t_cnt t) then run rest' w (t_set_cnt t 0)
        else if has_box w m then (w, t_set_pend (t_set_rest t (c :: rest')) (PendNextAll f), YAwait m true)
        else raised w t
      end
    | Return v => (w, t_set_rest t (Return v :: rest'), YReturn v)   (* StopIteration(v); the task is dropped *)
    | Dead => raised w t
    end
  end.

(* value sent into the coroutine (with, as GHOST, the mailbox it was taken from) *)
Inductive sendval := SNone | SFull (m : nat) (vs : list (option val)) | SBatch (m : nat) (b : list (nat * val)).

(* coroutine.send(v): the body stores what its await returned, then continues *)
Definition resume (w : wstate) (t : task) (sv : sendval) : wstate * task * yield :=
  let a := t_addr t in
  match t_pend t, sv with
  | PendNone, _ => run (t_rest t) w t
  | PendAwait f, SFull m vs =>
    run (t_rest t) (set_log w (w_log w ++ [(a, t_script t, Some m, OAwait f vs)])) (t_set_pend t PendNone)
  | PendNext f, SBatch m b =>
    run (t_rest t) (set_log w (w_log w ++ [(a, t_script t, Some m, ONext f b)])) (t_set_pend t PendNone)
  | PendNextAll f, SBatch m b =>
    run (t_rest t) (set_log w (w_log w ++ [(a, t_script t, Some m, ONext f b)])) (t_set_cnt (t_set_pend t PendNone) (t_cnt t + length b))
  (* send(None) into a coroutine suspended in an await: only after _process_await itself raised
     ('Cannot await on a canceled task.') and the task is stepped again *)
  | PendAwait f, SNone =>
    run (t_rest t) (set_log w (w_log w ++ [(a, t_script t, None, OAwait f [])])) (t_set_pend t PendNone)
  | PendNext f, SNone =>
    run (t_rest t) (set_log w (w_log w ++ [(a, t_script t, None, ONext f [])])) (t_set_pend t PendNone)
  | _, _ => raised w t          (* len(None) in the next-loop / unreachable shapes *)
  end.

(* _get_desired_result; inl e = raised e *)
Definition desired_result (w : wstate) (t : task) : (wstate * task * sendval) + err :=
  match t_desired t with
  | None => inl (w, t, SNone)
  | Some m =>
    match box_get m (w_boxes w) with
    | None => inr EKeyBox
    | Some b =>
      if t_won t then
        match b_fresh b with
        | None => inr EAssertFresh
        | Some fr => inl (set_boxes w (box_set m (b_set_fresh b (Some [])) (w_boxes w)), t, SBatch m fr)
        end
      else if negb (b_ready b) then inr EAssertReady
      else match remove_first m (t_owned t) with
      | None => inr EOwned
      | Some ow => inl (set_boxes w (box_del m (w_boxes w)), t_set_owned t ow, SFull m (b_result b))
      end
    end
  end.

(* the `except Exception` branch of _try_step_next_ready_task *)
Definition task_error (w : wstate) (t : task) (e : err) : wstate :=
  set_pc (send (log_err w e) (MError (t_comp t))) PLoop.

(* the registration statements of _process_await *)
Definition aw1 (w : wstate) (a : addr) (m : nat) : wstate :=
  let w1 := match box_get m (w_boxes w) with
            | Some b => set_boxes w (box_set m (b_set_dest b (Some a)) (w_boxes w))
            | None => w end in
  match task_get a (w_tasks w1) with
  | Some t => set_tasks w1 (task_set (t_set_desired t (Some m)) (w_tasks w1))
  | None => w1 end.
Definition aw1c (w : wstate) (a : addr) (nxt : bool) : wstate :=
  match task_get a (w_tasks w) with
  | Some t => set_tasks w (task_set (t_set_won t nxt) (w_tasks w))
  | None => w end.
Definition aw2 (w : wstate) (a : addr) (m : nat) : wstate :=
  match box_get m (w_boxes w) with
  | Some b => if b_ready b then put w a else w
  | None => w end.

(* Worker.cancel(RuntimeFuture(m)) as called by _process_task_completion *)
Fixpoint cancel_msgs (w : dest) (m : nat) (i n : nat) : list msg :=
  match n with 0 => [] | S k => MCancel (mkAddr w m i) :: cancel_msgs w m (S i) k end.

(* `for mailbox_id in list(self._active_task.owned_mailboxes):` (a copy: cancel() removes from the
   original list) — ready mailboxes are dropped, the others are cancelled *)
Fixpoint close_boxes (owned : list nat) (w : wstate) : wstate * bool :=
  match owned with
  | [] => (w, true)
  | m :: r =>
    match box_get m (w_boxes w) with
    | Some b =>
      if b_ready b then close_boxes r (set_boxes w (box_del m (w_boxes w)))
      else
        let w1 := set_oos (set_boxes w (box_del m (w_boxes w))) true in
        let w2 := set_out w1 (w_out w1 ++ cancel_msgs (me w) m 0 (b_expected b)) in
        close_boxes r w2
    | None => (log_err w EKeyBox, false)          (* cancel(): self._mailboxes[id] KeyError *)
    end
  end.

(* _process_task_completion; false = an exception escaped to _loop *)
Definition complete (w : wstate) (t : task) (v : val) : wstate * bool :=
  let a := t_addr t in
  let (w1, ok) :=
    if dest_eqb (a_w a) (me w) then
      let (w', ok) := handle_result w a v in (if ok then send w' MUpdate else set_stuck w' (w_stuck w' ++ [a]), ok)
    else (send w (MResult a v (w_id w)), true) in
  if negb ok then (w1, false) else
  let w2 := set_finished (set_tasks w1 (task_del a (w_tasks w1))) (w_finished w1 ++ [(a, v)]) in
  close_boxes (t_owned t) w2.

Definition fatal (w : wstate) : wstate := set_pc (send w MFatal) PDead.

(* a ready address was dequeued: discard test, _get_desired_result, task.step, then the
   await registration / completion / error handling of _try_step_next_ready_task *)
Definition dispatch (atomic : bool) (w : wstate) (a : addr) : wstate :=
  match task_get a (w_tasks w) with
  | None => set_pc w PLoop                               (* `addr not in self._tasks`: continue *)
  | Some t =>
    match desired_result w t with
    | inr e => task_error w t e
    | inl (w1, t1, sv) =>
      let t2 := t_set_desired (t_set_won t1 false) None in      (* task.step resets the flags *)
      match resume w1 t2 sv with
      | (w2, t3, YRaise) => task_error (set_tasks w2 (task_set t3 (w_tasks w2))) t3 EBody
      | (w2, t3, YReturn v) =>
        let (w3, ok) := complete (set_tasks w2 (task_set t3 (w_tasks w2))) t3 v in
        if ok then set_pc w3 PLoop else fatal w3
      | (w2, t3, YAwait m nxt) =>
        let w3 := set_tasks w2 (task_set t3 (w_tasks w2)) in
        if negb (has_box w3 m) then task_error w3 t3 EBody      (* 'Cannot await on a canceled task.' *)
        else if atomic then set_pc (aw2 (aw1c (aw1 w3 a m) a nxt) a m) PLoop
        else set_pc w3 (PAw1 a m nxt)
      end
    end
  end.

(* one atom of the main thread; None = not enabled (blocked on the empty queue / stopped) *)
Definition main_step (atomic : bool) (w : wstate) : option wstate :=
  match w_pc w with
  | PLoop =>
    match w_ready w, w_delayed w with
    | [], _ :: _ => Some (set_pc w PPromote)
    | _, _ => Some (set_pc w PGet)
    end
  | PPromote =>
    match last_opt (w_delayed w) with
    | Some t => Some (set_pc (add_task (set_delayed w (removelast (w_delayed w))) t) PLoop)
    | None => Some (fatal (log_err w EPopEmpty))
    end
  | PGet =>
    match w_ready w with
    | [] => Some (set_pc (send w (MWaiting (w_recent w))) PBlocked)
    | a :: q => Some (dispatch atomic (set_ready w q) a)
    end
  | PBlocked =>
    match w_ready w with
    | [] => None
    | a :: q => Some (dispatch atomic (set_ready w q) a)
    end
  | PAw1 a m nxt => Some (set_pc (aw1 w a m) (PAw1c a m nxt))
  | PAw1c a m nxt => Some (set_pc (aw1c w a nxt) (PAw2 a m))
  | PAw2 a m => Some (set_pc (aw2 w a m) PLoop)
  | PDead => None
  end.

(* ---- flat system: server relay + k workers -------------------------------- *)
Record sys := mkSys {
  s_workers : list wstate;
  s_down : list (list msg);            (* server -> worker i, FIFO *)
  s_client : list (addr * val);        (* root results received by the server *)
  s_errors : list nat;                 (* ERROR(comp id) forwarded to the client *)
  s_nbox : nat;                        (* server mailbox counter *)
  s_fatal : bool;                      (* a system error / unroutable result reached the server *)
  s_roots : list (nat * val)           (* GHOST: server mailbox id of every root, value its body returns *)
}.

Definition sys0 (k : nat) : sys := mkSys (map w0 (seq 0 k)) (repeat [] k) [] [] 0 false [].

Definition upd {A} (i : nat) (f : A -> A) (l : list A) : list A :=
  match nth_error l i with Some x => set_nth i (f x) l | None => l end.

Definition push_down (i : nat) (m : msg) (d : list (list msg)) : list (list msg) :=
  upd i (fun q => q ++ [m]) d.

(* An assignment sends, to worker (fst p), the batch made of the tasks at positions (snd p).
   It is what ServerBase.assign_tasks/schedule_tasks computed (shuffle and tie-breaks are
   arbitrary): valid iff the positions form a partition of 0..n-1 into non-empty batches
   for distinct existing workers. *)
Fixpoint nodupb (l : list nat) : bool :=
  match l with [] => true | x :: r => negb (existsb (Nat.eqb x) r) && nodupb r end.
Definition valid_asg (k n : nat) (asg : list (nat * list nat)) : bool :=
  let idx := concat (map snd asg) in
  forallb (fun p => Nat.ltb (fst p) k && negb (Nat.eqb (length (snd p)) 0)) asg
  && nodupb (map fst asg)
  && Nat.eqb (length idx) n && nodupb idx && forallb (fun i => Nat.ltb i n) idx.

Fixpoint pick {A} (ts : list A) (idx : list nat) : list A :=
  match idx with
  | [] => []
  | i :: r => match nth_error ts i with Some t => t :: pick ts r | None => pick ts r end
  end.

Definition schedule (ts : list task) (asg : list (nat * list nat)) (d : list (list msg)) : list (list msg) :=
  fold_left (fun d p => push_down (fst p) (MSubmitBatch (pick ts (snd p))) d) asg d.

Inductive event :=
| EClient (s : script) (target : nat)                 (* handle_new_comp_task; root goes to `target` *)
| ERecv (i : nat)                                     (* worker i's receiving thread handles one message *)
| EMain (i : nat)                                     (* worker i's main thread executes one atom *)
| EServer (i : nat) (asg : list (nat * list nat)).    (* server handles the next message from worker i *)

Definition set_workers s x := mkSys x (s_down s) (s_client s) (s_errors s) (s_nbox s) (s_fatal s) (s_roots s).
Definition set_down s x := mkSys (s_workers s) x (s_client s) (s_errors s) (s_nbox s) (s_fatal s) (s_roots s).

Definition server_msg (s : sys) (m : msg) (asg : list (nat * list nat)) : option sys :=
  let k := length (s_workers s) in
  match m with
  | MSubmit t =>
    if valid_asg k 1 asg then Some (set_down s (schedule [t] asg (s_down s))) else None
  | MSubmitBatch ts =>
    if valid_asg k (length ts) asg then Some (set_down s (schedule ts asg (s_down s))) else None
  | MResult a v c =>
    match a_w a with
    | DClient => Some (mkSys (s_workers s) (s_down s) (s_client s ++ [(a, v)]) (s_errors s) (s_nbox s) (s_fatal s) (s_roots s))
    | DWorker j =>
      if Nat.ltb j k then Some (set_down s (push_down j (MResult a v c) (s_down s)))
      else Some (mkSys (s_workers s) (s_down s) (s_client s) (s_errors s) (s_nbox s) true (s_roots s))
    end
  | MWaiting _ | MUpdate => Some s
  | MError c => Some (mkSys (s_workers s) (s_down s) (s_client s) (s_errors s ++ [c]) (s_nbox s) (s_fatal s) (s_roots s))
  | MFatal => Some (mkSys (s_workers s) (s_down s) (s_client s) (s_errors s) (s_nbox s) true (s_roots s))
  | MCancel a =>       (* broadcast (C12); here it only marks every worker out of scope on receipt *)
    Some (set_down s (map (fun q => q ++ [MCancel a]) (s_down s)))
  end.

Definition step (atomic : bool) (s : sys) (e : event) : option sys :=
  match e with
  | EClient sc target =>
    if Nat.ltb target (length (s_workers s)) then
      let b := s_nbox s in
      let a := mkAddr DClient b 0 in
      Some (mkSys (s_workers s) (push_down target (MSubmitBatch [new_task a b sc]) (s_down s))
                  (s_client s) (s_errors s) (S b) (s_fatal s) (s_roots s ++ [(b, ret_of sc)]))
    else None
  | ERecv i =>
    match nth_error (s_workers s) i, nth_error (s_down s) i with
    | Some w, Some (m :: q) =>
      if w_rdead w then None
      else Some (set_down (set_workers s (set_nth i (recv_step w m) (s_workers s))) (set_nth i q (s_down s)))
    | _, _ => None
    end
  | EMain i =>
    match nth_error (s_workers s) i with
    | Some w => match main_step atomic w with
                | Some w' => Some (set_workers s (set_nth i w' (s_workers s)))
                | None => None end
    | None => None
    end
  | EServer i asg =>
    match nth_error (s_workers s) i with
    | Some w =>
      match w_out w with
      | m :: q =>
        server_msg (set_workers s (set_nth i (set_out w q) (s_workers s))) m asg
      | [] => None
      end
    | None => None
    end
  end.

Fixpoint steps (atomic : bool) (s : sys) (es : list event) : option sys :=
  match es with
  | [] => Some s
  | e :: r => match step atomic s e with Some s' => steps atomic s' r | None => None end
  end.

(* observations used by the statements *)
Definition all_errs (s : sys) : list err := concat (map w_errs (s_workers s)).
Definition all_logs (s : sys) : list (addr * script * option nat * obs) := concat (map w_log (s_workers s)).
Definition in_scope (s : sys) : bool := forallb (fun w => negb (w_oos w)) (s_workers s).
