From Coq Require Import List Arith Bool PeanoNat Lia Permutation.
Import ListNotations.
From BQ Require Import rt.WorkerM rt.wip_W1 rt.wip_W2 rt.wip_W3 rt.wip_W4 rt.wip_W5 rt.wip_W6 rt.wip_W7 rt.wip_W8 rt.wip_W9 rt.wip_W10 rt.wip_W11 rt.wip_W12 rt.wip_W13 rt.wip_W14 rt.wip_W15 rt.wip_W16 rt.wip_W17.

Lemma armedb_dest : forall x b, armedb x b = true -> b_dest b = Some x /\ b_ready b = false.
Proof. intros x b H. unfold armedb in H. apply andb_true_iff in H. destruct H as [H1 H2].
  destruct (b_dest b) as [d|]; [|discriminate]. apply addr_eqb_eq in H1. subst. apply negb_true_iff in H2. auto. Qed.
Lemma armedb_intro : forall x b, b_dest b = Some x -> b_ready b = false -> armedb x b = true.
Proof. intros x b H1 H2. unfold armedb. rewrite H1, H2, addr_eqb_refl. reflexivity. Qed.

Lemma handle_result_D_aux : forall w ab asl v w1 ok, winvV w -> winvC w -> winvD w -> dep1 w ->
  lexp w (mkAddr (me w) ab asl) v ->
  (box_get ab (w_boxes w) <> None -> cnt (mkAddr (me w) ab asl) (w_deposited w) = 0) ->
  handle_result w (mkAddr (me w) ab asl) v = (w1, ok) ->
  winvD w1 /\ (forall x, qcnt x w + armed x w = 0 -> qcnt x w1 + armed x w1 = 0).
Proof.
  intros w ab asl v w1 ok IV IC ID Dp L Hz H. unfold handle_result in H. cbn [a_w a_box a_slot] in H.
  rewrite (proj2 (dest_eqb_eq (me w) (me w)) eq_refl) in H. cbn [negb] in H.
  destruct (box_get ab (w_boxes w)) as [b|] eqn:Eb.
  2:{ injection H as <- <-. split; [eapply winvD_same; [| | | | |exact ID]; reflexivity|auto]. }
  destruct (deposit b asl v) as [b1 ok1] eqn:Edep.
  destruct (deposit_C w ab b asl v b1 ok1 (C_box w IC _ _ Eb) (L _ Eb) Edep) as (-> & D1 & D2 & D3 & D4 & D5).
  cbn [negb] in H.
  assert (Hslot : asl < length (b_expect b)).
  { apply nth_error_Some. pose proof (L _ Eb) as Q. simpl in Q. rewrite Q. discriminate. }
  assert (Hnr : b_ready b = false).
  { apply (deposit_not_ready w ab b asl Dp (C_box w IC _ _ Eb) Hslot). apply Hz. congruence. }
  pose proof (V_keys w IV) as Hnd.
  set (a := mkAddr (me w) ab asl) in *.
  set (w1' := set_deposited (set_boxes w (box_set ab b1 (w_boxes w))) (w_deposited w ++ [a])) in *.
  assert (I1 : winvD w1').
  { eapply winvD_same; [| | | | |apply (winvD_box_upd w ab b1 b ID Hnd Eb)]; try reflexivity.
    - intros x Hx. apply armedb_dest in Hx. destruct Hx as [Hx _]. apply armedb_intro; congruence.
    - intro R. congruence.
    - intros _. eapply deposit_fresh; eauto. }
  assert (Hle1 : forall x, armed x w1' <= armed x w).
  { intro x. unfold armed. subst w1'. simpl. pose proof (armed_l_set x ab b1 b _ Hnd Eb) as E. unfold armedn in *.
    destruct (armedb x b1) eqn:E1; [|destruct (armedb x b); lia].
    apply armedb_dest in E1. destruct E1 as [E1 _]. rewrite (armedb_intro x b) in E by congruence. lia. }
  assert (Z1 : forall x, qcnt x w + armed x w = 0 -> qcnt x w1' + armed x w1' = 0).
  { intros x Hx. specialize (Hle1 x). unfold qcnt in *. subst w1'. simpl in *. lia. }
  destruct (b_dest b1) as [d|] eqn:Ed; [|injection H as <- <-; split; [exact I1|exact Z1]].
  assert (Harm : armedb d b = true) by (apply armedb_intro; congruence).
  destruct (D_armed w ID ab b d Eb Harm) as (t & Ht & Hdes).
  assert (Ht' : task_get d (w_tasks w1') = Some t) by exact Ht.
  rewrite Ht' in H.
  destruct (t_won t || b_ready b1) eqn:Ewake; injection H as <- <-; [|split; [exact I1|exact Z1]].
  (* wake d *)
  set (b2 := b_set_dest b1 None).
  assert (Eb1 : box_get ab (w_boxes w1') = Some b1) by (subst w1'; simpl; apply box_get_set_same).
  assert (Hnd1 : NoDup (keys (w_boxes w1'))).
  { subst w1'. simpl. rewrite (keys_box_set_present _ _ _ _ Eb). exact Hnd. }
  assert (I2 : winvD (set_boxes w1' (box_set ab b2 (w_boxes w1')))).
  { apply (winvD_box_upd w1' ab b2 b1 I1 Hnd1 Eb1).
    - intros x Hx. apply armedb_dest in Hx. destruct Hx as [Hx _]. discriminate.
    - auto.
    - auto. }
  assert (Hone : qcnt d w + armed d w <= 1) by apply (D_one w ID).
  assert (Hge : armed d w >= 1) by (unfold armed; eapply armed_l_ge; [eapply box_get_In; eauto|auto]).
  assert (Hzero : qcnt d (set_boxes w1' (box_set ab b2 (w_boxes w1'))) + armed d (set_boxes w1' (box_set ab b2 (w_boxes w1'))) = 0).
  { unfold qcnt, armed in *. subst w1'. simpl in *.
    pose proof (armed_l_set d ab b1 b _ Hnd Eb) as A1.
    assert (Hnd1' : NoDup (keys (box_set ab b1 (w_boxes w)))) by (rewrite (keys_box_set_present _ _ _ _ Eb); exact Hnd).
    pose proof (armed_l_set d ab b2 b1 _ Hnd1' (box_get_set_same ab b1 (w_boxes w))) as A2.
    assert (armedn d b = 1) by (unfold armedn; rewrite Harm; reflexivity).
    assert (armedn d b2 = 0) by reflexivity. lia. }
  split.
  - eapply winvD_same; [| | | | |apply (winvD_put _ d I2 Hzero)]; try reflexivity.
    + exists t. exact Ht.
    + intros t0 m b0 Ht0 Hd0 Hb0. simpl in Ht0. assert (t0 = t) by congruence. subst t0.
      assert (m = ab) by congruence. subst m. simpl in Hb0. rewrite box_get_set_same in Hb0. injection Hb0 as <-.
      destruct (t_won t) eqn:Ew; simpl.
      * eapply deposit_fresh; eauto.
      * simpl in Ewake. exact Ewake.
  - intros x Hx. assert (x <> d) by (intro; subst; lia).
    pose proof (Z1 x Hx) as Z.
    assert (Hle2 : armed x (set_boxes w1' (box_set ab b2 (w_boxes w1'))) <= armed x w1').
    { unfold armed. change (w_boxes (set_boxes w1' (box_set ab b2 (w_boxes w1')))) with (box_set ab b2 (w_boxes w1')).
      pose proof (armed_l_set x ab b2 b1 _ Hnd1 Eb1) as E. assert (armedn x b2 = 0) by reflexivity. lia. }
    unfold qcnt, armed in *. cbn [w_ready w_boxes put set_ready set_boxes] in *. rewrite cnt_app, cnt_single.
    destruct (addr_eqb x d) eqn:E; [apply addr_eqb_eq in E; congruence|].
    change (box_set ab b1 (w_boxes w)) with (w_boxes w1'). lia.
Qed.

Lemma handle_result_D : forall w a v w1 ok, winvV w -> winvC w -> winvD w -> dep1 w ->
  (a_w a = me w -> lexp w a v) ->
  (a_w a = me w -> box_get (a_box a) (w_boxes w) <> None -> cnt a (w_deposited w) = 0) ->
  handle_result w a v = (w1, ok) ->
  winvD w1 /\ (forall x, qcnt x w + armed x w = 0 -> qcnt x w1 + armed x w1 = 0).
Proof.
  intros w a v w1 ok IV IC ID Dp L0 Hz H.
  destruct (dest_eqb (a_w a) (me w)) eqn:Eme.
  - apply dest_eqb_eq in Eme. destruct a as [aw ab asl]. simpl in Eme. subst aw.
    eapply (handle_result_D_aux w ab asl v w1 ok); eauto.
  - unfold handle_result in H. rewrite Eme in H. cbn [negb] in H. injection H as <- <-.
    split; [|auto]. eapply winvD_same; [| | | | |apply (winvD_errs w EAssertWid ID)]; try reflexivity; discriminate.
Qed.

(* task a is rewritten while not queued; if it is armed, the registration (desired box) must stay *)
Lemma winvD_task_set_gen : forall w t, winvD w -> qcnt (t_addr t) w = 0 ->
  (forall m b, box_get m (w_boxes w) = Some b -> armedb (t_addr t) b = true -> t_desired t = Some m) ->
  (exists t0, task_get (t_addr t) (w_tasks w) = Some t0) ->
  winvD (set_tasks w (task_set t (w_tasks w))).
Proof.
  intros w t [K1 K2 K3 K4 K5 K6] Hq Harm Hex. constructor; simpl; auto.
  - intros a Ha. destruct (addr_eqb (t_addr t) a) eqn:E.
    + apply addr_eqb_eq in E. subst a. exists t. apply task_get_task_set_same.
    + apply addr_eqb_neq in E. destruct (K3 a Ha) as (t0 & Ht0). exists t0. rewrite task_get_task_set_other; auto.
  - intros a Ha. destruct (addr_eqb (t_addr t) a) eqn:E.
    + apply addr_eqb_eq in E. subst a. exfalso. unfold qcnt in Hq.
      assert (cnt (t_addr t) (w_ready w) >= 1) by (apply cnt_pos_in; auto). lia.
    + apply addr_eqb_neq in E. unfold steppable. simpl. rewrite task_get_task_set_other by auto. apply (K4 a Ha).
  - intros m b a Hb Ha. simpl in *. destruct (addr_eqb (t_addr t) a) eqn:E.
    + apply addr_eqb_eq in E. subst a. exists t. split; [apply task_get_task_set_same|eapply Harm; eauto].
    + apply addr_eqb_neq in E. destruct (K5 m b a Hb Ha) as (t0 & Ht0 & Hd). exists t0. rewrite task_get_task_set_other; auto.
Qed.

Lemma aw1_D : forall w a m b t, winvD w -> NoDup (keys (w_boxes w)) -> qcnt a w + armed a w = 0 ->
  box_get m (w_boxes w) = Some b -> task_get a (w_tasks w) = Some t ->
  winvD (aw1 w a m) /\ w_ready (aw1 w a m) = w_ready w /\
  box_get m (w_boxes (aw1 w a m)) = Some (b_set_dest b (Some a)) /\
  task_get a (w_tasks (aw1 w a m)) = Some (t_set_desired t (Some m)) /\
  (b_ready b = true -> armed a (aw1 w a m) = 0) /\ NoDup (keys (w_boxes (aw1 w a m))) /\ w_pc (aw1 w a m) = w_pc w.
Proof.
  intros w a m b t ID Hnd Hz Hb Ht. unfold aw1. rewrite Hb. cbn [w_tasks set_boxes]. rewrite Ht.
  pose proof (task_get_Some _ _ _ Ht) as [Hta _].
  set (b' := b_set_dest b (Some a)). set (t' := t_set_desired t (Some m)).
  set (w1 := set_boxes w (box_set m b' (w_boxes w))).
  assert (Hnd1 : NoDup (keys (w_boxes w1))) by (subst w1; simpl; rewrite (keys_box_set_present _ _ _ _ Hb); exact Hnd).
  assert (Hq : qcnt a w = 0) by lia. assert (Ha0 : armed a w = 0) by lia.
  assert (Harm_other : forall x, x <> a -> armedn x b' = 0).
  { intros x Hx. unfold armedn, armedb. simpl. destruct (addr_eqb a x) eqn:E; [apply addr_eqb_eq in E; congruence|reflexivity]. }
  assert (Hacc : forall x, armed_l x (w_boxes w1) + armedn x b = armed_l x (w_boxes w) + armedn x b').
  { intro x. subst w1. simpl. apply armed_l_set; auto. }
  assert (Hb0 : armedn a b = 0).
  { unfold armed in Ha0. destruct (armedn a b) eqn:E; auto. exfalso. unfold armedn in E. destruct (armedb a b) eqn:E2; [|discriminate].
    assert (armed_l a (w_boxes w) >= 1) by (eapply armed_l_ge; [eapply box_get_In; eauto|auto]). lia. }
  destruct ID as [K1 K2 K3 K4 K5 K6].
  assert (I1 : winvD (set_tasks w1 (task_set t' (w_tasks w1)))).
  { unfold qcnt, armed in *. subst w1. simpl in *. constructor.
    - exact K1.
    - intro x. unfold qcnt, armed. simpl. specialize (Hacc x). specialize (K2 x).
      assert (Hle1 : armedn a b' <= 1) by (unfold armedn; destruct (armedb a b'); lia).
      destruct (addr_eqb x a) eqn:E.
      + apply addr_eqb_eq in E. subst x. lia.
      + apply addr_eqb_neq in E. rewrite (Harm_other x E) in Hacc. lia.
    - intros x Hx. simpl. destruct (addr_eqb (t_addr t') x) eqn:E.
      + apply addr_eqb_eq in E. subst x. exists t'. apply task_get_task_set_same.
      + apply addr_eqb_neq in E. rewrite task_get_task_set_other by auto. apply K3.
        unfold qcnt, armed in Hx. simpl in Hx. specialize (Hacc x). rewrite (Harm_other x) in Hacc by (simpl in E; congruence). lia.
    - intros x Hx. simpl in Hx. assert (x <> a). { intro Heq. rewrite Heq in Hx. assert (cnt a (w_ready w) >= 1) by (apply cnt_pos_in; auto). lia. }
      unfold steppable. simpl. rewrite task_get_task_set_other by (simpl; congruence).
      intros t0 m' b0 Ht0 Hd0 Hb0'. destruct (Nat.eq_dec m' m).
      * subst m'. rewrite box_get_set_same in Hb0'. injection Hb0' as <-. apply (K4 x Hx t0 m b Ht0 Hd0 Hb).
      * rewrite box_get_set_other in Hb0' by auto. apply (K4 x Hx t0 m' b0 Ht0 Hd0 Hb0').
    - intros m' b0 x Hb0' Hx. simpl in *. destruct (Nat.eq_dec m' m).
      + subst m'. rewrite box_get_set_same in Hb0'. injection Hb0' as <-. apply armedb_dest in Hx. destruct Hx as [Hx _].
        simpl in Hx. injection Hx as <-. exists t'. split; [rewrite <- Hta; apply (task_get_task_set_same t')|reflexivity].
      + rewrite box_get_set_other in Hb0' by auto. destruct (K5 m' b0 x Hb0' Hx) as (t0 & Ht0 & Hd0).
        destruct (addr_eqb (t_addr t') x) eqn:E.
        * apply addr_eqb_eq in E. simpl in E. rewrite Hta in E. subst x. exfalso.
          assert (armed_l a (w_boxes w) >= 1) by (eapply armed_l_ge; [eapply box_get_In; eauto|auto]). lia.
        * apply addr_eqb_neq in E. exists t0. rewrite task_get_task_set_other; auto.
    - exact K6. }
  split; [exact I1|]. split; [reflexivity|]. split; [simpl; apply box_get_set_same|].
  split; [simpl; rewrite <- Hta; apply (task_get_task_set_same t')|].
  split; [|split; [exact Hnd1|reflexivity]].
  intro R. unfold armed in *. simpl. specialize (Hacc a). subst w1. simpl in Hacc.
  assert (armedn a b' = 0).
  { unfold armedn, armedb. subst b'. simpl. unfold b_ready in *. simpl. rewrite R. rewrite andb_false_r. reflexivity. }
  simpl in Hacc. lia.
Qed.

Lemma ready_fresh : forall w m b, boxC w m b -> b_ready b = true -> b_fresh b <> None.
Proof. intros w m b (C1&_&_&_&C5&_) R Hf. specialize (C5 Hf). unfold b_ready in R. apply andb_true_iff in R. destruct R as [_ R].
  apply negb_true_iff in R. b2p. rewrite C5 in C1. simpl in C1. congruence. Qed.

(* the three registration statements, executed as one atom *)
Lemma aw_atomic_D : forall w a m nxt, winvD w -> winvV w -> winvC w -> qcnt a w + armed a w = 0 ->
  has_box w m = true -> (exists t, task_get a (w_tasks w) = Some t) ->
  winvD (aw2 (aw1c (aw1 w a m) a nxt) a m).
Proof.
  intros w a m nxt ID IV IC Hz Hb (t & Ht). unfold has_box in Hb.
  destruct (box_get m (w_boxes w)) as [b|] eqn:Eb; [|discriminate].
  destruct (aw1_D w a m b t ID (V_keys w IV) Hz Eb Ht) as (I1 & R1 & B1 & T1 & A1 & N1 & P1).
  set (w1 := aw1 w a m) in *.
  assert (Hq1 : qcnt a w1 = 0) by (unfold qcnt in *; rewrite R1; lia).
  (* aw1c *)
  assert (I2 : winvD (aw1c w1 a nxt) /\ w_ready (aw1c w1 a nxt) = w_ready w1 /\ w_boxes (aw1c w1 a nxt) = w_boxes w1 /\
               task_get a (w_tasks (aw1c w1 a nxt)) = Some (t_set_won (t_set_desired t (Some m)) nxt)).
  { unfold aw1c. rewrite T1. pose proof (task_get_Some _ _ _ T1) as [Hta _]. simpl in Hta.
    split; [|split; [reflexivity|split; [reflexivity|]]].
    - apply (winvD_task_set_gen w1 (t_set_won (t_set_desired t (Some m)) nxt) I1).
      + simpl. rewrite Hta. exact Hq1.
      + intros m' b' Hb' Ha'. simpl in *. rewrite Hta in Ha'. destruct (D_armed w1 I1 m' b' a Hb' Ha') as (t0 & Ht0 & Hd0).
        rewrite T1 in Ht0. injection Ht0 as <-. exact Hd0.
      + simpl. rewrite Hta. eauto.
    - simpl. rewrite <- Hta. apply (task_get_task_set_same (t_set_won (t_set_desired t (Some m)) nxt)). }
  destruct I2 as (I2 & R2 & B2 & T2).
  set (w2 := aw1c w1 a nxt) in *.
  unfold aw2. rewrite B2, B1.
  destruct (b_ready (b_set_dest b (Some a))) eqn:R; [|exact I2].
  assert (Rb : b_ready b = true) by exact R.
  apply winvD_put; auto.
  - unfold qcnt, armed. rewrite R2, B2. unfold qcnt in Hq1. specialize (A1 Rb). unfold armed in A1. lia.
  - eauto.
  - intros t0 m' b0 Ht0 Hd0 Hb0. rewrite T2 in Ht0. injection Ht0 as <-. simpl in Hd0. injection Hd0 as <-.
    rewrite B2, B1 in Hb0. injection Hb0 as <-. simpl.
    destruct nxt; [|exact Rb]. apply (ready_fresh w m b (C_box w IC _ _ Eb) Rb).
Qed.

Lemma desired_result_D : forall w t w1 t1 sv, winvD w -> NoDup (keys (w_boxes w)) ->
  desired_result w t = inl (w1, t1, sv) ->
  winvD w1 /\ w_ready w1 = w_ready w /\ w_tasks w1 = w_tasks w /\ (forall x, armed x w1 <= armed x w).
Proof.
  intros w t w1 t1 sv ID Hnd H. unfold desired_result in H.
  destruct (t_desired t) as [m|]; [|injection H as <- <- <-; split; [auto|split; [auto|split; [auto|intro; lia]]]].
  destruct (box_get m (w_boxes w)) as [b|] eqn:Eb; [|discriminate].
  destruct (t_won t).
  - destruct (b_fresh b) as [fr|] eqn:Ef; [|discriminate]. injection H as <- <- <-.
    split; [|split; [reflexivity|split; [reflexivity|]]].
    + apply (winvD_box_upd w m (b_set_fresh b (Some [])) b ID Hnd Eb); auto. simpl. discriminate.
    + intro x. unfold armed. simpl. pose proof (armed_l_set x m (b_set_fresh b (Some [])) b _ Hnd Eb) as E.
      assert (armedn x (b_set_fresh b (Some [])) = armedn x b) by reflexivity. lia.
  - destruct (b_ready b) eqn:R; cbn [negb] in H; [|discriminate].
    destruct (remove_first m (t_owned t)); [|discriminate]. injection H as <- <- <-.
    split; [|split; [reflexivity|split; [reflexivity|]]].
    + apply (winvD_box_del w m b ID Hnd Eb).
    + intro x. unfold armed. simpl. pose proof (armed_l_del x m b _ Hnd Eb). lia.
Qed.

Lemma desired_result_err : forall w t e, steppable w (t_addr t) -> task_get (t_addr t) (w_tasks w) = Some t ->
  desired_result w t = inr e -> e <> EAssertReady /\ e <> EAssertFresh.
Proof.
  intros w t e Hs Ht H. unfold desired_result in H.
  destruct (t_desired t) as [m|] eqn:Ed; [|discriminate].
  destruct (box_get m (w_boxes w)) as [b|] eqn:Eb; [|injection H as <-; split; discriminate].
  specialize (Hs t m b Ht Ed Eb).
  destruct (t_won t).
  - destruct (b_fresh b); [discriminate|congruence].
  - rewrite Hs in H. cbn [negb] in H. destruct (remove_first m (t_owned t)); [discriminate|]. injection H as <-. split; discriminate.
Qed.

Lemma close_boxes_oos : forall owned skip w w1 ok, close_boxes owned skip w = (w1, ok) -> w_oos w = true -> w_oos w1 = true.
Proof. induction owned as [|m r IH]; simpl; intros skip w w1 ok H Ho.
  - injection H as <- <-. auto.
  - destruct skip; [eapply IH; eauto|]. destruct (box_get m (w_boxes w)); [|injection H as <- <-; auto].
    destruct (b_ready m0); eapply IH; eauto. Qed.

Lemma close_boxes_D : forall owned skip w w1 ok, winvD w -> NoDup (keys (w_boxes w)) ->
  close_boxes owned skip w = (w1, ok) -> w_oos w1 = true \/ winvD w1.
Proof.
  induction owned as [|m r IH]; simpl; intros skip w w1 ok ID Hnd H.
  - injection H as <- <-. auto.
  - destruct skip; [eapply IH; eauto|].
    destruct (box_get m (w_boxes w)) as [b|] eqn:Eb.
    2:{ injection H as <- <-. right. apply winvD_errs; auto; discriminate. }
    destruct (b_ready b).
    + eapply IH; [| |exact H]. apply (winvD_box_del w m b ID Hnd Eb). simpl. apply keys_box_del_NoDup. auto.
    + left. eapply close_boxes_oos; [exact H|reflexivity].
Qed.
