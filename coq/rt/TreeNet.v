(* C07 (extension): message routing in a TREE of nodes -- DetachedServer at the root, Managers
   below it (any depth, any fan-out), workers at the leaves -- for the messages that carry tasks
   and results: SUBMIT / SUBMIT_BATCH / RESULT.  No proofs in this file (rt/TreeNetThm.v).

   Code -> definitions
     ServerBase.connect_to_managers / spawn_workers ranges      Routing.tree, child_lb/child_ub, node_at
     ServerBase.is_my_worker / get_employee_responsible_for      the GENERATED gen/SchedArith.v functions
     ServerBase.send_result_down                                 send_result_down
     ServerBase.schedule_tasks (assign_tasks = oracle `asg`,     schedule / sends / valid_asg
        any partition of the batch over the employees)
     Manager.handle_message ABOVE: SUBMIT, SUBMIT_BATCH, RESULT  handle_above
     Manager.handle_message BELOW: SUBMIT, SUBMIT_BATCH          the GENERATED send_up_or_schedule_tasks
        (num_idle_workers = oracle `ni` of the event)              interpreted by `interp`
     Manager.handle_result_from_below                            the GENERATED manager_handle_result_from_below
     DetachedServer.handle_message BELOW: SUBMIT(_BATCH), RESULT handle_below_root (handle_result: client / down)
     a worker sending RESULT / SUBMIT / SUBMIT_BATCH             TInjRes / TInjBatch (completed_by = own id)
     DetachedServer.handle_new_comp_task -> schedule_tasks([t])  TRoot
   Channels: one flat list of (lower endpoint path, direction, message), oldest first; TDeliver p d
   takes the OLDEST message of channel (p, d) (per-channel FIFO, any interleaving between channels).
   UPDATE / WAITING messages and the idle/task counters they maintain are C15's (rt/Sched*.v); here
   the counter that matters for routing (num_idle_workers in send_up_or_schedule_tasks) is an oracle.
   Every runtime exception is an explicit branch (n_err): RuntimeError of send_result_down, IndexError of
   employees[...] and of rtasks[0], ZeroDivisionError of a zero step_size.
   Ghost (never read): rid / task ids, n_rinj, n_tinj, n_inbox, n_client. *)
From Coq Require Import ZArith List Bool Arith.
From BQ Require Import rt.SchedPre gen.SchedArith rt.Routing.
Import ListNotations.
Open Scope Z_scope.

Definition path := list nat.
Inductive dir := Up | Down.

Inductive tmsg :=
| TRes (rid : nat) (dest : Z) (by_ : Z)      (* RESULT: ghost id, return_address.worker_id, completed_by *)
| TBatch (single : bool) (ts : list nat).    (* SUBMIT (single = true) / SUBMIT_BATCH of ghost task ids *)

Definition pmsg : Type := path * dir * tmsg.

Inductive terr := TExn (e : exn) | TZeroDiv.

Record net := mkNet {
  n_chan : list pmsg;               (* in flight, oldest first *)
  n_inbox : list (path * tmsg);     (* received by the worker at that path *)
  n_client : list nat;              (* results stored in a client mailbox of the server *)
  n_err : list (path * terr);       (* exceptions raised by a node's handler *)
  n_rinj : list nat;                (* ghost: result ids sent by workers *)
  n_tinj : list nat                 (* ghost: task ids sent by workers / submitted by clients *)
}.

Definition net0 : net := mkNet [] [] [] [] [] [].

(* ---------- the hierarchy ---------- *)
Definition n_emp (t : tree) : nat := match t with Leaf n => n | Node cs => length cs end.
Definition emps (t : tree) : list nat := seq 0 (n_emp t).

Fixpoint node_at (lb ub : Z) (t : tree) (p : path) : option (Z * Z * tree) :=
  match p with
  | [] => Some (lb, ub, t)
  | i :: p' =>
    match t with
    | Leaf _ => None
    | Node cs =>
      match nth_error cs i with
      | Some c => node_at (child_lb lb ub (zlen cs) i) (child_ub lb ub (zlen cs) i) c p'
      | None => None
      end
    end
  end.

Fixpoint split_last (p : path) : option (path * nat) :=
  match p with
  | [] => None
  | [j] => Some ([], j)
  | i :: p' => match split_last p' with Some (q, j) => Some (i :: q, j) | None => None end
  end.

Fixpoint height (t : tree) : nat :=
  match t with Leaf _ => 1 | Node cs => S (fold_right (fun c m => Nat.max (height c) m) 0%nat cs) end.

Section Net.
  Variables (LB UB : Z) (T : tree).

  (* id of the worker whose connection is the lower endpoint of p *)
  Definition worker_at (p : path) : option Z :=
    match split_last p with
    | Some (q, j) =>
      match node_at LB UB T q with
      | Some (lb, _, Leaf n) => if (j <? n)%nat then Some (sw_w_id lb (Z.of_nat j)) else None
      | _ => None
      end
    | None => None
    end.

  (* ---------- channels ---------- *)
  Definition dir_eqb (a b : dir) : bool := match a, b with Up, Up | Down, Down => true | _, _ => false end.
  Definition path_eqb (a b : path) : bool := if list_eq_dec Nat.eq_dec a b then true else false.

  Fixpoint take (p : path) (d : dir) (l : list pmsg) : option (tmsg * list pmsg) :=
    match l with
    | [] => None
    | (p', d', m) :: r =>
      if path_eqb p p' && dir_eqb d d' then Some (m, r)
      else match take p d r with Some (m', r') => Some (m', (p', d', m) :: r') | None => None end
    end.

  (* ---------- ServerBase.schedule_tasks with the assignment as an oracle ---------- *)
  Definition cnt (x : nat) (l : list nat) : nat := count_occ Nat.eq_dec l x.
  Definition perm_b (a b : list nat) : bool := forallb (fun x => Nat.eqb (cnt x a) (cnt x b)) (a ++ b).
  Definition valid_asg (k : nat) (ts : list nat) (asg : list (list nat)) : bool :=
    Nat.eqb (length asg) k && perm_b (concat asg) ts.

  Fixpoint sends (q : path) (j : nat) (asg : list (list nat)) : list pmsg :=
    match asg with
    | [] => []
    | a :: r => (match a with [] => [] | _ => [(q ++ [j], Down, TBatch false a)] end) ++ sends q (S j) r
    end.

  (* None: the oracle is not a partition of the batch over the employees (event not enabled) *)
  Definition schedule (q : path) (t : tree) (ts : list nat) (asg : list (list nat)) : option (list pmsg) :=
    match ts with
    | [] => Some []
    | _ => if valid_asg (n_emp t) ts asg then Some (sends q 0 asg) else None
    end.

  (* ---------- ServerBase.send_result_down ---------- *)
  Definition send_result_down (q : path) (lb ub : Z) (t : tree) (m : tmsg) (dest : Z) : res (list pmsg) :=
    if node_is_my_worker lb ub t dest
    then bind (get_employee_responsible_for lb (node_step lb ub t) (emps t) dest) (fun j => Ok [(q ++ [j], Down, m)])
    else Raise RuntimeError.

  (* ---------- effects of the generated manager methods ---------- *)
  Definition up_marker : Z := -7.
  Fixpoint interp (q : path) (lb ub : Z) (t : tree) (m : tmsg) (dest : Z) (asg : list (list nat))
           (acts : list (action nat)) : option (res (list pmsg)) :=
    match acts with
    | [] => Some (Ok [])
    | a :: r =>
      let here : option (res (list pmsg)) :=
        match a with
        | APut _ M_SUBMIT_BATCH (PTasks l) => Some (Ok [(q, Up, TBatch false l)])
        | APut _ M_RESULT _ => Some (Ok [(q, Up, m)])
        | APut _ _ _ => Some (Ok [])                      (* UPDATE / WAITING: counters (C15) *)
        | AUpdateUpstream => Some (Ok [])
        | ASchedule l => match schedule q t l asg with Some o => Some (Ok o) | None => None end
        | ASendResultDown => Some (send_result_down q lb ub t m dest)
        end in
      match here with
      | None => None
      | Some (Raise e) => Some (Raise e)
      | Some (Ok o) =>
        match interp q lb ub t m dest asg r with
        | None => None
        | Some (Raise e) => Some (Raise e)
        | Some (Ok o') => Some (Ok (o ++ o'))
        end
      end
    end.

  (* Manager.handle_message, direction ABOVE *)
  Definition handle_above (q : path) (lb ub : Z) (t : tree) (m : tmsg) (asg : list (list nat))
    : option (res (list pmsg)) :=
    match m with
    | TRes _ dest _ => Some (send_result_down q lb ub t m dest)
    | TBatch _ ts =>
      match ts with
      | [] => Some (Raise IndexError)                    (* most_recent_read_submit = rtasks[0].unique_id *)
      | _ => match schedule q t ts asg with Some o => Some (Ok o) | None => None end
      end
    end.

  (* Manager.handle_message, direction BELOW *)
  Definition handle_below_mgr (q : path) (lb ub : Z) (t : tree) (m : tmsg) (ni : Z) (asg : list (list nat))
    : option (res (list pmsg)) :=
    match m with
    | TBatch _ ts =>
      match send_up_or_schedule_tasks ni up_marker ts [] with
      | Ok acts => interp q lb ub t m 0 asg acts
      | Raise e => Some (Raise e)
      end
    | TRes _ dest by_ =>
      match get_employee_responsible_for lb (node_step lb ub t) (emps t) by_ with
      | Raise e => Some (Raise e)
      | Ok _ =>
        match manager_handle_result_from_below (T := nat) 0 lb (node_step lb ub t) (node_employees t) dest tt up_marker [] with
        | Ok (_, acts) => interp q lb ub t m dest asg acts
        | Raise e => Some (Raise e)
        end
      end
    end.

  (* DetachedServer.handle_message, direction BELOW; inl = stored for the client *)
  Definition handle_below_root (lb ub : Z) (t : tree) (m : tmsg) (asg : list (list nat))
    : option (res (list pmsg * list nat)) :=
    match m with
    | TBatch _ ts => match schedule [] t ts asg with Some o => Some (Ok (o, [])) | None => None end
    | TRes rid dest by_ =>
      match get_employee_responsible_for lb (node_step lb ub t) (emps t) by_ with
      | Raise e => Some (Raise e)
      | Ok _ =>
        if dest =? -1 then Some (Ok ([], [rid]))
        else match send_result_down [] lb ub t m dest with Ok o => Some (Ok (o, [])) | Raise e => Some (Raise e) end
      end
    end.

  (* ---------- events ---------- *)
  Inductive tev :=
  | TInjRes (p : path) (rid : nat) (dst : option path)   (* worker p sends a RESULT for worker dst (None = client) *)
  | TInjBatch (p : path) (single : bool) (ts : list nat) (* worker p sends SUBMIT / SUBMIT_BATCH *)
  | TRoot (ts : list nat) (asg : list (list nat))        (* the server schedules new (compilation) tasks *)
  | TDeliver (p : path) (d : dir) (ni : Z) (asg : list (list nat))  (* a node handles the oldest message of (p,d) *)
  | TWorkerRecv (p : path).                              (* worker p receives the oldest message of (p,Down) *)

  Definition with_out (s : net) (rest out : list pmsg) (cl : list nat) : net :=
    mkNet (rest ++ out) (n_inbox s) (n_client s ++ cl) (n_err s) (n_rinj s) (n_tinj s).
  Definition with_err (s : net) (rest : list pmsg) (q : path) (e : terr) : net :=
    mkNet rest (n_inbox s) (n_client s) (n_err s ++ [(q, e)]) (n_rinj s) (n_tinj s).

  Definition finish (s : net) (rest : list pmsg) (q : path) (r : option (res (list pmsg))) : option net :=
    match r with
    | None => None
    | Some (Ok o) => Some (with_out s rest o [])
    | Some (Raise e) => Some (with_err s rest q (TExn e))
    end.

  Definition tstep (s : net) (e : tev) : option net :=
    match e with
    | TInjRes p rid dst =>
      match worker_at p, (match dst with None => Some (-1) | Some p' => worker_at p' end) with
      | Some me, Some dest =>
        Some (mkNet (n_chan s ++ [(p, Up, TRes rid dest me)]) (n_inbox s) (n_client s) (n_err s)
                    (n_rinj s ++ [rid]) (n_tinj s))
      | _, _ => None
      end
    | TInjBatch p single ts =>
      match worker_at p, ts with
      | Some _, _ :: r =>
        if single && negb (Nat.eqb (length r) 0) then None
        else Some (mkNet (n_chan s ++ [(p, Up, TBatch single ts)]) (n_inbox s) (n_client s) (n_err s)
                         (n_rinj s) (n_tinj s ++ ts))
      | _, _ => None
      end
    | TRoot ts asg =>
      match schedule [] T ts asg with
      | Some o => Some (mkNet (n_chan s ++ o) (n_inbox s) (n_client s) (n_err s) (n_rinj s) (n_tinj s ++ ts))
      | None => None
      end
    | TDeliver p Down ni asg =>
      match take p Down (n_chan s) with
      | None => None
      | Some (m, rest) =>
        match node_at LB UB T p with
        | None => None                                   (* p is a worker: TWorkerRecv *)
        | Some (lb, ub, t) =>
          match p with
          | [] => None
          | _ => if node_step lb ub t =? 0 then Some (with_err s rest p TZeroDiv)
                 else finish s rest p (handle_above p lb ub t m asg)
          end
        end
      end
    | TDeliver p Up ni asg =>
      match take p Up (n_chan s) with
      | None => None
      | Some (m, rest) =>
        match split_last p with
        | None => None
        | Some (q, j) =>
          match node_at LB UB T q with
          | None => None
          | Some (lb, ub, t) =>
            if negb (j <? n_emp t)%nat then None
            else if node_step lb ub t =? 0 then Some (with_err s rest q TZeroDiv)
            else match q with
                 | [] => match handle_below_root lb ub t m asg with
                         | None => None
                         | Some (Ok (o, cl)) => Some (with_out s rest o cl)
                         | Some (Raise e) => Some (with_err s rest q (TExn e))
                         end
                 | _ => if ni <? 0 then None else finish s rest q (handle_below_mgr q lb ub t m ni asg)
                 end
          end
        end
      end
    | TWorkerRecv p =>
      match take p Down (n_chan s), worker_at p with
      | Some (m, rest), Some _ =>
        Some (mkNet rest (n_inbox s ++ [(p, m)]) (n_client s) (n_err s) (n_rinj s) (n_tinj s))
      | _, _ => None
      end
    end.

  Fixpoint tsteps (s : net) (es : list tev) : option net :=
    match es with
    | [] => Some s
    | e :: r => match tstep s e with Some s' => tsteps s' r | None => None end
    end.

  (* ---------- observables used by the theorems ---------- *)
  Definition tids_of (m : tmsg) : list nat := match m with TBatch _ ts => ts | TRes _ _ _ => [] end.
  Definition rids_of (m : tmsg) : list nat := match m with TRes r _ _ => [r] | TBatch _ _ => [] end.
  Definition chan_tids (l : list pmsg) : list nat := flat_map (fun x => tids_of (snd x)) l.
  Definition chan_rids (l : list pmsg) : list nat := flat_map (fun x => rids_of (snd x)) l.
  Definition inbox_tids (l : list (path * tmsg)) : list nat := flat_map (fun x => tids_of (snd x)) l.
  Definition inbox_rids (l : list (path * tmsg)) : list nat := flat_map (fun x => rids_of (snd x)) l.

  (* hops still ahead of a message, times the number of tasks / results it carries *)
  Definition msize (m : tmsg) : nat := match m with TRes _ _ _ => 1 | TBatch _ ts => length ts end.
  Definition weight (x : pmsg) : nat :=
    match x with
    | (p, Up, m) => (height T + 1 + length p) * msize m
    | (p, Down, m) => (height T + 1 - length p) * msize m
    end%nat.
  Definition measure (s : net) : nat := fold_right (fun x a => (weight x + a)%nat) 0%nat (n_chan s).

  Definition is_inject (e : tev) : bool :=
    match e with TInjRes _ _ _ | TInjBatch _ _ _ | TRoot _ _ => true | _ => false end.
End Net.
