From Coq Require Import List Arith Bool PeanoNat Lia Permutation.
Import ListNotations.
From BQ Require Import rt.WorkerM rt.wip_W1 rt.wip_W2 rt.wip_W3 rt.wip_W4 rt.wip_W5 rt.wip_W6 rt.wip_W7 rt.wip_W8 rt.wip_W9.

Definition expect_ok (s : sys) (a : addr) (v : val) : Prop :=
  match a_w a with
  | DClient => In (a_box a, v) (s_roots s)
  | DWorker j => forall w, nth_error (s_workers s) j = Some w -> lexp w a v
  end.
Definition good_addr (s : sys) (a : addr) : Prop :=
  match a_w a with
  | DClient => True
  | DWorker j => exists w, nth_error (s_workers s) j = Some w /\ a_box a < w_counter w
  end.
Definition gtask_ok (s : sys) (t : task) : Prop := good_addr s (t_addr t) /\ expect_ok s (t_addr t) (ret_of (t_script t)).
Definition gres_ok (s : sys) (p : addr * val) : Prop := good_addr s (fst p) /\ expect_ok s (fst p) (snd p).

Record invV (s : sys) : Prop := {
  VG_w : forall w, In w (s_workers s) -> winvV w;
  VG_held : forall w t, In w (s_workers s) -> In t (w_held w) -> gtask_ok s t;
  VG_new : forall w t, In w (s_workers s) -> In t (chan_tasks (w_out w) ++ w_delayed w) -> is_new t;
  VG_down : forall q t, In q (s_down s) -> In t (chan_tasks q) -> gtask_ok s t /\ is_new t;
  VG_res_up : forall w p, In w (s_workers s) -> In p (chan_res (w_out w)) -> gres_ok s p;
  VG_res_down : forall q p, In q (s_down s) -> In p (chan_res q) -> gres_ok s p;
  VG_client : forall a v, In (a, v) (s_client s) -> In (a_box a, v) (s_roots s)
}.

(* the mailbox tables only grow at fresh ids / shrink: what was promised about an address stays true *)
Definition sys_ext (s s' : sys) : Prop :=
  (forall j w, nth_error (s_workers s) j = Some w -> exists w', nth_error (s_workers s') j = Some w' /\ ext w w') /\
  (forall j w', nth_error (s_workers s') j = Some w' -> exists w, nth_error (s_workers s) j = Some w /\ ext w w') /\
  (forall p, In p (s_roots s) -> In p (s_roots s')).

Lemma good_addr_ext : forall s s' a, sys_ext s s' -> good_addr s a -> good_addr s' a.
Proof. intros s s' a (H1 & H2 & H3) G. unfold good_addr in *. destruct (a_w a) as [|j]; auto.
  destruct G as (w & Hw & Hlt). destruct (H1 j w Hw) as (w' & Hw' & (_ & Hc & _)). exists w'. split; auto. lia. Qed.
Lemma expect_ok_ext : forall s s' a v, sys_ext s s' -> good_addr s a -> expect_ok s a v -> expect_ok s' a v.
Proof. intros s s' a v (H1 & H2 & H3) G E. unfold expect_ok, good_addr in *. destruct (a_w a) as [|j]; auto.
  intros w' Hw'. destruct (H2 j w' Hw') as (w & Hw & Ex). destruct G as (w0 & Hw0 & Hlt).
  assert (w0 = w) by congruence. subst w0. eapply lexp_ext; eauto. Qed.
Lemma gtask_ok_ext : forall s s' t, sys_ext s s' -> gtask_ok s t -> gtask_ok s' t.
Proof. intros s s' t X (G & E). split; [eapply good_addr_ext; eauto|eapply expect_ok_ext; eauto]. Qed.
Lemma gres_ok_ext : forall s s' p, sys_ext s s' -> gres_ok s p -> gres_ok s' p.
Proof. intros s s' p X (G & E). split; [eapply good_addr_ext; eauto|eapply expect_ok_ext; eauto]. Qed.
Lemma gtask_ok_key : forall s t t', t_addr t = t_addr t' -> t_script t = t_script t' -> gtask_ok s t -> gtask_ok s t'.
Proof. intros s t t' A B (G & E). unfold gtask_ok. rewrite <- A, <- B. auto. Qed.

Lemma sys_ext_worker : forall s i w w' d cl er nb ft, nth_error (s_workers s) i = Some w -> ext w w' ->
  sys_ext s (mkSys (set_nth i w' (s_workers s)) d cl er nb ft (s_roots s)).
Proof. intros s i w w' d cl er nb ft Hw E.
  assert (Hi : i < length (s_workers s)) by (apply nth_error_Some; congruence).
  split; [|split]; simpl; auto.
  - intros j w0 Hj. destruct (Nat.eq_dec i j).
    + subst. rewrite nth_error_set_nth_eq by auto. exists w'. split; auto. congruence.
    + rewrite nth_error_set_nth_neq by auto. exists w0. split; auto. apply ext_refl.
  - intros j w0 Hj. apply nth_error_set_nth in Hj. destruct Hj as [(<- & -> & _)|(Hne & Hj)].
    + eauto.
    + exists w0. split; auto. apply ext_refl.
Qed.

Lemma In_push_down : forall i m d q', In q' (push_down i m d) -> In q' d \/ exists q, In q d /\ q' = q ++ [m].
Proof. intros i m d q' H. unfold push_down, upd in H. destruct (nth_error d i) as [q|] eqn:E; auto.
  apply In_set_nth in H. destruct H as [->|H]; auto. right. exists q. split; auto. eapply nth_error_In; eauto. Qed.

Lemma In_pick : forall A (ts : list A) idx t, In t (pick ts idx) -> In t ts.
Proof. induction idx as [|i r IH]; simpl; intros; [tauto|]. destruct (nth_error ts i) eqn:E; auto.
  destruct H as [<-|H]; auto. eapply nth_error_In; eauto. Qed.

Lemma schedule_tasks_In : forall ts asg d q' t, In q' (schedule ts asg d) -> In t (chan_tasks q') ->
  (exists q, In q d /\ In t (chan_tasks q)) \/ In t ts.
Proof. intros ts asg. unfold schedule. induction asg as [|p r IH]; simpl; intros d q' t Hq Ht; eauto.
  destruct (IH _ _ _ Hq Ht) as [(q & Hq1 & Ht1)|]; auto.
  apply In_push_down in Hq1. destruct Hq1 as [Hq1|(q0 & Hq0 & ->)]; eauto.
  rewrite chan_tasks_app in Ht1. apply in_app_or in Ht1. destruct Ht1 as [Ht1|Ht1]; eauto.
  simpl in Ht1. rewrite app_nil_r in Ht1. right. eapply In_pick; eauto. Qed.
Lemma schedule_res_In : forall ts asg d q' p, In q' (schedule ts asg d) -> In p (chan_res q') ->
  exists q, In q d /\ In p (chan_res q).
Proof. intros ts asg. unfold schedule. induction asg as [|p0 r IH]; simpl; intros d q' p Hq Hp; eauto.
  destruct (IH _ _ _ Hq Hp) as (q & Hq1 & Hp1).
  apply In_push_down in Hq1. destruct Hq1 as [Hq1|(q0 & Hq0 & ->)]; eauto.
  rewrite chan_res_app in Hp1. apply in_app_or in Hp1. destruct Hp1 as [Hp1|Hp1]; eauto. simpl in Hp1. tauto. Qed.

Lemma invV_worker_update : forall s i w w' d' cl er ft,
  invV s -> nth_error (s_workers s) i = Some w -> ext w w' -> winvV w' ->
  let s' := mkSys (set_nth i w' (s_workers s)) d' cl er (s_nbox s) ft (s_roots s) in
  (forall t, In t (w_held w') -> gtask_ok s' t) ->
  (forall t, In t (chan_tasks (w_out w') ++ w_delayed w') -> is_new t) ->
  (forall p, In p (chan_res (w_out w')) -> gres_ok s' p) ->
  (forall q t, In q d' -> In t (chan_tasks q) -> gtask_ok s' t /\ is_new t) ->
  (forall q p, In q d' -> In p (chan_res q) -> gres_ok s' p) ->
  (forall a v, In (a, v) cl -> In (a_box a, v) (s_roots s)) ->
  invV s'.
Proof.
  intros s i w w' d' cl er ft I Hw E Iw' s' H1 H2 H3 H4 H5 H6.
  assert (X : sys_ext s s') by (eapply sys_ext_worker; eauto).
  constructor; simpl; auto.
  - intros w0 Hin. apply In_set_nth in Hin. destruct Hin as [->|Hin]; auto. apply (VG_w s I); auto.
  - intros w0 t Hin Ht. apply In_set_nth in Hin. destruct Hin as [->|Hin]; auto.
    eapply gtask_ok_ext; [exact X|]. eapply (VG_held s I); eauto.
  - intros w0 t Hin Ht. apply In_set_nth in Hin. destruct Hin as [->|Hin]; auto. eapply (VG_new s I); eauto.
  - intros w0 p Hin Hp. apply In_set_nth in Hin. destruct Hin as [->|Hin]; auto.
    eapply gres_ok_ext; [exact X|]. eapply (VG_res_up s I); eauto.
Qed.

Lemma In_set_nth_old : forall A i (x y : A) l, In y (set_nth i x l) -> y = x \/ In y l.
Proof. intros. apply In_set_nth in H. auto. Qed.

Lemma absent_from_uniq : forall s i w t, invA s -> nth_error (s_workers s) i = Some w ->
  (dcnt (t_addr t) (s_down s) >= 1 \/ tcnt (t_addr t) (w_delayed w) >= 1) ->
  task_get (t_addr t) (w_tasks w) = None.
Proof.
  intros s i w t I Hw H. apply task_get_None_tcnt.
  pose proof (A_cons s I (t_addr t)) as C. pose proof (A_uniq s I (t_addr t)) as U. unfold n_task in C.
  pose proof (held_le_total s (t_addr t) i w Hw) as G3. pose proof (tasks_le_held (t_addr t) w) as G4.
  destruct H; lia.
Qed.

Lemma step_invV : forall atomic s e s', invA s -> invV s -> step atomic s e = Some s' -> invV s'.
Proof.
  intros atomic s e s' IA I H. destruct e as [sc target|i|i|i asg]; simpl in H.
  - (* client *)
    destruct (Nat.ltb target (length (s_workers s))) eqn:Et; [|discriminate]. injection H as <-. b2p.
    set (s' := mkSys _ _ _ _ _ _ _).
    assert (X : sys_ext s s').
    { split; [|split]; simpl; auto.
      - intros j w Hj. exists w. split; auto. apply ext_refl.
      - intros j w Hj. exists w. split; auto. apply ext_refl.
      - intros p Hp. apply in_or_app. auto. }
    constructor; simpl.
    + apply (VG_w s I).
    + intros w t Hin Ht. eapply gtask_ok_ext; [exact X|]. eapply (VG_held s I); eauto.
    + apply (VG_new s I).
    + intros q t Hq Ht. apply In_push_down in Hq. destruct Hq as [Hq|(q0 & Hq0 & ->)].
      * destruct (VG_down s I q t Hq Ht). split; auto. eapply gtask_ok_ext; eauto.
      * rewrite chan_tasks_app in Ht. apply in_app_or in Ht. destruct Ht as [Ht|[<-|[]]].
        -- destruct (VG_down s I q0 t Hq0 Ht). split; auto. eapply gtask_ok_ext; eauto.
        -- split; [|reflexivity]. split; [exact Logic.I|]. unfold expect_ok. simpl. apply in_or_app. right. left. reflexivity.
    + intros w p Hin Hp. eapply gres_ok_ext; [exact X|]. eapply (VG_res_up s I); eauto.
    + intros q p Hq Hp. apply In_push_down in Hq. destruct Hq as [Hq|(q0 & Hq0 & ->)].
      * eapply gres_ok_ext; [exact X|]. eapply (VG_res_down s I); eauto.
      * rewrite chan_res_app in Hp. apply in_app_or in Hp. destruct Hp as [Hp|[]].
        eapply gres_ok_ext; [exact X|]. eapply (VG_res_down s I); eauto.
    + intros a v Hin. apply in_or_app. left. apply (VG_client s I); auto.
  - (* recv *)
    destruct (nth_error (s_workers s) i) as [w|] eqn:Ew; [|discriminate].
    destruct (nth_error (s_down s) i) as [[|m q]|] eqn:Ed; try discriminate.
    destruct (w_rdead w) eqn:Erd; [discriminate|]. injection H as <-.
    pose proof (nth_error_In _ _ Ew) as Hwin. pose proof (nth_error_In _ _ Ed) as Hqin.
    assert (Hmt : forall t, In t (msg_tasks m) -> In t (chan_tasks (m :: q))) by (intros; rewrite chan_tasks_cons; apply in_or_app; auto).
    assert (Hmr : forall p, In p (msg_res m) -> In p (chan_res (m :: q))) by (intros; unfold chan_res; simpl; apply in_or_app; auto).
    destruct (recv_step_V w m (VG_w s I w Hwin) Erd) as (I1 & E1 & O1 & D1 & T1).
    + intros t Ht. split; [apply (VG_down s I _ _ Hqin (Hmt t Ht))|].
      eapply absent_from_uniq; eauto. left.
      assert (G1 : tcnt (t_addr t) (chan_tasks (m :: q)) <= dcnt (t_addr t) (s_down s)).
      { apply (sumf_ge _ (fun q => tcnt (t_addr t) (chan_tasks q))). auto. }
      assert (G2 : tcnt (t_addr t) (chan_tasks (m :: q)) >= 1) by (unfold tcnt; apply cnt_pos_in; apply in_map; auto). lia.
    + intros p Hp Hme. destruct (VG_res_down s I _ _ Hqin (Hmr p Hp)) as (_ & Ex). unfold expect_ok in Ex.
      rewrite Hme in Ex. unfold me in Ex. rewrite (A_ids s IA i w Ew) in Ex. apply Ex. auto.
    + apply (invV_worker_update s i w (recv_step w m) (set_nth i q (s_down s)) (s_client s) (s_errors s) (s_fatal s) I Ew E1 I1).
      * set (s' := mkSys _ _ _ _ _ _ _).
        assert (X : sys_ext s s') by (eapply sys_ext_worker; eauto).
        intros t Ht. unfold w_held in Ht. rewrite O1 in Ht. apply in_app_or in Ht. destruct Ht as [Ht|Ht].
        -- eapply gtask_ok_ext; [exact X|]. apply (VG_held s I w); auto. unfold w_held. apply in_or_app. auto.
        -- apply in_app_or in Ht. destruct Ht as [Ht|Ht].
           ++ eapply gtask_ok_ext; [exact X|]. destruct (D1 t Ht) as [Hd|Hd].
              ** apply (VG_held s I w); auto. unfold w_held. apply in_or_app. right. apply in_or_app. auto.
              ** apply (VG_down s I _ _ Hqin (Hmt t Hd)).
           ++ destruct (T1 t Ht) as (t0 & Ht0 & A & B). eapply gtask_ok_key; eauto. eapply gtask_ok_ext; [exact X|].
              apply in_app_or in Ht0. destruct Ht0 as [Ht0|Ht0].
              ** apply (VG_held s I w); auto. unfold w_held. apply in_or_app. right. apply in_or_app. auto.
              ** apply (VG_down s I _ _ Hqin (Hmt t0 Ht0)).
      * intros t Ht. rewrite O1 in Ht. apply in_app_or in Ht. destruct Ht as [Ht|Ht].
        -- apply (VG_new s I w); auto. apply in_or_app. auto.
        -- destruct (D1 t Ht) as [Hd|Hd].
           ++ apply (VG_new s I w); auto. apply in_or_app. auto.
           ++ apply (VG_down s I _ _ Hqin (Hmt t Hd)).
      * set (s' := mkSys _ _ _ _ _ _ _).
        assert (X : sys_ext s s') by (eapply sys_ext_worker; eauto).
        intros p Hp. rewrite O1 in Hp. eapply gres_ok_ext; [exact X|]. apply (VG_res_up s I w); auto.
      * set (s' := mkSys _ _ _ _ _ _ _).
        assert (X : sys_ext s s') by (eapply sys_ext_worker; eauto).
        intros q' t Hq' Ht. apply In_set_nth in Hq'. destruct Hq' as [->|Hq'].
        -- assert (Ht' : In t (chan_tasks (m :: q))) by (rewrite chan_tasks_cons; apply in_or_app; auto).
           destruct (VG_down s I _ _ Hqin Ht'). split; auto. eapply gtask_ok_ext; eauto.
        -- destruct (VG_down s I _ _ Hq' Ht). split; auto. eapply gtask_ok_ext; eauto.
      * set (s' := mkSys _ _ _ _ _ _ _).
        assert (X : sys_ext s s') by (eapply sys_ext_worker; eauto).
        intros q' p Hq' Hp. apply In_set_nth in Hq'. destruct Hq' as [->|Hq'].
        -- assert (Hp' : In p (chan_res (m :: q))) by (unfold chan_res; simpl; apply in_or_app; auto).
           eapply gres_ok_ext; [exact X|]. apply (VG_res_down s I _ _ Hqin Hp').
        -- eapply gres_ok_ext; [exact X|]. apply (VG_res_down s I _ _ Hq' Hp).
      * apply (VG_client s I).
  - (* main *)
    destruct (nth_error (s_workers s) i) as [w|] eqn:Ew; [|discriminate].
    destruct (main_step atomic w) as [w'|] eqn:Em; [|discriminate]. injection H as <-.
    pose proof (nth_error_In _ _ Ew) as Hwin.
    assert (Hown : own_ok w).
    { intros t Ht Hme. destruct (VG_held s I w t Hwin) as (G & Ex).
      { unfold w_held. apply in_or_app. right. apply in_or_app. auto. }
      unfold expect_ok, good_addr in *. rewrite Hme in *. unfold me in *. rewrite (A_ids s IA i w Ew) in *.
      split; [apply Ex; auto|]. destruct G as (w0 & Hw0 & Hlt). congruence. }
    assert (Hdel : forall t, In t (w_delayed w) -> is_new t /\ task_get (t_addr t) (w_tasks w) = None).
    { intros t Ht. split; [apply (VG_new s I w); auto; apply in_or_app; auto|].
      eapply absent_from_uniq; eauto. right. unfold tcnt. apply cnt_pos_in. apply in_map. auto. }
    destruct (main_step_V atomic w w' (VG_w s I w Hwin) Hown Hdel Em) as (I1 & E1 & (news & N1 & N2) & D1 & T1 & R1).
    apply (invV_worker_update s i w w' (s_down s) (s_client s) (s_errors s) (s_fatal s) I Ew E1 I1).
    + set (s' := mkSys _ _ _ _ _ _ _).
      assert (X : sys_ext s s') by (eapply sys_ext_worker; eauto).
      assert (Hi : i < length (s_workers s)) by (apply nth_error_Some; congruence).
      intros t Ht. unfold w_held in Ht. apply in_app_or in Ht. destruct Ht as [Ht|Ht].
      * rewrite N1 in Ht. apply in_app_or in Ht. destruct Ht as [Ht|Ht].
        -- eapply gtask_ok_ext; [exact X|]. apply (VG_held s I w); auto. unfold w_held. apply in_or_app. auto.
        -- destruct (N2 t Ht) as (_ & Hme & Hlt & Lx). unfold me in Hme. rewrite (A_ids s IA i w Ew) in Hme.
           split; unfold good_addr, expect_ok; rewrite Hme; simpl.
           ++ exists w'. split; auto. apply nth_error_set_nth_eq; auto.
           ++ intros w0 Hw0. rewrite nth_error_set_nth_eq in Hw0 by auto. injection Hw0 as <-. exact Lx.
      * apply in_app_or in Ht. destruct Ht as [Ht|Ht].
        -- eapply gtask_ok_ext; [exact X|]. apply (VG_held s I w); auto. unfold w_held. apply in_or_app. right. apply in_or_app. auto.
        -- destruct (T1 t Ht) as (t0 & Ht0 & A & B). eapply gtask_ok_key; eauto. eapply gtask_ok_ext; [exact X|].
           apply (VG_held s I w); auto. unfold w_held. apply in_or_app. right. apply in_app_or in Ht0. apply in_or_app. tauto.
    + intros t Ht. apply in_app_or in Ht. destruct Ht as [Ht|Ht].
      * rewrite N1 in Ht. apply in_app_or in Ht. destruct Ht as [Ht|Ht].
        -- apply (VG_new s I w); auto. apply in_or_app. auto.
        -- apply (N2 t Ht).
      * apply (VG_new s I w); auto. apply in_or_app. auto.
    + set (s' := mkSys _ _ _ _ _ _ _).
      assert (X : sys_ext s s') by (eapply sys_ext_worker; eauto).
      intros p Hp. eapply gres_ok_ext; [exact X|]. destruct (R1 p Hp) as [Hp'|(t & Ht & ->)].
      * apply (VG_res_up s I w); auto.
      * apply (VG_held s I w t Hwin). unfold w_held. apply in_or_app. right. apply in_or_app. auto.
    + set (s' := mkSys _ _ _ _ _ _ _).
      assert (X : sys_ext s s') by (eapply sys_ext_worker; eauto).
      intros q t Hq Ht. destruct (VG_down s I _ _ Hq Ht). split; auto. eapply gtask_ok_ext; eauto.
    + set (s' := mkSys _ _ _ _ _ _ _).
      assert (X : sys_ext s s') by (eapply sys_ext_worker; eauto).
      intros q p Hq Hp. eapply gres_ok_ext; [exact X|]. apply (VG_res_down s I _ _ Hq Hp).
    + apply (VG_client s I).
  - (* server *)
    destruct (nth_error (s_workers s) i) as [w|] eqn:Ew; [|discriminate].
    destruct (w_out w) as [|m q] eqn:Eo; [discriminate|].
    pose proof (nth_error_In _ _ Ew) as Hwin.
    set (w0 := set_out w q) in *.
    assert (E0 : ext w w0) by (apply ext_same; reflexivity).
    assert (I0 : winvV w0) by (eapply winvV_same; [| | | | |apply (VG_w s I w Hwin)]; reflexivity).
    assert (Hmt : forall t, In t (msg_tasks m) -> In t (w_held w)).
    { intros t Ht. unfold w_held. rewrite Eo, chan_tasks_cons. apply in_or_app. left. apply in_or_app. auto. }
    assert (Hmr : forall p, In p (msg_res m) -> In p (chan_res (w_out w))).
    { intros p Hp. rewrite Eo. unfold chan_res. simpl. apply in_or_app. auto. }
    assert (Hnew_m : forall t, In t (msg_tasks m) -> is_new t).
    { intros t Ht. apply (VG_new s I w); auto. apply in_or_app. left. rewrite Eo, chan_tasks_cons. apply in_or_app. auto. }
    assert (G : forall d' cl er ft,
              (forall q' t, In q' d' -> In t (chan_tasks q') -> (exists q0, In q0 (s_down s) /\ In t (chan_tasks q0)) \/ In t (msg_tasks m)) ->
              (forall q' p, In q' d' -> In p (chan_res q') -> (exists q0, In q0 (s_down s) /\ In p (chan_res q0)) \/ In p (msg_res m)) ->
              (forall a v, In (a, v) cl -> In (a_box a, v) (s_roots s)) ->
              invV (mkSys (set_nth i w0 (s_workers s)) d' cl er (s_nbox s) ft (s_roots s))).
    { intros d' cl er ft Hd1 Hd2 Hcl.
      apply (invV_worker_update s i w w0 d' cl er ft I Ew E0 I0); auto.
      - set (sx := mkSys _ _ _ _ _ _ _). assert (X : sys_ext s sx) by (eapply sys_ext_worker; eauto).
        intros t Ht. eapply gtask_ok_ext; [exact X|]. apply (VG_held s I w); auto.
        unfold w_held in *. simpl in Ht. rewrite Eo, chan_tasks_cons. apply in_app_or in Ht.
        destruct Ht as [Ht|Ht]; apply in_or_app; [left; apply in_or_app; auto|auto].
      - intros t Ht. apply (VG_new s I w); auto. simpl in Ht. rewrite Eo, chan_tasks_cons.
        apply in_app_or in Ht. destruct Ht as [Ht|Ht]; apply in_or_app; [left; apply in_or_app; auto|auto].
      - set (sx := mkSys _ _ _ _ _ _ _). assert (X : sys_ext s sx) by (eapply sys_ext_worker; eauto).
        intros p Hp. eapply gres_ok_ext; [exact X|]. apply (VG_res_up s I w); auto. simpl in Hp. rewrite Eo.
        unfold chan_res. simpl. apply in_or_app. auto.
      - set (sx := mkSys _ _ _ _ _ _ _). assert (X : sys_ext s sx) by (eapply sys_ext_worker; eauto).
        intros q' t Hq' Ht. destruct (Hd1 q' t Hq' Ht) as [(q0 & Hq0 & Ht0)|Ht0].
        + destruct (VG_down s I _ _ Hq0 Ht0). split; auto. eapply gtask_ok_ext; eauto.
        + split; [|apply Hnew_m; auto]. eapply gtask_ok_ext; [exact X|]. apply (VG_held s I w); auto.
      - set (sx := mkSys _ _ _ _ _ _ _). assert (X : sys_ext s sx) by (eapply sys_ext_worker; eauto).
        intros q' p Hq' Hp. eapply gres_ok_ext; [exact X|]. destruct (Hd2 q' p Hq' Hp) as [(q0 & Hq0 & Hp0)|Hp0].
        + apply (VG_res_down s I _ _ Hq0 Hp0).
        + apply (VG_res_up s I w); auto. }
    unfold server_msg in H. cbn [s_workers set_workers s_down s_client s_errors s_nbox s_fatal s_roots] in H.
    rewrite set_nth_length in H.
    assert (Gsame : forall cl er ft, (forall a v, In (a, v) cl -> In (a_box a, v) (s_roots s)) ->
               invV (mkSys (set_nth i w0 (s_workers s)) (s_down s) cl er (s_nbox s) ft (s_roots s))).
    { intros. apply G; eauto. }
    destruct m as [t|ts|a v c|r| |c| |a].
    + destruct (valid_asg (length (s_workers s)) 1 asg); [|discriminate]. injection H as <-.
      apply G; [| |apply (VG_client s I)].
      * intros q' t' Hq' Ht'. apply (schedule_tasks_In _ _ _ _ _ Hq' Ht').
      * intros q' p Hq' Hp. left. apply (schedule_res_In _ _ _ _ _ Hq' Hp).
    + destruct (valid_asg (length (s_workers s)) (length ts) asg); [|discriminate]. injection H as <-.
      apply G; [| |apply (VG_client s I)].
      * intros q' t' Hq' Ht'. apply (schedule_tasks_In _ _ _ _ _ Hq' Ht').
      * intros q' p Hq' Hp. left. apply (schedule_res_In _ _ _ _ _ Hq' Hp).
    + destruct (a_w a) as [|j] eqn:Ea.
      * injection H as <-. apply Gsame. intros a' v' Hin. apply in_app_or in Hin. destruct Hin as [Hin|[Hin|[]]].
        -- apply (VG_client s I); auto.
        -- injection Hin as <- <-. destruct (VG_res_up s I w (a, v) Hwin (Hmr _ (or_introl eq_refl))) as (_ & Ex).
           unfold expect_ok in Ex. simpl in Ex. rewrite Ea in Ex. exact Ex.
      * destruct (Nat.ltb j (length (s_workers s))); injection H as <-; [|apply Gsame; apply (VG_client s I)].
        apply G; [| |apply (VG_client s I)].
        -- intros q' t Hq' Ht. left. apply In_push_down in Hq'. destruct Hq' as [Hq'|(q0 & Hq0 & ->)]; eauto.
           rewrite chan_tasks_app in Ht. simpl in Ht. rewrite app_nil_r in Ht. eauto.
        -- intros q' p Hq' Hp. apply In_push_down in Hq'. destruct Hq' as [Hq'|(q0 & Hq0 & ->)]; eauto.
           rewrite chan_res_app in Hp. apply in_app_or in Hp. destruct Hp as [Hp|Hp]; eauto.
    + injection H as <-. apply Gsame. apply (VG_client s I).
    + injection H as <-. apply Gsame. apply (VG_client s I).
    + injection H as <-. apply Gsame. apply (VG_client s I).
    + injection H as <-. apply Gsame. apply (VG_client s I).
    + injection H as <-. apply G; [| |apply (VG_client s I)].
      * intros q' t Hq' Ht. left. apply in_map_iff in Hq'. destruct Hq' as (q0 & <- & Hq0).
        rewrite chan_tasks_app in Ht. simpl in Ht. rewrite app_nil_r in Ht. eauto.
      * intros q' p Hq' Hp. left. apply in_map_iff in Hq'. destruct Hq' as (q0 & <- & Hq0).
        rewrite chan_res_app in Hp. simpl in Hp. rewrite app_nil_r in Hp. eauto.
Qed.
