From Coq Require Import List Arith Bool PeanoNat Lia Permutation.
Import ListNotations.
From BQ Require Import rt.WorkerM rt.wip_W1 rt.wip_W2 rt.wip_W3 rt.wip_W4 rt.wip_W5 rt.wip_W6 rt.wip_W7 rt.wip_W8.

Definition is_new (x : task) : Prop := x = new_task (t_addr x) (t_comp x) (t_script x).

Definition tasks_sim (ts ts' : list task) : Prop :=
  forall t', In t' ts' -> exists t, In t ts /\ t_addr t = t_addr t' /\ t_script t = t_script t'.
Lemma tasks_sim_refl : forall ts, tasks_sim ts ts.
Proof. intros ts t' H. eauto. Qed.
Lemma tasks_sim_trans : forall a b c, tasks_sim a b -> tasks_sim b c -> tasks_sim a c.
Proof. intros a b c H1 H2 t' Hin. destruct (H2 t' Hin) as (t & Ht & E1 & E2). destruct (H1 t Ht) as (t0 & Ht0 & F1 & F2).
  exists t0. split; auto. split; congruence. Qed.
Lemma tasks_sim_subset : forall ts ts', (forall t, In t ts' -> In t ts) -> tasks_sim ts ts'.
Proof. intros ts ts' H t' Hin. eauto. Qed.
Lemma tasks_sim_task_set : forall ts t t0, In t0 ts -> t_addr t0 = t_addr t -> t_script t0 = t_script t ->
  tasks_sim ts (task_set t ts).
Proof. intros ts t t0 Hin A1 A2 t' H. apply In_task_set in H. destruct H as [->|H]; eauto. Qed.

Definition stepV_post (w w' : wstate) : Prop :=
  winvV w' /\ ext w w' /\
  (exists news, chan_tasks (w_out w') = chan_tasks (w_out w) ++ news /\
     forall x, In x news -> is_new x /\ a_w (t_addr x) = me w /\ a_box (t_addr x) < w_counter w' /\
                            lexp w' (t_addr x) (ret_of (t_script x))) /\
  (forall t', In t' (w_delayed w') -> In t' (w_delayed w)) /\
  tasks_sim (w_tasks w ++ w_delayed w) (w_tasks w') /\
  (forall p, In p (chan_res (w_out w')) ->
     In p (chan_res (w_out w)) \/ exists t, In t (w_tasks w) /\ p = (t_addr t, ret_of (t_script t))).

(* a step that changes neither tasks, boxes nor the channel's payloads *)
Lemma stepV_post_plain : forall w w', winvV w' -> ext w w' -> chan_tasks (w_out w') = chan_tasks (w_out w) ->
  chan_res (w_out w') = chan_res (w_out w) -> w_delayed w' = w_delayed w -> tasks_sim (w_tasks w) (w_tasks w') ->
  stepV_post w w'.
Proof. intros w w' I E H1 H2 H3 H4. split; auto. split; auto. split.
  - exists []. rewrite app_nil_r. split; auto. intros x [].
  - split; [rewrite H3; auto|]. split.
    + intros t' Hin. destruct (H4 t' Hin) as (t & Ht & A). exists t. split; auto. apply in_or_app. auto.
    + intros p Hp. rewrite H2 in Hp. auto. Qed.

Lemma winvV_set_pc_aw : forall w a m nxt, winvV w -> pend_at w a m -> winvV (set_pc w (PAw1 a m nxt)).
Proof. intros w a m nxt I P. destruct I as [K1 K2 K3 K4 K5 K6]. constructor; auto. Qed.

Lemma task_error_frame : forall w t e, winvV w -> winvV (task_error w t e) /\ ext w (task_error w t e) /\
  chan_tasks (w_out (task_error w t e)) = chan_tasks (w_out w) /\ chan_res (w_out (task_error w t e)) = chan_res (w_out w) /\
  w_delayed (task_error w t e) = w_delayed w /\ w_tasks (task_error w t e) = w_tasks w /\
  w_counter (task_error w t e) = w_counter w.
Proof. intros w t e I. assert (I0 : plain_pc PLoop) by exact Logic.I. unfold task_error. split.
  - apply winvV_set_pc; [exact I0|]. eapply winvV_same; [| | | | |exact I]; reflexivity.
  - split; [apply ext_same; reflexivity|]. simpl. rewrite chan_tasks_app, chan_res_app. simpl. rewrite !app_nil_r. auto. Qed.

Lemma aw1_sim : forall w a m, tasks_sim (w_tasks w) (w_tasks (aw1 w a m)) /\ w_out (aw1 w a m) = w_out w.
Proof. intros. unfold aw1.
  set (w1 := match box_get m (w_boxes w) with Some b => set_boxes w (box_set m (b_set_dest b (Some a)) (w_boxes w)) | None => w end).
  assert (H1 : w_tasks w1 = w_tasks w /\ w_out w1 = w_out w) by (subst w1; destruct (box_get m (w_boxes w)); auto).
  destruct H1 as [H1 H2]. destruct (task_get a (w_tasks w1)) as [t|] eqn:E.
  - simpl. split; [|exact H2]. rewrite <- H1. apply (tasks_sim_task_set _ _ t); auto.
    + apply task_get_In in E. exact E.
  - split; [rewrite H1; apply tasks_sim_refl|exact H2]. Qed.
Lemma aw1c_sim : forall w a nxt, tasks_sim (w_tasks w) (w_tasks (aw1c w a nxt)) /\ w_out (aw1c w a nxt) = w_out w.
Proof. intros. unfold aw1c. destruct (task_get a (w_tasks w)) as [t|] eqn:E.
  - simpl. split; auto. apply (tasks_sim_task_set _ _ t); auto.
    + apply task_get_In in E. exact E.
  - split; [apply tasks_sim_refl|reflexivity]. Qed.
Lemma aw2_out : forall w a m, w_out (aw2 w a m) = w_out w.
Proof. intros. unfold aw2. destruct (box_get m (w_boxes w)); [destruct (b_ready m0)|]; reflexivity. Qed.

Definition own_ok (w : wstate) : Prop :=
  forall t, In t (w_tasks w) -> a_w (t_addr t) = me w ->
    lexp w (t_addr t) (ret_of (t_script t)) /\ a_box (t_addr t) < w_counter w.

Lemma dispatch_V : forall atomic w a, winvV w -> plain_pc (w_pc w) -> own_ok w ->
  stepV_post w (dispatch atomic w a).
Proof.
  intros atomic w a I Hpc Hown. unfold dispatch.
  destruct (task_get a (w_tasks w)) as [t|] eqn:Eg.
  2:{ apply stepV_post_plain; try reflexivity.
      - apply winvV_set_pc; [exact Logic.I|exact I].
      - apply ext_same; reflexivity.
      - apply tasks_sim_refl. }
  pose proof (task_get_Some _ _ _ Eg) as [Hta Hin].
  pose proof (V_tasks w I t Hin) as Tok.
  destruct (desired_result w t) as [[[w1 t1] sv]|e] eqn:Ed.
  2:{ destruct (task_error_frame w t e I) as (X1 & X2 & X3 & X4 & X5 & X6 & X7).
      apply stepV_post_plain; auto. rewrite X6. apply tasks_sim_refl. }
  destruct (desired_result_V _ _ _ _ _ I Ed) as (I1 & E1 & (F1&F2&F3&F4&F5&F6&F7&F8) & O1 & S1 & Sv).
  destruct S1 as (S1a&S1b&S1c&S1d&S1e&S1f&S1g&S1h&S1i).
  set (t2 := t_set_desired (t_set_won t1 false) None).
  assert (Tok2 : task_okV w1 t2).
  { destruct (task_okV_ext _ _ _ E1 Tok) as (T2 & done & F & T3).
    split; [simpl; intros m Hm; discriminate|]. exists done. simpl. rewrite S1c, S1d, S1e. auto. }
  assert (Svok : sv_ok t2 sv).
  { pose proof (sv_spec_ok _ _ _ I Tok Sv) as Q. destruct sv; simpl in *; auto; rewrite S1f, S1c; exact Q. }
  destruct (resume w1 t2 sv) as [[w2 t3] y] eqn:Er.
  destruct (resume_V _ _ _ _ _ _ I1 Tok2 eq_refl Svok Er) as
    (wL & t2' & L1 & L2 & L3 & L4 & L5 & L6 & L7 & L8 & L9 & L10 & (es & I2 & E2 & R1 & R2 & R3 & R4 & R5 & R6 & R7 & R8 & R9 & R10 & R11 & R12 & R13 & R14 & R15)).
  simpl in L8, L9, L10.
  assert (EL : ext w1 wL) by (apply ext_same; auto).
  assert (Ta3 : t_addr t3 = a) by congruence.
  assert (Ts3 : t_script t3 = t_script t) by congruence.
  assert (Hme : me wL = me w) by (unfold me; congruence).
  assert (Tg2 : task_get a (w_tasks w2) = Some t) by (rewrite R1, L3, F3; exact Eg).
  set (w2' := set_tasks w2 (task_set t3 (w_tasks w2))).
  assert (Hpc2 : plain_pc (w_pc w2)) by (rewrite R3, L5, F6; exact Hpc).
  assert (I2' : winvV w2').
  { apply winvV_task_set; auto. intros a' m' Hq _. exfalso. clear - Hq Hpc2.
    destruct (w_pc w2); simpl in Hpc2; try tauto; destruct Hq as [[n [E|E]]|E]; discriminate. }
  assert (E2' : ext w2 w2') by (apply ext_same; reflexivity).
  assert (Ew2 : ext w w2) by (eapply ext_trans; [exact E1|]; eapply ext_trans; [exact EL|exact E2]).
  assert (Tg2' : task_get a (w_tasks w2') = Some t3).
  { subst w2'. simpl. rewrite <- Ta3. apply task_get_task_set_same. }
  assert (Sim2 : tasks_sim (w_tasks w) (w_tasks w2')).
  { subst w2'. simpl. rewrite R1, L3, F3. apply (tasks_sim_task_set _ t3 t); auto. congruence. }
  (* what the segment sent *)
  set (news := eff_tasks (me wL) (t_comp t2') (w_counter wL) es).
  assert (Hout2 : chan_tasks (w_out w2') = chan_tasks (w_out w) ++ news).
  { subst w2'. simpl. rewrite R7, chan_tasks_app, chan_tasks_eff_msgs, L6, O1. reflexivity. }
  assert (Hres2 : chan_res (w_out w2') = chan_res (w_out w)).
  { subst w2'. simpl. rewrite R7, chan_res_app, L6, O1.
    assert (Z : forall me comp es c, chan_res (eff_msgs me comp c es) = []).
    { clear. induction es as [|sp r IH]; simpl; intros; auto. destruct sp; simpl; auto. }
    rewrite Z. apply app_nil_r. }
  assert (Hnews : forall w', ext w2' w' -> forall x, In x news -> is_new x /\ a_w (t_addr x) = me w /\
             a_box (t_addr x) < w_counter w' /\ lexp w' (t_addr x) (ret_of (t_script x))).
  { intros w' Ex x Hx. pose proof (R8 x Hx) as Lx. unfold news in Hx.
    pose proof (eff_tasks_In _ _ _ _ _ Hx) as (B1 & B2 & B3).
    apply eff_tasks_In_full in Hx. destruct Hx as (k & sp & j & child & _ & _ & Ex').
    assert (Hlt : a_box (t_addr x) < w_counter w2) by lia.
    split; [rewrite Ex'; reflexivity|]. split; [congruence|].
    pose proof Ex as (_ & Hc & _). split; [simpl in Hc; lia|].
    eapply lexp_ext; [|exact Hlt|exact Lx]. eapply ext_trans; [exact E2'|exact Ex]. }
  destruct y as [m nxt|v|].
  - (* the body awaits *)
    fold w2'. destruct (R14 m nxt eq_refl) as (f & n & P1 & P2).
    assert (Pend : pend_at w2' a m) by (exists t3, f, n; auto).
    destruct (negb (has_box w2' m)).
    + destruct (task_error_frame w2' t3 EBody I2') as (X1 & X2 & X3 & X4 & X5 & X6 & X7).
      split; [exact X1|]. split; [eapply ext_trans; [exact Ew2|]; eapply ext_trans; [exact E2'|exact X2]|].
      split; [exists news; split; [rewrite X3; exact Hout2|apply Hnews; exact X2]|].
      split; [rewrite X5; subst w2'; simpl; rewrite R2, L4, F4; auto|].
      split; [rewrite X6; intros t' Ht'; destruct (Sim2 t' Ht') as (t0 & A & B); exists t0; split; auto; apply in_or_app; auto|].
      intros p Hp. rewrite X4, Hres2 in Hp. auto.
    + destruct atomic.
      * destruct (aw1_V w2' a m I2' Pend) as (J1 & G1 & P1').
        destruct (aw1c_V _ a m nxt J1 P1') as (J2 & G2 & P2').
        destruct (aw2_V _ a m J2) as (J3 & G3 & T3').
        set (w5 := aw2 (aw1c (aw1 w2' a m) a nxt) a m) in *.
        assert (G5 : ext w2' w5) by (eapply ext_trans; [exact G1|]; eapply ext_trans; [exact G2|exact G3]).
        assert (S5 : sameA w2' w5) by apply aw_A.
        destruct S5 as (Q1&Q2&Q3&Q4&Q5&Q6&Q7&Q8).
        split; [apply winvV_set_pc; [exact Logic.I|exact J3]|].
        split; [eapply ext_trans; [exact Ew2|]; eapply ext_trans; [exact E2'|]; eapply ext_trans; [exact G5|apply ext_same; reflexivity]|].
        split; [exists news; split; [simpl; rewrite Q4; exact Hout2|apply Hnews; eapply ext_trans; [exact G5|apply ext_same; reflexivity]]|].
        split; [simpl; rewrite Q3; subst w2'; simpl; rewrite R2, L4, F4; auto|].
        split.
        -- simpl. intros t' Ht'.
           assert (Sim5 : tasks_sim (w_tasks w2') (w_tasks w5)).
           { subst w5. rewrite T3'. eapply tasks_sim_trans; [apply aw1_sim|apply aw1c_sim]. }
           destruct (Sim5 t' Ht') as (t0 & A0 & B0 & C0). destruct (Sim2 t0 A0) as (t00 & A1 & B1 & C1).
           exists t00. split; [apply in_or_app; auto|]. split; congruence.
        -- intros p Hp. change (w_out (set_pc w5 PLoop)) with (w_out w5) in Hp.
           assert (Rs : w_out w5 = w_out w2').
           { subst w5. rewrite aw2_out. destruct (aw1c_sim (aw1 w2' a m) a nxt) as [_ ->]. destruct (aw1_sim w2' a m) as [_ ->]. reflexivity. }
           rewrite Rs in Hp. rewrite Hres2 in Hp. auto.
      * split; [apply winvV_set_pc_aw; auto|].
        split; [eapply ext_trans; [exact Ew2|]; eapply ext_trans; [exact E2'|apply ext_same; reflexivity]|].
        split; [exists news; split; [exact Hout2|apply Hnews; apply ext_same; reflexivity]|].
        split; [subst w2'; simpl; rewrite R2, L4, F4; auto|].
        split; [simpl; intros t' Ht'; destruct (Sim2 t' Ht') as (t0 & A & B); exists t0; split; auto; apply in_or_app; auto|].
        intros p Hp. change (w_out (set_pc w2' (PAw1 a m nxt))) with (w_out w2') in Hp. rewrite Hres2 in Hp. auto.
  - (* the body returns *)
    fold w2'. destruct (complete w2' t3 v) as [w3 ok] eqn:Ec.
    assert (Hv : v = ret_of (t_script t)) by (rewrite (R15 v eq_refl); congruence).
    assert (Hown3 : a_w (t_addr t3) = me w2' -> lexp w2' (t_addr t3) v).
    { intro Hm. rewrite Ta3, <- Hta in *. assert (Hm' : a_w (t_addr t) = me w).
      { rewrite Hm. unfold me. subst w2'. simpl. rewrite R4. congruence. }
      destruct (Hown t Hin Hm') as (Lx & Hlt). rewrite Hv.
      eapply lexp_ext; [|exact Hlt|exact Lx]. eapply ext_trans; [exact Ew2|exact E2']. }
    assert (Hpc2' : plain_pc (w_pc w2')) by exact Hpc2.
    destruct (complete_V _ _ _ _ _ I2' Hpc2' Hown3 Ec) as (I3 & E3 & C1 & C2 & C3 & C4 & C5 & C6 & C7).
    assert (Post : forall wf, winvV wf -> ext w3 wf -> chan_tasks (w_out wf) = chan_tasks (w_out w3) ->
              chan_res (w_out wf) = chan_res (w_out w3) -> w_delayed wf = w_delayed w3 -> w_tasks wf = w_tasks w3 ->
              stepV_post w wf).
    { intros wf If Ef H1 H2 H3 H4.
      split; [exact If|].
      split; [eapply ext_trans; [exact Ew2|]; eapply ext_trans; [exact E2'|]; eapply ext_trans; [exact E3|exact Ef]|].
      split; [exists news; split; [rewrite H1, C5; exact Hout2|apply Hnews; eapply ext_trans; [exact E3|exact Ef]]|].
      split; [rewrite H3, C3; subst w2'; simpl; rewrite R2, L4, F4; auto|].
      split.
      - rewrite H4. intros t' Ht'. apply C6 in Ht'. destruct (Sim2 t' Ht') as (t0 & A & B). exists t0. split; auto. apply in_or_app; auto.
      - intros p Hp. rewrite H2 in Hp. apply C7 in Hp. destruct Hp as [Hp|Hp].
        + rewrite Hres2 in Hp. auto.
        + right. exists t. split; auto. rewrite Hp. congruence. }
    destruct ok.
    + apply Post; try reflexivity. apply winvV_set_pc; [exact Logic.I|exact I3]. apply ext_same; reflexivity.
    + unfold fatal. apply Post; try reflexivity.
      * apply winvV_set_pc; [exact Logic.I|]. eapply winvV_same; [| | | | |exact I3]; reflexivity.
      * apply ext_same; reflexivity.
      * simpl. rewrite chan_tasks_app. simpl. apply app_nil_r.
      * simpl. rewrite chan_res_app. simpl. apply app_nil_r.
  - (* the body raises *)
    fold w2'. destruct (task_error_frame w2' t3 EBody I2') as (X1 & X2 & X3 & X4 & X5 & X6 & X7).
    split; [exact X1|]. split; [eapply ext_trans; [exact Ew2|]; eapply ext_trans; [exact E2'|exact X2]|].
    split; [exists news; split; [rewrite X3; exact Hout2|apply Hnews; exact X2]|].
    split; [rewrite X5; subst w2'; simpl; rewrite R2, L4, F4; auto|].
    split; [rewrite X6; intros t' Ht'; destruct (Sim2 t' Ht') as (t0 & A & B); exists t0; split; auto; apply in_or_app; auto|].
    intros p Hp. rewrite X4, Hres2 in Hp. auto.
Qed.

Lemma task_okV_new : forall w x, is_new x -> task_okV w x.
Proof. intros w x H. rewrite H. split; [simpl; intros; discriminate|]. exists []. simpl. split; [constructor|]. left. auto. Qed.

Lemma add_task_V : forall w t, winvV w -> is_new t -> task_get (t_addr t) (w_tasks w) = None -> plain_pc (w_pc w) \/ True ->
  winvV (add_task w t) /\ ext w (add_task w t).
Proof.
  intros w t I Hn Habs _. unfold add_task, put. split; [|apply ext_same; reflexivity].
  eapply winvV_same; [| | | | |apply (winvV_task_set w t I (task_okV_new w t Hn))]; try reflexivity.
  intros a m Hq Ea. exfalso. pose proof (V_pc w I) as P. unfold pc_okV in P.
  assert (Q : exists t0 f n, task_get a (w_tasks w) = Some t0 /\ pend_fut (t_pend t0) = Some f /\ nth_error (t_futs t0) f = Some (m, n)).
  { destruct Hq as [[nx [E|E]]|E]; rewrite E in P; exact P. }
  destruct Q as (t0 & _ & _ & Q & _). congruence.
Qed.

Lemma stepV_post_ready : forall w q w', stepV_post (set_ready w q) w' -> stepV_post w w'.
Proof. intros w q w' H. exact H. Qed.

Lemma main_step_V : forall atomic w w', winvV w -> own_ok w ->
  (forall t, In t (w_delayed w) -> is_new t /\ task_get (t_addr t) (w_tasks w) = None) ->
  main_step atomic w = Some w' -> stepV_post w w'.
Proof.
  intros atomic w w' I Hown Hdel H. unfold main_step in H.
  destruct (w_pc w) eqn:Epc.
  - (* PLoop *)
    assert (G : forall p, plain_pc p -> stepV_post w (set_pc w p)).
    { intros p Hp. apply stepV_post_plain; try reflexivity; [apply winvV_set_pc; auto|apply ext_same; reflexivity|apply tasks_sim_refl]. }
    destruct (w_ready w); [destruct (w_delayed w)|]; injection H as <-; apply G; exact Logic.I.
  - (* PPromote *)
    destruct (last_opt (w_delayed w)) as [tl|] eqn:El; injection H as <-.
    + pose proof (last_opt_removelast _ _ _ El) as Hsplit.
      assert (Hin : In tl (w_delayed w)) by (rewrite Hsplit; apply in_or_app; right; left; reflexivity).
      destruct (Hdel tl Hin) as [Hn Habs].
      set (w0 := set_delayed w (removelast (w_delayed w))).
      assert (I0 : winvV w0) by (eapply winvV_same; [| | | | |exact I]; reflexivity).
      destruct (add_task_V w0 tl I0 Hn Habs (or_intror Logic.I)) as [I1 E1].
      split; [apply winvV_set_pc; [exact Logic.I|exact I1]|].
      split; [apply ext_same; reflexivity|].
      split; [exists []; rewrite app_nil_r; split; [reflexivity|intros x []]|].
      split; [simpl; intros t' Ht'; rewrite Hsplit; apply in_or_app; auto|].
      split; [|intros p Hp; auto].
      simpl. intros t' Ht'. apply In_task_set in Ht'. destruct Ht' as [->|Ht']; [exists tl|exists t']; (split; [apply in_or_app; auto|auto]).
    + apply stepV_post_plain; try reflexivity.
      * unfold fatal. apply winvV_set_pc; [exact Logic.I|]. eapply winvV_same; [| | | | |exact I]; reflexivity.
      * apply ext_same; reflexivity.
      * unfold fatal. simpl. rewrite chan_tasks_app. simpl. apply app_nil_r.
      * unfold fatal. simpl. rewrite chan_res_app. simpl. apply app_nil_r.
      * apply tasks_sim_refl.
  - (* PGet *)
    destruct (w_ready w) as [|a q]; injection H as <-.
    + apply stepV_post_plain; try reflexivity.
      * apply winvV_set_pc; [exact Logic.I|]. eapply winvV_same; [| | | | |exact I]; reflexivity.
      * apply ext_same; reflexivity.
      * simpl. rewrite chan_tasks_app. simpl. apply app_nil_r.
      * simpl. rewrite chan_res_app. simpl. apply app_nil_r.
      * apply tasks_sim_refl.
    + apply (stepV_post_ready w q). apply dispatch_V.
      * eapply winvV_same; [| | | | |exact I]; reflexivity.
      * simpl. rewrite Epc. exact Logic.I.
      * exact Hown.
  - (* PBlocked *)
    destruct (w_ready w) as [|a q]; [discriminate|]. injection H as <-.
    apply (stepV_post_ready w q). apply dispatch_V.
    + eapply winvV_same; [| | | | |exact I]; reflexivity.
    + simpl. rewrite Epc. exact Logic.I.
    + exact Hown.
  - (* PAw1 *)
    injection H as <-. pose proof (V_pc w I) as P. unfold pc_okV in P. rewrite Epc in P.
    destruct (aw1_V w a m I P) as (I1 & E1 & P1). destruct (aw1_sim w a m) as [S1 O1].
    apply stepV_post_plain; simpl; try rewrite O1; try reflexivity.
    + destruct I1 as [K1 K2 K3 K4 K5 K6]. constructor; auto.
    + eapply ext_trans; [exact E1|apply ext_same; reflexivity].
    + pose proof (aw1_A w a m) as (_&_&Q&_). exact Q.
    + exact S1.
  - (* PAw1c *)
    injection H as <-. pose proof (V_pc w I) as P. unfold pc_okV in P. rewrite Epc in P.
    destruct (aw1c_V w a m nxt I P) as (I1 & E1 & P1). destruct (aw1c_sim w a nxt) as [S1 O1].
    apply stepV_post_plain; simpl; try rewrite O1; try reflexivity.
    + destruct I1 as [K1 K2 K3 K4 K5 K6]. constructor; auto.
    + eapply ext_trans; [exact E1|apply ext_same; reflexivity].
    + pose proof (aw1c_A w a nxt) as (_&_&Q&_). exact Q.
    + exact S1.
  - (* PAw2 *)
    injection H as <-. destruct (aw2_V w a m I) as (I1 & E1 & T1).
    apply stepV_post_plain; simpl; try rewrite aw2_out; try reflexivity.
    + apply winvV_set_pc; [exact Logic.I|exact I1].
    + eapply ext_trans; [exact E1|apply ext_same; reflexivity].
    + pose proof (aw2_A w a m) as (_&_&Q&_). exact Q.
    + rewrite T1. apply tasks_sim_refl.
  - discriminate.
Qed.

Lemma recv_step_V : forall w m, winvV w -> w_rdead w = false ->
  (forall t, In t (msg_tasks m) -> is_new t /\ task_get (t_addr t) (w_tasks w) = None) ->
  (forall p, In p (msg_res m) -> a_w (fst p) = me w -> lexp w (fst p) (snd p)) ->
  let w' := recv_step w m in
  winvV w' /\ ext w w' /\ w_out w' = w_out w /\
  (forall t', In t' (w_delayed w') -> In t' (w_delayed w) \/ In t' (msg_tasks m)) /\
  tasks_sim (w_tasks w ++ msg_tasks m) (w_tasks w').
Proof.
  intros w m I Hd Htasks Hres w'. subst w'. unfold recv_step. rewrite Hd.
  assert (Plain : forall wx, winvV wx -> ext w wx -> w_out wx = w_out w -> w_delayed wx = w_delayed w -> w_tasks wx = w_tasks w ->
            winvV wx /\ ext w wx /\ w_out wx = w_out w /\
            (forall t', In t' (w_delayed wx) -> In t' (w_delayed w) \/ In t' (msg_tasks m)) /\
            tasks_sim (w_tasks w ++ msg_tasks m) (w_tasks wx)).
  { intros wx Ix Ex O D T. split; auto. split; auto. split; auto. split; [rewrite D; auto|].
    rewrite T. intros t' Ht'. exists t'. split; auto. apply in_or_app; auto. }
  destruct m as [t|ts|a v c|r| |c| |a]; try solve [apply Plain; auto; apply ext_refl].
  - (* SUBMIT *)
    destruct (Htasks t (or_introl eq_refl)) as [Hn Habs].
    set (w0 := set_recent w (Some (t_addr t))).
    assert (I0 : winvV w0) by (eapply winvV_same; [| | | | |exact I]; reflexivity).
    destruct (add_task_V w0 t I0 Hn Habs (or_intror Logic.I)) as [I1 E1].
    split; [exact I1|]. split; [apply ext_same; reflexivity|]. split; [reflexivity|].
    split; [simpl; auto|]. simpl. intros t' Ht'. apply In_task_set in Ht'.
    destruct Ht' as [->|Ht']; [exists t|exists t']; (split; [apply in_or_app; simpl; auto|auto]).
  - (* SUBMIT_BATCH *)
    destruct ts as [|t0 r].
    { assert (I1' : winvV (set_rdead (log_err w EEmptyBatch) true)) by (eapply winvV_same; [| | | | |exact I]; reflexivity).
      apply Plain; auto. apply ext_same; reflexivity. }
    destruct (last_opt (t0 :: r)) as [tl|] eqn:El; [|apply last_opt_None in El; discriminate].
    pose proof (last_opt_removelast _ _ _ El) as Hsplit.
    assert (Hin : In tl (t0 :: r)) by (rewrite Hsplit; apply in_or_app; right; left; reflexivity).
    destruct (Htasks tl Hin) as [Hn Habs].
    set (w0 := set_recent w (Some (t_addr t0))).
    assert (I0 : winvV w0) by (eapply winvV_same; [| | | | |exact I]; reflexivity).
    destruct (add_task_V w0 tl I0 Hn Habs (or_intror Logic.I)) as [I1 E1].
    split; [eapply winvV_same; [| | | | |exact I1]; reflexivity|]. split; [apply ext_same; reflexivity|]. split; [reflexivity|].
    split.
    + cbn [w_delayed set_delayed add_task put set_started set_tasks set_ready msg_tasks]. intros t' Ht'. apply in_app_or in Ht'.
      destruct Ht' as [Ht'|Ht']; [left; exact Ht'|]. right. rewrite Hsplit. apply in_or_app. left. exact Ht'.
    + cbn [w_tasks set_delayed add_task put set_started set_tasks set_ready msg_tasks]. intros t' Ht'. apply In_task_set in Ht'.
      destruct Ht' as [->|Ht']; [exists tl|exists t']; (split; [apply in_or_app; simpl; auto|auto]).
  - (* RESULT *)
    destruct (handle_result w a v) as [w1 ok] eqn:Eh.
    assert (L : a_w a = me w -> lexp w a v) by (intro E; apply (Hres (a, v)); simpl; auto).
    destruct (handle_result_V _ _ _ _ _ I L Eh) as (I1 & E1 & C1 & C2 & C3 & C4 & C5 & C6 & C7).
    destruct ok.
    + apply Plain; auto.
    + assert (I1' : winvV (set_rdead w1 true)) by (eapply winvV_same; [| | | | |exact I1]; reflexivity).
      assert (E1' : ext w (set_rdead w1 true)) by (eapply ext_trans; [exact E1|apply ext_same; reflexivity]).
      apply Plain; auto.
  - (* CANCEL *)
    assert (I1' : winvV (set_oos w true)) by (eapply winvV_same; [| | | | |exact I]; reflexivity).
    apply Plain; auto. apply ext_same; reflexivity.
Qed.
