From Coq Require Import List Arith Bool Lia PeanoNat.
Import ListNotations.
From BQ Require Import rt.CancelM rt.CancelThm.

(* ------------------------------------------------------------------ server tables (DetachedServer) *)
Section LN.
  Context {V : Type}.
  Lemma ln_remove_same k (l : list (nat * V)) : lookup_n k (remove_n k l) = None.
  Proof. apply lookup_remove_same. Qed.
  Lemma ln_remove_other k j (l : list (nat * V)) : k <> j -> lookup_n k (remove_n j l) = lookup_n k l.
  Proof. apply lookup_remove_other. apply Nat.eqb_eq. Qed.
  Lemma ln_remove_none k j (l : list (nat * V)) : lookup_n k l = None -> lookup_n k (remove_n j l) = None.
  Proof. apply lookup_remove_none. Qed.
  Lemma ln_put_same k v (l : list (nat * V)) : lookup_n k (put_n k v l) = Some v.
  Proof. apply lookup_put_same. apply Nat.eqb_eq. Qed.
  Lemma ln_put_other k j v (l : list (nat * V)) : k <> j -> lookup_n k (put_n j v l) = lookup_n k l.
  Proof. apply lookup_put_other. apply Nat.eqb_eq. Qed.
  Lemma ln_In k v (l : list (nat * V)) : lookup_n k l = Some v -> In (k, v) l.
  Proof. apply lookup_In. apply Nat.eqb_eq. Qed.
  Lemma ln_filter_keep (f : nat * V -> bool) k v : forall l, lookup_n k l = Some v -> f (k, v) = true -> lookup_n k (filter f l) = Some v.
  Proof. induction l as [|[k' v'] l IH]; simpl; intros H F. discriminate.
    destruct (Nat.eqb k k') eqn:E.
    - apply Nat.eqb_eq in E. subst. inv H. rewrite F. simpl. rewrite Nat.eqb_refl. auto.
    - destruct (f (k', v')); simpl; auto. rewrite E. auto. Qed.
  Lemma ln_filter_none (f : nat * V -> bool) k : forall l, lookup_n k l = None -> lookup_n k (filter f l) = None.
  Proof. induction l as [|[k' v'] l IH]; simpl; intros H; auto.
    destruct (Nat.eqb k k') eqn:E. discriminate. destruct (f (k', v')); simpl; auto. rewrite E; auto. Qed.
  Lemma ln_unique k v (l : list (nat * V)) : NoDup (map fst l) -> In (k, v) l -> lookup_n k l = Some v.
  Proof. induction l as [|[k' v'] l IH]; simpl; intros N H. destruct H. inv N.
    destruct H as [H|H]. inv H. rewrite Nat.eqb_refl; auto.
    destruct (Nat.eqb k k') eqn:E. apply Nat.eqb_eq in E. subst. exfalso. apply H2. apply in_map_iff. exists (k', v); auto.
    auto. Qed.
  Lemma keys_put_new k v (l : list (nat * V)) : lookup_n k l = None -> map fst (put_n k v l) = map fst l ++ [k].
  Proof. induction l as [|[k' v'] l IH]; simpl; intros H; auto. destruct (Nat.eqb k k') eqn:E. discriminate. simpl. rewrite IH; auto. Qed.
  Lemma lookup_none_notin k (l : list (nat * V)) : lookup_n k l = None -> ~ In k (map fst l).
  Proof. induction l as [|[k' v'] l IH]; simpl; intros H; auto. destruct (Nat.eqb k k') eqn:E. discriminate.
    intros [X|X]. subst. rewrite Nat.eqb_refl in E. discriminate. apply IH; auto. Qed.
  Lemma NoDup_keys_filter (f : nat * V -> bool) (l : list (nat * V)) : NoDup (map fst l) -> NoDup (map fst (filter f l)).
  Proof. induction l as [|[k v] l IH]; simpl; intros N; auto. inv N. destruct (f (k, v)); simpl; auto. constructor; auto.
    intros X. apply H1. apply in_map_iff in X. destruct X as ([k' v'] & E & IN). simpl in E. subst. apply filter_In in IN.
    apply in_map_iff. exists (k, v'); tauto. Qed.
End LN.

Lemma In_remove_first_neq x y l : In x l -> x <> y -> In x (remove_first y l).
Proof. induction l as [|z l IH]; simpl; intros H N; auto. destruct (y =? z) eqn:E.
  apply Nat.eqb_eq in E. subst. destruct H; auto. congruence. destruct H; [left|right]; auto. Qed.
Lemma NoDup_remove_first y l : NoDup l -> NoDup (remove_first y l) /\ ~ In y (remove_first y l).
Proof. induction l as [|z l IH]; simpl; intros N. split; auto. inv N. destruct (y =? z) eqn:E.
  apply Nat.eqb_eq in E. subst. split; auto. apply Nat.eqb_neq in E. destruct (IH H2) as [A B]. split.
  constructor; auto. intro X. apply H1. eapply In_remove_first; eauto. intros [X|X]; auto. Qed.

Record srv_inv (s : sstate) : Prop := {
  sv_box : forall mb b, lookup_n mb (s_boxes s) = Some b ->
     exists id c ids, lookup_n mb (s_m2t s) = Some id /\ lookup_n id (s_tasks s) = Some (mb, c)
                      /\ lookup_n c (s_clients s) = Some ids /\ In id ids;
  sv_task : forall id mb c, lookup_n id (s_tasks s) = Some (mb, c) -> mb < s_counter s /\ lookup_n mb (s_m2t s) = Some id;
  sv_cli : forall c ids id, lookup_n c (s_clients s) = Some ids -> In id ids ->
     exists mb, lookup_n id (s_tasks s) = Some (mb, c) /\ lookup_n mb (s_boxes s) <> None;
  sv_nodup : forall c ids, lookup_n c (s_clients s) = Some ids -> NoDup ids;
  sv_blt : forall mb, lookup_n mb (s_boxes s) <> None -> mb < s_counter s;
  sv_keys : NoDup (map fst (s_tasks s))
}.

Lemma srv_inv_init : srv_inv init_server.
Proof. constructor; simpl; intros; try discriminate; try congruence. constructor. Qed.

(* removing the mailbox of task id (and the id from its client's set) keeps the invariant *)
Lemma srv_inv_drop s id mb c cl' : srv_inv s -> lookup_n id (s_tasks s) = Some (mb, c) ->
  (forall c0 ids0, lookup_n c0 cl' = Some ids0 ->
     exists ids1, lookup_n c0 (s_clients s) = Some ids1 /\ NoDup ids0 /\ (forall x, In x ids1 -> x <> id -> In x ids0)
                  /\ (forall x, In x ids0 -> In x ids1 /\ x <> id)) ->
  (forall c0 ids1, lookup_n c0 (s_clients s) = Some ids1 -> exists ids0, lookup_n c0 cl' = Some ids0) ->
  srv_inv (set_s_clients cl' (set_s_boxes (remove_n mb (s_boxes s)) s)).
Proof.
  intros [SB ST SC SN SL SK] T CL1 CL2. constructor; simpl; auto.
  - intros mb' b L. destruct (Nat.eq_dec mb' mb). subst. rewrite ln_remove_same in L. discriminate.
    rewrite ln_remove_other in L by auto. destruct (SB _ _ L) as (id0 & c0 & ids0 & A1 & A2 & A3 & A4).
    destruct (CL2 _ _ A3) as [ids' L']. exists id0, c0, ids'. repeat split; auto.
    destruct (CL1 _ _ L') as (ids1 & B1 & B2 & B3 & _). rewrite A3 in B1. inv B1. apply B3; auto.
    intro E. subst. rewrite T in A2. inv A2. congruence.
  - intros c0 ids0 id0 L IN. destruct (CL1 _ _ L) as (ids1 & B1 & B2 & B3 & B4). destruct (B4 _ IN) as [I1 I2].
    destruct (SC _ _ _ B1 I1) as (mb0 & M1 & M2). exists mb0. split; auto.
    rewrite ln_remove_other; auto. intro E. subst.
    destruct (ST _ _ _ M1) as [_ X1]. destruct (ST _ _ _ T) as [_ X2]. congruence.
  - intros c0 ids0 L. destruct (CL1 _ _ L) as (ids1 & B1 & B2 & B3). auto.
  - intros mb' N. apply SL. intro E. apply N. apply ln_remove_none; auto.
Qed.

Lemma cancel_comp_spec nw id s s' o iss : cancel_comp nw id s = Some (s', o, iss) -> srv_inv s ->
  exists mb c, lookup_n id (s_tasks s) = Some (mb, c)
    /\ srv_inv s'
    /\ lookup_n mb (s_boxes s') = None
    /\ (forall ids, lookup_n c (s_clients s') = Some ids -> ~ In id ids)
    /\ iss = [(0, mb, 0)] /\ o_down o = broadcast nw (MCancel (0, mb, 0))
    /\ s_tasks s' = s_tasks s /\ s_m2t s' = s_m2t s /\ s_counter s' = s_counter s /\ s_closed s' = s_closed s
    /\ (forall mb', lookup_n mb' (s_boxes s) = None -> lookup_n mb' (s_boxes s') = None)
    /\ (forall mb', mb' <> mb -> lookup_n mb' (s_boxes s') = lookup_n mb' (s_boxes s))
    /\ (forall c', lookup_n c' (s_clients s') = None <-> lookup_n c' (s_clients s) = None).
Proof.
  unfold cancel_comp. intros H I.
  destruct (lookup_n id (s_tasks s)) as [[mb c]|] eqn:T; [|discriminate].
  destruct (lookup_n mb (s_boxes s)) eqn:B; [|discriminate]. simpl in H.
  destruct (lookup_n c (s_clients s)) as [ids|] eqn:C.
  - destruct (mem_nat id ids) eqn:M; inv H. exists mb, c. split; auto. simpl.
    pose proof (sv_nodup _ I _ _ C) as ND. destruct (NoDup_remove_first id _ ND) as [ND1 ND2].
    split; [|split; [apply ln_remove_same|split; [|repeat split; auto]]].
    + apply (srv_inv_drop s id mb c); auto.
      * intros c0 ids0 L. destruct (Nat.eq_dec c0 c). subst. rewrite ln_put_same in L. inv L. exists ids. repeat split; auto.
        intros; apply In_remove_first_neq; auto. eapply In_remove_first; eauto. intro; subst; contradiction.
        rewrite ln_put_other in L by auto. exists ids0. repeat split; auto. eapply sv_nodup; eauto.
        intro; subst. destruct (sv_cli _ I _ _ _ L H) as (mb0 & M1 & _). rewrite T in M1. inv M1. congruence.
      * intros c0 ids1 L. destruct (Nat.eq_dec c0 c). subst. rewrite ln_put_same. eauto. rewrite ln_put_other by auto. eauto.
    + intros ids' L. rewrite ln_put_same in L. inv L. auto.
    + intros; apply ln_remove_none; auto.
    + intros; apply ln_remove_other; auto.
    + destruct (Nat.eq_dec c' c). subst. rewrite ln_put_same. congruence. rewrite ln_put_other; auto.
    + destruct (Nat.eq_dec c' c). subst. rewrite ln_put_same. congruence. rewrite ln_put_other; auto.
  - inv H. exists mb, c. split; auto. simpl.
    (* the owner is not connected: impossible for a mailbox that still exists *)
    exfalso. destruct (sv_box _ I _ _ B) as (id0 & c0 & ids0 & A1 & A2 & A3 & A4).
    destruct (sv_task _ I _ _ _ T) as [_ M2]. rewrite M2 in A1. inv A1. rewrite T in A2. inv A2. congruence.
Qed.

(* cancel_comp when the owner's connection is not (any more) in `clients`: what handle_disconnect's loop runs *)
Lemma cancel_comp_raw nw id s s' o iss c mb : cancel_comp nw id s = Some (s', o, iss) ->
  lookup_n id (s_tasks s) = Some (mb, c) -> lookup_n c (s_clients s) = None ->
  s' = set_s_boxes (remove_n mb (s_boxes s)) s /\ lookup_n mb (s_boxes s) <> None
  /\ iss = [(0, mb, 0)] /\ o_down o = broadcast nw (MCancel (0, mb, 0)).
Proof. unfold cancel_comp. intros H T C. rewrite T in H. destruct (lookup_n mb (s_boxes s)) eqn:B; [|discriminate].
  simpl in H. rewrite C in H. inv H. repeat split; auto. congruence. Qed.

Lemma cancel_all_spec nw c : forall ids s s' o iss, cancel_all nw ids s = Some (s', o, iss) ->
  lookup_n c (s_clients s) = None -> (forall id, In id ids -> exists mb, lookup_n id (s_tasks s) = Some (mb, c)) ->
  s_tasks s' = s_tasks s /\ s_m2t s' = s_m2t s /\ s_counter s' = s_counter s /\ s_closed s' = s_closed s
  /\ s_clients s' = s_clients s
  /\ (forall id mb, In id ids -> lookup_n id (s_tasks s) = Some (mb, c) -> lookup_n mb (s_boxes s') = None)
  /\ (forall mb', (forall id, In id ids -> lookup_n id (s_tasks s) <> Some (mb', c)) -> lookup_n mb' (s_boxes s') = lookup_n mb' (s_boxes s))
  /\ (forall mb', lookup_n mb' (s_boxes s) = None -> lookup_n mb' (s_boxes s') = None)
  /\ (forall a, In a iss -> exists id mb, In id ids /\ lookup_n id (s_tasks s) = Some (mb, c) /\ a = (0, mb, 0)).
Proof.
  induction ids as [|id rr IH]; intros s s' o iss H C T; simpl in H.
  - inv H. repeat split; auto. intros id mb []. intros a [].
  - destruct (cancel_comp nw id s) as [[[s1 o1] i1]|] eqn:C1; [|discriminate].
    destruct (cancel_all nw rr s1) as [[[s2 o2] i2]|] eqn:C2; [|discriminate]. inv H.
    destruct (T id (or_introl eq_refl)) as [mb TI].
    destruct (cancel_comp_raw _ _ _ _ _ _ _ _ C1 TI C) as (E1 & E2 & E3 & E4). subst s1.
    apply IH in C2; simpl; auto; [|intros id0 IN0; apply T; right; auto]. simpl in C2.
    destruct C2 as (A1 & A2 & A3 & A4 & A5 & A6 & A7 & A8 & A9).
    repeat split; auto.
    + intros id' mb' [->|IN] L. rewrite TI in L. inv L. apply A8. apply ln_remove_same. eapply A6; eauto.
    + intros mb' N. rewrite A7. apply ln_remove_other. intro; subst. apply (N id); auto. intros id' IN. apply N. right; auto.
    + intros mb' N. apply A8. apply ln_remove_none; auto.
    + intros a IN. apply in_app_or in IN. destruct IN as [IN|IN]. subst i1. destruct IN as [<-|[]]. exists id, mb. auto.
      destruct (A9 _ IN) as (id' & mb' & X1 & X2 & X3). exists id', mb'. auto.
Qed.

Lemma list_eqb_eq a : forall b, list_eqb a b = true -> a = b.
Proof. induction a as [|x a IH]; intros [|y b] H; simpl in H; try discriminate; auto.
  apply andb_true_iff in H. destruct H as [H1 H2]. apply Nat.eqb_eq in H1. subst. f_equal; auto. Qed.
Lemma insert_sorted_In x y l : In x (insert_sorted y l) <-> x = y \/ In x l.
Proof. induction l as [|z l IH]; simpl. intuition. destruct (y <=? z); simpl. intuition. rewrite IH. intuition. Qed.
Lemma sort_nat_In x l : In x (sort_nat l) <-> In x l.
Proof. induction l as [|z l IH]; simpl. tauto. rewrite insert_sorted_In, IH. intuition. Qed.

Lemma ln_filter_some {V} (f : nat * V -> bool) k v l : lookup_n k (filter f l) = Some v -> In (k, v) l /\ f (k, v) = true.
Proof. intros H. apply ln_In in H. apply filter_In in H. auto. Qed.

Lemma disconnect_spec nw c order s s' o iss : disconnect nw c order s = Some (s', o, iss) -> srv_inv s ->
  srv_inv s'
  /\ lookup_n c (s_clients s') = None /\ In c (s_closed s')
  /\ (forall id mb, ~ In (id, (mb, c)) (s_tasks s'))
  /\ (forall id mb, lookup_n id (s_tasks s) = Some (mb, c) ->
        lookup_n id (s_tasks s') = None /\ lookup_n mb (s_m2t s') = None /\ lookup_n mb (s_boxes s') = None)
  /\ (forall a, In a iss -> exists id mb, lookup_n id (s_tasks s) = Some (mb, c) /\ a = (0, mb, 0))
  /\ (forall mb', lookup_n mb' (s_boxes s) = None -> lookup_n mb' (s_boxes s') = None)
  /\ s_counter s' = s_counter s
  /\ (forall c', c' <> c -> lookup_n c' (s_clients s') = lookup_n c' (s_clients s))
  /\ (forall x, In x (s_closed s') <-> x = c \/ In x (s_closed s)).
Proof.
  unfold disconnect. intros H I. destruct (lookup_n c (s_clients s)) as [ids|] eqn:C; [|discriminate].
  destruct (list_eqb (sort_nat order) (sort_nat ids)) eqn:LE; [|discriminate]. apply list_eqb_eq in LE.
  assert (PERM : forall x, In x order <-> In x ids). { intros x. rewrite <- (sort_nat_In x order), LE, sort_nat_In. tauto. }
  match type of H with context[cancel_all nw order ?x] => set (s1 := x) in * end.
  destruct (cancel_all nw order s1) as [[[s2 o2] i2]|] eqn:CA; [|discriminate].
  inv H. pose proof I as [SB ST SC SN SL SK].
  assert (C1 : lookup_n c (s_clients s1) = None) by (simpl; apply ln_remove_same).
  assert (T1 : forall id, In id order -> exists mb, lookup_n id (s_tasks s1) = Some (mb, c)).
  { intros id IN. apply PERM in IN. destruct (SC _ _ _ C IN) as (mb & M1 & _). eauto. }
  destruct (cancel_all_spec _ _ _ _ _ _ _ CA C1 T1) as (A1 & A2 & A3 & A4 & A5 & A6 & A7 & A8 & A9). simpl in *.
  set (keep := fun e : nat * (nat * nat) => negb (snd (snd e) =? c)).
  set (gone := filter (fun e : nat * (nat * nat) => snd (snd e) =? c) (s_tasks s2)).
  (* a mailbox that survives belongs to another client *)
  assert (BOXC : forall id mb, lookup_n id (s_tasks s) = Some (mb, c) -> lookup_n mb (s_boxes s2) = None).
  { intros id mb L. destruct (lookup_n mb (s_boxes s)) eqn:B; [|apply A8; auto].
    destruct (SB _ _ B) as (id0 & c0 & ids0 & X1 & X2 & X3 & X4). destruct (ST _ _ _ L) as [_ Y]. rewrite Y in X1. inv X1.
    rewrite L in X2. inv X2. rewrite C in X3. inv X3. eapply A6; eauto. apply PERM; auto. }
  assert (GONE : forall mb, In mb (map (fun g : nat * (nat * nat) => fst (snd g)) gone) <-> exists id, lookup_n id (s_tasks s) = Some (mb, c)).
  { intros mb. rewrite in_map_iff. split.
    - intros ([id [mb' c']] & E & IN). simpl in E. subst. apply filter_In in IN. destruct IN as [IN E]. simpl in E. apply Nat.eqb_eq in E. subst.
      exists id. rewrite A1 in IN. apply ln_unique; auto.
    - intros [id L]. exists (id, (mb, c)). split; auto. apply filter_In. split. rewrite A1. apply ln_In; auto. simpl. apply Nat.eqb_refl. }
  assert (M2T : forall mb id, lookup_n mb (s_m2t s) = Some id -> (forall id', lookup_n id' (s_tasks s) <> Some (mb, c)) ->
            lookup_n mb (filter (fun e => negb (mem_nat (fst e) (map (fun g : nat * (nat * nat) => fst (snd g)) gone))) (s_m2t s2)) = Some id).
  { intros mb id L N. apply ln_filter_keep. rewrite A2; auto. simpl. apply negb_true_iff.
    destruct (mem_nat mb (map (fun g : nat * (nat * nat) => fst (snd g)) gone)) eqn:M; auto.
    apply mem_nat_In in M. apply GONE in M. destruct M as [id' L']. exfalso. eapply N; eauto. }
  split; [|split; [|split; [|split; [|split; [|split; [|split; [|split; [|split]]]]]]]].
  - (* invariant *)
    constructor; simpl.
    + intros mb b L. destruct (lookup_n mb (s_boxes s)) eqn:B; [|rewrite A8 in L; congruence].
      destruct (SB _ _ B) as (id0 & c0 & ids0 & X1 & X2 & X3 & X4).
      assert (NC : c0 <> c). { intro; subst. rewrite (BOXC _ _ X2) in L. discriminate. }
      exists id0, c0, ids0. split; [|split; [|split]]; auto.
      * apply M2T; auto. intros id' L'. destruct (ST _ _ _ L') as [_ Y]. rewrite Y in X1. inv X1. rewrite X2 in L'. inv L'. congruence.
      * apply ln_filter_keep. rewrite A1; auto. simpl. apply negb_true_iff. apply Nat.eqb_neq; auto.
      * rewrite A5. simpl. rewrite ln_remove_other; auto.
    + intros id mb c' L. apply ln_filter_some in L. destruct L as [L F]. simpl in F. apply negb_true_iff in F. apply Nat.eqb_neq in F.
      rewrite A1 in L. apply ln_unique in L; auto. destruct (ST _ _ _ L) as [Y1 Y2]. rewrite A3. split; auto.
      apply M2T; auto. intros id' L'. destruct (ST _ _ _ L') as [_ Y]. rewrite Y in Y2. inv Y2. rewrite L in L'. inv L'. simpl in F. congruence.
    + intros c0 ids0 id L IN. rewrite A5 in L. simpl in L. destruct (Nat.eq_dec c0 c). subst. rewrite ln_remove_same in L. discriminate.
      rewrite ln_remove_other in L by auto. destruct (SC _ _ _ L IN) as (mb & M1 & M2). exists mb. split.
      apply ln_filter_keep. rewrite A1; auto. simpl. apply negb_true_iff. apply Nat.eqb_neq; auto.
      rewrite A7; auto. intros id' IN' L'. destruct (ST _ _ _ L') as [_ Y]. destruct (ST _ _ _ M1) as [_ Y']. rewrite Y in Y'. inv Y'.
      rewrite M1 in L'. inv L'. congruence.
    + intros c0 ids0 L. rewrite A5 in L. simpl in L. destruct (Nat.eq_dec c0 c). subst. rewrite ln_remove_same in L. discriminate.
      rewrite ln_remove_other in L by auto. eauto.
    + intros mb N. rewrite A3. apply SL. intro E. apply N. apply A8; auto.
    + apply NoDup_keys_filter. rewrite A1; auto.
  - rewrite A5. simpl. apply ln_remove_same.
  - rewrite A4. simpl. auto.
  - intros id mb IN. apply filter_In in IN. destruct IN as [_ F]. simpl in F. apply negb_true_iff in F. apply Nat.eqb_neq in F. congruence.
  - intros id mb L. split; [|split].
    + destruct (lookup_n id (filter (fun e : nat * (nat * nat) => negb (snd (snd e) =? c)) (s_tasks s2))) as [[mb' c']|] eqn:F; auto.
      apply ln_filter_some in F. destruct F as [F1 F2]. rewrite A1 in F1. apply ln_unique in F1; auto. rewrite L in F1. inv F1.
      simpl in F2. apply negb_true_iff in F2. apply Nat.eqb_neq in F2. congruence.
    + match goal with |- lookup_n mb ?l = None => destruct (lookup_n mb l) eqn:F; auto end.
      apply ln_filter_some in F. destruct F as [_ F]. simpl in F. apply negb_true_iff in F.
      assert (mem_nat mb (map (fun g : nat * (nat * nat) => fst (snd g)) gone) = true) by (apply mem_nat_In; apply GONE; eauto). congruence.
    + eapply BOXC; eauto.
  - intros a IN. destruct (A9 _ IN) as (id & mb & X1 & X2 & X3). eauto.
  - exact A8.
  - exact A3.
  - intros c' N. rewrite A5. simpl. apply ln_remove_other; auto.
  - intros x. rewrite A4. simpl. intuition.
Qed.
