From Coq Require Import List Arith Bool PeanoNat Lia Permutation.
Import ListNotations.
From BQ Require Import rt.WorkerM rt.wip_W1 rt.wip_W2 rt.wip_W3 rt.wip_W4 rt.wip_W5 rt.wip_W6.

Lemma task_okV_same : forall w w' t, w_boxes w' = w_boxes w -> w_counter w' = w_counter w -> task_okV w t -> task_okV w' t.
Proof. intros w w' t Hb Hc (T1 & done & F & T3). split; auto. exists done. split; auto.
  clear - F Hb Hc. induction F; constructor; auto. destruct H as (A & B & C). split; auto. split; [lia|]. rewrite Hb. auto. Qed.

Lemma winvV_same : forall w w', w_boxes w' = w_boxes w -> w_counter w' = w_counter w -> w_tasks w' = w_tasks w ->
  w_pc w' = w_pc w -> w_log w' = w_log w -> winvV w -> winvV w'.
Proof. intros w w' Hb Hc Ht Hp Hl I. destruct I. constructor.
  - rewrite Hb. auto.
  - rewrite Hb, Hc. auto.
  - rewrite Hb. auto.
  - rewrite Ht. intros t Hin. eapply task_okV_same; eauto.
  - unfold pc_okV in *. rewrite Hp, Ht. auto.
  - rewrite Hl. auto. Qed.

Definition plain_pc (p : pc) : Prop := match p with PAw1 _ _ _ | PAw1c _ _ _ | PAw2 _ _ => False | _ => True end.

Lemma winvV_set_pc : forall w p, plain_pc p -> winvV w -> winvV (set_pc w p).
Proof. intros w p Hp I. destruct I as [K1 K2 K3 K4 K5 K6]. constructor; auto. unfold pc_okV. simpl. destruct p; simpl in Hp; tauto. Qed.

Lemma In_task_set : forall t t' ts, In t (task_set t' ts) -> t = t' \/ In t ts.
Proof. induction ts as [|t0 r IH]; simpl; intros.
  - destruct H; auto.
  - destruct (addr_eqb (t_addr t0) (t_addr t')); simpl in H; destruct H; auto. apply IH in H. tauto. Qed.
Lemma In_task_del : forall t a ts, In t (task_del a ts) -> In t ts.
Proof. induction ts as [|t0 r IH]; simpl; intros; auto. destruct (addr_eqb (t_addr t0) a); simpl in *; auto. destruct H; auto. Qed.
Lemma task_get_In : forall a ts t, task_get a ts = Some t -> In t ts.
Proof. intros. apply task_get_Some in H. tauto. Qed.

(* updating a mailbox without touching its ghost expectation *)
Lemma winvV_box_set : forall w m b b0, winvV w -> box_get m (w_boxes w) = Some b0 -> b_expect b = b_expect b0 ->
  box_okV b -> winvV (set_boxes w (box_set m b (w_boxes w))).
Proof. intros w m b b0 I Hg He Hb. pose proof (ext_box_set w m b b0 Hg He) as E. destruct I as [K1 K2 K3 K4 K5 K6]. constructor; simpl.
  - rewrite (keys_box_set_present _ _ _ _ Hg). auto.
  - rewrite (keys_box_set_present _ _ _ _ Hg). auto.
  - intros m' b' H. destruct (Nat.eq_dec m' m).
    + subst. rewrite box_get_set_same in H. injection H as <-. auto.
    + rewrite box_get_set_other in H by auto. eauto.
  - intros t Hin. eapply task_okV_ext; eauto.
  - exact K5.
  - auto. Qed.

Lemma winvV_box_del : forall w m, winvV w -> winvV (set_boxes w (box_del m (w_boxes w))).
Proof. intros w m I. pose proof (ext_box_del w m (V_keys w I)) as E. destruct I as [K1 K2 K3 K4 K5 K6]. constructor; simpl.
  - apply keys_box_del_NoDup. auto.
  - intros m' H. apply keys_box_del_incl in H. auto.
  - intros m' b' H. destruct (Nat.eq_dec m' m).
    + subst. rewrite box_get_del_same in H by auto. discriminate.
    + rewrite box_get_del_other in H by auto. eauto.
  - intros t Hin. eapply task_okV_ext; eauto.
  - exact K5.
  - auto. Qed.

(* replacing a task by an updated version of itself *)
Lemma winvV_task_set : forall w t, winvV w -> task_okV w t ->
  (forall a m, (exists n, w_pc w = PAw1 a m n \/ w_pc w = PAw1c a m n) \/ w_pc w = PAw2 a m -> t_addr t = a ->
     exists f n, pend_fut (t_pend t) = Some f /\ nth_error (t_futs t) f = Some (m, n)) ->
  winvV (set_tasks w (task_set t (w_tasks w))).
Proof. intros w t I Ht Hpc. destruct I as [K1 K2 K3 K4 K5 K6]. constructor; simpl; auto.
  - intros t' Hin. apply In_task_set in Hin. destruct Hin as [->|Hin].
    + eapply task_okV_same; [| |exact Ht]; reflexivity.
    + eapply task_okV_same; [| |apply K4; auto]; reflexivity.
  - unfold pc_okV in *. simpl.
    destruct (w_pc w) eqn:Ep; auto.
    + destruct (addr_eqb (t_addr t) a) eqn:Ea.
      * apply addr_eqb_eq in Ea. destruct (Hpc a m) as (f & n & H1 & H2); auto. { left. exists nxt. auto. }
        exists t, f, n. subst a. rewrite task_get_task_set_same. auto.
      * apply addr_eqb_neq in Ea. rewrite task_get_task_set_other by auto. auto.
    + destruct (addr_eqb (t_addr t) a) eqn:Ea.
      * apply addr_eqb_eq in Ea. destruct (Hpc a m) as (f & n & H1 & H2); auto. { left. exists nxt. auto. }
        exists t, f, n. subst a. rewrite task_get_task_set_same. auto.
      * apply addr_eqb_neq in Ea. rewrite task_get_task_set_other by auto. auto.
    + destruct (addr_eqb (t_addr t) a) eqn:Ea.
      * apply addr_eqb_eq in Ea. destruct (Hpc a m) as (f & n & H1 & H2); auto.
        exists t, f, n. subst a. rewrite task_get_task_set_same. auto.
      * apply addr_eqb_neq in Ea. rewrite task_get_task_set_other by auto. auto.
Qed.

Lemma ext_same : forall w w', w_id w' = w_id w -> w_counter w' = w_counter w -> w_boxes w' = w_boxes w -> ext w w'.
Proof. intros w w' H1 H2 H3. split; auto. split; [lia|]. intros m b' Hb. left. rewrite H3 in Hb. eauto. Qed.

Lemma deposit_V : forall b slot v b1 ok, box_okV b -> nth_error (b_expect b) slot = Some v ->
  deposit b slot v = (b1, ok) -> box_okV b1 /\ b_expect b1 = b_expect b /\ b_dest b1 = b_dest b.
Proof.
  intros b slot v b1 ok (B1 & B2 & B3) Hs H. unfold deposit in H.
  assert (Hfresh : forall fr i v', Some (match b_fresh b with None => [] | Some l => l end ++ [(slot, v)]) = Some fr ->
            In (i, v') fr -> nth_error (b_expect b) i = Some v').
  { intros fr i v' E Hin. injection E as <-. apply in_app_or in Hin. destruct Hin as [Hin|[Hin|[]]].
    - destruct (b_fresh b) eqn:Ef; [|contradiction]. eapply B3; eauto.
    - injection Hin as <- <-. auto. }
  destruct (b_single b) eqn:Es.
  - injection H as <- <-. simpl. repeat split; auto.
    intros i v' Hn. destruct i; simpl in Hn; [|destruct i; discriminate]. injection Hn as <-.
    specialize (B1 eq_refl). destruct (b_expect b) as [|e [|e' r]]; simpl in B1; try discriminate.
    destruct slot; simpl in *; auto. destruct slot; discriminate.
  - destruct (Nat.ltb slot (length (b_result b))) eqn:El; injection H as <- <-; simpl; repeat split; auto; try congruence.
    intros i v' Hn. simpl in *. destruct (Nat.eq_dec slot i).
    + subst. b2p. rewrite nth_error_set_nth_eq in Hn by auto. injection Hn as <-. auto.
    + rewrite nth_error_set_nth_neq in Hn by auto. auto.
Qed.

Lemma handle_result_V : forall w a v w1 ok, winvV w -> (a_w a = me w -> lexp w a v) -> handle_result w a v = (w1, ok) ->
  winvV w1 /\ ext w w1 /\ w_counter w1 = w_counter w /\ w_tasks w1 = w_tasks w /\ w_out w1 = w_out w /\
  w_delayed w1 = w_delayed w /\ w_log w1 = w_log w /\ w_pc w1 = w_pc w /\ w_id w1 = w_id w.
Proof.
  intros w a v w1 ok I L0 H. unfold handle_result in H.
  destruct (dest_eqb (a_w a) (me w)) eqn:Eme; cbn [negb] in H.
  2:{ injection H as <- <-. split; [eapply winvV_same; [| | | | |exact I]; reflexivity|]. split; [apply ext_same; reflexivity|]. repeat split. }
  apply dest_eqb_eq in Eme. pose proof (L0 Eme) as L.
  destruct (box_get (a_box a) (w_boxes w)) as [b|] eqn:Eb.
  2:{ injection H as <- <-. split; [eapply winvV_same; [| | | | |exact I]; reflexivity|]. split; [apply ext_same; reflexivity|]. repeat split. }
  destruct (deposit b (a_slot a) v) as [b1 ok1] eqn:Edep.
  destruct (deposit_V _ _ _ _ _ (V_boxes w I _ _ Eb) (L _ Eb) Edep) as (Hb1 & He1 & Hd1).
  set (w1' := set_deposited (set_boxes w (box_set (a_box a) b1 (w_boxes w))) (w_deposited w ++ [a])) in *.
  assert (I1 : winvV w1').
  { eapply winvV_same; [| | | | |apply (winvV_box_set w (a_box a) b1 b I Eb He1 Hb1)]; reflexivity. }
  assert (E1 : ext w w1').
  { pose proof (ext_box_set w (a_box a) b1 b Eb He1) as E. exact E. }
  destruct (negb ok1).
  { injection H as <- <-. split; [eapply winvV_same; [| | | | |exact I1]; reflexivity|]. split; [exact E1|]. repeat split. }
  destruct (b_dest b1) as [d|] eqn:Ed.
  2:{ injection H as <- <-. split; [exact I1|]. split; [exact E1|]. repeat split. }
  destruct (task_get d (w_tasks w1')) as [t|] eqn:Et.
  2:{ injection H as <- <-. split; [eapply winvV_same; [| | | | |exact I1]; reflexivity|]. split; [exact E1|]. repeat split. }
  destruct (t_won t || b_ready b1).
  - injection H as <- <-.
    assert (Eb1 : box_get (a_box a) (w_boxes w1') = Some b1) by (simpl; apply box_get_set_same).
    assert (Hb2 : box_okV (b_set_dest b1 None)) by (destruct Hb1 as (X1 & X2 & X3); repeat split; auto).
    pose proof (winvV_box_set (put w1' d) (a_box a) (b_set_dest b1 None) b1) as Q.
    split.
    + eapply winvV_same; [| | | | |apply Q]; try reflexivity; auto.
      eapply winvV_same; [| | | | |exact I1]; reflexivity.
    + split.
      * eapply ext_trans; [exact E1|]. apply (ext_box_set (put w1' d) (a_box a) (b_set_dest b1 None) b1); auto.
      * repeat split.
  - injection H as <- <-. split; [exact I1|]. split; [exact E1|]. repeat split.
Qed.

Definition msg_res (m : msg) : list (addr * val) := match m with MResult a v _ => [(a, v)] | _ => [] end.
Definition chan_res (q : list msg) : list (addr * val) := flat_map msg_res q.
Lemma chan_res_app : forall q1 q2, chan_res (q1 ++ q2) = chan_res q1 ++ chan_res q2.
Proof. intros. apply flat_map_app. Qed.
Lemma cancel_msgs_res : forall w m n i, chan_res (cancel_msgs w m i n) = [].
Proof. induction n; simpl; intros; auto. Qed.

(* facts every sub-step of the main thread preserves about the parts it does not own *)
Definition frameV (w w' : wstate) : Prop :=
  w_id w' = w_id w /\ w_counter w' = w_counter w /\ w_tasks w' = w_tasks w /\ w_delayed w' = w_delayed w /\
  w_log w' = w_log w /\ w_pc w' = w_pc w /\
  chan_tasks (w_out w') = chan_tasks (w_out w) /\ chan_res (w_out w') = chan_res (w_out w).

Lemma frameV_trans : forall a b c, frameV a b -> frameV b c -> frameV a c.
Proof. unfold frameV. intros a b c (A1&A2&A3&A4&A5&A6&A7&A8) (B1&B2&B3&B4&B5&B6&B7&B8). repeat split; congruence. Qed.

Lemma close_boxes_V : forall owned skip w w1 ok, winvV w -> close_boxes owned skip w = (w1, ok) ->
  winvV w1 /\ ext w w1 /\ frameV w w1.
Proof.
  induction owned as [|m r IH]; simpl; intros skip w w1 ok I H.
  - injection H as <- <-. split; auto. split; [apply ext_refl|]. repeat split.
  - destruct skip; [eapply IH; eauto|].
    destruct (box_get m (w_boxes w)) as [b|] eqn:Eb.
    2:{ injection H as <- <-. split; [eapply winvV_same; [| | | | |exact I]; reflexivity|].
        split; [apply ext_same; reflexivity|]. repeat split. }
    destruct (b_ready b).
    + apply IH in H; [|apply winvV_box_del; auto]. destruct H as (I1 & E1 & F1).
      split; auto. split; [eapply ext_trans; [apply ext_box_del; apply (V_keys w I)|exact E1]|].
      eapply frameV_trans; [|exact F1]. repeat split.
    + apply IH in H.
      * destruct H as (I1 & E1 & F1). split; auto.
        split; [eapply ext_trans; [|exact E1]; apply (ext_trans _ (set_boxes w (box_del m (w_boxes w)))); [apply ext_box_del; apply (V_keys w I)|apply ext_same; reflexivity]|].
        eapply frameV_trans; [|exact F1]. repeat split; simpl.
        -- rewrite chan_tasks_app, cancel_msgs_tasks. apply app_nil_r.
        -- rewrite chan_res_app, cancel_msgs_res. apply app_nil_r.
      * eapply winvV_same; [| | | | |apply (winvV_box_del w m I)]; reflexivity.
Qed.

Inductive sv_spec (w : wstate) (t : task) : sendval -> Prop :=
| sv_none : t_desired t = None -> sv_spec w t SNone
| sv_full : forall m b, t_desired t = Some m -> t_won t = false -> box_get m (w_boxes w) = Some b ->
    sv_spec w t (SFull m (b_result b))
| sv_batch : forall m b fr, t_desired t = Some m -> t_won t = true -> box_get m (w_boxes w) = Some b ->
    b_fresh b = Some fr -> sv_spec w t (SBatch m fr).

Definition same_task_but_owned (t t1 : task) : Prop :=
  t_addr t1 = t_addr t /\ t_comp t1 = t_comp t /\ t_script t1 = t_script t /\ t_rest t1 = t_rest t /\
  t_futs t1 = t_futs t /\ t_pend t1 = t_pend t /\ t_cnt t1 = t_cnt t /\ t_desired t1 = t_desired t /\ t_won t1 = t_won t.

Lemma desired_result_V : forall w t w1 t1 sv, winvV w -> desired_result w t = inl (w1, t1, sv) ->
  winvV w1 /\ ext w w1 /\ frameV w w1 /\ w_out w1 = w_out w /\ same_task_but_owned t t1 /\ sv_spec w t sv.
Proof.
  intros w t w1 t1 sv I H. unfold desired_result in H.
  destruct (t_desired t) as [m|] eqn:Ed.
  2:{ injection H as <- <- <-. split; auto. split; [apply ext_refl|]. split; [repeat split|]. split; auto.
      split; [repeat split; auto|]. constructor. auto. }
  destruct (box_get m (w_boxes w)) as [b|] eqn:Eb; [|discriminate].
  destruct (t_won t) eqn:Ew.
  - destruct (b_fresh b) as [fr|] eqn:Ef; [|discriminate]. injection H as <- <- <-.
    assert (Hb : box_okV (b_set_fresh b (Some []))).
    { destruct (V_boxes w I _ _ Eb) as (X1 & X2 & X3). repeat split; auto. simpl. intros fr' i v E. injection E as <-. simpl. tauto. }
    split; [apply (winvV_box_set w m (b_set_fresh b (Some [])) b I Eb eq_refl Hb)|].
    split; [apply (ext_box_set w m (b_set_fresh b (Some [])) b Eb eq_refl)|]. split; [repeat split|]. split; auto.
    split; [repeat split; auto|]. eapply sv_batch; eauto.
  - destruct (negb (b_ready b)); [discriminate|]. destruct (remove_first m (t_owned t)) as [ow|]; [|discriminate].
    injection H as <- <- <-.
    split; [apply winvV_box_del; auto|]. split; [apply ext_box_del; apply (V_keys w I)|]. split; [repeat split|]. split; auto.
    split; [repeat split; auto|]. eapply sv_full; eauto.
Qed.

Lemma spec_box_expect : forall sp, b_expect (spec_box sp) = map ret_of (kids sp).
Proof. destruct sp; reflexivity. Qed.
Lemma spec_box_okV : forall sp, box_okV (spec_box sp).
Proof. destruct sp; simpl; repeat split; simpl; intros; try discriminate; auto.
  - destruct i; simpl in H; [discriminate|destruct i; discriminate].
  - exfalso. revert i H. generalize (length cs). induction n; intros i H; destruct i; simpl in H; try discriminate. eauto. Qed.

Lemma eff_tasks_In_full : forall me comp es c x, In x (eff_tasks me comp c es) ->
  exists k sp j child, nth_error es k = Some sp /\ nth_error (kids sp) j = Some child /\
                       x = new_task (mkAddr me (c + k) j) comp child.
Proof. induction es as [|sp r IH]; simpl; intros; [tauto|]. apply in_app_or in H. destruct H.
  - apply mk_children_In in H. destruct H as (_ & _ & _ & j & child & H1 & H2).
    exists 0, sp, j, child. rewrite Nat.add_0_r. simpl. auto.
  - apply IH in H. destruct H as (k & sp' & j & child & H1 & H2 & H3).
    exists (S k), sp', j, child. rewrite Nat.add_succ_r. simpl. auto. Qed.

Lemma apply_eff_V : forall w comp es, winvV w ->
  let w' := apply_eff w comp es in
  winvV w' /\ ext w w' /\
  (forall k sp, nth_error es k = Some sp -> box_get (w_counter w + k) (w_boxes w') = Some (spec_box sp)).
Proof.
  intros w comp es I w'.
  assert (Hnew : forall k sp, nth_error es k = Some sp -> box_get (w_counter w + k) (w_boxes w') = Some (spec_box sp)).
  { intros k sp Hk. subst w'. simpl. rewrite box_get_app.
    rewrite box_get_notkey.
    - clear - Hk. revert k Hk. generalize (w_counter w). induction es as [|sp0 r IH]; intros c k Hk; destruct k; simpl in *; try discriminate.
      + injection Hk as ->. rewrite Nat.add_0_r, Nat.eqb_refl. reflexivity.
      + destruct (Nat.eqb c (c + S k)) eqn:E; [b2p; lia|]. rewrite <- Nat.add_succ_comm. apply IH. auto.
    - intro Hin. apply (V_keys_lt w I) in Hin. lia. }
  assert (E : ext w w').
  { subst w'. split; [reflexivity|]. split; [simpl; lia|]. intros m b' Hb. simpl in Hb. rewrite box_get_app in Hb.
    destruct (box_get m (w_boxes w)) eqn:E0.
    - injection Hb as <-. left. eauto.
    - apply box_get_eff_boxes in Hb. right. lia. }
  split; [|split; auto].
  destruct I as [K1 K2 K3 K4 K5 K6]. constructor.
  - subst w'. simpl. unfold keys. rewrite map_app. fold (keys (w_boxes w)). fold (keys (eff_boxes (w_counter w) es)).
    rewrite keys_eff_boxes. apply NoDup_app_intro; auto.
    + apply seq_NoDup.
    + intros x Hx Hx'. apply K2 in Hx. apply in_seq in Hx'. lia.
  - subst w'. simpl. intros m Hm. unfold keys in Hm. rewrite map_app in Hm. apply in_app_or in Hm. destruct Hm as [Hm|Hm].
    + apply K2 in Hm. lia.
    + fold (keys (eff_boxes (w_counter w) es)) in Hm. rewrite keys_eff_boxes in Hm. apply in_seq in Hm. lia.
  - subst w'. simpl. intros m b Hb. rewrite box_get_app in Hb. destruct (box_get m (w_boxes w)) eqn:E0.
    + injection Hb as <-. eauto.
    + apply box_get_eff_boxes in Hb. destruct Hb as (_ & sp & _ & ->). apply spec_box_okV.
  - intros t Hin. eapply task_okV_ext; eauto.
  - exact K5.
  - exact K6.
Qed.
