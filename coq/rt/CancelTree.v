(* C12 - CANCEL propagation through a tree of managers (model; proofs in CancelTreeThm.v).

   Code -> definitions
     bqskit/runtime/manager.py  Manager.handle_message, direction BELOW, msg CANCEL: the `else` branch
                                "forward all other messages up"                         route_cancel false false _ = [LUp]
                                direction ABOVE, msg CANCEL: self.broadcast(CANCEL, payload)   route_cancel false true n
     bqskit/runtime/detached.py DetachedServer.handle_message, BELOW, CANCEL: self.broadcast   route_cancel true _ n
     bqskit/runtime/base.py     ServerBase.broadcast (one copy per employee, in order)          map LDown (seq 0 n)
     bqskit/runtime/worker.py   Worker.cancel sends CANCEL upstream; _handle_cancel records it   TIssue / TDeliverDown at a leaf

   Topology: node 0 is the server; node i > 0 hangs under [parent i] < i (managers of managers allowed); leaves are
   workers.  Every link (child i <-> parent i) has one FIFO queue per direction.  Only CANCEL traffic is modelled here:
   where the cancelled tasks run is irrelevant for the statement (every worker must get the CANCEL). *)
From Coq Require Import List Arith Bool PeanoNat.
Import ListNotations.
From BQ Require Import rt.CancelM.

Inductive link := LUp | LDown (k : nat).

(* where a node sends a CANCEL it has just received: [root] = it is the server, [from_above] = direction ABOVE,
   [nemp] = number of employees *)
Definition route_cancel (root from_above : bool) (nemp : nat) : list link :=
  if root || from_above then map LDown (seq 0 nemp) else [LUp].

Record topo := mkTopo { tp_parent : list nat }.           (* tp_parent[i] = parent of node i; entry 0 is unused *)
Definition nnodes (T : topo) : nat := length (tp_parent T).
Definition parent (T : topo) (i : nat) : nat := nth i (tp_parent T) 0.
(* the k-th employee of node n, in id order *)
Definition children (T : topo) (n : nat) : list nat :=
  filter (fun i => (0 <? i) && (parent T i =? n)) (seq 0 (nnodes T)).
Definition is_leaf (T : topo) (n : nat) : bool := match children T n with [] => true | _ => false end.
Definition wf_topo (T : topo) : Prop := forall i, 0 < i -> i < nnodes T -> parent T i < i.

Record tstate := mkTS {
  ts_up : list (list addr);         (* ts_up[i]: CANCELs travelling from node i to its parent *)
  ts_down : list (list addr);       (* ts_down[i]: CANCELs travelling from parent i to node i *)
  ts_handled : list (list addr);    (* per node: CANCELs a worker has handled *)
  ts_issued : list addr
}.

Definition init_tree (T : topo) : tstate :=
  mkTS (repeat [] (nnodes T)) (repeat [] (nnodes T)) (repeat [] (nnodes T)) [].

Inductive tevent :=
| TIssue (w : nat) (c : addr)       (* worker w executes cancel: CANCEL(c) goes upstream *)
| TUp (i : nat)                     (* parent of i handles the next CANCEL that arrived from i *)
| TDown (i : nat).                  (* node i handles the next CANCEL that arrived from its parent *)

Definition qpush (i : nat) (c : addr) (qs : list (list addr)) : list (list addr) :=
  match nth_error qs i with Some q => set_nth i (q ++ [c]) qs | None => qs end.

(* deliver c along the links [ls] of node n *)
Fixpoint send_links (T : topo) (n : nat) (ls : list link) (c : addr) (s : tstate) : tstate :=
  match ls with
  | [] => s
  | LUp :: r => send_links T n r c (mkTS (qpush n c (ts_up s)) (ts_down s) (ts_handled s) (ts_issued s))
  | LDown k :: r =>
      match nth_error (children T n) k with
      | Some ch => send_links T n r c (mkTS (ts_up s) (qpush ch c (ts_down s)) (ts_handled s) (ts_issued s))
      | None => send_links T n r c s
      end
  end.

Definition tstep (T : topo) (s : tstate) (e : tevent) : option tstate :=
  match e with
  | TIssue w c =>
      if is_leaf T w && (0 <? w) && (w <? nnodes T)
      then Some (mkTS (qpush w c (ts_up s)) (ts_down s) (ts_handled s) (ts_issued s ++ [c]))
      else None
  | TUp i =>
      if (0 <? i) && (i <? nnodes T) then
        match nth_error (ts_up s) i with
        | Some (c :: q) =>
            let n := parent T i in
            let s1 := mkTS (set_nth i q (ts_up s)) (ts_down s) (ts_handled s) (ts_issued s) in
            Some (send_links T n (route_cancel (n =? 0) false (length (children T n))) c s1)
        | _ => None
        end
      else None
  | TDown i =>
      if (0 <? i) && (i <? nnodes T) then
        match nth_error (ts_down s) i with
        | Some (c :: q) =>
            let s1 := mkTS (ts_up s) (set_nth i q (ts_down s)) (ts_handled s) (ts_issued s) in
            if is_leaf T i
            then Some (mkTS (ts_up s1) (ts_down s1) (qpush i c (ts_handled s1)) (ts_issued s1))
            else Some (send_links T i (route_cancel false true (length (children T i))) c s1)
        | _ => None
        end
      else None
  end.

Fixpoint trun (T : topo) (s : tstate) (evs : list tevent) : option tstate :=
  match evs with
  | [] => Some s
  | e :: r => match tstep T s e with None => None | Some s1 => trun T s1 r end
  end.

Definition tquiet (s : tstate) : bool :=
  forallb (fun q => match q with [] => true | _ => false end) (ts_up s)
  && forallb (fun q => match q with [] => true | _ => false end) (ts_down s).
