From Coq Require Import List Arith Bool PeanoNat Lia Permutation.
Import ListNotations.
From BQ Require Import rt.WorkerM rt.wip_W1 rt.wip_W2 rt.wip_W3 rt.wip_W4 rt.wip_W5 rt.wip_W6 rt.wip_W7 rt.wip_W8 rt.wip_W9 rt.wip_W10 rt.wip_W11.

(* ---------- Part B: conservation of results ---------- *)
Definition rcnt (a : addr) (l : list (addr * val)) : nat := cnt a (map fst l).
Lemma rcnt_app : forall a l1 l2, rcnt a (l1 ++ l2) = rcnt a l1 + rcnt a l2.
Proof. intros. unfold rcnt. rewrite map_app, cnt_app. reflexivity. Qed.

(* what a worker holds of the life of results: in its upward channel, deposited, dropped *)
Definition w_resB (a : addr) (w : wstate) : nat :=
  rcnt a (chan_res (w_out w)) + cnt a (w_deposited w) + cnt a (w_dropped w).

Definition sameB (w w' : wstate) : Prop :=
  chan_res (w_out w') = chan_res (w_out w) /\ w_deposited w' = w_deposited w /\ w_dropped w' = w_dropped w /\
  w_stuck w' = w_stuck w /\ w_finished w' = w_finished w /\ map t_addr (w_tasks w') = map t_addr (w_tasks w).
Lemma sameB_refl : forall w, sameB w w. Proof. intro; repeat split; reflexivity. Qed.
Lemma sameB_trans : forall a b c, sameB a b -> sameB b c -> sameB a c.
Proof. unfold sameB. intros a b c (A1&A2&A3&A4&A5&A6) (B1&B2&B3&B4&B5&B6). repeat split; congruence. Qed.
Ltac sameB_tac := repeat split; try reflexivity.

(* worker transition, seen from the result accounting:
   rin = results consumed from the incoming channel *)
Definition stepB (w w' : wstate) (rin : list (addr * val)) : Prop :=
  exists fin,
    w_finished w' = w_finished w ++ fin /\
    (forall x, w_resB x w' + cnt x (w_stuck w) = w_resB x w + rcnt x rin + cnt x (map fst fin) + cnt x (w_stuck w')) /\
    (forall x, cnt x (w_stuck w') <= cnt x (w_stuck w) + tcnt x (w_tasks w')) /\
    (forall x, tcnt x (w_tasks w) <= tcnt x (w_tasks w') + cnt x (map fst fin)).

Lemma stepB_same : forall w w', sameB w w' -> stepB w w' [].
Proof. intros w w' (H1&H2&H3&H4&H5&H6). exists []. unfold w_resB, tcnt. rewrite H1, H2, H3, H4, H5, H6, app_nil_r.
  repeat split; intros; unfold rcnt; simpl; rewrite ?cnt_nil; lia. Qed.

Lemma handle_result_B : forall w a v w1 ok, handle_result w a v = (w1, ok) ->
  w_out w1 = w_out w /\ w_stuck w1 = w_stuck w /\ w_finished w1 = w_finished w /\ w_tasks w1 = w_tasks w /\
  (forall x, cnt x (w_deposited w1) + cnt x (w_dropped w1) =
             cnt x (w_deposited w) + cnt x (w_dropped w) + (if addr_eqb x a then 1 else 0)).
Proof. intros w a v w1 ok H. unfold handle_result in H.
  destruct (negb (dest_eqb (a_w a) (me w))).
  { injection H as <- <-. simpl. repeat split; auto. intro x. rewrite cnt_app, cnt_single. lia. }
  destruct (box_get (a_box a) (w_boxes w)) as [b|].
  2:{ injection H as <- <-. simpl. repeat split; auto. intro x. rewrite cnt_app, cnt_single. lia. }
  destruct (deposit b (a_slot a) v) as [b1 ok1].
  assert (G : forall x, cnt x (w_deposited w ++ [a]) + cnt x (w_dropped w) =
             cnt x (w_deposited w) + cnt x (w_dropped w) + (if addr_eqb x a then 1 else 0))
    by (intro x; rewrite cnt_app, cnt_single; lia).
  destruct (negb ok1); [injection H as <- <-; simpl; repeat split; auto|].
  destruct (b_dest b1) as [d|]; [|injection H as <- <-; simpl; repeat split; auto].
  cbn [w_tasks set_deposited set_boxes] in H.
  destruct (task_get d (w_tasks w)) as [t|]; [|injection H as <- <-; simpl; repeat split; auto].
  destruct (t_won t || b_ready b1); injection H as <- <-; simpl; repeat split; auto. Qed.

Lemma close_boxes_B : forall owned skip w w1 ok, close_boxes owned skip w = (w1, ok) -> sameB w w1.
Proof. induction owned as [|m r IH]; simpl; intros skip w w1 ok H.
  - injection H as <- <-. apply sameB_refl.
  - destruct skip; [eapply IH; eauto|].
    destruct (box_get m (w_boxes w)) as [b|]; [|injection H as <- <-; sameB_tac].
    destruct (b_ready b); apply IH in H; (eapply sameB_trans; [|exact H]); sameB_tac.
    simpl. rewrite chan_res_app, cancel_msgs_res. apply app_nil_r. Qed.

Lemma chan_res_eff_msgs : forall me comp es c, chan_res (eff_msgs me comp c es) = [].
Proof. induction es as [|sp r IH]; simpl; intros; auto. destruct sp; simpl; auto. Qed.
Lemma apply_eff_B : forall w comp es, sameB w (apply_eff w comp es).
Proof. intros. unfold apply_eff. sameB_tac. simpl. rewrite chan_res_app, chan_res_eff_msgs. apply app_nil_r. Qed.

Lemma desired_result_B : forall w t w1 t1 sv, desired_result w t = inl (w1, t1, sv) -> sameB w w1.
Proof. intros w t w1 t1 sv H. unfold desired_result in H.
  destruct (t_desired t) as [m|]; [|injection H as <- <- <-; apply sameB_refl].
  destruct (box_get m (w_boxes w)) as [b|]; [|discriminate].
  destruct (t_won t).
  - destruct (b_fresh b); [|discriminate]. injection H as <- <- <-. sameB_tac.
  - destruct (negb (b_ready b)); [discriminate|]. destruct (remove_first m (t_owned t)); [|discriminate].
    injection H as <- <- <-. sameB_tac. Qed.

Lemma resume_B : forall w t sv w' t' y, resume w t sv = (w', t', y) -> sameB w w'.
Proof.
  intros w t sv w' t' y H. unfold resume in H.
  assert (Hr : forall w0 t0, sameB w w0 -> run (t_rest t) w0 t0 = (w', t', y) -> sameB w w').
  { intros w0 t0 S Hrun. apply run_exact in Hrun. destruct Hrun as (es & _ & _ & _ & _ & Hw & _). rewrite Hw.
    eapply sameB_trans; [exact S|apply apply_eff_B]. }
  assert (Hx : raised w t = (w', t', y) -> sameB w w').
  { unfold raised. intro E. injection E as <- <- <-. apply sameB_refl. }
  destruct (t_pend t); destruct sv; try (apply Hx; exact H);
    (match type of H with run _ ?wl ?tl = _ => apply (Hr wl tl) end; [sameB_tac|exact H]).
Qed.

Lemma task_set_addrs_same : forall w t t0, task_get (t_addr t) (w_tasks w) = Some t0 ->
  sameB w (set_tasks w (task_set t (w_tasks w))).
Proof. intros. sameB_tac. simpl. eapply task_set_present_addrs; eauto. Qed.

Lemma aw_B : forall w a m nxt, sameB w (aw1 w a m) /\ sameB w (aw1c w a nxt) /\ sameB w (aw2 w a m).
Proof. intros. split; [|split].
  - destruct (aw1_A w a m) as (_&Q&_). unfold aw1 in *.
    destruct (box_get m (w_boxes w)); simpl in *; destruct (task_get a (w_tasks w)); sameB_tac; exact Q.
  - destruct (aw1c_A w a nxt) as (_&Q&_). unfold aw1c in *. destruct (task_get a (w_tasks w)); sameB_tac; exact Q.
  - unfold aw2. destruct (box_get m (w_boxes w)) as [b|]; [destruct (b_ready b)|]; sameB_tac.
Qed.

Lemma complete_B : forall w t v w1 ok t0, task_get (t_addr t) (w_tasks w) = Some t0 ->
  complete w t v = (w1, ok) -> stepB w w1 [].
Proof.
  intros w t v w1 ok t0 Hg H. unfold complete in H.
  pose proof (task_get_Some_tcnt _ _ _ Hg) as Hpos.
  destruct (dest_eqb (a_w (t_addr t)) (me w)).
  - destruct (handle_result w (t_addr t) v) as [w' ok'] eqn:E.
    destruct (handle_result_B _ _ _ _ _ E) as (B1 & B2 & B3 & B4 & B5).
    destruct ok'; cbn [negb] in H.
    + destruct (close_boxes (t_owned t) false _) as [w3 ok3] eqn:E3 in H. injection H as <- <-.
      apply close_boxes_B in E3. destruct E3 as (C1&C2&C3&C4&C5&C6).
      cbn [set_finished set_tasks send set_out w_out w_deposited w_dropped w_stuck w_finished w_tasks] in *.
      exists [(t_addr t, v)]. split; [rewrite C5, B3; reflexivity|].
      split; [|split].
      * intro x. unfold w_resB. rewrite C1, C2, C3, C4, chan_res_app, B1, B2. simpl. rewrite app_nil_r.
        specialize (B5 x). unfold rcnt. simpl. rewrite cnt_single, cnt_nil. lia.
      * intro x. rewrite C4, B2. lia.
      * intro x. unfold tcnt at 2. rewrite C6, B4. pose proof (tcnt_task_del x _ _ _ Hg) as D. unfold tcnt in *.
        simpl. rewrite cnt_single. lia.
    + injection H as <- <-. exists []. simpl. rewrite app_nil_r.
      split; [exact B3|]. split; [|split].
      * intro x. unfold w_resB. simpl. rewrite B1, B2, cnt_app, cnt_single. specialize (B5 x). unfold rcnt. simpl. rewrite cnt_nil. lia.
      * intro x. rewrite B2, B4, cnt_app, cnt_single. destruct (addr_eqb x (t_addr t)) eqn:Ex; [|lia].
        apply addr_eqb_eq in Ex. subst x. lia.
      * intro x. rewrite B4. rewrite cnt_nil. lia.
  - cbn [negb] in H. destruct (close_boxes (t_owned t) false _) as [w3 ok3] eqn:E3 in H. injection H as <- <-.
    apply close_boxes_B in E3. destruct E3 as (C1&C2&C3&C4&C5&C6).
    cbn [set_finished set_tasks send set_out w_out w_deposited w_dropped w_stuck w_finished w_tasks] in *.
    exists [(t_addr t, v)]. split; [rewrite C5; reflexivity|].
    split; [|split].
    + intro x. unfold w_resB. rewrite C1, C2, C3, C4, chan_res_app, rcnt_app. unfold rcnt. simpl. rewrite cnt_single, cnt_nil. lia.
    + intro x. rewrite C4. lia.
    + intro x. unfold tcnt at 2. rewrite C6. pose proof (tcnt_task_del x _ _ _ Hg) as D. unfold tcnt in *.
      simpl. rewrite cnt_single. lia.
Qed.

Lemma stepB_trans_same : forall a b c, sameB a b -> stepB b c [] -> stepB a c [].
Proof. intros a b c (A1&A2&A3&A4&A5&A6) (fin & F1 & F2 & F3 & F4). exists fin. unfold w_resB, tcnt in *.
  rewrite <- A1, <- A2, <- A3, <- A4, <- A5, <- A6. auto. Qed.
Lemma stepB_same_trans : forall a b c, stepB a b [] -> sameB b c -> stepB a c [].
Proof. intros a b c (fin & F1 & F2 & F3 & F4) (A1&A2&A3&A4&A5&A6). exists fin. unfold w_resB, tcnt in *.
  rewrite A1, A2, A3, A4, A5, A6. auto. Qed.

Lemma send_B : forall w m, msg_res m = [] -> sameB w (send w m).
Proof. intros. unfold send. sameB_tac. simpl. rewrite chan_res_app. simpl. rewrite H. apply app_nil_r. Qed.

Lemma dispatch_B : forall atomic w a, stepB w (dispatch atomic w a) [].
Proof.
  intros atomic w a. unfold dispatch.
  destruct (task_get a (w_tasks w)) as [t|] eqn:Eg; [|apply stepB_same; sameB_tac].
  pose proof (task_get_Some _ _ _ Eg) as [Hta _].
  destruct (desired_result w t) as [[[w1 t1] sv]|e] eqn:Ed.
  2:{ apply stepB_same. unfold task_error. sameB_tac. simpl. rewrite chan_res_app. simpl. apply app_nil_r. }
  pose proof (desired_result_B _ _ _ _ _ Ed) as S1.
  pose proof (desired_result_A _ _ _ _ _ Ed) as (_ & Ha1 & _).
  pose proof (desired_result_tasks _ _ _ _ _ Ed) as T1.
  destruct (resume w1 (t_set_desired (t_set_won t1 false) None) sv) as [[w2 t3] y] eqn:Er.
  pose proof (resume_B _ _ _ _ _ _ Er) as S2.
  apply resume_A in Er. destruct Er as (w0 & es & _ & T2 & Ew & Ha3 & _). simpl in Ha3.
  assert (Tg : task_get (t_addr t3) (w_tasks w2) = Some t).
  { rewrite Ew. unfold apply_eff. simpl. rewrite T2, T1. congruence. }
  set (w2' := set_tasks w2 (task_set t3 (w_tasks w2))).
  assert (S3 : sameB w w2').
  { eapply sameB_trans; [exact S1|]. eapply sameB_trans; [exact S2|]. subst w2'. eapply task_set_addrs_same; eauto. }
  assert (Terr : forall wx tx e, sameB wx (task_error wx tx e)).
  { intros. unfold task_error. sameB_tac. simpl. rewrite chan_res_app. simpl. apply app_nil_r. }
  destruct y as [m nxt|v|].
  - fold w2'. apply stepB_same. eapply sameB_trans; [exact S3|].
    destruct (negb (has_box w2' m)); [apply Terr|].
    destruct atomic; [|sameB_tac].
    destruct (aw_B w2' a m nxt) as (Q1 & _ & _).
    destruct (aw_B (aw1 w2' a m) a m nxt) as (_ & Q2 & _).
    destruct (aw_B (aw1c (aw1 w2' a m) a nxt) a m nxt) as (_ & _ & Q3).
    eapply sameB_trans; [exact Q1|]. eapply sameB_trans; [exact Q2|]. eapply sameB_trans; [exact Q3|]. sameB_tac.
  - fold w2'. destruct (complete w2' t3 v) as [w3 ok] eqn:Ec.
    assert (Tg' : task_get (t_addr t3) (w_tasks w2') = Some t3) by (subst w2'; simpl; apply task_get_task_set_same).
    pose proof (complete_B _ _ _ _ _ _ Tg' Ec) as C.
    eapply stepB_trans_same; [exact S3|]. eapply stepB_same_trans; [exact C|].
    destruct ok; [sameB_tac|]. unfold fatal. sameB_tac. simpl. rewrite chan_res_app. simpl. apply app_nil_r.
  - fold w2'. apply stepB_same. eapply sameB_trans; [exact S3|apply Terr].
Qed.

Lemma main_step_B : forall atomic w w', main_step atomic w = Some w' ->
  (forall t, In t (w_delayed w) -> tcnt (t_addr t) (w_tasks w) = 0) ->
  stepB w w' [].
Proof.
  intros atomic w w' H Habs. unfold main_step in H. destruct (w_pc w) eqn:Epc.
  - destruct (w_ready w); [destruct (w_delayed w)|]; injection H as <-; apply stepB_same; sameB_tac.
  - destruct (last_opt (w_delayed w)) as [tl|] eqn:El; injection H as <-.
    + pose proof (last_opt_removelast _ _ _ El) as Hsplit.
      assert (Hin : In tl (w_delayed w)) by (rewrite Hsplit; apply in_or_app; right; left; reflexivity).
      specialize (Habs tl Hin). apply task_get_None_tcnt in Habs.
      exists []. unfold w_resB. simpl. rewrite app_nil_r. rewrite task_set_absent by (simpl; auto).
      repeat split; auto; intro x; unfold rcnt; simpl; rewrite ?cnt_nil, ?tcnt_app; lia.
    + apply stepB_same. unfold fatal. sameB_tac. simpl. rewrite chan_res_app. simpl. apply app_nil_r.
  - destruct (w_ready w) as [|a q]; injection H as <-.
    + apply stepB_same. apply (send_B w (MWaiting (w_recent w))). reflexivity.
    + apply (dispatch_B atomic (set_ready w q) a).
  - destruct (w_ready w) as [|a q]; [discriminate|]. injection H as <-. apply (dispatch_B atomic (set_ready w q) a).
  - injection H as <-. apply stepB_same. destruct (aw_B w a m nxt) as (Q & _ & _). eapply sameB_trans; [exact Q|sameB_tac].
  - injection H as <-. apply stepB_same. destruct (aw_B w a m nxt) as (_ & Q & _). eapply sameB_trans; [exact Q|sameB_tac].
  - injection H as <-. apply stepB_same. destruct (aw_B w a m false) as (_ & _ & Q). eapply sameB_trans; [exact Q|sameB_tac].
  - discriminate.
Qed.

Lemma recv_step_B : forall w m, w_rdead w = false ->
  (forall t, In t (msg_tasks m) -> tcnt (t_addr t) (w_tasks w) = 0) ->
  stepB w (recv_step w m) (msg_res m).
Proof.
  intros w m Hd Habs. unfold recv_step. rewrite Hd.
  destruct m as [t|ts|a v c|r| |c| |a]; try solve [apply stepB_same; sameB_tac].
  - specialize (Habs t (or_introl eq_refl)). apply task_get_None_tcnt in Habs.
    exists []. unfold w_resB. simpl. rewrite app_nil_r. rewrite task_set_absent by (simpl; auto).
    repeat split; auto; intro x; unfold rcnt; simpl; rewrite ?cnt_nil, ?tcnt_app; lia.
  - destruct ts as [|t0 r]; [apply stepB_same; sameB_tac|].
    destruct (last_opt (t0 :: r)) as [tl|] eqn:El; [|apply last_opt_None in El; discriminate].
    pose proof (last_opt_removelast _ _ _ El) as Hsplit.
    assert (Hin : In tl (t0 :: r)) by (rewrite Hsplit; apply in_or_app; right; left; reflexivity).
    specialize (Habs tl Hin). apply task_get_None_tcnt in Habs.
    exists []. unfold w_resB.
    cbn [add_task put set_started set_tasks set_recent set_delayed set_ready w_out w_deposited w_dropped w_stuck w_finished w_tasks msg_res].
    rewrite app_nil_r. rewrite task_set_absent by (simpl; auto).
    repeat split; auto; intro x; unfold rcnt; simpl; rewrite ?cnt_nil, ?tcnt_app; lia.
  - destruct (handle_result w a v) as [w1 ok] eqn:E.
    destruct (handle_result_B _ _ _ _ _ E) as (B1 & B2 & B3 & B4 & B5).
    exists []. rewrite app_nil_r.
    assert (G : forall wx, w_out wx = w_out w1 -> w_deposited wx = w_deposited w1 -> w_dropped wx = w_dropped w1 ->
              w_stuck wx = w_stuck w1 -> w_finished wx = w_finished w1 -> w_tasks wx = w_tasks w1 ->
              w_finished wx = w_finished w /\
              (forall x, w_resB x wx + cnt x (w_stuck w) = w_resB x w + rcnt x (msg_res (MResult a v c)) + cnt x (map fst (@nil (addr*val))) + cnt x (w_stuck wx)) /\
              (forall x, cnt x (w_stuck wx) <= cnt x (w_stuck w) + tcnt x (w_tasks wx)) /\
              (forall x, tcnt x (w_tasks w) <= tcnt x (w_tasks wx) + cnt x (map fst (@nil (addr*val))))).
    { intros wx G1 G2 G3 G4 G5 G6. split; [congruence|]. unfold w_resB. rewrite G1, G2, G3, G4, G6, B1, B2, B4.
      repeat split; intro x; specialize (B5 x); unfold rcnt; simpl; rewrite ?cnt_single, ?cnt_nil; lia. }
    destruct ok; apply G; reflexivity.
Qed.

(* a failed local completion is the only way to get stuck, and it stops the worker *)
Definition stuckK (w w' : wstate) : Prop :=
  w_stuck w' = w_stuck w \/
  (exists x, w_stuck w' = w_stuck w ++ [x] /\ tcnt x (w_tasks w') >= 1 /\ w_pc w' = PDead).

Lemma complete_K : forall w t v w1 ok t0, task_get (t_addr t) (w_tasks w) = Some t0 ->
  complete w t v = (w1, ok) ->
  w_stuck w1 = w_stuck w \/ (ok = false /\ w_stuck w1 = w_stuck w ++ [t_addr t] /\ w_tasks w1 = w_tasks w).
Proof.
  intros w t v w1 ok t0 Hg H. unfold complete in H.
  destruct (dest_eqb (a_w (t_addr t)) (me w)).
  - destruct (handle_result w (t_addr t) v) as [w' ok'] eqn:E.
    destruct (handle_result_B _ _ _ _ _ E) as (B1 & B2 & B3 & B4 & B5).
    destruct ok'; cbn [negb] in H.
    + destruct (close_boxes (t_owned t) false _) as [w3 ok3] eqn:E3 in H. injection H as <- <-.
      apply close_boxes_B in E3. destruct E3 as (C1&C2&C3&C4&C5&C6). left. rewrite C4. simpl. exact B2.
    + injection H as <- <-. right. simpl. rewrite B2, B4. auto.
  - cbn [negb] in H. destruct (close_boxes (t_owned t) false _) as [w3 ok3] eqn:E3 in H. injection H as <- <-.
    apply close_boxes_B in E3. destruct E3 as (C1&C2&C3&C4&C5&C6). left. rewrite C4. reflexivity.
Qed.

Lemma dispatch_K : forall atomic w a, stuckK w (dispatch atomic w a).
Proof.
  intros atomic w a. unfold dispatch.
  destruct (task_get a (w_tasks w)) as [t|] eqn:Eg; [|left; reflexivity].
  pose proof (task_get_Some _ _ _ Eg) as [Hta _].
  destruct (desired_result w t) as [[[w1 t1] sv]|e] eqn:Ed; [|left; reflexivity].
  pose proof (desired_result_B _ _ _ _ _ Ed) as S1.
  pose proof (desired_result_A _ _ _ _ _ Ed) as (_ & Ha1 & _).
  pose proof (desired_result_tasks _ _ _ _ _ Ed) as T1.
  destruct (resume w1 (t_set_desired (t_set_won t1 false) None) sv) as [[w2 t3] y] eqn:Er.
  pose proof (resume_B _ _ _ _ _ _ Er) as S2.
  apply resume_A in Er. destruct Er as (w0 & es & _ & T2 & Ew & Ha3 & _). simpl in Ha3.
  assert (Tg : task_get (t_addr t3) (w_tasks w2) = Some t).
  { rewrite Ew. unfold apply_eff. simpl. rewrite T2, T1. congruence. }
  set (w2' := set_tasks w2 (task_set t3 (w_tasks w2))).
  assert (S3 : sameB w w2').
  { eapply sameB_trans; [exact S1|]. eapply sameB_trans; [exact S2|]. subst w2'. eapply task_set_addrs_same; eauto. }
  assert (K3 : w_stuck w2' = w_stuck w) by (destruct S3 as (_&_&_&Q&_); exact Q).
  destruct y as [m nxt|v|].
  - fold w2'. left. rewrite <- K3.
    destruct (negb (has_box w2' m)); [reflexivity|].
    destruct atomic; [|reflexivity].
    destruct (aw_B w2' a m nxt) as ((_&_&_&Q1&_) & _ & _).
    destruct (aw_B (aw1 w2' a m) a m nxt) as (_ & (_&_&_&Q2&_) & _).
    destruct (aw_B (aw1c (aw1 w2' a m) a nxt) a m nxt) as (_ & _ & (_&_&_&Q3&_)).
    change (w_stuck (aw2 (aw1c (aw1 w2' a m) a nxt) a m) = w_stuck w2'). rewrite Q3, Q2, Q1. reflexivity.
  - fold w2'. destruct (complete w2' t3 v) as [w3 ok] eqn:Ec.
    assert (Tg' : task_get (t_addr t3) (w_tasks w2') = Some t3) by (subst w2'; simpl; apply task_get_task_set_same).
    destruct (complete_K _ _ _ _ _ _ Tg' Ec) as [Q|(-> & Q1 & Q2)].
    + left. destruct ok; simpl; congruence.
    + right. exists (t_addr t3). unfold fatal. simpl. rewrite Q1, K3, Q2. split; auto. split; auto.
      apply task_get_Some_tcnt in Tg'. exact Tg'.
  - fold w2'. left. simpl. exact K3.
Qed.

Lemma main_step_K : forall atomic w w', main_step atomic w = Some w' -> stuckK w w'.
Proof.
  intros atomic w w' H. unfold main_step in H. destruct (w_pc w) eqn:Epc.
  - destruct (w_ready w); [destruct (w_delayed w)|]; injection H as <-; left; reflexivity.
  - destruct (last_opt (w_delayed w)); injection H as <-; left; reflexivity.
  - destruct (w_ready w) as [|a q]; injection H as <-; [left; reflexivity|]. apply (dispatch_K atomic (set_ready w q) a).
  - destruct (w_ready w) as [|a q]; [discriminate|]. injection H as <-. apply (dispatch_K atomic (set_ready w q) a).
  - injection H as <-. left. destruct (aw_B w a m nxt) as ((_&_&_&Q&_) & _ & _). simpl. exact Q.
  - injection H as <-. left. destruct (aw_B w a m nxt) as (_ & (_&_&_&Q&_) & _). simpl. exact Q.
  - injection H as <-. left. destruct (aw_B w a m false) as (_ & _ & (_&_&_&Q&_)). simpl. exact Q.
  - discriminate.
Qed.
