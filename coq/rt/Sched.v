(* C15 - executable model of the scheduler bookkeeping (no proofs in this file).

   Code -> model
     base.py  RuntimeEmployee                      employee (num_tasks, num_idle_workers, submit_cache, total_workers)
     base.py  ServerBase.assign_tasks              assign_tasks      (random.shuffle result `sh` and the random.random()
                                                                      tie-break values `rs` are oracle inputs)
     base.py  ServerBase.schedule_tasks            schedule_tasks    (per-employee body = GENERATED schedule_body)
     base.py  ServerBase.handle_waiting            srv_waiting       (= GENERATED handle_waiting / get_num_of_tasks_sent_since)
     base.py  send_result_down / is_my_worker /
              get_employee_responsible_for         srv_result        (GENERATED routing arithmetic)
     detached.py handle_message (BELOW), handle_result, handle_new_comp_task,
              handle_cancel_comp_task, broadcast   server_recv, EClientSubmit, EClientCancel
     worker.py (abstract worker)                   wstate, worker_recv, EWorker* events
   Flat topology: one server, n workers, one FIFO channel per direction per worker.

   The abstract worker keeps what the bookkeeping depends on: the read receipt
   (most_recent_read_submit), the tasks it holds (_tasks + _delayed_tasks), whether its main
   loop is blocked after sending WAITING, the CANCEL addresses it has seen.  What a task body
   does (spawn children, finish, cancel a future) and when the worker finds its ready queue
   empty are events chosen by the schedule; the theorems quantify over all of them. *)
From Coq Require Import ZArith List Bool Arith.
From BQ Require Import rt.SchedPre gen.SchedArith.
Import ListNotations.
Open Scope Z_scope.

(* ---------- data ---------- *)

(* tid: unique_id (= return address, one integer per distinct address); tret: worker_id of the
   return address (-1 = client mailbox on the server); tanc: breadcrumbs *)
Record task := mkTask { tid : Z; tret : Z; tanc : list Z }.

Record employee := mkEmp {
  e_total : Z;               (* total_workers *)
  e_num_tasks : Z;
  e_num_idle : Z;            (* num_idle_workers *)
  e_cache : list (Z * Z)     (* submit_cache: (unique_id of the first task of a batch, batch size) *)
}.

Record server := mkSrv {
  s_lb : Z;                  (* lower_id_bound *)
  s_step : Z;                (* step_size *)
  s_emps : list employee;
  s_num_idle : Z;            (* num_idle_workers *)
  s_total : Z                (* total_workers *)
}.

(* result of running a handler under a schedule: a new state, "event not enabled in this state"
   (the environment's choice was not possible), or an exception escaping the handler *)
Inductive outcome (A : Type) := Done (a : A) | Disabled | Fault (e : exn).
Arguments Done {A} a.
Arguments Disabled {A}.
Arguments Fault {A} e.

Definition of_res {A} (r : res A) : outcome A :=
  match r with Ok a => Done a | Raise e => Fault e end.

Definition obind {A B} (o : outcome A) (f : A -> outcome B) : outcome B :=
  match o with Done a => f a | Disabled => Disabled | Fault e => Fault e end.

(* ---------- list helpers ---------- *)

Fixpoint upd {A} (i : nat) (f : A -> A) (l : list A) : list A :=
  match l, i with
  | [], _ => []
  | x :: l', O => f x :: l'
  | x :: l', S i' => x :: upd i' f l'
  end.

Fixpoint add_at {A} (i : nat) (x : A) (a : list (list A)) : option (list (list A)) :=
  match a, i with
  | [], _ => None
  | l :: a', O => Some ((l ++ [x]) :: a')
  | l :: a', S i' => option_map (cons l) (add_at i' x a')
  end.

Definition is_perm (a b : list nat) : bool :=
  forallb (fun x => Nat.eqb (count_occ Nat.eq_dec a x) (count_occ Nat.eq_dec b x)) (a ++ b).

Definition zmem (x : Z) (l : list Z) : bool := existsb (Z.eqb x) l.

Fixpoint znodup (l : list Z) : bool :=
  match l with [] => true | x :: l' => negb (zmem x l') && znodup l' end.

(* ---------- assign_tasks ---------- *)

(* every employee's index repeated as many times as it has idle workers ([i] * n is [] for n <= 0) *)
Definition idle_ids (es : list employee) : list nat :=
  concat (map (fun ie => repeat (fst ie) (Z.to_nat (e_num_idle (snd ie)))) (combine (seq 0 (length es)) es)).

(* for idle_employee_id, task in zip(idle_id_repeated_list, tasks): assignments[id].append(task) *)
Fixpoint zip_assign {A} (sh : list nat) (ts : list A) (a : list (list A)) : option (list (list A)) :=
  match sh, ts with
  | i :: sh', t :: ts' =>
      match add_at i t a with Some a' => zip_assign sh' ts' a' | None => None end
  | _, _ => Some a
  end.

(* Python tuple order on (num_tasks, random value, employee index) *)
Definition lt3 (x y : Z * Z * nat) : bool :=
  let '(n1, r1, i1) := x in let '(n2, r2, i2) := y in
  (n1 <? n2) || ((n1 =? n2) && ((r1 <? r2) || ((r1 =? r2) && Nat.ltb i1 i2))).

(* one pass of "swap the updated head up while it is greater than its successor";
   also the insertion step of sorted() *)
Fixpoint insert3 (x : Z * Z * nat) (l : list (Z * Z * nat)) : list (Z * Z * nat) :=
  match l with
  | [] => [x]
  | y :: l' => if lt3 y x then y :: insert3 x l' else x :: l
  end.

Definition sort3 (l : list (Z * Z * nat)) : list (Z * Z * nat) := fold_right insert3 [] l.

(* while len(remaining_tasks) > 0: ... remaining_tasks.pop() ...   (argument: remaining reversed) *)
Fixpoint least_loaded {A} (rem_rev : list A) (nt : list (Z * Z * nat)) (a : list (list A)) : option (list (list A)) :=
  match rem_rev with
  | [] => Some a
  | t :: r' =>
      match nt with
      | [] => None                                     (* ntasks[0] with no employees: IndexError *)
      | (n, r, i) :: nt' =>
          match add_at i t a with
          | Some a' => least_loaded r' (insert3 (n + 1, r, i) nt') a'
          | None => None
          end
      end
  end.

Definition assign_tasks {A} (es : list employee) (ts : list A) (sh : list nat) (rs : list Z) : option (list (list A)) :=
  match zip_assign sh ts (map (fun _ => []) es) with
  | None => None
  | Some a1 =>
      let nrem := assign_num_remaining ts (map Z.of_nat sh) in
      if assign_no_remaining nrem then Some a1
      else
        let nt := sort3 (map (fun ier => (e_num_tasks (snd (fst ier)) + zlen (nth (fst (fst ier)) a1 []), snd ier, fst (fst ier)))
                             (combine (combine (seq 0 (length es)) es) rs)) in
        least_loaded (rev (assign_remaining_tasks ts nrem)) nt a1
  end.

(* ---------- schedule_tasks ---------- *)

(* per-employee loop body (generated), run with an empty outgoing list *)
Definition sched_one (i : nat) (e : employee) (a : list task) : res (employee * list (action task)) :=
  bind (schedule_body tid (Z.of_nat i) (e_num_tasks e) (e_num_idle e) (e_cache e) a [])
       (fun r => let '(nt, ni, c, out) := r in Ok (mkEmp (e_total e) nt ni c, out)).

Fixpoint sched_all (i : nat) (es : list employee) (asg : list (list task)) : res (list (employee * list (action task))) :=
  match es, asg with
  | e :: es', a :: asg' =>
      bind (sched_one i e a) (fun x => bind (sched_all (S i) es' asg') (fun xs => Ok (x :: xs)))
  | _, _ => Ok []
  end.

(* sorted(zip(employees, assignments), key = num_idle_workers, reverse = True): stable, descending *)
Fixpoint insert_desc (x : Z * list (action task)) (l : list (Z * list (action task))) :=
  match l with
  | [] => [x]
  | y :: l' => if fst x <? fst y then y :: insert_desc x l' else x :: l
  end.

Definition batches_of (acts : list (action task)) : list (nat * list task) :=
  concat (map (fun a => match a with APut c M_SUBMIT_BATCH (PTasks l) => [(Z.to_nat c, l)] | _ => [] end) acts).

(* returns the updated node and the SUBMIT_BATCH messages in the order they are put on self.outgoing *)
Definition schedule_tasks (s : server) (ts : list task) (sh : list nat) (rs : list Z)
  : outcome (server * list (nat * list task)) :=
  if schedule_nothing ts then Done (s, [])
  else if negb (is_perm sh (idle_ids (s_emps s)) && Nat.eqb (length rs) (length (s_emps s))) then Disabled
  else match assign_tasks (s_emps s) ts sh rs with
       | None => Fault IndexError
       | Some asg =>
           obind (of_res (sched_all 0 (s_emps s) asg)) (fun xs =>
             let es' := map fst xs in
             let order := fold_right insert_desc [] (combine (map e_num_idle (s_emps s)) (map snd xs)) in
             Done (mkSrv (s_lb s) (s_step s) es' (schedule_total_idle e_num_idle es') (s_total s),
                   batches_of (concat (map snd order))))
       end.

(* ---------- the other server handlers ---------- *)

Definition set_idle_cache (ni : Z) (c : list (Z * Z)) (e : employee) : employee :=
  mkEmp (e_total e) (e_num_tasks e) ni c.
Definition set_tasks (nt : Z) (e : employee) : employee :=
  mkEmp (e_total e) nt (e_num_idle e) (e_cache e).

(* WAITING (n, r) from employee w *)
Definition srv_waiting (s : server) (w : nat) (n : Z) (r : option Z) : outcome server :=
  match nth_error (s_emps s) w with
  | None => Disabled
  | Some e =>
      obind (of_res (handle_waiting (e_cache e) (e_num_idle e) (s_num_idle s) (s_total s) n r)) (fun x =>
        let '(c, ni, si) := x in
        Done (mkSrv (s_lb s) (s_step s) (upd w (set_idle_cache ni c) (s_emps s)) si (s_total s)))
  end.

(* UPDATE d from employee w *)
Definition srv_update (s : server) (w : nat) (d : Z) : outcome server :=
  match nth_error (s_emps s) w with
  | None => Disabled
  | Some e =>
      obind (of_res (server_handle_update (e_num_tasks e) d)) (fun nt =>
        Done (mkSrv (s_lb s) (s_step s) (upd w (set_tasks nt) (s_emps s)) (s_num_idle s) (s_total s)))
  end.

Definition emp_index (s : server) (worker_id : Z) : res nat :=
  get_employee_responsible_for (s_lb s) (s_step s) (seq 0 (length (s_emps s))) worker_id.

(* RESULT (return address worker `dest`, completed_by `by_`): returns the employee the result is
   forwarded to, if any *)
Definition srv_result (s : server) (dest by_ : Z) : outcome (server * option nat) :=
  obind (of_res (emp_index s by_)) (fun j =>
    match nth_error (s_emps s) j with
    | None => Fault IndexError
    | Some e =>
        obind (of_res (server_handle_result_count (e_num_tasks e))) (fun nt =>
          let s' := mkSrv (s_lb s) (s_step s) (upd j (set_tasks nt) (s_emps s)) (s_num_idle s) (s_total s) in
          if dest =? -1 then Done (s', None)
          else if negb (is_my_worker (s_lb s) (s_step s) (zlen (s_emps s)) dest) then Fault RuntimeError
          else obind (of_res (emp_index s dest)) (fun k => Done (s', Some k)))
    end).

(* ---------- channels, workers, system ---------- *)

Inductive dmsg := DBatch (ts : list task) | DResult (dest : Z) | DCancel (a : Z).
Inductive umsg :=
| USubmit (t : task) | UBatch (ts : list task) | UWaiting (n : Z) (r : option Z)
| UResult (dest : Z) (by_ : Z) | UUpdate (d : Z) | UCancel (a : Z).

Record wstate := mkW {
  w_mrrs : option Z;         (* most_recent_read_submit *)
  w_held : list task;        (* tasks on the worker that may still complete *)
  w_blocked : bool;          (* main loop blocked on the empty ready queue after sending WAITING *)
  w_cancelled : list Z       (* _cancelled_task_ids *)
}.

Record sys := mkSys {
  srv : server;
  downs : list (list dmsg);  (* server -> worker i, oldest first *)
  ups : list (list umsg);    (* worker i -> server, oldest first *)
  wks : list wstate;
  seen : list Z;             (* unique ids allocated so far (mailbox counters) *)
  sent_log : list (nat * list task)   (* every SUBMIT_BATCH the server has put, oldest first *)
}.

Inductive event :=
| EClientSubmit (ts : list task) (sh : list nat) (rs : list Z)
| EClientCancel (a : Z)
| EServerRecv (w : nat) (sh : list nat) (rs : list Z)
| EWorkerRecv (w : nat) (wake : bool)
| EWorkerFinish (w : nat) (t : Z)
| EWorkerSubmit (w : nat) (t : task)
| EWorkerMap (w : nat) (ts : list task)
| EWorkerCancel (w : nat) (a : Z)
| EWorkerDrop (w : nat) (t : Z)
| EWorkerIdle (w : nat).

Definition push {A} (i : nat) (x : A) (chs : list (list A)) : list (list A) := upd i (fun q => q ++ [x]) chs.

Definition push_batches (sends : list (nat * list task)) (d : list (list dmsg)) : list (list dmsg) :=
  fold_left (fun d' s => push (fst s) (DBatch (snd s)) d') sends d.

Definition is_desc (a : Z) (t : task) : bool := (a =? tid t) || zmem a (tanc t).

Definition fresh_tasks (ts : list task) (sn : list Z) : bool :=
  znodup (map tid ts) && forallb (fun t => negb (zmem (tid t) sn)) ts.

Definition wid (s : server) (w : nat) : Z := sw_w_id (s_lb s) (Z.of_nat w).

Definition do_schedule (st : sys) (ts : list task) (sh : list nat) (rs : list Z) (ups' : list (list umsg)) (seen' : list Z) : outcome sys :=
  obind (schedule_tasks (srv st) ts sh rs) (fun x =>
    let '(s', sends) := x in
    Done (mkSys s' (push_batches sends (downs st)) ups' (wks st) seen' (sent_log st ++ sends))).

Definition server_recv (st : sys) (w : nat) (sh : list nat) (rs : list Z) : outcome sys :=
  match nth_error (ups st) w with
  | None | Some [] => Disabled
  | Some (m :: q) =>
      let ups' := upd w (fun _ => q) (ups st) in
      match m with
      | USubmit t => do_schedule st [t] sh rs ups' (seen st)
      | UBatch ts => do_schedule st ts sh rs ups' (seen st)
      | UWaiting n r =>
          obind (srv_waiting (srv st) w n r) (fun s' =>
            Done (mkSys s' (downs st) ups' (wks st) (seen st) (sent_log st)))
      | UUpdate d =>
          obind (srv_update (srv st) w d) (fun s' =>
            Done (mkSys s' (downs st) ups' (wks st) (seen st) (sent_log st)))
      | UResult dest by_ =>
          obind (srv_result (srv st) dest by_) (fun x =>
            let '(s', fwd) := x in
            let d' := match fwd with Some k => push k (DResult dest) (downs st) | None => downs st end in
            Done (mkSys s' d' ups' (wks st) (seen st) (sent_log st)))
      | UCancel a =>
          Done (mkSys (srv st) (map (fun q' => q' ++ [DCancel a]) (downs st)) ups' (wks st) (seen st) (sent_log st))
      end
  end.

Definition worker_recv (st : sys) (w : nat) (wake : bool) : outcome sys :=
  match nth_error (downs st) w, nth_error (wks st) w with
  | Some (m :: q), Some k =>
      let d' := upd w (fun _ => q) (downs st) in
      match m with
      | DBatch [] => Fault IndexError                                    (* tasks[0] *)
      | DBatch (t0 :: ts') =>
          Done (mkSys (srv st) d' (ups st)
                      (upd w (fun _ => mkW (Some (tid t0)) (w_held k ++ t0 :: ts') false (w_cancelled k)) (wks st))
                      (seen st) (sent_log st))
      | DResult _ =>
          let b := if wake && negb (match w_held k with [] => true | _ => false end) then false else w_blocked k in
          Done (mkSys (srv st) d' (ups st) (upd w (fun _ => mkW (w_mrrs k) (w_held k) b (w_cancelled k)) (wks st))
                      (seen st) (sent_log st))
      | DCancel a =>
          Done (mkSys (srv st) d' (ups st)
                      (upd w (fun _ => mkW (w_mrrs k) (filter (fun t => negb (is_desc a t)) (w_held k)) (w_blocked k)
                                           (a :: w_cancelled k)) (wks st))
                      (seen st) (sent_log st))
      end
  | _, _ => Disabled
  end.

Fixpoint take_task (t : Z) (l : list task) : option (task * list task) :=
  match l with
  | [] => None
  | x :: l' => if tid x =? t then Some (x, l')
               else match take_task t l' with Some (y, r) => Some (y, x :: r) | None => None end
  end.

(* actions of worker w's main loop; only possible while it is not blocked *)
Definition worker_act (st : sys) (w : nat) (f : wstate -> outcome (wstate * list umsg * list Z)) : outcome sys :=
  match nth_error (wks st) w with
  | None => Disabled
  | Some k =>
      if w_blocked k then Disabled
      else obind (f k) (fun x =>
        let '(k', msgs, newids) := x in
        Done (mkSys (srv st) (downs st) (upd w (fun q => q ++ msgs) (ups st)) (upd w (fun _ => k') (wks st))
                    (newids ++ seen st) (sent_log st)))
  end.

Definition step (st : sys) (ev : event) : outcome sys :=
  match ev with
  | EClientSubmit ts sh rs =>
      if fresh_tasks ts (seen st) && forallb (fun t => tret t =? -1) ts
      then do_schedule st ts sh rs (ups st) (map tid ts ++ seen st)
      else Disabled
  | EClientCancel a =>
      Done (mkSys (srv st) (map (fun q => q ++ [DCancel a]) (downs st)) (ups st) (wks st) (seen st) (sent_log st))
  | EServerRecv w sh rs => server_recv st w sh rs
  | EWorkerRecv w wake => worker_recv st w wake
  | EWorkerFinish w t =>
      worker_act st w (fun k =>
        match take_task t (w_held k) with
        | None => Disabled
        | Some (x, rest) =>
            let m := if tret x =? wid (srv st) w then UUpdate (-1) else UResult (tret x) (wid (srv st) w) in
            Done (mkW (w_mrrs k) rest false (w_cancelled k), [m], [])
        end)
  | EWorkerSubmit w t =>
      worker_act st w (fun k =>
        match w_held k with
        | [] => Disabled
        | _ => if fresh_tasks [t] (seen st) && (tret t =? wid (srv st) w)
               then Done (k, [USubmit t], [tid t]) else Disabled
        end)
  | EWorkerMap w ts =>
      worker_act st w (fun k =>
        match w_held k, ts with
        | [], _ | _, [] => Disabled
        | _, _ => if fresh_tasks ts (seen st) && forallb (fun t => tret t =? wid (srv st) w) ts
                  then Done (k, [UBatch ts], map tid ts) else Disabled
        end)
  | EWorkerCancel w a => worker_act st w (fun k => Done (k, [UCancel a], []))
  | EWorkerDrop w t =>
      worker_act st w (fun k =>
        match take_task t (w_held k) with
        | None => Disabled
        | Some (x, rest) =>
            if existsb (fun a => is_desc a x) (w_cancelled k)
            then Done (mkW (w_mrrs k) rest false (w_cancelled k), [], []) else Disabled
        end)
  | EWorkerIdle w =>
      worker_act st w (fun k => Done (mkW (w_mrrs k) (w_held k) true (w_cancelled k), [UWaiting 1 (w_mrrs k)], []))
  end.

Fixpoint run (st : sys) (evs : list event) : outcome sys :=
  match evs with
  | [] => Done st
  | ev :: evs' => obind (step st ev) (fun st' => run st' evs')
  end.

(* AttachedServer / DetachedServer after spawn_workers(n) / connect_to_workers(n), workers just started *)
Definition init (lb : Z) (n : nat) : sys :=
  mkSys (mkSrv lb sw_step_size (repeat (mkEmp 1 0 1 []) n) (Z.of_nat n) (Z.of_nat n))
        (repeat [] n) (repeat [] n) (repeat (mkW None [] false []) n) [] [].

(* ---------- observations used by the theorems and the harness ---------- *)

Definition batch_tasks (d : list dmsg) : list task :=
  concat (map (fun m => match m with DBatch ts => ts | _ => [] end) d).
Definition completions (u : list umsg) : Z :=
  zlen (filter (fun m => match m with UResult _ _ | UUpdate _ => true | _ => false end) u).
Definition pending_tasks (u : list umsg) : list task :=
  concat (map (fun m => match m with USubmit t => [t] | UBatch ts => ts | _ => [] end) u).
Definition has_waiting (u : list umsg) : bool :=
  existsb (fun m => match m with UWaiting _ _ => true | _ => false end) u.

(* nothing in flight, every worker blocked with no task left *)
Definition quiescent (st : sys) : bool :=
  forallb (fun d => match d with [] => true | _ => false end) (downs st)
  && forallb (fun u => match u with [] => true | _ => false end) (ups st)
  && forallb (fun k => w_blocked k && match w_held k with [] => true | _ => false end) (wks st).

Definition is_cancel_event (ev : event) : bool :=
  match ev with EClientCancel _ | EWorkerCancel _ _ | EWorkerDrop _ _ => true | _ => false end.
