(* C13 (extension): the way UP of ERROR and LOG messages through a tree of nodes of any shape and
   depth -- workers at the leaves, Managers in between, the DetachedServer (rt/ServerM.v) at the
   root, any number of clients on the server.  No proofs in this file (rt/ErrTreeThm.v).

   Code -> definitions
     Worker._try_step_next_ready_task, `except Exception`:           NRaise p KErr mb m
        self._conn.send((ERROR, (active_task.comp_task_id, text)))      (mb = comp_task_id, m = text)
     Worker record_factory: self._conn.send((LOG, (tid, serial)))    NRaise p KLog mb l
     Manager.handle_message, direction BELOW, final `else`:           NDeliver p, boss of p is a manager:
        self.outgoing.put((self.upstream, msg, payload))                 the payload moves UNCHANGED to the
        ("Forward all other messages up")                                boss's own upward link
     DetachedServer.handle_message BELOW: ERROR -> handle_error,      NDeliver p, boss of p is the server:
        LOG -> handle_log                                                ServerM.step (Error mb m / Log mb l)
     client requests and RESULTs at the server                        NSrv e  (any ServerM event)

   A node is addressed by the path from itself up to the server: p = [i_k; ...; i_1], i_1 the index
   of the server's employee, `tl p` its boss, [] the server.  One upward link per node; `chan` is
   the flat list of (link, message) in flight, oldest first; NDeliver p takes the OLDEST message of
   link p (per-link FIFO; any interleaving between links and with the server's other events).
   Ghost (never read by a transition): hist = the events the server has handled, oldest first;
   below = the payloads that reached the server from below, oldest first. *)
From Coq Require Import List Arith Bool.
From BQ Require Import rt.ServerM.
Import ListNotations.

Definition path := list nat.
Inductive kind := KErr | KLog.
Definition umsg : Type := kind * nat * nat.          (* ERROR / LOG, comp_task_id, text / record *)

Record net := mkNet {
  chan : list (path * umsg);
  srv : state;
  hist : list event;
  below : list umsg
}.

Definition net0 : net := mkNet [] init [] [].

Inductive nev :=
| NRaise (p : path) (k : kind) (mb m : nat)
| NDeliver (p : path)
| NSrv (e : event).

Fixpoint path_eqb (p q : path) : bool :=
  match p, q with
  | [], [] => true
  | a :: p', b :: q' => (a =? b) && path_eqb p' q'
  | _, _ => false
  end.

(* oldest message of link p, and the channel without it *)
Fixpoint take_first (p : path) (ch : list (path * umsg)) : option (umsg * list (path * umsg)) :=
  match ch with
  | [] => None
  | (q, u) :: r =>
    if path_eqb p q then Some (u, r)
    else match take_first p r with
         | Some (u', r') => Some (u', (q, u) :: r')
         | None => None
         end
  end.

Definition to_event (u : umsg) : event :=
  match u with
  | (KErr, mb, m) => Error mb m
  | (KLog, mb, l) => Log mb l
  end.

Definition nstep (v : variant) (n : net) (e : nev) : net * list out :=
  match e with
  | NRaise p k mb m =>
    match p with
    | [] => (n, [])                                    (* the server runs no tasks *)
    | _ => (mkNet (chan n ++ [(p, (k, mb, m))]) (srv n) (hist n) (below n), [])
    end
  | NDeliver p =>
    match take_first p (chan n) with
    | None => (n, [])                                  (* nothing to read on that link *)
    | Some (u, ch') =>
      match p with
      | [] => (n, [])
      | [_] => let '(s', o) := step v (srv n) (to_event u) in
               (mkNet ch' s' (hist n ++ [to_event u]) (below n ++ [u]), o)
      | _ :: q => (mkNet (ch' ++ [(q, u)]) (srv n) (hist n) (below n), [])
      end
    end
  | NSrv e => let '(s', o) := step v (srv n) e in
              (mkNet (chan n) s' (hist n ++ [e]) (below n), o)
  end.

Fixpoint nrun (v : variant) (n : net) (es : list nev) : net * list (list out) :=
  match es with
  | [] => (n, [])
  | e :: r => let '(n1, o) := nstep v n e in
              let '(n2, os) := nrun v n1 r in (n2, o :: os)
  end.

(* what the workers have sent, oldest first *)
Fixpoint raised (es : list nev) : list umsg :=
  match es with
  | [] => []
  | NRaise (_ :: _) k mb m :: r => (k, mb, m) :: raised r
  | _ :: r => raised r
  end.

(* hops still to go for everything in flight *)
Definition weight (ch : list (path * umsg)) : nat :=
  fold_right (fun x a => length (fst x) + a) 0 ch.

(* the server events an event list hands to the server directly *)
Fixpoint direct (es : list nev) : list event :=
  match es with
  | [] => []
  | NSrv e :: r => e :: direct r
  | _ :: r => direct r
  end.

Definition from_client (e : event) : bool :=
  match e with Error _ _ | Log _ _ => false | _ => true end.
