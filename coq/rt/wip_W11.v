From Coq Require Import List Arith Bool PeanoNat Lia Permutation.
Import ListNotations.
From BQ Require Import rt.WorkerM rt.wip_W1 rt.wip_W2 rt.wip_W3 rt.wip_W4 rt.wip_W5 rt.wip_W6 rt.wip_W7 rt.wip_W8 rt.wip_W9 rt.wip_W10.

Lemma winvV_w0 : forall j, winvV (w0 j).
Proof. intro j. constructor; simpl; auto.
  - constructor.
  - tauto.
  - intros; discriminate.
  - tauto.
  - exact Logic.I. Qed.

Lemma invV_init : forall k, invV (sys0 k).
Proof. intro k. constructor; simpl.
  - intros w Hw. apply in_map_iff in Hw. destruct Hw as (j & <- & _). apply winvV_w0.
  - intros w t Hw Ht. apply in_map_iff in Hw. destruct Hw as (j & <- & _). simpl in Ht. tauto.
  - intros w t Hw Ht. apply in_map_iff in Hw. destruct Hw as (j & <- & _). simpl in Ht. tauto.
  - intros q t Hq Ht. apply repeat_spec in Hq. subst. simpl in Ht. tauto.
  - intros w p Hw Hp. apply in_map_iff in Hw. destruct Hw as (j & <- & _). simpl in Hp. tauto.
  - intros q p Hq Hp. apply repeat_spec in Hq. subst. simpl in Hp. tauto.
  - tauto. Qed.

Definition reachable (atomic : bool) (k : nat) (s : sys) : Prop := exists es, steps atomic (sys0 k) es = Some s.

Lemma steps_inv : forall atomic es s s', invA s /\ invV s -> steps atomic s es = Some s' -> invA s' /\ invV s'.
Proof. induction es as [|e r IH]; simpl; intros s s' [IA IV] H.
  - injection H as <-. auto.
  - destruct (step atomic s e) as [s1|] eqn:E; [|discriminate]. apply (IH s1); auto.
    split; [eapply step_invA; eauto|eapply step_invV; eauto]. Qed.

Lemma reachable_inv : forall atomic k s, reachable atomic k s -> invA s /\ invV s.
Proof. intros atomic k s [es H]. eapply steps_inv; [|exact H]. split; [apply invA_init|apply invV_init]. Qed.

(* ---- conservation ---- *)
Definition quiescent_tasks (s : sys) : Prop :=
  (forall q, In q (s_down s) -> chan_tasks q = []) /\
  (forall w, In w (s_workers s) -> chan_tasks (w_out w) = [] /\ w_delayed w = []).

Lemma n_running_le : forall a s, n_running a s <= sumf (fun w => tcnt a (w_held w)) (s_workers s).
Proof. intros. unfold n_running. induction (s_workers s) as [|w r IH]; simpl; auto.
  pose proof (tasks_le_held a w). lia. Qed.

Theorem task_conservation : forall atomic k s, reachable atomic k s ->
  forall a, n_task a s + n_fin a s = n_created a s /\ n_created a s <= 1 /\
            n_started a s <= n_created a s /\
            (quiescent_tasks s -> n_started a s = n_created a s).
Proof.
  intros atomic k s R a. destruct (reachable_inv _ _ _ R) as [IA _].
  pose proof (A_cons s IA a) as C. pose proof (A_uniq s IA a) as U. pose proof (A_start s IA a) as S.
  pose proof (n_running_le a s) as L. unfold n_task in *.
  split; [exact C|]. split; [exact U|]. split; [lia|].
  intros [Q1 Q2].
  assert (D0 : dcnt a (s_down s) = 0).
  { unfold dcnt. apply sumf_zero. intros q Hq. rewrite (Q1 q Hq). reflexivity. }
  assert (H0 : sumf (fun w => tcnt a (w_held w)) (s_workers s) = n_running a s).
  { unfold n_running. apply sumf_ext. intros w Hw. destruct (Q2 w Hw) as [E1 E2]. unfold w_held. rewrite E1, E2. reflexivity. }
  lia.
Qed.

(* ---- values ---- *)
Theorem slot_values : forall atomic k s, reachable atomic k s ->
  (forall w a sc mo f vs, In w (s_workers s) -> In (a, sc, mo, OAwait f vs) (w_log w) ->
     forall i v, nth_error vs i = Some (Some v) -> slot_spec sc f i v) /\
  (forall w a sc mo f bt, In w (s_workers s) -> In (a, sc, mo, ONext f bt) (w_log w) ->
     forall i v, In (i, v) bt -> slot_spec sc f i v) /\
  (forall a v, In (a, v) (s_client s) -> In (a_box a, v) (s_roots s)) /\
  (forall b v v', In (b, v) (s_roots s) -> In (b, v') (s_roots s) -> v = v').
Proof.
  intros atomic k s R. destruct (reachable_inv _ _ _ R) as [IA IV].
  split; [|split; [|split]].
  - intros w a sc mo f vs Hw Hin. pose proof (V_log w (VG_w s IV w Hw)) as L. rewrite Forall_forall in L.
    apply (L _ Hin).
  - intros w a sc mo f bt Hw Hin. pose proof (V_log w (VG_w s IV w Hw)) as L. rewrite Forall_forall in L.
    apply (L _ Hin).
  - apply (VG_client s IV).
  - intros b v v' H1 H2.
    assert (N : NoDup (map root_addr (s_roots s))).
    { apply cnt_le1_NoDup. intro a. pose proof (A_uniq s IA a) as U. unfold n_created in U. lia. }
    clear - H1 H2 N. induction (s_roots s) as [|[b0 v0] r IH]; simpl in *; [tauto|].
    inversion N as [|x l Hnot Hnd]; subst.
    destruct H1 as [E1|H1]; destruct H2 as [E2|H2].
    + congruence.
    + injection E1 as -> ->. exfalso. apply Hnot. apply in_map_iff. exists (b, v'). auto.
    + injection E2 as -> ->. exfalso. apply Hnot. apply in_map_iff. exists (b, v). auto.
    + auto.
Qed.
