From Coq Require Import List Arith Bool PeanoNat Lia Permutation.
Import ListNotations.
From BQ Require Import rt.WorkerM rt.wip_W1 rt.wip_W2 rt.wip_W3 rt.wip_W4 rt.wip_W5 rt.wip_W6 rt.wip_W7 rt.wip_W8 rt.wip_W9 rt.wip_W10 rt.wip_W11 rt.wip_W12.

Definition rdcnt (a : addr) (d : list (list msg)) : nat := sumf (fun q => rcnt a (chan_res q)) d.
Definition n_stuck (a : addr) (s : sys) : nat := sumf (fun w => cnt a (w_stuck w)) (s_workers s).
Definition n_resB (a : addr) (s : sys) : nat :=
  rdcnt a (s_down s) + sumf (w_resB a) (s_workers s) + rcnt a (s_client s).
Definition n_dep (a : addr) (s : sys) : nat := sumf (fun w => cnt a (w_deposited w)) (s_workers s).

Definition stuck_ok (w : wstate) : Prop :=
  (forall x, cnt x (w_stuck w) <= tcnt x (w_tasks w)) /\ (w_stuck w <> [] -> w_pc w = PDead).

Record invB (s : sys) : Prop := {
  B_cons : forall a, n_resB a s = n_fin a s + n_stuck a s;
  B_stuck : forall w, In w (s_workers s) -> stuck_ok w
}.

Lemma invB_init : forall k, invB (sys0 k).
Proof. intro k. constructor.
  - intro a. unfold n_resB, n_fin, n_stuck, rdcnt. simpl. rewrite !sumf_zero; auto.
    + intros w Hw. apply in_map_iff in Hw. destruct Hw as (j & <- & _). reflexivity.
    + intros w Hw. apply in_map_iff in Hw. destruct Hw as (j & <- & _). reflexivity.
    + intros w Hw. apply in_map_iff in Hw. destruct Hw as (j & <- & _). reflexivity.
    + intros q Hq. apply repeat_spec in Hq. subst. reflexivity.
  - intros w Hw. apply in_map_iff in Hw. simpl in Hw. destruct Hw as (j & <- & _). split; simpl; intros; [unfold cnt; simpl; lia|congruence].
Qed.

Lemma recv_step_K : forall w m, w_stuck (recv_step w m) = w_stuck w /\ w_pc (recv_step w m) = w_pc w /\
  w_finished (recv_step w m) = w_finished w.
Proof. intros. unfold recv_step. destruct (w_rdead w); auto.
  destruct m as [t|ts|a v c|r| |c| |a]; auto.
  - destruct ts as [|t0 r]; auto. destruct (last_opt (t0 :: r)); auto.
  - destruct (handle_result w a v) as [w1 ok] eqn:E.
    destruct (handle_result_B _ _ _ _ _ E) as (B1 & B2 & B3 & B4 & B5).
    destruct (handle_result_A _ _ _ _ _ E) as (_&_&_&_&_&_&_&_).
    assert (P : w_pc w1 = w_pc w).
    { clear - E. unfold handle_result in E.
      destruct (negb (dest_eqb (a_w a) (me w))); [injection E as <- _; reflexivity|].
      destruct (box_get (a_box a) (w_boxes w)); [|injection E as <- _; reflexivity].
      destruct (deposit m (a_slot a) v) as [b1 ok1]. destruct (negb ok1); [injection E as <- _; reflexivity|].
      destruct (b_dest b1); [|injection E as <- _; reflexivity]. cbn [w_tasks set_deposited set_boxes] in E.
      destruct (task_get a0 (w_tasks w)); [|injection E as <- _; reflexivity].
      destruct (t_won t || b_ready b1); injection E as <- _; reflexivity. }
    destruct ok; simpl; auto. Qed.

Lemma rdcnt_set_nth_pop : forall a d i m q, nth_error d i = Some (m :: q) ->
  rdcnt a (set_nth i q d) + rcnt a (msg_res m) = rdcnt a d.
Proof. intros. unfold rdcnt. pose proof (sumf_set_nth _ (fun q => rcnt a (chan_res q)) i (m :: q) q d H) as E.
  cbn beta in E. unfold chan_res in E at 2. simpl in E. fold (chan_res q) in E. rewrite rcnt_app in E. lia. Qed.
Lemma rdcnt_push_down : forall a i m d, i < length d ->
  rdcnt a (push_down i m d) = rdcnt a d + rcnt a (msg_res m).
Proof. intros. unfold push_down, upd, rdcnt. destruct (nth_error d i) as [q|] eqn:E.
  - pose proof (sumf_set_nth _ (fun q => rcnt a (chan_res q)) i q (q ++ [m]) d E) as Hs.
    cbn beta in Hs. rewrite chan_res_app, rcnt_app in Hs. simpl in Hs. rewrite app_nil_r in Hs. lia.
  - apply nth_error_None in E. lia. Qed.
Lemma rdcnt_schedule : forall a ts asg d, rdcnt a (schedule ts asg d) = rdcnt a d.
Proof. intros a ts asg. unfold schedule. induction asg as [|p r IH]; simpl; intros; auto.
  rewrite IH. unfold push_down, upd. destruct (nth_error d (fst p)) as [q|] eqn:E; auto.
  unfold rdcnt. pose proof (sumf_set_nth _ (fun q => rcnt a (chan_res q)) (fst p) q (q ++ [MSubmitBatch (pick ts (snd p))]) d E) as Hs.
  cbn beta in Hs. rewrite chan_res_app, rcnt_app in Hs. change (rcnt a (chan_res [MSubmitBatch (pick ts (snd p))])) with 0 in Hs. lia. Qed.
Lemma rdcnt_map_cancel : forall a c d, rdcnt a (map (fun q => q ++ [MCancel c]) d) = rdcnt a d.
Proof. intros. unfold rdcnt. rewrite sumf_map. apply sumf_ext. intros q _. rewrite chan_res_app. simpl. rewrite app_nil_r. reflexivity. Qed.

Ltac rz := cbn [msg_res s_client set_workers]; repeat (match goal with |- context [rcnt ?a []] => change (rcnt a []) with 0 end).

Lemma invB_worker_step : forall s i w w' rin d',
  invB s -> nth_error (s_workers s) i = Some w -> stepB w w' rin -> stuck_ok w' ->
  (forall a, rdcnt a d' + rcnt a rin = rdcnt a (s_down s)) ->
  invB (mkSys (set_nth i w' (s_workers s)) d' (s_client s) (s_errors s) (s_nbox s) (s_fatal s) (s_roots s)).
Proof.
  intros s i w w' rin d' I Hw (fin & F1 & F2 & F3 & F4) Hs Hd. constructor; simpl.
  - intro a. pose proof (B_cons s I a) as C. unfold n_resB, n_fin, n_stuck in *. simpl.
    pose proof (sumf_set_nth _ (w_resB a) i w w' _ Hw) as E1.
    pose proof (sumf_set_nth _ (fun w => cnt a (map fst (w_finished w))) i w w' _ Hw) as E2.
    pose proof (sumf_set_nth _ (fun w => cnt a (w_stuck w)) i w w' _ Hw) as E3.
    cbn beta in *. rewrite F1, map_app, cnt_app in E2. specialize (F2 a). specialize (Hd a). lia.
  - intros w0 Hin. apply In_set_nth in Hin. destruct Hin as [->|Hin]; auto. apply (B_stuck s I); auto.
Qed.

Lemma step_invB : forall atomic s e s', invA s -> invV s -> invB s -> step atomic s e = Some s' -> invB s'.
Proof.
  intros atomic s e s' IA IV I H. destruct e as [sc target|i|i|i asg]; simpl in H.
  - (* client *)
    destruct (Nat.ltb target (length (s_workers s))) eqn:Et; [|discriminate]. injection H as <-. b2p.
    constructor; simpl; [|apply (B_stuck s I)].
    intro a. pose proof (B_cons s I a) as C. unfold n_resB, n_fin, n_stuck in *. simpl.
    rewrite rdcnt_push_down by (rewrite (A_len s IA); auto). rz. lia.
  - (* recv *)
    destruct (nth_error (s_workers s) i) as [w|] eqn:Ew; [|discriminate].
    destruct (nth_error (s_down s) i) as [[|m q]|] eqn:Ed; try discriminate.
    destruct (w_rdead w) eqn:Erd; [discriminate|]. injection H as <-.
    pose proof (nth_error_In _ _ Ew) as Hwin. pose proof (nth_error_In _ _ Ed) as Hqin.
    assert (Habs : forall t, In t (msg_tasks m) -> tcnt (t_addr t) (w_tasks w) = 0).
    { intros t Ht. apply task_get_None_tcnt. eapply absent_from_uniq; eauto. left.
      assert (G1 : tcnt (t_addr t) (chan_tasks (m :: q)) <= dcnt (t_addr t) (s_down s)).
      { apply (sumf_ge _ (fun q => tcnt (t_addr t) (chan_tasks q))). auto. }
      assert (G2 : tcnt (t_addr t) (chan_tasks (m :: q)) >= 1).
      { unfold tcnt. apply cnt_pos_in. apply in_map. rewrite chan_tasks_cons. apply in_or_app. auto. } lia. }
    pose proof (recv_step_B w m Erd Habs) as SB.
    assert (SO : stuck_ok (recv_step w m)).
    { destruct (recv_step_K w m) as (K1 & K2 & K3). destruct (B_stuck s I w Hwin) as (J1 & J2).
      destruct SB as (fin & F1 & F2 & F3 & F4). rewrite K3 in F1.
      assert (fin = []). { rewrite <- (app_nil_r (w_finished w)) in F1 at 1. apply app_inv_head in F1. auto. }
      subst fin. split; [|rewrite K1, K2; auto].
      intro x. rewrite K1. specialize (J1 x). specialize (F4 x). simpl in F4. rewrite cnt_nil in F4. lia. }
    apply (invB_worker_step s i w (recv_step w m) (msg_res m) (set_nth i q (s_down s))); auto;
    intro a; apply rdcnt_set_nth_pop; auto.
  - (* main *)
    destruct (nth_error (s_workers s) i) as [w|] eqn:Ew; [|discriminate].
    destruct (main_step atomic w) as [w'|] eqn:Em; [|discriminate]. injection H as <-.
    pose proof (nth_error_In _ _ Ew) as Hwin.
    assert (Habs : forall t, In t (w_delayed w) -> tcnt (t_addr t) (w_tasks w) = 0).
    { intros t Ht. apply task_get_None_tcnt. eapply absent_from_uniq; eauto. right. unfold tcnt. apply cnt_pos_in. apply in_map. auto. }
    pose proof (main_step_B atomic w w' Em Habs) as SB. pose proof (main_step_K atomic w w' Em) as K.
    assert (SO : stuck_ok w').
    { destruct (B_stuck s I w Hwin) as (J1 & J2).
      assert (Hnd : w_pc w <> PDead) by (intro E; unfold main_step in Em; rewrite E in Em; discriminate).
      assert (S0 : w_stuck w = []) by (destruct (w_stuck w) eqn:E0; auto; exfalso; apply Hnd; apply J2; congruence).
      destruct K as [K|(x & K1 & K2 & K3)].
      * split; [intro y; rewrite K, S0, cnt_nil; lia|]. rewrite K, S0. congruence.
      * split; [|auto]. intro y. rewrite K1, S0. simpl. rewrite cnt_single.
        destruct (addr_eqb y x) eqn:E; [apply addr_eqb_eq in E; subst; lia|lia]. }
    apply (invB_worker_step s i w w' [] (s_down s)); auto; intro a; rz; lia.
  - (* server *)
    destruct (nth_error (s_workers s) i) as [w|] eqn:Ew; [|discriminate].
    destruct (w_out w) as [|m q] eqn:Eo; [discriminate|].
    pose proof (nth_error_In _ _ Ew) as Hwin.
    set (w0 := set_out w q) in *.
    assert (Hres : forall a, w_resB a w0 + rcnt a (msg_res m) = w_resB a w).
    { intro a. unfold w_resB, w0. simpl. rewrite Eo. unfold chan_res at 2. simpl. fold (chan_res q). rewrite rcnt_app. lia. }
    assert (G : forall d' cl er ft,
              (forall a, rdcnt a d' + rcnt a cl = rdcnt a (s_down s) + rcnt a (s_client s) + rcnt a (msg_res m)) ->
              invB (mkSys (set_nth i w0 (s_workers s)) d' cl er (s_nbox s) ft (s_roots s))).
    { intros d' cl er ft Hd. constructor; simpl.
      - intro a. pose proof (B_cons s I a) as C. unfold n_resB, n_fin, n_stuck in *. simpl.
        pose proof (sumf_set_nth _ (w_resB a) i w w0 _ Ew) as E1.
        pose proof (sumf_set_nth _ (fun w => cnt a (map fst (w_finished w))) i w w0 _ Ew) as E2.
        pose proof (sumf_set_nth _ (fun w => cnt a (w_stuck w)) i w w0 _ Ew) as E3.
        simpl in E2, E3. specialize (Hres a). specialize (Hd a). lia.
      - intros w1 Hin. apply In_set_nth in Hin. destruct Hin as [->|Hin]; [|apply (B_stuck s I); auto].
        exact (B_stuck s I w Hwin). }
    unfold server_msg in H. cbn [s_workers set_workers s_down s_client s_errors s_nbox s_fatal s_roots] in H.
    rewrite set_nth_length in H.
    destruct m as [t|ts|a v c|r| |c| |a].
    + destruct (valid_asg (length (s_workers s)) 1 asg); [|discriminate]. injection H as <-.
      apply G. intro a. rewrite rdcnt_schedule. rz. lia.
    + destruct (valid_asg (length (s_workers s)) (length ts) asg); [|discriminate]. injection H as <-.
      apply G. intro a. rewrite rdcnt_schedule. rz. lia.
    + destruct (a_w a) as [|j] eqn:Ea.
      * injection H as <-. apply G. intro a0. rewrite rcnt_app. simpl. lia.
      * assert (Hj : j < length (s_workers s)).
        { destruct (VG_res_up s IV w (a, v) Hwin) as (Gd & _).
          { rewrite Eo. unfold chan_res. simpl. auto. }
          unfold good_addr in Gd. simpl in Gd. rewrite Ea in Gd. destruct Gd as (wj & Hwj & _).
          apply nth_error_Some. congruence. }
        apply Nat.ltb_lt in Hj. rewrite Hj in H. injection H as <-. apply Nat.ltb_lt in Hj.
        apply G. intro a0. rewrite rdcnt_push_down by (rewrite (A_len s IA); auto). simpl. lia.
    + injection H as <-. apply G. intro a0. rz. lia.
    + injection H as <-. apply G. intro a0. rz. lia.
    + injection H as <-. apply G. intro a0. rz. lia.
    + injection H as <-. apply G. intro a0. rz. lia.
    + injection H as <-. apply G. intro a0. rewrite rdcnt_map_cancel. rz. lia.
Qed.
