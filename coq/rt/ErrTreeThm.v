(* C13 (extension): theorems about rt/ErrTree.v - ERROR / LOG messages on their way up through a
   tree of managers of any shape, composed with the server theorems of rt/ServerThm.v. *)
From Coq Require Import List Arith Bool Lia Permutation.
From BQ Require Import rt.ServerM rt.ServerThm rt.ErrTree.
Import ListNotations.

Lemma path_eqb_refl : forall p, path_eqb p p = true.
Proof. induction p; simpl; auto. rewrite Nat.eqb_refl. auto. Qed.

Lemma path_eqb_eq : forall p q, path_eqb p q = true -> p = q.
Proof.
  induction p as [|a p IH]; destruct q as [|b q]; simpl; intros H; try discriminate; auto.
  apply andb_true_iff in H as [A B]. apply Nat.eqb_eq in A. subst. f_equal. auto.
Qed.

Lemma nrun_cons : forall v n e r,
  nrun v n (e :: r) = (fst (nrun v (fst (nstep v n e)) r), snd (nstep v n e) :: snd (nrun v (fst (nstep v n e)) r)).
Proof. intros. simpl. destruct (nstep v n e). simpl. destruct (nrun v n0 r). reflexivity. Qed.

Lemma nrun_app : forall v es1 es2 n,
  nrun v n (es1 ++ es2) = (fst (nrun v (fst (nrun v n es1)) es2),
                           snd (nrun v n es1) ++ snd (nrun v (fst (nrun v n es1)) es2)).
Proof.
  induction es1 as [|e r IH]; intros.
  - simpl. destruct (nrun v n es2); reflexivity.
  - rewrite <- app_comm_cons, !nrun_cons, IH. reflexivity.
Qed.

(* ------------------------------------------------------------------ take_first *)
Lemma take_first_split : forall p ch u ch', take_first p ch = Some (u, ch') ->
  exists a b, ch = a ++ (p, u) :: b /\ ch' = a ++ b /\ (forall x, In x a -> path_eqb p (fst x) = false).
Proof.
  induction ch as [|[q w] r IH]; simpl; intros u ch' H; [discriminate|].
  destruct (path_eqb p q) eqn:E.
  - inversion H; subst. apply path_eqb_eq in E. subst. exists [], ch'. simpl. repeat split; auto. intros x [].
  - destruct (take_first p r) as [[u' r']|] eqn:T; [|discriminate]. inversion H; subst.
    destruct (IH _ _ eq_refl) as [a [b [A [B C]]]]. subst.
    exists ((q, w) :: a), b. simpl. repeat split; auto. intros x [X|X]; subst; auto.
Qed.

Lemma take_first_head : forall p u r, take_first p ((p, u) :: r) = Some (u, r).
Proof. intros. simpl. rewrite path_eqb_refl. reflexivity. Qed.

Lemma weight_app : forall a b, weight (a ++ b) = weight a + weight b.
Proof. induction a; simpl; intros; auto. unfold weight in *. simpl. rewrite IHa. lia. Qed.

Lemma weight_cons : forall x r, weight (x :: r) = length (fst x) + weight r.
Proof. reflexivity. Qed.

(* ------------------------------------------------------- the server inside the net *)
Definition srv_ok (v : variant) (n : net) : Prop := srv n = fst (run v init (hist n)).

Lemma run_snoc : forall v h e,
  run v init (h ++ [e]) = (fst (step v (fst (run v init h)) e),
                           snd (run v init h) ++ [snd (step v (fst (run v init h)) e)]).
Proof.
  intros. rewrite run_app. simpl. destruct (step v (fst (run v init h)) e). reflexivity.
Qed.

Lemma nstep_srv : forall v n e, srv_ok v n ->
  srv_ok v (fst (nstep v n e))
  /\ concat (snd (run v init (hist (fst (nstep v n e))))) = concat (snd (run v init (hist n))) ++ snd (nstep v n e).
Proof.
  unfold srv_ok. intros v n e H. destruct e as [p k mb m|p|e]; simpl.
  - destruct p; simpl; rewrite ?app_nil_r; auto.
  - destruct (take_first p (chan n)) as [[u ch']|]; simpl; rewrite ?app_nil_r; auto.
    destruct p as [|i [|j q]]; simpl; rewrite ?app_nil_r; auto.
    destruct (step v (srv n) (to_event u)) eqn:S. simpl. rewrite run_snoc. simpl.
    rewrite <- H, S. simpl. rewrite concat_app. simpl. rewrite app_nil_r. auto.
  - destruct (step v (srv n) e) eqn:S. simpl. rewrite run_snoc. simpl.
    rewrite <- H, S. simpl. rewrite concat_app. simpl. rewrite app_nil_r. auto.
Qed.

Lemma nrun_srv : forall v es n, srv_ok v n ->
  srv_ok v (fst (nrun v n es))
  /\ concat (snd (run v init (hist (fst (nrun v n es))))) = concat (snd (run v init (hist n))) ++ concat (snd (nrun v n es)).
Proof.
  induction es as [|e r IH]; intros n H.
  - simpl. rewrite app_nil_r. auto.
  - rewrite nrun_cons. simpl. destruct (nstep_srv v n e H) as [H1 E1]. destruct (IH _ H1) as [H2 E2].
    split; auto. rewrite E2, E1, app_assoc. reflexivity.
Qed.

(* the server component of the net is the server model run on the events it was handed, and the
   net's outputs are that run's outputs *)
Theorem net_server_is_run : forall v es,
  srv (fst (nrun v net0 es)) = fst (run v init (hist (fst (nrun v net0 es))))
  /\ concat (snd (nrun v net0 es)) = concat (snd (run v init (hist (fst (nrun v net0 es))))).
Proof.
  intros. destruct (nrun_srv v es net0 eq_refl) as [A B]. split; auto.
Qed.

(* ------------------------------------------------------------------ conservation *)
Definition content (n : net) : list umsg := map snd (chan n) ++ below n.

Lemma nstep_content : forall v n e, Permutation (content (fst (nstep v n e))) (content n ++ raised [e]).
Proof.
  unfold content. intros v n e. destruct e as [p k mb m|p|e]; simpl.
  - destruct p; simpl; rewrite ?app_nil_r; auto.
    rewrite map_app. simpl. rewrite <- !app_assoc. apply Permutation_app_head. apply Permutation_app_comm.
  - rewrite app_nil_r. destruct (take_first p (chan n)) as [[u ch']|] eqn:T; simpl; auto.
    destruct (take_first_split _ _ _ _ T) as [a [b [A [B _]]]].
    destruct p as [|i [|j q]]; simpl; auto.
    + destruct (step v (srv n) (to_event u)). simpl. rewrite A, B, !map_app. simpl.
      rewrite <- !app_assoc. apply Permutation_app_head. simpl.
      apply Permutation_sym. rewrite app_assoc. apply Permutation_cons_append.
    + rewrite A, B, !map_app. simpl. rewrite <- !app_assoc. apply Permutation_app_head. simpl.
      apply Permutation_sym. apply Permutation_middle.
  - destruct (step v (srv n) e). simpl. rewrite app_nil_r. auto.
Qed.

Lemma raised_app : forall a b, raised (a ++ b) = raised a ++ raised b.
Proof.
  induction a as [|e a IH]; simpl; intros; auto.
  destruct e as [[|i p] k mb m|p|e]; simpl; rewrite ?IH; auto.
Qed.

Lemma nrun_content : forall v es n, Permutation (content (fst (nrun v n es))) (content n ++ raised es).
Proof.
  induction es as [|e r IH]; intros n.
  - simpl. rewrite app_nil_r. auto.
  - rewrite nrun_cons. simpl fst. rewrite IH. change (e :: r) with ([e] ++ r). rewrite raised_app, app_assoc.
    apply Permutation_app_tail. apply nstep_content.
Qed.

(* nothing is lost, duplicated, altered or invented on the way up: at every moment, what the
   workers have sent = what is in flight + what the server has received from below (as multisets) *)
Theorem conservation : forall v es,
  Permutation (raised es) (map snd (chan (fst (nrun v net0 es))) ++ below (fst (nrun v net0 es))).
Proof. intros. apply Permutation_sym. apply (nrun_content v es net0). Qed.

(* what the server has received from below is in its event history *)
Definition below_ok (n : net) : Prop := forall u, In u (below n) -> In (to_event u) (hist n).

Lemma nstep_below : forall v n e, below_ok n -> below_ok (fst (nstep v n e)).
Proof.
  unfold below_ok. intros v n e H. destruct e as [p k mb m|p|e]; simpl.
  - destruct p; simpl; auto.
  - destruct (take_first p (chan n)) as [[u ch']|]; simpl; auto.
    destruct p as [|i [|j q]]; simpl; auto.
    destruct (step v (srv n) (to_event u)). simpl. intros w W. apply in_app_or in W as [W|[W|[]]].
    + apply in_or_app. auto.
    + subst. apply in_or_app. right. left. reflexivity.
  - destruct (step v (srv n) e). simpl. intros w W. apply in_or_app. auto.
Qed.

Lemma nrun_below : forall v es n, below_ok n -> below_ok (fst (nrun v n es)).
Proof.
  induction es as [|e r IH]; intros n H; auto. rewrite nrun_cons. simpl. apply IH. apply nstep_below. auto.
Qed.

(* -------------------------------------------------------------- progress *)
Definition links_ok (ch : list (path * umsg)) : Prop := forall x, In x ch -> fst x <> [].

Lemma nstep_links : forall v n e, links_ok (chan n) -> links_ok (chan (fst (nstep v n e))).
Proof.
  unfold links_ok. intros v n e H. destruct e as [p k mb m|p|e]; simpl.
  - destruct p; simpl; auto. intros x X. apply in_app_or in X as [X|[X|[]]]; auto. subst. simpl. discriminate.
  - destruct (take_first p (chan n)) as [[u ch']|] eqn:T; simpl; auto.
    destruct (take_first_split _ _ _ _ T) as [a [b [A [B _]]]].
    assert (S : forall x, In x ch' -> fst x <> []).
    { intros x X. apply H. rewrite A. subst ch'. apply in_app_or in X as [X|X]; apply in_or_app; simpl; auto. }
    destruct p as [|i [|j q]]; simpl; auto.
    + destruct (step v (srv n) (to_event u)). simpl. auto.
    + intros x X. apply in_app_or in X as [X|[X|[]]]; auto. subst. simpl. discriminate.
  - destruct (step v (srv n) e). simpl. auto.
Qed.

Lemma nrun_links : forall v es n, links_ok (chan n) -> links_ok (chan (fst (nrun v n es))).
Proof.
  induction es as [|e r IH]; intros n H; auto. rewrite nrun_cons. simpl. apply IH. apply nstep_links. auto.
Qed.

(* every read of a message from below takes it exactly one hop closer to the server *)
Theorem deliver_decreases : forall v n p u ch', links_ok (chan n) -> take_first p (chan n) = Some (u, ch') ->
  S (weight (chan (fst (nstep v n (NDeliver p))))) = weight (chan n).
Proof.
  intros v n p u ch' L T. simpl. rewrite T.
  destruct (take_first_split _ _ _ _ T) as [a [b [A [B _]]]].
  assert (P : p <> []). { apply (L (p, u)). rewrite A. apply in_or_app. simpl. auto. }
  destruct p as [|i [|j q]]; [congruence| |].
  - destruct (step v (srv n) (to_event u)). simpl. rewrite A, B, !weight_app, weight_cons. simpl. lia.
  - simpl. rewrite A, B, !weight_app, !weight_cons. simpl. lia.
Qed.

Definition is_deliver (e : nev) : Prop := match e with NDeliver _ => True | _ => False end.

Lemma weight_zero : forall ch, links_ok ch -> weight ch = 0 -> ch = [].
Proof.
  intros [|[p u] r] L W; auto. exfalso. rewrite weight_cons in W. simpl in W.
  destruct p; [apply (L ([], u)); simpl; auto|simpl in W; lia].
Qed.

(* never a hang on the way up: from every state the messages in flight can all be brought to the
   server, by exactly `weight` reads, whatever else happened before; no read is ever blocked *)
Theorem drain : forall v w n, links_ok (chan n) -> weight (chan n) = w ->
  exists ds, Forall is_deliver ds /\ length ds = w /\ chan (fst (nrun v n ds)) = []
             /\ raised ds = [].
Proof.
  induction w as [|w IH]; intros n L W.
  - exists []. simpl. repeat split; auto. apply weight_zero; auto.
  - destruct (chan n) as [|[p u] r] eqn:C; [simpl in W; discriminate|].
    pose proof (take_first_head p u r) as T. rewrite <- C in T, L, W.
    pose proof (deliver_decreases v n p u r L T) as D.
    destruct (IH (fst (nstep v n (NDeliver p)))) as [ds [F [Len [E R]]]].
    + apply nstep_links; auto.
    + lia.
    + exists (NDeliver p :: ds). rewrite nrun_cons. simpl fst. repeat split; auto.
      * constructor; simpl; auto.
      * simpl. lia.
Qed.

Theorem drain_reachable : forall v es,
  exists ds, Forall is_deliver ds /\ length ds = weight (chan (fst (nrun v net0 es)))
             /\ chan (fst (nrun v net0 (es ++ ds))) = [] /\ raised (es ++ ds) = raised es.
Proof.
  intros v es.
  destruct (drain v _ (fst (nrun v net0 es)) (nrun_links v es net0 (fun x (H : In x []) => match H with end)) eq_refl)
    as [ds [F [L [C R]]]].
  exists ds. rewrite nrun_app, raised_app, R, app_nil_r. auto.
Qed.

(* ------------------------------------------------- composition with the server theorems *)
Lemma srun_out_split : forall dc es sp o, In o (concat (snd (srun dc sp es))) ->
  exists h1 e h2, es = h1 ++ e :: h2 /\ In o (snd (sstep dc (fst (srun dc sp h1)) e)).
Proof.
  induction es as [|e r IH]; intros sp o H; simpl in H; [contradiction|].
  destruct (sstep dc sp e) as [sp1 o1] eqn:S. destruct (srun dc sp1 r) as [sp2 os] eqn:R. simpl in H.
  apply in_app_or in H as [H|H].
  - exists [], e, r. simpl. rewrite S. auto.
  - assert (H' : In o (concat (snd (srun dc sp1 r)))) by (rewrite R; auto).
    destruct (IH _ _ H') as [h1 [e' [h2 [A B]]]]. exists (e :: h1), e', h2. subst r. split; auto.
    simpl. rewrite S. simpl. destruct (srun dc sp1 h1) eqn:Q. simpl in *. auto.
Qed.

Lemma sstep_oerror : forall dc sp e c m, In (OError c m) (snd (sstep dc sp e)) ->
  exists mb t, e = Error mb m /\ tom sp mb = Some t /\ owner sp t = c.
Proof.
  intros dc sp e c m H. destruct e; simpl in H;
    repeat match type of H with
           | context [if ?b then _ else _] => destruct b; simpl in H
           | context [match ?x with _ => _ end] => destruct x eqn:?; simpl in H
           | _ \/ _ => destruct H as [H|H]
           | False => contradiction
           end; try discriminate; try contradiction.
  inversion H; subst. eauto.
Qed.

Lemma in_concat_answers : forall o os, is_answer o = true -> In o (concat os) -> In o (concat (map answers os)).
Proof.
  induction os as [|a os IH]; simpl; intros A H; auto. apply in_app_or in H as [H|H]; apply in_or_app; auto.
  left. unfold answers. apply filter_In. auto.
Qed.

Section Composed.
Variable dc : bool.
Variable es : list nev.
Let n := fst (nrun (Fix dc) net0 es).
Hypothesis W : wf_run dc spec0 (hist n) = true.

(* the server survives everything that comes up the tree and every client request *)
Theorem net_server_stays_up : up (srv n) = true /\ ~ In OCrash (concat (snd (nrun (Fix dc) net0 es))).
Proof.
  destruct (net_server_is_run (Fix dc) es) as [A B]. fold n in A, B.
  destruct (requests_refine dc (hist n) W) as [_ [C U]]. rewrite A, B. auto.
Qed.

(* an ERROR output anywhere in the run is the forwarding of an ERROR event (mb, m) that the server
   handled, m unchanged, and its addressee is the client that submitted the compilation mb belongs
   to - never another client *)
Theorem error_only_to_owner : forall c m, In (OError c m) (concat (snd (nrun (Fix dc) net0 es))) ->
  exists h1 h2 mb t, hist n = h1 ++ Error mb m :: h2
    /\ tom (fst (srun dc spec0 h1)) mb = Some t /\ owner (fst (srun dc spec0 h1)) t = c.
Proof.
  intros c m H. destruct (net_server_is_run (Fix dc) es) as [_ B]. fold n in B. rewrite B in H.
  apply in_concat_answers in H; auto. destruct (requests_refine dc (hist n) W) as [R _]. rewrite R in H.
  destruct (srun_out_split _ _ _ _ H) as [h1 [e [h2 [A I]]]].
  destruct (sstep_oerror _ _ _ _ _ I) as [mb [t [E [T O]]]]. subst e. exists h1, h2, mb, t. auto.
Qed.

(* an exception caught by a worker anywhere in the tree: once the links are drained the server has
   handled ERROR (mb, m) with exactly that payload; handling it changed no table, and its only
   output was ERROR m to the connection that submitted the compilation of mb (still connected),
   or nothing when that compilation is no longer known (client gone / cancelled) *)
Theorem error_reaches_owner : forall mb m, In (KErr, mb, m) (raised es) -> chan n = [] ->
  exists h1 h2, hist n = h1 ++ Error mb m :: h2
    /\ wf_run dc spec0 h1 = true
    /\ step (Fix dc) (fst (run (Fix dc) init h1)) (Error mb m) =
         (fst (run (Fix dc) init h1),
          match tom (fst (srun dc spec0 h1)) mb with
          | Some t => [OError (owner (fst (srun dc spec0 h1)) t) m]
          | None => [] end)
    /\ (forall t, tom (fst (srun dc spec0 h1)) mb = Some t ->
          cst (fst (srun dc spec0 h1)) (owner (fst (srun dc spec0 h1)) t) = CConnected).
Proof.
  intros mb m R C.
  pose proof (conservation (Fix dc) es) as P. fold n in P. rewrite C in P. simpl in P.
  assert (I : In (to_event (KErr, mb, m)) (hist n)).
  { apply (nrun_below (Fix dc) es net0); [intros u []|]. fold n. eapply Permutation_in; eauto. }
  simpl in I. apply in_split in I as [h1 [h2 E]]. exists h1, h2. split; auto.
  pose proof W as W'. rewrite E, wf_run_app in W'. apply andb_true_iff in W' as [W1 _]. split; auto.
  destruct (error_forwarded dc h1 mb m W1) as [S F].
  pose proof (tables_inv dc h1 W1) as [Rl _].
  rewrite (r_m2t _ _ Rl) in S, F. rewrite S. split.
  - f_equal. destruct (tom (fst (srun dc spec0 h1)) mb) as [t|] eqn:T; auto.
    destruct (F t eq_refl) as [G _]. rewrite G. reflexivity.
  - intros t T. rewrite T in F. destruct (F t eq_refl) as [_ [_ K]]. auto.
Qed.

End Composed.
