(* C12 - theorems about the cancellation model (rt/CancelM.v). *)
From Coq Require Import List Arith Bool Lia PeanoNat.
Import ListNotations.
From BQ Require Import rt.CancelM.

Ltac inv H := inversion H; subst; clear H.
(* destruct the first match scrutinee found in hypothesis H *)
Ltac dmH H :=
  match type of H with
  | context[match ?x with _ => _ end] => destruct x eqn:?
  | context[if ?x then _ else _] => destruct x eqn:?
  end.
Ltac dmG :=
  match goal with
  | |- context[match ?x with _ => _ end] => destruct x eqn:?
  | |- context[if ?x then _ else _] => destruct x eqn:?
  end.

(* ------------------------------------------------------------------ equality tests *)
Lemma addr_eqb_eq (a b : addr) : addr_eqb a b = true <-> a = b.
Proof.
  destruct a as [[a1 a2] a3], b as [[b1 b2] b3]; simpl.
  rewrite !andb_true_iff, !Nat.eqb_eq. split; [intros [[? ?] ?]; subst; auto | intros H; inv H; auto].
Qed.
Lemma addr_eqb_refl a : addr_eqb a a = true.
Proof. apply addr_eqb_eq; auto. Qed.
Lemma addr_eqb_neq (a b : addr) : addr_eqb a b = false <-> a <> b.
Proof. split; intros H. intro E. apply addr_eqb_eq in E. congruence.
  destruct (addr_eqb a b) eqn:E; auto. apply addr_eqb_eq in E. contradiction. Qed.
Lemma mem_addr_In a l : mem_addr a l = true <-> In a l.
Proof. unfold mem_addr. rewrite existsb_exists. split.
  intros [x [H1 H2]]. apply addr_eqb_eq in H2. subst; auto.
  intros H. exists a. split; auto. apply addr_eqb_refl. Qed.
Lemma mem_nat_In a l : mem_nat a l = true <-> In a l.
Proof. unfold mem_nat. rewrite existsb_exists. split.
  intros [x [H1 H2]]. apply Nat.eqb_eq in H2. subst; auto.
  intros H. exists a. split; auto. apply Nat.eqb_refl. Qed.

(* ------------------------------------------------------------------ association lists *)
Section AssocL.
  Context {K V : Type}.
  Variable eqb : K -> K -> bool.
  Hypothesis eqb_spec : forall a b, eqb a b = true <-> a = b.
  Lemma eqb_rfl k : eqb k k = true. Proof. apply eqb_spec; auto. Qed.
  Lemma eqb_false k j : k <> j -> eqb k j = false.
  Proof. intros. destruct (eqb k j) eqn:E; auto. apply eqb_spec in E. contradiction. Qed.
  Lemma lookup_remove_same k (l : list (K*V)) : lookup eqb k (remove eqb k l) = None.
  Proof. induction l as [|[k' v] l IH]; simpl; auto. destruct (eqb k k') eqn:E; auto. simpl. rewrite E. auto. Qed.
  Lemma lookup_remove_other k j (l : list (K*V)) : k <> j -> lookup eqb k (remove eqb j l) = lookup eqb k l.
  Proof. intros N. induction l as [|[k' v] l IH]; simpl; auto.
    destruct (eqb j k') eqn:E.
    - apply eqb_spec in E. subst. rewrite (eqb_false k k'); auto.
    - simpl. destruct (eqb k k'); auto. Qed.
  Lemma lookup_remove_none k j (l : list (K*V)) : lookup eqb k l = None -> lookup eqb k (remove eqb j l) = None.
  Proof. intros H. induction l as [|[k' v] l IH]; simpl in *; auto.
    destruct (eqb k k') eqn:E; [discriminate|]. destruct (eqb j k'); auto. simpl. rewrite E. auto. Qed.
  Lemma lookup_put_same k v (l : list (K*V)) : lookup eqb k (put eqb k v l) = Some v.
  Proof. induction l as [|[k' v'] l IH]; simpl. rewrite eqb_rfl; auto.
    destruct (eqb k k') eqn:E; simpl. rewrite eqb_rfl; auto. rewrite E; auto. Qed.
  Lemma lookup_put_other k j v (l : list (K*V)) : k <> j -> lookup eqb k (put eqb j v l) = lookup eqb k l.
  Proof. intros N. induction l as [|[k' v'] l IH]; simpl. rewrite eqb_false; auto.
    destruct (eqb j k') eqn:E; simpl.
    - apply eqb_spec in E; subst. rewrite eqb_false; auto.
    - destruct (eqb k k'); auto. Qed.
  Lemma lookup_In k v (l : list (K*V)) : lookup eqb k l = Some v -> In (k, v) l.
  Proof. induction l as [|[k' v'] l IH]; simpl; [discriminate|]. destruct (eqb k k') eqn:E.
    apply eqb_spec in E. intros H; inv H. auto. auto. Qed.
  Lemma In_remove k' v k (l : list (K*V)) : In (k', v) (remove eqb k l) -> In (k', v) l /\ k' <> k.
  Proof. induction l as [|[k2 v2] l IH]; simpl; [tauto|]. destruct (eqb k k2) eqn:E.
    intros H. apply IH in H. tauto.
    intros [H|H]. inv H. split; auto. intro; subst. rewrite eqb_rfl in E. discriminate.
    apply IH in H. tauto. Qed.
  Lemma In_remove_keep k' v k (l : list (K*V)) : In (k', v) l -> k' <> k -> In (k', v) (remove eqb k l).
  Proof. induction l as [|[k2 v2] l IH]; simpl; [tauto|]. intros [H|H] N.
    inv H. rewrite eqb_false; auto. left; auto.
    destruct (eqb k k2); auto. right; auto. Qed.
  Lemma In_put_inv x k v (l : list (K*V)) : In x (put eqb k v l) -> x = (k, v) \/ In x l.
  Proof. induction l as [|[k2 v2] l IH]; simpl. intros [H|[]]; auto.
    destruct (eqb k k2) eqn:E; simpl; intros [H|H]; auto. apply IH in H. tauto. Qed.
  Lemma In_put_keep k' v' k v (l : list (K*V)) : In (k', v') l -> k' <> k -> In (k', v') (put eqb k v l).
  Proof. induction l as [|[k2 v2] l IH]; simpl; [tauto|]. intros [H|H] N.
    inv H. rewrite eqb_false; auto. left; auto.
    destruct (eqb k k2); simpl; auto. Qed.
  Lemma In_put_new k v (l : list (K*V)) : In (k, v) (put eqb k v l).
  Proof. induction l as [|[k2 v2] l IH]; simpl; auto. destruct (eqb k k2); simpl; auto. Qed.
End AssocL.

Lemma lb_remove_same k l : lookup_b k (remove_b k l) = None.
Proof. apply lookup_remove_same. Qed.
Lemma lb_remove_other k j l : k <> j -> lookup_b k (remove_b j l) = lookup_b k l.
Proof. apply lookup_remove_other. apply Nat.eqb_eq. Qed.
Lemma lb_remove_none k j l : lookup_b k l = None -> lookup_b k (remove_b j l) = None.
Proof. apply lookup_remove_none. Qed.
Lemma lb_put_same k v l : lookup_b k (put_b k v l) = Some v.
Proof. apply lookup_put_same. apply Nat.eqb_eq. Qed.
Lemma lb_put_other k j v l : k <> j -> lookup_b k (put_b j v l) = lookup_b k l.
Proof. apply lookup_put_other. apply Nat.eqb_eq. Qed.
Lemma lt_remove_same k l : lookup_t k (remove_t k l) = None.
Proof. apply lookup_remove_same. Qed.
Lemma lt_remove_other k j l : k <> j -> lookup_t k (remove_t j l) = lookup_t k l.
Proof. apply lookup_remove_other. apply addr_eqb_eq. Qed.
Lemma lt_put_same k v l : lookup_t k (put_t k v l) = Some v.
Proof. apply lookup_put_same. apply addr_eqb_eq. Qed.
Lemma lt_put_other k j v l : k <> j -> lookup_t k (put_t j v l) = lookup_t k l.
Proof. apply lookup_put_other. apply addr_eqb_eq. Qed.
Lemma lt_In k v l : lookup_t k l = Some v -> In (k, v) l.
Proof. apply lookup_In. apply addr_eqb_eq. Qed.

(* ------------------------------------------------------------------ A. a dropped mailbox never comes back *)
(* (boxes, counter) only ever gain ids >= counter *)
Definition blt (b : list (nat * mbox)) (c : nat) : Prop := forall mb, lookup_b mb b <> None -> mb < c.
Definition bext (b : list (nat * mbox)) (c : nat) (b' : list (nat * mbox)) (c' : nat) : Prop :=
  c <= c' /\ (forall mb, mb < c -> lookup_b mb b = None -> lookup_b mb b' = None) /\ (blt b c -> blt b' c').

Lemma bext_refl b c : bext b c b c.
Proof. split; auto. Qed.
Lemma bext_trans b1 c1 b2 c2 b3 c3 : bext b1 c1 b2 c2 -> bext b2 c2 b3 c3 -> bext b1 c1 b3 c3.
Proof. intros (H1 & H2 & H5) (H3 & H4 & H6). split. lia. split; auto. intros mb L N. apply H4. lia. apply H2; auto. Qed.
Lemma bext_put_old b c mb x : lookup_b mb b <> None -> bext b c (put_b mb x b) c.
Proof. intros H. split; auto. split. intros m L N.
  destruct (Nat.eq_dec m mb). subst. contradiction. rewrite lb_put_other; auto.
  intros B m N. destruct (Nat.eq_dec m mb). subst. apply B; auto. rewrite lb_put_other in N; auto. Qed.
Lemma bext_remove b c mb : bext b c (remove_b mb b) c.
Proof. split; auto. split. intros m L N. apply lb_remove_none; auto.
  intros B m N. apply B. intro E. apply N. apply lb_remove_none; auto. Qed.
Lemma bext_new b c x : bext b c (put_b c x b) (S c).
Proof. split; auto. split. intros m L N. rewrite lb_put_other; auto. lia.
  intros B m N. destruct (Nat.eq_dec m c). lia. rewrite lb_put_other in N; auto. apply B in N. lia. Qed.

Definition cdrop (b : list (nat * mbox)) (c : nat) (x : nat) : Prop := lookup_b x b = None /\ x < c.
Lemma bext_cdrop b c b' c' x : bext b c b' c' -> cdrop b c x -> cdrop b' c' x.
Proof. intros (H1 & H2 & _) [D1 D2]. split. apply H2; auto. lia. Qed.
Lemma bext_blt b c b' c' : bext b c b' c' -> blt b c -> blt b' c'.
Proof. intros (_ & _ & H); auto. Qed.

Lemma do_cancel_bext wid mb s s1 : do_cancel wid mb s = Some s1 ->
  bext (c_boxes s) (c_counter s) (c_boxes s1) (c_counter s1).
Proof. unfold do_cancel. intros H. repeat dmH H; inv H; simpl. apply bext_remove. Qed.

Lemma run_instrs_bext wid is : forall s o s', run_instrs wid is s = (o, s') ->
  bext (c_boxes s) (c_counter s) (c_boxes s') (c_counter s').
Proof.
  induction is as [|i rest IH]; intros s o s' H; simpl in H.
  - inv H. apply bext_refl.
  - destruct i.
    + apply IH in H. simpl in H. eapply bext_trans; [|exact H]. apply bext_new.
    + destruct ps. inv H; simpl; apply bext_refl.
      apply IH in H; simpl in H. eapply bext_trans; [|exact H]. apply bext_new.
    + repeat dmH H; inv H; simpl; apply bext_refl.
    + repeat dmH H; inv H; simpl; apply bext_refl.
    + destruct (nth_error (rt_futs (c_rt s)) f) eqn:E; [|inv H; simpl; apply bext_refl].
      match type of H with context[do_cancel ?a ?b ?c] => destruct (do_cancel a b c) eqn:D end;
        [|inv H; simpl; apply bext_refl].
      apply do_cancel_bext in D. simpl in D. apply IH in H. eapply bext_trans; eauto.
Qed.

Lemma completion_loop_py_bext fuel wid : forall i s s', completion_loop_py fuel wid i s = Some s' ->
  bext (c_boxes s) (c_counter s) (c_boxes s') (c_counter s').
Proof.
  induction fuel as [|fuel IH]; intros i s s' H; simpl in H.
  - inv H. apply bext_refl.
  - destruct (nth_error (rt_owned (c_rt s)) i) eqn:E; [|inv H; apply bext_refl].
    destruct (lookup_b n (c_boxes s)) eqn:L; [|discriminate].
    destruct (box_ready m).
    + apply IH in H. simpl in H. eapply bext_trans; [|exact H]. apply bext_remove.
    + destruct (do_cancel wid n s) eqn:D; [|discriminate].
      apply do_cancel_bext in D. apply IH in H. eapply bext_trans; eauto.
Qed.

Lemma handle_result_fields ra v w w' l : handle_result ra v w = Some (w', l) ->
  bext (w_boxes w) (w_counter w) (w_boxes w') (w_counter w')
  /\ w_id w' = w_id w /\ w_cancelled w' = w_cancelled w /\ w_tasks w' = w_tasks w /\ w_delayed w' = w_delayed w
  /\ w_blocked w' = w_blocked w.
Proof.
  unfold handle_result. destruct ra as [[x mbid] slot]. intros H.
  destruct (lookup_b mbid (w_boxes w)) eqn:L.
  - assert (N : lookup_b mbid (w_boxes w) <> None) by congruence.
    repeat dmH H; inv H; simpl; repeat split; auto; apply bext_put_old; auto.
  - inv H. repeat split; auto.
Qed.

Lemma pop_boxes_bext ids : forall b b' c, pop_boxes ids b = Some b' -> bext b c b' c.
Proof. induction ids as [|i r IH]; intros b b' c H; simpl in H. inv H; apply bext_refl.
  destruct (lookup_b i b); [|discriminate]. apply IH with (c:=c) in H. eapply bext_trans; [|exact H]. apply bext_remove. Qed.

Lemma cancel_tasks_bext wid c ts : forall b ts' b' l cn, cancel_tasks wid c ts b = Some (ts', b', l) -> bext b cn b' cn.
Proof. induction ts as [|[k rt] r IH]; intros b ts' b' l cn H; simpl in H. inv H; apply bext_refl.
  destruct (desc c (rt_task rt)).
  - destruct (pop_boxes (rt_owned rt) b) eqn:P; [|discriminate].
    destruct (cancel_tasks wid c r l0) as [[[? ?] ?]|] eqn:C; [|discriminate]. inv H.
    eapply bext_trans. eapply pop_boxes_bext; eauto. eapply IH; eauto.
  - destruct (cancel_tasks wid c r b) as [[[? ?] ?]|] eqn:C; [|discriminate]. inv H. eapply IH; eauto.
Qed.

Lemma handle_cancel_fields c w w' l : handle_cancel c w = Some (w', l) ->
  bext (w_boxes w) (w_counter w) (w_boxes w') (w_counter w') /\ w_id w' = w_id w
  /\ (forall x, In x (w_cancelled w') <-> (x = c \/ In x (w_cancelled w)))
  /\ w_ready w' = w_ready w /\ w_blocked w' = w_blocked w.
Proof.
  unfold handle_cancel. intros H.
  destruct (cancel_tasks (w_id w) c (w_tasks w) (w_boxes w)) as [[[ts' b'] l']|] eqn:C; [|discriminate].
  inv H. simpl. split; [eapply cancel_tasks_bext; eauto|]. split; auto. split; [|auto]. intros x; split.
  - destruct (mem_addr c (w_cancelled w)) eqn:M; intros Hx.
    right; auto. apply in_app_or in Hx. destruct Hx as [|[|[]]]; auto.
  - destruct (mem_addr c (w_cancelled w)) eqn:M; intros [Hx|Hx]; subst; auto.
    apply mem_addr_In; auto. apply in_or_app; right; left; auto. apply in_or_app; auto.
Qed.

Lemma do_cancel_counter wid mb s s1 : do_cancel wid mb s = Some s1 -> c_counter s1 = c_counter s.
Proof. unfold do_cancel. intros H. repeat dmH H; inv H; auto. Qed.
Lemma completion_loop_py_counter fuel wid : forall i s s', completion_loop_py fuel wid i s = Some s' -> c_counter s' = c_counter s.
Proof. induction fuel as [|fuel IH]; intros i s s' H; simpl in H. inv H; auto.
  repeat dmH H; try discriminate; try (inv H; auto; fail).
  apply IH in H. simpl in H. auto.
  apply IH in H. rewrite H. eapply do_cancel_counter; eauto. Qed.

(* fields that _get_next_ready_task leaves alone *)
Definition same_env (w w' : wstate) : Prop :=
  w_id w' = w_id w /\ w_cancelled w' = w_cancelled w /\ w_boxes w' = w_boxes w /\ w_counter w' = w_counter w.
Lemma same_env_refl w : same_env w w. Proof. repeat split; auto. Qed.
Lemma same_env_trans a b c : same_env a b -> same_env b c -> same_env a c.
Proof. unfold same_env. intuition congruence. Qed.

Section FixT.
Variable fx : bool.
Variable f8 : bool.

Lemma forget_env w a : same_env w (forget f8 w a).
Proof. unfold forget. destruct (f8 && crumb_dead w a); repeat split; auto. Qed.
Lemma forget_fields w a : w_ready (forget f8 w a) = w_ready w /\ w_delayed (forget f8 w a) = w_delayed w
  /\ w_blocked (forget f8 w a) = w_blocked w.
Proof. unfold forget. destruct (f8 && crumb_dead w a); repeat split; auto. Qed.
(* forgetting only removes entries *)
Lemma lt_remove_some k j v l : lookup_t k (remove_t j l) = Some v -> k <> j /\ lookup_t k l = Some v.
Proof. intros H. destruct (addr_eqb k j) eqn:E. apply addr_eqb_eq in E. subst. rewrite lt_remove_same in H. discriminate.
  apply addr_eqb_neq in E. rewrite lt_remove_other in H; auto. Qed.
Lemma forget_sub w a k v : lookup_t k (w_tasks (forget f8 w a)) = Some v -> lookup_t k (w_tasks w) = Some v.
Proof. unfold forget. destruct (f8 && crumb_dead w a); simpl; auto. intros H. apply lt_remove_some in H. tauto. Qed.
Lemma forget_In w a x : In x (w_tasks (forget f8 w a)) -> In x (w_tasks w).
Proof. unfold forget. destruct (f8 && crumb_dead w a); simpl; auto. destruct x as [k v]. intros H.
  apply (In_remove addr_eqb addr_eqb_eq) in H. tauto. Qed.

Lemma sel_ready_env : forall ready w lab o w1 r lab1, sel_ready f8 w ready lab = (o, w1, r, lab1) ->
  same_env w w1 /\ w_delayed w1 = w_delayed w /\ w_ready w1 = w_ready w /\ w_blocked w1 = w_blocked w.
Proof. induction ready as [|a rd IH]; intros w lab o w1 r lab1 H; simpl in H.
  inv H. split. apply same_env_refl. auto.
  destruct (runnable w a). inv H. split. apply same_env_refl. auto.
  apply IH in H. destruct H as (E & D & R & B). destruct (forget_fields w a) as (F1 & F2 & F3).
  split. eapply same_env_trans; [apply forget_env|exact E]. repeat split; congruence. Qed.

Lemma sel_delayed_env : forall rdel w lab o w1 lab1, sel_delayed f8 w rdel lab = (o, w1, lab1) -> same_env w w1.
Proof. induction rdel as [|t rest IH]; intros w lab o w1 lab1 H; simpl in H.
  inv H. repeat split; auto.
  dmH H. inv H. repeat split; auto.
  apply IH in H. eapply same_env_trans; [|exact H]. eapply same_env_trans; [|apply forget_env]. repeat split; auto. Qed.

Lemma select_env w o w1 out lab : select f8 w = (o, w1, out, lab) -> same_env w w1.
Proof. unfold select. intros H.
  destruct (sel_ready f8 w (w_ready w) []) as [[[o1 w'] r] lab1] eqn:S.
  apply sel_ready_env in S. destruct S as ((S1 & S2 & S3 & S4) & _).
  destruct o1. inv H. repeat split; auto.
  destruct (sel_delayed f8 (set_ready [] w') (rev (w_delayed w')) lab1) as [[o2 w2] lab2] eqn:D.
  apply sel_delayed_env in D. destruct D as (D1 & D2 & D3 & D4). simpl in *.
  destruct o2; inv H; repeat split; simpl; congruence. Qed.

Lemma raise_path_env w rt k out lab w' out' lab' : raise_path w rt k out lab = (w', out', lab') -> same_env w w'.
Proof. unfold raise_path. intros H. dmH H; inv H; repeat split; auto. Qed.

Lemma desired_result_bext wid rt boxes boxes1 rt1 l1 c :
  desired_result wid rt boxes = Some (boxes1, rt1, l1) -> bext boxes c boxes1 c.
Proof. unfold desired_result. intros H. destruct (rt_desired rt); [|inv H; apply bext_refl].
  destruct (lookup_b n boxes) eqn:L; [|discriminate].
  repeat dmH H; inv H. apply bext_put_old; congruence. apply bext_remove. Qed.

(* ------------------------------------------------------------------ the repaired completion loop has the same footprint *)
Lemma completion_loop_copy_bext wid l : forall s s', completion_loop_copy wid l s = Some s' ->
  bext (c_boxes s) (c_counter s) (c_boxes s') (c_counter s').
Proof.
  induction l as [|mb r IH]; intros s s' H; simpl in H. inv H. apply bext_refl.
  destruct (lookup_b mb (c_boxes s)) eqn:L; [|discriminate]. destruct (box_ready m).
  - apply IH in H. simpl in H. eapply bext_trans; [|exact H]. apply bext_remove.
  - destruct (do_cancel wid mb s) eqn:D; [|discriminate]. apply do_cancel_bext in D. apply IH in H. eapply bext_trans; eauto.
Qed.
Lemma completion_loop_copy_counter wid l : forall s s', completion_loop_copy wid l s = Some s' -> c_counter s' = c_counter s.
Proof. induction l as [|mb r IH]; intros s s' H; simpl in H. inv H; auto.
  destruct (lookup_b mb (c_boxes s)) eqn:L; [|discriminate]. destruct (box_ready m).
  apply IH in H. simpl in H. auto.
  destruct (do_cancel wid mb s) eqn:D; [|discriminate]. apply IH in H. rewrite H. eapply do_cancel_counter; eauto. Qed.
(* ... and really visits every mailbox the task owns *)
Lemma completion_loop_copy_none wid l x : forall s s', completion_loop_copy wid l s = Some s' ->
  lookup_b x (c_boxes s) = None -> lookup_b x (c_boxes s') = None.
Proof.
  induction l as [|mb0 r IH]; intros s s' H N; simpl in H. inv H; auto.
  destruct (lookup_b mb0 (c_boxes s)) eqn:L; [|discriminate]. destruct (box_ready m).
  - eapply IH; eauto. simpl. apply lb_remove_none; auto.
  - destruct (do_cancel wid mb0 s) eqn:D; [|discriminate]. eapply IH; eauto.
    unfold do_cancel in D. rewrite L in D. destruct (mem_nat mb0 (rt_owned (c_rt s))); inv D. simpl. apply lb_remove_none; auto.
Qed.
Lemma completion_loop_copy_all wid l : forall s s', completion_loop_copy wid l s = Some s' ->
  forall mb, In mb l -> lookup_b mb (c_boxes s') = None.
Proof.
  induction l as [|mb0 r IH]; intros s s' H mb IN; simpl in H. destruct IN.
  destruct (lookup_b mb0 (c_boxes s)) eqn:L; [|discriminate]. destruct (box_ready m).
  - destruct IN as [<-|IN]; [|eapply IH; eauto]. eapply completion_loop_copy_none; eauto. simpl. apply lb_remove_same.
  - destruct (do_cancel wid mb0 s) eqn:D; [|discriminate].
    destruct IN as [<-|IN]; [|eapply IH; eauto]. eapply completion_loop_copy_none; eauto.
    unfold do_cancel in D. rewrite L in D. destruct (mem_nat mb0 (rt_owned (c_rt s))); inv D. simpl. apply lb_remove_same.
Qed.

(* fixes/D14.patch: when the repaired loop finishes, none of the mailboxes the completed task still owned exists *)
Lemma completion_fixed_all wid st st' : completion true wid st = Some st' ->
  forall mb, In mb (rt_owned (c_rt st)) -> lookup_b mb (c_boxes st') = None.
Proof. unfold completion. apply completion_loop_copy_all. Qed.


Lemma completion_bext wid s s' : completion fx wid s = Some s' -> bext (c_boxes s) (c_counter s) (c_boxes s') (c_counter s').
Proof. unfold completion. destruct fx. apply completion_loop_copy_bext. apply completion_loop_py_bext. Qed.
Lemma completion_counter wid s s' : completion fx wid s = Some s' -> c_counter s' = c_counter s.
Proof. unfold completion. destruct fx. apply completion_loop_copy_counter. apply completion_loop_py_counter. Qed.
Ltac rp H := match type of H with context[raise_path ?a ?b ?c ?d ?e] =>
  let R := fresh "RP" in destruct (raise_path a b c d e) as [[? ?] ?] eqn:R; apply raise_path_env in R;
  destruct R as (R1 & R2 & R3 & R4) end.

Lemma wstep_fields P w0 w' out lab : wstep fx f8 P w0 = Some (w', out, lab) ->
  bext (w_boxes w0) (w_counter w0) (w_boxes w') (w_counter w') /\ w_id w' = w_id w0 /\ w_cancelled w' = w_cancelled w0.
Proof.
  unfold wstep. intros H. dmH H; [discriminate|].
  destruct (select f8 w0) as [[[o w] out0] lab0] eqn:S. apply select_env in S. destruct S as (S1 & S2 & S3 & S4).
  destruct o as [rt0|]; [|inv H; rewrite S1, S2, S3, S4; repeat split; auto; apply bext_refl].
  destruct (desired_result (w_id w) rt0 (w_boxes w)) as [[[boxes1 rt1] l1]|] eqn:DR.
  2:{ rp H; inv H.
      rewrite R1, R2, R3, R4, S1, S2, S3, S4. repeat split; auto; apply bext_refl. }
  apply desired_result_bext with (c := w_counter w) in DR. rewrite S3, S4 in DR.
  destruct (nth_error P (t_prog (rt_task (reset_await rt1)))) as [prog|] eqn:NP.
  2:{ rp H; inv H.
      simpl in *. rewrite R1, R2, R3, R4, S1, S2, S4. split; [exact DR|split; auto]. }
  match type of H with context[run_instrs ?a ?b ?c] => destruct (run_instrs a b c) as [oc s] eqn:RI end.
  apply run_instrs_bext in RI. simpl in RI. rewrite S4 in RI.
  assert (B1 : bext (w_boxes w0) (w_counter w0) (c_boxes s) (c_counter s)) by (eapply bext_trans; eauto).
  destruct oc as [mb nx| |k].
  - (* yield *)
    destruct (lookup_b mb (c_boxes s)) eqn:L.
    + inv H. split; [|dmG; simpl; auto].
      assert (B2 : bext (c_boxes s) (c_counter s) (put_b mb (set_dest (Some (t_addr (rt_task rt0))) m) (c_boxes s)) (c_counter s))
        by (apply bext_put_old; congruence).
      dmG; simpl; eapply bext_trans; eauto.
    + rp H; inv H.
      simpl in *. rewrite R1, R2, R3, R4. auto.
  - (* return *)
    match type of H with context[match ?x with Some _ => _ | None => None end] => destruct x as [[[w2 out2] lab2]|] eqn:SH end; [|discriminate].
    match type of H with context[completion ?a ?b ?c] => destruct (completion a b c) as [s2|] eqn:CL end; [|discriminate].
    inv H. simpl.
    pose proof (completion_counter _ _ _ CL) as CC. apply completion_bext in CL. simpl in *.
    assert (W2 : bext (c_boxes s) (c_counter s) (w_boxes w2) (w_counter w2) /\ w_id w2 = w_id w /\ w_cancelled w2 = w_cancelled w).
    { destruct (t_addr (rt_task rt0)) as [[dst x1] x2]. destruct (dst =? w_id w).
      - destruct (handle_result (dst, x1, x2) (t_prog (rt_task rt0)) _) as [[w2' l2]|] eqn:HR; [|discriminate].
        inv SH. pose proof (handle_result_fields _ _ _ _ _ HR) as HF. simpl in HF. tauto.
      - inv SH. simpl. split; [apply bext_refl|auto]. }
    destruct W2 as (W2a & W2b & W2c). rewrite W2b, W2c, S1, S2. split; [|auto].
    rewrite CC in CL. eapply bext_trans; [exact B1|]. eapply bext_trans; [exact W2a|]. exact CL.
  - rp H; inv H.
    simpl in *. rewrite R1, R2, R3, R4. auto.
Qed.

(* ------------------------------------------------------------------ B. what the labels of one main-thread step mean *)
Definition keys_ok (w : wstate) : Prop := forall a rt, In (a, rt) (w_tasks w) -> t_addr (rt_task rt) = a.

Lemma dead_on_true w t c : In c (w_cancelled w) -> desc c t = true -> dead_on w t = true.
Proof. intros H1 H2. unfold dead_on. apply existsb_exists. eauto. Qed.

Lemma runnable_some w a rt : runnable w a = Some rt ->
  lookup_t a (w_tasks w) = Some rt /\ (t_addr (rt_task rt) = a -> dead_on w (rt_task rt) = false).
Proof.
  unfold runnable. intros H. destruct (mem_addr a (w_cancelled w)) eqn:M; [discriminate|].
  destruct (lookup_t a (w_tasks w)) eqn:L; [|discriminate].
  destruct (existsb _ (t_crumbs (rt_task r))) eqn:E; [discriminate|]. inv H. split; auto.
  intros K. unfold dead_on. destruct (existsb (fun c => desc c (rt_task rt)) (w_cancelled w)) eqn:X; auto.
  apply existsb_exists in X. destruct X as [c [C1 C2]]. unfold desc in C2. apply orb_true_iff in C2. destruct C2 as [C2|C2].
  - apply addr_eqb_eq in C2. rewrite C2, K in C1. apply mem_addr_In in C1. congruence.
  - assert (existsb (fun b => mem_addr b (w_cancelled w)) (t_crumbs (rt_task rt)) = true).
    { apply existsb_exists. exists c. split. apply mem_addr_In; auto. apply mem_addr_In; auto. }
    congruence.
Qed.

Lemma runnable_none_held w a rt : runnable w a = None -> lookup_t a (w_tasks w) = Some rt ->
  t_addr (rt_task rt) = a -> dead_on w (rt_task rt) = true.
Proof.
  unfold runnable. intros H L K. destruct (mem_addr a (w_cancelled w)) eqn:M.
  - apply mem_addr_In in M. eapply dead_on_true; eauto. unfold desc. rewrite K, addr_eqb_refl. auto.
  - rewrite L in H. destruct (existsb _ (t_crumbs (rt_task rt))) eqn:E; [|discriminate].
    apply existsb_exists in E. destruct E as [b [B1 B2]]. apply mem_addr_In in B2.
    eapply dead_on_true; eauto. unfold desc. apply orb_true_iff. right. apply mem_addr_In; auto.
Qed.

Definition lab_ok (w0 : wstate) (l : label) : Prop :=
  match l with
  | LRun wid t => wid = w_id w0 /\ dead_on w0 t = false
  | LSkip wid a (Some t) => dead_on w0 t = true
  | LObs wid a mb nx vals => wid = w_id w0 /\ lookup_b mb (w_boxes w0) <> None
  | LCancel wid a mb n => wid = w_id w0 /\ (w_counter w0 <= mb \/ exists rt, lookup_t a (w_tasks w0) = Some rt /\ In mb (rt_owned rt))
  | _ => True
  end.

Lemma dead_on_env w w' t : w_cancelled w' = w_cancelled w -> dead_on w' t = dead_on w t.
Proof. unfold dead_on. intros ->. auto. Qed.

Lemma keys_ok_forget w a : keys_ok w -> keys_ok (forget f8 w a).
Proof. intros K x rt H. apply forget_In in H. apply K; auto. Qed.
Lemma forget_cancelled w a : w_cancelled (forget f8 w a) = w_cancelled w.
Proof. destruct (forget_env w a) as (_ & E & _). auto. Qed.

Lemma sel_ready_labels w0 : forall ready w lab o w1 r lab', w_cancelled w = w_cancelled w0 -> keys_ok w ->
  sel_ready f8 w ready lab = (o, w1, r, lab') -> Forall (lab_ok w0) lab -> Forall (lab_ok w0) lab' /\ keys_ok w1.
Proof.
  induction ready as [|a rd IH]; intros w lab o w1 r lab' EC KO H F; simpl in H.
  inv H; auto.
  destruct (runnable w a) eqn:R. inv H; auto.
  eapply IH in H; eauto. rewrite forget_cancelled; auto. apply keys_ok_forget; auto.
  apply Forall_app. split; auto. constructor; auto.
  simpl. destruct (lookup_t a (w_tasks w)) eqn:L; simpl; auto.
  rewrite <- (dead_on_env w0 w) by auto. eapply runnable_none_held; eauto. apply KO. apply lt_In; auto.
Qed.

Lemma keys_ok_put w t : keys_ok w -> keys_ok (set_tasks (put_t (t_addr t) (fresh_rt t) (w_tasks w)) w).
Proof. intros K a rt H. simpl in H. apply In_put_inv in H. destruct H as [H|H]. inv H; auto. apply K; auto. Qed.

Lemma sel_delayed_labels w0 : forall rdel w lab o w1 lab1, w_cancelled w = w_cancelled w0 -> keys_ok w ->
  sel_delayed f8 w rdel lab = (o, w1, lab1) -> Forall (lab_ok w0) lab ->
  Forall (lab_ok w0) lab1 /\ keys_ok w1 /\
  (forall rt, o = Some rt -> dead_on w0 (rt_task rt) = false /\ lookup_t (t_addr (rt_task rt)) (w_tasks w1) = Some rt
      /\ rt_owned rt = [] /\ rt_desired rt = None).
Proof.
  induction rdel as [|t rest IH]; intros w lab o w1 lab1 EC KO H F; simpl in H.
  - inv H. split; auto. split; auto. intros; discriminate.
  - set (wa := set_tasks (put_t (t_addr t) (fresh_rt t) (w_tasks w)) w) in *.
    assert (KA : keys_ok wa) by (apply keys_ok_put; auto).
    assert (LA : lookup_t (t_addr t) (w_tasks wa) = Some (fresh_rt t)) by (simpl; apply lt_put_same).
    destruct (runnable wa (t_addr t)) eqn:R.
    + inv H. apply runnable_some in R. destruct R as [R1 R2]. rewrite LA in R1. inv R1.
      split; auto. split; auto. intros rt' E. inv E. simpl. repeat split; auto.
      rewrite <- (dead_on_env w0 wa) by auto. apply R2; auto.
    + eapply IH in H; eauto. rewrite forget_cancelled; auto. apply keys_ok_forget; auto.
      apply Forall_app; split; auto. constructor; auto. simpl.
      rewrite <- (dead_on_env w0 wa) by auto. eapply (runnable_none_held wa (t_addr t) (fresh_rt t)); eauto.
Qed.

Lemma In_remove_first x y l : In x (remove_first y l) -> In x l.
Proof. induction l as [|z l IH]; simpl; auto. destruct (y =? z); simpl; intuition. Qed.

(* labels and ownership through one coroutine step *)
Definition cancel_lab (wid : nat) (a : addr) (c0 : nat) (owned0 : list nat) (l : label) : Prop :=
  exists mb n, l = LCancel wid a mb n /\ (c0 <= mb \/ In mb owned0).

Lemma do_cancel_spec wid mb s s1 : do_cancel wid mb s = Some s1 ->
  rt_task (c_rt s1) = rt_task (c_rt s) /\ In mb (rt_owned (c_rt s))
  /\ rt_owned (c_rt s1) = remove_first mb (rt_owned (c_rt s))
  /\ exists n, c_lab s1 = c_lab s ++ [LCancel wid (t_addr (rt_task (c_rt s))) mb n].
Proof. unfold do_cancel. intros H. destruct (lookup_b mb (c_boxes s)); [|discriminate].
  destruct (mem_nat mb (rt_owned (c_rt s))) eqn:M; inv H. simpl. repeat split; auto. apply mem_nat_In; auto. eauto. Qed.

Lemma run_instrs_labels wid is : forall s o s', run_instrs wid is s = (o, s') ->
  rt_task (c_rt s') = rt_task (c_rt s)
  /\ (forall mb, In mb (rt_owned (c_rt s')) -> c_counter s <= mb \/ In mb (rt_owned (c_rt s)))
  /\ exists add, c_lab s' = c_lab s ++ add
       /\ Forall (cancel_lab wid (t_addr (rt_task (c_rt s))) (c_counter s) (rt_owned (c_rt s))) add.
Proof.
  induction is as [|i rest IH]; intros s o s' H; simpl in H.
  - inv H. repeat split; auto. exists []. rewrite app_nil_r. auto.
  - destruct i.
    + apply IH in H. simpl in H. destruct H as (H1 & H2 & add & H3 & H4). split; auto. split.
      * intros mb M. apply H2 in M. destruct M as [M|M]. left; lia. apply in_app_or in M. destruct M as [M|[M|[]]]; auto. left; lia.
      * exists add. split; auto. eapply Forall_impl; [|exact H4]. intros l (mb & n & E & C). exists mb, n. split; auto.
        destruct C as [C|C]. left; lia. apply in_app_or in C. destruct C as [C|[C|[]]]; auto. left; lia.
    + destruct ps as [|p ps]. inv H. simpl. repeat split; auto. exists []. rewrite app_nil_r; auto.
      apply IH in H. simpl in H. destruct H as (H1 & H2 & add & H3 & H4). split; auto. split.
      * intros mb M. apply H2 in M. destruct M as [M|M]. left; lia. apply in_app_or in M. destruct M as [M|[M|[]]]; auto. left; lia.
      * exists add. split; auto. eapply Forall_impl; [|exact H4]. intros l (mb & n & E & C). exists mb, n. split; auto.
        destruct C as [C|C]. left; lia. apply in_app_or in C. destruct C as [C|[C|[]]]; auto. left; lia.
    + repeat dmH H; inv H; simpl; repeat split; auto; exists []; rewrite app_nil_r; auto.
    + repeat dmH H; inv H; simpl; repeat split; auto; exists []; rewrite app_nil_r; auto.
    + destruct (nth_error (rt_futs (c_rt s)) f) eqn:E; [|inv H; simpl; repeat split; auto; exists []; rewrite app_nil_r; auto].
      match type of H with context[do_cancel ?a ?b ?c] => destruct (do_cancel a b c) eqn:D end;
        [|inv H; simpl; repeat split; auto; exists []; rewrite app_nil_r; auto].
      pose proof (do_cancel_counter _ _ _ _ D) as DC. simpl in DC.
      apply do_cancel_spec in D. simpl in D. destruct D as (D1 & D2 & D3 & n0 & D4).
      apply IH in H. destruct H as (H1 & H2 & add & H3 & H4). rewrite D1 in *. rewrite DC in *. split; auto. split.
      * intros mb M. apply H2 in M. destruct M as [M|M]; auto. rewrite D3 in M. apply In_remove_first in M. auto.
      * exists (LCancel wid (t_addr (rt_task (c_rt s))) n n0 :: add). split. rewrite H3, D4, <- app_assoc. auto.
        constructor. exists n, n0. auto.
        eapply Forall_impl; [|exact H4]. intros l (mb & k & E1 & C). exists mb, k. split; auto.
        destruct C as [C|C]; auto. rewrite D3 in C. apply In_remove_first in C. auto.
Qed.

Lemma sel_ready_some : forall ready w lab rt w1 r lab', keys_ok w -> sel_ready f8 w ready lab = (Some rt, w1, r, lab') ->
  lookup_t (t_addr (rt_task rt)) (w_tasks w1) = Some rt /\ dead_on w (rt_task rt) = false
  /\ lookup_t (t_addr (rt_task rt)) (w_tasks w) = Some rt.
Proof.
  induction ready as [|a rd IH]; intros w lab rt w1 r lab' KO H; simpl in H. discriminate.
  destruct (runnable w a) eqn:R.
  - inv H. apply runnable_some in R. destruct R as [R1 R2].
    assert (K : t_addr (rt_task rt) = a) by (apply KO; apply lt_In; auto). rewrite K. auto.
  - apply IH in H; [|apply keys_ok_forget; auto]. destruct H as (H1 & H2 & H3). split; auto. split.
    rewrite <- (dead_on_env w (forget f8 w a)); auto. apply forget_cancelled.
    eapply forget_sub; eauto.
Qed.

Lemma select_spec w0 o w out lab : select f8 w0 = (o, w, out, lab) -> keys_ok w0 ->
  Forall (lab_ok w0) lab /\ keys_ok w /\
  (forall rt0, o = Some rt0 -> dead_on w0 (rt_task rt0) = false
      /\ lookup_t (t_addr (rt_task rt0)) (w_tasks w) = Some rt0
      /\ (lookup_t (t_addr (rt_task rt0)) (w_tasks w0) = Some rt0 \/ rt_owned rt0 = [])).
Proof.
  unfold select. intros H KO.
  destruct (sel_ready f8 w0 (w_ready w0) []) as [[[o1 w'] r] lab1] eqn:S.
  pose proof (sel_ready_env _ _ _ _ _ _ _ S) as ((E1 & E2 & E3 & E4) & _).
  destruct (sel_ready_labels w0 _ _ _ _ _ _ _ eq_refl KO S (Forall_nil _)) as [F1 K1].
  destruct o1 as [rt|].
  - inv H. apply sel_ready_some in S; auto. destruct S as (S1 & S2 & S3). split; auto. split. exact K1.
    intros rt0 E. inv E. simpl. auto.
  - destruct (sel_delayed f8 (set_ready [] w') (rev (w_delayed w')) lab1) as [[o2 w2] lab2] eqn:D.
    eapply sel_delayed_labels in D; eauto. destruct D as (D1 & D2 & D3).
    destruct o2 as [rt|]; inv H; (split; [auto|split; [exact D2|]]).
    + intros rt0 E. inv E. destruct (D3 rt0 eq_refl) as (A1 & A2 & A3 & A4). simpl. auto.
    + intros; discriminate.
Qed.

Lemma completion_loop_py_labels fuel wid : forall i s s', completion_loop_py fuel wid i s = Some s' ->
  exists add, c_lab s' = c_lab s ++ add /\
    Forall (fun l => exists mb n, l = LCancel wid (t_addr (rt_task (c_rt s))) mb n /\ In mb (rt_owned (c_rt s))) add.
Proof.
  induction fuel as [|fuel IH]; intros i s s' H; simpl in H.
  - inv H. exists []. rewrite app_nil_r; auto.
  - destruct (nth_error (rt_owned (c_rt s)) i) eqn:E; [|inv H; exists []; rewrite app_nil_r; auto].
    destruct (lookup_b n (c_boxes s)) eqn:L; [|discriminate].
    destruct (box_ready m).
    + apply IH in H. simpl in H. exact H.
    + destruct (do_cancel wid n s) eqn:D; [|discriminate].
      apply do_cancel_spec in D. destruct D as (D1 & D2 & D3 & n0 & D4).
      apply IH in H. destruct H as (add & H1 & H2). rewrite D1 in *.
      exists (LCancel wid (t_addr (rt_task (c_rt s))) n n0 :: add). split. rewrite H1, D4, <- app_assoc; auto.
      constructor. eauto. eapply Forall_impl; [|exact H2]. intros l (mb & k & E1 & E2). exists mb, k. split; auto.
      rewrite D3 in E2. apply In_remove_first in E2; auto.
Qed.

Lemma completion_loop_copy_labels wid l : forall s s', completion_loop_copy wid l s = Some s' ->
  exists add, c_lab s' = c_lab s ++ add /\
    Forall (fun x => exists mb n, x = LCancel wid (t_addr (rt_task (c_rt s))) mb n /\ In mb (rt_owned (c_rt s))) add.
Proof.
  induction l as [|mb r IH]; intros s s' H; simpl in H. inv H. exists []. rewrite app_nil_r; auto.
  destruct (lookup_b mb (c_boxes s)) eqn:L; [|discriminate]. destruct (box_ready m).
  - apply IH in H. simpl in H. exact H.
  - destruct (do_cancel wid mb s) eqn:D; [|discriminate].
    apply do_cancel_spec in D. destruct D as (D1 & D2 & D3 & n0 & D4).
    apply IH in H. destruct H as (add & H1 & H2). rewrite D1 in *.
    exists (LCancel wid (t_addr (rt_task (c_rt s))) mb n0 :: add). split. rewrite H1, D4, <- app_assoc; auto.
    constructor. eauto. eapply Forall_impl; [|exact H2]. intros x (mb' & k & E1 & E2). exists mb', k. split; auto.
    rewrite D3 in E2. apply In_remove_first in E2; auto.
Qed.
Lemma completion_labels wid s s' : completion fx wid s = Some s' ->
  exists add, c_lab s' = c_lab s ++ add /\
    Forall (fun x => exists mb n, x = LCancel wid (t_addr (rt_task (c_rt s))) mb n /\ In mb (rt_owned (c_rt s))) add.
Proof. unfold completion. destruct fx. apply completion_loop_copy_labels. apply completion_loop_py_labels. Qed.

Lemma desired_result_spec wid rt boxes boxes1 rt1 l1 : desired_result wid rt boxes = Some (boxes1, rt1, l1) ->
  rt_task rt1 = rt_task rt /\ (forall mb, In mb (rt_owned rt1) -> In mb (rt_owned rt))
  /\ Forall (fun l => exists a mb nx vals, l = LObs wid a mb nx vals /\ lookup_b mb boxes <> None) l1.
Proof.
  unfold desired_result. intros H. destruct (rt_desired rt) as [mb|]; [|inv H; auto].
  destruct (lookup_b mb boxes) eqn:L; [|discriminate].
  repeat dmH H; inv H; simpl; repeat split; auto.
  - constructor; auto. do 4 eexists. split; eauto. congruence.
  - intros x. apply In_remove_first.
  - constructor; auto. do 4 eexists. split; eauto. congruence.
Qed.

Lemma raise_path_spec w rt k out lab w' out' lab' : raise_path w rt k out lab = (w', out', lab') ->
  w_tasks w' = put_t (t_addr (rt_task rt)) rt (w_tasks w) /\ w_delayed w' = w_delayed w /\ w_ready w' = w_ready w
  /\ exists e, lab' = lab ++ [e] /\ (forall w0, lab_ok w0 e).
Proof. unfold raise_path. intros H. dmH H; inv H; simpl; repeat split; auto; eexists; split; eauto; simpl; auto. Qed.

Lemma handle_result_labels ra v w w' l : handle_result ra v w = Some (w', l) -> forall w0, Forall (lab_ok w0) l.
Proof. unfold handle_result. destruct ra as [[x y] z]. intros H w0. repeat dmH H; inv H; auto. constructor; simpl; auto. Qed.

Lemma keys_ok_put_same w a rt : keys_ok w -> t_addr (rt_task rt) = a -> forall x rt', In (x, rt') (put_t a rt (w_tasks w)) -> t_addr (rt_task rt') = x.
Proof. intros K E x rt' H. apply In_put_inv in H. destruct H as [H|H]. inv H; auto. apply K; auto. Qed.

Lemma wstep_labels P w0 w' out lab : wstep fx f8 P w0 = Some (w', out, lab) -> keys_ok w0 ->
  Forall (lab_ok w0) lab /\ keys_ok w'.
Proof.
  unfold wstep. intros H KO. dmH H; [discriminate|].
  destruct (select f8 w0) as [[[o w] out0] lab0] eqn:S.
  pose proof (select_env _ _ _ _ _ S) as (S1 & S2 & S3 & S4).
  apply select_spec in S; auto. destruct S as (F0 & KW & SP).
  destruct o as [rt0|]; [|inv H; auto].
  destruct (SP rt0 eq_refl) as (DD & LW & OW).
  set (a := t_addr (rt_task rt0)) in *.
  assert (F1 : Forall (lab_ok w0) (lab0 ++ [LRun (w_id w) (rt_task rt0)])).
  { apply Forall_app; split; auto. constructor; auto. simpl. auto. }
  assert (OWN : forall mb, In mb (rt_owned rt0) -> exists rt, lookup_t a (w_tasks w0) = Some rt /\ In mb (rt_owned rt)).
  { intros mb M. destruct OW as [OW|OW]. eauto. rewrite OW in M. destruct M. }
  destruct (desired_result (w_id w) rt0 (w_boxes w)) as [[[boxes1 rt1] l1]|] eqn:DR.
  2:{ destruct (raise_path w rt0 K_INTERNAL out0 (lab0 ++ [LRun (w_id w) (rt_task rt0)])) as [[w1 o1] lb1] eqn:RP.
      inv H. apply raise_path_spec in RP. destruct RP as (T1 & _ & _ & e & E1 & E2). subst. split.
      apply Forall_app; split; auto.
      intros x rt' IN. rewrite T1 in IN. eapply (keys_ok_put_same w); [exact KW| |exact IN]; auto. }
  apply desired_result_spec in DR. destruct DR as (DT & DO & DL).
  assert (F2 : Forall (lab_ok w0) ((lab0 ++ [LRun (w_id w) (rt_task rt0)]) ++ l1)).
  { apply Forall_app; split; auto. eapply Forall_impl; [|exact DL]. intros l (a' & mb & nx & vals & E & N). subst. simpl.
    rewrite <- S3. auto. }
  destruct (nth_error P (t_prog (rt_task (reset_await rt1)))) as [prog|] eqn:NP.
  2:{ match type of H with context[raise_path ?a ?b ?c ?d ?e] => destruct (raise_path a b c d e) as [[w1 o1] lb1] eqn:RP end.
      inv H. apply raise_path_spec in RP. destruct RP as (T1 & _ & _ & e & E1 & E2). subst. split.
      apply Forall_app; split; auto.
      intros x rt' IN. rewrite T1 in IN. simpl in IN. eapply (keys_ok_put_same w); [exact KW| |exact IN]; simpl; rewrite DT; auto. }
  match type of H with context[run_instrs ?a ?b ?c] => destruct (run_instrs a b c) as [oc s] eqn:RI end.
  apply run_instrs_labels in RI. simpl in RI. destruct RI as (RT & RO & add & RL & RF).
  rewrite DT in *. fold a in RF.
  assert (F3 : Forall (lab_ok w0) (c_lab s)).
  { rewrite RL. apply Forall_app; split; auto. eapply Forall_impl; [|exact RF].
    intros l (mb & n & E & C). subst. simpl. split; auto. destruct C as [C|C]. left. lia. right. apply OWN. apply DO. auto. }
  assert (OWN2 : forall mb, In mb (rt_owned (c_rt s)) -> w_counter w0 <= mb \/ exists rt, lookup_t a (w_tasks w0) = Some rt /\ In mb (rt_owned rt)).
  { intros mb M. apply RO in M. destruct M as [M|M]. left; lia. right. apply OWN. apply DO. auto. }
  destruct oc as [mb nx| |k].
  - destruct (lookup_b mb (c_boxes s)) eqn:L.
    + inv H. split; auto. assert (KK : forall x rt', In (x, rt') (put_t a (mkRt (rt_task (c_rt s)) (rt_pc (c_rt s)) (rt_futs (c_rt s)) (rt_owned (c_rt s)) (Some mb) nx) (w_tasks w)) -> t_addr (rt_task rt') = x).
      { intros x rt' IN. eapply (keys_ok_put_same w); [exact KW| |exact IN]. simpl. rewrite RT. auto. }
      dmG; intros x rt' IN; simpl in IN; apply KK; auto.
    + match type of H with context[raise_path ?a ?b ?c ?d ?e] => destruct (raise_path a b c d e) as [[w1 o1] lb1] eqn:RP end.
      inv H. apply raise_path_spec in RP. destruct RP as (T1 & _ & _ & e & E1 & E2). subst. split.
      apply Forall_app; split; auto.
      intros x rt' IN. rewrite T1 in IN. simpl in IN. eapply (keys_ok_put_same w); [exact KW| |exact IN]; rewrite RT; auto.
  - match type of H with context[match ?x with Some _ => _ | None => None end] => destruct x as [[[w2 out2] lab2]|] eqn:SH end; [|discriminate].
    match type of H with context[completion ?a ?b ?c] => destruct (completion a b c) as [s2|] eqn:CL end; [|discriminate].
    inv H. apply completion_labels in CL. simpl in CL. destruct CL as (add2 & CL1 & CL2).
    assert (W2 : Forall (lab_ok w0) lab2 /\ w_tasks w2 = w_tasks w).
    { fold a in SH. destruct a as [[dst x1] x2]. destruct (dst =? w_id w).
      - match type of SH with context[handle_result ?a ?b ?c] => destruct (handle_result a b c) as [[w2' l2]|] eqn:HR end; [|discriminate].
        inv SH. pose proof (handle_result_fields _ _ _ _ _ HR) as HF. simpl in HF. split; [|tauto].
        apply Forall_app; split. apply Forall_app; split; auto. constructor; simpl; auto.
        eapply handle_result_labels; eauto.
      - inv SH. simpl. split; auto. apply Forall_app; split; auto. constructor; simpl; auto. }
    destruct W2 as [W2a W2b]. split.
    + apply Forall_app; split; [|constructor; simpl; auto]. rewrite CL1. apply Forall_app; split; auto.
      eapply Forall_impl; [|exact CL2]. intros l (mb & n & E & M). subst. simpl. rewrite RT. split; auto.
    + intros x rt' IN. simpl in IN. rewrite W2b in IN. apply In_remove in IN. apply KW. tauto. apply addr_eqb_eq.
  - match type of H with context[raise_path ?a ?b ?c ?d ?e] => destruct (raise_path a b c d e) as [[w1 o1] lb1] eqn:RP end.
    inv H. apply raise_path_spec in RP. destruct RP as (T1 & _ & _ & e & E1 & E2). subst. split.
    apply Forall_app; split; auto.
    intros x rt' IN. rewrite T1 in IN. simpl in IN. eapply (keys_ok_put_same w); [exact KW| |exact IN]; rewrite RT; auto.
Qed.

(* ------------------------------------------------------------------ system level: inversion of [step] *)
Definition wrecv (m : msg) (ws : wstate) : option (wstate * list label) :=
  match m with
  | MSubmit t => Some (recv_submit t ws, [])
  | MBatch ts => match recv_batch ts ws with None => None | Some w1 => Some (w1, []) end
  | MResult ra v _ => handle_result ra v ws
  | MCancel a => handle_cancel a ws
  | _ => None
  end.

Lemma step_down P s w s' l : step fx f8 P s (EDown w) = Some (s', l) ->
  exists m q ws ws', nth_error (sy_down s) w = Some (m :: q) /\ nth_error (sy_workers s) w = Some ws
    /\ wrecv m ws = Some (ws', l)
    /\ s' = mkSys (set_nth w ws' (sy_workers s)) (sy_server s) (sy_up s) (set_nth w q (sy_down s)) (sy_cli s) (sy_issued s).
Proof.
  unfold step. intros H.
  destruct (nth_error (sy_down s) w) as [[|m q]|] eqn:D; try discriminate.
  destruct (nth_error (sy_workers s) w) as [ws|] eqn:W; try discriminate.
  fold (wrecv m ws) in H. destruct (wrecv m ws) as [[ws1 lab]|] eqn:R; [|discriminate].
  inv H. do 4 eexists. repeat split; eauto.
Qed.

Lemma step_step P s w s' l : step fx f8 P s (EStep w) = Some (s', l) ->
  exists ws q ws' out, nth_error (sy_workers s) w = Some ws /\ nth_error (sy_up s) w = Some q
    /\ wstep fx f8 P ws = Some (ws', out, l)
    /\ s' = mkSys (set_nth w ws' (sy_workers s)) (sy_server s) (set_nth w (q ++ out) (sy_up s)) (sy_down s)
                  (sy_cli s) (sy_issued s ++ cancels_of out).
Proof.
  unfold step. intros H.
  destruct (nth_error (sy_workers s) w) as [ws|] eqn:W; try discriminate.
  destruct (nth_error (sy_up s) w) as [q|] eqn:U; try discriminate.
  destruct (wstep fx f8 P ws) as [[[ws1 out] lab]|] eqn:R; [|discriminate].
  inv H. do 4 eexists. repeat split; eauto.
Qed.

Lemma step_up P s w asg s' l : step fx f8 P s (EUp w asg) = Some (s', l) ->
  exists m q srv o lab, nth_error (sy_up s) w = Some (m :: q)
    /\ sup (length (sy_workers s)) m asg (sy_server s) = Some (srv, o, lab)
    /\ s' = apply_sout o [] srv (mkSys (sy_workers s) (sy_server s) (set_nth w q (sy_up s)) (sy_down s) (sy_cli s) (sy_issued s))
    /\ l = lab ++ map (fun p => LToClient (fst p) (snd p)) (o_cli o).
Proof.
  unfold step. intros H.
  destruct (nth_error (sy_up s) w) as [[|m q]|] eqn:U; try discriminate.
  destruct (sup (length (sy_workers s)) m asg (sy_server s)) as [[[srv o] lab]|] eqn:R; [|discriminate].
  inv H. do 5 eexists. repeat split; eauto.
Qed.

Lemma step_client P s c r asg s' l : step fx f8 P s (EClient c r asg) = Some (s', l) ->
  exists srv o iss, sreq (length (sy_workers s)) c r asg (sy_server s) = Some (srv, o, iss)
    /\ s' = apply_sout o iss srv s /\ l = map (fun p => LToClient (fst p) (snd p)) (o_cli o).
Proof.
  unfold step. intros H.
  destruct (sreq (length (sy_workers s)) c r asg (sy_server s)) as [[[srv o] iss]|] eqn:R; [|discriminate].
  inv H. do 3 eexists. eauto.
Qed.

Lemma nth_error_set_nth_same {A} k (x y : A) l : nth_error l k = Some y -> nth_error (set_nth k x l) k = Some x.
Proof. revert k. induction l as [|z l IH]; intros [|k] H; simpl in *; try discriminate; auto. Qed.
Lemma nth_error_set_nth_other {A} k j (x : A) l : j <> k -> nth_error (set_nth k x l) j = nth_error l j.
Proof. revert k j. induction l as [|z l IH]; intros [|k] [|j] H; simpl in *; auto. congruence. Qed.
Lemma length_set_nth {A} k (x : A) l : length (set_nth k x l) = length l.
Proof. revert k. induction l as [|z l IH]; intros [|k]; simpl; auto. Qed.

(* what the receiving thread does to the fields the theorems talk about *)
Lemma wrecv_fields m ws ws' l : wrecv m ws = Some (ws', l) -> keys_ok ws ->
  keys_ok ws' /\ w_id ws' = w_id ws /\ bext (w_boxes ws) (w_counter ws) (w_boxes ws') (w_counter ws')
  /\ (forall c, In c (w_cancelled ws) -> In c (w_cancelled ws'))
  /\ (forall c, m = MCancel c -> In c (w_cancelled ws')).
Proof.
  intros H KO. destruct m; simpl in H; try discriminate.
  - inv H. unfold recv_submit, add_task. simpl. split. apply keys_ok_put; auto.
    split; auto. split. apply bext_refl. split; auto. intros; discriminate.
  - unfold recv_batch in H. destruct (rev ts) as [|lst rr]; [discriminate|]. inv H. simpl.
    split. apply keys_ok_put; auto. split; auto. split. apply bext_refl. split; auto. intros; discriminate.
  - pose proof (handle_result_fields _ _ _ _ _ H) as (B & I & C & T & _). split.
    intros a rt IN. rewrite T in IN. apply KO; auto. split; auto. split; auto. rewrite C. split; auto. intros; discriminate.
  - pose proof (handle_cancel_fields _ _ _ _ H) as (B & I & C & _). split.
    + unfold handle_cancel in H. destruct (cancel_tasks (w_id ws) a (w_tasks ws) (w_boxes ws)) as [[[ts' b'] l']|] eqn:CT; [|discriminate].
      inv H. simpl. clear - CT KO. unfold keys_ok in *. revert KO CT. generalize (w_boxes ws). generalize (w_tasks ws). intros ts. revert ts' b' l'.
      induction ts as [|[k rt] r IH]; intros ts' b' l' b KO CT; simpl in CT. inv CT. simpl; tauto.
      destruct (desc a (rt_task rt)).
      * destruct (pop_boxes (rt_owned rt) b); [|discriminate]. destruct (cancel_tasks (w_id ws) a r l) as [[[? ?] ?]|] eqn:C2; [|discriminate].
        inv CT. eapply IH; eauto. intros; apply KO; simpl; auto.
      * destruct (cancel_tasks (w_id ws) a r b) as [[[? ?] ?]|] eqn:C2; [|discriminate]. inv CT.
        intros x rt' [IN|IN]. inv IN. apply KO; simpl; auto. eapply IH; eauto. intros; apply KO; simpl; auto.
    + split; auto. split; auto. split. intros c IN. apply C; auto. intros c E. inv E. apply C; auto.
Qed.

Record winv (s : sys) : Prop := {
  wi_len_up : length (sy_up s) = length (sy_workers s);
  wi_len_down : length (sy_down s) = length (sy_workers s);
  wi_keys : forall k ws, nth_error (sy_workers s) k = Some ws -> keys_ok ws /\ w_id ws = S k
}.

Lemma nth_error_seq_map {A} (f : nat -> A) n k : k < n -> nth_error (map f (seq 0 n)) k = Some (f k).
Proof. intros. rewrite nth_error_map. rewrite nth_error_nth' with (d := 0) by (rewrite seq_length; auto).
  rewrite seq_nth; auto. Qed.

Lemma winv_init nw : winv (init_sys nw).
Proof. constructor; simpl. rewrite repeat_length, map_length, seq_length; auto. rewrite repeat_length, map_length, seq_length; auto.
  intros k ws H. assert (k < nw). { assert (N : nth_error (map (fun k0 => init_worker (S k0)) (seq 0 nw)) k <> None) by congruence.
    apply nth_error_Some in N. rewrite map_length, seq_length in N. auto. }
  rewrite nth_error_seq_map in H by auto. inv H. simpl. split; auto. intros a rt []. Qed.

(* ------------------------------------------------------------------ every CANCEL a step issues is for a mailbox it dropped *)
Lemma cancels_of_app a b : cancels_of (a ++ b) = cancels_of a ++ cancels_of b.
Proof. induction a as [|m a IH]; simpl; auto. destruct m; simpl; auto. rewrite IH; auto. Qed.
Lemma cancels_of_cancel_msgs wid mb n : forall i a, In a (cancels_of (cancel_msgs wid mb i n)) -> exists j, a = (wid, mb, j).
Proof. induction n as [|n IH]; intros i a H; simpl in H. destruct H. destruct H as [H|H]. eauto. eapply IH; eauto. Qed.

Definition outs_dropped (wid : nat) (b : list (nat * mbox)) (c : nat) (addo : list msg) : Prop :=
  forall a, In a (cancels_of addo) -> exists mb i, a = (wid, mb, i) /\ cdrop b c mb.
Definition labs_dropped (b : list (nat * mbox)) (c : nat) (addl : list label) : Prop :=
  forall w a mb n, In (LCancel w a mb n) addl -> cdrop b c mb.

Lemma do_cancel_out wid mb s s1 : do_cancel wid mb s = Some s1 -> blt (c_boxes s) (c_counter s) ->
  exists n, c_out s1 = c_out s ++ cancel_msgs wid mb 0 n
    /\ c_lab s1 = c_lab s ++ [LCancel wid (t_addr (rt_task (c_rt s))) mb n]
    /\ cdrop (c_boxes s1) (c_counter s1) mb.
Proof. unfold do_cancel. intros H B. destruct (lookup_b mb (c_boxes s)) eqn:L; [|discriminate].
  destruct (mem_nat mb (rt_owned (c_rt s))); inv H. simpl. eexists. split; eauto. split; eauto. split.
  apply lb_remove_same. apply B. congruence. Qed.

Lemma outs_dropped_mono wid b c b' c' o : bext b c b' c' -> outs_dropped wid b c o -> outs_dropped wid b' c' o.
Proof. intros E H a IN. destruct (H a IN) as (mb & i & A & D). exists mb, i. split; auto. eapply bext_cdrop; eauto. Qed.
Lemma labs_dropped_mono b c b' c' o : bext b c b' c' -> labs_dropped b c o -> labs_dropped b' c' o.
Proof. intros E H w a mb n IN. eapply bext_cdrop; eauto. Qed.

Lemma outs_dropped_nil wid b c : outs_dropped wid b c []. Proof. intros a []. Qed.
Lemma labs_dropped_nil b c : labs_dropped b c []. Proof. intros w a mb n []. Qed.

Lemma run_instrs_cancels wid is : forall s o s', run_instrs wid is s = (o, s') -> blt (c_boxes s) (c_counter s) ->
  exists addo addl, c_out s' = c_out s ++ addo /\ c_lab s' = c_lab s ++ addl
    /\ outs_dropped wid (c_boxes s') (c_counter s') addo /\ labs_dropped (c_boxes s') (c_counter s') addl.
Proof.
  induction is as [|i rest IH]; intros s o s' H B; simpl in H.
  - inv H. exists [], []. rewrite !app_nil_r. split; auto. split; auto. split. apply outs_dropped_nil. apply labs_dropped_nil.
  - destruct i.
    + apply IH in H; [|simpl; eapply bext_blt; [apply bext_new|auto]]. simpl in H.
      destruct H as (addo & addl & H1 & H2 & H3 & H4). eexists (_ :: addo), addl. rewrite H1, <- app_assoc. simpl.
      repeat (split; auto).
    + destruct ps as [|p ps]. inv H. exists [], []. simpl. rewrite !app_nil_r. split; auto. split; auto. split. apply outs_dropped_nil. apply labs_dropped_nil.
      apply IH in H; [|simpl; eapply bext_blt; [apply bext_new|auto]]. simpl in H.
      destruct H as (addo & addl & H1 & H2 & H3 & H4). eexists (_ :: addo), addl. rewrite H1, <- app_assoc. simpl.
      repeat (split; auto).
    + repeat dmH H; inv H; simpl; exists [], []; rewrite !app_nil_r; (split; [auto|split; [auto|split; [apply outs_dropped_nil|apply labs_dropped_nil]]]).
    + repeat dmH H; inv H; simpl; exists [], []; rewrite !app_nil_r; (split; [auto|split; [auto|split; [apply outs_dropped_nil|apply labs_dropped_nil]]]).
    + destruct (nth_error (rt_futs (c_rt s)) f) eqn:E;
        [|inv H; simpl; exists [], []; rewrite !app_nil_r; (split; [auto|split; [auto|split; [apply outs_dropped_nil|apply labs_dropped_nil]]])].
      match type of H with context[do_cancel ?a ?b ?c] => destruct (do_cancel a b c) eqn:D end;
        [|inv H; simpl; exists [], []; rewrite !app_nil_r; (split; [auto|split; [auto|split; [apply outs_dropped_nil|apply labs_dropped_nil]]])].
      pose proof (do_cancel_bext _ _ _ _ D) as DB. simpl in DB.
      apply do_cancel_out in D; [|simpl; auto]. simpl in D. destruct D as (n0 & D1 & D2 & D3).
      pose proof (run_instrs_bext _ _ _ _ _ H) as RB.
      apply IH in H; [|eapply bext_blt; eauto].
      destruct H as (addo & addl & H1 & H2 & H3 & H4).
      exists (cancel_msgs wid n 0 n0 ++ addo), (LCancel wid (t_addr (rt_task (c_rt s))) n n0 :: addl).
      rewrite H1, H2, D1, D2, <- !app_assoc. simpl. split; auto. split; auto. split.
      * intros a IN. rewrite cancels_of_app in IN. apply in_app_or in IN. destruct IN as [IN|IN]; auto.
        apply cancels_of_cancel_msgs in IN. destruct IN as [j IN]. exists n, j. split; auto. eapply bext_cdrop; eauto.
      * intros w a mb k [IN|IN]. inv IN. eapply bext_cdrop; eauto. eapply H4; eauto.
Qed.

Lemma completion_loop_py_cancels fuel wid : forall i s s', completion_loop_py fuel wid i s = Some s' -> blt (c_boxes s) (c_counter s) ->
  exists addo addl, c_out s' = c_out s ++ addo /\ c_lab s' = c_lab s ++ addl
    /\ outs_dropped wid (c_boxes s') (c_counter s') addo /\ labs_dropped (c_boxes s') (c_counter s') addl.
Proof.
  induction fuel as [|fuel IH]; intros i s s' H B; simpl in H.
  - inv H. exists [], []. rewrite !app_nil_r. split; auto. split; auto. split. apply outs_dropped_nil. apply labs_dropped_nil.
  - destruct (nth_error (rt_owned (c_rt s)) i) eqn:E;
      [|inv H; exists [], []; rewrite !app_nil_r; (split; [auto|split; [auto|split; [apply outs_dropped_nil|apply labs_dropped_nil]]])].
    destruct (lookup_b n (c_boxes s)) eqn:L; [|discriminate].
    destruct (box_ready m).
    + apply IH in H; [|simpl; eapply bext_blt; [apply bext_remove|auto]]. simpl in H. exact H.
    + destruct (do_cancel wid n s) eqn:D; [|discriminate].
      pose proof (do_cancel_bext _ _ _ _ D) as DB.
      apply do_cancel_out in D; auto. destruct D as (n0 & D1 & D2 & D3).
      pose proof (completion_loop_py_bext _ _ _ _ _ H) as RB.
      apply IH in H; [|eapply bext_blt; eauto].
      destruct H as (addo & addl & H1 & H2 & H3 & H4).
      exists (cancel_msgs wid n 0 n0 ++ addo), (LCancel wid (t_addr (rt_task (c_rt s))) n n0 :: addl).
      rewrite H1, H2, D1, D2, <- !app_assoc. simpl. split; auto. split; auto. split.
      * intros a IN. rewrite cancels_of_app in IN. apply in_app_or in IN. destruct IN as [IN|IN]; auto.
        apply cancels_of_cancel_msgs in IN. destruct IN as [j IN]. exists n, j. split; auto. eapply bext_cdrop; eauto.
      * intros w a mb k [IN|IN]. inv IN. eapply bext_cdrop; eauto. eapply H4; eauto.
Qed.

Lemma completion_loop_copy_cancels wid l : forall s s', completion_loop_copy wid l s = Some s' -> blt (c_boxes s) (c_counter s) ->
  exists addo addl, c_out s' = c_out s ++ addo /\ c_lab s' = c_lab s ++ addl
    /\ outs_dropped wid (c_boxes s') (c_counter s') addo /\ labs_dropped (c_boxes s') (c_counter s') addl.
Proof.
  induction l as [|mb r IH]; intros s s' H B; simpl in H.
  - inv H. exists [], []. rewrite !app_nil_r. split; auto. split; auto. split. apply outs_dropped_nil. apply labs_dropped_nil.
  - destruct (lookup_b mb (c_boxes s)) eqn:L; [|discriminate]. destruct (box_ready m).
    + apply IH in H; [|simpl; eapply bext_blt; [apply bext_remove|auto]]. simpl in H. exact H.
    + destruct (do_cancel wid mb s) eqn:D; [|discriminate].
      pose proof (do_cancel_bext _ _ _ _ D) as DB.
      apply do_cancel_out in D; auto. destruct D as (n0 & D1 & D2 & D3).
      pose proof (completion_loop_copy_bext _ _ _ _ H) as RB.
      apply IH in H; [|eapply bext_blt; eauto].
      destruct H as (addo & addl & H1 & H2 & H3 & H4).
      exists (cancel_msgs wid mb 0 n0 ++ addo), (LCancel wid (t_addr (rt_task (c_rt s))) mb n0 :: addl).
      rewrite H1, H2, D1, D2, <- !app_assoc. simpl. split; auto. split; auto. split.
      * intros a IN. rewrite cancels_of_app in IN. apply in_app_or in IN. destruct IN as [IN|IN]; auto.
        apply cancels_of_cancel_msgs in IN. destruct IN as [j IN]. exists mb, j. split; auto. eapply bext_cdrop; eauto.
      * intros w a mb' k [IN|IN]. inv IN. eapply bext_cdrop; eauto. eapply H4; eauto.
Qed.
Lemma completion_cancels wid s s' : completion fx wid s = Some s' -> blt (c_boxes s) (c_counter s) ->
  exists addo addl, c_out s' = c_out s ++ addo /\ c_lab s' = c_lab s ++ addl
    /\ outs_dropped wid (c_boxes s') (c_counter s') addo /\ labs_dropped (c_boxes s') (c_counter s') addl.
Proof. unfold completion. destruct fx. apply completion_loop_copy_cancels. apply completion_loop_py_cancels. Qed.


Definition nocl (l : list label) : Prop := forall w a mb n, ~ In (LCancel w a mb n) l.
Lemma nocl_nil : nocl []. Proof. intros w a mb n []. Qed.
Lemma nocl_app a b : nocl a -> nocl b -> nocl (a ++ b).
Proof. intros A B w x mb n IN. apply in_app_or in IN. destruct IN; [eapply A|eapply B]; eauto. Qed.

Lemma sel_ready_nocl : forall ready w lab o w1 r lab', sel_ready f8 w ready lab = (o, w1, r, lab') -> nocl lab -> nocl lab'.
Proof. induction ready as [|a rd IH]; intros w lab o w1 r lab' H N; simpl in H. inv H; auto.
  destruct (runnable w a). inv H; auto. eapply IH; eauto. apply nocl_app; auto.
  intros x y mb n [IN|[]]. discriminate. Qed.
Lemma sel_delayed_nocl : forall rdel w lab o w1 lab1, sel_delayed f8 w rdel lab = (o, w1, lab1) -> nocl lab -> nocl lab1.
Proof. induction rdel as [|t rest IH]; intros w lab o w1 lab1 H N; simpl in H. inv H; auto.
  dmH H. inv H; auto. eapply IH; eauto. apply nocl_app; auto. intros x y mb n [IN|[]]. discriminate. Qed.
Lemma select_nocl w o w1 out lab : select f8 w = (o, w1, out, lab) -> cancels_of out = [] /\ nocl lab.
Proof. unfold select. intros H.
  destruct (sel_ready f8 w (w_ready w) []) as [[[o1 w'] r] lab1] eqn:S. apply sel_ready_nocl in S; [|apply nocl_nil].
  destruct o1. inv H; auto.
  destruct (sel_delayed f8 (set_ready [] w') (rev (w_delayed w')) lab1) as [[o2 w2] lab2] eqn:D.
  apply sel_delayed_nocl in D; auto. destruct o2; inv H; auto. Qed.

Lemma labs_dropped_nocl b c l : nocl l -> labs_dropped b c l.
Proof. intros N w a mb n IN. exfalso. eapply N; eauto. Qed.
Lemma labs_dropped_app b c l1 l2 : labs_dropped b c l1 -> labs_dropped b c l2 -> labs_dropped b c (l1 ++ l2).
Proof. intros A B w a mb n IN. apply in_app_or in IN. destruct IN; [eapply A|eapply B]; eauto. Qed.
Lemma outs_dropped_app wid b c l1 l2 : outs_dropped wid b c l1 -> outs_dropped wid b c l2 -> outs_dropped wid b c (l1 ++ l2).
Proof. intros A B a IN. rewrite cancels_of_app in IN. apply in_app_or in IN. destruct IN; [eapply A|eapply B]; eauto. Qed.
Lemma outs_dropped_none wid b c l : cancels_of l = [] -> outs_dropped wid b c l.
Proof. intros E a IN. rewrite E in IN. destruct IN. Qed.

Lemma raise_path_out w rt k out lab w' out' lab' : raise_path w rt k out lab = (w', out', lab') ->
  exists addo e, out' = out ++ addo /\ cancels_of addo = [] /\ lab' = lab ++ [e] /\ nocl [e].
Proof. unfold raise_path. intros H. dmH H; inv H.
  exists [], (LErr (w_id w) (t_addr (rt_task rt)) k false). rewrite app_nil_r. repeat split; auto. intros x y mb n [IN|[]]; discriminate.
  eexists [_], _. repeat split; eauto. intros x y mb n [IN|[]]; discriminate. Qed.

Lemma desired_result_nocl wid rt boxes boxes1 rt1 l1 : desired_result wid rt boxes = Some (boxes1, rt1, l1) -> nocl l1.
Proof. unfold desired_result. intros H. repeat dmH H; inv H; try apply nocl_nil; intros ? ? ? ? [IN|[]]; discriminate. Qed.

Lemma handle_result_nocl ra v w w' l : handle_result ra v w = Some (w', l) -> nocl l.
Proof. unfold handle_result. destruct ra as [[x y] z]. intros H. repeat dmH H; inv H; try apply nocl_nil.
  intros ? ? ? ? [IN|[]]; discriminate. Qed.

Lemma wstep_cancels P w0 w' out lab : wstep fx f8 P w0 = Some (w', out, lab) -> blt (w_boxes w0) (w_counter w0) ->
  outs_dropped (w_id w0) (w_boxes w') (w_counter w') out /\ labs_dropped (w_boxes w') (w_counter w') lab
  /\ blt (w_boxes w') (w_counter w').
Proof.
  intros H B. pose proof (wstep_fields _ _ _ _ _ H) as (FB & FI & FC).
  split; [|split; [|eapply bext_blt; eauto]].
  - (* out *)
    revert H. unfold wstep. intros H. dmH H; [discriminate|].
    destruct (select f8 w0) as [[[o w] out0] lab0] eqn:S.
    pose proof (select_env _ _ _ _ _ S) as (S1 & S2 & S3 & S4). apply select_nocl in S. destruct S as [SO SL].
    destruct o as [rt0|]; [|inv H; apply outs_dropped_none; auto].
    destruct (desired_result (w_id w) rt0 (w_boxes w)) as [[[boxes1 rt1] l1]|] eqn:DR.
    2:{ match type of H with context[raise_path ?a ?b ?c ?d ?e] => destruct (raise_path a b c d e) as [[w1 o1] lb1] eqn:RP end.
        inv H. apply raise_path_out in RP. destruct RP as (addo & e & E1 & E2 & _). subst. apply outs_dropped_none.
        rewrite cancels_of_app, SO, E2; auto. }
    pose proof (desired_result_bext _ _ _ _ _ _ (w_counter w) DR) as DB.
    destruct (nth_error P (t_prog (rt_task (reset_await rt1)))) as [prog|] eqn:NP.
    2:{ match type of H with context[raise_path ?a ?b ?c ?d ?e] => destruct (raise_path a b c d e) as [[w1 o1] lb1] eqn:RP end.
        inv H. apply raise_path_out in RP. destruct RP as (addo & e & E1 & E2 & _). subst. apply outs_dropped_none.
        rewrite cancels_of_app, SO, E2; auto. }
    match type of H with context[run_instrs ?a ?b ?c] => destruct (run_instrs a b c) as [oc s] eqn:RI end.
    assert (B1 : blt boxes1 (w_counter w)). { eapply bext_blt; eauto. rewrite S3, S4; auto. }
    pose proof (run_instrs_bext _ _ _ _ _ RI) as RB. simpl in RB.
    apply run_instrs_cancels in RI; [|simpl; auto]. simpl in RI. destruct RI as (addo & addl & R1 & R2 & R3 & R4).
    rewrite S1 in R3.
    assert (O0 : forall b c, outs_dropped (w_id w0) b c out0) by (intros; apply outs_dropped_none; auto).
    destruct oc as [mb nx| |k].
    + destruct (lookup_b mb (c_boxes s)) eqn:L.
      * inv H. rewrite R1. apply outs_dropped_app; auto.
        eapply outs_dropped_mono; [|exact R3].
        assert (bext (c_boxes s) (c_counter s) (put_b mb (set_dest (Some (t_addr (rt_task rt0))) m) (c_boxes s)) (c_counter s)) by (apply bext_put_old; congruence).
        dmG; simpl; auto.
      * match type of H with context[raise_path ?a ?b ?c ?d ?e] => destruct (raise_path a b c d e) as [[w1 o1] lb1] eqn:RP end.
        inv H. pose proof (raise_path_env _ _ _ _ _ _ _ _ RP) as (E1 & E2 & E3 & E4). simpl in *.
        apply raise_path_out in RP. destruct RP as (addo2 & e & X1 & X2 & _). subst. rewrite R1, E3, E4.
        apply outs_dropped_app; [apply outs_dropped_app; auto|apply outs_dropped_none; auto].
    + match type of H with context[match ?x with Some _ => _ | None => None end] => destruct x as [[[w2 out2] lab2]|] eqn:SH end; [|discriminate].
      match type of H with context[completion ?a ?b ?c] => destruct (completion a b c) as [s2|] eqn:CL end; [|discriminate].
      inv H. simpl.
      assert (W2 : bext (c_boxes s) (c_counter s) (w_boxes w2) (w_counter w2) /\ exists x, out2 = c_out s ++ [x] /\ cancels_of [x] = []).
      { destruct (t_addr (rt_task rt0)) as [[dst x1] x2]. destruct (dst =? w_id w).
        - match type of SH with context[handle_result ?a ?b ?c] => destruct (handle_result a b c) as [[w2' l2]|] eqn:HR end; [|discriminate].
          inv SH. pose proof (handle_result_fields _ _ _ _ _ HR) as HF. simpl in HF. split; [tauto|]. eexists; split; eauto.
        - inv SH. simpl. split; [apply bext_refl|]. eexists; split; eauto. }
      destruct W2 as (W2a & x & W2b & W2c). subst out2.
      pose proof (completion_bext _ _ _ CL) as CB. pose proof (completion_counter _ _ _ CL) as CC. simpl in CB, CC.
      apply completion_cancels in CL; [|simpl; eapply bext_blt; [exact W2a|eapply bext_blt; eauto]].
      simpl in CL. destruct CL as (addo2 & addl2 & C1 & C2 & C3 & C4). rewrite C1, R1. rewrite S1 in C3. rewrite <- CC.
      apply outs_dropped_app; auto. apply outs_dropped_app; [apply outs_dropped_app; auto|apply outs_dropped_none; auto].
      eapply outs_dropped_mono; [|exact R3]. eapply bext_trans; eauto.
    + match type of H with context[raise_path ?a ?b ?c ?d ?e] => destruct (raise_path a b c d e) as [[w1 o1] lb1] eqn:RP end.
      inv H. pose proof (raise_path_env _ _ _ _ _ _ _ _ RP) as (E1 & E2 & E3 & E4). simpl in *.
      apply raise_path_out in RP. destruct RP as (addo2 & e & X1 & X2 & _). subst. rewrite R1, E3, E4.
      apply outs_dropped_app; [apply outs_dropped_app; auto|apply outs_dropped_none; auto].
  - (* labels *)
    revert H. unfold wstep. intros H. dmH H; [discriminate|].
    destruct (select f8 w0) as [[[o w] out0] lab0] eqn:S.
    pose proof (select_env _ _ _ _ _ S) as (S1 & S2 & S3 & S4). apply select_nocl in S. destruct S as [SO SL].
    destruct o as [rt0|]; [|inv H; apply labs_dropped_nocl; auto].
    assert (L0 : nocl (lab0 ++ [LRun (w_id w) (rt_task rt0)])).
    { apply nocl_app; auto. intros x y mb n [IN|[]]; discriminate. }
    destruct (desired_result (w_id w) rt0 (w_boxes w)) as [[[boxes1 rt1] l1]|] eqn:DR.
    2:{ match type of H with context[raise_path ?a ?b ?c ?d ?e] => destruct (raise_path a b c d e) as [[w1 o1] lb1] eqn:RP end.
        inv H. apply raise_path_out in RP. destruct RP as (addo & e & E1 & E2 & E3 & E4). subst. apply labs_dropped_nocl.
        apply nocl_app; auto. }
    pose proof (desired_result_bext _ _ _ _ _ _ (w_counter w) DR) as DB.
    apply desired_result_nocl in DR.
    assert (L1 : nocl ((lab0 ++ [LRun (w_id w) (rt_task rt0)]) ++ l1)) by (apply nocl_app; auto).
    destruct (nth_error P (t_prog (rt_task (reset_await rt1)))) as [prog|] eqn:NP.
    2:{ match type of H with context[raise_path ?a ?b ?c ?d ?e] => destruct (raise_path a b c d e) as [[w1 o1] lb1] eqn:RP end.
        inv H. apply raise_path_out in RP. destruct RP as (addo & e & E1 & E2 & E3 & E4). subst. apply labs_dropped_nocl.
        apply nocl_app; auto. }
    match type of H with context[run_instrs ?a ?b ?c] => destruct (run_instrs a b c) as [oc s] eqn:RI end.
    assert (B1 : blt boxes1 (w_counter w)). { eapply bext_blt; eauto. rewrite S3, S4; auto. }
    pose proof (run_instrs_bext _ _ _ _ _ RI) as RB. simpl in RB.
    apply run_instrs_cancels in RI; [|simpl; auto]. simpl in RI. destruct RI as (addo & addl & R1 & R2 & R3 & R4).
    destruct oc as [mb nx| |k].
    + destruct (lookup_b mb (c_boxes s)) eqn:L.
      * inv H. rewrite R2. apply labs_dropped_app; [apply labs_dropped_nocl; auto|].
        eapply labs_dropped_mono; [|exact R4].
        assert (bext (c_boxes s) (c_counter s) (put_b mb (set_dest (Some (t_addr (rt_task rt0))) m) (c_boxes s)) (c_counter s)) by (apply bext_put_old; congruence).
        dmG; simpl; auto.
      * match type of H with context[raise_path ?a ?b ?c ?d ?e] => destruct (raise_path a b c d e) as [[w1 o1] lb1] eqn:RP end.
        inv H. pose proof (raise_path_env _ _ _ _ _ _ _ _ RP) as (E1 & E2 & E3 & E4). simpl in *.
        apply raise_path_out in RP. destruct RP as (addo2 & e & X1 & X2 & X3 & X4). subst. rewrite R2, E3, E4.
        apply labs_dropped_app; [apply labs_dropped_app; auto; apply labs_dropped_nocl; auto|apply labs_dropped_nocl; auto].
    + match type of H with context[match ?x with Some _ => _ | None => None end] => destruct x as [[[w2 out2] lab2]|] eqn:SH end; [|discriminate].
      match type of H with context[completion ?a ?b ?c] => destruct (completion a b c) as [s2|] eqn:CL end; [|discriminate].
      inv H. simpl.
      assert (W2 : bext (c_boxes s) (c_counter s) (w_boxes w2) (w_counter w2) /\ exists x, lab2 = c_lab s ++ x /\ nocl x).
      { destruct (t_addr (rt_task rt0)) as [[dst x1] x2]. destruct (dst =? w_id w).
        - match type of SH with context[handle_result ?a ?b ?c] => destruct (handle_result a b c) as [[w2' l2]|] eqn:HR end; [|discriminate].
          inv SH. pose proof (handle_result_fields _ _ _ _ _ HR) as HF. simpl in HF. split; [tauto|].
          eexists; split. rewrite <- app_assoc; eauto. apply nocl_app. intros a b mb n [IN|[]]; discriminate. eapply handle_result_nocl; eauto.
        - inv SH. simpl. split; [apply bext_refl|]. eexists; split; eauto. intros a b mb n [IN|[]]; discriminate. }
      destruct W2 as (W2a & x & W2b & W2c). subst lab2.
      pose proof (completion_bext _ _ _ CL) as CB. pose proof (completion_counter _ _ _ CL) as CC. simpl in CB, CC.
      apply completion_cancels in CL; [|simpl; eapply bext_blt; [exact W2a|eapply bext_blt; eauto]].
      simpl in CL. destruct CL as (addo2 & addl2 & C1 & C2 & C3 & C4). rewrite C2, R2. rewrite <- CC.
      apply labs_dropped_app; [|apply labs_dropped_nocl; intros a b mb n [IN|[]]; discriminate].
      apply labs_dropped_app; auto. apply labs_dropped_app; [apply labs_dropped_app; [apply labs_dropped_nocl; auto|]|apply labs_dropped_nocl; auto].
      eapply labs_dropped_mono; [|exact R4]. eapply bext_trans; eauto.
    + match type of H with context[raise_path ?a ?b ?c ?d ?e] => destruct (raise_path a b c d e) as [[w1 o1] lb1] eqn:RP end.
      inv H. pose proof (raise_path_env _ _ _ _ _ _ _ _ RP) as (E1 & E2 & E3 & E4). simpl in *.
      apply raise_path_out in RP. destruct RP as (addo2 & e & X1 & X2 & X3 & X4). subst. rewrite R2, E3, E4.
      apply labs_dropped_app; [apply labs_dropped_app; auto; apply labs_dropped_nocl; auto|apply labs_dropped_nocl; auto].
Qed.

(* ------------------------------------------------------------------ system invariant, part 1 *)
Lemma length_push_down d : forall ch, length (push_down d ch) = length ch.
Proof. induction d as [|[w m] d IH]; intros ch; simpl; auto. rewrite IH. destruct (nth_error ch w); auto. apply length_set_nth. Qed.

Lemma push_down_nth d : forall ch k q, nth_error ch k = Some q ->
  nth_error (push_down d ch) k = Some (q ++ map snd (filter (fun p => fst p =? k) d)).
Proof.
  induction d as [|[w m] d IH]; intros ch k q H; simpl. rewrite app_nil_r; auto.
  destruct (nth_error ch w) as [qw|] eqn:W.
  - destruct (Nat.eq_dec w k).
    + subst. rewrite Nat.eqb_refl. simpl. rewrite H in W. inv W.
      erewrite IH; [|eapply nth_error_set_nth_same; eauto]. rewrite <- app_assoc. auto.
    + rewrite (proj2 (Nat.eqb_neq w k)) by auto. apply IH. rewrite nth_error_set_nth_other; auto.
  - destruct (Nat.eq_dec w k). subst. congruence. rewrite (proj2 (Nat.eqb_neq w k)) by auto. apply IH; auto.
Qed.

Record sinv (s : sys) : Prop := {
  si_w : winv s;
  si_blt : forall k ws, nth_error (sy_workers s) k = Some ws -> blt (w_boxes ws) (w_counter ws);
  si_drop : forall k mb i ws, In (S k, mb, i) (sy_issued s) -> nth_error (sy_workers s) k = Some ws ->
              cdrop (w_boxes ws) (w_counter ws) mb
}.

Lemma sinv_init nw : sinv (init_sys nw).
Proof. constructor. apply winv_init.
  - intros k ws H. simpl in H. assert (k < nw).
    { assert (N : nth_error (map (fun k0 => init_worker (S k0)) (seq 0 nw)) k <> None) by congruence.
      apply nth_error_Some in N. rewrite map_length, seq_length in N. auto. }
    rewrite nth_error_seq_map in H by auto. inv H. simpl. intros mb N. simpl in N. congruence.
  - simpl. intros k mb i ws []. Qed.

Lemma nth_error_set_nth_inv {A} k j (x y : A) l : nth_error (set_nth k x l) j = Some y ->
  (j = k /\ y = x) \/ (j <> k /\ nth_error l j = Some y).
Proof. intros H. destruct (Nat.eq_dec j k). subst. left. split; auto.
  destruct (nth_error l k) eqn:E. erewrite nth_error_set_nth_same in H; eauto. congruence.
  assert (nth_error (set_nth k x l) k = None). { apply nth_error_None. rewrite length_set_nth. apply nth_error_None; auto. } congruence.
  right. split; auto. rewrite nth_error_set_nth_other in H; auto. Qed.

Lemma sreq_issued0 nw c r asg srv srv' o iss : sreq nw c r asg srv = Some (srv', o, iss) ->
  forall a, In a iss -> exists mb, a = (0, mb, 0).
Proof.
  assert (CC : forall conn id s s' o iss, cancel_comp nw conn id s = Some (s', o, iss) -> forall a, In a iss -> exists mb, a = (0, mb, 0)).
  { unfold cancel_comp. intros conn id s s' o0 iss0 H a IN. repeat dmH H; inv H; simpl in IN; try contradiction;
    (destruct IN as [IN|IN]; [subst; eauto|contradiction]). }
  assert (CA : forall conn ids s s' o iss, cancel_all nw conn ids s = Some (s', o, iss) -> forall a, In a iss -> exists mb, a = (0, mb, 0)).
  { induction ids as [|id rr IH]; intros s s' o0 iss0 H a IN; simpl in H. inv H. destruct IN.
    destruct (cancel_comp nw conn id s) as [[[s1 o1] i1]|] eqn:C1; [|discriminate].
    destruct (cancel_all nw conn rr s1) as [[[s2 o2] i2]|] eqn:C2; [|discriminate]. inv H.
    apply in_app_or in IN. destruct IN; [eapply CC|eapply IH]; eauto. }
  assert (DD : forall conn order s s' o iss, disconnect nw conn order s = Some (s', o, iss) -> forall a, In a iss -> exists mb, a = (0, mb, 0)).
  { unfold disconnect. intros conn order s s' o0 iss0 H a IN. repeat dmH H; inv H. eapply CA; eauto. }
  intros H a IN. destruct r; simpl in H.
  - repeat dmH H; inv H; destruct IN.
  - repeat dmH H; inv H; destruct IN.
  - repeat dmH H; try discriminate; try (inv H; destruct IN; fail). eapply DD; eauto.
  - eapply CC; eauto.
  - eapply DD; eauto.
Qed.

Lemma sinv_step P s e s' l : step fx f8 P s e = Some (s', l) -> sinv s -> sinv s'.
Proof.
  intros H [[LU LD WK] BL DR]. destruct e.
  - apply step_client in H. destruct H as (srv & o & iss & H1 & H2 & _). subst. unfold apply_sout. constructor; simpl.
    + constructor; simpl; auto. rewrite length_push_down; auto.
    + auto.
    + intros k mb i ws IN W. apply in_app_or in IN. destruct IN as [IN|IN]. eapply DR; eauto.
      eapply sreq_issued0 in H1; eauto. destruct H1 as [x E]. discriminate.
  - apply step_up in H. destruct H as (m & q & srv & o & lab & H1 & H2 & H3 & _). subst. unfold apply_sout. constructor; simpl.
    + constructor; simpl; auto. rewrite length_set_nth; auto. rewrite length_push_down; auto.
    + auto.
    + intros k mb i ws IN W. rewrite app_nil_r in IN. eapply DR; eauto.
  - apply step_down in H. destruct H as (m & q & ws & ws' & H1 & H2 & H3 & H4). subst.
    destruct (WK _ _ H2) as [K1 K2].
    pose proof (wrecv_fields _ _ _ _ H3 K1) as (F1 & F2 & F3 & F4 & F5).
    constructor; simpl.
    + constructor; simpl; rewrite ?length_set_nth; auto.
      intros k x N. apply nth_error_set_nth_inv in N. destruct N as [[-> ->]|[N1 N2]]. split; auto. congruence. auto.
    + intros k x N. apply nth_error_set_nth_inv in N. destruct N as [[-> ->]|[N1 N2]]. eapply bext_blt; eauto. eauto.
    + intros k mb i x IN N. apply nth_error_set_nth_inv in N. destruct N as [[-> ->]|[N1 N2]].
      eapply bext_cdrop; eauto. eauto.
  - apply step_step in H. destruct H as (ws & q & ws' & out & H1 & H2 & H3 & H4). subst.
    destruct (WK _ _ H1) as [K1 K2].
    pose proof (wstep_fields _ _ _ _ _ H3) as (F1 & F2 & F3).
    pose proof (wstep_labels _ _ _ _ _ H3 K1) as (G1 & G2).
    pose proof (wstep_cancels _ _ _ _ _ H3 (BL _ _ H1)) as (C1 & C2 & C3).
    constructor; simpl.
    + constructor; simpl; rewrite ?length_set_nth; auto.
      intros k x N. apply nth_error_set_nth_inv in N. destruct N as [[-> ->]|[N1 N2]]. split; auto. congruence. auto.
    + intros k x N. apply nth_error_set_nth_inv in N. destruct N as [[-> ->]|[N1 N2]]; eauto.
    + intros k mb i x IN N. apply in_app_or in IN. apply nth_error_set_nth_inv in N. destruct N as [[-> ->]|[N1 N2]].
      * destruct IN as [IN|IN]. eapply bext_cdrop; eauto.
        apply C1 in IN. destruct IN as (mb' & i' & E & D). rewrite K2 in E. inv E. auto.
      * destruct IN as [IN|IN]. eauto.
        apply C1 in IN. destruct IN as (mb' & i' & E & D). rewrite K2 in E. inv E. congruence.
Qed.

(* properties of every step along a run *)
Lemma run_inv P (I : sys -> Prop) (Q : label -> Prop) :
  (forall s e s' l, I s -> step fx f8 P s e = Some (s', l) -> I s' /\ Forall Q l) ->
  forall evs s s' l, I s -> run fx f8 P s evs = Some (s', l) -> I s' /\ Forall Q l.
Proof.
  intros ST. induction evs as [|e r IH]; intros s s' l HI H; simpl in H.
  - inv H. auto.
  - destruct (step fx f8 P s e) as [[s1 l1]|] eqn:S; [|discriminate].
    destruct (run fx f8 P s1 r) as [[s2 l2]|] eqn:R; [|discriminate]. inv H.
    destruct (ST _ _ _ _ HI S) as [I1 Q1]. destruct (IH _ _ _ I1 R) as [I2 Q2]. split; auto. apply Forall_app; auto.
Qed.

Lemma run_sinv P evs : forall s s' l, sinv s -> run fx f8 P s evs = Some (s', l) -> sinv s'.
Proof. intros s s' l HI H. eapply (run_inv P sinv (fun _ => True)); eauto.
  intros. split. eapply sinv_step; eauto. apply Forall_forall; auto. Qed.

(* ------------------------------------------------------------------ labels of the events that are not main-thread steps *)
Definition main_label (x : label) : bool :=
  match x with
  | LRun _ _ | LObs _ _ _ _ _ | LCancel _ _ _ _ | LSkip _ _ _ | LDone _ _ | LErr _ _ _ _ | LLeft _ _ _ => true
  | _ => false
  end.

Lemma cancel_tasks_labels wid c ts : forall b ts' b' l, cancel_tasks wid c ts b = Some (ts', b', l) ->
  Forall (fun x => exists t, x = LDrop wid t /\ desc c t = true) l.
Proof. induction ts as [|[k rt] r IH]; intros b ts' b' l H; simpl in H. inv H; auto.
  destruct (desc c (rt_task rt)) eqn:D.
  - destruct (pop_boxes (rt_owned rt) b); [|discriminate].
    destruct (cancel_tasks wid c r l0) as [[[? ?] ?]|] eqn:C; [|discriminate]. inv H. constructor; eauto.
  - destruct (cancel_tasks wid c r b) as [[[? ?] ?]|] eqn:C; [|discriminate]. inv H. eauto. Qed.

Lemma wrecv_labels m ws ws' l : wrecv m ws = Some (ws', l) ->
  Forall (fun x => (exists ra v, x = LDiscard (w_id ws) ra v) \/ (exists t c, x = LDrop (w_id ws) t /\ m = MCancel c /\ desc c t = true)) l.
Proof.
  intros H. destruct m; simpl in H; try discriminate.
  - inv H; auto.
  - destruct (recv_batch ts ws); inv H; auto.
  - unfold handle_result in H. destruct ra as [[x y] z]. repeat dmH H; inv H; auto. constructor; auto. left; eauto.
  - unfold handle_cancel in H. destruct (cancel_tasks (w_id ws) a (w_tasks ws) (w_boxes ws)) as [[[ts' b'] l']|] eqn:C; [|discriminate].
    inv H. apply Forall_app; split.
    + apply cancel_tasks_labels in C. eapply Forall_impl; [|exact C]. intros x (t & E & D). right; eauto.
    + apply Forall_forall. intros x IN. apply in_map_iff in IN. destruct IN as (t & E & IN). apply filter_In in IN. right. exists t, a. subst; tauto.
Qed.

Lemma sup_labels nw m asg srv srv' o lab : sup nw m asg srv = Some (srv', o, lab) -> Forall (fun x => main_label x = false) lab.
Proof. intros H. destruct m; simpl in H; repeat dmH H; inv H; auto. Qed.

Lemma step_nonmain P s e s' l : step fx f8 P s e = Some (s', l) -> (forall k, e <> EStep k) -> Forall (fun x => main_label x = false) l.
Proof.
  intros H N. destruct e.
  - apply step_client in H. destruct H as (srv & o & iss & H1 & H2 & ->).
    apply Forall_forall. intros x IN. apply in_map_iff in IN. destruct IN as (p & <- & _). auto.
  - apply step_up in H. destruct H as (m & q & srv & o & lab & H1 & H2 & H3 & ->).
    apply Forall_app; split. eapply sup_labels; eauto.
    apply Forall_forall. intros x IN. apply in_map_iff in IN. destruct IN as (p & <- & _). auto.
  - apply step_down in H. destruct H as (m & q & ws & ws' & H1 & H2 & H3 & H4).
    apply wrecv_labels in H3. eapply Forall_impl; [|exact H3]. intros x [(ra & v & ->)|(t & c & -> & _)]; auto.
  - exfalso. eapply N; eauto.
Qed.

(* ------------------------------------------------------------------ C12_descendants_not_run *)
Definition cancel_handled (s : sys) (k : nat) (c : addr) : Prop :=
  exists ws, nth_error (sy_workers s) k = Some ws /\ In c (w_cancelled ws).

Lemma step_cancelled_mono P s e s' l k c : step fx f8 P s e = Some (s', l) -> sinv s ->
  cancel_handled s k c -> cancel_handled s' k c.
Proof.
  intros H [[LU LD WK] BL DR] (ws & W & C). destruct e.
  - apply step_client in H. destruct H as (srv & o & iss & H1 & -> & _). exists ws; auto.
  - apply step_up in H. destruct H as (m & q & srv & o & lab & H1 & H2 & -> & _). exists ws; auto.
  - apply step_down in H. destruct H as (m & q & ws0 & ws' & H1 & H2 & H3 & ->). simpl.
    destruct (Nat.eq_dec k w).
    + subst. rewrite W in H2. inv H2. exists ws'. split. eapply nth_error_set_nth_same; eauto.
      destruct (WK _ _ W) as [K1 K2]. pose proof (wrecv_fields _ _ _ _ H3 K1) as (_ & _ & _ & F4 & _). auto.
    + exists ws. simpl. split; auto. rewrite nth_error_set_nth_other; auto.
  - apply step_step in H. destruct H as (ws0 & q & ws' & out & H1 & H2 & H3 & ->). simpl.
    destruct (Nat.eq_dec k w).
    + subst. rewrite W in H1. inv H1. exists ws'. split. eapply nth_error_set_nth_same; eauto.
      pose proof (wstep_fields _ _ _ _ _ H3) as (_ & _ & F3). rewrite F3. auto.
    + exists ws. simpl. split; auto. rewrite nth_error_set_nth_other; auto.
Qed.

Lemma step_lab_ok P s k s' l : step fx f8 P s (EStep k) = Some (s', l) -> sinv s ->
  exists ws, nth_error (sy_workers s) k = Some ws /\ w_id ws = S k /\ Forall (lab_ok ws) l.
Proof. intros H [[LU LD WK] BL DR]. apply step_step in H. destruct H as (ws0 & q & ws' & out & H1 & H2 & H3 & ->).
  destruct (WK _ _ H1) as [K1 K2]. exists ws0. split; auto. split; auto. eapply wstep_labels; eauto. Qed.

Lemma step_run_dead P s e s' l k c : step fx f8 P s e = Some (s', l) -> sinv s -> cancel_handled s k c ->
  Forall (fun x => forall t, x = LRun (S k) t -> desc c t = false) l.
Proof.
  intros H I (ws & W & C).
  assert (D : (exists j, e = EStep j) \/ (forall j, e <> EStep j)) by (destruct e; eauto; right; intros; discriminate).
  destruct D as [[j ->]|D].
  - destruct (step_lab_ok _ _ _ _ _ H I) as (ws0 & W0 & ID & F). eapply Forall_impl; [|exact F].
    intros x OK t ->. simpl in OK. destruct OK as [E DD]. rewrite ID in E. inv E. rewrite W in W0. inv W0.
    unfold dead_on in DD. destruct (desc c t) eqn:X; auto.
    assert (existsb (fun c0 => desc c0 t) (w_cancelled ws0) = true) by (apply existsb_exists; eauto). congruence.
  - eapply Forall_impl; [|eapply step_nonmain; eauto]. intros x M t ->. discriminate.
Qed.

Theorem descendants_not_run P nw evs1 k evs2 s1 l1 s2 l2 s3 l3 c q :
  run fx f8 P (init_sys nw) evs1 = Some (s1, l1) ->
  nth_error (sy_down s1) k = Some (MCancel c :: q) -> step fx f8 P s1 (EDown k) = Some (s2, l2) ->
  run fx f8 P s2 evs2 = Some (s3, l3) ->
  forall t, In (LRun (S k) t) l3 -> desc c t = false.
Proof.
  intros R1 HD ST R2 t IN.
  assert (I1 : sinv s1) by (eapply run_sinv; eauto; apply sinv_init).
  assert (I2 : sinv s2) by (eapply sinv_step; eauto).
  assert (CH : cancel_handled s2 k c).
  { destruct I1 as [[LU LD WK] BL DR]. apply step_down in ST. destruct ST as (m & q' & ws & ws' & H1 & H2 & H3 & ->).
    rewrite HD in H1. inv H1. destruct (WK _ _ H2) as [K1 K2].
    pose proof (wrecv_fields _ _ _ _ H3 K1) as (_ & _ & _ & _ & F5). exists ws'. split; simpl.
    eapply nth_error_set_nth_same; eauto. apply F5; auto. }
  destruct (run_inv P (fun s => sinv s /\ cancel_handled s k c) (fun x => forall t, x = LRun (S k) t -> desc c t = false)) with (evs := evs2) (s := s2) (s' := s3) (l := l3) as [_ F]; auto.
  - intros s e s' l [A B] S. split. split. eapply sinv_step; eauto. eapply step_cancelled_mono; eauto. eapply step_run_dead; eauto.
  - rewrite Forall_forall in F. eapply F; eauto.
Qed.

(* ------------------------------------------------------------------ C12_no_delivery *)
Definition dropped_at (s : sys) (k mb : nat) : Prop :=
  exists ws, nth_error (sy_workers s) k = Some ws /\ cdrop (w_boxes ws) (w_counter ws) mb.

Lemma step_dropped_mono P s e s' l k mb : step fx f8 P s e = Some (s', l) -> sinv s -> dropped_at s k mb -> dropped_at s' k mb.
Proof.
  intros H [[LU LD WK] BL DR] (ws & W & C). destruct e.
  - apply step_client in H. destruct H as (srv & o & iss & H1 & -> & _). exists ws; auto.
  - apply step_up in H. destruct H as (m & q & srv & o & lab & H1 & H2 & -> & _). exists ws; auto.
  - apply step_down in H. destruct H as (m & q & ws0 & ws' & H1 & H2 & H3 & ->). simpl.
    destruct (Nat.eq_dec k w).
    + subst. rewrite W in H2. inv H2. exists ws'. split. eapply nth_error_set_nth_same; eauto.
      destruct (WK _ _ W) as [K1 K2]. pose proof (wrecv_fields _ _ _ _ H3 K1) as (_ & _ & F3 & _). eapply bext_cdrop; eauto.
    + exists ws. simpl. split; auto. rewrite nth_error_set_nth_other; auto.
  - apply step_step in H. destruct H as (ws0 & q & ws' & out & H1 & H2 & H3 & ->). simpl.
    destruct (Nat.eq_dec k w).
    + subst. rewrite W in H1. inv H1. exists ws'. split. eapply nth_error_set_nth_same; eauto.
      pose proof (wstep_fields _ _ _ _ _ H3) as (F1 & _). eapply bext_cdrop; eauto.
    + exists ws. simpl. split; auto. rewrite nth_error_set_nth_other; auto.
Qed.

Lemma step_no_obs P s e s' l k mb : step fx f8 P s e = Some (s', l) -> sinv s -> dropped_at s k mb ->
  Forall (fun x => forall a nx vals, x <> LObs (S k) a mb nx vals) l.
Proof.
  intros H I (ws & W & C).
  assert (D : (exists j, e = EStep j) \/ (forall j, e <> EStep j)) by (destruct e; eauto; right; intros; discriminate).
  destruct D as [[j ->]|D].
  - destruct (step_lab_ok _ _ _ _ _ H I) as (ws0 & W0 & ID & F). eapply Forall_impl; [|exact F].
    intros x OK a nx vals ->. simpl in OK. destruct OK as [E DD]. rewrite ID in E. inv E. rewrite W in W0. inv W0.
    destruct C. contradiction.
  - eapply Forall_impl; [|eapply step_nonmain; eauto]. intros x M a nx vals ->. discriminate.
Qed.

(* the step that executes `cancel` leaves the mailbox dropped *)
Lemma step_cancel_drops P s e s' l wid a mb n : step fx f8 P s e = Some (s', l) -> sinv s -> In (LCancel wid a mb n) l ->
  exists k, wid = S k /\ e = EStep k /\ dropped_at s' k mb.
Proof.
  intros H I IN.
  assert (D : (exists j, e = EStep j) \/ (forall j, e <> EStep j)) by (destruct e; eauto; right; intros; discriminate).
  destruct D as [[j ->]|D].
  - pose proof (step_lab_ok _ _ _ _ _ H I) as (ws0 & W0 & ID & F).
    rewrite Forall_forall in F. pose proof (F _ IN) as OK. simpl in OK. destruct OK as [E _]. exists j. split. congruence. split; auto.
    destruct I as [[LU LD WK] BL DR]. apply step_step in H. destruct H as (ws & q & ws' & out & H1 & H2 & H3 & ->).
    pose proof (wstep_cancels _ _ _ _ _ H3 (BL _ _ H1)) as (_ & C2 & _). exists ws'. split. simpl. eapply nth_error_set_nth_same; eauto.
    eapply C2; eauto.
  - pose proof (step_nonmain _ _ _ _ _ H D) as F. rewrite Forall_forall in F. apply F in IN. discriminate.
Qed.

Theorem no_delivery P nw evs1 e evs2 s1 l1 s2 l2 s3 l3 wid a mb n :
  run fx f8 P (init_sys nw) evs1 = Some (s1, l1) -> step fx f8 P s1 e = Some (s2, l2) -> In (LCancel wid a mb n) l2 ->
  run fx f8 P s2 evs2 = Some (s3, l3) ->
  exists k, wid = S k /\ e = EStep k
    /\ (forall a' nx vals, ~ In (LObs wid a' mb nx vals) l3)
    /\ dropped_at s3 k mb.
Proof.
  intros R1 ST IN R2.
  assert (I1 : sinv s1) by (eapply run_sinv; eauto; apply sinv_init).
  assert (I2 : sinv s2) by (eapply sinv_step; eauto).
  destruct (step_cancel_drops _ _ _ _ _ _ _ _ _ ST I1 IN) as (k & -> & -> & DA).
  exists k. split; auto. split; auto.
  destruct (run_inv P (fun s => sinv s /\ dropped_at s k mb) (fun x => forall a nx vals, x <> LObs (S k) a mb nx vals)) with (evs := evs2) (s := s2) (s' := s3) (l := l3) as [[_ F1] F2]; auto.
  - intros s e s' l [A B] S. split. split. eapply sinv_step; eauto. eapply step_dropped_mono; eauto. eapply step_no_obs; eauto.
  - split; auto. intros a' nx vals X. rewrite Forall_forall in F2. eapply F2; eauto.
Qed.

(* a RESULT for a dropped mailbox is ignored: the worker's state does not change *)
Lemma result_discarded w x mb slot v : lookup_b mb (w_boxes w) = None ->
  handle_result (x, mb, slot) v w = Some (w, [LDiscard (w_id w) (x, mb, slot) v]).
Proof. intros H. unfold handle_result. rewrite H. auto. Qed.

(* ------------------------------------------------------------------ D8: machine-checked witness *)
(* One worker.  The root (program 0) submits a child and awaits it; the client cancels the root while the child's
   SUBMIT is still on its way up; the server then schedules the child onto the worker, which has already handled
   CANCEL(root). *)
Definition d8_progs : progs := [[ISubmit 1; IAwait 0]; []].
Definition d8_run : list event :=
  [ EClient 0 CConnect [];
    EClient 0 (CSubmit 0 0) [(0, [0])];
    EDown 0;                     (* SUBMIT_BATCH [root] handled *)
    EStep 0;                     (* root runs: SUBMIT(child) goes up, root awaits *)
    EClient 0 (CCancel 0) [];    (* server: mailbox dropped, CANCEL(root) broadcast *)
    EDown 0;                     (* worker handles CANCEL(root): root removed *)
    EUp 0 [(0, [0])];            (* server schedules the child *)
    EDown 0;                     (* worker handles SUBMIT_BATCH [child] AFTER its ancestor's CANCEL *)
    EStep 0;                     (* child popped, discarded, WAITING *)
    EUp 0 [] ].

Lemma d8_witness :
  exists s labs, run false false d8_progs (init_sys 1) d8_run = Some (s, labs)
    /\ quiescent s = true /\ clean s = false
    /\ forallb no_orphans (sy_workers s) = true.
Proof. eexists. eexists. split; [vm_compute; reflexivity|]. vm_compute. auto. Qed.

(* ------------------------------------------------------------------ D14: machine-checked witness *)
Definition d14_progs : progs := [[ISubmit 1; ISubmit 1]; []].
Definition d14_run : list event :=
  [ EClient 0 CConnect []; EClient 0 (CSubmit 0 0) [(0, [0])]; EDown 0;
    EStep 0;                       (* root: two submits, returns without awaiting -> completion cancels only the first *)
    EUp 0 [(0, [0])]; EUp 0 [(0, [0])]; EUp 0 []; EUp 0 [];
    EDown 0; EDown 0; EDown 0;     (* both children arrive, then CANCEL(first child) *)
    EStep 0;                       (* first child discarded; second child RUNS and completes *)
    EStep 0; EUp 0 []; EUp 0 [] ].

Lemma d14_witness :
  exists s labs, run false false d14_progs (init_sys 1) d14_run = Some (s, labs)
    /\ quiescent s = true
    /\ In (LLeft 1 (0, 0, 0) [1]) labs                    (* mailbox 1 survives the completion of its owner *)
    /\ In (LRun 1 (mkTask (1, 1, 0) [(0, 0, 0)] 0 1)) labs (* the child nobody waits for is still run *)
    /\ sy_issued s = [(1, 0, 0)]                           (* no CANCEL was ever issued for it *)
    /\ forallb no_orphans (sy_workers s) = false.
Proof. eexists. eexists. split; [vm_compute; reflexivity|]. vm_compute. auto 20. Qed.

(* ------------------------------------------------------------------ C12_await_fails *)
Lemma nth_error_skipn {A} (l : list A) : forall n x, nth_error l n = Some x -> exists rest, skipn n l = x :: rest.
Proof. induction l as [|y l IH]; intros [|n] x H; simpl in *; try discriminate. inv H. eauto. eauto. Qed.

Theorem await_fails P w0 rt0 w out0 lab0 prog f mb (nx : bool) :
  (w_blocked w0 && match w_ready w0 with [] => true | _ => false end) = false ->
  select f8 w0 = (Some rt0, w, out0, lab0) ->
  rt_desired rt0 = None ->
  nth_error P (t_prog (rt_task rt0)) = Some prog ->
  nth_error prog (rt_pc rt0) = Some (if nx then INext f else IAwait f) ->
  nth_error (rt_futs rt0) f = Some mb ->
  lookup_b mb (w_boxes w0) = None ->
  let kind := if nx then K_NEXT_COMPLETED else K_AWAIT_CANCELLED in
  let sent := negb (dead_on w0 (rt_task rt0)) in
  exists w',
    wstep fx f8 P w0 = Some (w', out0 ++ (if sent then [MError (t_comp (rt_task rt0)) kind] else []),
                       (lab0 ++ [LRun (w_id w0) (rt_task rt0)]) ++ [LErr (w_id w0) (t_addr (rt_task rt0)) kind sent])
    /\ w_boxes w' = w_boxes w0.
Proof.
  intros EN S DN NP NI NF LB kind sent.
  pose proof (select_env _ _ _ _ _ S) as (S1 & S2 & S3 & S4).
  unfold wstep. rewrite EN, S. unfold desired_result. rewrite DN.
  change (rt_task (reset_await rt0)) with (rt_task rt0). rewrite NP.
  destruct (nth_error_skipn _ _ _ NI) as [rest SK]. change (rt_pc (reset_await rt0)) with (rt_pc rt0). rewrite SK.
  assert (DE : existsb (fun c => desc c (rt_task rt0)) (w_cancelled w) = dead_on w0 (rt_task rt0)).
  { unfold dead_on. rewrite S2. auto. }
  destruct nx; simpl.
  - rewrite NF. rewrite S3, LB. unfold raise_path. simpl. rewrite DE. rewrite S1.
    unfold sent, kind. destruct (dead_on w0 (rt_task rt0)); simpl; rewrite ?app_nil_r; (eexists; split; [reflexivity|simpl; auto]).
  - rewrite NF. simpl. rewrite S3, LB. unfold raise_path. simpl. rewrite DE. rewrite S1.
    unfold sent, kind. destruct (dead_on w0 (rt_task rt0)); simpl; rewrite ?app_nil_r; (eexists; split; [reflexivity|simpl; auto]).
Qed.

(* ------------------------------------------------------------------ every CANCEL in the system was issued *)
Lemma In_cancels_of c l : In (MCancel c) l <-> In c (cancels_of l).
Proof. induction l as [|m l IH]; simpl. tauto. destruct m; simpl; try (rewrite <- IH; split; [intros [H|H]; [discriminate|auto]|auto]).
  rewrite <- IH. split; intros [H|H]; auto. inv H; auto. subst; auto. Qed.

Lemma broadcast_In nw m k m' : In (k, m') (broadcast nw m) -> m' = m /\ k < nw.
Proof. unfold broadcast. intros H. apply in_map_iff in H. destruct H as (x & E & IN). inv E. split; auto.
  apply in_seq in IN. lia. Qed.
Lemma broadcast_all nw m k : k < nw -> In (k, m) (broadcast nw m).
Proof. intros. unfold broadcast. apply in_map_iff. exists k. split; auto. apply in_seq. lia. Qed.

Lemma schedule_batches nw ts asg d : schedule nw ts asg = Some d -> forall k m, In (k, m) d -> exists ts', m = MBatch ts'.
Proof. unfold schedule. intros H k m IN. destruct ts. inv H. destruct IN.
  destruct (valid_assign nw (length (t :: ts)) asg); inv H. apply in_map_iff in IN. destruct IN as (p & E & _). inv E. eauto. Qed.

Definition down_cancels_in (o : sout) (iss : list addr) : Prop :=
  forall k c, In (k, MCancel c) (o_down o) -> In c iss.

Lemma cancel_comp_down nw conn id s s' o iss : cancel_comp nw conn id s = Some (s', o, iss) -> down_cancels_in o iss.
Proof. unfold cancel_comp. intros H k c IN. repeat dmH H; inv H; simpl in IN; try contradiction;
  (apply broadcast_In in IN; destruct IN as [E _]; inv E; simpl; auto). Qed.
Lemma cancel_all_down nw conn ids : forall s s' o iss, cancel_all nw conn ids s = Some (s', o, iss) -> down_cancels_in o iss.
Proof. induction ids as [|id rr IH]; intros s s' o iss H k c IN; simpl in H. inv H. destruct IN.
  destruct (cancel_comp nw conn id s) as [[[s1 o1] i1]|] eqn:C1; [|discriminate].
  destruct (cancel_all nw conn rr s1) as [[[s2 o2] i2]|] eqn:C2; [|discriminate]. inv H. simpl in IN.
  apply in_app_or in IN. apply in_or_app. destruct IN; [left; eapply cancel_comp_down|right; eapply IH]; eauto. Qed.
Lemma disconnect_down nw conn order s s' o iss : disconnect nw conn order s = Some (s', o, iss) -> down_cancels_in o iss.
Proof. unfold disconnect. intros H. repeat dmH H; inv H. eapply cancel_all_down; eauto. Qed.
Lemma sreq_down nw c r asg srv srv' o iss : sreq nw c r asg srv = Some (srv', o, iss) -> down_cancels_in o iss.
Proof. intros H. destruct r; simpl in H.
  - repeat dmH H; inv H. intros k x [].
  - repeat dmH H; inv H; intros k x IN; simpl in IN;
      match goal with HH : (if ?b then _ else _) = Some _ |- _ => destruct b; inv HH end;
      apply in_map_iff in IN; destruct IN as (p & E & _); discriminate.
  - repeat dmH H; try discriminate; try (inv H; intros k x []; fail). eapply disconnect_down; eauto.
  - eapply cancel_comp_down; eauto.
  - eapply disconnect_down; eauto.
Qed.
Lemma sup_down nw m asg srv srv' o lab : sup nw m asg srv = Some (srv', o, lab) ->
  forall k c, In (k, MCancel c) (o_down o) -> m = MCancel c.
Proof. intros H k c IN. destruct m; unfold sup in H; cbv beta iota in H.
  - destruct (schedule nw [t] asg) eqn:SC; inv H. simpl in IN. eapply schedule_batches in IN; eauto. destruct IN; discriminate.
  - destruct (schedule nw ts asg) eqn:SC; inv H. simpl in IN. eapply schedule_batches in IN; eauto. destruct IN; discriminate.
  - repeat dmH H; inv H; simpl in IN; try destruct IN as [IN|[]]; try discriminate; try destruct IN.
  - inv H. simpl in IN. apply broadcast_In in IN. destruct IN as [E _]. auto.
  - inv H. destruct IN.
  - inv H. destruct IN.
  - repeat dmH H; inv H; destruct IN.
Qed.

Record csound (s : sys) : Prop := {
  cs_w : forall k ws c, nth_error (sy_workers s) k = Some ws -> In c (w_cancelled ws) -> In c (sy_issued s);
  cs_up : forall k q c, nth_error (sy_up s) k = Some q -> In (MCancel c) q -> In c (sy_issued s);
  cs_down : forall k q c, nth_error (sy_down s) k = Some q -> In (MCancel c) q -> In c (sy_issued s)
}.

Lemma csound_init nw : csound (init_sys nw).
Proof. constructor; simpl.
  - intros k ws c H IN. apply nth_error_In in H. apply in_map_iff in H. destruct H as (x & <- & _). destruct IN.
  - intros k q c H IN. apply nth_error_In in H. apply repeat_spec in H. subst. destruct IN.
  - intros k q c H IN. apply nth_error_In in H. apply repeat_spec in H. subst. destruct IN.
Qed.

Lemma push_down_In d ch k q' m : nth_error (push_down d ch) k = Some q' -> In m q' ->
  exists q, nth_error ch k = Some q /\ (In m q \/ In (k, m) d).
Proof.
  intros H IN. destruct (nth_error ch k) as [q|] eqn:E.
  - erewrite push_down_nth in H; eauto. inv H. exists q. split; auto. apply in_app_or in IN. destruct IN as [IN|IN]; auto.
    right. apply in_map_iff in IN. destruct IN as ([k' m'] & E1 & E2). simpl in E1. subst. apply filter_In in E2. destruct E2 as [E2 E3].
    simpl in E3. apply Nat.eqb_eq in E3. subst. auto.
  - exfalso. apply nth_error_None in E. rewrite <- (length_push_down d) in E. apply nth_error_None in E. congruence.
Qed.

Lemma csound_step P s e s' l : step fx f8 P s e = Some (s', l) -> sinv s -> csound s -> csound s'.
Proof.
  intros H [[LU LD WK] BL DR] [CW CU CD]. destruct e.
  - apply step_client in H. destruct H as (srv & o & iss & H1 & -> & _). apply sreq_down in H1. constructor; simpl.
    + intros k ws c0 W IN. apply in_or_app. left. eauto.
    + intros k q c0 W IN. apply in_or_app. left. eauto.
    + intros k q c0 W IN. destruct (push_down_In _ _ _ _ _ W IN) as (q0 & Q1 & [Q2|Q2]); apply in_or_app; [left; eauto|right; eauto].
  - apply step_up in H. destruct H as (m & q & srv & o & lab & H1 & H2 & -> & _). pose proof (sup_down _ _ _ _ _ _ _ H2) as SD.
    constructor; simpl; rewrite app_nil_r.
    + eauto.
    + intros k q0 c0 W IN. apply nth_error_set_nth_inv in W. destruct W as [[-> ->]|[N1 N2]]. eapply CU; eauto. right; auto. eauto.
    + intros k q0 c0 W IN. destruct (push_down_In _ _ _ _ _ W IN) as (q1 & Q1 & [Q2|Q2]). eauto.
      apply SD in Q2. subst. eapply CU; eauto. left; auto.
  - apply step_down in H. destruct H as (m & q & ws & ws' & H1 & H2 & H3 & ->). constructor; simpl.
    + intros k x c0 W IN. apply nth_error_set_nth_inv in W. destruct W as [[-> ->]|[N1 N2]]; [|eauto].
      destruct m; simpl in H3; try discriminate.
      * inv H3. simpl in IN. eauto.
      * unfold recv_batch in H3. destruct (rev ts); [discriminate|]. inv H3. simpl in IN. eauto.
      * pose proof (handle_result_fields _ _ _ _ _ H3) as (_ & _ & C & _). rewrite C in IN. eauto.
      * pose proof (handle_cancel_fields _ _ _ _ H3) as (_ & _ & C & _). apply C in IN. destruct IN as [->|IN]; [|eauto].
        eapply CD; eauto. left; auto.
    + eauto.
    + intros k q0 c0 W IN. apply nth_error_set_nth_inv in W. destruct W as [[-> ->]|[N1 N2]]. eapply CD; eauto. right; auto. eauto.
  - apply step_step in H. destruct H as (ws & q & ws' & out & H1 & H2 & H3 & ->). constructor; simpl.
    + intros k x c0 W IN. apply in_or_app. left. apply nth_error_set_nth_inv in W. destruct W as [[-> ->]|[N1 N2]]; [|eauto].
      pose proof (wstep_fields _ _ _ _ _ H3) as (_ & _ & F3). rewrite F3 in IN. eauto.
    + intros k q0 c0 W IN. apply nth_error_set_nth_inv in W. destruct W as [[-> ->]|[N1 N2]]; [|apply in_or_app; left; eauto].
      apply in_app_or in IN. apply in_or_app. destruct IN as [IN|IN]. left; eauto. right. apply In_cancels_of; auto.
    + intros k q0 c0 W IN. apply in_or_app. left. eauto.
Qed.

(* ------------------------------------------------------------------ C12_others_unaffected: only cancelled work is removed *)
Definition holds_addr (ws : wstate) (a : addr) : Prop :=
  lookup_t a (w_tasks ws) <> None \/ exists t, In t (w_delayed ws) /\ t_addr t = a.

Lemma lt_put_some a k v l : lookup_t a l <> None -> lookup_t a (put_t k v l) <> None.
Proof. intros H. destruct (addr_eqb a k) eqn:E. apply addr_eqb_eq in E. subst. rewrite lt_put_same. congruence.
  apply addr_eqb_neq in E. rewrite lt_put_other; auto. Qed.

Lemma cancel_tasks_keeps wid c ts : forall b ts' b' l a rt, cancel_tasks wid c ts b = Some (ts', b', l) ->
  lookup_t a ts = Some rt -> lookup_t a ts' <> None \/ (desc c (rt_task rt) = true /\ In (LDrop wid (rt_task rt)) l).
Proof.
  induction ts as [|[k rt0] r IH]; intros b ts' b' l a rt H L; simpl in *. discriminate.
  destruct (desc c (rt_task rt0)) eqn:D.
  - destruct (pop_boxes (rt_owned rt0) b); [|discriminate].
    destruct (cancel_tasks wid c r l0) as [[[x y] z]|] eqn:C; [|discriminate]. inv H.
    destruct (addr_eqb a k) eqn:E. inv L. right. split; auto. left; auto.
    destruct (IH _ _ _ _ _ _ C L) as [X|[X1 X2]]; auto. right. split; auto. right; auto.
  - destruct (cancel_tasks wid c r b) as [[[x y] z]|] eqn:C; [|discriminate]. inv H. simpl.
    destruct (addr_eqb a k) eqn:E. left; congruence. eapply IH; eauto.
Qed.

Lemma wrecv_keeps m ws ws' l a : wrecv m ws = Some (ws', l) -> keys_ok ws -> holds_addr ws a ->
  holds_addr ws' a \/ exists t c, In (LDrop (w_id ws) t) l /\ t_addr t = a /\ m = MCancel c /\ desc c t = true.
Proof.
  intros H KO HA. destruct m; simpl in H; try discriminate.
  - inv H. left. destruct HA as [HA|HA]; [left|right; auto]. simpl. apply lt_put_some; auto.
  - unfold recv_batch in H. destruct (rev ts) as [|lst rr]; [discriminate|]. inv H. left.
    destruct HA as [HA|(t & T1 & T2)]; [left|right]. simpl. apply lt_put_some; auto.
    exists t. split; auto. simpl. apply in_or_app; auto.
  - pose proof (handle_result_fields _ _ _ _ _ H) as (_ & _ & _ & T & D & _). left.
    unfold holds_addr. rewrite T, D. exact HA.
  - unfold handle_cancel in H.
    destruct (cancel_tasks (w_id ws) a0 (w_tasks ws) (w_boxes ws)) as [[[ts' b'] l']|] eqn:C; [|discriminate]. inv H.
    destruct HA as [HA|(t & T1 & T2)].
    + destruct (lookup_t a (w_tasks ws)) as [rt|] eqn:L; [|congruence].
      destruct (cancel_tasks_keeps _ _ _ _ _ _ _ _ _ C L) as [X|[X1 X2]]. left; left; auto.
      right. exists (rt_task rt), a0. split. apply in_or_app; auto. split; auto. apply KO. apply lt_In; auto.
    + destruct (desc a0 t) eqn:D.
      * right. exists t, a0. split; auto. apply in_or_app. right. apply in_map. apply filter_In; auto.
      * left. right. exists t. split; auto. simpl. apply filter_In. rewrite D; auto.
Qed.

Definition skipped (wid : nat) (a : addr) (lab : list label) : Prop := exists t, In (LSkip wid a (Some t)) lab.

Lemma forget_keeps w a0 a : lookup_t a (w_tasks w) <> None ->
  lookup_t a (w_tasks (forget f8 w a0)) <> None \/ (a = a0 /\ exists rt, lookup_t a0 (w_tasks w) = Some rt).
Proof. unfold forget. intros L. destruct (f8 && crumb_dead w a0); auto. simpl.
  destruct (addr_eqb a a0) eqn:E. apply addr_eqb_eq in E. subst. right. split; auto. destruct (lookup_t a0 (w_tasks w)); eauto. congruence.
  apply addr_eqb_neq in E. left. rewrite lt_remove_other; auto. Qed.

Lemma sel_ready_keeps : forall ready w lab o w1 r lab1, sel_ready f8 w ready lab = (o, w1, r, lab1) ->
  (forall x, In x lab -> In x lab1)
  /\ (forall a, lookup_t a (w_tasks w) <> None -> lookup_t a (w_tasks w1) <> None \/ skipped (w_id w) a lab1).
Proof.
  induction ready as [|a0 rd IH]; intros w lab o w1 r lab1 H; simpl in H.
  - inv H. auto.
  - destruct (runnable w a0). inv H; auto.
    apply IH in H. destruct H as [M K]. destruct (forget_env w a0) as (EI & _). split.
    + intros x IN. apply M. apply in_or_app; auto.
    + intros a L. destruct (forget_keeps w a0 a L) as [X|[-> [rt X]]].
      * destruct (K _ X) as [Y|Y]; auto. right. rewrite <- EI; auto.
      * right. exists (rt_task rt). apply M. apply in_or_app. right. rewrite X. simpl. auto.
Qed.

Lemma sel_delayed_keeps : forall rdel w lab o w1 lab1, sel_delayed f8 w rdel lab = (o, w1, lab1) ->
  (forall x, In x lab -> In x lab1)
  /\ (forall a, lookup_t a (w_tasks w) <> None -> lookup_t a (w_tasks w1) <> None \/ skipped (w_id w) a lab1)
  /\ (forall t, In t rdel -> In t (w_delayed w1) \/ lookup_t (t_addr t) (w_tasks w1) <> None \/ skipped (w_id w) (t_addr t) lab1).
Proof.
  induction rdel as [|t rest IH]; intros w lab o w1 lab1 H; simpl in H.
  - inv H. split; auto.
  - dmH H.
    + inv H. simpl. split; auto. split. intros a L. left. apply lt_put_some; auto.
      intros x [->|IN]. right. left. rewrite lt_put_same. congruence. left. apply in_rev in IN. auto.
    + apply IH in H. destruct H as (M & H1 & H2).
      set (wa := set_tasks (put_t (t_addr t) (fresh_rt t) (w_tasks w)) w) in *.
      destruct (forget_env wa (t_addr t)) as (EI & _). simpl in EI.
      assert (STEP : forall a, lookup_t a (w_tasks wa) <> None -> lookup_t a (w_tasks w1) <> None \/ skipped (w_id w) a lab1).
      { intros a L. destruct (forget_keeps wa (t_addr t) a L) as [X|[-> [rt X]]].
        - destruct (H1 _ X) as [Y|Y]; auto. right. rewrite <- EI; auto.
        - right. exists t. apply M. apply in_or_app. right. left; auto. }
      split. intros x IN. apply M. apply in_or_app; auto. split.
      * intros a L. apply STEP. simpl. apply lt_put_some; auto.
      * intros x [->|IN].
        -- right. apply STEP. simpl. rewrite lt_put_same. congruence.
        -- destruct (H2 _ IN) as [Y|[Y|Y]]; auto. right. right. rewrite <- EI; auto.
Qed.

Lemma select_keeps w0 o w out lab a : select f8 w0 = (o, w, out, lab) -> holds_addr w0 a ->
  holds_addr w a \/ skipped (w_id w0) a lab.
Proof.
  unfold select. intros H HA.
  destruct (sel_ready f8 w0 (w_ready w0) []) as [[[o1 w'] r] lab1] eqn:S.
  pose proof (sel_ready_env _ _ _ _ _ _ _ S) as ((E1 & _) & E2 & _).
  apply sel_ready_keeps in S. destruct S as [M1 K1].
  assert (HA1 : holds_addr w' a \/ skipped (w_id w0) a lab1).
  { destruct HA as [HA|HA]. destruct (K1 _ HA); auto. left; left; auto. left. right. rewrite E2. auto. }
  destruct o1.
  - inv H. destruct HA1 as [HA1|HA1]; auto.
  - destruct (sel_delayed f8 (set_ready [] w') (rev (w_delayed w')) lab1) as [[o2 w2] lab2] eqn:D.
    apply sel_delayed_keeps in D. destruct D as (M2 & D1 & D2). simpl in *. rewrite E1 in *.
    assert (HA2 : holds_addr w2 a \/ skipped (w_id w0) a lab2).
    { destruct HA1 as [[HA1|(t & T1 & T2)]|(t & SK)].
      - destruct (D1 _ HA1); auto. left; left; auto.
      - apply in_rev in T1. destruct (D2 _ T1) as [X|[X|X]]. left; right; eauto. left; left; congruence. right. congruence.
      - right. exists t. auto. }
    destruct o2; inv H; exact HA2.
Qed.

(* the labels of a step start with the labels of its selection phase *)
Lemma wstep_lab_prefix P w0 w' out lab o w out0 lab0 : wstep fx f8 P w0 = Some (w', out, lab) ->
  select f8 w0 = (o, w, out0, lab0) -> forall x, In x lab0 -> In x lab.
Proof.
  unfold wstep. intros H S x IN. dmH H; [discriminate|]. rewrite S in H.
  destruct o as [rt0|]; [|inv H; auto].
  assert (IN1 : In x (lab0 ++ [LRun (w_id w) (rt_task rt0)])) by (apply in_or_app; auto).
  destruct (desired_result (w_id w) rt0 (w_boxes w)) as [[[boxes1 rt1] l1]|] eqn:DR.
  2:{ match type of H with context[raise_path ?a ?b ?c ?d ?e] => destruct (raise_path a b c d e) as [[w1 o1] lb1] eqn:RP end.
      inv H. apply raise_path_spec in RP. destruct RP as (_ & _ & _ & e & -> & _). apply in_or_app; auto. }
  assert (IN2 : In x ((lab0 ++ [LRun (w_id w) (rt_task rt0)]) ++ l1)) by (apply in_or_app; auto).
  destruct (nth_error P (t_prog (rt_task (reset_await rt1)))) as [prog|] eqn:NP.
  2:{ match type of H with context[raise_path ?a ?b ?c ?d ?e] => destruct (raise_path a b c d e) as [[w1 o1] lb1] eqn:RP end.
      inv H. apply raise_path_spec in RP. destruct RP as (_ & _ & _ & e & -> & _). apply in_or_app; auto. }
  match type of H with context[run_instrs ?a ?b ?c] => destruct (run_instrs a b c) as [oc s] eqn:RI end.
  apply run_instrs_labels in RI. simpl in RI. destruct RI as (_ & _ & add & RL & _).
  assert (IN3 : In x (c_lab s)) by (rewrite RL; apply in_or_app; auto).
  destruct oc as [mb nx| |k].
  - destruct (lookup_b mb (c_boxes s)) eqn:L.
    + inv H. auto.
    + match type of H with context[raise_path ?a ?b ?c ?d ?e] => destruct (raise_path a b c d e) as [[w1 o1] lb1] eqn:RP end.
      inv H. apply raise_path_spec in RP. destruct RP as (_ & _ & _ & e & -> & _). apply in_or_app; auto.
  - match type of H with context[match ?x with Some _ => _ | None => None end] => destruct x as [[[w2 out2] lab2]|] eqn:SH end; [|discriminate].
    match type of H with context[completion ?a ?b ?c] => destruct (completion a b c) as [s2|] eqn:CL end; [|discriminate].
    inv H. apply completion_labels in CL. simpl in CL. destruct CL as (add2 & CL1 & _).
    assert (IN4 : In x lab2).
    { destruct (t_addr (rt_task rt0)) as [[dst x1] x2]. destruct (dst =? w_id w).
      - match type of SH with context[handle_result ?a ?b ?c] => destruct (handle_result a b c) as [[w2' l2]|] eqn:HR end; [|discriminate].
        inv SH. apply in_or_app. left. apply in_or_app; auto.
      - inv SH. apply in_or_app; auto. }
    apply in_or_app. left. rewrite CL1. apply in_or_app; auto.
  - match type of H with context[raise_path ?a ?b ?c ?d ?e] => destruct (raise_path a b c d e) as [[w1 o1] lb1] eqn:RP end.
    inv H. apply raise_path_spec in RP. destruct RP as (_ & _ & _ & e & -> & _). apply in_or_app; auto.
Qed.

Lemma wstep_keeps P w0 w' out lab a : wstep fx f8 P w0 = Some (w', out, lab) -> holds_addr w0 a ->
  holds_addr w' a \/ (exists t, In (LDone (w_id w0) t) lab /\ t_addr t = a) \/ skipped (w_id w0) a lab.
Proof.
  intros H HA. destruct (select f8 w0) as [[[o w] out0] lab0] eqn:S.
  destruct (select_keeps _ _ _ _ _ _ S HA) as [HW|(t & SK)].
  2:{ right. right. exists t. eapply wstep_lab_prefix; eauto. }
  clear HA. cut (holds_addr w' a \/ (exists t, In (LDone (w_id w0) t) lab /\ t_addr t = a)). tauto.
  revert H. unfold wstep. intros H. dmH H; [discriminate|]. rewrite S in H.
  pose proof (select_env _ _ _ _ _ S) as (S1 & S2 & S3 & S4).
  destruct o as [rt0|]; [|inv H; auto].
  assert (PUT : forall rt x, holds_addr (set_tasks (put_t (t_addr (rt_task rt0)) rt (w_tasks w)) x) a \/ True) by auto.
  assert (KEEP : forall w1 rt, w_tasks w1 = put_t (t_addr (rt_task rt0)) rt (w_tasks w) -> w_delayed w1 = w_delayed w -> holds_addr w1 a).
  { intros w1 rt T D. destruct HW as [HW|HW]; [left|right]. rewrite T. apply lt_put_some; auto. rewrite D; auto. }
  destruct (desired_result (w_id w) rt0 (w_boxes w)) as [[[boxes1 rt1] l1]|] eqn:DR.
  2:{ match type of H with context[raise_path ?a ?b ?c ?d ?e] => destruct (raise_path a b c d e) as [[w1 o1] lb1] eqn:RP end.
      inv H. apply raise_path_spec in RP. destruct RP as (T1 & T2 & _). left. eapply KEEP; eauto. }
  apply desired_result_spec in DR. destruct DR as (DT & _ & _).
  destruct (nth_error P (t_prog (rt_task (reset_await rt1)))) as [prog|] eqn:NP.
  2:{ match type of H with context[raise_path ?a ?b ?c ?d ?e] => destruct (raise_path a b c d e) as [[w1 o1] lb1] eqn:RP end.
      inv H. apply raise_path_spec in RP. destruct RP as (T1 & T2 & _). simpl in *. rewrite DT in T1. left. eapply KEEP; eauto. }
  match type of H with context[run_instrs ?a ?b ?c] => destruct (run_instrs a b c) as [oc s] eqn:RI end.
  apply run_instrs_labels in RI. simpl in RI. destruct RI as (RT & _ & add & RL & _). rewrite DT in RT.
  destruct oc as [mb nx| |k].
  - destruct (lookup_b mb (c_boxes s)) eqn:L.
    + inv H. left. dmG; eapply KEEP; simpl; eauto.
    + match type of H with context[raise_path ?a ?b ?c ?d ?e] => destruct (raise_path a b c d e) as [[w1 o1] lb1] eqn:RP end.
      inv H. apply raise_path_spec in RP. destruct RP as (T1 & T2 & _). simpl in *. rewrite RT in T1. left. eapply KEEP; eauto.
  - match type of H with context[match ?x with Some _ => _ | None => None end] => destruct x as [[[w2 out2] lab2]|] eqn:SH end; [|discriminate].
    match type of H with context[completion ?a ?b ?c] => destruct (completion a b c) as [s2|] eqn:CL end; [|discriminate].
    inv H. apply completion_labels in CL. simpl in CL. destruct CL as (add2 & CL1 & _).
    assert (W2 : w_tasks w2 = w_tasks w /\ w_delayed w2 = w_delayed w /\ exists x, lab2 = (c_lab s ++ [LDone (w_id w) (rt_task rt0)]) ++ x).
    { destruct (t_addr (rt_task rt0)) as [[dst x1] x2]. destruct (dst =? w_id w).
      - match type of SH with context[handle_result ?a ?b ?c] => destruct (handle_result a b c) as [[w2' l2]|] eqn:HR end; [|discriminate].
        inv SH. pose proof (handle_result_fields _ _ _ _ _ HR) as HF. simpl in HF. split; [tauto|]. split; [tauto|]. eauto.
      - inv SH. simpl. split; auto. split; auto. exists []. rewrite app_nil_r; auto. }
    destruct W2 as (W2a & W2b & x & W2c).
    destruct (addr_eqb a (t_addr (rt_task rt0))) eqn:E.
    + apply addr_eqb_eq in E. right. exists (rt_task rt0). split; auto. rewrite <- S1. rewrite CL1, W2c.
      apply in_or_app. left. apply in_or_app. left. apply in_or_app. left. apply in_or_app. right. left; auto.
    + apply addr_eqb_neq in E. left. destruct HW as [HW|HW]; [left|right]; simpl. rewrite W2a. rewrite lt_remove_other; auto.
      rewrite W2b; auto.
  - match type of H with context[raise_path ?a ?b ?c ?d ?e] => destruct (raise_path a b c d e) as [[w1 o1] lb1] eqn:RP end.
    inv H. apply raise_path_spec in RP. destruct RP as (T1 & T2 & _). simpl in *. rewrite RT in T1. left. eapply KEEP; eauto.
Qed.

Lemma dead_iff iss t : dead iss t = true <-> exists c, In c iss /\ desc c t = true.
Proof. unfold dead. rewrite existsb_exists. tauto. Qed.
Lemma dead_on_iff w t : dead_on w t = true <-> exists c, In c (w_cancelled w) /\ desc c t = true.
Proof. unfold dead_on. rewrite existsb_exists. tauto. Qed.

Lemma step_issued_mono P s e s' l : step fx f8 P s e = Some (s', l) -> forall c, In c (sy_issued s) -> In c (sy_issued s').
Proof. intros H c IN. destruct e.
  - apply step_client in H. destruct H as (srv & o & iss & H1 & -> & _). simpl. apply in_or_app; auto.
  - apply step_up in H. destruct H as (m & q & srv & o & lab & H1 & H2 & -> & _). simpl. apply in_or_app; auto.
  - apply step_down in H. destruct H as (m & q & ws & ws' & H1 & H2 & H3 & ->). auto.
  - apply step_step in H. destruct H as (ws & q & ws' & out & H1 & H2 & H3 & ->). simpl. apply in_or_app; auto.
Qed.

Definition good (s : sys) : Prop := sinv s /\ csound s.
Lemma good_init nw : good (init_sys nw). Proof. split. apply sinv_init. apply csound_init. Qed.
Lemma good_step P s e s' l : step fx f8 P s e = Some (s', l) -> good s -> good s'.
Proof. intros H [A B]. split. eapply sinv_step; eauto. eapply csound_step; eauto. Qed.
Lemma good_run P evs : forall s s' l, good s -> run fx f8 P s evs = Some (s', l) -> good s'.
Proof. intros s s' l HI H. eapply (run_inv P good (fun _ => True)); eauto.
  intros. split. eapply good_step; eauto. apply Forall_forall; auto. Qed.

Theorem only_cancelled_work_removed P nw evs s0 l0 e s' l :
  run fx f8 P (init_sys nw) evs = Some (s0, l0) -> step fx f8 P s0 e = Some (s', l) ->
  (forall k ws ws' a, nth_error (sy_workers s0) k = Some ws -> nth_error (sy_workers s') k = Some ws' ->
     holds_addr ws a ->
     holds_addr ws' a
     \/ (exists t, In (LDone (S k) t) l /\ t_addr t = a)
     \/ (exists t, In (LDrop (S k) t) l /\ t_addr t = a /\ dead (sy_issued s') t = true)
     \/ (exists t, In (LSkip (S k) a (Some t)) l /\ dead (sy_issued s') t = true))
  /\ (forall wid a t, In (LSkip wid a (Some t)) l -> dead (sy_issued s') t = true)
  /\ (forall wid a mb n, In (LCancel wid a mb n) l ->
        exists k ws, wid = S k /\ e = EStep k /\ nth_error (sy_workers s0) k = Some ws
          /\ (w_counter ws <= mb \/ exists rt, lookup_t a (w_tasks ws) = Some rt /\ In mb (rt_owned rt))).
Proof.
  intros R ST. assert (G : good s0) by (eapply good_run; eauto; apply good_init).
  destruct G as [SI CS]. pose proof (step_issued_mono _ _ _ _ _ ST) as MONO.
  assert (D : (exists j, e = EStep j) \/ (forall j, e <> EStep j)) by (destruct e; eauto; right; intros; discriminate).
  assert (NM : (forall j, e <> EStep j) -> forall x, In x l -> main_label x = false).
  { intros N x IN. pose proof (step_nonmain _ _ _ _ _ ST N) as F. rewrite Forall_forall in F. auto. }
  split; [|split].
  - intros k ws ws' a W W' HA. destruct SI as [[LU LD WK] BL DR]. destruct e.
    + apply step_client in ST. destruct ST as (srv & o & iss & H1 & -> & _). simpl in W'. rewrite W in W'. inv W'. auto.
    + apply step_up in ST. destruct ST as (m & q & srv & o & lab & H1 & H2 & -> & _). simpl in W'. rewrite W in W'. inv W'. auto.
    + apply step_down in ST. destruct ST as (m & q & ws0 & ws1 & H1 & H2 & H3 & ->). simpl in *.
      apply nth_error_set_nth_inv in W'. destruct W' as [[-> ->]|[N1 N2]]; [|rewrite W in N2; inv N2; auto].
      rewrite W in H2. inv H2. destruct (WK _ _ W) as [K1 K2].
      destruct (wrecv_keeps _ _ _ _ _ H3 K1 HA) as [X|(t & c & X1 & X2 & X3 & X4)]; auto.
      right. right. left. exists t. rewrite K2 in X1. split; auto. split; auto. apply dead_iff. exists c. split; auto.
      eapply (cs_down _ CS); eauto. subst. left; auto.
    + apply step_step in ST. destruct ST as (ws0 & q & ws1 & out & H1 & H2 & H3 & ->). simpl in *.
      apply nth_error_set_nth_inv in W'. destruct W' as [[-> ->]|[N1 N2]]; [|rewrite W in N2; inv N2; auto].
      rewrite W in H1. inv H1. destruct (WK _ _ W) as [K1 K2].
      destruct (wstep_keeps _ _ _ _ _ _ H3 HA) as [X|[(t & X1 & X2)|(t & X1)]]; auto.
      right. left. exists t. rewrite K2 in X1. auto.
      right. right. right. exists t. rewrite K2 in X1. split; auto.
      pose proof (wstep_labels _ _ _ _ _ H3 K1) as [F _]. rewrite Forall_forall in F. apply F in X1. simpl in X1.
      apply dead_on_iff in X1. destruct X1 as (c & C1 & C2). apply dead_iff. exists c. split; auto.
      apply in_or_app. left. eapply (cs_w _ CS); eauto.
  - intros wid a t IN. destruct D as [[j ->]|D]; [|apply NM in IN; auto; discriminate].
    destruct (step_lab_ok _ _ _ _ _ ST SI) as (ws & W & ID & F). rewrite Forall_forall in F. apply F in IN. simpl in IN.
    apply dead_on_iff in IN. destruct IN as (c & C1 & C2). apply dead_iff. exists c. split; auto. apply MONO. eapply (cs_w _ CS); eauto.
  - intros wid a mb n IN. destruct D as [[j ->]|D]; [|apply NM in IN; auto; discriminate].
    destruct (step_lab_ok _ _ _ _ _ ST SI) as (ws & W & ID & F). rewrite Forall_forall in F. apply F in IN. simpl in IN.
    destruct IN as [E X]. exists j, ws. split. congruence. auto.
Qed.

(* ------------------------------------------------------------------ C12_quiescent_clean_partial *)
(* I1: an issued CANCEL has been handled by worker k, or is still on its way to it *)
Definition cprop (s : sys) : Prop :=
  forall c k ws, In c (sy_issued s) -> nth_error (sy_workers s) k = Some ws ->
    In c (w_cancelled ws)
    \/ (exists q, nth_error (sy_down s) k = Some q /\ In (MCancel c) q)
    \/ (exists j q, nth_error (sy_up s) j = Some q /\ In (MCancel c) q).

Lemma cancel_comp_bcast nw conn id s s' o iss : cancel_comp nw conn id s = Some (s', o, iss) ->
  forall a k, In a iss -> k < nw -> In (k, MCancel a) (o_down o).
Proof. unfold cancel_comp. intros H a k IN L. repeat dmH H; inv H; simpl in IN; try contradiction;
  (destruct IN as [<-|[]]; simpl; apply broadcast_all; auto). Qed.
Lemma cancel_all_bcast nw conn ids : forall s s' o iss, cancel_all nw conn ids s = Some (s', o, iss) ->
  forall a k, In a iss -> k < nw -> In (k, MCancel a) (o_down o).
Proof. induction ids as [|id rr IH]; intros s s' o iss H a k IN L; simpl in H. inv H. destruct IN.
  destruct (cancel_comp nw conn id s) as [[[s1 o1] i1]|] eqn:C1; [|discriminate].
  destruct (cancel_all nw conn rr s1) as [[[s2 o2] i2]|] eqn:C2; [|discriminate]. inv H. simpl.
  apply in_app_or in IN. apply in_or_app. destruct IN; [left; eapply cancel_comp_bcast|right; eapply IH]; eauto. Qed.
Lemma disconnect_bcast nw conn order s s' o iss : disconnect nw conn order s = Some (s', o, iss) ->
  forall a k, In a iss -> k < nw -> In (k, MCancel a) (o_down o).
Proof. unfold disconnect. intros H. repeat dmH H; inv H. eapply cancel_all_bcast; eauto. Qed.
Lemma sreq_bcast nw c r asg srv srv' o iss : sreq nw c r asg srv = Some (srv', o, iss) ->
  forall a k, In a iss -> k < nw -> In (k, MCancel a) (o_down o).
Proof. intros H. destruct r; simpl in H.
  - repeat dmH H; inv H. intros a k [].
  - repeat dmH H; inv H; intros a k [].
  - repeat dmH H; try discriminate; try (inv H; intros a k []; fail). eapply disconnect_bcast; eauto.
  - eapply cancel_comp_bcast; eauto.
  - eapply disconnect_bcast; eauto.
Qed.

Lemma push_down_has d ch k q m : nth_error ch k = Some q -> In (k, m) d ->
  exists q', nth_error (push_down d ch) k = Some q' /\ In m q'.
Proof. intros H IN. eexists. split. eapply push_down_nth; eauto. apply in_or_app. right.
  apply in_map_iff. exists (k, m). split; auto. apply filter_In. split; auto. simpl. apply Nat.eqb_refl. Qed.
Lemma push_down_keeps d ch k q m : nth_error ch k = Some q -> In m q ->
  exists q', nth_error (push_down d ch) k = Some q' /\ In m q'.
Proof. intros H IN. eexists. split. eapply push_down_nth; eauto. apply in_or_app. auto. Qed.

Lemma cprop_init nw : cprop (init_sys nw). Proof. intros c k ws []. Qed.

Lemma cprop_step P s e s' l : step fx f8 P s e = Some (s', l) -> sinv s -> cprop s -> cprop s'.
Proof.
  intros H [[LU LD WK] BL DR] CP. destruct e.
  - apply step_client in H. destruct H as (srv & o & iss & H1 & -> & _). intros c0 k ws IN W. simpl in *.
    assert (KL : k < length (sy_workers s)) by (apply nth_error_Some; congruence).
    destruct (nth_error (sy_down s) k) as [qd|] eqn:QD; [|apply nth_error_None in QD; lia].
    apply in_app_or in IN. destruct IN as [IN|IN].
    + destruct (CP _ _ _ IN W) as [X|[(q & Q1 & Q2)|X]]; auto. right. left. eapply push_down_keeps; eauto.
    + right. left. eapply push_down_has; eauto. eapply sreq_bcast; eauto.
  - apply step_up in H. destruct H as (m & q & srv & o & lab & H1 & H2 & -> & _). intros c0 k ws IN W. simpl in *.
    rewrite app_nil_r in IN.
    assert (KL : k < length (sy_workers s)) by (apply nth_error_Some; congruence).
    destruct (nth_error (sy_down s) k) as [qd|] eqn:QD; [|apply nth_error_None in QD; lia].
    destruct (CP _ _ _ IN W) as [X|[(q1 & Q1 & Q2)|(j & q1 & Q1 & Q2)]]; auto.
    + right. left. eapply push_down_keeps; eauto.
    + destruct (Nat.eq_dec j w).
      * subst. rewrite H1 in Q1. inv Q1. destruct Q2 as [Q2|Q2].
        -- subst. simpl in H2. inv H2. simpl. right. left. eapply push_down_has; eauto. apply broadcast_all; auto.
        -- right. right. exists w, q. split; auto. eapply nth_error_set_nth_same; eauto.
      * right. right. exists j, q1. split; auto. rewrite nth_error_set_nth_other; auto.
  - apply step_down in H. destruct H as (m & q & ws0 & ws1 & H1 & H2 & H3 & ->). intros c0 k ws IN W. simpl in *.
    destruct (WK _ _ H2) as [K1 K2]. pose proof (wrecv_fields _ _ _ _ H3 K1) as (_ & _ & _ & F4 & F5).
    apply nth_error_set_nth_inv in W. destruct W as [[-> ->]|[N1 N2]].
    + destruct (CP _ _ _ IN H2) as [X|[(q1 & Q1 & Q2)|X]]; auto.
      rewrite H1 in Q1. inv Q1. destruct Q2 as [Q2|Q2]. left. apply F5; auto.
      right. left. exists q. split; auto. eapply nth_error_set_nth_same; eauto.
    + destruct (CP _ _ _ IN N2) as [X|[(q1 & Q1 & Q2)|X]]; auto.
      right. left. exists q1. split; auto. rewrite nth_error_set_nth_other; auto.
  - apply step_step in H. destruct H as (ws0 & q & ws1 & out & H1 & H2 & H3 & ->). intros c0 k ws IN W. simpl in *.
    pose proof (wstep_fields _ _ _ _ _ H3) as (_ & _ & F3).
    apply in_app_or in IN. destruct IN as [IN|IN].
    + assert (X : In c0 (w_cancelled ws) \/ (exists q0, nth_error (sy_down s) k = Some q0 /\ In (MCancel c0) q0) \/
                   (exists j q0, nth_error (sy_up s) j = Some q0 /\ In (MCancel c0) q0)).
      { apply nth_error_set_nth_inv in W. destruct W as [[-> ->]|[N1 N2]]. rewrite F3. eapply CP; eauto. eapply CP; eauto. }
      destruct X as [X|[X|(j & q0 & Q1 & Q2)]]; auto. right. right.
      destruct (Nat.eq_dec j w). subst. rewrite H2 in Q1. inv Q1. exists w, (q0 ++ out). split. eapply nth_error_set_nth_same; eauto. apply in_or_app; auto.
      exists j, q0. split; auto. rewrite nth_error_set_nth_other; auto.
    + right. right. exists w, (q ++ out). split. eapply nth_error_set_nth_same; eauto. apply in_or_app. right. apply In_cancels_of; auto.
Qed.

(* I2: no worker holds a task that it knows to be cancelled *)
Definition tasks_of (ws : wstate) : list task := map (fun e => rt_task (snd e)) (w_tasks ws) ++ w_delayed ws.
Definition nodead (s : sys) : Prop :=
  forall k ws t, nth_error (sy_workers s) k = Some ws -> In t (tasks_of ws) -> dead_on ws t = false.

Lemma In_tasks_of ws t : In t (tasks_of ws) <-> (exists a rt, In (a, rt) (w_tasks ws) /\ rt_task rt = t) \/ In t (w_delayed ws).
Proof. unfold tasks_of. rewrite in_app_iff, in_map_iff. split; intros [H|H]; auto.
  destruct H as ([a rt] & E & IN). left; eauto. destruct H as (a & rt & IN & E). left. exists (a, rt); auto. Qed.

Lemma cancel_tasks_sub wid c ts : forall b ts' b' l, cancel_tasks wid c ts b = Some (ts', b', l) ->
  forall a rt, In (a, rt) ts' -> In (a, rt) ts /\ desc c (rt_task rt) = false.
Proof. induction ts as [|[k rt0] r IH]; intros b ts' b' l H a rt IN; simpl in H. inv H. destruct IN.
  destruct (desc c (rt_task rt0)) eqn:D.
  - destruct (pop_boxes (rt_owned rt0) b); [|discriminate].
    destruct (cancel_tasks wid c r l0) as [[[x y] z]|] eqn:C; [|discriminate]. inv H.
    destruct (IH _ _ _ _ C _ _ IN). split; auto. right; auto.
  - destruct (cancel_tasks wid c r b) as [[[x y] z]|] eqn:C; [|discriminate]. inv H.
    destruct IN as [IN|IN]. inv IN. split; auto. left; auto. destruct (IH _ _ _ _ C _ _ IN). split; auto. right; auto.
Qed.

Lemma forget_tasks_map w a t : In t (map (fun e => rt_task (snd e)) (w_tasks (forget f8 w a))) ->
  In t (map (fun e => rt_task (snd e)) (w_tasks w)).
Proof. intros H. apply in_map_iff in H. destruct H as (x & E & IN). apply forget_In in IN. apply in_map_iff. eauto. Qed.

Lemma sel_ready_tasks : forall ready w lab o w1 r lab1, sel_ready f8 w ready lab = (o, w1, r, lab1) ->
  forall t, In t (map (fun e => rt_task (snd e)) (w_tasks w1)) -> In t (map (fun e => rt_task (snd e)) (w_tasks w)).
Proof. induction ready as [|a rd IH]; intros w lab o w1 r lab1 H t IN; simpl in H. inv H; auto.
  destruct (runnable w a). inv H; auto. eapply IH in H; eauto. eapply forget_tasks_map; eauto. Qed.

Lemma sel_delayed_tasks : forall rdel w lab o w1 lab1, sel_delayed f8 w rdel lab = (o, w1, lab1) ->
  forall t, In t (tasks_of w1) -> In t (map (fun e => rt_task (snd e)) (w_tasks w)) \/ In t rdel.
Proof.
  induction rdel as [|t0 rest IH]; intros w lab o w1 lab1 H t IN; simpl in H.
  - inv H. unfold tasks_of in IN. simpl in IN. rewrite app_nil_r in IN. auto.
  - dmH H.
    + inv H. unfold tasks_of in IN. simpl in IN. apply in_app_or in IN. destruct IN as [IN|IN].
      * apply in_map_iff in IN. destruct IN as ([a rt] & E & IN). apply In_put_inv in IN. destruct IN as [IN|IN].
        inv IN. simpl. right; left; auto. left. apply in_map_iff. exists (a, rt); auto.
      * right. right. apply in_rev; auto.
    + eapply IH in H; eauto. destruct H as [H|H]; [|right; right; auto]. apply forget_tasks_map in H. simpl in H.
      apply in_map_iff in H. destruct H as ([a rt] & E & IN'). apply In_put_inv in IN'. destruct IN' as [IN'|IN'].
      inv IN'. simpl. right; left; auto. left. apply in_map_iff. exists (a, rt); auto.
Qed.

Lemma select_tasks w0 o w out lab : select f8 w0 = (o, w, out, lab) -> forall t, In t (tasks_of w) -> In t (tasks_of w0).
Proof.
  unfold select. intros H t IN.
  destruct (sel_ready f8 w0 (w_ready w0) []) as [[[o1 w'] r] lab1] eqn:S.
  pose proof (sel_ready_env _ _ _ _ _ _ _ S) as (_ & E2 & _).
  pose proof (sel_ready_tasks _ _ _ _ _ _ _ S) as ST.
  destruct o1.
  - inv H. unfold tasks_of in *. simpl in *. apply in_app_or in IN. apply in_or_app. destruct IN; auto. right. congruence.
  - destruct (sel_delayed f8 (set_ready [] w') (rev (w_delayed w')) lab1) as [[o2 w2] lab2] eqn:D.
    assert (IN2 : In t (tasks_of w2)) by (destruct o2; inv H; exact IN).
    eapply sel_delayed_tasks in D; eauto. simpl in D. unfold tasks_of. apply in_or_app. destruct D as [D|D]; auto.
    right. apply in_rev in D. congruence.
Qed.

Lemma wstep_tasks P w0 w' out lab : wstep fx f8 P w0 = Some (w', out, lab) -> keys_ok w0 ->
  forall t, In t (tasks_of w') -> In t (tasks_of w0).
Proof.
  unfold wstep. intros H KO t IN. dmH H; [discriminate|].
  destruct (select f8 w0) as [[[o w] out0] lab0] eqn:S.
  pose proof (select_tasks _ _ _ _ _ S) as ST. apply select_spec in S; auto. destruct S as (_ & KW & SP).
  destruct o as [rt0|]; [|inv H; auto].
  destruct (SP rt0 eq_refl) as (_ & LW & _). apply lt_In in LW.
  assert (PUT : forall w1 rt, w_tasks w1 = put_t (t_addr (rt_task rt0)) rt (w_tasks w) -> w_delayed w1 = w_delayed w ->
                 rt_task rt = rt_task rt0 -> In t (tasks_of w1) -> In t (tasks_of w0)).
  { intros w1 rt T D E I1. apply ST. apply In_tasks_of in I1. apply In_tasks_of. destruct I1 as [(a & rt' & I1 & I2)|I1].
    - rewrite T in I1. apply In_put_inv in I1. destruct I1 as [I1|I1]. inv I1. left. exists (t_addr (rt_task rt0)), rt0. split; auto. left; eauto.
    - right. rewrite <- D; auto. }
  destruct (desired_result (w_id w) rt0 (w_boxes w)) as [[[boxes1 rt1] l1]|] eqn:DR.
  2:{ match type of H with context[raise_path ?a ?b ?c ?d ?e] => destruct (raise_path a b c d e) as [[w1 o1] lb1] eqn:RP end.
      inv H. apply raise_path_spec in RP. destruct RP as (T1 & T2 & _). eapply PUT; eauto. }
  apply desired_result_spec in DR. destruct DR as (DT & _ & _).
  destruct (nth_error P (t_prog (rt_task (reset_await rt1)))) as [prog|] eqn:NP.
  2:{ match type of H with context[raise_path ?a ?b ?c ?d ?e] => destruct (raise_path a b c d e) as [[w1 o1] lb1] eqn:RP end.
      inv H. apply raise_path_spec in RP. destruct RP as (T1 & T2 & _). simpl in *. rewrite DT in T1. eapply PUT; eauto. }
  match type of H with context[run_instrs ?a ?b ?c] => destruct (run_instrs a b c) as [oc s] eqn:RI end.
  apply run_instrs_labels in RI. simpl in RI. destruct RI as (RT & _). rewrite DT in RT.
  destruct oc as [mb nx| |k].
  - destruct (lookup_b mb (c_boxes s)) eqn:L.
    + inv H. revert IN. dmG; intros IN; eapply PUT; try exact IN; simpl; eauto.
    + match type of H with context[raise_path ?a ?b ?c ?d ?e] => destruct (raise_path a b c d e) as [[w1 o1] lb1] eqn:RP end.
      inv H. apply raise_path_spec in RP. destruct RP as (T1 & T2 & _). simpl in *. rewrite RT in T1. eapply PUT; eauto.
  - match type of H with context[match ?x with Some _ => _ | None => None end] => destruct x as [[[w2 out2] lab2]|] eqn:SH end; [|discriminate].
    match type of H with context[completion ?a ?b ?c] => destruct (completion a b c) as [s2|] eqn:CL end; [|discriminate].
    inv H.
    assert (W2 : w_tasks w2 = w_tasks w /\ w_delayed w2 = w_delayed w).
    { destruct (t_addr (rt_task rt0)) as [[dst x1] x2]. destruct (dst =? w_id w).
      - match type of SH with context[handle_result ?a ?b ?c] => destruct (handle_result a b c) as [[w2' l2]|] eqn:HR end; [|discriminate].
        inv SH. pose proof (handle_result_fields _ _ _ _ _ HR) as HF. simpl in HF. tauto.
      - inv SH. simpl. auto. }
    destruct W2 as [W2a W2b]. apply ST. apply In_tasks_of in IN. apply In_tasks_of. simpl in IN.
    destruct IN as [(a & rt' & I1 & I2)|I1].
    + rewrite W2a in I1. apply In_remove in I1; [|apply addr_eqb_eq]. left. exists a, rt'. tauto.
    + right. rewrite <- W2b; auto.
  - match type of H with context[raise_path ?a ?b ?c ?d ?e] => destruct (raise_path a b c d e) as [[w1 o1] lb1] eqn:RP end.
    inv H. apply raise_path_spec in RP. destruct RP as (T1 & T2 & _). simpl in *. rewrite RT in T1. eapply PUT; eauto.
Qed.

Lemma nodead_init nw : nodead (init_sys nw).
Proof. intros k ws t H IN. simpl in H. apply nth_error_In in H. apply in_map_iff in H. destruct H as (x & <- & _). destruct IN. Qed.

Lemma dead_on_false_iff ws t : dead_on ws t = false <-> forall c, In c (w_cancelled ws) -> desc c t = false.
Proof. unfold dead_on. split.
  - intros H c IN. destruct (desc c t) eqn:D; auto.
    assert (existsb (fun c0 => desc c0 t) (w_cancelled ws) = true) by (apply existsb_exists; eauto). congruence.
  - intros H. destruct (existsb (fun c => desc c t) (w_cancelled ws)) eqn:E; auto.
    apply existsb_exists in E. destruct E as (c & C1 & C2). rewrite H in C2; auto. Qed.

Lemma nodead_step P s e s' l : step fx f8 P s e = Some (s', l) -> sinv s -> overtaken s e = false -> nodead s -> nodead s'.
Proof.
  intros H [[LU LD WK] BL DR] OV ND. destruct e.
  - apply step_client in H. destruct H as (srv & o & iss & H1 & -> & _). exact ND.
  - apply step_up in H. destruct H as (m & q & srv & o & lab & H1 & H2 & -> & _). exact ND.
  - apply step_down in H. destruct H as (m & q & ws0 & ws1 & H1 & H2 & H3 & ->). intros k ws t W IN. simpl in W.
    apply nth_error_set_nth_inv in W. destruct W as [[-> ->]|[N1 N2]]; [|eapply ND; eauto].
    unfold overtaken in OV. rewrite H1, H2 in OV.
    assert (ND0 : forall t, In t (tasks_of ws0) -> dead_on ws0 t = false) by (intros; eapply ND; eauto).
    destruct m; simpl in H3; try discriminate.
    + inv H3. unfold recv_submit, add_task, dead_on. simpl. fold (dead_on ws0 t).
      apply In_tasks_of in IN. simpl in IN. destruct IN as [(a & rt & I1 & I2)|I1].
      * apply In_put_inv in I1. destruct I1 as [I1|I1]. inv I1. simpl. exact OV.
        apply ND0. apply In_tasks_of. left; eauto.
      * apply ND0. apply In_tasks_of. auto.
    + unfold recv_batch in H3. destruct (rev ts) as [|lst rr] eqn:RV; [discriminate|]. inv H3.
      unfold dead_on. simpl. fold (dead_on ws0 t).
      assert (TS : forall x, In x ts -> dead_on ws0 x = false).
      { intros x IX. destruct (dead_on ws0 x) eqn:DX; auto.
        assert (existsb (dead_on ws0) ts = true) by (apply existsb_exists; eauto). congruence. }
      assert (RR : forall x, In x (lst :: rr) -> In x ts) by (intros x IX; rewrite <- RV in IX; apply in_rev; auto).
      apply In_tasks_of in IN. simpl in IN. destruct IN as [(a & rt & I1 & I2)|I1].
      * apply In_put_inv in I1. destruct I1 as [I1|I1]. inv I1. simpl. apply TS. apply RR. left; auto.
        apply ND0. apply In_tasks_of. left; eauto.
      * apply in_app_or in I1. destruct I1 as [I1|I1]. apply ND0. apply In_tasks_of. auto.
        apply TS. apply RR. right. apply in_rev in I1. auto.
    + pose proof (handle_result_fields _ _ _ _ _ H3) as (_ & _ & C & T & D & _).
      unfold dead_on. rewrite C. apply ND0. unfold tasks_of in *. rewrite T, D in IN. auto.
    + pose proof (handle_cancel_fields _ _ _ _ H3) as (_ & _ & C & _).
      unfold handle_cancel in H3.
      destruct (cancel_tasks (w_id ws0) a (w_tasks ws0) (w_boxes ws0)) as [[[ts' b'] l']|] eqn:CT; [|discriminate].
      assert (X : In t (tasks_of ws0) /\ desc a t = false).
      { inv H3. apply In_tasks_of in IN. simpl in IN. destruct IN as [(x & rt & I1 & I2)|I1].
        - destruct (cancel_tasks_sub _ _ _ _ _ _ _ CT _ _ I1) as [J1 J2]. subst. split; auto. apply In_tasks_of. left; eauto.
        - apply filter_In in I1. destruct I1 as [I1 I2]. split. apply In_tasks_of; auto. destruct (desc a t); auto. }
      destruct X as [X1 X2]. apply dead_on_false_iff. intros c0 IC. apply C in IC. destruct IC as [->|IC]; auto.
      apply ND0 in X1. rewrite dead_on_false_iff in X1. auto.
  - apply step_step in H. destruct H as (ws0 & q & ws1 & out & H1 & H2 & H3 & ->). intros k ws t W IN. simpl in W.
    apply nth_error_set_nth_inv in W. destruct W as [[-> ->]|[N1 N2]]; [|eapply ND; eauto].
    destruct (WK _ _ H1) as [K1 K2].
    pose proof (wstep_fields _ _ _ _ _ H3) as (_ & _ & F3). unfold dead_on. rewrite F3.
    eapply ND; [exact H1|]. eapply wstep_tasks; eauto.
Qed.

Fixpoint no_overtake (P : progs) (s : sys) (evs : list event) : bool :=
  match evs with
  | [] => true
  | e :: r => negb (overtaken s e) && match step fx f8 P s e with Some (s1, _) => no_overtake P s1 r | None => true end
  end.

Lemma In_lookup_b k v l : In (k, v) l -> lookup_b k l <> None.
Proof. induction l as [|[k' v'] l IH]; simpl; intros H. destruct H.
  destruct (Nat.eqb k k') eqn:E. congruence. destruct H as [H|H]. inv H. rewrite Nat.eqb_refl in E. discriminate. auto. Qed.

Lemma run_clean_inv P evs : forall s0 s l, good s0 /\ cprop s0 /\ nodead s0 ->
  run fx f8 P s0 evs = Some (s, l) -> no_overtake P s0 evs = true -> good s /\ cprop s /\ nodead s.
Proof.
  induction evs as [|e r IH]; intros s0 s l G0 R NO; simpl in *.
  - inv R. auto.
  - destruct (step fx f8 P s0 e) as [[s1 l1]|] eqn:ST; [|discriminate].
    destruct (run fx f8 P s1 r) as [[s2 l2]|] eqn:RR; [|discriminate]. inv R.
    apply andb_true_iff in NO. destruct NO as [NO1 NO2]. apply negb_true_iff in NO1.
    destruct G0 as ([SI CS] & CP & ND). eapply IH; eauto. split; [split|split].
    eapply sinv_step; eauto. eapply csound_step; eauto. eapply cprop_step; eauto. eapply nodead_step; eauto.
Qed.

Theorem quiescent_clean_partial P nw evs s l :
  run fx f8 P (init_sys nw) evs = Some (s, l) -> no_overtake P (init_sys nw) evs = true ->
  quiescent s = true -> clean s = true.
Proof.
  intros R NO Q.
  assert (INV : good s /\ cprop s /\ nodead s).
  { eapply run_clean_inv; eauto. split; [apply good_init|split; [apply cprop_init|apply nodead_init]]. }
  destruct INV as ([SI CS] & CP & ND).
  unfold quiescent in Q. apply andb_true_iff in Q. destruct Q as [Q Q3]. apply andb_true_iff in Q. destruct Q as [Q1 Q2].
  rewrite forallb_forall in Q1, Q2.
  assert (ALL : forall c k ws, In c (sy_issued s) -> nth_error (sy_workers s) k = Some ws -> In c (w_cancelled ws)).
  { intros c k ws IC W. destruct (CP _ _ _ IC W) as [X|[(q & A1 & A2)|(j & q & A1 & A2)]]; auto.
    - apply nth_error_In in A1. apply Q2 in A1. destruct q; [destruct A2|discriminate].
    - apply nth_error_In in A1. apply Q1 in A1. destruct q; [destruct A2|discriminate]. }
  unfold clean. apply forallb_forall. intros ws IW. apply In_nth_error in IW. destruct IW as [k W].
  apply negb_true_iff. unfold holds_dead. destruct SI as [[LU LD WK] BL DR]. destruct (WK _ _ W) as [K1 K2].
  assert (DEADF : forall t, In t (tasks_of ws) -> dead (sy_issued s) t = false).
  { intros t IT. destruct (dead (sy_issued s) t) eqn:DD; auto. apply dead_iff in DD. destruct DD as (c & C1 & C2).
    pose proof (ND _ _ _ W IT) as X. rewrite dead_on_false_iff in X. rewrite X in C2. discriminate. eapply ALL; eauto. }
  apply orb_false_iff. split; [apply orb_false_iff; split|].
  - destruct (existsb (fun e => dead (sy_issued s) (rt_task (snd e))) (w_tasks ws)) eqn:E; auto.
    apply existsb_exists in E. destruct E as ([a rt] & E1 & E2). simpl in E2.
    rewrite DEADF in E2. discriminate. apply In_tasks_of. left; eauto.
  - destruct (existsb (dead (sy_issued s)) (w_delayed ws)) eqn:E; auto.
    apply existsb_exists in E. destruct E as (t & E1 & E2). rewrite DEADF in E2. discriminate. apply In_tasks_of. auto.
  - destruct (existsb (fun e => mem_addr (w_id ws, fst e, 0) (sy_issued s)) (w_boxes ws)) eqn:E; auto.
    apply existsb_exists in E. destruct E as ([mb box] & E1 & E2). simpl in E2. apply mem_addr_In in E2. rewrite K2 in E2.
    destruct (DR _ _ _ _ E2 W) as [X _]. apply In_lookup_b in E1. contradiction.
Qed.

(* ------------------------------------------------------------------ server tables (DetachedServer) *)
Section LN.
  Context {V : Type}.
  Lemma ln_remove_same k (l : list (nat * V)) : lookup_n k (remove_n k l) = None.
  Proof. apply lookup_remove_same. Qed.
  Lemma ln_remove_other k j (l : list (nat * V)) : k <> j -> lookup_n k (remove_n j l) = lookup_n k l.
  Proof. apply lookup_remove_other. apply Nat.eqb_eq. Qed.
  Lemma ln_remove_none k j (l : list (nat * V)) : lookup_n k l = None -> lookup_n k (remove_n j l) = None.
  Proof. apply lookup_remove_none. Qed.
  Lemma ln_put_same k v (l : list (nat * V)) : lookup_n k (put_n k v l) = Some v.
  Proof. apply lookup_put_same. apply Nat.eqb_eq. Qed.
  Lemma ln_put_other k j v (l : list (nat * V)) : k <> j -> lookup_n k (put_n j v l) = lookup_n k l.
  Proof. apply lookup_put_other. apply Nat.eqb_eq. Qed.
  Lemma ln_In k v (l : list (nat * V)) : lookup_n k l = Some v -> In (k, v) l.
  Proof. apply lookup_In. apply Nat.eqb_eq. Qed.
  Lemma ln_filter_keep (f : nat * V -> bool) k v : forall l, lookup_n k l = Some v -> f (k, v) = true -> lookup_n k (filter f l) = Some v.
  Proof. induction l as [|[k' v'] l IH]; simpl; intros H F. discriminate.
    destruct (Nat.eqb k k') eqn:E.
    - apply Nat.eqb_eq in E. subst. inv H. rewrite F. simpl. rewrite Nat.eqb_refl. auto.
    - destruct (f (k', v')); simpl; auto. rewrite E. auto. Qed.
  Lemma ln_filter_none (f : nat * V -> bool) k : forall l, lookup_n k l = None -> lookup_n k (filter f l) = None.
  Proof. induction l as [|[k' v'] l IH]; simpl; intros H; auto.
    destruct (Nat.eqb k k') eqn:E. discriminate. destruct (f (k', v')); simpl; auto. rewrite E; auto. Qed.
  Lemma ln_unique k v (l : list (nat * V)) : NoDup (map fst l) -> In (k, v) l -> lookup_n k l = Some v.
  Proof. induction l as [|[k' v'] l IH]; simpl; intros N H. destruct H. inv N.
    destruct H as [H|H]. inv H. rewrite Nat.eqb_refl; auto.
    destruct (Nat.eqb k k') eqn:E. apply Nat.eqb_eq in E. subst. exfalso. apply H2. apply in_map_iff. exists (k', v); auto.
    auto. Qed.
  Lemma keys_put_new k v (l : list (nat * V)) : lookup_n k l = None -> map fst (put_n k v l) = map fst l ++ [k].
  Proof. induction l as [|[k' v'] l IH]; simpl; intros H; auto. destruct (Nat.eqb k k') eqn:E. discriminate. simpl. rewrite IH; auto. Qed.
  Lemma lookup_none_notin k (l : list (nat * V)) : lookup_n k l = None -> ~ In k (map fst l).
  Proof. induction l as [|[k' v'] l IH]; simpl; intros H; auto. destruct (Nat.eqb k k') eqn:E. discriminate.
    intros [X|X]. subst. rewrite Nat.eqb_refl in E. discriminate. apply IH; auto. Qed.
  Lemma NoDup_keys_filter (f : nat * V -> bool) (l : list (nat * V)) : NoDup (map fst l) -> NoDup (map fst (filter f l)).
  Proof. induction l as [|[k v] l IH]; simpl; intros N; auto. inv N. destruct (f (k, v)); simpl; auto. constructor; auto.
    intros X. apply H1. apply in_map_iff in X. destruct X as ([k' v'] & E & IN). simpl in E. subst. apply filter_In in IN.
    apply in_map_iff. exists (k, v'); tauto. Qed.
End LN.

Lemma In_remove_first_neq x y l : In x l -> x <> y -> In x (remove_first y l).
Proof. induction l as [|z l IH]; simpl; intros H N; auto. destruct (y =? z) eqn:E.
  apply Nat.eqb_eq in E. subst. destruct H; auto. congruence. destruct H; [left|right]; auto. Qed.
Lemma NoDup_remove_first y l : NoDup l -> NoDup (remove_first y l) /\ ~ In y (remove_first y l).
Proof. induction l as [|z l IH]; simpl; intros N. split; auto. inv N. destruct (y =? z) eqn:E.
  apply Nat.eqb_eq in E. subst. split; auto. apply Nat.eqb_neq in E. destruct (IH H2) as [A B]. split.
  constructor; auto. intro X. apply H1. eapply In_remove_first; eauto. intros [X|X]; auto. Qed.

Lemma list_eqb_eq a : forall b, list_eqb a b = true -> a = b.
Proof. induction a as [|x a IH]; intros [|y b] H; simpl in H; try discriminate; auto.
  apply andb_true_iff in H. destruct H as [H1 H2]. apply Nat.eqb_eq in H1. subst. f_equal; auto. Qed.
Lemma insert_sorted_In x y l : In x (insert_sorted y l) <-> x = y \/ In x l.
Proof. induction l as [|z l IH]; simpl. intuition. destruct (y <=? z); simpl. intuition. rewrite IH. intuition. Qed.
Lemma sort_nat_In x l : In x (sort_nat l) <-> In x l.
Proof. induction l as [|z l IH]; simpl. tauto. rewrite insert_sorted_In, IH. intuition. Qed.

Lemma ln_filter_some {V} (f : nat * V -> bool) k v l : lookup_n k (filter f l) = Some v -> In (k, v) l /\ f (k, v) = true.
Proof. intros H. apply ln_In in H. apply filter_In in H. auto. Qed.

Lemma NoDup_snoc {A} (l : list A) x : NoDup l -> ~ In x l -> NoDup (l ++ [x]).
Proof. induction l as [|y l IH]; simpl; intros N H.
  - constructor. intros []. constructor.
  - inv N. constructor.
    + intro X. apply in_app_or in X. destruct X as [X|[X|[]]]; auto.
    + apply IH; auto.
Qed.


Lemma NoDup_keys_remove {V} k (l : list (nat * V)) : NoDup (map fst l) -> NoDup (map fst (remove_n k l)).
Proof. induction l as [|[k' v] l IH]; simpl; intros N; auto. inv N. destruct (Nat.eqb k k'); auto. simpl. constructor; auto.
  intro X. apply H1. apply in_map_iff in X. destruct X as ([k2 v2] & E & IN). simpl in E. subst.
  apply (In_remove Nat.eqb Nat.eqb_eq) in IN. apply in_map_iff. exists (k', v2). tauto. Qed.
Lemma ln_remove_some {V} k j v (l : list (nat * V)) : lookup_n k (remove_n j l) = Some v -> k <> j /\ lookup_n k l = Some v.
Proof. intros H. destruct (Nat.eq_dec k j). subst. rewrite ln_remove_same in H. discriminate. rewrite ln_remove_other in H; auto. Qed.

Record srv_inv (s : sstate) : Prop := {
  sv_box : forall mb b, lookup_n mb (s_boxes s) = Some b ->
     exists id c ids, lookup_n mb (s_m2t s) = Some id /\ lookup_n id (s_tasks s) = Some (mb, c)
                      /\ lookup_n c (s_clients s) = Some ids /\ In id ids;
  sv_task : forall id mb c, lookup_n id (s_tasks s) = Some (mb, c) -> mb < s_counter s /\ lookup_n mb (s_m2t s) = Some id;
  sv_m2t2 : forall mb id, lookup_n mb (s_m2t s) = Some id -> exists c, lookup_n id (s_tasks s) = Some (mb, c);
  sv_cli : forall c ids id, lookup_n c (s_clients s) = Some ids -> In id ids ->
     exists mb, lookup_n id (s_tasks s) = Some (mb, c) /\ lookup_n mb (s_boxes s) <> None;
  sv_nodup : forall c ids, lookup_n c (s_clients s) = Some ids -> NoDup ids;
  sv_blt : forall mb, lookup_n mb (s_boxes s) <> None -> mb < s_counter s;
  sv_m2t : forall mb id, In (mb, id) (s_m2t s) -> mb < s_counter s;
  sv_keys : NoDup (map fst (s_tasks s));
  sv_keys2 : NoDup (map fst (s_m2t s))
}.

Lemma srv_inv_init : srv_inv init_server.
Proof. constructor; simpl; intros; try discriminate; try congruence; try contradiction; constructor. Qed.

(* the result was delivered: mailbox and id in the client's set go, tasks / mailbox_to_task_dict stay *)
Lemma srv_inv_drop s id mb c cl' : srv_inv s -> lookup_n id (s_tasks s) = Some (mb, c) ->
  (forall c0 ids0, lookup_n c0 cl' = Some ids0 ->
     exists ids1, lookup_n c0 (s_clients s) = Some ids1 /\ NoDup ids0 /\ (forall x, In x ids1 -> x <> id -> In x ids0)
                  /\ (forall x, In x ids0 -> In x ids1 /\ x <> id)) ->
  (forall c0 ids1, lookup_n c0 (s_clients s) = Some ids1 -> exists ids0, lookup_n c0 cl' = Some ids0) ->
  srv_inv (set_s_clients cl' (set_s_boxes (remove_n mb (s_boxes s)) s)).
Proof.
  intros [SB ST SM2 SC SN SL SM SK SK2] T CL1 CL2. constructor; simpl; auto.
  - intros mb' b L. destruct (Nat.eq_dec mb' mb). subst. rewrite ln_remove_same in L. discriminate.
    rewrite ln_remove_other in L by auto. destruct (SB _ _ L) as (id0 & c0 & ids0 & A1 & A2 & A3 & A4).
    destruct (CL2 _ _ A3) as [ids' L']. exists id0, c0, ids'. repeat split; auto.
    destruct (CL1 _ _ L') as (ids1 & B1 & B2 & B3 & _). rewrite A3 in B1. inv B1. apply B3; auto.
    intro E. subst. rewrite T in A2. inv A2. congruence.
  - intros c0 ids0 id0 L IN. destruct (CL1 _ _ L) as (ids1 & B1 & B2 & B3 & B4). destruct (B4 _ IN) as [I1 I2].
    destruct (SC _ _ _ B1 I1) as (mb0 & M1 & M2). exists mb0. split; auto.
    rewrite ln_remove_other; auto. intro E. subst.
    destruct (ST _ _ _ M1) as [_ X1]. destruct (ST _ _ _ T) as [_ X2]. congruence.
  - intros c0 ids0 L. destruct (CL1 _ _ L) as (ids1 & B1 & B2 & B3). auto.
  - intros mb' N. apply SL. intro E. apply N. apply ln_remove_none; auto.
Qed.

(* the task was cancelled: everything about it goes *)
Lemma srv_inv_forget s id mb c ids : srv_inv s -> lookup_n id (s_tasks s) = Some (mb, c) ->
  lookup_n c (s_clients s) = Some ids ->
  srv_inv (set_s_clients (put_n c (remove_first id ids) (s_clients s))
            (set_s_m2t (remove_n mb (s_m2t s)) (set_s_boxes (remove_n mb (s_boxes s)) (set_s_tasks (remove_n id (s_tasks s)) s)))).
Proof.
  intros [SB ST SM2 SC SN SL SM SK SK2] T C.
  pose proof (SN _ _ C) as ND. destruct (NoDup_remove_first id _ ND) as [ND1 ND2].
  destruct (ST _ _ _ T) as [TB TM].
  assert (OTHER : forall id' mb' c', lookup_n id' (s_tasks s) = Some (mb', c') -> id' <> id -> mb' <> mb).
  { intros id' mb' c' L N E. subst. destruct (ST _ _ _ L) as [_ X]. congruence. }
  constructor; simpl.
  - intros mb' b L. apply ln_remove_some in L. destruct L as [N L].
    destruct (SB _ _ L) as (id0 & c0 & ids0 & A1 & A2 & A3 & A4).
    assert (id0 <> id). { intro; subst. rewrite T in A2. inv A2. congruence. }
    destruct (Nat.eq_dec c0 c).
    + subst. rewrite C in A3. inv A3. exists id0, c. eexists. rewrite ln_put_same, !ln_remove_other by auto.
      repeat split; auto. apply In_remove_first_neq; auto.
    + exists id0, c0, ids0. rewrite ln_put_other, !ln_remove_other by auto. auto.
  - intros id' mb' c' L. apply ln_remove_some in L. destruct L as [N L]. destruct (ST _ _ _ L) as [Y1 Y2]. split; auto.
    rewrite ln_remove_other; eauto.
  - intros mb' id' L. apply ln_remove_some in L. destruct L as [N L]. destruct (SM2 _ _ L) as [c' X]. exists c'.
    rewrite ln_remove_other; auto. intro; subst. rewrite T in X. inv X. congruence.
  - intros c0 ids0 id' L IN.
    assert (X : exists idsX, lookup_n c0 (s_clients s) = Some idsX /\ In id' idsX /\ id' <> id).
    { destruct (Nat.eq_dec c0 c).
      - subst. rewrite ln_put_same in L. inv L. exists ids. split; auto. split. eapply In_remove_first; eauto. intro; subst; contradiction.
      - rewrite ln_put_other in L by auto. exists ids0. split; auto. split; auto. intro; subst.
        destruct (SC _ _ _ L IN) as (mb1 & M1 & _). rewrite T in M1. inv M1. congruence. }
    destruct X as (idsX & X1 & X2 & X3). destruct (SC _ _ _ X1 X2) as (mb1 & M1 & M2). exists mb1.
    rewrite !ln_remove_other; eauto.
  - intros c0 ids0 L. destruct (Nat.eq_dec c0 c). subst. rewrite ln_put_same in L. inv L. auto. rewrite ln_put_other in L by auto. eauto.
  - intros mb' N. apply SL. intro E. apply N. apply ln_remove_none; auto.
  - intros mb' id' IN. apply (In_remove Nat.eqb Nat.eqb_eq) in IN. destruct IN. eauto.
  - apply NoDup_keys_remove; auto.
  - apply NoDup_keys_remove; auto.
Qed.

(* a handler that only forgets things *)
Definition submap {V} (m' m : list (nat * V)) : Prop := forall k v, lookup_n k m' = Some v -> lookup_n k m = Some v.
Record sshrink (s s' : sstate) : Prop := {
  sh_counter : s_counter s' = s_counter s;
  sh_tasks : submap (s_tasks s') (s_tasks s);
  sh_m2t : submap (s_m2t s') (s_m2t s);
  sh_boxes : submap (s_boxes s') (s_boxes s);
  sh_cl_none : forall c, lookup_n c (s_clients s') = None <-> lookup_n c (s_clients s) = None;
  sh_cl_some : forall c ids', lookup_n c (s_clients s') = Some ids' ->
                 exists ids, lookup_n c (s_clients s) = Some ids /\ incl ids' ids
}.
Lemma sshrink_refl s : sshrink s s.
Proof. constructor; auto; try (intros k v H; exact H). tauto. intros c ids' H. exists ids'. split; auto. apply incl_refl. Qed.
Lemma sshrink_trans a b c : sshrink a b -> sshrink b c -> sshrink a c.
Proof. intros [A1 A2 A3 A4 A5 A6] [B1 B2 B3 B4 B5 B6]. constructor.
  congruence. intros k v H; auto. intros k v H; auto. intros k v H; auto.
  intros x. rewrite B5, A5. tauto.
  intros x ids' H. destruct (B6 _ _ H) as (i1 & H1 & H2). destruct (A6 _ _ H1) as (i2 & H3 & H4). exists i2. split; auto.
  eapply incl_tran; eauto. Qed.
Lemma submap_none {V} (m' m : list (nat * V)) k : submap m' m -> lookup_n k m = None -> lookup_n k m' = None.
Proof. intros S N. destruct (lookup_n k m') eqn:E; auto. apply S in E. congruence. Qed.
Lemma submap_remove {V} k (m : list (nat * V)) : submap (remove_n k m) m.
Proof. intros j v H. apply ln_remove_some in H. tauto. Qed.

Lemma cancel_comp_spec nw conn id s s' o iss : cancel_comp nw conn id s = Some (s', o, iss) -> srv_inv s ->
  srv_inv s' /\ sshrink s s' /\ s_closed s' = s_closed s
  /\ (forall ids', lookup_n conn (s_clients s') = Some ids' -> ~ In id ids')
  /\ ((exists ids mb, lookup_n conn (s_clients s) = Some ids /\ In id ids /\ lookup_n id (s_tasks s) = Some (mb, conn)
          /\ lookup_n id (s_tasks s') = None /\ lookup_n mb (s_m2t s') = None /\ lookup_n mb (s_boxes s') = None
          /\ iss = [(0, mb, 0)] /\ o_down o = broadcast nw (MCancel (0, mb, 0)))
       \/ (s' = s /\ iss = [] /\ o_down o = []
            /\ forall ids, lookup_n conn (s_clients s) = Some ids -> ~ In id ids)).
Proof.
  unfold cancel_comp. intros H I.
  destruct (lookup_n conn (s_clients s)) as [ids|] eqn:C; [|discriminate].
  destruct (mem_nat id ids) eqn:M.
  - apply mem_nat_In in M. destruct (sv_cli _ I _ _ _ C M) as (mb & T & B). rewrite T in H.
    destruct (lookup_n mb (s_boxes s)) eqn:BB; [|congruence].
    destruct (sv_task _ I _ _ _ T) as [_ M2]. rewrite M2 in H. inv H. simpl.
    pose proof (sv_nodup _ I _ _ C) as ND. destruct (NoDup_remove_first id _ ND) as [ND1 ND2].
    split. apply srv_inv_forget; auto. split; [|split; [auto|split]].
    + constructor; simpl; auto; try apply submap_remove.
      * intros c. destruct (Nat.eq_dec c conn). subst. rewrite ln_put_same, C. split; discriminate. rewrite ln_put_other; tauto.
      * intros c ids' L. destruct (Nat.eq_dec c conn). subst. rewrite ln_put_same in L. inv L. exists ids. split; auto.
        intros x X. eapply In_remove_first; eauto. rewrite ln_put_other in L by auto. exists ids'. split; auto. apply incl_refl.
    + intros ids' L. rewrite ln_put_same in L. inv L. auto.
    + left. exists ids, mb. repeat split; auto; apply ln_remove_same.
  - assert (NI : ~ In id ids). { intro X. apply mem_nat_In in X. congruence. }
    inv H. split; auto. split. apply sshrink_refl. split; auto. split. intros ids' L. rewrite C in L. inv L. auto.
    right. repeat split; auto. intros ids' L. inv L. auto.
Qed.

Lemma cancel_all_spec nw conn : forall ids s s' o iss, cancel_all nw conn ids s = Some (s', o, iss) -> srv_inv s ->
  srv_inv s' /\ sshrink s s' /\ s_closed s' = s_closed s
  /\ (forall id ids', In id ids -> lookup_n conn (s_clients s') = Some ids' -> ~ In id ids')
  /\ (forall a, In a iss -> exists id mb, In id ids /\ lookup_n id (s_tasks s) = Some (mb, conn) /\ a = (0, mb, 0)).
Proof.
  induction ids as [|id rr IH]; intros s s' o iss H I; simpl in H.
  - inv H. split; auto. split. apply sshrink_refl. split; auto. split. intros id ids' []. intros a [].
  - destruct (cancel_comp nw conn id s) as [[[s1 o1] i1]|] eqn:C1; [|discriminate].
    destruct (cancel_all nw conn rr s1) as [[[s2 o2] i2]|] eqn:C2; [|discriminate]. inv H.
    destruct (cancel_comp_spec _ _ _ _ _ _ _ C1 I) as (I1 & S1 & K1 & N1 & D1).
    destruct (IH _ _ _ _ C2 I1) as (I2 & S2 & K2 & N2 & D2).
    split; auto. split. eapply sshrink_trans; eauto. split. congruence. split.
    + intros x ids' [->|IN] L; [|eapply N2; eauto].
      destruct (sh_cl_some _ _ S2 _ _ L) as (ids1 & L1 & INC). intro X. apply INC in X. eapply N1; eauto.
    + intros a IN. apply in_app_or in IN. destruct IN as [IN|IN].
      * destruct D1 as [(ids0 & mb & A1 & A2 & A3 & _ & _ & _ & A4 & _)|(_ & A4 & _)]; subst i1; [|destruct IN].
        destruct IN as [<-|[]]. exists id, mb. split; auto. left; auto.
      * destruct (D2 _ IN) as (id' & mb & X1 & X2 & X3). exists id', mb. split. right; auto. split; auto.
        eapply (sh_tasks _ _ S1); eauto.
Qed.

Lemma disconnect_spec nw c order s s' o iss : disconnect nw c order s = Some (s', o, iss) -> srv_inv s ->
  srv_inv s'
  /\ lookup_n c (s_clients s') = None /\ In c (s_closed s')
  /\ (forall id mb, ~ In (id, (mb, c)) (s_tasks s'))
  /\ (forall id mb, lookup_n id (s_tasks s) = Some (mb, c) ->
        lookup_n id (s_tasks s') = None /\ lookup_n mb (s_m2t s') = None /\ lookup_n mb (s_boxes s') = None)
  /\ (forall a, In a iss -> exists id mb, lookup_n id (s_tasks s) = Some (mb, c) /\ a = (0, mb, 0))
  /\ submap (s_boxes s') (s_boxes s) /\ submap (s_m2t s') (s_m2t s)
  /\ s_counter s' = s_counter s.
Proof.
  unfold disconnect. intros H I. destruct (lookup_n c (s_clients s)) as [ids|] eqn:C; [|discriminate].
  destruct (list_eqb (sort_nat order) (sort_nat ids)) eqn:LE; [|discriminate]. apply list_eqb_eq in LE.
  assert (PERM : forall x, In x order <-> In x ids). { intros x. rewrite <- (sort_nat_In x order), LE, sort_nat_In. tauto. }
  match type of H with context[cancel_all nw c order ?x] => set (s1 := x) in * end.
  destruct (cancel_all nw c order s1) as [[[s2 o2] i2]|] eqn:CA; [|discriminate]. inv H.
  assert (I1 : srv_inv s1). { destruct I. constructor; simpl; auto. }
  destruct (cancel_all_spec _ _ _ _ _ _ _ CA I1) as (I2 & SH & K2 & N2 & D2). simpl in *.
  pose proof I2 as [SB ST SM2 SC SN SL SM SK SK2].
  destruct SH as [H1 H2 H3 H4 H5 H6]. simpl in *.
  (* after the loop the set of the connection is empty *)
  assert (EMPTY : forall ids', lookup_n c (s_clients s2) = Some ids' -> forall x, ~ In x ids').
  { intros ids' L x X. destruct (H6 _ _ L) as (ids0 & L0 & INC). rewrite C in L0. inv L0.
    eapply N2; eauto. apply PERM. apply INC. auto. }
  assert (NOBOX : forall id mb, lookup_n id (s_tasks s2) = Some (mb, c) -> lookup_n mb (s_boxes s2) = None).
  { intros id mb L. destruct (lookup_n mb (s_boxes s2)) eqn:B; auto. exfalso.
    destruct (SB _ _ B) as (id0 & c0 & ids0 & X1 & X2 & X3 & X4). destruct (ST _ _ _ L) as [_ Y]. rewrite Y in X1. inv X1.
    rewrite L in X2. inv X2. eapply EMPTY; eauto. }
  set (gone := filter (fun e : nat * (nat * nat) => snd (snd e) =? c) (s_tasks s2)).
  assert (GONE : forall mb, In mb (map (fun g : nat * (nat * nat) => fst (snd g)) gone) <-> exists id, lookup_n id (s_tasks s2) = Some (mb, c)).
  { intros mb. rewrite in_map_iff. split.
    - intros ([id [mb' c']] & E & IN). simpl in E. subst. apply filter_In in IN. destruct IN as [IN E]. simpl in E. apply Nat.eqb_eq in E. subst.
      exists id. apply ln_unique; auto.
    - intros [id L]. exists (id, (mb, c)). split; auto. apply filter_In. split. apply ln_In; auto. simpl. apply Nat.eqb_refl. }
  assert (M2T : forall mb id c', lookup_n mb (s_m2t s2) = Some id -> lookup_n id (s_tasks s2) = Some (mb, c') -> c' <> c ->
            lookup_n mb (filter (fun e => negb (mem_nat (fst e) (map (fun g : nat * (nat * nat) => fst (snd g)) gone))) (s_m2t s2)) = Some id).
  { intros mb id c' L T N. apply ln_filter_keep; auto. simpl. apply negb_true_iff.
    destruct (mem_nat mb (map (fun g : nat * (nat * nat) => fst (snd g)) gone)) eqn:M; auto.
    apply mem_nat_In in M. apply GONE in M. destruct M as [id' L']. destruct (ST _ _ _ L') as [_ Y]. rewrite Y in L. inv L.
    rewrite T in L'. inv L'. congruence. }
  assert (TKEEP : forall id mb c', lookup_n id (s_tasks s2) = Some (mb, c') -> c' <> c ->
            lookup_n id (filter (fun e : nat * (nat * nat) => negb (snd (snd e) =? c)) (s_tasks s2)) = Some (mb, c')).
  { intros id mb c' L N. apply ln_filter_keep; auto. simpl. apply negb_true_iff. apply Nat.eqb_neq; auto. }
  split; [|split; [|split; [|split; [|split; [|split; [|split; [|split]]]]]]].
  - constructor; simpl.
    + intros mb b L. destruct (SB _ _ L) as (id0 & c0 & ids0 & X1 & X2 & X3 & X4).
      assert (NC : c0 <> c). { intro; subst. eapply EMPTY; eauto. }
      exists id0, c0, ids0. split; [|split; [|split]]; eauto. rewrite ln_remove_other; auto.
    + intros id mb c' L. apply ln_filter_some in L. destruct L as [L F]. simpl in F. apply negb_true_iff in F. apply Nat.eqb_neq in F.
      simpl in F. apply ln_unique in L; auto. destruct (ST _ _ _ L) as [Y1 Y2]. split; auto. eapply M2T; eauto.
    + intros mb id L. apply ln_filter_some in L. destruct L as [L F]. simpl in F. apply negb_true_iff in F.
      apply ln_unique in L; auto. destruct (SM2 _ _ L) as [c' T]. exists c'. apply TKEEP; auto. intro; subst.
      assert (mem_nat mb (map (fun g : nat * (nat * nat) => fst (snd g)) gone) = true) by (apply mem_nat_In; apply GONE; eauto). congruence.
    + intros c0 ids0 id L IN. apply ln_remove_some in L. destruct L as [N L]. destruct (SC _ _ _ L IN) as (mb & M1 & M2).
      exists mb. split; auto.
    + intros c0 ids0 L. apply ln_remove_some in L. destruct L as [N L]. eauto.
    + auto.
    + intros mb id IN. apply filter_In in IN. destruct IN as [IN _]. eauto.
    + apply NoDup_keys_filter; auto.
    + apply NoDup_keys_filter; auto.
  - simpl. apply ln_remove_same.
  - simpl. rewrite K2. simpl. auto.
  - simpl. intros id mb IN. apply filter_In in IN. destruct IN as [_ F]. simpl in F. apply negb_true_iff in F. apply Nat.eqb_neq in F. congruence.
  - simpl. intros id mb L. split; [|split].
    + destruct (lookup_n id (filter (fun e : nat * (nat * nat) => negb (snd (snd e) =? c)) (s_tasks s2))) as [[mb' c']|] eqn:F; auto.
      apply ln_filter_some in F. destruct F as [F1 F2]. apply ln_unique in F1; auto. apply H2 in F1. rewrite L in F1. inv F1.
      simpl in F2. apply negb_true_iff in F2. apply Nat.eqb_neq in F2. congruence.
    + match goal with |- lookup_n mb ?l = None => destruct (lookup_n mb l) eqn:F; auto end.
      apply ln_filter_some in F. destruct F as [F0 F]. simpl in F. apply negb_true_iff in F. apply ln_unique in F0; auto.
      destruct (SM2 _ _ F0) as [c' T]. pose proof (H2 _ _ T) as T0. destruct (sv_task _ I _ _ _ L) as [_ Y].
      destruct (sv_task _ I _ _ _ T0) as [_ Y']. rewrite Y in Y'. inv Y'. rewrite L in T0. inv T0.
      assert (mem_nat mb (map (fun g : nat * (nat * nat) => fst (snd g)) gone) = true) by (apply mem_nat_In; apply GONE; eauto). congruence.
    + destruct (lookup_n id (s_tasks s2)) as [[mb' c']|] eqn:T2.
      * pose proof (H2 _ _ T2) as T0. rewrite L in T0. inv T0. eapply NOBOX; eauto.
      * destruct (lookup_n mb (s_boxes s2)) eqn:B; auto. exfalso.
        destruct (SB _ _ B) as (id0 & c0 & ids0 & X1 & X2 & X3 & X4). pose proof (H2 _ _ X2) as T0.
        destruct (sv_task _ I _ _ _ T0) as [_ Y']. destruct (sv_task _ I _ _ _ L) as [_ Y]. rewrite Y in Y'. inv Y'. congruence.
  - intros a IN. destruct (D2 _ IN) as (id & mb & X1 & X2 & X3). eauto.
  - simpl. exact H4.
  - simpl. intros k v F. apply ln_filter_some in F. destruct F as [F _]. apply ln_unique in F; auto.
  - simpl. exact H1.
Qed.

(* server mailboxes / mailbox_to_task_dict entries that are gone never come back *)
Definition sext (s s' : sstate) : Prop :=
  s_counter s <= s_counter s'
  /\ (forall mb, mb < s_counter s -> lookup_n mb (s_boxes s) = None -> lookup_n mb (s_boxes s') = None)
  /\ (forall mb, mb < s_counter s -> lookup_n mb (s_m2t s) = None -> lookup_n mb (s_m2t s') = None).
Lemma sext_refl s : sext s s. Proof. split; auto. Qed.
Lemma sext_same s s' : s_counter s' = s_counter s -> s_boxes s' = s_boxes s -> s_m2t s' = s_m2t s -> sext s s'.
Proof. intros A B C. split. lia. rewrite B, C. auto. Qed.
Lemma sext_sub s s' : s_counter s' = s_counter s -> submap (s_boxes s') (s_boxes s) -> submap (s_m2t s') (s_m2t s) -> sext s s'.
Proof. intros A B C. split. lia. split; intros; eapply submap_none; eauto. Qed.

Lemma sreq_inv nw c r asg s s' o iss : sreq nw c r asg s = Some (s', o, iss) -> srv_inv s -> srv_inv s' /\ sext s s'.
Proof.
  intros H I. destruct r; unfold sreq in H; cbv beta iota in H.
  - (* connect *)
    destruct (lookup_n c (s_clients s)) eqn:C; [discriminate|]. destruct (mem_nat c (s_closed s)); inv H.
    split; [|apply sext_same; auto]. destruct I as [SB ST SM2 SC SN SL SM SK SK2]. constructor; simpl; auto.
    + intros mb b L. destruct (SB _ _ L) as (id0 & c0 & ids0 & X1 & X2 & X3 & X4). exists id0, c0, ids0. repeat split; auto.
      rewrite ln_put_other; auto. congruence.
    + intros c0 ids0 id L IN. destruct (Nat.eq_dec c0 c). subst. rewrite ln_put_same in L. inv L. destruct IN.
      rewrite ln_put_other in L by auto. eauto.
    + intros c0 ids0 L. destruct (Nat.eq_dec c0 c). subst. rewrite ln_put_same in L. inv L. constructor.
      rewrite ln_put_other in L by auto. eauto.
  - (* submit *)
    destruct (lookup_n c (s_clients s)) as [ids|] eqn:C; [|discriminate].
    destruct (lookup_n id (s_tasks s)) eqn:T; [discriminate|].
    match type of H with context[schedule ?a ?b ?c] => destruct (schedule a b c) end; inv H.
    destruct I as [SB ST SM2 SC SN SL SM SK SK2]. set (mb := s_counter s) in *.
    assert (F1 : lookup_n mb (s_m2t s) = None).
    { destruct (lookup_n mb (s_m2t s)) eqn:M; auto. apply ln_In in M. apply SM in M. unfold mb in M. lia. }
    assert (F2 : lookup_n mb (s_boxes s) = None).
    { destruct (lookup_n mb (s_boxes s)) eqn:B; auto. assert (mb < s_counter s) by (apply SL; congruence). unfold mb in *. lia. }
    assert (F3 : forall id' c', lookup_n id' (s_tasks s) <> Some (mb, c')).
    { intros id' c' L. apply ST in L. unfold mb in *. lia. }
    assert (INS : forall x, In x (if mem_nat id ids then ids else ids ++ [id]) <-> x = id \/ In x ids).
    { intros x. destruct (mem_nat id ids) eqn:M. apply mem_nat_In in M. split; auto. intros [->|?]; auto.
      rewrite in_app_iff. simpl. intuition. }
    split.
    + constructor; simpl.
      * intros mb' b L. destruct (Nat.eq_dec mb' mb).
        -- subst mb'. exists id, c. eexists. rewrite !ln_put_same. repeat split; auto. apply INS; auto.
        -- rewrite ln_put_other in L by auto. destruct (SB _ _ L) as (id0 & c0 & ids0 & X1 & X2 & X3 & X4).
           assert (id0 <> id) by congruence.
           destruct (Nat.eq_dec c0 c).
           ++ subst. rewrite C in X3. inv X3. exists id0, c. eexists. rewrite ln_put_same, !ln_put_other by auto.
              repeat split; auto. apply INS; auto.
           ++ exists id0, c0, ids0. rewrite !ln_put_other by auto. auto.
      * intros id' mb' c' L. destruct (Nat.eq_dec id' id).
        -- subst. rewrite ln_put_same in L. inv L. rewrite ln_put_same. split; auto.
        -- rewrite ln_put_other in L by auto. destruct (ST _ _ _ L) as [Y1 Y2]. split. lia.
           rewrite ln_put_other; auto. intro; subst. eapply F3; eauto.
      * intros mb' id' L. destruct (Nat.eq_dec mb' mb).
        -- subst mb'. rewrite ln_put_same in L. inv L. exists c. apply ln_put_same.
        -- rewrite ln_put_other in L by auto. destruct (SM2 _ _ L) as [c' X]. exists c'. rewrite ln_put_other; auto. congruence.
      * intros c0 ids0 id' L IN. destruct (Nat.eq_dec c0 c).
        -- subst. rewrite ln_put_same in L. inv L. apply INS in IN. destruct IN as [->|IN].
           exists mb. rewrite !ln_put_same. split; auto. congruence.
           destruct (SC _ _ _ C IN) as (mb0 & M1 & M2). assert (id' <> id) by congruence.
           exists mb0. rewrite ln_put_other by auto. split; auto. rewrite ln_put_other; auto. intro; subst. eapply F3; eauto.
        -- rewrite ln_put_other in L by auto. destruct (SC _ _ _ L IN) as (mb0 & M1 & M2). assert (id' <> id) by congruence.
           exists mb0. rewrite ln_put_other by auto. split; auto. rewrite ln_put_other; auto. intro; subst. eapply F3; eauto.
      * intros c0 ids0 L. destruct (Nat.eq_dec c0 c).
        -- subst. rewrite ln_put_same in L. inv L. pose proof (SN _ _ C) as ND. destruct (mem_nat id ids) eqn:M; auto.
           apply NoDup_snoc; auto. intro X. apply mem_nat_In in X. congruence.
        -- rewrite ln_put_other in L by auto. eauto.
      * intros mb' N. destruct (Nat.eq_dec mb' mb). subst; lia. rewrite ln_put_other in N by auto. apply SL in N. lia.
      * intros mb' id' IN. apply In_put_inv in IN. destruct IN as [IN|IN]. inv IN. lia. apply SM in IN. lia.
      * rewrite keys_put_new by auto. apply NoDup_snoc; auto. eapply lookup_none_notin; eauto.
      * rewrite keys_put_new by auto. apply NoDup_snoc; auto. eapply lookup_none_notin; eauto.
    + split; simpl. lia. split; intros mb' L N; rewrite ln_put_other; auto; unfold mb; lia.
  - (* request *)
    destruct (lookup_n c (s_clients s)) as [ids|] eqn:C; [|discriminate].
    destruct (if mem_nat id ids then lookup_n id (s_tasks s) else None) as [[mb c']|] eqn:T.
    + destruct (mem_nat id ids) eqn:M; [|discriminate]. apply mem_nat_In in M.
      destruct (lookup_n mb (s_boxes s)) as [box|] eqn:B; [|discriminate].
      destruct (sv_cli _ I _ _ _ C M) as (mb0 & M1 & _). rewrite T in M1. inv M1.
      destruct (sb_result box) eqn:R; inv H.
      * split; [|apply sext_sub; simpl; auto; [apply submap_remove|intros ? ? X; exact X]].
        pose proof (sv_nodup _ I _ _ C) as ND. destruct (NoDup_remove_first id _ ND) as [ND1 ND2].
        apply (srv_inv_drop s id mb0 c); auto.
        -- intros c0 ids0 L. destruct (Nat.eq_dec c0 c). subst. rewrite ln_put_same in L. inv L. exists ids. repeat split; auto.
           intros; apply In_remove_first_neq; auto. eapply In_remove_first; eauto. intro; subst; contradiction.
           rewrite ln_put_other in L by auto. exists ids0. repeat split; auto. eapply sv_nodup; eauto.
           intro; subst. destruct (sv_cli _ I _ _ _ L H) as (mb1 & X1 & _). rewrite T in X1. inv X1. congruence.
        -- intros c0 ids1 L. destruct (Nat.eq_dec c0 c). subst. rewrite ln_put_same. eauto. rewrite ln_put_other by auto. eauto.
      * split.
        -- destruct I as [SB ST SM2 SC SN SL SM SK SK2]. constructor; simpl; auto.
           ++ intros mb' b L. destruct (Nat.eq_dec mb' mb0). subst. eapply SB; eauto. rewrite ln_put_other in L by auto. eauto.
           ++ intros c0 ids0 id' L IN. destruct (SC _ _ _ L IN) as (mb1 & X1 & X2). exists mb1. split; auto.
              destruct (Nat.eq_dec mb1 mb0). subst. rewrite ln_put_same. congruence. rewrite ln_put_other; auto.
           ++ intros mb' N. destruct (Nat.eq_dec mb' mb0). subst. apply SL. congruence. rewrite ln_put_other in N by auto. auto.
        -- split; simpl; auto. split; auto. intros mb' L N. destruct (Nat.eq_dec mb' mb0). subst. congruence. rewrite ln_put_other; auto.
    + pose proof (disconnect_spec _ _ _ _ _ _ _ H I) as (D1 & _ & _ & _ & _ & _ & D7 & D8 & D9). split; auto. apply sext_sub; auto.
  - (* cancel *)
    pose proof (cancel_comp_spec _ _ _ _ _ _ _ H I) as (D1 & [A1 A2 A3 A4 A5 A6] & _). split; auto. apply sext_sub; auto.
  - (* disconnect *)
    pose proof (disconnect_spec _ _ _ _ _ _ _ H I) as (D1 & _ & _ & _ & _ & _ & D7 & D8 & D9). split; auto. apply sext_sub; auto.
Qed.

Lemma sup_inv nw m asg s s' o lab : sup nw m asg s = Some (s', o, lab) -> srv_inv s -> srv_inv s' /\ sext s s'.
Proof.
  intros H I. destruct m; unfold sup in H; cbv beta iota in H.
  - destruct (schedule nw [t] asg); inv H. split; auto. apply sext_refl.
  - destruct (schedule nw ts asg); inv H. split; auto. apply sext_refl.
  - destruct ra as [[x mb] slot]. destruct x.
    + destruct (lookup_n mb (s_boxes s)) as [box|] eqn:B; [|inv H; split; auto; apply sext_refl].
      destruct (lookup_n mb (s_m2t s)) as [id|] eqn:M; [|discriminate].
      destruct (sb_waiting box).
      * destruct (lookup_n id (s_tasks s)) as [[mb' conn]|] eqn:T; [|discriminate].
        destruct (lookup_n conn (s_clients s)) as [ids|] eqn:C; [|discriminate].
        destruct (mem_nat id ids) eqn:MM; inv H.
        destruct (sv_task _ I _ _ _ T) as [_ Y]. destruct (sv_box _ I _ _ B) as (id0 & c0 & ids0 & X1 & X2 & X3 & X4).
        rewrite M in X1. inv X1. rewrite T in X2. inv X2. rewrite C in X3. inv X3.
        split; [|apply sext_sub; simpl; auto; [apply submap_remove|intros ? ? X; exact X]].
        pose proof (sv_nodup _ I _ _ C) as ND. destruct (NoDup_remove_first id0 _ ND) as [ND1 ND2].
        apply (srv_inv_drop s id0 mb c0); auto.
        -- intros c1 ids1 L. destruct (Nat.eq_dec c1 c0). subst. rewrite ln_put_same in L. inv L. exists ids0. repeat split; auto.
           intros; apply In_remove_first_neq; auto. eapply In_remove_first; eauto. intro; subst; contradiction.
           rewrite ln_put_other in L by auto. exists ids1. repeat split; auto. eapply sv_nodup; eauto.
           intro; subst. destruct (sv_cli _ I _ _ _ L H) as (mb1 & Z1 & _). rewrite T in Z1. inv Z1. congruence.
        -- intros c1 ids1 L. destruct (Nat.eq_dec c1 c0). subst. rewrite ln_put_same. eauto. rewrite ln_put_other by auto. eauto.
      * inv H. split.
        -- destruct I as [SB ST SM2 SC SN SL SM SK SK2]. constructor; simpl; auto.
           ++ intros mb' b L. destruct (Nat.eq_dec mb' mb). subst. eapply SB; eauto. rewrite ln_put_other in L by auto. eauto.
           ++ intros c0 ids0 id' L IN. destruct (SC _ _ _ L IN) as (mb1 & X1 & X2). exists mb1. split; auto.
              destruct (Nat.eq_dec mb1 mb). subst. rewrite ln_put_same. congruence. rewrite ln_put_other; auto.
           ++ intros mb' N. destruct (Nat.eq_dec mb' mb). subst. apply SL. congruence. rewrite ln_put_other in N by auto. auto.
        -- split; simpl; auto. split; auto. intros mb' L N. destruct (Nat.eq_dec mb' mb). subst. congruence. rewrite ln_put_other; auto.
    + destruct (x <? nw); inv H. split; auto. apply sext_refl.
  - inv H. split; auto. apply sext_refl.
  - inv H. split; auto. apply sext_refl.
  - inv H. split; auto. apply sext_refl.
  - repeat dmH H; inv H; split; auto; apply sext_refl.
Qed.

(* ------------------------------------------------------------------ C12_client_cancel / C12_client_disconnect *)
Lemma step_server P s e s' l : step fx f8 P s e = Some (s', l) -> srv_inv (sy_server s) ->
  srv_inv (sy_server s') /\ sext (sy_server s) (sy_server s').
Proof.
  intros H I. destruct e.
  - apply step_client in H. destruct H as (srv & o & iss & H1 & -> & _). simpl. eapply sreq_inv; eauto.
  - apply step_up in H. destruct H as (m & q & srv & o & lab & H1 & H2 & -> & _). simpl. eapply sup_inv; eauto.
  - apply step_down in H. destruct H as (m & q & ws & ws' & H1 & H2 & H3 & ->). simpl. split; auto. apply sext_refl.
  - apply step_step in H. destruct H as (ws & q & ws' & out & H1 & H2 & H3 & ->). simpl. split; auto. apply sext_refl.
Qed.

Lemma run_server P evs : forall s s' l, run fx f8 P s evs = Some (s', l) -> srv_inv (sy_server s) ->
  srv_inv (sy_server s') /\ sext (sy_server s) (sy_server s').
Proof.
  induction evs as [|e r IH]; intros s s' l H I; simpl in H.
  - inv H. split; auto. apply sext_refl.
  - destruct (step fx f8 P s e) as [[s1 l1]|] eqn:S; [|discriminate].
    destruct (run fx f8 P s1 r) as [[s2 l2]|] eqn:R; [|discriminate]. inv H.
    destruct (step_server _ _ _ _ _ S I) as [I1 [E1 E2]]. destruct (IH _ _ _ R I1) as [I2 [E3 E4]]. split; auto.
    destruct E2 as [E2 E2']. destruct E4 as [E4 E4']. split. lia. split; intros mb L N. apply E4. lia. apply E2; auto. apply E4'. lia. apply E2'; auto.
Qed.

Lemma srv_inv_reach P nw evs s l : run fx f8 P (init_sys nw) evs = Some (s, l) -> srv_inv (sy_server s).
Proof. intros H. eapply run_server in H. tauto. simpl. apply srv_inv_init. Qed.

Lemma filter_seq_eq k : forall n a, a <= k < a + n -> filter (fun w => w =? k) (seq a n) = [k].
Proof. induction n as [|n IH]; intros a H; simpl. lia.
  destruct (a =? k) eqn:E.
  - apply Nat.eqb_eq in E. subst. f_equal.
    assert (X : forall m b, k < b -> filter (fun w => w =? k) (seq b m) = []).
    { induction m as [|m IHm]; intros b L; simpl; auto. destruct (b =? k) eqn:E2. apply Nat.eqb_eq in E2. lia. apply IHm. lia. }
    apply X. lia.
  - apply Nat.eqb_neq in E. apply IH. lia. Qed.

Lemma broadcast_filter nw m k : k < nw -> map snd (filter (fun p : nat * msg => fst p =? k) (broadcast nw m)) = [m].
Proof. intros L. unfold broadcast.
  assert (E : forall l, map snd (filter (fun p : nat * msg => fst p =? k) (map (fun w => (w, m)) l)) = map (fun _ => m) (filter (fun w => w =? k) l)).
  { induction l as [|x l IH]; simpl; auto. destruct (x =? k); simpl; rewrite IH; auto. }
  rewrite E, filter_seq_eq by lia. auto. Qed.

(* the result of a cancelled / disconnected compilation task is dropped by the server: nothing changes, nothing is sent *)
Lemma sup_discards nw mb slot v by_ asg s : lookup_n mb (s_boxes s) = None ->
  sup nw (MResult (0, mb, slot) v by_) asg s = Some (s, no_out, [LSrvDiscard mb v]).
Proof. intros H. simpl. rewrite H. auto. Qed.


(* late ERROR / LOG of a cancelled compilation: no mailbox_to_task_dict entry, so it is dropped *)
Lemma sup_error_discarded nw comp kind asg s : lookup_n comp (s_m2t s) = None ->
  sup nw (MError comp kind) asg s = Some (s, no_out, []).
Proof. intros H. simpl. rewrite H. auto. Qed.

Theorem client_cancel P nw evs s0 l0 c id asg s1 l1 ids :
  run fx f8 P (init_sys nw) evs = Some (s0, l0) -> step fx f8 P s0 (EClient c (CCancel id) asg) = Some (s1, l1) ->
  lookup_n c (s_clients (sy_server s0)) = Some ids -> In id ids ->
  exists mb, lookup_n id (s_tasks (sy_server s0)) = Some (mb, c)
    /\ lookup_n id (s_tasks (sy_server s1)) = None
    /\ lookup_n mb (s_m2t (sy_server s1)) = None
    /\ lookup_n mb (s_boxes (sy_server s1)) = None
    /\ (forall ids', lookup_n c (s_clients (sy_server s1)) = Some ids' -> ~ In id ids')
    /\ (forall k q, nth_error (sy_down s0) k = Some q -> nth_error (sy_down s1) k = Some (q ++ [MCancel (0, mb, 0)]))
    /\ sy_issued s1 = sy_issued s0 ++ [(0, mb, 0)]
    /\ (forall evs2 s2 l2, run fx f8 P s1 evs2 = Some (s2, l2) ->
          lookup_n mb (s_boxes (sy_server s2)) = None /\ lookup_n mb (s_m2t (sy_server s2)) = None).
Proof.
  intros R ST C IN. pose proof (srv_inv_reach _ _ _ _ _ R) as I.
  assert (SI : sinv s0) by (eapply run_sinv; eauto; apply sinv_init). destruct SI as [[LU LD WK] _ _].
  pose proof (step_server _ _ _ _ _ ST I) as [I1 _].
  apply step_client in ST. destruct ST as (srv & o & iss & H1 & -> & _). simpl in H1.
  pose proof (cancel_comp_spec _ _ _ _ _ _ _ H1 I) as (_ & SH & _ & NI & [(ids0 & mb & A1 & A2 & A3 & A4 & A5 & A6 & A7 & A8)|(_ & _ & _ & X)]).
  2:{ exfalso. eapply X; eauto. }
  exists mb. simpl. subst iss. repeat split; auto.
  - intros k q Q. erewrite push_down_nth; eauto. rewrite A8. rewrite broadcast_filter; auto.
    rewrite <- LD. apply nth_error_Some. congruence.
  - apply run_server in H; auto. simpl in H. destruct H as [_ [_ [E _]]]. apply E; auto.
    rewrite (sh_counter _ _ SH). eapply sv_task; eauto.
  - apply run_server in H; auto. simpl in H. destruct H as [_ [_ [_ E]]]. apply E; auto.
    rewrite (sh_counter _ _ SH). eapply sv_task; eauto.
Qed.

(* cancel of anything that is not the requester's own live task (finished, cancelled before, unknown, somebody
   else's): acknowledged, nothing changes anywhere *)
Theorem client_cancel_other P nw evs s0 l0 c id asg s1 l1 ids :
  run fx f8 P (init_sys nw) evs = Some (s0, l0) -> step fx f8 P s0 (EClient c (CCancel id) asg) = Some (s1, l1) ->
  lookup_n c (s_clients (sy_server s0)) = Some ids -> ~ In id ids ->
  sy_server s1 = sy_server s0 /\ sy_down s1 = sy_down s0 /\ sy_up s1 = sy_up s0 /\ sy_workers s1 = sy_workers s0
  /\ sy_issued s1 = sy_issued s0.
Proof.
  intros R ST C NI. pose proof (srv_inv_reach _ _ _ _ _ R) as I.
  apply step_client in ST. destruct ST as (srv & o & iss & H1 & -> & _). simpl in H1.
  pose proof (cancel_comp_spec _ _ _ _ _ _ _ H1 I) as (_ & _ & _ & _ & [(ids0 & mb & A1 & A2 & _)|(E1 & E2 & E3 & _)]).
  - rewrite C in A1. inv A1. contradiction.
  - subst. simpl. rewrite E3. simpl. rewrite app_nil_r. auto.
Qed.

(* a connected client's CANCEL never raises (D4 is gone) *)
Theorem client_cancel_total P nw evs s0 l0 c id asg ids :
  run fx f8 P (init_sys nw) evs = Some (s0, l0) -> lookup_n c (s_clients (sy_server s0)) = Some ids ->
  exists s1 l1, step fx f8 P s0 (EClient c (CCancel id) asg) = Some (s1, l1).
Proof.
  intros R C. pose proof (srv_inv_reach _ _ _ _ _ R) as I.
  unfold step. simpl. unfold cancel_comp. rewrite C.
  destruct (mem_nat id ids) eqn:M; [|eauto].
  apply mem_nat_In in M. destruct (sv_cli _ I _ _ _ C M) as (mb & T & B). rewrite T.
  destruct (lookup_n mb (s_boxes (sy_server s0))) eqn:BB; [|congruence].
  destruct (sv_task _ I _ _ _ T) as [_ M2]. rewrite M2. eauto.
Qed.

Theorem client_disconnect P nw evs s0 l0 c order asg s1 l1 :
  run fx f8 P (init_sys nw) evs = Some (s0, l0) -> step fx f8 P s0 (EClient c (CDisconnect order) asg) = Some (s1, l1) ->
  lookup_n c (s_clients (sy_server s1)) = None
  /\ (forall id mb, ~ In (id, (mb, c)) (s_tasks (sy_server s1)))
  /\ (forall id mb, lookup_n id (s_tasks (sy_server s0)) = Some (mb, c) ->
        lookup_n id (s_tasks (sy_server s1)) = None /\ lookup_n mb (s_m2t (sy_server s1)) = None
        /\ lookup_n mb (s_boxes (sy_server s1)) = None
        /\ forall evs2 s2 l2, run fx f8 P s1 evs2 = Some (s2, l2) ->
             lookup_n mb (s_boxes (sy_server s2)) = None /\ lookup_n mb (s_m2t (sy_server s2)) = None)
  /\ (forall a, In a (sy_issued s1) -> In a (sy_issued s0)
        \/ exists id mb, lookup_n id (s_tasks (sy_server s0)) = Some (mb, c) /\ a = (0, mb, 0))
  /\ (forall a k q, In a (sy_issued s1) -> ~ In a (sy_issued s0) -> nth_error (sy_down s1) k = Some q -> In (MCancel a) q).
Proof.
  intros R ST. pose proof (srv_inv_reach _ _ _ _ _ R) as I.
  assert (SI : sinv s0) by (eapply run_sinv; eauto; apply sinv_init). destruct SI as [[LU LD WK] _ _].
  pose proof (step_server _ _ _ _ _ ST I) as [I1 _].
  apply step_client in ST. destruct ST as (srv & o & iss & H1 & -> & _). simpl in H1.
  pose proof (disconnect_bcast _ _ _ _ _ _ _ H1) as BC.
  pose proof (disconnect_spec _ _ _ _ _ _ _ H1 I) as (_ & D2 & D3 & D4 & D5 & D6 & D7 & D8 & D9).
  simpl. split; auto. split; auto. split; [|split].
  - intros id mb L. destruct (D5 _ _ L) as (X1 & X2 & X3). repeat split; auto.
    + apply run_server in H; auto. simpl in H. destruct H as [_ [_ [E _]]]. apply E; auto. rewrite D9. eapply sv_task; eauto.
    + apply run_server in H; auto. simpl in H. destruct H as [_ [_ [_ E]]]. apply E; auto. rewrite D9. eapply sv_task; eauto.
  - intros a IN. apply in_app_or in IN. destruct IN as [IN|IN]; auto.
  - intros a k q IN NI Q. apply in_app_or in IN. destruct IN as [IN|IN]; [contradiction|].
    assert (KL : k < length (sy_workers s0)).
    { rewrite <- LD. rewrite <- (length_push_down (o_down o)). apply nth_error_Some. congruence. }
    destruct (nth_error (sy_down s0) k) as [q0|] eqn:Q0; [|apply nth_error_None in Q0; lia].
    destruct (push_down_has (o_down o) _ _ _ (MCancel a) Q0 (BC _ _ IN KL)) as (q' & X1 & X2). rewrite Q in X1. inv X1. auto.
Qed.

End FixT.

(* ================================================================== after /repo 5dfab15: quiescent cleanliness for all schedules *)

(* ------------------------------------------------------------------ FIFO: a task is never delivered after the CANCEL of its own address *)
Definition carries (c : addr) (m : msg) : Prop :=
  match m with
  | MSubmit t => t_addr t = c
  | MBatch ts => exists t, In t ts /\ t_addr t = c
  | _ => False
  end.
Definition notask (m : msg) : Prop := forall c, ~ carries c m.
Definition fst3 (c : addr) : nat := fst (fst c).

(* in queue q no message carrying address c comes after CANCEL(c) *)
Fixpoint safe (c : addr) (q : list msg) : Prop :=
  match q with
  | [] => True
  | m :: r => (m = MCancel c -> forall m', In m' r -> ~ carries c m') /\ safe c r
  end.

Lemma safe_app c q l : safe c q -> safe c l -> (In (MCancel c) q -> forall m, In m l -> ~ carries c m) -> safe c (q ++ l).
Proof. induction q as [|m r IH]; simpl; intros S1 S2 H; auto. destruct S1 as [A B]. split.
  - intros E m' IN. apply in_app_or in IN. destruct IN as [IN|IN]. apply A; auto. apply H; auto.
  - apply IH; auto.
Qed.
Lemma safe_nocancel c l : ~ In (MCancel c) l -> safe c l.
Proof. induction l as [|m r IH]; simpl; intros N; auto. split; [intros E; exfalso; apply N; auto|apply IH; intro X; apply N; auto]. Qed.
Lemma safe_notasks c l : (forall m, In m l -> ~ carries c m) -> safe c l.
Proof. induction l as [|m r IH]; simpl; intros N; auto. Qed.
Lemma safe_tail c m r : safe c (m :: r) -> safe c r. Proof. simpl. tauto. Qed.
Lemma safe_head c r : safe c (MCancel c :: r) -> forall m', In m' r -> ~ carries c m'. Proof. simpl. intros [A _]. auto. Qed.

Lemma notask_cancel_msgs wid mb n : forall i m, In m (cancel_msgs wid mb i n) -> exists j, m = MCancel (wid, mb, j).
Proof. induction n as [|n IH]; intros i m H; simpl in H. destruct H. destruct H as [<-|H]; eauto. Qed.

(* messages a coroutine step emits: tasks with fresh mailbox ids, cancels for older ones, in this order *)
Definition tasks_ge (wid lo : nat) (l : list msg) : Prop :=
  forall m c, In m l -> carries c m -> exists mb i, c = (wid, mb, i) /\ lo <= mb.
Definition cancels_lt (wid hi : nat) (l : list msg) : Prop :=
  forall c, In (MCancel c) l -> exists mb i, c = (wid, mb, i) /\ mb < hi.

Lemma carries_mk_batch wid mb cr comp c : forall ps i, (exists t, In t (mk_batch wid mb cr comp i ps) /\ t_addr t = c) -> exists j, c = (wid, mb, j).
Proof. induction ps as [|p ps IH]; intros i (t & IN & E); simpl in IN. destruct IN. destruct IN as [<-|IN]. simpl in E. eauto. eapply IH; eauto. Qed.

Lemma do_cancel_msgs wid mb s s1 : do_cancel wid mb s = Some s1 -> blt (c_boxes s) (c_counter s) ->
  exists n, c_out s1 = c_out s ++ cancel_msgs wid mb 0 n /\ mb < c_counter s /\ c_counter s1 = c_counter s.
Proof. unfold do_cancel. intros H B. destruct (lookup_b mb (c_boxes s)) eqn:L; [|discriminate].
  destruct (mem_nat mb (rt_owned (c_rt s))); inv H. simpl. eexists. split; eauto. split; auto. apply B. congruence. Qed.

Lemma out_nil wid lo hi : tasks_ge wid lo [] /\ cancels_lt wid hi [] /\ (forall c, safe c []).
Proof. split; [|split]. intros m c []. intros c []. intros c; exact I. Qed.

Lemma run_instrs_out wid is : forall s o s', run_instrs wid is s = (o, s') -> blt (c_boxes s) (c_counter s) ->
  exists addo, c_out s' = c_out s ++ addo /\ tasks_ge wid (c_counter s) addo /\ cancels_lt wid (c_counter s') addo
    /\ (forall c, safe c addo) /\ c_counter s <= c_counter s'.
Proof.
  induction is as [|i rest IH]; intros s o s' H B; simpl in H.
  - inv H. exists []. rewrite app_nil_r. destruct (out_nil wid (c_counter s') (c_counter s')) as (A & B' & C). repeat split; auto.
  - assert (NIL : forall s0 : cst, c_out s0 = c_out s -> c_counter s0 = c_counter s ->
              exists addo, c_out s0 = c_out s ++ addo /\ tasks_ge wid (c_counter s) addo /\ cancels_lt wid (c_counter s0) addo
                /\ (forall c, safe c addo) /\ c_counter s <= c_counter s0).
    { intros s0 E1 E2. exists []. rewrite app_nil_r, E2. destruct (out_nil wid (c_counter s) (c_counter s)) as (A & B' & C). repeat split; auto. }
    destruct i.
    + pose proof (run_instrs_bext _ _ _ _ _ H) as RB.
      apply IH in H; [|simpl; eapply bext_blt; [apply bext_new|auto]]. simpl in H.
      destruct H as (addo & H1 & H2 & H3 & H4 & H5). eexists (_ :: addo). rewrite H1, <- app_assoc. simpl. split; eauto.
      split; [|split; [|split]].
      * intros m c [<-|IN] CR. simpl in CR. subst c. eauto. destruct (H2 _ _ IN CR) as (mb & j & E & L). exists mb, j. split; auto. lia.
      * intros c [X|IN]. discriminate. apply H3; auto.
      * intros c. simpl. split. discriminate. apply H4.
      * lia.
    + destruct ps as [|p ps]. inv H. apply NIL; auto.
      apply IH in H; [|simpl; eapply bext_blt; [apply bext_new|auto]]. simpl in H.
      destruct H as (addo & H1 & H2 & H3 & H4 & H5). eexists (_ :: addo). rewrite H1, <- app_assoc. simpl. split; eauto.
      split; [|split; [|split]].
      * intros m c [<-|IN] CR. apply (carries_mk_batch wid (c_counter s) _ _ c (p :: ps) 0) in CR. destruct CR as [j ->]. eauto.
        destruct (H2 _ _ IN CR) as (mb & j & E & L). exists mb, j. split; auto. lia.
      * intros c [X|IN]. discriminate. apply H3; auto.
      * intros c. simpl. split. discriminate. apply H4.
      * lia.
    + repeat dmH H; inv H; apply NIL; auto.
    + repeat dmH H; inv H; apply NIL; auto.
    + destruct (nth_error (rt_futs (c_rt s)) f) eqn:E; [|inv H; apply NIL; auto].
      match type of H with context[do_cancel ?a ?b ?c] => destruct (do_cancel a b c) as [sc|] eqn:D end; [|inv H; apply NIL; auto].
      pose proof (do_cancel_bext _ _ _ _ D) as DB. simpl in DB.
      apply do_cancel_msgs in D; [|simpl; auto]. simpl in D. destruct D as (n0 & D1 & D2 & D3).
      apply IH in H; [|eapply bext_blt; eauto]. destruct H as (addo & H1 & H2 & H3 & H4 & H5). rewrite D3 in *.
      exists (cancel_msgs wid n 0 n0 ++ addo). rewrite H1, D1, <- app_assoc. split; auto. split; [|split; [|split]]; auto.
      * intros m c IN CR. apply in_app_or in IN. destruct IN as [IN|IN]. apply notask_cancel_msgs in IN. destruct IN as [j ->]. destruct CR.
        eapply H2; eauto.
      * intros c IN. apply in_app_or in IN. destruct IN as [IN|IN]. apply notask_cancel_msgs in IN. destruct IN as [j X]. inv X. exists n, j. split; auto. lia.
        apply H3; auto.
      * intros c. apply safe_app; auto. apply safe_notasks. intros m IN. apply notask_cancel_msgs in IN. destruct IN as [j ->]. auto.
        intros IN m IM CR. apply notask_cancel_msgs in IN. destruct IN as [j X]. inv X.
        destruct (H2 _ _ IM CR) as (mb & i & E2 & L). inv E2. lia.
Qed.

Definition only_cancels (l : list msg) : Prop := forall m, In m l -> exists c, m = MCancel c.

Lemma do_cancel_only wid mb s s1 : do_cancel wid mb s = Some s1 -> exists addo, c_out s1 = c_out s ++ addo /\ only_cancels addo.
Proof. unfold do_cancel. intros H. repeat dmH H; inv H. simpl. eexists. split; eauto. intros m' IN. apply notask_cancel_msgs in IN.
  destruct IN as [j ->]. eauto. Qed.
Lemma only_cancels_app a b : only_cancels a -> only_cancels b -> only_cancels (a ++ b).
Proof. intros A B m IN. apply in_app_or in IN. destruct IN; auto. Qed.

Lemma completion_loop_py_only fuel wid : forall i s s', completion_loop_py fuel wid i s = Some s' ->
  exists addo, c_out s' = c_out s ++ addo /\ only_cancels addo.
Proof. induction fuel as [|fuel IH]; intros i s s' H; simpl in H. inv H. exists []. rewrite app_nil_r. split; auto. intros m [].
  destruct (nth_error (rt_owned (c_rt s)) i); [|inv H; exists []; rewrite app_nil_r; split; auto; intros m []].
  destruct (lookup_b n (c_boxes s)); [|discriminate]. destruct (box_ready m).
  apply IH in H. simpl in H. auto.
  destruct (do_cancel wid n s) eqn:D; [|discriminate]. apply do_cancel_only in D. destruct D as (a1 & D1 & D2).
  apply IH in H. destruct H as (a2 & H1 & H2). exists (a1 ++ a2). rewrite H1, D1, <- app_assoc. split; auto. apply only_cancels_app; auto. Qed.
Lemma completion_loop_copy_only wid l : forall s s', completion_loop_copy wid l s = Some s' ->
  exists addo, c_out s' = c_out s ++ addo /\ only_cancels addo.
Proof. induction l as [|mb r IH]; intros s s' H; simpl in H. inv H. exists []. rewrite app_nil_r. split; auto. intros m [].
  destruct (lookup_b mb (c_boxes s)); [|discriminate]. destruct (box_ready m).
  apply IH in H. simpl in H. auto.
  destruct (do_cancel wid mb s) eqn:D; [|discriminate]. apply do_cancel_only in D. destruct D as (a1 & D1 & D2).
  apply IH in H. destruct H as (a2 & H1 & H2). exists (a1 ++ a2). rewrite H1, D1, <- app_assoc. split; auto. apply only_cancels_app; auto. Qed.
Lemma completion_only fx wid s s' : completion fx wid s = Some s' -> exists addo, c_out s' = c_out s ++ addo /\ only_cancels addo.
Proof. unfold completion. destruct fx. apply completion_loop_copy_only. apply completion_loop_py_only. Qed.

Lemma safe_app_notask c q l : safe c q -> (forall m, In m l -> notask m) -> safe c (q ++ l).
Proof. intros S N. apply safe_app; auto. apply safe_notasks. intros m IN. apply N; auto. intros _ m IN. apply N; auto. Qed.
Lemma tasks_ge_app_notask wid lo q l : tasks_ge wid lo q -> (forall m, In m l -> notask m) -> tasks_ge wid lo (q ++ l).
Proof. intros T N m c IN CR. apply in_app_or in IN. destruct IN as [IN|IN]. eauto. exfalso. eapply N; eauto. Qed.
Lemma only_cancels_notask l : only_cancels l -> forall m, In m l -> notask m.
Proof. intros O m IN c CR. destruct (O _ IN) as [c' ->]. destruct CR. Qed.

Section Ord.
Variable fx : bool.
Variable f8 : bool.

Lemma select_out w o w1 out lab : select f8 w = (o, w1, out, lab) -> forall m, In m out -> notask m /\ forall c, m <> MCancel c.
Proof. unfold select. intros H m IN.
  destruct (sel_ready f8 w (w_ready w) []) as [[[o1 w'] r] lab1]. destruct o1. inv H. destruct IN.
  destruct (sel_delayed f8 (set_ready [] w') (rev (w_delayed w')) lab1) as [[o2 w2] lab2].
  destruct o2; inv H. destruct IN. destruct IN as [<-|[]]. split. intros c []. intros c; discriminate. Qed.

Lemma raise_path_out2 w rt k out lab w' out' lab' : raise_path w rt k out lab = (w', out', lab') ->
  exists addo, out' = out ++ addo /\ forall m, In m addo -> notask m.
Proof. unfold raise_path. intros H. dmH H; inv H. exists []. rewrite app_nil_r. split; auto. intros m [].
  eexists [_]. split; eauto. intros m [<-|[]] c []. Qed.

Lemma wstep_out P w0 w' out lab : wstep fx f8 P w0 = Some (w', out, lab) -> blt (w_boxes w0) (w_counter w0) ->
  tasks_ge (w_id w0) (w_counter w0) out /\ (forall c, safe c out).
Proof.
  unfold wstep. intros H B. dmH H; [discriminate|].
  destruct (select f8 w0) as [[[o w] out0] lab0] eqn:S.
  pose proof (select_env _ _ _ _ _ _ S) as (S1 & S2 & S3 & S4). pose proof (select_out _ _ _ _ _ S) as SO.
  assert (T0 : tasks_ge (w_id w0) (w_counter w0) out0) by (intros m c IN CR; exfalso; destruct (SO _ IN) as [X _]; eapply X; eauto).
  assert (F0 : forall c, safe c out0) by (intros c; apply safe_notasks; intros m IN; apply SO; auto).
  destruct o as [rt0|]; [|inv H; auto].
  assert (EXT : forall q addo, tasks_ge (w_id w0) (w_counter w0) q -> (forall c, safe c q) -> (forall m, In m addo -> notask m) ->
            tasks_ge (w_id w0) (w_counter w0) (q ++ addo) /\ (forall c, safe c (q ++ addo))).
  { intros q addo T F N. split. apply tasks_ge_app_notask; auto. intros c. apply safe_app_notask; auto. }
  assert (RP : forall wx rtx kx q labx w1 o1 lb1, raise_path wx rtx kx q labx = (w1, o1, lb1) ->
            tasks_ge (w_id w0) (w_counter w0) q -> (forall c, safe c q) ->
            tasks_ge (w_id w0) (w_counter w0) o1 /\ (forall c, safe c o1)).
  { intros wx rtx kx q labx w1 o1 lb1 R T F. apply raise_path_out2 in R. destruct R as (addo & -> & N). apply EXT; auto. }
  destruct (desired_result (w_id w) rt0 (w_boxes w)) as [[[boxes1 rt1] l1]|] eqn:DR.
  2:{ match type of H with context[raise_path ?a ?b ?c ?d ?e] => destruct (raise_path a b c d e) as [[w1 o1] lb1] eqn:R end.
      inv H. eapply RP; eauto. }
  pose proof (desired_result_bext _ _ _ _ _ _ (w_counter w) DR) as DB.
  destruct (nth_error P (t_prog (rt_task (reset_await rt1)))) as [prog|] eqn:NP.
  2:{ match type of H with context[raise_path ?a ?b ?c ?d ?e] => destruct (raise_path a b c d e) as [[w1 o1] lb1] eqn:R end.
      inv H. eapply RP; eauto. }
  match type of H with context[run_instrs ?a ?b ?c] => destruct (run_instrs a b c) as [oc s] eqn:RI end.
  assert (B1 : blt boxes1 (w_counter w)). { eapply bext_blt; eauto. rewrite S3, S4; auto. }
  apply run_instrs_out in RI; [|simpl; auto]. simpl in RI. destruct RI as (addo & R1 & R2 & R3 & R4 & R5).
  rewrite S1, S4 in R2.
  assert (T1 : tasks_ge (w_id w0) (w_counter w0) (c_out s)).
  { rewrite R1. intros m c IN CR. apply in_app_or in IN. destruct IN as [IN|IN]. exfalso; destruct (SO _ IN) as [X _]; eapply X; eauto. eauto. }
  assert (F1 : forall c, safe c (c_out s)).
  { intros c. rewrite R1. apply safe_app; auto. intros IN. exfalso. destruct (SO _ IN) as [_ X]. eapply X; eauto. }
  destruct oc as [mb nx| |k].
  - destruct (lookup_b mb (c_boxes s)) eqn:L.
    + inv H. auto.
    + match type of H with context[raise_path ?a ?b ?c ?d ?e] => destruct (raise_path a b c d e) as [[w1 o1] lb1] eqn:R end.
      inv H. eapply RP; eauto.
  - match type of H with context[match ?x with Some _ => _ | None => None end] => destruct x as [[[w2 out2] lab2]|] eqn:SH end; [|discriminate].
    match type of H with context[completion ?a ?b ?c] => destruct (completion a b c) as [s2|] eqn:CL end; [|discriminate].
    inv H. apply completion_only in CL. simpl in CL. destruct CL as (addo2 & -> & OC).
    assert (W2 : exists x, out2 = c_out s ++ [x] /\ notask x).
    { destruct (t_addr (rt_task rt0)) as [[dst x1] x2]. destruct (dst =? w_id w).
      - match type of SH with context[handle_result ?a ?b ?c] => destruct (handle_result a b c) as [[w2' l2]|] eqn:HR end; [|discriminate].
        inv SH. eexists; split; eauto. intros c [].
      - inv SH. eexists; split; eauto. intros c []. }
    destruct W2 as (x & -> & NX).
    destruct (EXT (c_out s) [x] T1 F1) as [T2 F2]. intros m [<-|[]]; auto.
    apply EXT; auto. apply only_cancels_notask; auto.
  - match type of H with context[raise_path ?a ?b ?c ?d ?e] => destruct (raise_path a b c d e) as [[w1 o1] lb1] eqn:R end.
    inv H. eapply RP; eauto.
Qed.

Record ord (s : sys) : Prop := {
  od_u0 : forall c j q m, nth_error (sy_up s) j = Some q -> In m q -> (carries c m \/ m = MCancel c) -> fst3 c = S j;
  od_o1 : forall c j q m, nth_error (sy_up s) j = Some q -> In m q -> carries c m ->
            (forall w ws, nth_error (sy_workers s) w = Some ws -> ~ In c (w_cancelled ws))
            /\ (forall k q', nth_error (sy_down s) k = Some q' -> ~ In (MCancel c) q');
  od_su : forall c j q, nth_error (sy_up s) j = Some q -> safe c q;
  od_o2 : forall c k q ws, nth_error (sy_down s) k = Some q -> nth_error (sy_workers s) k = Some ws ->
            safe c q /\ (In c (w_cancelled ws) -> forall m, In m q -> ~ carries c m);
  od_roots : forall mb i, In (0, mb, i) (sy_issued s) -> mb < s_counter (sy_server s)
}.

Lemma ord_init nw : ord (init_sys nw).
Proof. constructor; simpl.
  - intros c j q m H IN. apply nth_error_In in H. apply repeat_spec in H. subst. destruct IN.
  - intros c j q m H IN. apply nth_error_In in H. apply repeat_spec in H. subst. destruct IN.
  - intros c j q H. apply nth_error_In in H. apply repeat_spec in H. subst. exact I.
  - intros c k q ws H W. apply nth_error_In in H. apply repeat_spec in H. subst. split. exact I. intros _ m [].
  - intros mb i [].
Qed.

Lemma In_pick {A} (l : list A) idx x : In x (pick l idx) -> In x l.
Proof. induction idx as [|i r IH]; simpl; intros H. destruct H. destruct (nth_error l i) eqn:E; auto. destruct H as [<-|H]; auto.
  eapply nth_error_In; eauto. Qed.

Definition lk (k : nat) (d : list (nat * msg)) : list msg := map snd (filter (fun p => fst p =? k) d).
Lemma In_lk k d m : In m (lk k d) <-> In (k, m) d.
Proof. unfold lk. rewrite in_map_iff. split. intros ([k' m'] & E & IN). simpl in E. subst. apply filter_In in IN. destruct IN as [IN E].
  simpl in E. apply Nat.eqb_eq in E. subst; auto.
  intros IN. exists (k, m). split; auto. apply filter_In. split; auto. simpl. apply Nat.eqb_refl. Qed.
Lemma push_down_lk d ch k q' : nth_error (push_down d ch) k = Some q' -> exists q, nth_error ch k = Some q /\ q' = q ++ lk k d.
Proof. intros H. destruct (nth_error ch k) as [q|] eqn:E.
  erewrite push_down_nth in H; eauto. inv H. eauto.
  exfalso. apply nth_error_None in E. rewrite <- (length_push_down d) in E. apply nth_error_None in E. congruence. Qed.

(* what the server forwards downwards only re-packages what it received *)
Lemma sup_kinds nw m asg srv srv' o lab : sup nw m asg srv = Some (srv', o, lab) ->
  forall k m', In (k, m') (o_down o) -> (forall c, carries c m' -> carries c m) /\ (forall c, m' = MCancel c -> m = MCancel c).
Proof.
  intros H k m' IN. destruct m; unfold sup in H; cbv beta iota in H.
  - destruct (schedule nw [t] asg) eqn:SC; inv H. simpl in IN. unfold schedule in SC. destruct (valid_assign nw (length [t]) asg); inv SC.
    apply in_map_iff in IN. destruct IN as (p & E & _). inv E. split. intros c (x & X1 & X2). apply In_pick in X1. destruct X1 as [<-|[]]. exact X2.
    intros c E; discriminate.
  - destruct (schedule nw ts asg) eqn:SC; inv H. simpl in IN. unfold schedule in SC. destruct ts as [|t0 ts0]. inv SC. destruct IN.
    destruct (valid_assign nw (length (t0 :: ts0)) asg); inv SC.
    apply in_map_iff in IN. destruct IN as (p & E & _). inv E. split. intros c (x & X1 & X2). apply In_pick in X1. exists x; auto.
    intros c E; discriminate.
  - repeat dmH H; inv H; simpl in IN; try contradiction; destruct IN as [IN|[]]; inv IN; split; auto.
  - inv H. simpl in IN. apply broadcast_In in IN. destruct IN as [-> _]. split; auto.
  - inv H. destruct IN.
  - inv H. destruct IN.
  - repeat dmH H; inv H; destruct IN.
Qed.

Lemma cancel_comp_lt nw conn id s s' o iss : cancel_comp nw conn id s = Some (s', o, iss) -> srv_inv s ->
  (forall a, In a iss -> exists mb, a = (0, mb, 0) /\ mb < s_counter s) /\ (forall k m, In (k, m) (o_down o) -> exists a, m = MCancel a)
  /\ s_counter s' = s_counter s.
Proof. intros H I. pose proof (cancel_comp_spec _ _ _ _ _ _ _ H I) as (_ & SH & _ & _ & [(ids & mb & A1 & A2 & A3 & _ & _ & _ & -> & OD)|(-> & -> & OD & _)]).
  - split. intros a [<-|[]]. exists mb. split; auto. eapply sv_task; eauto. split. intros k m IN. rewrite OD in IN. apply broadcast_In in IN. destruct IN as [-> _]. eauto.
    apply (sh_counter _ _ SH).
  - split. intros a []. split; auto. rewrite OD. intros k m []. Qed.

Lemma cancel_all_lt nw conn : forall ids s s' o iss, cancel_all nw conn ids s = Some (s', o, iss) -> srv_inv s ->
  (forall a, In a iss -> exists mb, a = (0, mb, 0) /\ mb < s_counter s) /\ (forall k m, In (k, m) (o_down o) -> exists a, m = MCancel a)
  /\ s_counter s' = s_counter s.
Proof. induction ids as [|id rr IH]; intros s s' o iss H I; simpl in H. inv H. split. intros a []. split; auto. intros k m [].
  destruct (cancel_comp nw conn id s) as [[[s1 o1] i1]|] eqn:C1; [|discriminate].
  destruct (cancel_all nw conn rr s1) as [[[s2 o2] i2]|] eqn:C2; [|discriminate]. inv H.
  destruct (cancel_comp_lt _ _ _ _ _ _ _ C1 I) as (A1 & A2 & A3).
  destruct (cancel_comp_spec _ _ _ _ _ _ _ C1 I) as (I1 & _).
  destruct (IH _ _ _ _ C2 I1) as (B1 & B2 & B3). rewrite A3 in *. split; [|split; [|auto]].
  intros a IN. apply in_app_or in IN. destruct IN; auto. intros k m IN. simpl in IN. apply in_app_or in IN. destruct IN; eauto. Qed.

Lemma sreq_kinds nw c r asg srv srv' o iss : sreq nw c r asg srv = Some (srv', o, iss) -> srv_inv srv ->
  (forall a, In a iss -> exists mb, a = (0, mb, 0) /\ mb < s_counter srv)
  /\ ((forall k m', In (k, m') (o_down o) -> exists a, m' = MCancel a)
      \/ (forall k m', In (k, m') (o_down o) -> (forall x, carries x m' -> x = (0, s_counter srv, 0)) /\ (forall a, m' <> MCancel a))).
Proof.
  intros H I. destruct r; unfold sreq in H; cbv beta iota in H.
  - repeat dmH H; inv H. split. intros a []. left. intros k m [].
  - destruct (lookup_n c (s_clients srv)); [|discriminate]. destruct (lookup_n id (s_tasks srv)); [discriminate|].
    match type of H with context[schedule ?a ?b ?c] => destruct (schedule a b c) eqn:SC end; inv H.
    split. intros a []. right. intros k m' IN. simpl in IN. unfold schedule in SC. dmH SC; inv SC.
    apply in_map_iff in IN. destruct IN as (p & E & _). inv E. split. intros x (t & X1 & X2). apply In_pick in X1. destruct X1 as [<-|[]]. auto.
    intros a E; discriminate.
  - destruct (lookup_n c (s_clients srv)) as [ids|] eqn:C; [|discriminate].
    destruct (if mem_nat id ids then lookup_n id (s_tasks srv) else None) as [[mb c']|].
    + repeat dmH H; inv H; (split; [intros a []|left; intros k m []]).
    + unfold disconnect in H. rewrite C in H. dmH H; [|discriminate].
      match type of H with context[cancel_all nw c order ?x] => destruct (cancel_all nw c order x) as [[[s2 o2] i2]|] eqn:CA end; [|discriminate].
      inv H. apply cancel_all_lt in CA. simpl in CA. destruct CA as (A1 & A2 & _). split; auto.
      destruct I. constructor; simpl; auto.
  - destruct (cancel_comp_lt _ _ _ _ _ _ _ H I) as (A1 & A2 & _). split; auto.
  - unfold disconnect in H. destruct (lookup_n c (s_clients srv)); [|discriminate]. dmH H; [|discriminate].
    match type of H with context[cancel_all nw c order ?x] => destruct (cancel_all nw c order x) as [[[s2 o2] i2]|] eqn:CA end; [|discriminate].
    inv H. apply cancel_all_lt in CA. simpl in CA. destruct CA as (A1 & A2 & _). split; auto.
    destruct I. constructor; simpl; auto.
Qed.

Lemma safe_snoc_notask c q m : safe c q -> notask m -> safe c (q ++ [m]).
Proof. intros. apply safe_app_notask; auto. intros x [<-|[]]; auto. Qed.
Lemma safe_snoc_cancel c q a : safe c q -> safe c (q ++ [MCancel a]).
Proof. intros. apply safe_snoc_notask; auto. intros x []. Qed.

Lemma ord_step P s e s' l : step fx f8 P s e = Some (s', l) -> sinv s -> csound s -> srv_inv (sy_server s) -> ord s -> ord s'.
Proof.
  intros H SI CS SV [U0 O1 SU O2 RT]. pose proof SI as [[LU LD WK] BL DR]. destruct e as [cl r asg|w asg|w|w].
  - (* client request *)
    pose proof (step_server _ _ _ _ _ _ _ H SV) as [_ [CNT _]].
    apply step_client in H. destruct H as (srv & o & iss & H1 & -> & _). simpl in CNT.
    destruct (sreq_kinds _ _ _ _ _ _ _ _ H1 SV) as [ISS KD]. pose proof (sreq_down _ _ _ _ _ _ _ _ H1) as DC.
    assert (FRESH : ~ In (0, s_counter (sy_server s), 0) (sy_issued s)).
    { intros IN. apply RT in IN. lia. }
    assert (LKS : forall c k, safe c (lk k (o_down o))).
    { intros c k. destruct KD as [KD|KD]. apply safe_notasks. intros m IN CR. apply In_lk in IN. destruct (KD _ _ IN) as [a ->]. destruct CR.
      apply safe_nocancel. intro IN. apply In_lk in IN. destruct (KD _ _ IN) as [_ X]. eapply X; eauto. }
    assert (LKC : forall c k m, In m (lk k (o_down o)) -> carries c m -> c = (0, s_counter (sy_server s), 0)).
    { intros c k m IN CR. apply In_lk in IN. destruct KD as [KD|KD]. destruct (KD _ _ IN) as [a ->]. destruct CR. destruct (KD _ _ IN) as [X _]. auto. }
    constructor; simpl.
    + eauto.
    + intros c j q m Q IN CR. destruct (O1 _ _ _ _ Q IN CR) as [A B]. split; auto.
      intros k q' Q'. apply push_down_lk in Q'. destruct Q' as (q0 & Q0 & ->). intro X. apply in_app_or in X. destruct X as [X|X]. eapply B; eauto.
      apply In_lk in X. apply DC in X. destruct (ISS _ X) as (mb & E & _). subst c.
      pose proof (U0 _ _ _ _ Q IN (or_introl CR)) as F. discriminate.
    + eauto.
    + intros c k q' ws Q' W. apply push_down_lk in Q'. destruct Q' as (q0 & Q0 & ->). destruct (O2 c _ _ _ Q0 W) as [A B]. split.
      * apply safe_app; auto. intros IN m IM CR. apply (LKC c k m IM) in CR. subst c. apply FRESH. eapply (cs_down _ CS); eauto.
      * intros IC m IM CR. apply in_app_or in IM. destruct IM as [IM|IM]. eapply B; eauto.
        apply (LKC c k m IM) in CR. subst c. apply FRESH. eapply (cs_w _ CS); eauto.
    + intros mb i IN. apply in_app_or in IN. destruct IN as [IN|IN]. apply RT in IN. lia.
      destruct (ISS _ IN) as (mb' & E & L). inv E. lia.
  - (* server handles a message from worker w *)
    pose proof (step_server _ _ _ _ _ _ _ H SV) as [_ [CNT _]].
    apply step_up in H. destruct H as (m & q & srv & o & lab & H1 & H2 & -> & _). simpl in CNT.
    pose proof (sup_kinds _ _ _ _ _ _ _ H2) as KD.
    assert (UPIN : forall j q0 x, nth_error (set_nth w q (sy_up s)) j = Some q0 -> In x q0 -> exists q1, nth_error (sy_up s) j = Some q1 /\ In x q1).
    { intros j q0 x Q IN. apply nth_error_set_nth_inv in Q. destruct Q as [[-> ->]|[N Q]]. exists (m :: q). split; auto. right; auto. eauto. }
    constructor; simpl.
    + intros c j q0 x Q IN X. destruct (UPIN _ _ _ Q IN) as (q1 & Q1 & I1). eauto.
    + intros c j q0 x Q IN CR. destruct (UPIN _ _ _ Q IN) as (q1 & Q1 & I1). destruct (O1 _ _ _ _ Q1 I1 CR) as [A B]. split; auto.
      intros k q' Q'. apply push_down_lk in Q'. destruct Q' as (q2 & Q2 & ->). intro X. apply in_app_or in X. destruct X as [X|X]. eapply B; eauto.
      apply In_lk in X. destruct (KD _ _ X) as [_ K2]. pose proof (K2 _ eq_refl) as E. subst m.
      (* the head of up[w] is CANCEL(c) while x in some up queue carries c *)
      apply nth_error_set_nth_inv in Q. destruct Q as [[-> ->]|[N Q]].
      * pose proof (SU c _ _ H1) as S0. eapply (safe_head _ _ S0); eauto.
      * pose proof (U0 c _ _ _ Q IN (or_introl CR)) as F1. pose proof (U0 c _ _ _ H1 (or_introl eq_refl) (or_intror eq_refl)) as F2. congruence.
    + intros c j q0 Q. apply nth_error_set_nth_inv in Q. destruct Q as [[-> ->]|[N Q]]. eapply safe_tail. eapply SU; eauto. eauto.
    + intros c k q' ws Q' W. apply push_down_lk in Q'. destruct Q' as (q2 & Q2 & ->). destruct (O2 c _ _ _ Q2 W) as [A B].
      assert (HD : forall x, In x (lk k (o_down o)) -> carries c x -> carries c m) by (intros x IN CR; apply In_lk in IN; destruct (KD _ _ IN) as [K1 _]; auto).
      split.
      * apply safe_app; auto.
        -- destruct m; try (apply safe_notasks; intros x IN CR; apply HD in CR; auto; destruct CR; fail).
           ++ apply safe_nocancel. intro IN. apply In_lk in IN. destruct (KD _ _ IN) as [_ K2]. discriminate (K2 _ eq_refl).
           ++ apply safe_nocancel. intro IN. apply In_lk in IN. destruct (KD _ _ IN) as [_ K2]. discriminate (K2 _ eq_refl).
        -- intros IN x IX CR. apply HD in CR; auto. destruct (O1 _ _ _ _ H1 (or_introl eq_refl) CR) as [_ B1]. eapply B1; eauto.
      * intros IC x IX CR. apply in_app_or in IX. destruct IX as [IX|IX]. eapply B; eauto.
        apply HD in CR; auto. destruct (O1 _ _ _ _ H1 (or_introl eq_refl) CR) as [A1 _]. eapply A1; eauto.
    + intros mb i IN. rewrite app_nil_r in IN. apply RT in IN. lia.
  - (* worker w receives *)
    apply step_down in H. destruct H as (m & q & ws0 & ws1 & H1 & H2 & H3 & ->).
    destruct (WK _ _ H2) as [K1 K2]. pose proof (wrecv_fields _ _ _ _ H3 K1) as (_ & _ & _ & F4 & F5).
    assert (CANC : forall c, In c (w_cancelled ws1) -> In c (w_cancelled ws0) \/ m = MCancel c).
    { intros c IN. destruct m; simpl in H3; try discriminate.
      - inv H3. auto.
      - unfold recv_batch in H3. destruct (rev ts); [discriminate|]. inv H3. auto.
      - pose proof (handle_result_fields _ _ _ _ _ H3) as (_ & _ & C & _). rewrite C in IN. auto.
      - pose proof (handle_cancel_fields _ _ _ _ H3) as (_ & _ & C & _). apply C in IN. destruct IN as [->|IN]; auto. }
    constructor; simpl.
    + eauto.
    + intros c j q0 x Q IN CR. destruct (O1 _ _ _ _ Q IN CR) as [A B]. split.
      * intros k ws W. apply nth_error_set_nth_inv in W. destruct W as [[-> ->]|[N W]]; [|eauto].
        intro X. apply CANC in X. destruct X as [X|X]. eapply A; eauto. subst m. eapply B; eauto. left; auto.
      * intros k q' Q'. apply nth_error_set_nth_inv in Q'. destruct Q' as [[-> ->]|[N Q']]; [|eauto]. intro X. eapply B; eauto. right; auto.
    + eauto.
    + intros c k q' ws Q' W. apply nth_error_set_nth_inv in Q'. apply nth_error_set_nth_inv in W.
      destruct Q' as [[-> ->]|[N Q']]; destruct W as [[E ->]|[N' W]]; try congruence.
      * destruct (O2 c _ _ _ H1 H2) as [A B]. split. eapply safe_tail; eauto.
        intros IC x IX CR. apply CANC in IC. destruct IC as [IC|IC]. eapply B; eauto. right; auto. subst m. eapply (safe_head _ _ A); eauto.
      * eauto.
    + auto.
  - (* main thread of worker w *)
    apply step_step in H. destruct H as (ws0 & q & ws1 & out & H1 & H2 & H3 & ->).
    destruct (WK _ _ H1) as [K1 K2].
    pose proof (wstep_fields _ _ _ _ _ _ _ H3) as (_ & _ & FC).
    pose proof (wstep_cancels _ _ _ _ _ _ _ H3 (BL _ _ H1)) as (OD & _ & _).
    pose proof (wstep_out _ _ _ _ _ H3 (BL _ _ H1)) as (TG & SF). rewrite K2 in *.
    (* addresses carried by the new messages are fresh: never issued *)
    assert (FR : forall x c, In x out -> carries c x -> ~ In c (sy_issued s)).
    { intros x c IN CR X. destruct (TG _ _ IN CR) as (mb & i & -> & L). destruct (DR _ _ _ _ X H1) as [_ Y]. lia. }
    assert (CW : forall k ws, nth_error (set_nth w ws1 (sy_workers s)) k = Some ws -> exists ws', nth_error (sy_workers s) k = Some ws' /\ w_cancelled ws = w_cancelled ws').
    { intros k ws W. apply nth_error_set_nth_inv in W. destruct W as [[-> ->]|[N W]]; eauto. }
    constructor; simpl.
    + intros c j q0 x Q IN X. apply nth_error_set_nth_inv in Q. destruct Q as [[-> ->]|[N Q]]; [|eauto].
      apply in_app_or in IN. destruct IN as [IN|IN]. eauto.
      destruct X as [X|X]. destruct (TG _ _ IN X) as (mb & i & -> & _). auto.
      subst x. apply In_cancels_of in IN. destruct (OD _ IN) as (mb & i & -> & _). auto.
    + intros c j q0 x Q IN CR. apply nth_error_set_nth_inv in Q.
      assert (OLD : forall q1, nth_error (sy_up s) j = Some q1 -> In x q1 ->
                (forall k ws, nth_error (set_nth w ws1 (sy_workers s)) k = Some ws -> ~ In c (w_cancelled ws)) /\
                (forall k q', nth_error (sy_down s) k = Some q' -> ~ In (MCancel c) q')).
      { intros q1 Q1 I1. destruct (O1 _ _ _ _ Q1 I1 CR) as [A B]. split; auto. intros k ws W. destruct (CW _ _ W) as (ws' & W' & ->). eauto. }
      destruct Q as [[-> ->]|[N Q]]; [|eauto]. apply in_app_or in IN. destruct IN as [IN|IN]. eauto.
      pose proof (FR _ _ IN CR) as NI. split.
      * intros k ws W X. destruct (CW _ _ W) as (ws' & W' & E). rewrite E in X. apply NI. eapply (cs_w _ CS); eauto.
      * intros k q' Q' X. apply NI. eapply (cs_down _ CS); eauto.
    + intros c j q0 Q. apply nth_error_set_nth_inv in Q. destruct Q as [[-> ->]|[N Q]]; [|eauto].
      apply safe_app; auto. eapply SU; eauto. intros IN x IX CR. eapply FR; eauto. eapply (cs_up _ CS); eauto.
    + intros c k q' ws Q' W. destruct (CW _ _ W) as (ws' & W' & ->). eauto.
    + intros mb i IN. apply in_app_or in IN. destruct IN as [IN|IN]. eapply RT; eauto. destruct (OD _ IN) as (mb' & i' & E & _). discriminate.
Qed.
End Ord.


Section Full.
Variable fx : bool.

(* ------------------------------------------------------------------ C12_quiescent_clean (code since /repo 5dfab15, f8 = true) *)
Definition tkeys (w : wstate) : Prop := NoDup (map fst (w_tasks w)).
Definition texact (w : wstate) : Prop := forall t, In t (tasks_of w) -> ~ In (t_addr t) (w_cancelled w).
Definition rdead (w : wstate) (ready : list addr) : Prop :=
  forall a rt, In (a, rt) (w_tasks w) -> dead_on w (rt_task rt) = true -> In a ready.
Definition wgood (w : wstate) : Prop := tkeys w /\ texact w /\ rdead w (w_ready w).

Lemma NoDup_keys_put_t k v l : NoDup (map fst l) -> NoDup (map fst (put_t k v l)).
Proof. induction l as [|[k' v'] l IH]; simpl; intros N. repeat constructor; auto.
  inv N. destruct (addr_eqb k k') eqn:E; simpl.
  - apply addr_eqb_eq in E. subst. constructor; auto.
  - constructor; auto. intro X. apply H1. apply in_map_iff in X. destruct X as ([k2 v2] & E2 & IN). simpl in E2. subst.
    apply (In_put_inv addr_eqb) in IN. destruct IN as [IN|IN]. inv IN. rewrite addr_eqb_refl in E. discriminate.
    apply in_map_iff. exists (k', v2). auto.
Qed.
Lemma NoDup_keys_remove_t k l : NoDup (map fst l) -> NoDup (map fst (remove_t k l)).
Proof. induction l as [|[k' v'] l IH]; simpl; intros N; auto. inv N. destruct (addr_eqb k k'); auto. simpl. constructor; auto.
  intro X. apply H1. apply in_map_iff in X. destruct X as ([k2 v2] & E2 & IN). simpl in E2. subst.
  apply (In_remove addr_eqb addr_eqb_eq) in IN. apply in_map_iff. exists (k', v2). tauto. Qed.
Lemma lt_unique k v l : NoDup (map fst l) -> In (k, v) l -> lookup_t k l = Some v.
Proof. induction l as [|[k' v'] l IH]; simpl; intros N H. destruct H. inv N.
  destruct H as [H|H]. inv H. rewrite addr_eqb_refl; auto.
  destruct (addr_eqb k k') eqn:E. apply addr_eqb_eq in E. subst. exfalso. apply H2. apply in_map_iff. exists (k', v); auto.
  auto. Qed.

Lemma dead_on_cases w t : dead_on w t = true -> In (t_addr t) (w_cancelled w) \/ existsb (fun b => mem_addr b (w_cancelled w)) (t_crumbs t) = true.
Proof. intros H. apply dead_on_iff in H. destruct H as (c & C1 & C2). unfold desc in C2. apply orb_true_iff in C2. destruct C2 as [C2|C2].
  apply addr_eqb_eq in C2. subst. auto. right. apply existsb_exists. exists c. split. apply mem_addr_In; auto. apply mem_addr_In; auto. Qed.

(* an entry that the worker knows to be dead, with its own address not cancelled, is forgotten when popped *)
Lemma forget_dead w a rt : lookup_t a (w_tasks w) = Some rt -> t_addr (rt_task rt) = a -> ~ In a (w_cancelled w) ->
  dead_on w (rt_task rt) = true -> w_tasks (forget true w a) = remove_t a (w_tasks w).
Proof. intros L K N D. unfold forget, crumb_dead. rewrite L.
  destruct (mem_addr a (w_cancelled w)) eqn:M. apply mem_addr_In in M. contradiction.
  apply dead_on_cases in D. destruct D as [D|D]. rewrite K in D. contradiction. rewrite D. simpl. auto. Qed.

Lemma texact_sub w w' : w_cancelled w' = w_cancelled w -> (forall t, In t (tasks_of w') -> In t (tasks_of w)) -> texact w -> texact w'.
Proof. intros C S T t IN. rewrite C. apply T. auto. Qed.

Lemma tasks_of_remove w a t : In t (tasks_of (set_tasks (remove_t a (w_tasks w)) w)) -> In t (tasks_of w).
Proof. unfold tasks_of. simpl. intros H. apply in_app_or in H. apply in_or_app. destruct H as [H|H]; auto. left.
  apply in_map_iff in H. destruct H as ([k v] & E & IN). apply (In_remove addr_eqb addr_eqb_eq) in IN. apply in_map_iff. exists (k, v). tauto. Qed.

Lemma sel_ready_good : forall ready w lab o w1 r lab1, sel_ready true w ready lab = (o, w1, r, lab1) ->
  keys_ok w -> tkeys w -> texact w -> rdead w ready ->
  tkeys w1 /\ texact w1 /\ rdead w1 r /\ keys_ok w1.
Proof.
  induction ready as [|a rd IH]; intros w lab o w1 r lab1 H KO TK TE RD; simpl in H.
  - inv H. auto.
  - destruct (runnable w a) eqn:R.
    + inv H. split; auto. split; auto. split; auto. intros a' rt' IN D. destruct (RD _ _ IN D) as [<-|X]; auto. exfalso.
      apply runnable_some in R. destruct R as [R1 R2]. apply lt_unique in IN; auto. rewrite R1 in IN. inv IN.
      rewrite R2 in D. discriminate. apply KO. apply lt_In; auto.
    + assert (RD' : rdead (forget true w a) rd).
      { intros a' rt' IN D. pose proof (forget_In true _ _ _ IN) as IN0.
        rewrite (dead_on_env w (forget true w a)) in D by apply forget_cancelled.
        destruct (RD _ _ IN0 D) as [<-|X]; auto. exfalso.
        pose proof (lt_unique _ _ _ TK IN0) as L. pose proof (KO _ _ IN0) as K.
        assert (N : ~ In a (w_cancelled w)). { intro X. eapply TE; [|rewrite K; exact X]. apply In_tasks_of. left; eauto. }
        rewrite (forget_dead w a rt') in IN; auto. apply (In_remove addr_eqb addr_eqb_eq) in IN. tauto. }
      eapply IH in H; eauto.
      * apply keys_ok_forget; auto.
      * unfold tkeys, forget. destruct (true && crumb_dead w a); simpl; auto. apply NoDup_keys_remove_t; auto.
      * eapply texact_sub; [apply forget_cancelled| |exact TE]. intros t IN. unfold forget in IN.
        destruct (true && crumb_dead w a); auto. eapply tasks_of_remove; eauto.
Qed.

Definition nodeadw (w : wstate) : Prop := forall a rt, In (a, rt) (w_tasks w) -> dead_on w (rt_task rt) = false.

Lemma sel_delayed_good : forall rdel w lab o w1 lab1, sel_delayed true w rdel lab = (o, w1, lab1) ->
  keys_ok w -> tkeys w -> nodeadw w -> (forall t, In t rdel -> ~ In (t_addr t) (w_cancelled w)) ->
  (forall t, In t (map (fun e => rt_task (snd e)) (w_tasks w)) -> ~ In (t_addr t) (w_cancelled w)) ->
  tkeys w1 /\ nodeadw w1 /\ keys_ok w1
  /\ (forall t, In t (tasks_of w1) -> ~ In (t_addr t) (w_cancelled w)) /\ w_ready w1 = w_ready w.
Proof.
  induction rdel as [|t rest IH]; intros w lab o w1 lab1 H KO TK ND TD TT; simpl in H.
  - inv H. split; auto. split; auto. split; auto. split; auto. intros t IN. unfold tasks_of in IN. simpl in IN. rewrite app_nil_r in IN. auto.
  - set (wa := set_tasks (put_t (t_addr t) (fresh_rt t) (w_tasks w)) w) in *.
    assert (KA : keys_ok wa) by (apply keys_ok_put; auto).
    assert (TKA : tkeys wa) by (apply NoDup_keys_put_t; auto).
    assert (LA : lookup_t (t_addr t) (w_tasks wa) = Some (fresh_rt t)) by (simpl; apply lt_put_same).
    assert (TTA : forall x, In x (map (fun e => rt_task (snd e)) (w_tasks wa)) -> ~ In (t_addr x) (w_cancelled w)).
    { intros x IN. apply in_map_iff in IN. destruct IN as ([k v] & E & IN). simpl in IN. apply In_put_inv in IN. destruct IN as [IN|IN].
      inv IN. simpl. apply TD. left; auto. apply TT. apply in_map_iff. exists (k, v); auto. }
    destruct (runnable wa (t_addr t)) eqn:R.
    + inv H. apply runnable_some in R. destruct R as [R1 R2]. rewrite LA in R1. inv R1. simpl.
      split; auto. split; [|split; auto].
      * intros a rt IN. simpl in IN. apply In_put_inv in IN. rewrite (dead_on_env wa) by auto. destruct IN as [IN|IN]. inv IN. apply R2; auto.
        rewrite (dead_on_env w wa) by auto. eapply ND; eauto.
      * split; auto. intros x IN. unfold tasks_of in IN. simpl in IN. apply in_app_or in IN. destruct IN as [IN|IN]. apply TTA; auto.
        apply TD. right. apply in_rev; auto.
    + assert (FG : w_tasks (forget true wa (t_addr t)) = remove_t (t_addr t) (w_tasks wa)).
      { apply (forget_dead wa (t_addr t) (fresh_rt t)); auto. simpl. apply TD. left; auto.
        eapply runnable_none_held; eauto. }
      destruct (forget_env true wa (t_addr t)) as (E1 & E2 & E3 & E4). destruct (forget_fields true wa (t_addr t)) as (F1 & F2 & F3).
      eapply IH in H; eauto.
      * destruct H as (A & B & C & D & E). split; auto. split; auto. split; auto. split. rewrite E2 in D. auto. rewrite E, F1. auto.
      * apply keys_ok_forget; auto.
      * unfold tkeys. rewrite FG. apply NoDup_keys_remove_t; auto.
      * intros a rt IN. rewrite FG in IN. apply (In_remove addr_eqb addr_eqb_eq) in IN. destruct IN as [IN NE].
        simpl in IN. apply In_put_inv in IN. destruct IN as [IN|IN]. inv IN. congruence.
        rewrite (dead_on_env w) by (rewrite E2; auto). eapply ND; eauto.
      * intros x IN. rewrite E2. simpl. apply TD. right; auto.
      * intros x IN. rewrite E2. simpl. apply TTA. apply in_map_iff in IN. destruct IN as (e & E & IN). rewrite FG in IN.
        destruct e as [k v]. apply (In_remove addr_eqb addr_eqb_eq) in IN. apply in_map_iff. exists (k, v). tauto.
Qed.

Lemma sel_ready_none : forall ready w lab w1 r lab1, sel_ready true w ready lab = (None, w1, r, lab1) -> r = [].
Proof. induction ready as [|a rd IH]; intros w lab w1 r lab1 H; simpl in H. inv H; auto.
  destruct (runnable w a). discriminate. eapply IH; eauto. Qed.

Lemma select_good w0 o w out lab : select true w0 = (o, w, out, lab) -> keys_ok w0 -> wgood w0 -> wgood w /\ keys_ok w.
Proof.
  unfold select. intros H KO (TK & TE & RD).
  destruct (sel_ready true w0 (w_ready w0) []) as [[[o1 w'] r] lab1] eqn:S.
  pose proof (sel_ready_env _ _ _ _ _ _ _ _ S) as ((E1 & E2 & E3 & E4) & E5 & E6 & E7).
  pose proof S as S'. apply sel_ready_good in S; auto. destruct S as (A & B & C & D).
  destruct o1.
  - inv H. split; auto. split; [|split]; auto.
  - apply sel_ready_none in S'. subst r.
    destruct (sel_delayed true (set_ready [] w') (rev (w_delayed w')) lab1) as [[o2 w2] lab2] eqn:DL.
    pose proof (sel_delayed_env _ _ _ _ _ _ _ DL) as (G1 & G2 & G3 & G4). simpl in *.
    apply sel_delayed_good in DL; simpl; auto.
    + destruct DL as (P1 & P2 & P3 & P4 & P5). simpl in P5.
      assert (W2 : wgood w2).
      { split; auto. split. intros t IN. rewrite G2. apply P4; auto.
        intros a rt IN DD. rewrite (P2 _ _ IN) in DD. discriminate. }
      destruct W2 as (X1 & X2 & X3). destruct o2; inv H; (split; [split; [|split]|]); auto.
    + intros a rt IN. destruct (dead_on w' (rt_task rt)) eqn:DD; auto. exfalso. eapply C; eauto.
    + intros t IN. apply B. apply In_tasks_of. right. apply in_rev; auto.
    + intros t IN. apply B. unfold tasks_of. apply in_or_app; auto.
Qed.

(* what a step does to _tasks / _ready_task_ids / _delayed_tasks after the selection phase *)
Lemma wstep_shape f8 P w0 w' out lab o w out0 lab0 : wstep fx f8 P w0 = Some (w', out, lab) ->
  select f8 w0 = (o, w, out0, lab0) ->
  (o = None /\ w' = w) \/
  (exists rt0 rt', o = Some rt0 /\ rt_task rt' = rt_task rt0
     /\ (w_tasks w' = put_t (t_addr (rt_task rt0)) rt' (w_tasks w) \/ w_tasks w' = remove_t (t_addr (rt_task rt0)) (w_tasks w))
     /\ w_delayed w' = w_delayed w /\ incl (w_ready w) (w_ready w')).
Proof.
  unfold wstep. intros H S. dmH H; [discriminate|]. rewrite S in H.
  destruct o as [rt0|]; [|inv H; auto]. right. exists rt0.
  destruct (desired_result (w_id w) rt0 (w_boxes w)) as [[[boxes1 rt1] l1]|] eqn:DR.
  2:{ match type of H with context[raise_path ?a ?b ?c ?d ?e] => destruct (raise_path a b c d e) as [[w1 o1] lb1] eqn:RP end.
      inv H. apply raise_path_spec in RP. destruct RP as (T1 & T2 & T3 & _). exists rt0. repeat split; auto. rewrite T3. apply incl_refl. }
  apply desired_result_spec in DR. destruct DR as (DT & _ & _).
  destruct (nth_error P (t_prog (rt_task (reset_await rt1)))) as [prog|] eqn:NP.
  2:{ match type of H with context[raise_path ?a ?b ?c ?d ?e] => destruct (raise_path a b c d e) as [[w1 o1] lb1] eqn:RP end.
      inv H. apply raise_path_spec in RP. destruct RP as (T1 & T2 & T3 & _). simpl in *. rewrite DT in T1.
      eexists. split; eauto. split; [|split; [left; exact T1|split; auto]]. simpl; auto. rewrite T3. apply incl_refl. }
  match type of H with context[run_instrs ?a ?b ?c] => destruct (run_instrs a b c) as [oc s] eqn:RI end.
  apply run_instrs_labels in RI. simpl in RI. destruct RI as (RT & _). rewrite DT in RT.
  destruct oc as [mb nx| |k].
  - destruct (lookup_b mb (c_boxes s)) eqn:L.
    + inv H. eexists. split; eauto. split; [|split; [left|split]].
      2:{ dmG; simpl; reflexivity. } simpl; auto. dmG; simpl; auto.
      dmG; simpl. intros x IN. apply in_or_app; auto. apply incl_refl.
    + match type of H with context[raise_path ?a ?b ?c ?d ?e] => destruct (raise_path a b c d e) as [[w1 o1] lb1] eqn:RP end.
      inv H. apply raise_path_spec in RP. destruct RP as (T1 & T2 & T3 & _). simpl in *. rewrite RT in T1.
      eexists. split; eauto. split; [|split; [left; exact T1|split; auto]]. auto. rewrite T3. apply incl_refl.
  - match type of H with context[match ?x with Some _ => _ | None => None end] => destruct x as [[[w2 out2] lab2]|] eqn:SH end; [|discriminate].
    match type of H with context[completion ?a ?b ?c] => destruct (completion a b c) as [s2|] eqn:CL end; [|discriminate].
    inv H.
    assert (W2 : w_tasks w2 = w_tasks w /\ w_delayed w2 = w_delayed w /\ incl (w_ready w) (w_ready w2)).
    { destruct (t_addr (rt_task rt0)) as [[dst x1] x2]. destruct (dst =? w_id w).
      - match type of SH with context[handle_result ?a ?b ?c] => destruct (handle_result a b c) as [[w2' l2]|] eqn:HR end; [|discriminate].
        inv SH. pose proof (handle_result_fields _ _ _ _ _ HR) as (_ & _ & _ & HT & HD & _). simpl in *. split; auto. split; auto.
        clear - HR. unfold handle_result in HR. repeat dmH HR; inv HR; simpl; try apply incl_refl. intros y IN. apply in_or_app; auto.
      - inv SH. simpl. split; auto. split; auto. apply incl_refl. }
    destruct W2 as (W2a & W2b & W2c). exists rt0. split; auto. split; auto. split. right. simpl. rewrite W2a. auto. simpl. auto.
  - match type of H with context[raise_path ?a ?b ?c ?d ?e] => destruct (raise_path a b c d e) as [[w1 o1] lb1] eqn:RP end.
    inv H. apply raise_path_spec in RP. destruct RP as (T1 & T2 & T3 & _). simpl in *. rewrite RT in T1.
    eexists. split; eauto. split; [|split; [left; exact T1|split; auto]]. auto. rewrite T3. apply incl_refl.
Qed.

Lemma wstep_wgood P w0 w' out lab : wstep fx true P w0 = Some (w', out, lab) -> keys_ok w0 -> wgood w0 -> wgood w'.
Proof.
  intros H KO G. destruct (select true w0) as [[[o w] out0] lab0] eqn:S.
  destruct (select_good _ _ _ _ _ S KO G) as ((TK & TE & RD) & KW).
  pose proof (select_spec _ _ _ _ _ _ S KO) as (_ & _ & SP).
  pose proof (select_env _ _ _ _ _ _ S) as (_ & SC & _).
  pose proof (wstep_fields _ _ _ _ _ _ _ H) as (_ & _ & FC).
  destruct (wstep_shape _ _ _ _ _ _ _ _ _ _ H S) as [[-> ->]|(rt0 & rt' & -> & RT & TS & DS & RS)].
  - split; auto.
  - destruct (SP rt0 eq_refl) as (DD & LW & _). set (a := t_addr (rt_task rt0)) in *.
    assert (CW : w_cancelled w' = w_cancelled w) by congruence.
    assert (SUB : forall t, In t (tasks_of w') -> In t (tasks_of w)).
    { intros t IN. apply In_tasks_of in IN. apply In_tasks_of. rewrite DS in IN. destruct IN as [(x & rt & IN & E)|IN]; auto. left.
      destruct TS as [TS|TS]; rewrite TS in IN.
      - apply In_put_inv in IN. destruct IN as [IN|IN]. inv IN. exists a, rt0. split; auto. apply lt_In; auto. eauto.
      - apply (In_remove addr_eqb addr_eqb_eq) in IN. exists x, rt. tauto. }
    split; [|split].
    + unfold tkeys. destruct TS as [TS|TS]; rewrite TS. apply NoDup_keys_put_t; auto. apply NoDup_keys_remove_t; auto.
    + eapply texact_sub; eauto.
    + intros x rt IN D. apply RS. rewrite (dead_on_env w w') in D by auto.
      destruct TS as [TS|TS]; rewrite TS in IN.
      * apply In_put_inv in IN. destruct IN as [IN|IN]. inv IN. rewrite RT in D.
        rewrite (dead_on_env w0 w) in D by auto. congruence. eapply RD; eauto.
      * apply (In_remove addr_eqb addr_eqb_eq) in IN. eapply RD; eauto. tauto.
Qed.

(* delivery of tasks none of which has its own address cancelled at this worker *)
Definition self_dead (ws : wstate) (m : msg) : bool :=
  match m with
  | MSubmit t => mem_addr (t_addr t) (w_cancelled ws)
  | MBatch ts => existsb (fun t => mem_addr (t_addr t) (w_cancelled ws)) ts
  | _ => false
  end.

Lemma wrecv_wgood m ws ws' l : wrecv m ws = Some (ws', l) -> keys_ok ws -> self_dead ws m = false -> wgood ws -> wgood ws'.
Proof.
  intros H KO SD (TK & TE & RD). destruct m; simpl in H; try discriminate.
  - inv H. unfold recv_submit, add_task. simpl in SD. split; [|split].
    + unfold tkeys. simpl. apply NoDup_keys_put_t; auto.
    + intros x IN. simpl. apply In_tasks_of in IN. simpl in IN. destruct IN as [(a & rt & IN & E)|IN].
      * apply In_put_inv in IN. destruct IN as [IN|IN]. inv IN. simpl. intro X. apply mem_addr_In in X. congruence.
        apply TE. apply In_tasks_of. left; eauto.
      * apply TE. apply In_tasks_of. auto.
    + intros a rt IN D. simpl in *. apply in_or_app. apply In_put_inv in IN. destruct IN as [IN|IN]. inv IN. right; left; auto.
      left. eapply RD; eauto.
  - unfold recv_batch in H. destruct (rev ts) as [|lst rr] eqn:RV; [discriminate|]. inv H. simpl in SD.
    assert (TS : forall x, In x (lst :: rr) -> ~ In (t_addr x) (w_cancelled ws)).
    { intros x IX X. assert (IT : In x ts) by (apply in_rev; rewrite RV; auto).
      assert (existsb (fun t => mem_addr (t_addr t) (w_cancelled ws)) ts = true) by (apply existsb_exists; exists x; split; auto; apply mem_addr_In; auto).
      congruence. }
    split; [|split].
    + unfold tkeys. simpl. apply NoDup_keys_put_t; auto.
    + intros x IN. simpl. apply In_tasks_of in IN. simpl in IN. destruct IN as [(a & rt & IN & E)|IN].
      * apply In_put_inv in IN. destruct IN as [IN|IN]. inv IN. simpl. apply TS. left; auto.
        apply TE. apply In_tasks_of. left; eauto.
      * apply in_app_or in IN. destruct IN as [IN|IN]. apply TE. apply In_tasks_of. auto. apply TS. right. apply in_rev in IN. auto.
    + intros a rt IN D. simpl in *. apply in_or_app. apply In_put_inv in IN. destruct IN as [IN|IN]. inv IN. right; left; auto.
      left. eapply RD; eauto.
  - pose proof (handle_result_fields _ _ _ _ _ H) as (_ & _ & C & T & DL & _).
    assert (RI : incl (w_ready ws) (w_ready ws')).
    { clear - H. unfold handle_result in H. destruct ra as [[x y] z]. repeat dmH H; inv H; simpl; try apply incl_refl. intros q IN. apply in_or_app; auto. }
    split; [|split].
    + unfold tkeys. rewrite T. auto.
    + intros x IN. rewrite C. apply TE. unfold tasks_of in *. rewrite T, DL in IN. auto.
    + intros x rt IN D. apply RI. rewrite T in IN. rewrite (dead_on_env ws ws') in D by auto. eapply RD; eauto.
  - pose proof (handle_cancel_fields _ _ _ _ H) as (_ & _ & C & RY & _).
    unfold handle_cancel in H.
    destruct (cancel_tasks (w_id ws) a (w_tasks ws) (w_boxes ws)) as [[[ts' b'] l']|] eqn:CT; [|discriminate].
    assert (SUBT : forall x rt, In (x, rt) (w_tasks ws') -> In (x, rt) (w_tasks ws) /\ desc a (rt_task rt) = false).
    { inv H. simpl. intros x rt IN. eapply cancel_tasks_sub; eauto. }
    assert (SUBD : forall t, In t (w_delayed ws') -> In t (w_delayed ws) /\ desc a t = false).
    { inv H. simpl. intros t IN. apply filter_In in IN. destruct IN as [I1 I2]. split; auto. destruct (desc a t); auto. }
    assert (NOTC : forall t, desc a t = false -> t_addr t <> a).
    { intros t D E. unfold desc in D. rewrite E, addr_eqb_refl in D. discriminate. }
    split; [|split].
    + unfold tkeys. inv H. simpl. clear - CT TK. unfold tkeys in TK. revert CT TK. generalize (w_boxes ws). generalize (w_tasks ws).
      intros ts. revert ts' b' l'. induction ts as [|[k rt] r IH]; intros ts' b' l' b CT TK; simpl in CT. inv CT; constructor.
      inv TK. destruct (desc a (rt_task rt)).
      * destruct (pop_boxes (rt_owned rt) b); [|discriminate]. destruct (cancel_tasks (w_id ws) a r l) as [[[? ?] ?]|] eqn:C2; [|discriminate].
        inv CT. eapply IH; eauto.
      * destruct (cancel_tasks (w_id ws) a r b) as [[[? ?] ?]|] eqn:C2; [|discriminate]. inv CT. simpl. constructor; eauto.
        intro X. apply H1. apply in_map_iff in X. destruct X as ([k2 v2] & E & IN). simpl in E. subst.
        eapply cancel_tasks_sub in IN; eauto. apply in_map_iff. exists (k, v2). tauto.
    + intros t IN X. apply In_tasks_of in IN. apply C in X.
      assert (Y : In t (tasks_of ws) /\ desc a t = false).
      { destruct IN as [(x & rt & IN & E)|IN]. destruct (SUBT _ _ IN) as [I1 I2]. subst. split; auto. apply In_tasks_of. left; eauto.
        destruct (SUBD _ IN). split; auto. apply In_tasks_of. auto. }
      destruct Y as [Y1 Y2]. destruct X as [X|X]. eapply NOTC; eauto. eapply TE; eauto.
    + intros x rt IN D. rewrite RY. destruct (SUBT _ _ IN) as [I1 I2]. eapply RD; eauto.
      apply dead_on_iff in D. destruct D as (c & C1 & C2). apply C in C1. destruct C1 as [->|C1]. congruence.
      apply dead_on_iff. eauto.
Qed.

Definition self_overtaken (s : sys) (e : event) : bool :=
  match e with
  | EDown w =>
      match nth_error (sy_down s) w, nth_error (sy_workers s) w with
      | Some (m :: _), Some ws => self_dead ws m
      | _, _ => false
      end
  | _ => false
  end.

Definition wsgood (s : sys) : Prop := forall k ws, nth_error (sy_workers s) k = Some ws -> wgood ws.

Lemma wsgood_init nw : wsgood (init_sys nw).
Proof. intros k ws H. simpl in H. apply nth_error_In in H. apply in_map_iff in H. destruct H as (x & <- & _).
  split. constructor. split. intros t []. intros a rt []. Qed.

Lemma wsgood_step P s e s' l : step fx true P s e = Some (s', l) -> sinv s -> self_overtaken s e = false -> wsgood s -> wsgood s'.
Proof.
  intros H [[LU LD WK] BL DR] SO G. destruct e.
  - apply step_client in H. destruct H as (srv & o & iss & H1 & -> & _). exact G.
  - apply step_up in H. destruct H as (m & q & srv & o & lab & H1 & H2 & -> & _). exact G.
  - apply step_down in H. destruct H as (m & q & ws0 & ws1 & H1 & H2 & H3 & ->). intros k ws W. simpl in W.
    apply nth_error_set_nth_inv in W. destruct W as [[-> ->]|[N1 N2]]; [|eapply G; eauto].
    unfold self_overtaken in SO. rewrite H1, H2 in SO. destruct (WK _ _ H2) as [K1 _]. eapply wrecv_wgood; eauto.
  - apply step_step in H. destruct H as (ws0 & q & ws1 & out & H1 & H2 & H3 & ->). intros k ws W. simpl in W.
    apply nth_error_set_nth_inv in W. destruct W as [[-> ->]|[N1 N2]]; [|eapply G; eauto].
    destruct (WK _ _ H1) as [K1 _]. eapply wstep_wgood; eauto.
Qed.
End Full.


Section Final.
Variable fx : bool.

Lemma ord_no_self_overtake s e : ord s -> self_overtaken s e = false.
Proof.
  intros [U0 O1 SU O2 RT]. destruct e; simpl; auto.
  destruct (nth_error (sy_down s) w) as [[|m q]|] eqn:D; auto.
  destruct (nth_error (sy_workers s) w) as [ws|] eqn:W; auto.
  destruct (self_dead ws m) eqn:SD; auto. exfalso. destruct m; simpl in SD; try discriminate.
  - apply mem_addr_In in SD. destruct (O2 (t_addr t) _ _ _ D W) as [_ B]. eapply B; eauto. left; auto. simpl; auto.
  - apply existsb_exists in SD. destruct SD as (t & T1 & T2). apply mem_addr_In in T2.
    destruct (O2 (t_addr t) _ _ _ D W) as [_ B]. eapply B; eauto. left; auto. simpl. eauto.
Qed.

Definition jinv (s : sys) : Prop := good s /\ cprop s /\ srv_inv (sy_server s) /\ ord s /\ wsgood s.

Lemma jinv_init nw : jinv (init_sys nw).
Proof. split. apply good_init. split. apply cprop_init. split. apply srv_inv_init. split. apply ord_init. apply wsgood_init. Qed.

Lemma jinv_step P s e s' l : step fx true P s e = Some (s', l) -> jinv s -> jinv s'.
Proof. intros H ([SI CS] & CP & SV & OD & WG). split; [split|split; [|split; [|split]]].
  eapply sinv_step; eauto. eapply csound_step; eauto. eapply cprop_step; eauto.
  eapply step_server; eauto. eapply ord_step; eauto. eapply wsgood_step; eauto. eapply ord_no_self_overtake; eauto. Qed.

Lemma jinv_run P evs : forall s s' l, jinv s -> run fx true P s evs = Some (s', l) -> jinv s'.
Proof. intros s s' l HI H. eapply (run_inv fx true P jinv (fun _ => True)); eauto.
  intros. split. eapply jinv_step; eauto. apply Forall_forall; auto. Qed.

(* C12_quiescent_clean, for ALL schedules (code since /repo 5dfab15) *)
Theorem quiescent_clean P nw evs s l :
  run fx true P (init_sys nw) evs = Some (s, l) -> quiescent s = true -> clean s = true.
Proof.
  intros R Q. assert (J : jinv s) by (eapply jinv_run; eauto; apply jinv_init).
  destruct J as ([SI CS] & CP & SV & OD & WG).
  unfold quiescent in Q. apply andb_true_iff in Q. destruct Q as [Q Q3]. apply andb_true_iff in Q. destruct Q as [Q1 Q2].
  rewrite forallb_forall in Q1, Q2, Q3.
  assert (ALL : forall c k ws, In c (sy_issued s) -> nth_error (sy_workers s) k = Some ws -> In c (w_cancelled ws)).
  { intros c k ws IC W. destruct (CP _ _ _ IC W) as [X|[(q & A1 & A2)|(j & q & A1 & A2)]]; auto.
    - apply nth_error_In in A1. apply Q2 in A1. destruct q; [destruct A2|discriminate].
    - apply nth_error_In in A1. apply Q1 in A1. destruct q; [destruct A2|discriminate]. }
  unfold clean. apply forallb_forall. intros ws IW. pose proof (Q3 _ IW) as QW. apply In_nth_error in IW. destruct IW as [k W].
  apply negb_true_iff. unfold holds_dead. destruct SI as [[LU LD WK] BL DR]. destruct (WK _ _ W) as [K1 K2].
  destruct (WG _ _ W) as (TK & TE & RD).
  destruct (w_ready ws) eqn:RY; [|discriminate]. destruct (w_delayed ws) eqn:DL; [|discriminate].
  apply orb_false_iff. split; [apply orb_false_iff; split|].
  - destruct (existsb (fun e => dead (sy_issued s) (rt_task (snd e))) (w_tasks ws)) eqn:E; auto.
    apply existsb_exists in E. destruct E as ([a rt] & E1 & E2). simpl in E2. exfalso.
    apply dead_iff in E2. destruct E2 as (c & C1 & C2).
    assert (D : dead_on ws (rt_task rt) = true) by (apply dead_on_iff; exists c; split; eauto).
    apply (RD _ _ E1) in D. destruct D.
  - reflexivity.
  - destruct (existsb (fun e => mem_addr (w_id ws, fst e, 0) (sy_issued s)) (w_boxes ws)) eqn:E; auto.
    apply existsb_exists in E. destruct E as ([mb box] & E1 & E2). simpl in E2. apply mem_addr_In in E2. rewrite K2 in E2.
    destruct (DR _ _ _ _ E2 W) as [X _]. apply In_lookup_b in E1. contradiction.
Qed.
Lemma no_self_overtake_reach P nw evs s l e : run fx true P (init_sys nw) evs = Some (s, l) -> self_overtaken s e = false.
Proof. intros R. apply ord_no_self_overtake.
  assert (J : jinv s) by (eapply jinv_run; eauto; apply jinv_init). destruct J as (_ & _ & _ & OD & _). exact OD. Qed.
End Final.
