(* C14 - proofs about the crash event system of rt/Crash.v *)
From Coq Require Import List Arith Bool PeanoNat Lia.
Import ListNotations.
From BQ Require Import rt.Crash.

Set Implicit Arguments.

(* ---------------------------------------------------------------------------------- *)
(* sums                                                                                 *)
Lemma sumn_le : forall n f g, (forall i, i < n -> f i <= g i) -> sumn n f <= sumn n g.
Proof. induction n; simpl; intros; auto. specialize (IHn f g). assert (f n <= g n) by auto.
  assert (sumn n f <= sumn n g) by (apply IHn; auto). lia. Qed.

Lemma sumn_le_except : forall n f g j a,
  (forall i, i < n -> f i <= g i + (if Nat.eqb i j then a else 0)) -> sumn n f <= sumn n g + a.
Proof. induction n; simpl; intros; try lia.
  assert (H0 := H n (Nat.lt_succ_diag_r n)).
  destruct (Nat.eqb n j) eqn:E.
  - apply Nat.eqb_eq in E. subst j.
    assert (sumn n f <= sumn n g).
    { apply sumn_le. intros i Hi. specialize (H i). destruct (Nat.eqb i n) eqn:E2.
      apply Nat.eqb_eq in E2; lia. assert (i < S n) by lia. apply H in H1. lia. }
    lia.
  - assert (sumn n f <= sumn n g + a) by (apply IHn with (j := j); intros; apply H; lia). lia.
Qed.

Lemma sumn_lt_at : forall n f g j d, j < n -> f j + d <= g j ->
  (forall i, i < n -> i <> j -> f i <= g i) -> sumn n f + d <= sumn n g.
Proof. induction n; simpl; intros; try lia.
  destruct (Nat.eq_dec j n).
  - subst. assert (sumn n f <= sumn n g) by (apply sumn_le; intros; apply H1; lia). lia.
  - assert (sumn n f + d <= sumn n g) by (apply IHn with (j := j); auto; try lia; intros; apply H1; lia).
    assert (f n <= g n) by (apply H1; lia). lia.
Qed.

Section Thm.
Variable T : list (kind * nat).
Variable attached : bool.
Variable out : nat -> nat.

Notation N := (N T).
Notation par := (par T).
Notation kindof := (kindof T).
Notation is_child := (is_child T).
Notation is_client := (is_client T).
Notation step := (step T attached out).
Notation run := (run T attached out).
Notation shutdown := (shutdown T).
Notation sys_error := (sys_error T).
Notation die := (die T).
Notation variant := (variant T).

Ltac bd := repeat match goal with
  | |- context [if ?b then _ else _] => destruct b eqn:?
  | H : context [if ?b then _ else _] |- _ => destruct b eqn:?
  end.

Lemma upd_eq : forall A (f : nat -> A) i v, upd f i v i = v.
Proof. intros. unfold upd. rewrite Nat.eqb_refl. auto. Qed.
Lemma upd_neq : forall A (f : nat -> A) i j v, j <> i -> upd f i v j = f j.
Proof. intros. unfold upd. destruct (Nat.eqb j i) eqn:E; auto. apply Nat.eqb_eq in E. contradiction. Qed.

(* ---- weights of the pieces --------------------------------------------------------- *)
Ltac prj := cbn [alive cend pend upq downq tasks ctr blocked outcomes fin owns subs budget andb orb negb].
Ltac wl := unfold wlink; cbn [alive cend pend upq downq tasks ctr blocked outcomes fin owns subs budget
  send_up send_down set_upq set_downq set_pend set_cend set_alive set_tasks set_client set_budget
  Crash.shutdown Crash.die Crash.drop_client Crash.sys_error Crash.srv_submit Crash.client_raise Crash.client_return];
  unfold upd.

Local Arguments Nat.mul : simpl never.
Local Arguments Crash.is_child : simpl never.
Local Arguments Crash.is_client : simpl never.
Local Arguments Crash.kindof : simpl never.
Local Arguments Crash.par : simpl never.
Local Arguments Nat.ltb : simpl never.
Local Arguments Nat.leb : simpl never.
Ltac atom b := lazymatch b with
  | ?x && _ => atom x | ?x || _ => atom x | negb ?x => atom x
  | _ => destruct b eqn:?
  end.
Ltac cases := repeat (match goal with
  | |- context [if ?b then _ else _] =>
      lazymatch b with context [if _ then _ else _] => fail | _ => atom b end
  end; prj).
Ltac eqs := repeat match goal with
  | H : (_ =? _) = true |- _ => apply Nat.eqb_eq in H; subst
  | H : (_ =? _) = false |- _ => apply Nat.eqb_neq in H
  end.
Ltac done := eqs; rewrite ?app_length; simpl; try congruence; try lia.
Ltac eqcase i p := destruct (Nat.eqb i p) eqn:?E;
  [apply Nat.eqb_eq in E; subst i | apply Nat.eqb_neq in E]; simpl.

Notation srv_request := (srv_request T attached).
Notation srv_status := (srv_status T).
Notation client_gone := (client_gone T attached).
Notation server_from_client := (server_from_client T attached).
Notation server_from_employee := (server_from_employee T attached).
Notation mgr_from_below := (mgr_from_below T).
Notation mgr_from_above := (mgr_from_above T).
Notation worker_from_above := (worker_from_above T).
Notation recv_up := (recv_up T attached).
Notation recv_down := (recv_down T).
Notation client_recv := (client_recv).
Notation call := (call T).
Notation wf_topo := (wf_topo T).

Lemma shutdown_le : forall p s i, wlink (shutdown p s) i <= wlink s i.
Proof. intros. wl. cases. all: done. Qed.
Lemma shutdown_child_le : forall p s i, is_child p i = true -> pend s i = true ->
  wlink (shutdown p s) i + 2 <= wlink s i.
Proof. intros p s i Hc Hp. wl. rewrite Hc, Hp. cases. all: done. Qed.
Lemma sys_error_le : forall p s i, wlink (sys_error p s) i <= wlink s i.
Proof. intros. wl. cases. all: done. Qed.
Lemma die_le : forall n s i, wlink (die n s) i <= wlink s i.
Proof. intros. wl. cases. all: done. Qed.
Lemma die_self_lt : forall n s, cend s n = true -> wlink (die n s) n + 2 <= wlink s n.
Proof. intros n s H. wl. rewrite H. cases. all: done. Qed.

Definition le1 (s' s : state) (j a : nat) :=
  forall i, wlink s' i <= wlink s i + (if Nat.eqb i j then a else 0).
Lemma le1_of_le : forall s' s j a, (forall i, wlink s' i <= wlink s i) -> le1 s' s j a.
Proof. unfold le1; intros. specialize (H i). lia. Qed.
Lemma le1_then_le : forall s3 s2 s1 j a, le1 s2 s1 j a -> (forall i, wlink s3 i <= wlink s2 i) -> le1 s3 s1 j a.
Proof. unfold le1; intros. specialize (H i). specialize (H0 i). lia. Qed.
Lemma send_down_le1 : forall s c m, le1 (send_down s c m) s c 1.
Proof. unfold le1; intros. wl. cases. all: done. Qed.
Lemma send_up_le1 : forall s c m, le1 (send_up s c m) s c (2 + c).
Proof. unfold le1; intros. wl. cases. all: done. Qed.
Lemma set_tasks_w : forall s f i, wlink (set_tasks s f) i = wlink s i.
Proof. reflexivity. Qed.
Lemma srv_submit_w : forall c u s i, wlink (srv_submit c u s) i = wlink s i.
Proof. reflexivity. Qed.
Lemma drop_client_le : forall c s i, wlink (drop_client c s) i <= wlink s i.
Proof. intros. wl. cases. all: done. Qed.
Lemma client_gone_le : forall p c s i, wlink (client_gone p c s) i <= wlink s i.
Proof. intros. unfold Crash.client_gone. destruct attached. apply shutdown_le. apply drop_client_le. Qed.

Lemma le1_sd_tasks : forall s f c m, le1 (send_down (set_tasks s f) c m) s c 1.
Proof. intros. intro i. rewrite <- (set_tasks_w s f i). apply send_down_le1. Qed.

Lemma srv_request_le1 : forall p c u s, le1 (srv_request p c u s) s c 1.
Proof. intros. unfold Crash.srv_request.
  destruct (find_u u (tasks s)) as [t|].
  - destruct (_ && _).
    + destruct (t_res t). apply le1_sd_tasks. apply le1_of_le. intros; rewrite set_tasks_w; auto.
    + eapply le1_then_le. apply send_down_le1. apply client_gone_le.
  - eapply le1_then_le. apply send_down_le1. apply client_gone_le.
Qed.
Lemma srv_status_le1 : forall p c u s, le1 (srv_status p c u s) s c 1.
Proof. intros. unfold Crash.srv_status.
  destruct (find_u u (tasks s)) as [t|].
  - destruct (_ && _). apply send_down_le1. apply le1_of_le. apply sys_error_le.
  - apply le1_of_le. apply sys_error_le.
Qed.
Lemma srv_result_le1 : forall m v s, exists j, le1 (srv_result m v s) s j 1.
Proof. intros. unfold Crash.srv_result.
  destruct (find_mb m (tasks s)) as [t|].
  - destruct (t_deliv t). exists 0. apply le1_of_le; auto.
    destruct (t_wait t). exists (t_owner t). apply le1_sd_tasks.
    exists 0. apply le1_of_le. intros; rewrite set_tasks_w; auto.
  - exists 0. apply le1_of_le; auto.
Qed.

Lemma server_from_client_le1 : forall p c m s, le1 (server_from_client p c (Some m) s) s c 1.
Proof. intros. destruct m; simpl; try (apply le1_of_le; apply sys_error_le).
  apply le1_of_le. intros. rewrite srv_submit_w. auto.
  apply srv_request_le1. apply srv_status_le1.
Qed.
Lemma server_from_employee_le1 : forall p c m s, exists j, le1 (server_from_employee p c (Some m) s) s j 1.
Proof. intros. destruct m; simpl; try (exists 0; apply le1_of_le; auto; fail).
  exists 0; apply le1_of_le; apply shutdown_le.
  apply srv_result_le1.
  exists 0; apply le1_of_le; apply sys_error_le.
Qed.
Lemma mgr_from_below_le1 : forall p c m s, le1 (mgr_from_below p c (Some m) s) s p (2 + p).
Proof. intros. destruct m; simpl; try (apply le1_of_le; auto; fail); apply send_up_le1. Qed.

(* EOF at a boss from below: the boss closes that endpoint (and more) *)
Lemma close_pend_le : forall s c i, wlink (set_pend s (upd (pend s) c false)) i <= wlink s i.
Proof. intros. wl. cases. all: done. Qed.
Lemma close_pend_lt : forall s c, pend s c = true -> wlink (set_pend s (upd (pend s) c false)) c + 3 <= wlink s c.
Proof. intros s c H. wl. rewrite H. cases. all: done. Qed.

Lemma boss_eof_lt : forall p c s, pend s c = true ->
  (forall i, wlink (shutdown p (set_pend s (upd (pend s) c false))) i <= wlink s i) /\
  wlink (shutdown p (set_pend s (upd (pend s) c false))) c + 3 <= wlink s c.
Proof. intros. split; intros.
  - eapply Nat.le_trans. apply shutdown_le. apply close_pend_le.
  - eapply Nat.le_trans. 2: apply close_pend_lt; auto. apply Nat.add_le_mono_r. apply shutdown_le.
Qed.

Lemma client_gone_lt : forall p c s, is_child p c = true -> pend s c = true ->
  wlink (client_gone p c s) c + 2 <= wlink s c.
Proof. intros. unfold Crash.client_gone. destruct attached. apply shutdown_child_le; auto.
  wl. rewrite H0. cases. all: done. Qed.

(* ---- topology facts ------------------------------------------------------------------ *)
Lemma wf_from_nth : forall l i, wf_from T i l = true -> forall k, k < length l ->
  wf_node T (k + i) (nth k l (KWorker, 0)) = true.
Proof. induction l as [|x l IH]; simpl; intros i H k Hk. lia.
  apply andb_true_iff in H. destruct H as [H1 H2].
  destruct k; simpl; auto. specialize (IH (S i) H2 k). rewrite Nat.add_succ_r in IH. apply IH. lia.
Qed.
Lemma wf_node_at : wf_topo = true -> forall c, c < N -> wf_node T c (kindof c, par c) = true.
Proof. unfold Crash.wf_topo. intros H c Hc. apply andb_true_iff in H. destruct H as [H _].
  pose proof (wf_from_nth T 0 H Hc) as W. rewrite Nat.add_0_r in W.
  unfold Crash.kindof, Crash.par. destruct (nth c T (KWorker, 0)); auto. Qed.
Lemma wf_par_lt : wf_topo = true -> forall c, 0 < c -> c < N -> par c < c.
Proof. intros H c H0 H1. pose proof (wf_node_at H H1) as W. simpl in W. destruct c. lia.
  apply andb_true_iff in W. destruct W as [W _]. apply Nat.ltb_lt in W. auto. Qed.
Lemma wf_zero : wf_topo = true -> kindof 0 = KServer.
Proof. intros H. assert (0 < N). { unfold Crash.wf_topo in H. apply andb_true_iff in H. destruct H as [_ H]. apply Nat.ltb_lt in H. auto. }
  pose proof (wf_node_at H H0) as W. simpl in W. destruct (kindof 0); auto; discriminate. Qed.
Lemma wf_not_server : wf_topo = true -> forall c, 0 < c -> c < N -> kindof c <> KServer.
Proof. intros H c H0 H1 K. pose proof (wf_node_at H H1) as W. simpl in W. destruct c. lia.
  rewrite K in W. apply andb_true_iff in W. destruct W; discriminate. Qed.
Lemma wf_client_par : wf_topo = true -> forall c, c < N -> kindof c = KClient -> par c = 0 /\ 0 < c.
Proof. intros H c H1 K. pose proof (wf_node_at H H1) as W. simpl in W. rewrite K in W. destruct c. discriminate.
  apply andb_true_iff in W. destruct W as [_ W]. apply Nat.eqb_eq in W. split; auto; lia. Qed.
Lemma wf_boss_kind : wf_topo = true -> forall c, 0 < c -> c < N -> kindof c <> KClient ->
  kindof (par c) = KServer \/ kindof (par c) = KManager.
Proof. intros H c H0 H1 K. pose proof (wf_node_at H H1) as W. simpl in W. destruct c. lia.
  apply andb_true_iff in W. destruct W as [_ W].
  destruct (kindof (S c)) eqn:E; try congruence; try discriminate; destruct (kindof (par (S c))); auto; discriminate. Qed.

(* ---- budgets are untouched by receive handlers ------------------------------------------ *)
Lemma srv_request_b : forall p c u s, budget (srv_request p c u s) = budget s.
Proof. intros. unfold Crash.srv_request, Crash.client_gone. destruct (find_u u (tasks s)); [destruct (_ && _); [destruct (t_res t)|]|];
  destruct attached; reflexivity. Qed.
Lemma srv_status_b : forall p c u s, budget (srv_status p c u s) = budget s.
Proof. intros. unfold Crash.srv_status. destruct (find_u u (tasks s)); [destruct (_ && _)|]; reflexivity. Qed.
Lemma srv_result_b : forall m v s, budget (srv_result m v s) = budget s.
Proof. intros. unfold Crash.srv_result. destruct (find_mb m (tasks s)); [destruct (t_deliv t); [|destruct (t_wait t)]|]; reflexivity. Qed.
Lemma server_from_client_b : forall p c m s, budget (server_from_client p c m s) = budget s.
Proof. intros. destruct m as [m|]; [destruct m|]; simpl; try reflexivity.
  apply srv_request_b. apply srv_status_b. unfold Crash.client_gone; destruct attached; reflexivity. Qed.
Lemma server_from_employee_b : forall p c m s, budget (server_from_employee p c m s) = budget s.
Proof. intros. destruct m as [m|]; [destruct m|]; simpl; try reflexivity. apply srv_result_b. destruct attached; reflexivity. Qed.
Lemma mgr_from_below_b : forall p c m s, budget (mgr_from_below p c m s) = budget s.
Proof. intros. destruct m as [m|]; [destruct m|]; reflexivity. Qed.

(* ---- receiving from below strictly decreases the link weights ----------------------------- *)
Lemma consume_up_w : forall s c x r i, upq s c = x :: r ->
  wlink (set_upq s (upd (upq s) c r)) i + (if Nat.eqb i c then 2 + c else 0) = wlink s i.
Proof. intros. wl. destruct (Nat.eqb i c) eqn:E. apply Nat.eqb_eq in E; subst. rewrite H. simpl length. lia. lia. Qed.
Lemma consume_down_w : forall s c x r i, downq s c = x :: r ->
  wlink (set_downq s (upd (downq s) c r)) i + (if Nat.eqb i c then 1 else 0) = wlink s i.
Proof. intros. wl. destruct (Nat.eqb i c) eqn:E. apply Nat.eqb_eq in E; subst. rewrite H. simpl length. lia. lia. Qed.

Lemma sum_consume : forall (s1 s : state) c d, c < N ->
  (forall i, wlink s1 i + (if Nat.eqb i c then d else 0) = wlink s i) ->
  sumn N (wlink s1) + d <= sumn N (wlink s).
Proof. intros. apply sumn_lt_at with (j := c); auto.
  specialize (H0 c). rewrite Nat.eqb_refl in H0. lia.
  intros. specialize (H0 i). destruct (Nat.eqb i c) eqn:E. apply Nat.eqb_eq in E; lia. lia. Qed.

Lemma sum_le1 : forall s' s j a, le1 s' s j a -> sumn N (wlink s') <= sumn N (wlink s) + a.
Proof. intros. apply sumn_le_except with (j := j). intros. apply H. Qed.

Lemma sum_strict : forall (s' s : state) c d, c < N -> (forall i, wlink s' i <= wlink s i) ->
  wlink s' c + d <= wlink s c -> sumn N (wlink s') + d <= sumn N (wlink s).
Proof. intros. apply sumn_lt_at with (j := c); auto. Qed.

Ltac bud := first [ reflexivity | apply server_from_client_b | apply server_from_employee_b | apply mgr_from_below_b
  | (unfold Crash.client_gone; destruct attached; reflexivity)
  | (rewrite server_from_client_b; reflexivity) | (rewrite server_from_employee_b; reflexivity)
  | (rewrite mgr_from_below_b; reflexivity)
  | (match goal with |- budget (match ?x with _ => _ end) = _ => destruct x end;
     first [reflexivity | apply srv_request_b | apply srv_status_b | apply srv_result_b
           | (rewrite srv_request_b; reflexivity) | (rewrite srv_status_b; reflexivity) | (rewrite srv_result_b; reflexivity)]) ].

Lemma recv_up_variant : wf_topo = true -> forall c s s', recv_up c s = Some s' ->
  sumn N (wlink s') < sumn N (wlink s) /\ budget s' = budget s.
Proof. intros WF c s s'. unfold Crash.recv_up.
  destruct ((0 <? c) && (c <? N) && alive s (par c) && pend s c) eqn:C; [|discriminate].
  apply andb_true_iff in C; destruct C as [C Hp]. apply andb_true_iff in C; destruct C as [C Ha].
  apply andb_true_iff in C; destruct C as [C0 CN]. apply Nat.ltb_lt in C0. apply Nat.ltb_lt in CN.
  assert (Hchild : is_child (par c) c = true).
  { unfold Crash.is_child. rewrite Nat.eqb_refl. apply Nat.ltb_lt in C0. apply Nat.ltb_lt in CN. rewrite C0, CN. reflexivity. }
  destruct (upq s c) as [|x r] eqn:Q.
  - (* EOF *)
    destruct (cend s c); [discriminate|].
    destruct (kindof (par c)) eqn:K; try discriminate; intros E; inversion E; subst s'; clear E.
    + destruct (is_client c); cbv iota.
      * split. 2: bud. simpl.
        assert (sumn N (wlink (client_gone (par c) c s)) + 2 <= sumn N (wlink s)).
        { apply sum_strict with (c := c); auto. apply client_gone_le. apply client_gone_lt; auto. }
        lia.
      * split. 2: (unfold Crash.server_from_employee; destruct attached; reflexivity).
        unfold Crash.server_from_employee. destruct attached.
        -- assert (sumn N (wlink (shutdown (par c) s)) + 2 <= sumn N (wlink s)).
           { apply sum_strict with (c := c); auto. intros; apply shutdown_le. apply shutdown_child_le; auto. }
           lia.
        -- destruct (boss_eof_lt (par c) c s Hp) as [A B].
           assert (sumn N (wlink (shutdown (par c) (set_pend s (upd (pend s) c false)))) + 3 <= sumn N (wlink s))
             by (apply sum_strict with (c := c); auto). lia.
    + split. 2: bud. simpl.
      destruct (boss_eof_lt (par c) c s Hp) as [A B].
      assert (sumn N (wlink (shutdown (par c) (set_pend s (upd (pend s) c false)))) + 3 <= sumn N (wlink s))
        by (apply sum_strict with (c := c); auto). lia.
  - (* a message *)
    set (s1 := set_upq s (upd (upq s) c r)).
    assert (S1 : sumn N (wlink s1) + (2 + c) <= sumn N (wlink s)).
    { apply sum_consume with (c := c); auto. intros. apply consume_up_w with (x := x); auto. }
    destruct (kindof (par c)) eqn:K; try discriminate; intros E; inversion E; subst s'; clear E.
    + destruct (is_client c); cbv iota.
      * split. 2: bud.
        apply Nat.le_lt_trans with (sumn N (wlink s1) + 1); [exact (sum_le1 (server_from_client_le1 (par c) c x s1))|lia].
      * split. 2: bud.
        destruct (server_from_employee_le1 (par c) c x s1) as [j L].
        apply Nat.le_lt_trans with (sumn N (wlink s1) + 1); [exact (sum_le1 L)|lia].
    + split. 2: bud.
      pose proof (wf_par_lt WF C0 CN).
      apply Nat.le_lt_trans with (sumn N (wlink s1) + (2 + par c)); [exact (sum_le1 (mgr_from_below_le1 (par c) c x s1))|lia].
Qed.

(* ---- receiving from above ---------------------------------------------------------------- *)
Lemma crecv_eof : forall arr g, crecv arr true g = CRaise.
Proof. induction arr as [|m r IH]; intros; simpl; auto. destruct m; auto. Qed.

Lemma client_raise_le : forall c s i, wlink (client_raise c s) i <= wlink s i.
Proof. intros. wl. cases. all: done. Qed.
Lemma client_raise_lt : forall c s, cend s c = true -> wlink (client_raise c s) c + 2 <= wlink s c.
Proof. intros c s H. wl. rewrite H. cases. all: done. Qed.
Lemma client_return_w : forall c o s i, wlink (client_return c o s) i = wlink s i.
Proof. reflexivity. Qed.

Lemma skip_down_w : forall s c k i, k <= length (downq s c) ->
  wlink (set_downq s (upd (downq s) c (skipn k (downq s c)))) i + (if Nat.eqb i c then k else 0) = wlink s i.
Proof. intros. wl. destruct (Nat.eqb i c) eqn:E. apply Nat.eqb_eq in E; subst. rewrite skipn_length. lia. lia. Qed.
Lemma skip_down_le : forall s c k i,
  wlink (set_downq s (upd (downq s) c (skipn k (downq s c)))) i <= wlink s i.
Proof. intros. wl. destruct (Nat.eqb i c) eqn:E. apply Nat.eqb_eq in E; subst. rewrite skipn_length. lia. lia. Qed.
Lemma skip_down_cend : forall s c k, cend (set_downq s (upd (downq s) c (skipn k (downq s c)))) c = cend s c.
Proof. reflexivity. Qed.

Lemma client_recv_variant : forall c k s s', c < N -> cend s c = true -> client_recv c k s = Some s' ->
  sumn N (wlink s') < sumn N (wlink s) /\ budget s' = budget s.
Proof. intros c k s s' CN Hc. unfold Crash.client_recv.
  destruct (blocked s c) as [r|]; [|discriminate].
  destruct (0 <? k) eqn:K; [|discriminate]. apply Nat.ltb_lt in K.
  unfold arrived. destruct (k <=? length (downq s c)) eqn:L.
  - apply Nat.leb_le in L.
    set (s1 := set_downq s (upd (downq s) c (skipn k (downq s c)))).
    assert (S1 : sumn N (wlink s1) + k <= sumn N (wlink s)).
    { apply sum_consume with (c := c); auto. intros. apply skip_down_w; auto. }
    destruct (crecv (firstn k (downq s c)) false None) as [| |m].
    + intros E; inversion E; subst. split. lia. reflexivity.
    + intros E; inversion E; subst. split. 2: reflexivity.
      assert (sumn N (wlink (client_raise c s1)) <= sumn N (wlink s1)) by (apply sumn_le; intros; apply client_raise_le). lia.
    + destruct (answer r m); intros E; inversion E; subst; (split; [|reflexivity]).
      * assert (sumn N (wlink (client_return c o s1)) <= sumn N (wlink s1)) by (apply sumn_le; intros; rewrite client_return_w; auto). lia.
      * assert (sumn N (wlink (client_raise c s1)) <= sumn N (wlink s1)) by (apply sumn_le; intros; apply client_raise_le). lia.
  - destruct (Nat.eqb k (S (length (downq s c))) && negb (pend s c)); [|discriminate].
    rewrite crecv_eof. intros E; inversion E; subst. split. 2: reflexivity.
    set (s1 := set_downq s (upd (downq s) c (skipn k (downq s c)))).
    assert (sumn N (wlink (client_raise c s1)) + 2 <= sumn N (wlink s)).
    { apply sum_strict with (c := c); auto.
      intros. eapply Nat.le_trans. apply client_raise_le. apply skip_down_le.
      eapply Nat.le_trans. apply client_raise_lt. unfold s1. rewrite skip_down_cend. auto. apply skip_down_le. }
    lia.
Qed.

Lemma close_cend_le : forall s c i, wlink (set_cend s (upd (cend s) c false)) i <= wlink s i.
Proof. intros. wl. cases. all: done. Qed.
Lemma close_cend_lt : forall s c, cend s c = true -> wlink (set_cend s (upd (cend s) c false)) c + 2 <= wlink s c.
Proof. intros s c H. wl. rewrite H. cases. all: done. Qed.

Lemma mgr_from_above_le : forall c m s i, wlink (mgr_from_above c (Some m) s) i <= wlink s i.
Proof. intros. destruct m; simpl; auto. apply shutdown_le. Qed.
Lemma worker_from_above_le : forall c m s i, wlink (worker_from_above c (Some m) s) i <= wlink s i.
Proof. intros. destruct m; simpl; auto. apply die_le. Qed.
Lemma mgr_from_above_b : forall c m s, budget (mgr_from_above c m s) = budget s.
Proof. intros. destruct m as [m|]; [destruct m|]; reflexivity. Qed.
Lemma worker_from_above_b : forall c m s, budget (worker_from_above c m s) = budget s.
Proof. intros. destruct m as [m|]; [destruct m|]; reflexivity. Qed.

Lemma recv_down_variant : forall c k s s', recv_down c k s = Some s' ->
  sumn N (wlink s') < sumn N (wlink s) /\ budget s' = budget s.
Proof. intros c k s s'. unfold Crash.recv_down.
  destruct ((0 <? c) && (c <? N) && alive s c && cend s c) eqn:C; [|discriminate].
  apply andb_true_iff in C; destruct C as [C Hc]. apply andb_true_iff in C; destruct C as [C Ha].
  apply andb_true_iff in C; destruct C as [C0 CN]. apply Nat.ltb_lt in C0. apply Nat.ltb_lt in CN.
  destruct (kindof c) eqn:K.
  - apply client_recv_variant; auto.
  - discriminate.
  - destruct (downq s c) as [|x r] eqn:Q.
    + destruct (pend s c); [discriminate|]. intros E; inversion E; subst. split. 2: reflexivity.
      assert (sumn N (wlink (shutdown c (set_cend s (upd (cend s) c false)))) + 2 <= sumn N (wlink s)).
      { apply sum_strict with (c := c); auto.
        intros. eapply Nat.le_trans. apply shutdown_le. apply close_cend_le.
        eapply Nat.le_trans. 2: apply close_cend_lt; auto. apply Nat.add_le_mono_r. apply shutdown_le. }
      simpl. lia.
    + set (s1 := set_downq s (upd (downq s) c r)).
      assert (S1 : sumn N (wlink s1) + 1 <= sumn N (wlink s)).
      { apply sum_consume with (c := c); auto. intros. apply consume_down_w with (x := x); auto. }
      intros E; inversion E; subst. split. 2: (destruct x; reflexivity).
      apply Nat.le_lt_trans with (sumn N (wlink s1)); [|lia].
      exact (@sumn_le N _ _ (fun i _ => mgr_from_above_le c x s1 i)).
  - destruct (downq s c) as [|x r] eqn:Q.
    + destruct (pend s c); [discriminate|]. intros E; inversion E; subst. split. 2: reflexivity.
      assert (sumn N (wlink (die c s)) + 2 <= sumn N (wlink s)).
      { apply sum_strict with (c := c); auto. apply die_le. apply die_self_lt; auto. }
      simpl. lia.
    + set (s1 := set_downq s (upd (downq s) c r)).
      assert (S1 : sumn N (wlink s1) + 1 <= sumn N (wlink s)).
      { apply sum_consume with (c := c); auto. intros. apply consume_down_w with (x := x); auto. }
      intros E; inversion E; subst. split. 2: (destruct x; reflexivity).
      apply Nat.le_lt_trans with (sumn N (wlink s1)); [|lia].
      exact (@sumn_le N _ _ (fun i _ => worker_from_above_le c x s1 i)).
Qed.

(* ---- every event ------------------------------------------------------------------------- *)
Lemma variant_unfold : forall s, variant s = sumn N (wlink s) + (2 + N) * budget s.
Proof. reflexivity. Qed.

Lemma call_variant : forall c r k s s', call c r k s = Some s' -> variant s' <= variant s.
Proof. intros c r k s s'. unfold Crash.call.
  destruct (_ && _ && _ && _ && _ && _) eqn:C; [|discriminate].
  repeat (apply andb_true_iff in C; destruct C as [C ?]).
  apply Nat.ltb_lt in H3. 
  destruct (cend s c) eqn:Hc.
  - destruct (budget s) as [|b] eqn:B; [discriminate|].
    destruct (arrived (downq s c) (pend s c) k) as [[arr eof]|]; [|discriminate].
    set (s1 := set_downq s (upd (downq s) c (skipn k (downq s c)))).
    assert (S1 : sumn N (wlink s1) <= sumn N (wlink s)) by (apply sumn_le; intros; apply skip_down_le).
    destruct (cdrain arr && negb eof).
    + assert (S2 : sumn N (wlink (send_up s1 c (req_msg r))) <= sumn N (wlink s1) + (2 + c)) by (apply (sum_le1 (send_up_le1 s1 c (req_msg r)))).
      destruct r as [u|u|u]; intros E; inversion E; subst s'; clear E; rewrite !variant_unfold, B; simpl req_msg in *.
      * replace (sumn N _) with (sumn N (wlink (send_up s1 c (CSubmit u)))) by reflexivity. cbn [budget set_client set_budget client_return]. nia.
      * replace (sumn N _) with (sumn N (wlink (send_up s1 c (CRequest u)))) by reflexivity. cbn [budget set_client set_budget]. nia.
      * replace (sumn N _) with (sumn N (wlink (send_up s1 c (CStatus u)))) by reflexivity. cbn [budget set_client set_budget]. nia.
    + intros E; inversion E; subst s'; clear E. rewrite !variant_unfold.
      assert (sumn N (wlink (client_raise c s1)) <= sumn N (wlink s1)) by (apply sumn_le; intros; apply client_raise_le).
      replace (budget (client_raise c s1)) with (budget s) by reflexivity. lia.
  - intros E; inversion E; subst s'; clear E. rewrite !variant_unfold.
    assert (sumn N (wlink (client_raise c s)) <= sumn N (wlink s)) by (apply sumn_le; intros; apply client_raise_le).
    replace (budget (client_raise c s)) with (budget s) by reflexivity. lia.
Qed.

Lemma fail_le : forall w s i, wlink (die w (send_up s w MSysErr)) i <= wlink s i.
Proof. intros. wl. cases. all: done. Qed.

Lemma step_variant : wf_topo = true -> forall s e s', step s e = Some s' ->
  variant s' <= variant s /\ (is_recv e = true -> variant s' < variant s).
Proof. intros WF s e s' H. destruct e as [n|up c k|c r k|w t|up c tag|w]; simpl in H.
  6: { split; [|discriminate]. destruct (_ && _ && _) eqn:C; [|discriminate]. inversion H; subst s'; clear H.
    rewrite !variant_unfold. replace (budget (die w (send_up s w MSysErr))) with (budget s) by reflexivity.
    assert (sumn N (wlink (die w (send_up s w MSysErr))) <= sumn N (wlink s)).
    { apply sumn_le. intros i _. apply fail_le. }
    lia. }
  - destruct (_ && _); [|discriminate]. inversion H; subst. split; [|discriminate].
    rewrite !variant_unfold. assert (sumn N (wlink (die n s)) <= sumn N (wlink s)) by (apply sumn_le; intros; apply die_le).
    replace (budget (die n s)) with (budget s) by reflexivity. lia.
  - assert (sumn N (wlink s') < sumn N (wlink s) /\ budget s' = budget s).
    { destruct up. apply recv_up_variant with (c := c); auto. apply recv_down_variant with (c := c) (k := k); auto. }
    destruct H0. rewrite !variant_unfold. rewrite H1. split; intros; lia.
  - split; [|discriminate]. eapply call_variant; eauto.
  - split; [|discriminate]. destruct (budget s) as [|b] eqn:B; [discriminate|].
    destruct (_ && _ && _ && _) eqn:C; [|discriminate].
    repeat (apply andb_true_iff in C; destruct C as [C ?]). apply Nat.ltb_lt in C.
    inversion H; subst s'; clear H. rewrite !variant_unfold, B.
    pose proof (sum_le1 (send_up_le1 s w (MResult t (out t)))).
    match goal with |- sumn N ?f + _ <= _ => replace (sumn N f) with (sumn N (wlink (send_up s w (MResult t (out t))))) by reflexivity end.
    cbn [budget]. nia.
  - split; [|discriminate]. destruct (budget s) as [|b] eqn:B; [destruct up; discriminate|].
    destruct up.
    + destruct (_ && _ && _ && _ && _) eqn:C; [|discriminate].
      repeat (apply andb_true_iff in C; destruct C as [C ?]). apply Nat.ltb_lt in H3.
      inversion H; subst s'; clear H. rewrite !variant_unfold, B.
      pose proof (sum_le1 (send_up_le1 s c (MOrd tag))).
      match goal with |- sumn N ?f + _ <= _ => replace (sumn N f) with (sumn N (wlink (send_up s c (MOrd tag)))) by reflexivity end.
      cbn [budget set_budget]. nia.
    + destruct (_ && _ && _ && _) eqn:C; [|discriminate].
      inversion H; subst s'; clear H. rewrite !variant_unfold, B.
      pose proof (sum_le1 (send_down_le1 s c (MOrd tag))).
      match goal with |- sumn N ?f + _ <= _ => replace (sumn N f) with (sumn N (wlink (send_down s c (MOrd tag)))) by reflexivity end.
      cbn [budget set_budget]. nia.
Qed.

Definition count_recv (es : list event) : nat := length (filter is_recv es).

Lemma run_variant : wf_topo = true -> forall es s s', run s es = Some s' ->
  count_recv es + variant s' <= variant s.
Proof. intros WF. induction es as [|e es IH]; simpl; intros s s' H.
  - inversion H; subst. unfold count_recv. simpl. lia.
  - destruct (step s e) as [s1|] eqn:E; [|discriminate].
    apply IH in H. destruct (step_variant WF _ _ E) as [A B].
    unfold count_recv in *. simpl. destruct (is_recv e); simpl; [specialize (B eq_refl)|]; lia.
Qed.

(* ====================================================================================== *)
(* Part B: the shutdown invariant and progress                                              *)
Record Inv (s : state) : Prop := {
  I_dead : forall n, alive s n = false ->
             cend s n = false /\ (forall c, is_child n c = true -> pend s c = false);
  I_boss : forall p c, is_child p c = true -> is_client c = false -> alive s p = true -> pend s c = true;
  I_mgr : forall m, m < N -> kindof m = KManager -> alive s m = true -> cend s m = true;
  I_wrk : forall w, w < N -> kindof w = KWorker -> alive s w = true -> cend s w = true;
  I_blk : forall c, blocked s c <> None -> is_client c = true /\ cend s c = true;
  I_cli : forall c, c < N -> is_client c = true -> alive s c = true }.

Lemma is_child_par : forall p c, is_child p c = true -> par c = p /\ 0 < c /\ c < N.
Proof. unfold Crash.is_child. intros. apply andb_true_iff in H. destruct H as [H H2].
  apply andb_true_iff in H. destruct H as [H0 H1]. apply Nat.eqb_eq in H2. apply Nat.ltb_lt in H0, H1. auto. Qed.
Lemma is_child_intro : forall c, 0 < c -> c < N -> is_child (par c) c = true.
Proof. intros. unfold Crash.is_child. rewrite Nat.eqb_refl. apply Nat.ltb_lt in H, H0. rewrite H, H0. auto. Qed.
Lemma mgr_not_client : forall m, kindof m = KManager -> is_client m = false.
Proof. unfold Crash.is_client. intros. rewrite H. auto. Qed.
Lemma wrk_not_client : forall m, kindof m = KWorker -> is_client m = false.
Proof. unfold Crash.is_client. intros. rewrite H. auto. Qed.
Lemma client_kind : forall c, is_client c = true -> kindof c = KClient.
Proof. unfold Crash.is_client. intros. destruct (kindof c); auto; discriminate. Qed.

Lemma Inv_upd : forall s s',
  (forall x, alive s' x = alive s x) ->
  (forall x, is_client x = false -> cend s' x = cend s x) ->
  (forall x, is_client x = false -> pend s' x = pend s x) ->
  (forall x, pend s' x = true -> pend s x = true) ->
  (forall x, cend s' x = true -> cend s x = true) ->
  (forall c, blocked s' c <> None -> is_client c = true /\ cend s' c = true) ->
  Inv s -> Inv s'.
Proof. intros s s' Ha Hc Hp Hp' Hc' Hb I. constructor.
  - intros n Hn. rewrite Ha in Hn. destruct (I_dead I n Hn) as [A B]. split.
    + destruct (cend s' n) eqn:E; auto. apply Hc' in E. congruence.
    + intros c Hch. destruct (pend s' c) eqn:E; auto. apply Hp' in E. rewrite (B c Hch) in E. discriminate.
  - intros p c Hch Hcl Hal. rewrite Hp; auto. rewrite Ha in Hal. eapply I_boss; eauto.
  - intros m Hm K Hal. rewrite Ha in Hal. pose proof (mgr_not_client _ K). rewrite Hc by auto. eapply I_mgr; eauto.
  - intros w Hw K Hal. rewrite Ha in Hal. rewrite Hc. eapply I_wrk; eauto. apply wrk_not_client; auto.
  - auto.
  - intros c Hc0 Hcl. rewrite Ha. eapply I_cli; eauto.
Qed.

Lemma Inv_kill : forall s s' n,
  is_client n = false ->
  (forall x, alive s' x = if Nat.eqb x n then false else alive s x) ->
  (forall x, cend s' x = if Nat.eqb x n then false else cend s x) ->
  (forall c, pend s' c = if is_child n c then false else pend s c) ->
  (forall c, blocked s' c = blocked s c) ->
  Inv s -> Inv s'.
Proof. intros s s' n Hn Ha Hc Hp Hb I. constructor.
  - intros x Hx. rewrite Ha in Hx. rewrite Hc. destruct (Nat.eqb x n) eqn:E.
    + apply Nat.eqb_eq in E; subst. split; auto. intros c Hch. rewrite Hp, Hch. auto.
    + destruct (I_dead I x Hx) as [A B]. split; auto. intros c Hch. rewrite Hp. rewrite (B c Hch). destruct (is_child n c); auto.
  - intros p c Hch Hcl Hal. rewrite Ha in Hal. destruct (Nat.eqb p n) eqn:E; [discriminate|].
    rewrite Hp. destruct (is_child n c) eqn:E2.
    + apply is_child_par in Hch. apply is_child_par in E2. apply Nat.eqb_neq in E. destruct Hch, E2. congruence.
    + eapply I_boss; eauto.
  - intros m Hm K Hal. rewrite Ha in Hal. destruct (Nat.eqb m n) eqn:E; [discriminate|].
    rewrite Hc, E. eapply I_mgr; eauto.
  - intros w Hw K Hal. rewrite Ha in Hal. destruct (Nat.eqb w n) eqn:E; [discriminate|].
    rewrite Hc, E. eapply I_wrk; eauto.
  - intros c Hbl. rewrite Hb in Hbl. destruct (I_blk I c Hbl) as [A B]. split; auto.
    rewrite Hc. destruct (Nat.eqb c n) eqn:E; auto. apply Nat.eqb_eq in E; subst. congruence.
  - intros c Hc0 Hcl. rewrite Ha. destruct (Nat.eqb c n) eqn:E. apply Nat.eqb_eq in E; subst; congruence. eapply I_cli; eauto.
Qed.

Ltac inapp := repeat match goal with
  | |- In _ (if ?b then _ else _) => destruct b
  | |- In _ (_ ++ _) => apply in_or_app; auto; try (right; simpl; auto; fail)
  end; auto.

Lemma Inv_shutdown : forall p s, Inv s -> alive s p = true -> is_client p = false -> Inv (shutdown p s).
Proof. intros p s I Hal Hcl. apply Inv_kill with (s := s) (n := p); auto; try (intros; reflexivity). Qed.

(* a manager reads SHUTDOWN from above: the head of its own FIFO is consumed, then it shuts down *)
Lemma Inv_shutdown_consume : forall c r s, Inv s -> is_client c = false ->
  Inv (shutdown c (set_downq s (upd (downq s) c r))).
Proof. intros c r s I Hcl. apply Inv_kill with (s := s) (n := c); auto; try (intros; reflexivity). Qed.

(* a manager reads EOF from above: it closes that connection and shuts down *)
Lemma Inv_shutdown_lostboss : forall c s, Inv s -> is_client c = false ->
  Inv (shutdown c (set_cend s (upd (cend s) c false))).
Proof. intros c s I Hcl. apply Inv_kill with (s := s) (n := c); auto; try (intros; reflexivity).
  intros x. cbn [Crash.shutdown cend set_downq set_pend send_up set_upq set_cend set_alive]. unfold upd.
  destruct (Nat.eqb x c); auto. Qed.

Lemma Inv_shutdown_eof : forall p c s, Inv s -> alive s p = true -> is_client p = false ->
  is_child p c = true -> cend s c = false -> c < N ->
  Inv (shutdown p (set_pend s (upd (pend s) c false))).
Proof. intros p c s I Hal Hcl Hch Hce HcN. apply Inv_kill with (s := s) (n := p); auto; try (intros; reflexivity).
  intros x. cbn [Crash.shutdown pend set_downq set_pend send_up set_upq set_cend set_alive].
  destruct (is_child p x) eqn:E; auto. unfold upd. destruct (Nat.eqb x c) eqn:E2; auto. apply Nat.eqb_eq in E2. subst. congruence.
Qed.

Lemma Inv_die : forall n s, Inv s -> is_client n = false -> Inv (die n s).
Proof. intros n s I Hcl. apply Inv_kill with (s := s) (n := n); auto; try (intros; reflexivity). Qed.

Ltac triv_upd I := apply Inv_upd with (1 := fun _ => eq_refl); auto; try (intros; reflexivity); try (intros; assumption);
  try (intros c Hb; exact (I_blk I c Hb)).

Lemma Inv_send_down : forall s c m, Inv s -> Inv (send_down s c m).
Proof. intros s c m I. apply Inv_upd with (s := s); auto; try (intros; reflexivity).
  intros x Hb. exact (I_blk I x Hb). Qed.
Lemma Inv_send_up : forall s c m, Inv s -> Inv (send_up s c m).
Proof. intros s c m I. apply Inv_upd with (s := s); auto; try (intros; reflexivity). intros x Hb. exact (I_blk I x Hb). Qed.
Lemma Inv_set_tasks : forall s f, Inv s -> Inv (set_tasks s f).
Proof. intros s f I. apply Inv_upd with (s := s); auto; try (intros; reflexivity). intros x Hb. exact (I_blk I x Hb). Qed.
Lemma Inv_set_upq : forall s f, Inv s -> Inv (set_upq s f).
Proof. intros s f I. apply Inv_upd with (s := s); auto; try (intros; reflexivity). intros x Hb. exact (I_blk I x Hb). Qed.
Lemma Inv_set_budget : forall s f, Inv s -> Inv (set_budget s f).
Proof. intros s f I. apply Inv_upd with (s := s); auto; try (intros; reflexivity). intros x Hb. exact (I_blk I x Hb). Qed.
Lemma Inv_srv_submit : forall c u s, Inv s -> Inv (srv_submit c u s).
Proof. intros c u s I. apply Inv_upd with (s := s); auto; try (intros; reflexivity). intros x Hb. exact (I_blk I x Hb). Qed.

Lemma Inv_drop_client : forall c s, Inv s -> is_client c = true -> Inv (drop_client c s).
Proof. intros c s I Hc. apply Inv_upd with (s := s); auto; try (intros; reflexivity).
  - intros x Hx. cbn [Crash.drop_client pend set_pend set_tasks]. unfold upd. destruct (Nat.eqb x c) eqn:E; auto.
    apply Nat.eqb_eq in E; subst; congruence.
  - intros x. cbn [Crash.drop_client pend set_pend set_tasks]. unfold upd. destruct (Nat.eqb x c); auto. discriminate.
  - intros x Hb. exact (I_blk I x Hb).
Qed.

Lemma Inv_sys_error : forall p s, Inv s -> alive s p = true -> is_client p = false -> Inv (sys_error p s).
Proof. intros p s I Hal Hcl. unfold Crash.sys_error. apply Inv_shutdown; auto.
  apply Inv_upd with (s := s); auto; try (intros; reflexivity).
  intros x Hb. exact (I_blk I x Hb). Qed.

Lemma Inv_client_gone : forall p c s, Inv s -> alive s p = true -> is_client p = false -> is_client c = true ->
  Inv (client_gone p c s).
Proof. intros. unfold Crash.client_gone. destruct attached. apply Inv_shutdown; auto. apply Inv_drop_client; auto. Qed.

Lemma Inv_client_raise : forall c s, Inv s -> is_client c = true -> Inv (client_raise c s).
Proof. intros c s I Hc. apply Inv_upd with (s := s); auto; try (intros; reflexivity).
  - intros x Hx. cbn [Crash.client_raise cend set_cend set_client]. unfold upd. destruct (Nat.eqb x c) eqn:E; auto.
    apply Nat.eqb_eq in E; subst; congruence.
  - intros x. cbn [Crash.client_raise cend set_cend set_client]. unfold upd. destruct (Nat.eqb x c); auto. discriminate.
  - intros x. cbn [Crash.client_raise cend blocked set_cend set_client]. unfold upd. destruct (Nat.eqb x c) eqn:E.
    intros Hb; congruence. intros Hb. exact (I_blk I x Hb).
Qed.
Lemma Inv_client_return : forall c o s, Inv s -> Inv (client_return c o s).
Proof. intros c o s I. apply Inv_upd with (s := s); auto; try (intros; reflexivity).
  intros x. cbn [Crash.client_return cend blocked set_client]. unfold upd. destruct (Nat.eqb x c) eqn:E.
  intros Hb; congruence. intros Hb. exact (I_blk I x Hb). Qed.

Lemma Inv_srv_request : forall p c u s, Inv s -> alive s p = true -> is_client p = false -> is_client c = true ->
  Inv (srv_request p c u s).
Proof. intros. unfold Crash.srv_request. destruct (find_u u (tasks s)) as [t|].
  - destruct (_ && _). destruct (t_res t). apply Inv_send_down. apply Inv_set_tasks; auto. apply Inv_set_tasks; auto.
    apply Inv_client_gone; auto. apply Inv_send_down; auto.
  - apply Inv_client_gone; auto. apply Inv_send_down; auto.
Qed.
Lemma Inv_srv_status : forall p c u s, Inv s -> alive s p = true -> is_client p = false -> Inv (srv_status p c u s).
Proof. intros. unfold Crash.srv_status. destruct (find_u u (tasks s)) as [t|].
  - destruct (_ && _). apply Inv_send_down; auto. apply Inv_sys_error; auto.
  - apply Inv_sys_error; auto.
Qed.
Lemma Inv_srv_result : forall m v s, Inv s -> Inv (srv_result m v s).
Proof. intros. unfold Crash.srv_result. destruct (find_mb m (tasks s)) as [t|]; auto.
  destruct (t_deliv t); auto. destruct (t_wait t). apply Inv_send_down. apply Inv_set_tasks; auto. apply Inv_set_tasks; auto. Qed.

Lemma Inv_server_from_client : forall p c m s, Inv s -> alive s p = true -> is_client p = false -> is_client c = true ->
  Inv (server_from_client p c m s).
Proof. intros. destruct m as [m|]; [destruct m|]; simpl; try (apply Inv_sys_error; auto).
  apply Inv_srv_submit; auto. apply Inv_srv_request; auto. apply Inv_srv_status; auto. apply Inv_client_gone; auto. Qed.

Lemma Inv_server_from_employee : forall p c m s, Inv s -> alive s p = true -> is_client p = false ->
  is_child p c = true -> (m = None -> cend s c = false) ->
  Inv (server_from_employee p c m s).
Proof. intros p c m s I Hal Hcl Hch He. destruct m as [m|]; [destruct m|]; simpl; auto.
  apply Inv_shutdown; auto. apply Inv_srv_result; auto. apply Inv_sys_error; auto.
  destruct attached. apply Inv_shutdown; auto.
  apply Inv_shutdown_eof; auto. apply is_child_par in Hch. tauto. Qed.

Lemma Inv_mgr_from_below : forall p c m s, Inv s -> alive s p = true -> is_client p = false ->
  is_child p c = true -> (m = None -> cend s c = false) ->
  Inv (mgr_from_below p c m s).
Proof. intros p c m s I Hal Hcl Hch He. destruct m as [m|]; [destruct m|]; simpl; auto; try (apply Inv_send_up; auto).
  apply Inv_shutdown_eof; auto. apply is_child_par in Hch. tauto. Qed.

Lemma kind_boss_not_client : forall p, kindof p = KServer \/ kindof p = KManager -> is_client p = false.
Proof. unfold Crash.is_client. intros p [H|H]; rewrite H; auto. Qed.

Lemma Inv_recv_up : wf_topo = true -> forall c s s', Inv s -> recv_up c s = Some s' -> Inv s'.
Proof. intros WF c s s' I. unfold Crash.recv_up.
  destruct ((0 <? c) && (c <? N) && alive s (par c) && pend s c) eqn:C; [|discriminate].
  apply andb_true_iff in C; destruct C as [C Hp]. apply andb_true_iff in C; destruct C as [C Ha].
  apply andb_true_iff in C; destruct C as [C0 CN]. apply Nat.ltb_lt in C0. apply Nat.ltb_lt in CN.
  pose proof (is_child_intro C0 CN) as Hch.
  destruct (upq s c) as [|x r] eqn:Q.
  - destruct (cend s c) eqn:Hce; [discriminate|].
    destruct (kindof (par c)) eqn:K; try discriminate; intros E; inversion E; subst s'; clear E.
    + assert (is_client (par c) = false) by (apply kind_boss_not_client; auto).
      destruct (is_client c) eqn:Hcl.
      apply (@Inv_server_from_client (par c) c None s); auto. apply (@Inv_server_from_employee (par c) c None s); auto.
    + assert (is_client (par c) = false) by (apply kind_boss_not_client; auto).
      apply (@Inv_mgr_from_below (par c) c None s); auto.
  - set (s1 := set_upq s (upd (upq s) c r)). assert (I1 : Inv s1) by (apply Inv_set_upq; auto).
    destruct (kindof (par c)) eqn:K; try discriminate; intros E; inversion E; subst s'; clear E.
    + assert (is_client (par c) = false) by (apply kind_boss_not_client; auto).
      destruct (is_client c) eqn:Hcl.
      apply (@Inv_server_from_client (par c) c (Some x) s1); auto.
      apply (@Inv_server_from_employee (par c) c (Some x) s1); auto. discriminate.
    + assert (is_client (par c) = false) by (apply kind_boss_not_client; auto).
      apply (@Inv_mgr_from_below (par c) c (Some x) s1); auto. discriminate.
Qed.

(* consuming the head of downq c (or k arrived items at a client) *)
Lemma Inv_consume_down : forall s c q, Inv s -> Inv (set_downq s (upd (downq s) c q)).
Proof. intros s c q I. apply Inv_upd with (s := s); auto; try (intros; reflexivity).
  intros x Hb. exact (I_blk I x Hb). Qed.

Lemma wf_leaf_worker : wf_topo = true -> forall w m, kindof w = KWorker -> is_child w m = true -> False.
Proof. intros WF w m K Hch. destruct (is_child_par _ _ Hch) as [P [H0 HN]].
  destruct (kindof m) eqn:Km.
  - destruct (wf_client_par WF HN Km) as [P0 _]. rewrite P0 in P. subst. rewrite (wf_zero WF) in K. discriminate.
  - eapply wf_not_server; eauto.
  - assert (kindof m <> KClient) by congruence. destruct (wf_boss_kind WF H0 HN H) as [X|X]; rewrite P in X; congruence.
  - assert (kindof m <> KClient) by congruence. destruct (wf_boss_kind WF H0 HN H) as [X|X]; rewrite P in X; congruence.
Qed.

Lemma Inv_recv_down : wf_topo = true -> forall c k s s', Inv s -> recv_down c k s = Some s' -> Inv s'.
Proof. intros WF c k s s' I. unfold Crash.recv_down.
  destruct ((0 <? c) && (c <? N) && alive s c && cend s c) eqn:C; [|discriminate].
  apply andb_true_iff in C; destruct C as [C Hc]. apply andb_true_iff in C; destruct C as [C Ha].
  apply andb_true_iff in C; destruct C as [C0 CN]. apply Nat.ltb_lt in C0. apply Nat.ltb_lt in CN.
  destruct (kindof c) eqn:K.
  - (* client *)
    assert (Hcl : is_client c = true) by (unfold Crash.is_client; rewrite K; auto).
    unfold Crash.client_recv. destruct (blocked s c) as [r|]; [|discriminate].
    destruct (0 <? k); [|discriminate]. destruct (arrived _ _ _) as [[arr eof]|]; [|discriminate].
    assert (I1 : Inv (set_downq s (upd (downq s) c (skipn k (downq s c))))) by (apply Inv_consume_down; auto).
    destruct (crecv arr eof None); [| |destruct (answer r m)]; intros E; inversion E; subst; auto.
    apply Inv_client_raise; auto. apply Inv_client_return; auto. apply Inv_client_raise; auto.
  - discriminate.
  - (* manager *)
    assert (Hcl : is_client c = false) by (apply mgr_not_client; auto).
    destruct (downq s c) as [|x r] eqn:Q.
    + destruct (pend s c) eqn:P; [discriminate|]. intros E; inversion E; subst s'; clear E.
      apply (@Inv_shutdown_lostboss c s); auto.
    + intros E; inversion E; subst s'; clear E.
      destruct x; try (apply Inv_consume_down; auto).
      apply (@Inv_shutdown_consume c r s); auto.
  - (* worker *)
    assert (Hcl : is_client c = false) by (apply wrk_not_client; auto).
    destruct (downq s c) as [|x r] eqn:Q.
    + destruct (pend s c) eqn:P; [discriminate|]. intros E; inversion E; subst s'; clear E.
      apply (@Inv_die c s); auto.
    + intros E; inversion E; subst s'; clear E.
      assert (I1 : Inv (set_downq s (upd (downq s) c r))) by (apply Inv_consume_down; auto).
      destruct x; auto. apply (@Inv_die c _); auto.
Qed.

Notation init := (init T).

Lemma all_below_spec : forall n f, all_below n f = true -> forall i, i < n -> f i = true.
Proof. induction n; simpl; intros. lia. apply andb_true_iff in H. destruct H.
  destruct (Nat.eq_dec i n). subst; auto. apply IHn; auto. lia. Qed.
Lemma any_below_false : forall n f, any_below n f = false -> forall i, i < n -> f i = false.
Proof. induction n; simpl; intros. lia. apply orb_false_iff in H. destruct H.
  destruct (Nat.eq_dec i n). subst; auto. apply IHn; auto. lia. Qed.
Lemma all_below_intro : forall n f, (forall i, i < n -> f i = true) -> all_below n f = true.
Proof. induction n; simpl; intros; auto. rewrite H by lia. rewrite IHn; auto. Qed.

Lemma Inv_call : forall c r k s s', Inv s -> call c r k s = Some s' -> Inv s'.
Proof. intros c r k s s' I. unfold Crash.call.
  destruct (_ && _ && _ && _ && _ && _) eqn:C; [|discriminate].
  repeat (apply andb_true_iff in C; destruct C as [C ?]). rename H2 into Hcl.
  destruct (cend s c) eqn:Hc.
  - destruct (budget s) as [|b]; [discriminate|].
    destruct (arrived _ _ _) as [[arr eof]|]; [|discriminate].
    assert (I1 : Inv (set_downq s (upd (downq s) c (skipn k (downq s c))))).
    { apply Inv_consume_down; auto. }
    destruct (cdrain arr && negb eof).
    + assert (I2 : Inv (set_budget (send_up (set_downq s (upd (downq s) c (skipn k (downq s c)))) c (req_msg r)) b))
        by (apply Inv_set_budget; apply Inv_send_up; auto).
      destruct r; intros E; inversion E; subst s'; clear E.
      * apply Inv_upd with (s := client_return c (OSubmitted u) (set_budget (send_up (set_downq s (upd (downq s) c (skipn k (downq s c)))) c (CSubmit u)) b));
          auto; try (intros; reflexivity). intros x Hb. apply (I_blk (Inv_client_return c (OSubmitted u) I2) x Hb).
        apply Inv_client_return; auto.
      * apply Inv_upd with (s := set_budget (send_up (set_downq s (upd (downq s) c (skipn k (downq s c)))) c (CRequest u)) b); auto; try (intros; reflexivity).
        intros x. cbn [blocked cend set_client set_budget send_up set_upq set_downq]. unfold upd. destruct (Nat.eqb x c) eqn:E.
        apply Nat.eqb_eq in E; subst. auto. intros Hb. exact (I_blk I x Hb).
      * apply Inv_upd with (s := set_budget (send_up (set_downq s (upd (downq s) c (skipn k (downq s c)))) c (CStatus u)) b); auto; try (intros; reflexivity).
        intros x. cbn [blocked cend set_client set_budget send_up set_upq set_downq]. unfold upd. destruct (Nat.eqb x c) eqn:E.
        apply Nat.eqb_eq in E; subst. auto. intros Hb. exact (I_blk I x Hb).
    + intros E; inversion E; subst. apply Inv_client_raise; auto.
  - intros E; inversion E; subst. apply Inv_client_raise; auto.
Qed.

Lemma Inv_step : wf_topo = true -> forall s e s', Inv s -> step s e = Some s' -> Inv s'.
Proof. intros WF s e s' I H. destruct e as [n|up c k|c r k|w t|up c tag|w]; simpl in H.
  6: { destruct (_ && _ && _) eqn:C; [|discriminate]. inversion H; subst s'; clear H.
    apply andb_true_iff in C. destruct C as [C _]. apply andb_true_iff in C. destruct C as [_ C].
    destruct (kindof w) eqn:K; try discriminate.
    apply Inv_die. apply Inv_send_up; auto. apply wrk_not_client; auto. }
  - unfold crashable in H. destruct (_ && _) eqn:C; [|discriminate]. inversion H; subst.
    apply andb_true_iff in C. destruct C as [C _]. apply andb_true_iff in C. destruct C as [_ C].
    apply Inv_die; auto. unfold Crash.is_client. destruct (kindof n); auto; discriminate.
  - destruct up. eapply Inv_recv_up; eauto. eapply Inv_recv_down; eauto.
  - eapply Inv_call; eauto.
  - destruct (budget s); [discriminate|]. destruct (_ && _ && _ && _); [|discriminate]. inversion H; subst.
    apply Inv_upd with (s := send_up s w (MResult t (out t))); auto; try (intros; reflexivity).
    intros x Hb. exact (I_blk I x Hb). apply Inv_send_up; auto.
  - destruct (budget s); [destruct up; discriminate|]. destruct up.
    + destruct (_ && _ && _ && _ && _); [|discriminate]. inversion H; subst. apply Inv_set_budget. apply Inv_send_up; auto.
    + destruct (_ && _ && _ && _); [|discriminate]. inversion H; subst. apply Inv_set_budget. apply Inv_send_down; auto.
Qed.

Lemma Inv_init : wf_topo = true -> forall b, Inv (init b).
Proof. intros WF b. constructor; simpl.
  - intros n Hn. apply Nat.ltb_ge in Hn. split.
    + destruct (n <? N) eqn:E. apply Nat.ltb_lt in E. lia. rewrite andb_false_r. auto.
    + intros c Hch. exfalso. destruct (is_child_par _ _ Hch) as [P [C0 CN]]. pose proof (wf_par_lt WF C0 CN). lia.
  - intros p c Hch _ _. destruct (is_child_par _ _ Hch) as [P [C0 CN]]. apply Nat.ltb_lt in C0, CN. rewrite C0, CN. auto.
  - intros m Hm K _. assert (0 < m). { destruct m; try lia. rewrite (wf_zero WF) in K. discriminate. }
    apply Nat.ltb_lt in H, Hm. rewrite H, Hm. auto.
  - intros w Hw K _. assert (0 < w). { destruct w; try lia. rewrite (wf_zero WF) in K. discriminate. }
    apply Nat.ltb_lt in H, Hw. rewrite H, Hw. auto.
  - intros c H. congruence.
  - intros c Hc _. apply Nat.ltb_lt in Hc. auto.
Qed.

(* reachable states: any events, crashes restricted to workers and level-1 managers *)
Inductive reach : state -> Prop :=
| reach_init : forall b, reach (init b)
| reach_step : forall s e s', reach s -> step s e = Some s' -> reach s'.

Lemma reach_Inv : wf_topo = true -> forall s, reach s -> Inv s.
Proof. intros WF s R. induction R. apply Inv_init; auto. eapply Inv_step; eauto. Qed.

Lemma reach_run : forall es s s', reach s -> run s es = Some s' -> reach s'.
Proof. induction es as [|e es IH]; simpl; intros s s' R H. inversion H; subst; auto.
  destruct (step s e) as [s1|] eqn:E; [|discriminate].
  apply IH with (s := s1); auto. eapply reach_step; eauto. Qed.

(* ---- progress: a quiescent state after a crash is completely shut down ----------------------- *)
Notation quiescent := (quiescent T attached).
Notation all_down := (all_down T).
Notation recv_enabled := (recv_enabled T attached).

Lemma recv_up_enabled : forall c s, 0 < c -> c < N -> alive s (par c) = true -> pend s c = true ->
  (upq s c <> [] \/ cend s c = false) -> (kindof (par c) = KServer \/ kindof (par c) = KManager) ->
  recv_up c s <> None.
Proof. intros c s C0 CN Ha Hp Hq K. unfold Crash.recv_up.
  apply Nat.ltb_lt in C0, CN. rewrite C0, CN, Ha, Hp. simpl.
  destruct (upq s c) as [|x r].
  - destruct Hq as [Hq|Hq]; [congruence|]. rewrite Hq. destruct K as [K|K]; rewrite K; discriminate.
  - destruct K as [K|K]; rewrite K; discriminate.
Qed.

Lemma recv_down_enabled_rt : forall c s, 0 < c -> c < N -> alive s c = true -> cend s c = true ->
  (kindof c = KManager \/ kindof c = KWorker) -> (downq s c <> [] \/ pend s c = false) ->
  recv_down c 1 s <> None.
Proof. intros c s C0 CN Ha Hc K Hq. unfold Crash.recv_down.
  apply Nat.ltb_lt in C0, CN. rewrite C0, CN, Ha, Hc. simpl.
  destruct (downq s c) as [|x r].
  - destruct Hq as [Hq|Hq]; [congruence|]. rewrite Hq. destruct K as [K|K]; rewrite K; discriminate.
  - destruct K as [K|K]; rewrite K; discriminate.
Qed.

Lemma recv_down_enabled_client : forall c s, 0 < c -> c < N -> alive s c = true -> cend s c = true ->
  kindof c = KClient -> blocked s c <> None -> (downq s c <> [] \/ pend s c = false) ->
  recv_down c 1 s <> None.
Proof. intros c s C0 CN Ha Hc K Hb Hq. unfold Crash.recv_down.
  apply Nat.ltb_lt in C0, CN. rewrite C0, CN, Ha, Hc, K. simpl.
  unfold Crash.client_recv. destruct (blocked s c) as [r|]; [|congruence]. simpl.
  unfold arrived. destruct (downq s c) as [|x q] eqn:Q; simpl.
  - destruct Hq as [Hq|Hq]; [congruence|]. rewrite Hq. simpl.
    repeat (match goal with |- context [match ?x with _ => _ end] => destruct x end); discriminate.
  - repeat (match goal with |- context [match ?x with _ => _ end] => destruct x end); discriminate.
Qed.

Lemma quiescent_spec : forall s, quiescent s = true -> forall c, c < N ->
  recv_up c s = None /\ recv_down c 1 s = None.
Proof. unfold Crash.quiescent. intros s H c Hc. apply negb_true_iff in H.
  pose proof (@any_below_false _ _ H c Hc) as X. unfold Crash.recv_enabled in X.
  destruct (recv_up c s); [discriminate|]. destruct (recv_down c 1 s); [discriminate|]. auto. Qed.

Lemma nonclient_kind : wf_topo = true -> forall c, 0 < c -> c < N -> is_client c = false ->
  kindof c = KManager \/ kindof c = KWorker.
Proof. intros WF c C0 CN H. unfold Crash.is_client in H. destruct (kindof c) eqn:K; auto; try discriminate.
  exfalso. eapply wf_not_server; eauto. Qed.

Lemma par_boss : wf_topo = true -> forall c, 0 < c -> c < N -> is_client c = false ->
  (kindof (par c) = KServer \/ kindof (par c) = KManager) /\ par c < N /\ is_client (par c) = false.
Proof. intros WF c C0 CN H. assert (kindof c <> KClient). { intro K. unfold Crash.is_client in H. rewrite K in H. discriminate. }
  pose proof (wf_boss_kind WF C0 CN H0). pose proof (wf_par_lt WF C0 CN). split; auto. split. lia.
  apply kind_boss_not_client; auto. Qed.

Lemma server_down : wf_topo = true -> forall s, Inv s -> quiescent s = true ->
  forall d, d < N -> is_client d = false -> alive s d = false -> alive s 0 = false.
Proof. intros WF s I Q. induction d as [d IH] using lt_wf_ind. intros HN Hcl Hd.
  destruct d; auto.
  destruct (par_boss WF (Nat.lt_0_succ d) HN Hcl) as [K [PN PC]].
  pose proof (wf_par_lt WF (Nat.lt_0_succ d) HN) as PL.
  destruct (alive s (par (S d))) eqn:Ha.
  - exfalso. destruct (quiescent_spec _ Q HN) as [U _].
    destruct (I_dead I _ Hd) as [Hce _].
    pose proof (I_boss I _ _ (is_child_intro (Nat.lt_0_succ d) HN) Hcl Ha) as Hp.
    apply (@recv_up_enabled (S d) s); auto. lia.
  - apply (IH (par (S d))); auto.
Qed.

Lemma all_runtime_down : wf_topo = true -> forall s, Inv s -> quiescent s = true -> alive s 0 = false ->
  forall n, n < N -> is_client n = false -> alive s n = false.
Proof. intros WF s I Q H0. induction n as [n IH] using lt_wf_ind. intros HN Hcl.
  destruct n; auto.
  destruct (par_boss WF (Nat.lt_0_succ n) HN Hcl) as [K [PN PC]].
  pose proof (wf_par_lt WF (Nat.lt_0_succ n) HN) as PL.
  pose proof (IH _ PL PN PC) as Hpd.
  destruct (alive s (S n)) eqn:Ha; auto. exfalso.
  destruct (I_dead I _ Hpd) as [_ Hpc]. pose proof (Hpc _ (is_child_intro (Nat.lt_0_succ n) HN)) as Hp.
  destruct (quiescent_spec _ Q HN) as [_ D].
  destruct (nonclient_kind WF (Nat.lt_0_succ n) HN Hcl) as [Km|Kw].
  - pose proof (I_mgr I HN Km Ha) as Hc. apply (@recv_down_enabled_rt (S n) s); auto. lia.
  - pose proof (I_wrk I HN Kw Ha) as Hc. apply (@recv_down_enabled_rt (S n) s); auto. lia.
Qed.

Theorem progress : wf_topo = true -> forall s, Inv s ->
  (exists d, d < N /\ is_client d = false /\ alive s d = false) ->
  quiescent s = true -> all_down s = true.
Proof. intros WF s I [d [HN [Hcl Hd]]] Q.
  pose proof (server_down WF I Q HN Hcl Hd) as S0.
  unfold Crash.all_down. apply all_below_intro. intros n Hn.
  destruct (is_client n) eqn:Hc.
  - pose proof (client_kind _ Hc) as K. destruct (wf_client_par WF Hn K) as [P C0].
    destruct (I_dead I _ S0) as [_ Hpc]. pose proof (is_child_intro C0 Hn) as Hch. rewrite P in Hch.
    rewrite (Hpc _ Hch). simpl.
    destruct (blocked s n) eqn:B; auto. exfalso.
    assert (Hb : blocked s n <> None) by congruence.
    destruct (I_blk I _ Hb) as [_ Hce]. pose proof (I_cli I Hn Hc) as Ha.
    destruct (quiescent_spec _ Q Hn) as [_ D].
    apply (@recv_down_enabled_client n s); auto.
  - rewrite (all_runtime_down WF I Q S0 Hn Hc). auto.
Qed.

(* ====================================================================================== *)
(* Part C: whatever reaches a client as a RESULT is the complete output of one of its tasks  *)
Definition okres (s : state) (c u v : nat) : Prop :=
  exists mb, In (c, u, mb) (owns s) /\ v = out mb /\ In mb (fin s).

Record RInv (s : state) : Prop := {
  R_up : forall c t v, In (MResult t v) (upq s c) -> v = out t /\ In t (fin s);
  R_task : forall tk, In tk (tasks s) -> In (t_owner tk, t_u tk, t_mb tk) (owns s) /\
             (forall v, t_res tk = Some v -> v = out (t_mb tk) /\ In (t_mb tk) (fin s));
  R_down : forall c u v, In (SResult u v) (downq s c) -> okres s c u v;
  R_out : forall c u v, In (OResult u v) (outcomes s c) -> okres s c u v }.

Lemma RInv_upd : forall s s',
  incl (fin s) (fin s') -> incl (owns s) (owns s') ->
  (forall c t v, In (MResult t v) (upq s' c) -> In (MResult t v) (upq s c) \/ (v = out t /\ In t (fin s'))) ->
  (forall tk, In tk (tasks s') -> In tk (tasks s) \/
     (In (t_owner tk, t_u tk, t_mb tk) (owns s') /\ (forall v, t_res tk = Some v -> v = out (t_mb tk) /\ In (t_mb tk) (fin s')))) ->
  (forall c u v, In (SResult u v) (downq s' c) -> In (SResult u v) (downq s c) \/ okres s' c u v) ->
  (forall c u v, In (OResult u v) (outcomes s' c) -> In (OResult u v) (outcomes s c) \/ okres s' c u v) ->
  RInv s -> RInv s'.
Proof. intros s s' Hf Ho Hu Ht Hd Hc R.
  assert (OK : forall c u v, okres s c u v -> okres s' c u v).
  { intros c u v [mb [A [B C]]]. exists mb. auto. }
  constructor.
  - intros c t v H. destruct (Hu _ _ _ H) as [X|X]; auto. destruct (R_up R _ _ _ X). auto.
  - intros tk H. destruct (Ht _ H) as [X|X]; auto. destruct (R_task R _ X) as [A B]. split; auto.
    intros v Hv. destruct (B v Hv). auto.
  - intros c u v H. destruct (Hd _ _ _ H) as [X|X]; auto. apply OK. eapply R_down; eauto.
  - intros c u v H. destruct (Hc _ _ _ H) as [X|X]; auto. apply OK. eapply R_out; eauto.
Qed.

Lemma in_app_single : forall (A : Type) (x y : A) l, In x (l ++ [y]) -> In x l \/ x = y.
Proof. intros. apply in_app_or in H. destruct H; auto. simpl in H. destruct H; auto. contradiction. Qed.

Ltac rtriv := try (intros; left; assumption); try apply incl_refl.

Lemma RInv_shutdown : forall p s, RInv s -> RInv (shutdown p s).
Proof. intros p s R. apply RInv_upd with (s := s); auto; rtriv.
  - intros c t v. cbn [Crash.shutdown upq set_downq set_pend send_up set_upq set_cend set_alive].
    destruct (_ && _); auto. intros H. apply in_app_single in H. destruct H; auto. discriminate.
  - intros c u v. cbn [Crash.shutdown downq set_downq set_pend send_up set_upq set_cend set_alive].
    destruct (_ && _ && _); auto. intros H. apply in_app_single in H. destruct H; auto. discriminate.
Qed.
Lemma RInv_sys_error : forall p s, RInv s -> RInv (sys_error p s).
Proof. intros p s R. unfold Crash.sys_error. apply RInv_shutdown. apply RInv_upd with (s := s); auto; rtriv.
  intros c u v. cbn [downq set_downq]. destruct (_ && _ && _); auto. intros H. apply in_app_single in H. destruct H; auto. discriminate. Qed.
Lemma RInv_die : forall n s, RInv s -> RInv (die n s).
Proof. intros n s R. apply RInv_upd with (s := s); auto; rtriv. Qed.
Lemma RInv_set_pend : forall s f, RInv s -> RInv (set_pend s f).
Proof. intros s f R. apply RInv_upd with (s := s); auto; rtriv. Qed.
Lemma RInv_set_cend : forall s f, RInv s -> RInv (set_cend s f).
Proof. intros s f R. apply RInv_upd with (s := s); auto; rtriv. Qed.
Lemma RInv_set_budget : forall s f, RInv s -> RInv (set_budget s f).
Proof. intros s f R. apply RInv_upd with (s := s); auto; rtriv. Qed.

Lemma RInv_send_up : forall s c m, RInv s ->
  (forall t v, m = MResult t v -> v = out t /\ In t (fin s)) -> RInv (send_up s c m).
Proof. intros s c m R Hm. apply RInv_upd with (s := s); auto; rtriv.
  intros x t v. cbn [upq send_up set_upq]. destruct (_ && _); auto. intros H. apply in_app_single in H. destruct H; auto. Qed.
Lemma RInv_send_down : forall s c m, RInv s ->
  (forall u v, m = SResult u v -> okres s c u v) -> RInv (send_down s c m).
Proof. intros s c m R Hm. apply RInv_upd with (s := s); auto; rtriv.
  intros x u v. cbn [downq send_down set_downq]. destruct (Nat.eqb x c && pend s c) eqn:E; auto. intros H.
  apply andb_true_iff in E. destruct E as [E _]. apply Nat.eqb_eq in E. subst.
  apply in_app_single in H. destruct H; auto. right. apply Hm. auto. Qed.

Lemma RInv_consume_up : forall s c x r, RInv s -> upq s c = x :: r -> RInv (set_upq s (upd (upq s) c r)).
Proof. intros s c x r R Q. apply RInv_upd with (s := s); auto; rtriv.
  intros y t v. cbn [upq set_upq]. unfold upd. destruct (Nat.eqb y c) eqn:E; auto. apply Nat.eqb_eq in E. subst.
  intros H. left. rewrite Q. simpl. auto. Qed.
Lemma RInv_consume_down : forall s c q, RInv s -> (forall m, In m q -> In m (downq s c)) ->
  RInv (set_downq s (upd (downq s) c q)).
Proof. intros s c q R Q. apply RInv_upd with (s := s); auto; rtriv.
  intros y u v. cbn [downq set_downq]. unfold upd. destruct (Nat.eqb y c) eqn:E; auto. apply Nat.eqb_eq in E. subst. auto. Qed.

Lemma find_u_in : forall u l t, find_u u l = Some t -> In t l /\ t_u t = u.
Proof. induction l as [|x l IH]; simpl; intros t H. discriminate.
  destruct (Nat.eqb (t_u x) u) eqn:E. inversion H; subst. apply Nat.eqb_eq in E. auto.
  destruct (IH _ H). auto. Qed.
Lemma find_mb_in : forall m l t, find_mb m l = Some t -> In t l /\ t_mb t = m.
Proof. induction l as [|x l IH]; simpl; intros t H. discriminate.
  destruct (Nat.eqb (t_mb x) m) eqn:E. inversion H; subst. apply Nat.eqb_eq in E. auto.
  destruct (IH _ H). auto. Qed.
Lemma repl_in : forall t' l x, In x (repl t' l) -> x = t' \/ In x l.
Proof. induction l as [|y l IH]; simpl; intros x H. contradiction.
  destruct (Nat.eqb (t_mb y) (t_mb t')). simpl in H. destruct H; auto.
  simpl in H. destruct H; auto. destruct (IH _ H); auto. Qed.

Lemma RInv_repl : forall s t t', RInv s -> In t (tasks s) ->
  t_owner t' = t_owner t -> t_u t' = t_u t -> t_mb t' = t_mb t ->
  (forall v, t_res t' = Some v -> v = out (t_mb t) /\ In (t_mb t) (fin s)) ->
  RInv (set_tasks s (repl t' (tasks s))).
Proof. intros s t t' R Hin Eo Eu Em Hv. apply RInv_upd with (s := s); auto; rtriv.
  intros tk H. cbn [tasks set_tasks] in H. apply repl_in in H. destruct H as [H|H]; auto. subst. right.
  destruct (R_task R _ Hin) as [A _]. rewrite Eo, Eu, Em. split; auto. Qed.

Lemma RInv_srv_submit : forall c u s, RInv s -> RInv (srv_submit c u s).
Proof. intros c u s R. apply RInv_upd with (s := s); auto; rtriv.
  - cbn [owns Crash.srv_submit]. apply incl_tl. apply incl_refl.
  - intros tk. cbn [tasks owns fin Crash.srv_submit]. intros [H|H]; auto. subst. right. simpl. split; auto. discriminate.
Qed.
Lemma RInv_drop_client : forall c s, RInv s -> RInv (drop_client c s).
Proof. intros c s R. apply RInv_upd with (s := s); auto; rtriv.
  intros tk. cbn [tasks Crash.drop_client set_tasks set_pend]. intros H. apply filter_In in H. destruct H; auto. Qed.
Lemma RInv_client_gone : forall p c s, RInv s -> RInv (client_gone p c s).
Proof. intros. unfold Crash.client_gone. destruct attached. apply RInv_shutdown; auto. apply RInv_drop_client; auto. Qed.

Lemma RInv_srv_request : forall p c u s, RInv s -> RInv (srv_request p c u s).
Proof. intros p c u s R. unfold Crash.srv_request. destruct (find_u u (tasks s)) as [t|] eqn:F.
  - destruct (find_u_in _ _ F) as [Hin Hu].
    destruct (Nat.eqb (t_owner t) c && negb (t_deliv t)) eqn:E.
    + apply andb_true_iff in E. destruct E as [E _]. apply Nat.eqb_eq in E.
      destruct (R_task R _ Hin) as [A B].
      destruct (t_res t) as [v|] eqn:Rv.
      * apply RInv_send_down; [eapply RInv_repl; eauto; simpl; intros v0 X0; inversion X0; subst; auto|].
        intros u' v' X. inversion X; subst. destruct (B _ eq_refl). exists (t_mb t). auto.
      * eapply RInv_repl; eauto; simpl; discriminate.
    + apply RInv_client_gone. apply RInv_send_down; auto. discriminate.
  - apply RInv_client_gone. apply RInv_send_down; auto. discriminate.
Qed.
Lemma RInv_srv_status : forall p c u s, RInv s -> RInv (srv_status p c u s).
Proof. intros p c u s R. unfold Crash.srv_status. destruct (find_u u (tasks s)) as [t|].
  - destruct (_ && _). apply RInv_send_down; auto. discriminate. apply RInv_sys_error; auto.
  - apply RInv_sys_error; auto.
Qed.
Lemma RInv_srv_result : forall m v s, RInv s -> v = out m -> In m (fin s) -> RInv (srv_result m v s).
Proof. intros m v s R Hv Hf. unfold Crash.srv_result. destruct (find_mb m (tasks s)) as [t|] eqn:F; auto.
  destruct (find_mb_in _ _ F) as [Hin Hm]. destruct (t_deliv t); auto.
  destruct (R_task R _ Hin) as [A B].
  destruct (t_wait t).
  - apply RInv_send_down; [eapply RInv_repl; eauto; simpl; intros v0 X0; inversion X0; subst; auto|].
    intros u' v' X. inversion X; subst. exists (t_mb t). auto.
  - eapply RInv_repl; eauto; simpl; intros v0 X0; inversion X0; subst; auto.
Qed.

Lemma RInv_client_raise : forall c s, RInv s -> RInv (client_raise c s).
Proof. intros c s R. apply RInv_upd with (s := s); auto; rtriv.
  intros x u v. cbn [outcomes Crash.client_raise set_client set_cend]. unfold upd. destruct (Nat.eqb x c) eqn:E; auto.
  apply Nat.eqb_eq in E. subst. simpl. intros [H|H]; auto. discriminate. Qed.
Lemma RInv_client_return : forall c o s, RInv s -> (forall u v, o = OResult u v -> okres s c u v) ->
  RInv (client_return c o s).
Proof. intros c o s R Ho. apply RInv_upd with (s := s); auto; rtriv.
  intros x u v. cbn [outcomes Crash.client_return set_client]. unfold upd. destruct (Nat.eqb x c) eqn:E; auto.
  apply Nat.eqb_eq in E. subst. simpl. intros [H|H]; auto. right. apply Ho. auto. Qed.

Lemma crecv_ret : forall arr eof g m, crecv arr eof g = CRet m -> In m arr \/ g = Some m.
Proof. induction arr as [|x r IH]; simpl; intros eof g m H.
  - destruct eof; [discriminate|]. destruct g; [|discriminate]. inversion H; auto.
  - destruct x; try discriminate; apply IH in H; destruct H as [H|H]; auto; inversion H; auto.
Qed.
Lemma arrived_in : forall q o k arr eof, arrived q o k = Some (arr, eof) -> forall m, In m arr -> In m q.
Proof. unfold arrived. intros q o k arr eof H m Hm. destruct (k <=? length q).
  inversion H; subst. rewrite <- (firstn_skipn k q). apply in_or_app. auto.
  destruct (_ && _); [|discriminate]. inversion H; subst. auto. Qed.
Lemma skipn_in : forall (A : Type) k (q : list A) m, In m (skipn k q) -> In m q.
Proof. intros. rewrite <- (firstn_skipn k q). apply in_or_app. auto. Qed.
Lemma answer_res : forall r m u v, answer r m = Some (OResult u v) -> m = SResult u v.
Proof. intros r m u v H. destruct r, m; simpl in H; try discriminate. inversion H; auto. Qed.

Lemma okres_ext : forall s s' c u v, owns s' = owns s -> fin s' = fin s -> okres s c u v -> okres s' c u v.
Proof. intros s s' c u v Ho Hf [mb H]. exists mb. rewrite Ho, Hf. auto. Qed.

Lemma RInv_recv_up : forall c s s', RInv s -> recv_up c s = Some s' -> RInv s'.
Proof. intros c s s' R. unfold Crash.recv_up.
  destruct (_ && _ && _ && _); [|discriminate].
  destruct (upq s c) as [|x r] eqn:Q.
  - destruct (cend s c); [discriminate|].
    destruct (kindof (par c)); try discriminate; intros E; inversion E; subst s'; clear E.
    + destruct (is_client c).
      * apply (@RInv_client_gone (par c) c s); auto.
      * change (RInv (server_from_employee (par c) c None s)). unfold Crash.server_from_employee. destruct attached.
        apply RInv_shutdown; auto.
        apply (@RInv_shutdown (par c) (set_pend s (upd (pend s) c false))). apply RInv_set_pend; auto.
    + apply (@RInv_shutdown (par c) (set_pend s (upd (pend s) c false))). apply RInv_set_pend; auto.
  - set (s1 := set_upq s (upd (upq s) c r)). assert (R1 : RInv s1) by (eapply RInv_consume_up; eauto).
    assert (RX : forall t v, x = MResult t v -> v = out t /\ In t (fin s1)).
    { intros t v X. subst. apply (R_up R c). rewrite Q. simpl. auto. }
    destruct (kindof (par c)); try discriminate; intros E; inversion E; subst s'; clear E.
    + destruct (is_client c).
      * change (RInv (server_from_client (par c) c (Some x) s1)).
        destruct x; simpl; try (apply RInv_sys_error; auto).
        apply RInv_srv_submit; auto. apply RInv_srv_request; auto. apply RInv_srv_status; auto.
      * change (RInv (server_from_employee (par c) c (Some x) s1)).
        destruct x; simpl; auto. apply RInv_shutdown; auto.
        destruct (RX _ _ eq_refl). apply RInv_srv_result; auto. apply RInv_sys_error; auto.
    + change (RInv (mgr_from_below (par c) c (Some x) s1)).
      destruct x; simpl; auto; apply RInv_send_up; auto; try discriminate.
Qed.

Lemma RInv_recv_down : forall c k s s', RInv s -> recv_down c k s = Some s' -> RInv s'.
Proof. intros c k s s' R. unfold Crash.recv_down.
  destruct (_ && _ && _ && _); [|discriminate].
  destruct (kindof c).
  - unfold Crash.client_recv. destruct (blocked s c) as [r|]; [|discriminate].
    destruct (0 <? k); [|discriminate]. destruct (arrived _ _ _) as [[arr eof]|] eqn:A; [|discriminate].
    set (s1 := set_downq s (upd (downq s) c (skipn k (downq s c)))).
    assert (R1 : RInv s1) by (apply RInv_consume_down; auto; intros; eapply skipn_in; eauto).
    destruct (crecv arr eof None) as [| |m] eqn:CR.
    + intros E; inversion E; subst; auto.
    + intros E; inversion E; subst. apply RInv_client_raise; auto.
    + destruct (answer r m) as [o|] eqn:AN; intros E; inversion E; subst.
      * apply RInv_client_return; auto. intros u v X. subst. apply answer_res in AN. subst.
        apply crecv_ret in CR. destruct CR as [CR|CR]; [|discriminate].
        apply okres_ext with (s := s); auto. apply (R_down R c). eapply arrived_in; eauto.
      * apply RInv_client_raise; auto.
  - discriminate.
  - destruct (downq s c) as [|x r] eqn:Q.
    + destruct (pend s c); [discriminate|]. intros E; inversion E; subst.
      apply (@RInv_shutdown c (set_cend s (upd (cend s) c false))). apply RInv_set_cend; auto.
    + intros E; inversion E; subst s'; clear E.
      assert (R1 : RInv (set_downq s (upd (downq s) c r))) by (apply RInv_consume_down; auto; intros; rewrite Q; simpl; auto).
      destruct x; auto. apply (@RInv_shutdown c); auto.
  - destruct (downq s c) as [|x r] eqn:Q.
    + destruct (pend s c); [discriminate|]. intros E; inversion E; subst. apply (@RInv_die c s); auto.
    + intros E; inversion E; subst s'; clear E.
      assert (R1 : RInv (set_downq s (upd (downq s) c r))) by (apply RInv_consume_down; auto; intros; rewrite Q; simpl; auto).
      destruct x; auto. apply (@RInv_die c); auto.
Qed.

Lemma RInv_call : forall c r k s s', RInv s -> call c r k s = Some s' -> RInv s'.
Proof. intros c r k s s' R. unfold Crash.call.
  destruct (_ && _ && _ && _ && _ && _); [|discriminate].
  destruct (cend s c).
  - destruct (budget s) as [|b]; [discriminate|].
    destruct (arrived _ _ _) as [[arr eof]|]; [|discriminate].
    set (s1 := set_downq s (upd (downq s) c (skipn k (downq s c)))).
    assert (R1 : RInv s1) by (apply RInv_consume_down; auto; intros; eapply skipn_in; eauto).
    destruct (cdrain arr && negb eof).
    + assert (R2 : RInv (set_budget (send_up s1 c (req_msg r)) b)).
      { apply RInv_set_budget. apply RInv_send_up; auto. destruct r; discriminate. }
      destruct r; intros E; inversion E; subst s'; clear E.
      * apply RInv_upd with (s := client_return c (OSubmitted u) (set_budget (send_up s1 c (CSubmit u)) b)); auto; rtriv.
        apply RInv_client_return; auto. discriminate.
      * apply RInv_upd with (s := set_budget (send_up s1 c (CRequest u)) b); auto; rtriv.
      * apply RInv_upd with (s := set_budget (send_up s1 c (CStatus u)) b); auto; rtriv.
    + intros E; inversion E; subst. apply RInv_client_raise; auto.
  - intros E; inversion E; subst. apply RInv_client_raise; auto.
Qed.

Lemma RInv_step : forall s e s', RInv s -> step s e = Some s' -> RInv s'.
Proof. intros s e s' R H. destruct e as [n|up c k|c r k|w t|up c tag|w]; simpl in H.
  6: { destruct (_ && _ && _); [|discriminate]. inversion H; subst. apply RInv_die. apply RInv_send_up; auto. discriminate. }
  - destruct (_ && _); [|discriminate]. inversion H; subst. apply RInv_die; auto.
  - destruct up. eapply RInv_recv_up; eauto. eapply RInv_recv_down; eauto.
  - eapply RInv_call; eauto.
  - destruct (budget s); [discriminate|]. destruct (_ && _ && _ && _); [|discriminate]. inversion H; subst.
    apply RInv_upd with (s := s); auto; rtriv.
    + cbn [fin]. apply incl_tl. apply incl_refl.
    + intros c t0 v. cbn [upq fin send_up set_upq]. destruct (_ && _); auto. intros X. apply in_app_single in X.
      destruct X as [X|X]; auto. inversion X; subst. right. simpl. auto.
  - destruct (budget s); [destruct up; discriminate|]. destruct up.
    + destruct (_ && _ && _ && _ && _); [|discriminate]. inversion H; subst. apply RInv_set_budget. apply RInv_send_up; auto. discriminate.
    + destruct (_ && _ && _ && _); [|discriminate]. inversion H; subst. apply RInv_set_budget. apply RInv_send_down; auto. discriminate.
Qed.

Lemma RInv_init : forall b, RInv (init b).
Proof. intros b. constructor; simpl; intros; contradiction. Qed.

Lemma reach_RInv : forall s, reach s -> RInv s.
Proof. intros s R. induction R. apply RInv_init. eapply RInv_step; eauto. Qed.

(* ====================================================================================== *)
(* dead stays dead *)
Definition ale (s' s : state) : Prop := forall x, alive s' x = true -> alive s x = true.
Lemma ale_refl : forall s, ale s s. Proof. unfold ale; auto. Qed.
Lemma ale_trans : forall s3 s2 s1, ale s3 s2 -> ale s2 s1 -> ale s3 s1. Proof. unfold ale; auto. Qed.
Lemma ale_same : forall s' s, (forall x, alive s' x = alive s x) -> ale s' s.
Proof. unfold ale; intros. rewrite <- H; auto. Qed.
Lemma ale_shutdown : forall p s, ale (shutdown p s) s.
Proof. intros p s x. cbn [Crash.shutdown alive set_downq set_pend send_up set_upq set_cend set_alive]. unfold upd.
  destruct (Nat.eqb x p); auto. discriminate. Qed.
Lemma ale_die : forall p s, ale (die p s) s.
Proof. intros p s x. cbn [Crash.die alive set_pend set_cend set_alive]. unfold upd.
  destruct (Nat.eqb x p); auto. discriminate. Qed.
Lemma ale_sys_error : forall p s, ale (sys_error p s) s.
Proof. intros. unfold Crash.sys_error. eapply ale_trans. apply ale_shutdown. apply ale_same. reflexivity. Qed.
Lemma ale_client_gone : forall p c s, ale (client_gone p c s) s.
Proof. intros. unfold Crash.client_gone. destruct attached. apply ale_shutdown. apply ale_same. reflexivity. Qed.
#[local] Hint Resolve ale_refl ale_shutdown ale_die ale_sys_error ale_client_gone : ale.

Lemma ale_srv_request : forall p c u s, ale (srv_request p c u s) s.
Proof. intros. unfold Crash.srv_request. destruct (find_u u (tasks s)); [destruct (_ && _); [destruct (t_res t)|]|];
  try (apply ale_same; reflexivity); (eapply ale_trans; [apply ale_client_gone| apply ale_same; reflexivity]). Qed.
Lemma ale_srv_status : forall p c u s, ale (srv_status p c u s) s.
Proof. intros. unfold Crash.srv_status. destruct (find_u u (tasks s)); [destruct (_ && _)|]; auto with ale. apply ale_same; reflexivity. Qed.
Lemma ale_srv_result : forall m v s, ale (srv_result m v s) s.
Proof. intros. unfold Crash.srv_result. destruct (find_mb m (tasks s)); [destruct (t_deliv t); [|destruct (t_wait t)]|];
  auto with ale; apply ale_same; reflexivity. Qed.

Lemma ale_recv_up : forall c s s', recv_up c s = Some s' -> ale s' s.
Proof. intros c s s'. unfold Crash.recv_up. destruct (_ && _ && _ && _); [|discriminate].
  destruct (upq s c) as [|x r].
  - destruct (cend s c); [discriminate|].
    destruct (kindof (par c)); try discriminate; intros E; inversion E; subst s'; clear E.
    + destruct (is_client c). apply ale_client_gone.
      change (ale (server_from_employee (par c) c None s) s). unfold Crash.server_from_employee. destruct attached.
      apply ale_shutdown. eapply ale_trans. apply ale_shutdown. apply ale_same; reflexivity.
    + eapply ale_trans. apply ale_shutdown. apply ale_same; reflexivity.
  - set (s1 := set_upq s (upd (upq s) c r)).
    destruct (kindof (par c)); try discriminate; intros E; inversion E; subst s'; clear E.
    + destruct (is_client c).
      * change (ale (server_from_client (par c) c (Some x) s1) s).
        destruct x; simpl; try (apply (@ale_sys_error (par c) s1)); try (apply ale_same; reflexivity).
        apply (@ale_srv_request (par c) c u s1). apply (@ale_srv_status (par c) c u s1).
      * change (ale (server_from_employee (par c) c (Some x) s1) s).
        destruct x; simpl; try (apply ale_same; reflexivity).
        apply (@ale_shutdown (par c) s1). apply (@ale_srv_result t v s1). apply (@ale_sys_error (par c) s1).
    + change (ale (mgr_from_below (par c) c (Some x) s1) s). destruct x; simpl; apply ale_same; reflexivity.
Qed.

Lemma ale_recv_down : forall c k s s', recv_down c k s = Some s' -> ale s' s.
Proof. intros c k s s'. unfold Crash.recv_down. destruct (_ && _ && _ && _); [|discriminate].
  destruct (kindof c).
  - unfold Crash.client_recv. destruct (blocked s c) as [r|]; [|discriminate].
    destruct (0 <? k); [|discriminate]. destruct (arrived _ _ _) as [[arr eof]|]; [|discriminate].
    destruct (crecv arr eof None); [| |destruct (answer r m)]; intros E; inversion E; subst; apply ale_same; reflexivity.
  - discriminate.
  - destruct (downq s c) as [|x r].
    + destruct (pend s c); [discriminate|]. intros E; inversion E; subst.
      eapply ale_trans. apply (@ale_shutdown c (set_cend s (upd (cend s) c false))). apply ale_same; reflexivity.
    + intros E; inversion E; subst. destruct x; try (apply ale_same; reflexivity).
      apply (@ale_shutdown c (set_downq s (upd (downq s) c r))).
  - destruct (downq s c) as [|x r].
    + destruct (pend s c); [discriminate|]. intros E; inversion E; subst. apply ale_die.
    + intros E; inversion E; subst. destruct x; try (apply ale_same; reflexivity).
      apply (@ale_die c (set_downq s (upd (downq s) c r))).
Qed.

Lemma ale_step : forall s e s', step s e = Some s' -> ale s' s.
Proof. intros s e s' H. destruct e as [n|up c k|c r k|w t|up c tag|w]; simpl in H.
  6: { destruct (_ && _ && _); [|discriminate]. inversion H; subst. eapply ale_trans. apply ale_die. apply ale_same; reflexivity. }
  - destruct (_ && _); [|discriminate]. inversion H; subst. apply ale_die.
  - destruct up. eapply ale_recv_up; eauto. eapply ale_recv_down; eauto.
  - unfold Crash.call in H. destruct (_ && _ && _ && _ && _ && _); [|discriminate].
    destruct (cend s c).
    + destruct (budget s); [discriminate|]. destruct (arrived _ _ _) as [[arr eof]|]; [|discriminate].
      destruct (cdrain arr && negb eof); [destruct r|]; inversion H; subst; apply ale_same; reflexivity.
    + inversion H; subst; apply ale_same; reflexivity.
  - destruct (budget s); [discriminate|]. destruct (_ && _ && _ && _); [|discriminate]. inversion H; subst. apply ale_same; reflexivity.
  - destruct (budget s); [destruct up; discriminate|]. destruct up.
    + destruct (_ && _ && _ && _ && _); [|discriminate]. inversion H; subst. apply ale_same; reflexivity.
    + destruct (_ && _ && _ && _); [|discriminate]. inversion H; subst. apply ale_same; reflexivity.
Qed.

Lemma ale_run : forall es s s', run s es = Some s' -> ale s' s.
Proof. induction es as [|e es IH]; simpl; intros s s' H. inversion H; subst. apply ale_refl.
  destruct (step s e) as [s1|] eqn:E; [|discriminate]. eapply ale_trans. eapply IH; eauto. eapply ale_step; eauto. Qed.

Lemma dead_stays : forall es s s' d, run s es = Some s' -> alive s d = false -> alive s' d = false.
Proof. intros. destruct (alive s' d) eqn:E; auto. apply (ale_run _ _ H) in E. congruence. Qed.

Lemma any_below_true : forall n f, any_below n f = true -> exists i, i < n /\ f i = true.
Proof. induction n; simpl; intros. discriminate. apply orb_true_iff in H. destruct H.
  exists n. auto. destruct (IHn _ H) as [i [A B]]. exists i. auto. Qed.

Lemma not_quiescent : forall s, quiescent s = false -> exists up c k s', step s (ERecv up c k) = Some s'.
Proof. unfold Crash.quiescent. intros s H. apply negb_false_iff in H. apply any_below_true in H.
  destruct H as [c [_ H]]. unfold Crash.recv_enabled in H.
  destruct (recv_up c s) as [s'|] eqn:E. exists true, c, 0, s'. simpl. auto.
  destruct (recv_down c 1 s) as [s'|] eqn:E2; [|discriminate]. exists false, c, 1, s'. simpl. auto. Qed.

(* ---- the three C14 theorems ------------------------------------------------------------------ *)
Theorem crash_propagates : wf_topo = true -> forall s n e0 s1,
  reach s -> (e0 = ECrash n \/ e0 = EFail n) -> step s e0 = Some s1 ->
  forall es s2, run s1 es = Some s2 ->
    count_recv es + variant s2 <= variant s1 /\
    (quiescent s2 = true -> all_down s2 = true) /\
    (quiescent s2 = false -> exists up c k s3, step s2 (ERecv up c k) = Some s3).
Proof. intros WF s n e0 s1 R G C es s2 RUN.
  assert (R1 : reach s1) by (apply reach_step with (s := s) (e := e0); auto).
  assert (R2 : reach s2) by (eapply reach_run; eauto).
  split. apply run_variant; auto. split; [|apply not_quiescent].
  intros Q. apply progress; auto. apply reach_Inv; auto.
  exists n. destruct G as [G|G]; subst e0; simpl in C.
  - destruct (crashable T n && alive s n) eqn:E; [|discriminate]. inversion C; subst s1.
    apply andb_true_iff in E. destruct E as [E _]. unfold crashable in E. apply andb_true_iff in E. destruct E as [E1 E2].
    apply Nat.ltb_lt in E1. split; auto. split.
    unfold Crash.is_client. destruct (kindof n); auto; discriminate.
    eapply dead_stays; eauto. cbn [Crash.die alive set_alive set_cend set_pend]. apply upd_eq.
  - destruct (_ && _ && _) eqn:E; [|discriminate]. inversion C; subst s1.
    apply andb_true_iff in E. destruct E as [E _]. apply andb_true_iff in E. destruct E as [E1 E2].
    apply Nat.ltb_lt in E1. split; auto. split.
    unfold Crash.is_client. destruct (kindof n); auto; discriminate.
    eapply dead_stays; eauto. cbn [Crash.die alive set_alive set_cend set_pend send_up set_upq]. apply upd_eq.
Qed.

Definition is_answer (o : outcome) : Prop :=
  o = ORaised \/ (exists u v, o = OResult u v) \/ (exists u d, o = OStatus u d).

Theorem client_raises : wf_topo = true -> forall s, reach s -> alive s 0 = false ->
  forall c, c < N -> is_client c = true ->
    (blocked s c <> None -> recv_down c 1 s <> None) /\
    (forall k s', recv_down c k s = Some s' -> blocked s' c = None ->
       exists o, outcomes s' c = o :: outcomes s c /\ is_answer o) /\
    (forall s', recv_down c (S (length (downq s c))) s = Some s' ->
       blocked s' c = None /\ cend s' c = false /\ outcomes s' c = ORaised :: outcomes s c) /\
    (quiescent s = true -> blocked s c = None).
Proof. intros WF s R S0 c CN Hcl. pose proof (reach_Inv WF R) as I.
  pose proof (client_kind _ Hcl) as K. destruct (wf_client_par WF CN K) as [P C0].
  assert (Hp : pend s c = false).
  { destruct (I_dead I _ S0) as [_ X]. apply X. rewrite <- P. apply is_child_intro; auto. }
  assert (En : blocked s c <> None -> recv_down c 1 s <> None).
  { intros Hb. destruct (I_blk I _ Hb) as [_ Hce]. apply recv_down_enabled_client; auto. eapply I_cli; eauto. }
  split; auto. split; [|split].
  - intros k s'. unfold Crash.recv_down. destruct (_ && _ && _ && _); [|discriminate]. rewrite K.
    unfold Crash.client_recv. destruct (blocked s c) as [r|] eqn:B; [|discriminate].
    destruct (0 <? k); [|discriminate]. destruct (arrived _ _ _) as [[arr eof]|]; [|discriminate].
    destruct (crecv arr eof None) as [| |m]; [| |destruct (answer r m) as [o|] eqn:A]; intros E; inversion E; subst; clear E;
      cbn [blocked outcomes Crash.client_raise Crash.client_return set_client set_cend set_downq]; unfold upd; rewrite ?Nat.eqb_refl.
    + rewrite B. discriminate.
    + intros _. exists ORaised. split; auto. left; auto.
    + intros _. exists o. split; auto. destruct r, m; simpl in A; try discriminate; inversion A; subst; unfold is_answer; eauto.
    + intros _. exists ORaised. split; auto. left; auto.
  - intros s'. unfold Crash.recv_down. destruct (_ && _ && _ && _); [|discriminate]. rewrite K.
    unfold Crash.client_recv. destruct (blocked s c) as [r|] eqn:B; [|discriminate]. simpl.
    unfold arrived. destruct (S (length (downq s c)) <=? length (downq s c)) eqn:L. apply Nat.leb_le in L. lia.
    rewrite Nat.eqb_refl, Hp. simpl. rewrite crecv_eof. intros E; inversion E; subst.
    cbn [blocked outcomes cend Crash.client_raise set_client set_cend set_downq]. unfold upd. rewrite !Nat.eqb_refl. auto.
  - intros Q. destruct (blocked s c) eqn:B; auto. exfalso. apply En. congruence.
    apply (quiescent_spec _ Q CN).
Qed.

Theorem no_partial_result : forall s, reach s -> forall c u v, In (OResult u v) (outcomes s c) ->
  exists mb, In (c, u, mb) (owns s) /\ v = out mb /\ In mb (fin s).
Proof. intros s R c u v H. apply (R_out (reach_RInv R) _ _ _ H). Qed.
End Thm.
