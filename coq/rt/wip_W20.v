From Coq Require Import List Arith Bool PeanoNat Lia Permutation.
Import ListNotations.
From BQ Require Import rt.WorkerM rt.wip_W1 rt.wip_W2 rt.wip_W3 rt.wip_W4 rt.wip_W5 rt.wip_W6 rt.wip_W7 rt.wip_W8 rt.wip_W9 rt.wip_W10 rt.wip_W11 rt.wip_W12 rt.wip_W13 rt.wip_W14 rt.wip_W15 rt.wip_W16 rt.wip_W17 rt.wip_W18 rt.wip_W19.

Lemma winvD_dequeue : forall w a q, winvD w -> w_ready w = a :: q ->
  winvD (set_ready w q) /\ qcnt a (set_ready w q) + armed a (set_ready w q) = 0 /\ steppable (set_ready w q) a.
Proof.
  intros w a q [K1 K2 K3 K4 K5 K6] Hr.
  assert (Hq : forall x, qcnt x w = (if addr_eqb x a then 1 else 0) + cnt x q) by (intro x; unfold qcnt; rewrite Hr, cnt_cons; reflexivity).
  split; [|split].
  - constructor; simpl; auto.
    + intro x. specialize (K2 x). rewrite Hq in K2. unfold qcnt, armed in *. simpl. lia.
    + intros x Hx. apply K3. rewrite Hq. unfold qcnt, armed in *. simpl in Hx. lia.
    + intros x Hx. apply (K4 x). rewrite Hr. right. exact Hx.
  - specialize (K2 a). rewrite Hq, addr_eqb_refl in K2. unfold qcnt, armed in *. simpl. lia.
  - apply (K4 a). rewrite Hr. left. reflexivity.
Qed.

Lemma main_step_D : forall w w', winvV w -> winvC w -> winvD w -> dep1 w -> own_ok w ->
  (forall t, In t (w_delayed w) -> is_new t /\ task_get (t_addr t) (w_tasks w) = None) ->
  (forall t, In t (w_tasks w) -> own_fresh w (t_addr t)) ->
  main_step true w = Some w' -> w_oos w' = true \/ winvD w'.
Proof.
  intros w w' IV IC ID Dp Hown Hdel Hfresh H. unfold main_step in H.
  pose proof (D_pc w ID) as Hpc.
  destruct (w_pc w) eqn:Epc; simpl in Hpc; try tauto.
  - right. destruct (w_ready w); [destruct (w_delayed w)|]; injection H as <-; (apply winvD_set_pc; [exact Logic.I|exact ID]).
  - right. destruct (last_opt (w_delayed w)) as [tl|] eqn:El; injection H as <-.
    + pose proof (last_opt_removelast _ _ _ El) as Hsplit.
      assert (Hin : In tl (w_delayed w)) by (rewrite Hsplit; apply in_or_app; right; left; reflexivity).
      destruct (Hdel tl Hin) as [Hn Habs].
      apply winvD_set_pc; [exact Logic.I|]. apply winvD_add_task.
      * eapply winvD_same; [| | | | |exact ID]; reflexivity.
      * exact Habs.
      * rewrite Hn. reflexivity.
    + unfold fatal. apply winvD_set_pc; [exact Logic.I|].
      eapply winvD_same; [| | | | |apply (winvD_errs w EPopEmpty ID)]; try reflexivity; discriminate.
  - destruct (w_ready w) as [|a q] eqn:Er; injection H as <-.
    + right. apply winvD_set_pc; [exact Logic.I|]. eapply winvD_same; [| | | | |exact ID]; reflexivity.
    + destruct (winvD_dequeue w a q ID Er) as (I1 & Z1 & S1).
      apply dispatch_D; auto.
      * eapply winvV_same; [| | | | |exact IV]; reflexivity.
      * eapply winvC_same; [| | | |exact IC]; reflexivity.
      * intros t Ht. simpl in Ht. pose proof (task_get_Some _ _ _ Ht) as [Hta Hin]. rewrite <- Hta. apply (Hfresh t Hin).
  - destruct (w_ready w) as [|a q] eqn:Er; [discriminate|]. injection H as <-.
    destruct (winvD_dequeue w a q ID Er) as (I1 & Z1 & S1).
    apply dispatch_D; auto.
    + eapply winvV_same; [| | | | |exact IV]; reflexivity.
    + eapply winvC_same; [| | | |exact IC]; reflexivity.
    + intros t Ht. simpl in Ht. pose proof (task_get_Some _ _ _ Ht) as [Hta Hin]. rewrite <- Hta. apply (Hfresh t Hin).
  - discriminate.
Qed.

Lemma recv_step_D : forall w m, winvV w -> winvC w -> winvD w -> dep1 w -> w_rdead w = false ->
  (forall t, In t (msg_tasks m) -> is_new t /\ task_get (t_addr t) (w_tasks w) = None) ->
  (forall p, In p (msg_res m) -> a_w (fst p) = me w -> lexp w (fst p) (snd p)) ->
  (forall p, In p (msg_res m) -> own_fresh w (fst p)) ->
  w_oos (recv_step w m) = true \/ winvD (recv_step w m).
Proof.
  intros w m IV IC ID Dp Hd Htasks Hres Hfr. unfold recv_step. rewrite Hd.
  destruct m as [t|ts|a v c|r| |c| |a]; try (right; exact ID); try (left; reflexivity).
  - right. destruct (Htasks t (or_introl eq_refl)) as [Hn Habs]. apply winvD_add_task; auto.
    + eapply winvD_same; [| | | | |exact ID]; reflexivity.
    + rewrite Hn. reflexivity.
  - right. destruct ts as [|t0 r].
    { eapply winvD_same; [| | | | |apply (winvD_errs w EEmptyBatch ID)]; try reflexivity; discriminate. }
    destruct (last_opt (t0 :: r)) as [tl|] eqn:El; [|apply last_opt_None in El; discriminate].
    pose proof (last_opt_removelast _ _ _ El) as Hsplit.
    assert (Hin : In tl (t0 :: r)) by (rewrite Hsplit; apply in_or_app; right; left; reflexivity).
    destruct (Htasks tl Hin) as [Hn Habs].
    eapply winvD_same; [| | | | |apply (winvD_add_task (set_recent w (Some (t_addr t0))) tl)]; try reflexivity.
    + eapply winvD_same; [| | | | |exact ID]; reflexivity.
    + exact Habs.
    + rewrite Hn. reflexivity.
  - right. destruct (handle_result w a v) as [w1 ok] eqn:Eh.
    assert (L : a_w a = me w -> lexp w a v) by (intro E; apply (Hres (a, v)); simpl; auto).
    assert (F : own_fresh w a) by (apply (Hfr (a, v)); simpl; auto).
    destruct (handle_result_D _ _ _ _ _ IV IC ID Dp L F Eh) as (I1 & _).
    destruct ok; [exact I1|eapply winvD_same; [| | | | |exact I1]; reflexivity].
Qed.

Lemma resB_le1 : forall s, invA s -> invB s -> forall a, n_resB a s <= 1 /\ n_resB a s + n_running a s <= 1 + n_stuck a s.
Proof.
  intros s IA IB a.
  assert (H2 : n_stuck a s <= n_running a s).
  { unfold n_stuck, n_running. apply sumf_le. intros w Hw. destruct (B_stuck s IB w Hw) as [J _]. apply J. }
  pose proof (B_cons s IB a) as C.
  pose proof (A_cons s IA a) as CA. pose proof (A_uniq s IA a) as U. pose proof (n_running_le a s) as L.
  unfold n_task in CA. split; lia.
Qed.

Lemma fresh_incoming : forall s i w q p, invA s -> invB s -> nth_error (s_workers s) i = Some w ->
  In q (s_down s) -> In p (chan_res q) -> cnt (fst p) (w_deposited w) = 0.
Proof.
  intros s i w q p IA IB Hw Hq Hp. destruct (resB_le1 s IA IB (fst p)) as [R _]. unfold n_resB in R.
  assert (G1 : rcnt (fst p) (chan_res q) <= rdcnt (fst p) (s_down s)) by (apply (sumf_ge _ (fun q => rcnt (fst p) (chan_res q))); auto).
  assert (G2 : rcnt (fst p) (chan_res q) >= 1) by (unfold rcnt; apply cnt_pos_in; apply in_map; auto).
  pose proof (sumf_ge _ (w_resB (fst p)) _ _ (nth_error_In _ _ Hw)) as G3.
  assert (cnt (fst p) (w_deposited w) <= w_resB (fst p) w) by (unfold w_resB; lia). lia.
Qed.

Lemma sumf_two : forall A (f : A -> nat) l i j x y, i <> j -> nth_error l i = Some x -> nth_error l j = Some y ->
  f x + f y <= sumf f l.
Proof. induction l as [|z r IH]; intros i j x y Hne Hi Hj; [destruct i; discriminate|].
  destruct i, j; simpl in *; try congruence.
  - injection Hi as ->. pose proof (sumf_ge _ f _ _ (nth_error_In _ _ Hj)). lia.
  - injection Hj as ->. pose proof (sumf_ge _ f _ _ (nth_error_In _ _ Hi)). lia.
  - assert (i <> j) by lia. specialize (IH i j x y H Hi Hj). lia. Qed.

Lemma fresh_running : forall s i w t, invA s -> invB s -> nth_error (s_workers s) i = Some w ->
  In t (w_tasks w) -> w_pc w <> PDead -> cnt (t_addr t) (w_deposited w) = 0.
Proof.
  intros s i w t IA IB Hw Ht Hpc. set (a := t_addr t).
  destruct (resB_le1 s IA IB a) as [_ R].
  pose proof (nth_error_In _ _ Hw) as Hwin.
  assert (Hrun : tcnt a (w_tasks w) >= 1) by (unfold tcnt; apply cnt_pos_in; apply in_map; auto).
  assert (Hstuck : n_stuck a s = 0).
  { unfold n_stuck. apply sumf_zero. intros w' Hw'. destruct (B_stuck s IB w' Hw') as [J1 J2].
    apply In_nth_error in Hw'. destruct Hw' as [j Hj]. destruct (Nat.eq_dec j i).
    - subst j. assert (w' = w) by congruence. subst w'. destruct (w_stuck w) eqn:E; [reflexivity|]. exfalso. apply Hpc. apply J2. congruence.
    - specialize (J1 a).
      assert (tcnt a (w_tasks w') = 0); [|lia].
      pose proof (A_cons s IA a) as CA. pose proof (A_uniq s IA a) as U. unfold n_task in CA.
      assert (Hsum : tcnt a (w_held w) + tcnt a (w_held w') <= sumf (fun w => tcnt a (w_held w)) (s_workers s)).
      { apply (sumf_two _ (fun w => tcnt a (w_held w)) (s_workers s) i j w w'); auto. }
      pose proof (tasks_le_held a w) as T1. pose proof (tasks_le_held a w') as T2. lia. }
  pose proof (sumf_ge _ (fun w => tcnt a (w_tasks w)) _ _ Hwin) as G1. fold (n_running a s) in G1. simpl in G1.
  unfold n_resB in R. pose proof (sumf_ge _ (w_resB a) _ _ Hwin) as G3.
  assert (cnt a (w_deposited w) <= w_resB a w) by (unfold w_resB; lia). lia.
Qed.

Definition invD (s : sys) : Prop := forall w, In w (s_workers s) -> w_oos w = true \/ winvD w.

Lemma invD_init : forall k, invD (sys0 k).
Proof. intros k w Hw. simpl in Hw. apply in_map_iff in Hw. destruct Hw as (j & <- & _). right. apply winvD_w0. Qed.

Lemma step_invD : forall s e s', invA s -> invV s -> invB s -> invC s -> invD s -> step true s e = Some s' -> invD s'.
Proof.
  intros s e s' IA IV IB IC ID H. destruct e as [sc target|i|i|i asg]; simpl in H.
  - destruct (Nat.ltb target (length (s_workers s))); [|discriminate]. injection H as <-. exact ID.
  - destruct (nth_error (s_workers s) i) as [w|] eqn:Ew; [|discriminate].
    destruct (nth_error (s_down s) i) as [[|m q]|] eqn:Ed; try discriminate.
    destruct (w_rdead w) eqn:Erd; [discriminate|]. injection H as <-.
    pose proof (nth_error_In _ _ Ew) as Hwin. pose proof (nth_error_In _ _ Ed) as Hqin.
    intros w' Hw'. simpl in Hw'. apply In_set_nth in Hw'. destruct Hw' as [->|Hw']; [|apply ID; auto].
    destruct (ID w Hwin) as [Ho|IDw]; [left; apply recv_step_oos; exact Ho|].
    assert (Hmt : forall t, In t (msg_tasks m) -> In t (chan_tasks (m :: q))) by (intros; rewrite chan_tasks_cons; apply in_or_app; auto).
    assert (Hmr : forall p, In p (msg_res m) -> In p (chan_res (m :: q))) by (intros; unfold chan_res; simpl; apply in_or_app; auto).
    apply recv_step_D; auto.
    + apply (VG_w s IV w Hwin).
    + eapply dep1_worker; eauto.
    + intros t Ht. split; [apply (VG_down s IV _ _ Hqin (Hmt t Ht))|].
      eapply absent_from_uniq; eauto. left.
      assert (G1 : tcnt (t_addr t) (chan_tasks (m :: q)) <= dcnt (t_addr t) (s_down s)).
      { apply (sumf_ge _ (fun q => tcnt (t_addr t) (chan_tasks q))). auto. }
      assert (G2 : tcnt (t_addr t) (chan_tasks (m :: q)) >= 1) by (unfold tcnt; apply cnt_pos_in; apply in_map; auto). lia.
    + intros p Hp Hme. destruct (VG_res_down s IV _ _ Hqin (Hmr p Hp)) as (_ & Ex). unfold expect_ok in Ex.
      rewrite Hme in Ex. unfold me in Ex. rewrite (A_ids s IA i w Ew) in Ex. apply Ex. auto.
    + intros p Hp _ _. eapply fresh_incoming; eauto.
  - destruct (nth_error (s_workers s) i) as [w|] eqn:Ew; [|discriminate].
    destruct (main_step true w) as [w'|] eqn:Em; [|discriminate]. injection H as <-.
    pose proof (nth_error_In _ _ Ew) as Hwin.
    intros w0 Hw0. simpl in Hw0. apply In_set_nth in Hw0. destruct Hw0 as [->|Hw0]; [|apply ID; auto].
    destruct (ID w Hwin) as [Ho|IDw]; [left; eapply main_step_oos; eauto|].
    eapply main_step_D; [apply (VG_w s IV w Hwin)|apply IC; auto|exact IDw|eapply dep1_worker; eauto| | | |exact Em].
    + intros t Ht Hme. destruct (VG_held s IV w t Hwin) as (G & Ex).
      { unfold w_held. apply in_or_app. right. apply in_or_app. auto. }
      unfold expect_ok, good_addr in *. rewrite Hme in *. unfold me in *. rewrite (A_ids s IA i w Ew) in *.
      split; [apply Ex; auto|]. destruct G as (wx & Hwx & Hlt). congruence.
    + intros t Ht. split; [apply (VG_new s IV w); auto; apply in_or_app; auto|].
      eapply absent_from_uniq; eauto. right. unfold tcnt. apply cnt_pos_in. apply in_map. auto.
    + intros t Ht _ _. eapply fresh_running; eauto.
      intro E. unfold main_step in Em. rewrite E in Em. discriminate.
  - destruct (nth_error (s_workers s) i) as [w|] eqn:Ew; [|discriminate].
    destruct (w_out w) as [|m q] eqn:Eo; [discriminate|].
    pose proof (nth_error_In _ _ Ew) as Hwin.
    assert (G : forall d cl er ft, invD (mkSys (set_nth i (set_out w q) (s_workers s)) d cl er (s_nbox s) ft (s_roots s))).
    { intros d cl er ft w' Hw'. simpl in Hw'. apply In_set_nth in Hw'. destruct Hw' as [->|Hw']; [|apply ID; auto].
      destruct (ID w Hwin) as [Ho|IDw]; [left; exact Ho|right]. eapply winvD_same; [| | | | |exact IDw]; reflexivity. }
    unfold server_msg in H. cbn [s_workers set_workers s_down s_client s_errors s_nbox s_fatal s_roots] in H.
    destruct m as [t|ts|a v c|r| |c| |a].
    + destruct (valid_asg _ 1 asg); [|discriminate]. injection H as <-. apply G.
    + destruct (valid_asg _ (length ts) asg); [|discriminate]. injection H as <-. apply G.
    + destruct (a_w a) as [|j]; [injection H as <-; apply G|].
      destruct (Nat.ltb j _); injection H as <-; apply G.
    + injection H as <-. apply G.
    + injection H as <-. apply G.
    + injection H as <-. apply G.
    + injection H as <-. apply G.
    + injection H as <-. apply G.
Qed.

Lemma steps_inv5 : forall es s s', invA s /\ invV s /\ invB s /\ invC s /\ invD s -> steps true s es = Some s' ->
  invA s' /\ invV s' /\ invB s' /\ invC s' /\ invD s'.
Proof. induction es as [|e r IH]; simpl; intros s s' (IA & IV & IB & IC & ID) H.
  - injection H as <-. auto.
  - destruct (step true s e) as [s1|] eqn:E; [|discriminate]. apply (IH s1); auto.
    split; [eapply step_invA; eauto|]. split; [eapply step_invV; eauto|]. split; [eapply step_invB; eauto|].
    split; [eapply step_invC; eauto|eapply step_invD; eauto]. Qed.

(* ---- wake-once for the worker with atomic await registration ---- *)
Theorem wake_once_atomic : forall k s, reachable true k s ->
  forall w, In w (s_workers s) -> w_oos w = false ->
    NoDup (w_ready w) /\
    (forall a, In a (w_ready w) -> steppable w a) /\
    (forall e, In e (w_errs w) -> e <> EAssertReady /\ e <> EAssertFresh).
Proof.
  intros k s [es H] w Hw Ho.
  assert (I : invA s /\ invV s /\ invB s /\ invC s /\ invD s).
  { eapply steps_inv5; [|exact H]. split; [apply invA_init|]. split; [apply invV_init|]. split; [apply invB_init|].
    split; [apply invC_init|apply invD_init]. }
  destruct I as (_ & _ & _ & _ & ID). destruct (ID w Hw) as [Ho'|IDw]; [congruence|].
  split; [|split].
  - apply cnt_le1_NoDup. intro a. pose proof (D_one w IDw a). unfold qcnt in H0. lia.
  - apply (D_step w IDw).
  - apply (D_err w IDw).
Qed.
