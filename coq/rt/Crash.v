(* C14 - executable event system for "a crashed worker or manager unblocks every
   waiting client".  No proofs here (they are in CrashThm.v): this file must keep
   compiling and extracting when a proof breaks.

   Nodes 0..N-1 form a tree given by [T : list (kind * nat)] (kind, parent index);
   node 0 is the server, every other node's parent has a smaller index.  The link of
   node c to its parent is named c and has one FIFO per direction ([upq c]: c -> parent,
   [downq c]: parent -> c) and one endpoint per side ([cend c]: the child's
   Connection object is open, [pend c]: the parent's is).  A closed or dead sender is
   seen by the receiver as EOF once the FIFO has been drained (what was already sent
   is still delivered): event [ERecv] on an empty FIFO whose sender side is closed.

   Code -> model (statement level: which messages are sent to whom, which
   connections are closed, who stops running):
     ServerBase.run loop, recv / EOFError branch .......... [recv_up] / [recv_down]
     ServerBase.handle_disconnect ........................... [boss_disconnect]
     ServerBase.handle_shutdown + Manager/DetachedServer.handle_shutdown .. [shutdown]
     DetachedServer.handle_system_error + handle_error(str) . [sys_error]
     AttachedServer.handle_disconnect ........................ [attached] flag in [server_client_eof]
     Manager.handle_message (BELOW: "forward all other messages up") . [mgr_from_below]
     Worker.recv_incoming (SHUTDOWN / lost connection => SIGKILL self)  [worker_from_above]
     Manager.handle_disconnect (lost boss => handle_shutdown) .. [mgr_from_above]
     DetachedServer.handle_new_comp_task/handle_request/handle_status/handle_result . [srv_*]
     Compiler._send/_send_recv/_recv_handle_log_error/_recv_log_error_until_empty . [call], [crecv], [cdrain]
   Ordinary traffic (SUBMIT_BATCH, WAITING, UPDATE, LOG, CANCEL, worker-to-worker
   RESULT ...) is abstract: [MOrd tag], emitted by any live node on any of its open
   endpoints ([EEmit], an over-approximation of every forwarding rule) and consumed
   by its receiver.  [budget] bounds the number of such spontaneous sends that are
   still to come; the theorems hold for every budget. *)
From Coq Require Import List Arith Bool PeanoNat.
Import ListNotations.

Inductive kind := KClient | KServer | KManager | KWorker.

Inductive msg :=
| MShutdown                       (* RuntimeMessage.SHUTDOWN *)
| MOrd (tag : nat)                (* ordinary runtime traffic / LOG *)
| MResult (t v : nat)             (* RESULT for the client mailbox t (return address worker_id = -1) *)
| MSysErr                         (* ERROR with a str payload: runtime (not task) error *)
| CSubmit (u : nat) | CRequest (u : nat) | CStatus (u : nat)      (* client -> server *)
| SResult (u v : nat) | SStatus (u : nat) (d : bool) | SError.    (* server -> client *)

Inductive creq := RSubmit (u : nat) | RResult (u : nat) | RStatus (u : nat).
Inductive outcome := OSubmitted (u : nat) | OResult (u v : nat) | OStatus (u : nat) (d : bool) | ORaised.

(* DetachedServer.tasks / mailboxes / clients[conn] / mailbox_to_task_dict, one record per compilation task *)
Record task := { t_u : nat; t_mb : nat; t_owner : nat; t_res : option nat; t_wait : bool; t_deliv : bool }.

Record state := {
  alive : nat -> bool;            (* process exists (for a boss: running flag) *)
  cend : nat -> bool;             (* child-side endpoint of link c open *)
  pend : nat -> bool;             (* parent-side endpoint of link c open *)
  upq : nat -> list msg;
  downq : nat -> list msg;
  tasks : list task;              (* server tables, newest first *)
  ctr : nat;                      (* mailbox_counter *)
  blocked : nat -> option creq;   (* client is inside _send_recv waiting for its answer *)
  outcomes : nat -> list outcome; (* returned client calls, newest first *)
  fin : list nat;                 (* ghost: root tasks whose Return has happened *)
  owns : list (nat * nat * nat);  (* ghost: (client, uuid, mailbox) of every accepted submission *)
  subs : list nat;                (* ghost: uuids already used by a client submit *)
  budget : nat                    (* spontaneous sends (EEmit/EFinish/ECall) still to come *)
}.

Inductive event :=
| ECrash (n : nat)                         (* SIGKILL of a worker or manager *)
| ERecv (up : bool) (c k : nat)            (* the receiver of FIFO (up, c) reads: a message, or EOF.  k: how many
                                              messages have arrived when a *client* polls (k = len+1: EOF too) *)
| ECall (c : nat) (r : creq) (k : nat)     (* client c calls submit/result/status; k as above for the pre-drain *)
| EFinish (w t : nat)                      (* worker w: Return of root task t -> RESULT(t, out t) upwards *)
| EEmit (up : bool) (c tag : nat)          (* ordinary message put on FIFO (up, c) by its (live, open) sender *)
| EFail (w : nat).                         (* worker w: exception in runtime code (Worker._loop): ERROR(str) upwards,
                                              _running = False, the process leaves start_worker and exits *)

Definition upd {A} (f : nat -> A) (i : nat) (v : A) : nat -> A :=
  fun j => if Nat.eqb j i then v else f j.

Section Model.
Variable T : list (kind * nat).    (* topology *)
Variable attached : bool.          (* node 0 is an AttachedServer *)
Variable out : nat -> nat.         (* the complete output of root task t *)

Definition N := length T.
Definition kindof (n : nat) : kind := fst (nth n T (KWorker, 0)).
Definition par (n : nat) : nat := snd (nth n T (KWorker, 0)).
Definition is_client (n : nat) : bool := match kindof n with KClient => true | _ => false end.
Definition is_child (p c : nat) : bool := (0 <? c) && (c <? N) && (par c =? p).

(* parents precede children; node 0 is the only server; clients hang off the server;
   workers and clients are leaves *)
Definition wf_node (i : nat) (x : kind * nat) : bool :=
  let '(k, p) := x in
  match i with
  | 0 => match k with KServer => Nat.eqb p 0 | _ => false end
  | _ => (p <? i) && match k with
                     | KServer => false
                     | KClient => Nat.eqb p 0
                     | _ => match kindof p with KServer | KManager => true | _ => false end
                     end
  end.
Fixpoint wf_from (i : nat) (l : list (kind * nat)) : bool :=
  match l with
  | [] => true
  | x :: r => wf_node i x && wf_from (S i) r
  end.
Definition wf_topo : bool := wf_from 0 T && (0 <? N).

Definition init (b : nat) : state := {|
  alive := fun n => n <? N;
  cend := fun c => (0 <? c) && (c <? N);
  pend := fun c => (0 <? c) && (c <? N);
  upq := fun _ => []; downq := fun _ => [];
  tasks := []; ctr := 0;
  blocked := fun _ => None; outcomes := fun _ => [];
  fin := []; owns := []; subs := []; budget := b |}.

(* ---- small setters ------------------------------------------------------------ *)
Definition set_alive s f := {| alive := f; cend := cend s; pend := pend s; upq := upq s; downq := downq s;
  tasks := tasks s; ctr := ctr s; blocked := blocked s; outcomes := outcomes s; fin := fin s; owns := owns s;
  subs := subs s; budget := budget s |}.
Definition set_cend s f := {| alive := alive s; cend := f; pend := pend s; upq := upq s; downq := downq s;
  tasks := tasks s; ctr := ctr s; blocked := blocked s; outcomes := outcomes s; fin := fin s; owns := owns s;
  subs := subs s; budget := budget s |}.
Definition set_pend s f := {| alive := alive s; cend := cend s; pend := f; upq := upq s; downq := downq s;
  tasks := tasks s; ctr := ctr s; blocked := blocked s; outcomes := outcomes s; fin := fin s; owns := owns s;
  subs := subs s; budget := budget s |}.
Definition set_upq s f := {| alive := alive s; cend := cend s; pend := pend s; upq := f; downq := downq s;
  tasks := tasks s; ctr := ctr s; blocked := blocked s; outcomes := outcomes s; fin := fin s; owns := owns s;
  subs := subs s; budget := budget s |}.
Definition set_downq s f := {| alive := alive s; cend := cend s; pend := pend s; upq := upq s; downq := f;
  tasks := tasks s; ctr := ctr s; blocked := blocked s; outcomes := outcomes s; fin := fin s; owns := owns s;
  subs := subs s; budget := budget s |}.
Definition set_tasks s f := {| alive := alive s; cend := cend s; pend := pend s; upq := upq s; downq := downq s;
  tasks := f; ctr := ctr s; blocked := blocked s; outcomes := outcomes s; fin := fin s; owns := owns s;
  subs := subs s; budget := budget s |}.
Definition set_client s b o := {| alive := alive s; cend := cend s; pend := pend s; upq := upq s; downq := downq s;
  tasks := tasks s; ctr := ctr s; blocked := b; outcomes := o; fin := fin s; owns := owns s;
  subs := subs s; budget := budget s |}.
Definition set_budget s b := {| alive := alive s; cend := cend s; pend := pend s; upq := upq s; downq := downq s;
  tasks := tasks s; ctr := ctr s; blocked := blocked s; outcomes := outcomes s; fin := fin s; owns := owns s;
  subs := subs s; budget := b |}.

(* conn.send on this side's open endpoint (a send on a closed Connection is dropped:
   send_outgoing skips closed connections, initiate_shutdown swallows the error) *)
Definition send_up s c m :=
  set_upq s (fun j => if Nat.eqb j c && cend s c then upq s j ++ [m] else upq s j).
Definition send_down s c m :=
  set_downq s (fun j => if Nat.eqb j c && pend s c then downq s j ++ [m] else downq s j).

(* ---- ServerBase.handle_shutdown (+ Manager / DetachedServer overrides) ------------
   running = False; SHUTDOWN to every employee; close every employee connection;
   Manager: SHUTDOWN upstream, close upstream; server: close every client connection.
   The process then leaves run() and exits. *)
Definition shutdown (p : nat) (s : state) : state :=
  let s1 := set_downq s (fun c => if is_child p c && negb (is_client c) && pend s c
                                  then downq s c ++ [MShutdown] else downq s c) in
  let s2 := set_pend s1 (fun c => if is_child p c then false else pend s c) in
  let s3 := send_up s2 p MShutdown in
  let s4 := set_cend s3 (upd (cend s3) p false) in
  set_alive s4 (upd (alive s4) p false).

(* DetachedServer.handle_system_error: ERROR to every connected client, then shutdown *)
Definition sys_error (p : nat) (s : state) : state :=
  let s1 := set_downq s (fun c => if is_child p c && is_client c && pend s c
                                  then downq s c ++ [SError] else downq s c) in
  shutdown p s1.

(* SIGKILL / os.kill(getpid(), SIGKILL): every endpoint of the process closes *)
Definition die (n : nat) (s : state) : state :=
  let s1 := set_pend s (fun c => if is_child n c then false else pend s c) in
  let s2 := set_cend s1 (upd (cend s1) n false) in
  set_alive s2 (upd (alive s2) n false).

(* ---- server tables ---------------------------------------------------------------- *)
Fixpoint find_u (u : nat) (l : list task) : option task :=
  match l with [] => None | t :: r => if Nat.eqb (t_u t) u then Some t else find_u u r end.
Fixpoint find_mb (m : nat) (l : list task) : option task :=
  match l with [] => None | t :: r => if Nat.eqb (t_mb t) m then Some t else find_mb m r end.
Fixpoint repl (t' : task) (l : list task) : list task :=
  match l with [] => [] | t :: r => if Nat.eqb (t_mb t) (t_mb t') then t' :: r else t :: repl t' r end.

Definition srv_submit (c u : nat) (s : state) : state :=       (* handle_new_comp_task *)
  let t := {| t_u := u; t_mb := ctr s; t_owner := c; t_res := None; t_wait := false; t_deliv := false |} in
  {| alive := alive s; cend := cend s; pend := pend s; upq := upq s; downq := downq s;
     tasks := t :: tasks s; ctr := S (ctr s); blocked := blocked s; outcomes := outcomes s; fin := fin s;
     owns := (c, u, ctr s) :: owns s; subs := subs s; budget := budget s |}.

(* closing one client connection in detached mode (handle_disconnect of a client):
   its tasks leave the tables *)
Definition drop_client (c : nat) (s : state) : state :=
  let s1 := set_pend s (upd (pend s) c false) in
  set_tasks s1 (filter (fun t => negb (Nat.eqb (t_owner t) c)) (tasks s1)).

Definition client_gone (p c : nat) (s : state) : state :=    (* Detached/AttachedServer.handle_disconnect(client) *)
  if attached then shutdown p s else drop_client c s.

Definition srv_request (p c u : nat) (s : state) : state :=      (* handle_request *)
  match find_u u (tasks s) with
  | Some t =>
    if Nat.eqb (t_owner t) c && negb (t_deliv t) then
      match t_res t with
      | Some v => send_down (set_tasks s (repl {| t_u := t_u t; t_mb := t_mb t; t_owner := t_owner t;
                    t_res := t_res t; t_wait := t_wait t; t_deliv := true |} (tasks s))) c (SResult u v)
      | None => set_tasks s (repl {| t_u := t_u t; t_mb := t_mb t; t_owner := t_owner t;
                    t_res := None; t_wait := true; t_deliv := false |} (tasks s))
      end
    else client_gone p c (send_down s c SError)                 (* 'Unknown task.' + disconnect: bad client *)
  | None => client_gone p c (send_down s c SError)
  end.

Definition srv_status (p c u : nat) (s : state) : state :=       (* handle_status (inside its envelope) *)
  match find_u u (tasks s) with
  | Some t =>
    if Nat.eqb (t_owner t) c && negb (t_deliv t) then
      send_down s c (SStatus u (match t_res t with Some _ => true | None => false end))
    else sys_error p s          (* KeyError in the handler => run()'s except => handle_system_error (D4, C13) *)
  | None => sys_error p s
  end.

Definition srv_result (m v : nat) (s : state) : state :=       (* handle_result, return address = client *)
  match find_mb m (tasks s) with
  | Some t =>
    if t_deliv t then s                                          (* mailbox popped: silently discarded *)
    else if t_wait t then
      send_down (set_tasks s (repl {| t_u := t_u t; t_mb := t_mb t; t_owner := t_owner t;
                    t_res := Some v; t_wait := true; t_deliv := true |} (tasks s))) (t_owner t) (SResult (t_u t) v)
    else set_tasks s (repl {| t_u := t_u t; t_mb := t_mb t; t_owner := t_owner t;
                    t_res := Some v; t_wait := false; t_deliv := false |} (tasks s))
  | None => s
  end.

(* ---- receiving at a boss from below (FIFO up c, reader p = par c) --------------------- *)
Definition server_from_employee (p c : nat) (m : option msg) (s : state) : state :=
  match m with
  | None =>                                                    (* EOF: handle_disconnect => handle_shutdown *)
    if attached then shutdown p s       (* AttachedServer.handle_disconnect: no unregister/close of that connection first,
                                           so the SHUTDOWN broadcast is also written to the dead employee *)
    else shutdown p (set_pend s (upd (pend s) c false))
  | Some MShutdown => shutdown p s
  | Some MSysErr => sys_error p s
  | Some (MResult t v) => srv_result t v s
  | Some _ => s
  end.

Definition server_from_client (p c : nat) (m : option msg) (s : state) : state :=
  match m with
  | None => client_gone p c s
  | Some (CSubmit u) => srv_submit c u s
  | Some (CRequest u) => srv_request p c u s
  | Some (CStatus u) => srv_status p c u s
  | Some _ => sys_error p s                                      (* 'Unexpected message type' raised in the loop *)
  end.

Definition mgr_from_below (p c : nat) (m : option msg) (s : state) : state :=
  match m with
  | None => shutdown p (set_pend s (upd (pend s) c false))     (* employee EOF *)
  | Some MShutdown => send_up s p MShutdown                    (* "forward all other messages up" *)
  | Some MSysErr => send_up s p MSysErr
  | Some (MResult t v) => send_up s p (MResult t v)            (* destination -1 is not my worker *)
  | Some _ => s
  end.

Definition recv_up (c : nat) (s : state) : option state :=
  let p := par c in
  if (0 <? c) && (c <? N) && alive s p && pend s c then
    let '(m, s1) := match upq s c with
                    | x :: r => (Some (Some x), set_upq s (upd (upq s) c r))
                    | [] => (if cend s c then None else Some None, s)
                    end in
    match m with
    | None => None
    | Some m =>
      match kindof p with
      | KServer => Some (if is_client c then server_from_client p c m s1 else server_from_employee p c m s1)
      | KManager => Some (mgr_from_below p c m s1)
      | _ => None
      end
    end
  else None.

(* ---- receiving from above (FIFO down c, reader c) -------------------------------------- *)
Definition mgr_from_above (c : nat) (m : option msg) (s : state) : state :=
  match m with
  | None =>       (* Manager.handle_disconnect(upstream): unregister + close, then - the boss is lost - handle_shutdown
                     (repo commit ddab951; before it the manager only closed the connection and kept running) *)
    shutdown c (set_cend s (upd (cend s) c false))
  | Some MShutdown => shutdown c s
  | Some _ => s
  end.

Definition worker_from_above (c : nat) (m : option msg) (s : state) : state :=
  match m with
  | None => die c s
  | Some MShutdown => die c s
  | Some _ => s
  end.

(* Compiler._recv_handle_log_error over the messages that have arrived *)
Inductive cres := CBlock | CRaise | CRet (m : msg).
Fixpoint crecv (arr : list msg) (eof : bool) (got : option msg) : cres :=
  match arr with
  | [] => if eof then CRaise else match got with Some m => CRet m | None => CBlock end
  | MOrd _ :: r => crecv r eof got
  | SError :: _ => CRaise
  | m :: r => crecv r eof (Some m)
  end.

(* Compiler._recv_log_error_until_empty: true = drained without raising.  An ERROR raises, anything that
   is neither LOG nor ERROR is an 'Unexpected message type', and a LOG payload is the pickled bytes the server
   forwarded, on which `payload.name` raises AttributeError: every arrived message makes the call fail. *)
Definition cdrain (arr : list msg) : bool :=
  match arr with [] => true | _ => false end.

(* _send_recv's except branch: conn = None, close() *)
Definition client_raise (c : nat) (s : state) : state :=
  let s1 := set_cend s (upd (cend s) c false) in
  set_client s1 (upd (blocked s1) c None) (upd (outcomes s1) c (ORaised :: outcomes s1 c)).

Definition client_return (c : nat) (o : outcome) (s : state) : state :=
  set_client s (upd (blocked s) c None) (upd (outcomes s) c (o :: outcomes s c)).

Definition answer (r : creq) (m : msg) : option outcome :=
  match r, m with
  | RResult _, SResult u v => Some (OResult u v)
  | RStatus _, SStatus u d => Some (OStatus u d)
  | _, _ => None                                               (* 'Unexpected message type' *)
  end.

(* how much has arrived: k messages, or everything and the EOF when k = len + 1 *)
Definition arrived (q : list msg) (sender_open : bool) (k : nat) : option (list msg * bool) :=
  if k <=? length q then Some (firstn k q, false)
  else if Nat.eqb k (S (length q)) && negb sender_open then Some (q, true) else None.

Definition client_recv (c k : nat) (s : state) : option state :=
  match blocked s c with
  | None => None
  | Some r =>
    if 0 <? k then
      match arrived (downq s c) (pend s c) k with
      | None => None
      | Some (arr, eof) =>
        let s1 := set_downq s (upd (downq s) c (skipn k (downq s c))) in
        match crecv arr eof None with
        | CBlock => Some s1
        | CRaise => Some (client_raise c s1)
        | CRet m => match answer r m with
                    | Some o => Some (client_return c o s1)
                    | None => Some (client_raise c s1)
                    end
        end
      end
    else None
  end.

Definition recv_down (c k : nat) (s : state) : option state :=
  if (0 <? c) && (c <? N) && alive s c && cend s c then
    match kindof c with
    | KClient => client_recv c k s
    | KServer => None
    | kd =>
      let '(m, s1) := match downq s c with
                      | x :: r => (Some (Some x), set_downq s (upd (downq s) c r))
                      | [] => (if pend s c then None else Some None, s)
                      end in
      match m with
      | None => None
      | Some m => Some (match kd with KManager => mgr_from_above c m s1 | _ => worker_from_above c m s1 end)
      end
    end
  else None.

(* ---- client calls ------------------------------------------------------------------------ *)
Definition req_msg (r : creq) : msg :=
  match r with RSubmit u => CSubmit u | RResult u => CRequest u | RStatus u => CStatus u end.

Definition call (c : nat) (r : creq) (k : nat) (s : state) : option state :=
  if (0 <? c) && (c <? N) && is_client c && alive s c
     && match blocked s c with None => true | Some _ => false end
     && match r with RSubmit u => negb (existsb (Nat.eqb u) (subs s)) | _ => true end then
    if cend s c then
      match budget s, arrived (downq s c) (pend s c) k with
      | S b, Some (arr, eof) =>
        let s1 := set_downq s (upd (downq s) c (skipn k (downq s c))) in
        if cdrain arr && negb eof then
          let s2 := set_budget (send_up s1 c (req_msg r)) b in
          match r with
          | RSubmit u =>
            let s3 := client_return c (OSubmitted u) s2 in
            Some {| alive := alive s3; cend := cend s3; pend := pend s3; upq := upq s3; downq := downq s3;
                    tasks := tasks s3; ctr := ctr s3; blocked := blocked s3; outcomes := outcomes s3;
                    fin := fin s3; owns := owns s3; subs := u :: subs s3; budget := budget s3 |}
          | _ => Some (set_client s2 (upd (blocked s2) c (Some r)) (outcomes s2))
          end
        else Some (client_raise c s1)
      | _, _ => None
      end
    else Some (client_raise c s)                               (* 'Connection unexpectedly none.' *)
  else None.

(* ---- the step function -------------------------------------------------------------------- *)
Definition crashable (n : nat) : bool :=
  (n <? N) && match kindof n with KWorker | KManager => true | _ => false end.

Definition step (s : state) (e : event) : option state :=
  match e with
  | ECrash n => if crashable n && alive s n then Some (die n s) else None
  | ERecv true c _ => recv_up c s
  | ERecv false c k => recv_down c k s
  | ECall c r k => call c r k s
  | EFinish w t =>
    match budget s with
    | S b =>
      if (w <? N) && match kindof w with KWorker => true | _ => false end && alive s w && cend s w then
        let s1 := send_up s w (MResult t (out t)) in
        Some {| alive := alive s1; cend := cend s1; pend := pend s1; upq := upq s1; downq := downq s1;
                tasks := tasks s1; ctr := ctr s1; blocked := blocked s1; outcomes := outcomes s1;
                fin := t :: fin s1; owns := owns s1; subs := subs s1; budget := b |}
      else None
    | 0 => None
    end
  | EEmit true c tag =>
    match budget s with
    | S b => if (0 <? c) && (c <? N) && negb (is_client c) && alive s c && cend s c
             then Some (set_budget (send_up s c (MOrd tag)) b) else None
    | 0 => None
    end
  | EEmit false c tag =>
    match budget s with
    | S b => if (0 <? c) && (c <? N) && alive s (par c) && pend s c
             then Some (set_budget (send_down s c (MOrd tag)) b) else None
    | 0 => None
    end
  | EFail w =>
    if (w <? N) && match kindof w with KWorker => true | _ => false end && alive s w
    then Some (die w (send_up s w MSysErr)) else None
  end.

Fixpoint run (s : state) (es : list event) : option state :=
  match es with
  | [] => Some s
  | e :: r => match step s e with Some s' => run s' r | None => None end
  end.

(* ---- observations ---------------------------------------------------------------------------- *)
Definition is_recv (e : event) : bool := match e with ERecv _ _ _ => true | _ => false end.

(* some receive event is enabled on link c (for a client: with one arrived item) *)
Definition recv_enabled (s : state) (c : nat) : bool :=
  match recv_up c s with Some _ => true | None =>
  match recv_down c 1 s with Some _ => true | None => false end end.

Fixpoint any_below (n : nat) (f : nat -> bool) : bool :=
  match n with 0 => false | S m => f m || any_below m f end.
Fixpoint all_below (n : nat) (f : nat -> bool) : bool :=
  match n with 0 => true | S m => f m && all_below m f end.

Definition quiescent (s : state) : bool := negb (any_below N (recv_enabled s)).

(* every runtime process is gone, every client connection is closed on the server side,
   and no client is still inside a call *)
Definition all_down (s : state) : bool :=
  all_below N (fun n => if is_client n
                        then negb (pend s n) && match blocked s n with None => true | Some _ => false end
                        else negb (alive s n)).

(* the variant: strictly decreased by every ERecv, never increased by any event *)
Fixpoint sumn (n : nat) (f : nat -> nat) : nat :=
  match n with 0 => 0 | S m => f m + sumn m f end.
Definition wlink (s : state) (c : nat) : nat :=
  (2 + c) * length (upq s c) + length (downq s c)
  + (if pend s c then 3 else 0) + (if cend s c then 2 * (2 + c) else 0).
Definition variant (s : state) : nat := sumn N (wlink s) + (2 + N) * budget s.

End Model.
