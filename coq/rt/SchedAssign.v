(* C15 - assign_tasks / schedule_tasks: every task is assigned to exactly one employee.
   Proofs about the definitions of rt/Sched.v (which call the generated arithmetic). *)
From Coq Require Import ZArith List Bool Arith Lia ZifyBool Permutation.
From BQ Require Import rt.SchedPre gen.SchedArith rt.SchedArithThm rt.Sched.
Import ListNotations.
Open Scope Z_scope.

(* ---------- small list facts ---------- *)

Lemma upd_length {A} i (f : A -> A) l : length (upd i f l) = length l.
Proof. revert i; induction l; intros [|i]; simpl; auto. Qed.

Lemma nth_error_upd_eq {A} i (f : A -> A) l x : nth_error l i = Some x -> nth_error (upd i f l) i = Some (f x).
Proof. revert i; induction l; intros [|i]; simpl; intros H; try discriminate; [inversion H; reflexivity|auto]. Qed.

Lemma nth_error_upd_neq {A} i j (f : A -> A) l : i <> j -> nth_error (upd i f l) j = nth_error l j.
Proof. revert i j; induction l; intros [|i] [|j]; simpl; intros H; auto; congruence. Qed.

Lemma upd_none {A} i (f : A -> A) l : nth_error l i = None -> upd i f l = l.
Proof. revert i; induction l; intros [|i]; simpl; intros H; auto; try discriminate. f_equal; auto. Qed.

Lemma is_perm_spec a b : is_perm a b = true <-> Permutation a b.
Proof.
  unfold is_perm. rewrite forallb_forall. split.
  - intros H. apply (Permutation_count_occ Nat.eq_dec). intros x.
    destruct (in_dec Nat.eq_dec x (a ++ b)) as [Hin|Hn].
    + apply Nat.eqb_eq. auto.
    + assert (~ In x a /\ ~ In x b) as [Ha Hb] by (split; intro; apply Hn; apply in_or_app; auto).
      rewrite (proj1 (count_occ_not_In Nat.eq_dec a x) Ha), (proj1 (count_occ_not_In Nat.eq_dec b x) Hb). reflexivity.
  - intros P x _. apply Nat.eqb_eq. apply (Permutation_count_occ Nat.eq_dec); assumption.
Qed.

(* ---------- add_at / zip_assign / least_loaded ---------- *)

Lemma add_at_some {A} : forall (a : list (list A)) i x, (i < length a)%nat ->
  exists a', add_at i x a = Some a' /\ length a' = length a /\ Permutation (concat a') (x :: concat a)
             /\ nth_error a' i = option_map (fun l => l ++ [x]) (nth_error a i)
             /\ forall j, j <> i -> nth_error a' j = nth_error a j.
Proof.
  induction a as [|l a IH]; intros [|i] x H; simpl in H; try lia.
  - simpl. eexists. split; [reflexivity|]. simpl. split; [reflexivity|]. split.
    + rewrite <- app_assoc. simpl. symmetry. apply Permutation_middle.
    + split; [reflexivity|]. intros [|j] Hj; [congruence|reflexivity].
  - destruct (IH i x ltac:(lia)) as (a' & E & Hl & Hp & Hn & Ho). simpl. rewrite E. simpl.
    eexists. split; [reflexivity|]. simpl. split; [lia|]. split.
    + rewrite Hp. symmetry. apply Permutation_middle.
    + split; [exact Hn|]. intros [|j] Hj; [reflexivity|]. simpl. apply Ho. congruence.
Qed.

Lemma zip_assign_spec {A} : forall sh (ts : list A) a, (forall i, In i sh -> (i < length a)%nat) ->
  exists a', zip_assign sh ts a = Some a' /\ length a' = length a
             /\ Permutation (concat a') (concat a ++ firstn (length sh) ts).
Proof.
  induction sh as [|i sh IH]; intros ts a Hin.
  - simpl. exists a. rewrite app_nil_r. auto.
  - destruct ts as [|t ts].
    + simpl. exists a. rewrite app_nil_r. auto.
    + simpl. destruct (add_at_some a i t (Hin i (or_introl eq_refl))) as (a1 & E & Hl & Hp & _).
      rewrite E. destruct (IH ts a1) as (a' & E' & Hl' & Hp').
      { intros j Hj. rewrite Hl. apply Hin. right. exact Hj. }
      exists a'. split; [exact E'|]. split; [congruence|].
      rewrite Hp', Hp. simpl. apply Permutation_cons_app. reflexivity.
Qed.

Lemma insert3_in x y l : In x (insert3 y l) <-> x = y \/ In x l.
Proof.
  induction l as [|z l IH]; simpl.
  - intuition.
  - destruct (lt3 z y); simpl; rewrite ?IH; intuition.
Qed.

Lemma sort3_in x l : In x (sort3 l) <-> In x l.
Proof.
  unfold sort3. induction l as [|y l IH]; simpl; [tauto|]. rewrite insert3_in, IH. intuition.
Qed.

Lemma insert3_nonempty y l : insert3 y l <> [].
Proof. destruct l; simpl; [discriminate|]. destruct (lt3 _ _); discriminate. Qed.

Lemma least_loaded_spec {A} : forall (rem : list A) nt a,
  (forall x, In x nt -> (snd x < length a)%nat) -> (nt <> [] \/ rem = []) ->
  exists a', least_loaded rem nt a = Some a' /\ length a' = length a /\ Permutation (concat a') (concat a ++ rem).
Proof.
  induction rem as [|t rem IH]; intros nt a Hin Hne.
  - simpl. exists a. rewrite app_nil_r. auto.
  - simpl. destruct nt as [|[[m r] i] nt]; [destruct Hne; congruence|].
    destruct (add_at_some a i t (Hin (m, r, i) (or_introl eq_refl))) as (a1 & E & Hl & Hp & _).
    rewrite E. destruct (IH (insert3 (m + 1, r, i) nt) a1) as (a' & E' & Hl' & Hp').
    { intros x Hx. apply insert3_in in Hx. rewrite Hl. destruct Hx as [->|Hx].
      - apply (Hin (m, r, i)). left. reflexivity.
      - apply Hin. right. exact Hx. }
    { left. apply insert3_nonempty. }
    exists a'. split; [exact E'|]. split; [congruence|].
    rewrite Hp', Hp. simpl. apply Permutation_cons_app. reflexivity.
Qed.

(* ---------- idle_ids ---------- *)

Lemma idle_ids_range_aux : forall es k i,
  In i (concat (map (fun ie => repeat (fst ie) (Z.to_nat (e_num_idle (snd ie)))) (combine (seq k (length es)) es))) ->
  (k <= i < k + length es)%nat.
Proof.
  induction es as [|e es IH]; intros k i H; simpl in H; [contradiction|].
  apply in_app_or in H. destruct H as [H|H].
  - apply repeat_spec in H. simpl. lia.
  - apply IH in H. simpl. lia.
Qed.

Lemma idle_ids_range es i : In i (idle_ids es) -> (i < length es)%nat.
Proof. intros H. apply idle_ids_range_aux in H. lia. Qed.

(* ---------- C15_assign_partition ---------- *)

Lemma map_nil_length {A B} (l : list A) : length (map (fun _ => @nil B) l) = length l.
Proof. apply map_length. Qed.

Lemma concat_map_nil {A B} (l : list A) : concat (map (fun _ => @nil B) l) = [].
Proof. induction l; simpl; auto. Qed.

Theorem assign_tasks_partition {A} es (ts : list A) sh rs :
  es <> [] -> Permutation sh (idle_ids es) -> length rs = length es ->
  exists a, assign_tasks es ts sh rs = Some a /\ length a = length es /\ Permutation (concat a) ts.
Proof.
  intros Hne Hp Hrs. unfold assign_tasks.
  destruct (zip_assign_spec sh ts (map (fun _ => []) es)) as (a1 & E1 & Hl1 & Hp1).
  { intros i Hi. rewrite map_nil_length. apply idle_ids_range. eapply Permutation_in; eassumption. }
  rewrite E1. rewrite map_nil_length in Hl1. rewrite concat_map_nil in Hp1. simpl in Hp1. cbv zeta.
  assert (Hlen : zlen (map Z.of_nat sh) = zlen sh) by (unfold zlen; rewrite map_length; reflexivity).
  destruct (assign_no_remaining (assign_num_remaining ts (map Z.of_nat sh))) eqn:En.
  - exists a1. split; [reflexivity|]. split; [exact Hl1|].
    apply assign_no_split in En. rewrite map_length in En.
    rewrite Hp1, firstn_all2 by lia. reflexivity.
  - destruct (assign_split ts (map Z.of_nat sh) En) as [Hs _]. rewrite map_length in Hs.
    match goal with |- context [least_loaded ?r ?nt a1] => destruct (least_loaded_spec r nt a1) as (a' & E' & Hl' & Hp') end.
    { intros x Hx. apply (proj1 (sort3_in _ _)) in Hx. apply in_map_iff in Hx. destruct Hx as ([[i e] r] & <- & Hx). simpl.
      apply in_combine_l in Hx. apply in_combine_l in Hx. apply in_seq in Hx. lia. }
    { left. intros Hnil.
      destruct es as [|e es]; [congruence|]. destruct rs as [|r rs]; [simpl in Hrs; lia|].
      simpl in Hnil. apply (insert3_nonempty _ _ Hnil). }
    exists a'. split; [exact E'|]. split; [lia|].
    rewrite Hp', Hp1, <- Permutation_rev, Hs. reflexivity.
Qed.

(* ---------- schedule_tasks ---------- *)

(* what the per-employee loop body does to one employee given its assignment *)
Definition upd_emp (e : employee) (a : list task) : employee :=
  match a with
  | [] => e
  | t :: _ => mkEmp (e_total e) (e_num_tasks e + zlen a) (e_num_idle e - Z.min (zlen a) (e_num_idle e))
                    (e_cache e ++ [(tid t, zlen a)])
  end.

Definition outs_of (i : nat) (a : list task) : list (action task) :=
  match a with [] => [] | _ => [APut (Z.of_nat i) M_SUBMIT_BATCH (PTasks a)] end.

Lemma sched_one_spec i e a : sched_one i e a = Ok (upd_emp e a, outs_of i a).
Proof.
  unfold sched_one, upd_emp, outs_of. destruct a as [|t ts].
  - rewrite schedule_body_empty. simpl. destruct e; reflexivity.
  - rewrite schedule_body_cons. reflexivity.
Qed.

Lemma sched_all_spec : forall es asg i, length asg = length es ->
  exists xs, sched_all i es asg = Ok xs /\ length xs = length es /\
    forall j e a, nth_error es j = Some e -> nth_error asg j = Some a ->
                  nth_error xs j = Some (upd_emp e a, outs_of (i + j) a).
Proof.
  induction es as [|e es IH]; intros [|a asg] i Hl; simpl in Hl; try lia.
  - exists []. repeat split; auto. intros [|j]; discriminate.
  - simpl. rewrite sched_one_spec. simpl. destruct (IH asg (S i) ltac:(lia)) as (xs & E & Hx & Hn).
    rewrite E. simpl. eexists. split; [reflexivity|]. split; [simpl; lia|].
    intros [|j] e' a' He Ha; simpl in *.
    + inversion He; inversion Ha; subst. rewrite Nat.add_0_r. reflexivity.
    + rewrite (Hn j e' a' He Ha). repeat f_equal. lia.
Qed.

(* stable sort by insertion: a permutation *)
Lemma insert_desc_perm x l : Permutation (insert_desc x l) (x :: l).
Proof.
  induction l as [|y l IH]; simpl; [reflexivity|].
  destruct (fst x <? fst y); [|reflexivity]. rewrite IH. apply perm_swap.
Qed.

Lemma sort_desc_perm l : Permutation (fold_right insert_desc [] l) l.
Proof. induction l as [|x l IH]; simpl; [reflexivity|]. rewrite insert_desc_perm, IH. reflexivity. Qed.

Lemma batches_of_app a b : batches_of (a ++ b) = batches_of a ++ batches_of b.
Proof. unfold batches_of. rewrite map_app, concat_app. reflexivity. Qed.

Lemma batches_of_perm a b : Permutation a b -> Permutation (batches_of a) (batches_of b).
Proof.
  unfold batches_of. intros H. induction H; simpl; auto.
  - apply Permutation_app_head. assumption.
  - rewrite !app_assoc. apply Permutation_app_tail. apply Permutation_app_comm.
  - etransitivity; eassumption.
Qed.

Lemma concat_perm {A} (a b : list (list A)) : Permutation a b -> Permutation (concat a) (concat b).
Proof.
  intros H. induction H; simpl; auto.
  - apply Permutation_app_head. assumption.
  - rewrite !app_assoc. apply Permutation_app_tail. apply Permutation_app_comm.
  - etransitivity; eassumption.
Qed.

(* the SUBMIT_BATCH messages of one schedule_tasks call, listed by employee index *)
Fixpoint sends_by_index (i : nat) (asg : list (list task)) : list (nat * list task) :=
  match asg with
  | [] => []
  | a :: asg' => match a with [] => [] | _ => [(i, a)] end ++ sends_by_index (S i) asg'
  end.

Lemma batches_of_outs i a : batches_of (outs_of i a) = match a with [] => [] | _ => [(i, a)] end.
Proof. destruct a; simpl; [reflexivity|]. unfold batches_of. simpl. rewrite Nat2Z.id. reflexivity. Qed.

Lemma sends_by_index_spec : forall asg i j b, In (j, b) (sends_by_index i asg) <->
  exists k, j = (i + k)%nat /\ nth_error asg k = Some b /\ b <> [].
Proof.
  induction asg as [|a asg IH]; intros i j b; simpl.
  - split; [tauto|]. intros (k & _ & H & _). destruct k; discriminate.
  - rewrite in_app_iff, IH. split.
    + intros [H|(k & -> & Hk & Hb)].
      * destruct a; [contradiction|]. destruct H as [H|[]]. inversion H; subst.
        exists 0%nat. repeat split; [lia|discriminate].
      * exists (S k). repeat split; auto. lia.
    + intros ([|k] & -> & Hk & Hb); simpl in Hk.
      * inversion Hk; subst. left. destruct b; [congruence|]. left. f_equal. lia.
      * right. exists k. repeat split; auto. lia.
Qed.

Lemma sends_by_index_concat : forall asg i, concat (map snd (sends_by_index i asg)) = concat asg.
Proof.
  induction asg as [|a asg IH]; intros i; simpl; [reflexivity|].
  rewrite map_app, concat_app, IH. destruct a; simpl; rewrite ?app_nil_r; reflexivity.
Qed.

Lemma sends_by_index_fst_lt : forall asg i, Forall (fun s => (i <= fst s)%nat) (sends_by_index i asg).
Proof.
  induction asg as [|a asg IH]; intros i; simpl; [constructor|].
  apply Forall_app. split.
  - destruct a; constructor; simpl; auto.
  - eapply Forall_impl; [|apply IH]. simpl. intros; lia.
Qed.

Lemma sends_by_index_nodup : forall asg i, NoDup (map fst (sends_by_index i asg)).
Proof.
  induction asg as [|a asg IH]; intros i; simpl; [constructor|].
  rewrite map_app. destruct a; simpl; [apply IH|]. constructor; [|apply IH].
  intros H. apply in_map_iff in H. destruct H as (s & Hs & Hin).
  pose proof (sends_by_index_fst_lt asg (S i)) as F. rewrite Forall_forall in F. specialize (F s Hin). lia.
Qed.

Definition sched_result (s s' : server) (ts : list task) (sends : list (nat * list task)) : Prop :=
  exists asg : list (list task),
    length asg = length (s_emps s)
    /\ Permutation (concat asg) ts
    /\ length (s_emps s') = length (s_emps s)
    /\ (forall j e a, nth_error (s_emps s) j = Some e -> nth_error asg j = Some a ->
                      nth_error (s_emps s') j = Some (upd_emp e a))
    /\ Permutation sends (sends_by_index 0 asg)
    /\ s_num_idle s' = sumZ (map e_num_idle (s_emps s'))
    /\ s_lb s' = s_lb s /\ s_step s' = s_step s /\ s_total s' = s_total s.

Lemma map_snd_combine {A B} : forall (ks : list A) (os : list B), length ks = length os -> map snd (combine ks os) = os.
Proof. induction ks as [|k ks IH]; intros [|o os] H; simpl in *; try lia; [reflexivity|]. f_equal. apply IH. lia. Qed.

Lemma combine_map_fst_snd {A B} (l : list (A * B)) : combine (map fst l) (map snd l) = l.
Proof. induction l as [|[a b] l IH]; simpl; congruence. Qed.

Lemma outs_concat_sends : forall es asg xs i, length asg = length es -> length xs = length es ->
  (forall j e a, nth_error es j = Some e -> nth_error asg j = Some a -> nth_error xs j = Some (upd_emp e a, outs_of (i + j) a)) ->
  batches_of (concat (map snd xs)) = sends_by_index i asg.
Proof.
  induction es as [|e es IH]; intros [|a asg] [|x xs] i Hl Hx Hn; simpl in *; try lia; [reflexivity|].
  pose proof (Hn 0%nat e a eq_refl eq_refl) as H0. simpl in H0. inversion H0; subst x. simpl.
  rewrite batches_of_app, batches_of_outs, Nat.add_0_r. f_equal.
  apply (IH asg xs (S i)); try lia.
  intros j e' a' He Ha. specialize (Hn (S j) e' a' He Ha). simpl in Hn. rewrite Hn.
  replace (i + S j)%nat with (S i + j)%nat by lia. reflexivity.
Qed.

(* schedule_tasks on a node with at least one employee never raises; an enabled call assigns
   every task to exactly one employee and sends one non-empty batch per chosen employee *)
Theorem schedule_tasks_spec s ts sh rs : s_emps s <> [] ->
  match schedule_tasks s ts sh rs with
  | Done (s', sends) => (ts = [] /\ s' = s /\ sends = []) \/ (ts <> [] /\ sched_result s s' ts sends)
  | Disabled => True
  | Fault _ => False
  end.
Proof.
  intros Hne. unfold schedule_tasks.
  destruct (schedule_nothing ts) eqn:En.
  { left. apply schedule_nothing_spec in En. auto. }
  assert (Hts : ts <> []) by (intros ->; rewrite (proj2 (schedule_nothing_spec (@nil task)) eq_refl) in En; discriminate).
  destruct (is_perm sh (idle_ids (s_emps s)) && Nat.eqb (length rs) (length (s_emps s))) eqn:Eo; simpl; [|exact I].
  apply andb_true_iff in Eo. destruct Eo as [Ep El]. apply is_perm_spec in Ep. apply Nat.eqb_eq in El.
  destruct (assign_tasks_partition (s_emps s) ts sh rs Hne Ep El) as (asg & Ea & Hl & Hp). rewrite Ea.
  destruct (sched_all_spec (s_emps s) asg 0 Hl) as (xs & Ex & Hxl & Hxn). rewrite Ex. simpl.
  right. split; [exact Hts|].
  exists asg. simpl. repeat split; auto.
  - rewrite map_length. exact Hxl.
  - intros j e a He Ha. rewrite nth_error_map, (Hxn j e a He Ha). reflexivity.
  - rewrite <- (outs_concat_sends (s_emps s) asg xs 0 Hl Hxl Hxn).
    apply batches_of_perm. apply concat_perm.
    etransitivity; [apply Permutation_map; apply sort_desc_perm|].
    rewrite map_snd_combine; [reflexivity|]. rewrite !map_length. lia.
Qed.

(* what goes on the wire: one non-empty SUBMIT_BATCH per chosen employee, together they carry
   every task exactly once *)
Corollary schedule_sends_spec s ts sh rs s' sends : s_emps s <> [] ->
  schedule_tasks s ts sh rs = Done (s', sends) ->
  Permutation (concat (map snd sends)) ts /\ NoDup (map fst sends)
  /\ forall i b, In (i, b) sends -> b <> [] /\ (i < length (s_emps s))%nat.
Proof.
  intros Hne E. pose proof (schedule_tasks_spec s ts sh rs Hne) as S. rewrite E in S.
  destruct S as [(-> & -> & ->)|(Hts & asg & Hlen & Hperm & _ & _ & Hsends & _)].
  - simpl. split; [reflexivity|]. split; [constructor|]. intros i b [].
  - split; [|split].
    + rewrite (concat_perm _ _ (Permutation_map snd Hsends)), sends_by_index_concat. exact Hperm.
    + eapply Permutation_NoDup; [symmetry; apply Permutation_map; exact Hsends|]. apply sends_by_index_nodup.
    + intros i b Hin. apply (Permutation_in _ Hsends) in Hin. apply sends_by_index_spec in Hin.
      destruct Hin as (k & -> & Hk & Hb). split; [exact Hb|].
      assert ((k < length asg)%nat) by (apply nth_error_Some; congruence). simpl. lia.
Qed.
