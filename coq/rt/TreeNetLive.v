(* C07 (extension): progress of the routing layer of rt/TreeNet.v -- while a message is in flight some hop is enabled. *)
From Coq Require Import ZArith List Bool Arith Lia ZifyBool Permutation.
From BQ Require Import rt.SchedPre gen.SchedArith rt.SchedArithThm rt.Routing rt.TreeNet rt.TreeNetThm.
Import ListNotations.
Open Scope Z_scope.

(* every node has at least one employee (a manager started with zero workers cannot take tasks) *)
Fixpoint emp_pos (t : tree) : Prop :=
  match t with
  | Leaf n => (0 < n)%nat
  | Node cs => (fix all (l : list tree) : Prop := match l with [] => True | c :: r => emp_pos c /\ all r end) cs
  end.

Lemma emp_pos_child : forall cs i c, emp_pos (Node cs) -> nth_error cs i = Some c -> emp_pos c.
Proof.
  induction cs as [|c0 cs IH]; intros i c H Hn; [destruct i; discriminate|].
  simpl in H. destruct H as [H0 Hr]. destruct i as [|i]; simpl in Hn.
  - inversion Hn; subst. exact H0.
  - apply (IH i c); [exact Hr|exact Hn].
Qed.

Lemma emp_pos_node_at : forall q lb ub t lb' ub' t', emp_pos t -> node_at lb ub t q = Some (lb', ub', t') -> emp_pos t'.
Proof.
  induction q as [|i q IH]; intros lb ub t lb' ub' t' Hp H; simpl in H.
  - inversion H; subst. exact Hp.
  - destruct t as [n|cs]; [discriminate|]. destruct (nth_error cs i) as [c|] eqn:E; [|discriminate].
    eapply IH; [|exact H]. eapply emp_pos_child; eassumption.
Qed.

Lemma n_emp_pos lb ub t : wf lb ub t -> emp_pos t -> (1 <= n_emp t)%nat.
Proof.
  intros Hwf Hp. destruct t as [n|cs]; simpl in *; [lia|].
  apply wf_node_inv in Hwf. destruct Hwf as (Hne & _ & _). destruct cs; [congruence|simpl; lia].
Qed.

Definition dasg (k : nat) (ts : list nat) : list (list nat) := ts :: repeat [] (k - 1).

Lemma concat_repeat_nil {A} k : concat (repeat (@nil A) k) = [].
Proof. induction k; simpl; auto. Qed.

Lemma dasg_valid k ts : (1 <= k)%nat -> valid_asg k ts (dasg k ts) = true.
Proof.
  intros Hk. unfold valid_asg, dasg. cbn [concat length]. rewrite repeat_length, concat_repeat_nil, app_nil_r, perm_b_refl.
  rewrite andb_true_r. apply Nat.eqb_eq. lia.
Qed.

Lemma schedule_enabled q t ts : (1 <= n_emp t)%nat -> exists o, schedule q t ts (dasg (n_emp t) ts) = Some o.
Proof. intros Hk. unfold schedule. destruct ts; [eauto|]. rewrite dasg_valid by exact Hk. eauto. Qed.

Lemma take_head p d m l : take p d ((p, d, m) :: l) = Some (m, l).
Proof.
  simpl. unfold path_eqb. destruct (list_eq_dec Nat.eq_dec p p); [|congruence]. destruct d; reflexivity.
Qed.

Lemma finish_some s rest q r : exists s', finish s rest q (Some r) = Some s'.
Proof. destruct r; simpl; eauto. Qed.

(* progress of the routing layer: while a message is in flight some hop is enabled *)
Theorem tree_enabled LB UB T s : wf LB UB T -> 0 <= LB -> emp_pos T -> treach LB UB T s -> n_chan s <> [] ->
  exists e s', is_inject e = false /\ tstep LB UB T s e = Some s'.
Proof.
  intros Hwf HLB Hpos Hr Hne. pose proof (treach_inv LB UB T s Hwf HLB Hr) as Hi.
  destruct (n_chan s) as [|[[p d] m] rest] eqn:Ec; [congruence|]. clear Hne.
  pose proof (i_chan _ _ _ _ Hi) as Hf. rewrite Ec in Hf. inversion Hf as [|? ? Hm _]; subst.
  destruct (msg_ok_chan LB UB T _ _ _ Hm) as [(q & j & lb & ub & t & -> & Hn & Hj) _].
  pose proof (node_wf LB UB T Hwf _ _ _ _ Hn) as Hwt.
  pose proof (n_emp_pos _ _ _ Hwt (emp_pos_node_at _ _ _ _ _ _ _ Hpos Hn)) as Hk.
  destruct d.
  - (* Up: the parent q handles it *)
    assert (Hgen : forall asg, tstep LB UB T s (TDeliver (q ++ [j]) Up 0 asg) =
              match q with
              | [] => match handle_below_root lb ub t m asg with
                      | None => None
                      | Some (Ok (o, cl)) => Some (with_out s rest o cl)
                      | Some (Raise e) => Some (with_err s rest q (TExn e))
                      end
              | _ => finish s rest q (handle_below_mgr q lb ub t m 0 asg)
              end).
    { intros asg. unfold tstep. rewrite Ec, take_head, split_last_app, Hn.
      assert ((j <? n_emp t)%nat = true) as -> by (apply Nat.ltb_lt; exact Hj).
      rewrite (node_step_pos _ _ _ Hwt). destruct q; reflexivity. }
    destruct q as [|a q0].
    + simpl in Hn. inversion Hn; subst lb ub t.
      assert (exists r, handle_below_root LB UB T m (dasg (n_emp T) (tids_of m)) = Some r) as [r Hh].
      { destruct m as [rid dest by_|sg ts]; simpl.
        - destruct (get_employee_responsible_for LB (node_step LB UB T) (emps T) by_); [|eauto].
          destruct (dest =? -1); [eauto|]. destruct (send_result_down [] LB UB T (TRes rid dest by_) dest); eauto.
        - destruct (schedule_enabled [] T ts Hk) as [o ->]. eauto. }
      exists (TDeliver ([] ++ [j]) Up 0 (dasg (n_emp T) (tids_of m))). rewrite Hgen, Hh.
      destruct r as [[o cl]|e]; eauto.
    + exists (TDeliver ((a :: q0) ++ [j]) Up 0 []). rewrite Hgen.
      assert (exists r, handle_below_mgr (a :: q0) lb ub t m 0 [] = Some r) as [r Hh].
      { destruct m as [rid dest by_|sg ts]; simpl.
        - destruct (get_employee_responsible_for lb (node_step lb ub t) (emps t) by_); [|eauto].
          rewrite manager_handle_result_spec. simpl app.
          destruct (is_my_worker lb (node_step lb ub t) (node_employees t) dest); simpl.
          + destruct (send_result_down (a :: q0) lb ub t (TRes rid dest by_) dest); eauto.
          + eauto.
        - rewrite suos_form. simpl. destruct (0 <? zlen ts); simpl; eauto. }
      rewrite Hh. destruct (finish_some s rest (a :: q0) r) as [s' Hs']. exists s'. split; [reflexivity|exact Hs'].
  - (* Down: a manager handles it, or the worker receives it *)
    destruct (node_at LB UB T (q ++ [j])) as [[[lb' ub'] t']|] eqn:En'.
    + pose proof (node_wf LB UB T Hwf _ _ _ _ En') as Hwt'.
      pose proof (n_emp_pos _ _ _ Hwt' (emp_pos_node_at _ _ _ _ _ _ _ Hpos En')) as Hk'.
      exists (TDeliver (q ++ [j]) Down 0 (dasg (n_emp t') (tids_of m))). simpl tstep. rewrite Ec, take_head, En'.
      destruct (q ++ [j]) as [|a p0] eqn:Ep; [destruct q; discriminate|].
      rewrite (node_step_pos _ _ _ Hwt').
      assert (exists r, handle_above (a :: p0) lb' ub' t' m (dasg (n_emp t') (tids_of m)) = Some r) as [r Hh].
      { destruct m as [rid dest by_|sg ts]; simpl; [eauto|]. destruct ts as [|x ts]; [eauto|].
        destruct (schedule_enabled (a :: p0) t' (x :: ts) Hk') as [o ->]. eauto. }
      rewrite Hh. destruct (finish_some s rest (a :: p0) r) as [s' Hs']. exists s'. split; [reflexivity|exact Hs'].
    + exists (TWorkerRecv (q ++ [j])). simpl. rewrite Ec, take_head.
      assert (exists w, worker_at LB UB T (q ++ [j]) = Some w) as [w ->].
      { unfold worker_at. rewrite split_last_app, Hn. rewrite node_at_app, Hn in En'.
        destruct t as [n|cs].
        - simpl in Hj. assert ((j <? n)%nat = true) as -> by (apply Nat.ltb_lt; exact Hj). eauto.
        - simpl in Hj. destruct (nth_error cs j) eqn:E; [discriminate|]. apply nth_error_None in E. lia. }
      eauto.
Qed.
