From Coq Require Import List Arith Bool PeanoNat Lia Permutation.
Import ListNotations.
From BQ Require Import rt.WorkerM rt.wip_W1.

Lemma ret_of_cons_nonret : forall c r, (forall v, c <> Return v) -> ret_of (c :: r) = ret_of r.
Proof. intros. destruct c; simpl; auto. exfalso. eapply H; eauto. Qed.

(* what one coroutine segment does: it consumes a prefix of `rest`, creating the futures `es` *)
Definition run_post (rest : script) (w : wstate) (t : task) (w' : wstate) (t' : task) (y : yield) : Prop :=
  exists es consumed tail, rest = consumed ++ tail /\ specs_of consumed = es
   /\ w' = apply_eff w (t_comp t) es
   /\ t' = t_eff t (w_counter w) es (t_rest t') (t_pend t') (t_cnt t')
   /\ (y <> YRaise -> tail = t_rest t' /\ ret_of rest = ret_of tail)
   /\ (forall m nxt, y = YAwait m nxt ->
           (exists f n, pend_fut (t_pend t') = Some f /\ nth_error (t_futs t') f = Some (m, n)
                           /\ (t_pend t' = PendAwait f <-> nxt = false))
           /\ (nxt = true -> has_box w' m = true))
   /\ (forall v, y = YReturn v -> v = ret_of rest)
   /\ (y = YRaise -> t_rest t' = [Dead]).

Lemma t_eff_nil' : forall t c r p n,
  t_eff t c [] r p n = mkTask (t_addr t) (t_comp t) (t_script t) r (t_futs t) p n (t_desired t) (t_won t) (t_owned t).
Proof. intros. unfold t_eff. simpl. rewrite !app_nil_r. reflexivity. Qed.

Lemma run_post_nil_eff : forall rest consumed tail w t t' y,
  rest = consumed ++ tail -> specs_of consumed = [] ->
  t' = t_eff t (w_counter w) [] (t_rest t') (t_pend t') (t_cnt t') ->
  (y <> YRaise -> tail = t_rest t' /\ ret_of rest = ret_of tail) ->
  (forall m nxt, y = YAwait m nxt ->
           (exists f n, pend_fut (t_pend t') = Some f /\ nth_error (t_futs t') f = Some (m, n)
                           /\ (t_pend t' = PendAwait f <-> nxt = false))
           /\ (nxt = true -> has_box w m = true)) ->
  (forall v, y = YReturn v -> v = ret_of rest) ->
  (y = YRaise -> t_rest t' = [Dead]) ->
  run_post rest w t w t' y.
Proof. intros. exists [], consumed, tail. rewrite apply_eff_nil. auto 12. Qed.

Lemma run_post_step : forall c rest' w t sp w' t' y,
  (forall v, c <> Return v) -> specs_of [c] = [sp] ->
  run_post rest' (apply_eff w (t_comp t) [sp]) (t_eff t (w_counter w) [sp] (t_rest t) (t_pend t) (t_cnt t)) w' t' y ->
  run_post (c :: rest') w t w' t' y.
Proof.
  intros c rest' w t sp w' t' y Hc Hsp (es & cons & tail & Hsplit & Hspec & Hw & Ht & Htl & Hy & Hr & He).
  exists (sp :: es), (c :: cons), tail. simpl in Hw, Ht. rewrite Nat.add_1_r in *.
  split; [simpl; rewrite Hsplit; reflexivity|].
  split; [change (c :: cons) with ([c] ++ cons); rewrite specs_of_app, Hsp, Hspec; reflexivity|].
  split; [rewrite Hw; apply apply_eff_cons|].
  split; [rewrite Ht at 1; apply t_eff_cons|].
  split; [|split; [exact Hy|split; [|exact He]]].
  - intro E. destruct (Htl E) as (E1 & E2). split; auto.
    rewrite <- E2. apply ret_of_cons_nonret. auto.
  - intros v E. rewrite (Hr v E). symmetry. apply ret_of_cons_nonret. auto.
Qed.

Ltac run_raise H := unfold raised in H; injection H as <- <- <-;
  eapply (run_post_nil_eff _ [] _); simpl; try reflexivity; try discriminate; auto; try congruence;
  rewrite t_eff_nil'; reflexivity.

Lemma run_exact : forall rest w t w' t' y, run rest w t = (w', t', y) -> run_post rest w t w' t' y.
Proof.
  induction rest as [|c rest' IH]; intros w t w' t' y H.
  - simpl in H. injection H as <- <- <-. eapply (run_post_nil_eff _ [] []); simpl; try reflexivity; try discriminate; auto.
    + rewrite t_eff_nil'. reflexivity.
    + intros v E. injection E as <-. reflexivity.
  - destruct c as [child|children|f|f|f|v|]; cbn [run] in H.
    + rewrite do_submit_eff in H. apply IH in H.
      eapply (run_post_step _ _ _ _ (FSub child)); [intros; discriminate | reflexivity | exact H].
    + destruct children as [|c0 cs].
      * run_raise H.
      * rewrite do_map_eff in H. apply IH in H.
        eapply (run_post_step _ _ _ _ (FMap (c0 :: cs))); [intros; discriminate | reflexivity | exact H].
    + destruct (nth_error (t_futs t) f) as [[m n]|] eqn:E; [|run_raise H].
      injection H as <- <- <-. eapply (run_post_nil_eff _ [Await f] rest'); simpl; try reflexivity; try discriminate; auto.
      * rewrite t_eff_nil'. reflexivity.
      * intros m' nxt E'. injection E' as <- <-. split; [|discriminate].
        exists f, n. simpl. repeat split; auto.
    + destruct (nth_error (t_futs t) f) as [[m n]|] eqn:E; [|run_raise H].
      destruct (has_box w m) eqn:Hb; [|run_raise H].
      injection H as <- <- <-. eapply (run_post_nil_eff _ [Next f] rest'); simpl; try reflexivity; try discriminate; auto.
      * rewrite t_eff_nil'. reflexivity.
      * intros m' nxt E'. injection E' as <- <-. split; auto.
        exists f, n. simpl. repeat split; auto; discriminate.
    + destruct (nth_error (t_futs t) f) as [[m n]|] eqn:E; [|run_raise H].
      destruct (Nat.leb n (t_cnt t)) eqn:Hle.
      * apply IH in H. destruct H as (es & cons & tail & Hsplit & Hspec & Hw & Ht & Htl & Hy & Hr & He).
        exists es, (NextAll f :: cons), tail.
        split; [simpl; rewrite Hsplit; reflexivity|]. split; [exact Hspec|].
        split; [exact Hw|]. split; [exact Ht|]. split; [|split; [exact Hy|split; [|exact He]]].
        -- intro E'. destruct (Htl E') as (E1 & E2). split; auto.
        -- intros v E'. rewrite (Hr v E'). reflexivity.
      * destruct (has_box w m) eqn:Hb; [|run_raise H].
        injection H as <- <- <-. eapply (run_post_nil_eff _ [] (NextAll f :: rest')); simpl; try reflexivity; try discriminate; auto.
        -- rewrite t_eff_nil'. reflexivity.
        -- intros m' nxt E'. injection E' as <- <-. split; auto.
           exists f, n. simpl. repeat split; auto; discriminate.
    + injection H as <- <- <-. eapply (run_post_nil_eff _ [] (Return v :: rest')); simpl; try reflexivity; try discriminate; auto.
      * rewrite t_eff_nil'. reflexivity.
      * intros v' E. injection E as <-. reflexivity.
    + run_raise H.
Qed.
